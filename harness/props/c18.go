package props

// C18 — Multiproof block compression and compact block relay are lossless.
//
// Valid v2 blocks over real states come from the shared chain simulator
// (harness/internal/chain): many inputs sharing subtrees, trees of several heights,
// storage-proof chain indices, ephemeral parents; transaction SETS with the same leaf
// twice are constructed here on top of them.
//
// Statement-level oracle (Go only, no model):
//   * decode(encode(V2TransactionsMultiproof(txns))) equals txns transaction for
//     transaction and proof for proof (compared through the plain per-transaction
//     encoding, which contains every proof); the same for the V2Block codec: block ID
//     and commitment unchanged, consensus.ValidateBlock verdict unchanged;
//   * gateway.OutlineBlock with every subset of omitted transactions (all subsets for
//     small blocks, random ones above): same ID as the block; Missing = the omitted
//     hashes in block order; Complete with a pool that is a permuted superset (plus
//     decoys with altered proofs) returns exactly the block and nothing missing; with a
//     partial pool exactly the still-missing hashes, in block order; the outline codec
//     round-trips.
// Correspondence: computeMultiproof / multiproofSize / the numLeaves inference and
// decode (mp-compute, mp-codec, mp-expand) and OutlineBlock/Complete (ol-complete)
// against the Lean model.

import (
	"bytes"
	"encoding/binary"
	"fmt"
	"math/rand"
	"sort"
	"strings"
	"time"

	"go.sia.tech/core/consensus"
	"go.sia.tech/core/gateway"
	"go.sia.tech/core/types"
	"verif/harness/internal/chain"
	"verif/harness/internal/fw"
)

func init() { fw.Register("C18", runC18) }

type c18Run struct {
	c    *fw.Ctx
	ops  []string
	outs []string
}

func c18Enc(v types.EncoderTo) []byte { return chain.Encode(v) }

func c18CopyTxns(txns []types.V2Transaction) []types.V2Transaction {
	out := make([]types.V2Transaction, len(txns))
	for i := range txns {
		out[i] = txns[i].DeepCopy()
	}
	return out
}

// c18Leaves renders the non-ephemeral element leaves, in visiting order, for the model.
func c18Leaves(txns []types.V2Transaction, withProof bool) (string, int) {
	var ss []string
	types.VerifForEachElementLeaf(txns, func(l types.VerifElementLeaf) {
		if withProof {
			ss = append(ss, fmt.Sprintf("%d:%s:%s", l.SE.LeafIndex, accWHash(l.ElementHash), accWHashes(l.SE.MerkleProof)))
		} else {
			ss = append(ss, fmt.Sprintf("%d:%s:%d", l.SE.LeafIndex, accWHash(l.ElementHash), len(l.SE.MerkleProof)))
		}
	})
	return accWList(ss), len(ss)
}

func c18Proofs(txns []types.V2Transaction) string {
	var ss []string
	types.VerifForEachElementLeaf(txns, func(l types.VerifElementLeaf) {
		ss = append(ss, accWHashes(l.SE.MerkleProof))
	})
	return accWList(ss)
}

// c18TxnsEqual compares transaction sets bit for bit through the plain encoding
// (which writes every individual Merkle proof).
func c18TxnsEqual(a, b []types.V2Transaction) (bool, string) {
	if len(a) != len(b) {
		return false, fmt.Sprintf("%d transactions instead of %d", len(b), len(a))
	}
	for i := range a {
		if !bytes.Equal(c18Enc(a[i]), c18Enc(b[i])) {
			return false, fmt.Sprintf("transaction %d differs", i)
		}
	}
	return true, ""
}

// multiproof checks one transaction set whose proofs are valid for one state.
func (r *c18Run) multiproof(txns []types.V2Transaction, tag string, replay any) bool {
	res := r.c.Res
	ok := true
	orig := c18CopyTxns(txns)
	nLeaves := 0
	eph := 0
	seen := map[uint64]int{}
	types.VerifForEachElementLeaf(orig, func(l types.VerifElementLeaf) { nLeaves++; seen[l.SE.LeafIndex]++ })
	dups := 0
	for _, k := range seen {
		if k > 1 {
			dups++
		}
	}
	for _, t := range orig {
		for _, in := range t.SiacoinInputs {
			if in.Parent.StateElement.LeafIndex == types.UnassignedLeafIndex {
				eph++
			}
		}
		for _, in := range t.SiafundInputs {
			if in.Parent.StateElement.LeafIndex == types.UnassignedLeafIndex {
				eph++
			}
		}
	}
	res.Eval(tag+" "+fmt.Sprintf("%x", c18Enc(types.V2TransactionsMultiproof(orig))), nLeaves > 0)
	res.Count("multiproof:leaves=" + c05Bucket(nLeaves))
	if dups > 0 {
		res.Count("multiproof:sets-with-duplicate-leaf")
	}
	if eph > 0 {
		res.Count("multiproof:sets-with-ephemeral-parent")
	}
	// encode -> decode
	enc := c18Enc(types.V2TransactionsMultiproof(txns))
	if eq, _ := c18TxnsEqual(orig, txns); !eq {
		res.Violate(fw.Violation{Key: "c18-encode-mutates", What: "encoding a multiproof transaction set modified the caller's transactions", Replay: replay})
		ok = false
	}
	var dec types.V2TransactionsMultiproof
	d := types.NewBufDecoder(enc)
	var derr error
	if p, msg := fw.Recover(func() { dec.DecodeFrom(d); derr = d.Err() }); p {
		res.Violate(fw.Violation{Key: "c18-decode-panic", What: "decoding an honestly encoded multiproof set panicked: " + msg, Replay: replay})
		return false
	}
	if derr != nil {
		res.Violate(fw.Violation{Key: "c18-multiproof-roundtrip", What: "decoding an honestly encoded multiproof set failed: " + derr.Error(), Replay: replay})
		return false
	}
	if eq, why := c18TxnsEqual(orig, dec); !eq {
		res.Violate(fw.Violation{Key: "c18-multiproof-roundtrip", What: "decode(encode(multiproof form)) differs from the transactions (" + tag + "): " + why, Replay: replay,
			Expected: c18Proofs(orig), Observed: c18Proofs(dec)})
		ok = false
	}
	// compute / size / expand through the hooks
	mp := types.VerifComputeMultiproof(orig)
	stripped := c18CopyTxns(orig)
	types.VerifForEachElementLeaf(stripped, func(l types.VerifElementLeaf) {
		l.SE.MerkleProof = make([]types.Hash256, len(l.SE.MerkleProof))
	})
	if sz := types.VerifMultiproofSize(stripped); sz != len(mp) {
		res.Violate(fw.Violation{Key: "c18-size-mismatch", What: "multiproofSize differs from the length of computeMultiproof", Replay: replay, Expected: fmt.Sprint(len(mp)), Observed: fmt.Sprint(sz)})
		ok = false
	}
	if p, msg := fw.Recover(func() { types.VerifExpandMultiproof(stripped, mp) }); p {
		res.Violate(fw.Violation{Key: "c18-expand-panic", What: "expandMultiproof panicked on its own multiproof: " + msg, Replay: replay})
		ok = false
	} else if eq, why := c18TxnsEqual(orig, stripped); !eq {
		res.Violate(fw.Violation{Key: "c18-expand-compute", What: "expand(strip(txns), compute(txns)) differs from txns: " + why, Replay: replay})
		ok = false
	}
	// numLeaves as written by the encoder: it follows the proofless transactions
	proofless := c18CopyTxns(orig)
	types.VerifForEachElementLeaf(proofless, func(l types.VerifElementLeaf) { l.SE.MerkleProof = nil })
	var pbuf bytes.Buffer
	pe := types.NewEncoder(&pbuf)
	types.EncodeSlice(pe, proofless)
	pe.Flush()
	numLeaves := uint64(0)
	if off := pbuf.Len(); off+8 <= len(enc) && bytes.Equal(enc[:off], pbuf.Bytes()) {
		numLeaves = binary.LittleEndian.Uint64(enc[off:])
		if len(enc) != off+8+32*len(mp) {
			res.Violate(fw.Violation{Key: "c18-encoding-size", What: "multiproof encoding is not proofless transactions + numLeaves + multiproofSize hashes", Replay: replay,
				Expected: fmt.Sprint(off + 8 + 32*len(mp)), Observed: fmt.Sprint(len(enc))})
			ok = false
		}
	} else {
		res.Violate(fw.Violation{Key: "c18-encoding-layout", What: "multiproof encoding does not start with the proofless transactions", Replay: replay})
		ok = false
	}
	res.CountN("multiproof:hashes-individual", func() (n int) {
		types.VerifForEachElementLeaf(orig, func(l types.VerifElementLeaf) { n += len(l.SE.MerkleProof) })
		return
	}())
	res.CountN("multiproof:hashes-compressed", len(mp))
	if r.c.Model != nil && nLeaves > 0 && nLeaves <= 400 {
		ls, _ := c18Leaves(orig, true)
		r.ops = append(r.ops, "mp-compute "+ls)
		r.outs = append(r.outs, fmt.Sprintf("%d %s", len(mp), accWHashes(mp)))
		r.ops = append(r.ops, "mp-codec "+ls)
		r.outs = append(r.outs, fmt.Sprintf("%d %s %s", numLeaves, accWHashes(mp), c18Proofs(dec)))
		sl, _ := c18Leaves(stripped, false)
		r.ops = append(r.ops, "mp-expand "+sl+" "+accWHashes(mp))
		r.outs = append(r.outs, "ok "+c18Proofs(stripped))
		// the value-tree model: decode the plain encoding, traverse, re-encode in multiproof form
		var plain bytes.Buffer
		pl := types.NewEncoder(&plain)
		types.EncodeSlice(pl, orig)
		pl.Flush()
		if plain.Len() <= 30000 {
			var tl []string
			types.VerifForEachElementLeaf(orig, func(l types.VerifElementLeaf) {
				tl = append(tl, fmt.Sprintf("%d:%d", l.SE.LeafIndex, len(l.SE.MerkleProof)))
			})
			r.ops = append(r.ops, fmt.Sprintf("mp-traverse %x", plain.Bytes()))
			r.outs = append(r.outs, accWList(tl))
			r.ops = append(r.ops, fmt.Sprintf("mp-encode %x", plain.Bytes()))
			r.outs = append(r.outs, fmt.Sprintf("%x", enc))
			res.Count("multiproof:value-tree-model-cases")
		}
	}
	return ok
}

// block checks the V2Block codec on a valid block.
func (r *c18Run) block(cs consensus.State, b types.Block, supp consensus.V1BlockSupplement, replay any) {
	res := r.c.Res
	enc := c18Enc(types.V2Block(b))
	var dec types.V2Block
	d := types.NewBufDecoder(enc)
	if p, msg := fw.Recover(func() { dec.DecodeFrom(d) }); p || d.Err() != nil {
		res.Violate(fw.Violation{Key: "c18-multiproof-roundtrip", What: fmt.Sprintf("V2Block codec fails on a valid block: panic=%v %s err=%v", p, msg, d.Err()), Replay: replay})
		return
	}
	db := dec.Cast()
	res.Eval(fmt.Sprintf("block %v", b.ID()), true)
	if db.ID() != b.ID() {
		res.Violate(fw.Violation{Key: "c18-block-id", What: "block ID changed by the V2Block codec", Replay: replay, Expected: b.ID().String(), Observed: db.ID().String()})
	}
	if eq, why := c18TxnsEqual(b.V2Transactions(), db.V2Transactions()); !eq {
		res.Violate(fw.Violation{Key: "c18-multiproof-roundtrip", What: "V2Block codec does not restore the v2 transactions: " + why, Replay: replay})
	}
	if !bytes.Equal(c18Enc(types.V2Block(db)), enc) {
		res.Violate(fw.Violation{Key: "c18-block-reencode", What: "re-encoding the decoded block gives different bytes", Replay: replay})
	}
	want := cs.Commitment(b.MinerPayouts[0].Address, b.Transactions, b.V2Transactions())
	got := cs.Commitment(db.MinerPayouts[0].Address, db.Transactions, db.V2Transactions())
	if want != got || got != db.V2.Commitment {
		res.Violate(fw.Violation{Key: "c18-commitment", What: "commitment over the decoded block differs", Replay: replay, Expected: want.String(), Observed: got.String()})
	}
	e1 := consensus.ValidateBlock(cs, b, supp)
	e2 := consensus.ValidateBlock(cs, db, supp)
	if (e1 == nil) != (e2 == nil) {
		res.Violate(fw.Violation{Key: "c18-validity", What: "ValidateBlock verdict changed by the V2Block codec", Replay: replay, Expected: fmt.Sprint(e1), Observed: fmt.Sprint(e2)})
	}
	if e1 != nil {
		res.Count("block:invalid(generator)")
	} else {
		res.Count("block:valid")
	}
}

// ---------------------------------------------------------------- outline

type c18Tx struct {
	v2   bool
	i    int // index within b.Transactions / b.V2.Transactions
	hash types.Hash256
}

func c18BlockTxs(b types.Block) (out []c18Tx) {
	for i := range b.Transactions {
		out = append(out, c18Tx{false, i, b.Transactions[i].MerkleLeafHash()})
	}
	for i := range b.V2Transactions() {
		out = append(out, c18Tx{true, i, b.V2.Transactions[i].MerkleLeafHash()})
	}
	return
}

func c18Hashes(hs []types.Hash256) string {
	if len(hs) == 0 {
		return "-"
	}
	ss := make([]string, len(hs))
	for i, h := range hs {
		ss[i] = accWHash(h)
	}
	return strings.Join(ss, ",")
}

func c18BlockEqual(a, b types.Block) bool {
	return bytes.Equal(c18Enc(types.V2Block(a)), c18Enc(types.V2Block(b))) && a.ID() == b.ID()
}

// outline checks one (block, omitted subset) pair.
func (r *c18Run) outline(cs consensus.State, b types.Block, txs []c18Tx, mask uint64, extra1 []types.Transaction, extra2 []types.V2Transaction, toModel bool, replay any) {
	res := r.c.Res
	rng := r.c.Rng
	var om1 []types.Transaction
	var om2 []types.V2Transaction
	var omitted []types.Hash256
	for k, t := range txs {
		if mask&(1<<uint(k)) != 0 {
			omitted = append(omitted, t.hash)
			if t.v2 {
				om2 = append(om2, b.V2.Transactions[t.i].DeepCopy())
			} else {
				om1 = append(om1, chain.DeepCopyBlock(types.Block{Transactions: []types.Transaction{b.Transactions[t.i]}}).Transactions[0])
			}
		}
	}
	res.Eval(fmt.Sprintf("outline %v %x", b.ID(), mask), mask != 0)
	res.Count("outline:omitted=" + c05Bucket(len(omitted)))
	mk := func() gateway.V2BlockOutline { return gateway.OutlineBlock(chain.DeepCopyBlock(b), om1, om2) }
	bo := mk()
	if id := bo.ID(cs); id != b.ID() {
		res.Violate(fw.Violation{Key: "c18-outline-id", What: "block outline has a different ID than the block", Replay: replay, Expected: b.ID().String(), Observed: id.String()})
	}
	if got := c18Hashes(bo.Missing()); got != c18Hashes(omitted) {
		res.Violate(fw.Violation{Key: "c18-missing-wrong", What: "Missing() of a fresh outline is not the omitted hashes in block order", Replay: replay, Expected: c18Hashes(omitted), Observed: got})
	}
	// outline codec
	{
		enc := c18Enc(gateway.VerifCodec{O: &gateway.RPCRelayV2BlockOutline{Block: mk()}})
		var back gateway.RPCRelayV2BlockOutline
		d := types.NewBufDecoder(enc)
		if p, msg := fw.Recover(func() { gateway.VerifCodec{O: &back}.DecodeFrom(d) }); p || d.Err() != nil {
			res.Violate(fw.Violation{Key: "c18-outline-codec", What: fmt.Sprintf("outline codec fails: panic=%v %s err=%v", p, msg, d.Err()), Replay: replay})
		} else {
			if back.Block.ID(cs) != b.ID() || c18Hashes(back.Block.Missing()) != c18Hashes(omitted) {
				res.Violate(fw.Violation{Key: "c18-outline-codec", What: "decoded outline has a different ID or Missing()", Replay: replay})
			}
			cb, miss := back.Block.Complete(cs, om1, om2)
			if len(miss) != 0 || !c18BlockEqual(cb, b) {
				res.Violate(fw.Violation{Key: "c18-outline-codec", What: "decoded outline does not complete to the block", Replay: replay})
			}
			if !bytes.Equal(c18Enc(gateway.VerifCodec{O: &gateway.RPCRelayV2BlockOutline{Block: mk()}}), enc) {
				res.Violate(fw.Violation{Key: "c18-outline-codec", What: "outline encoding is not deterministic", Replay: replay})
			}
		}
	}
	// completion pool: the omitted transactions, unrelated ones, decoys with altered
	// proofs, everything permuted
	pool1 := append(append([]types.Transaction{}, om1...), extra1...)
	pool2 := append([]types.V2Transaction{}, om2...)
	for _, t := range extra2 {
		pool2 = append(pool2, t.DeepCopy())
	}
	for _, t := range om2 {
		dcy := t.DeepCopy()
		altered := false
		types.VerifForEachElementLeaf([]types.V2Transaction{dcy}, func(l types.VerifElementLeaf) {
			if !altered && len(l.SE.MerkleProof) > 0 {
				l.SE.MerkleProof[0][0] ^= 1
				altered = true
			}
		})
		if altered {
			pool2 = append(pool2, dcy)
			res.Count("outline:decoys")
		}
	}
	rng.Shuffle(len(pool1), func(i, j int) { pool1[i], pool1[j] = pool1[j], pool1[i] })
	rng.Shuffle(len(pool2), func(i, j int) { pool2[i], pool2[j] = pool2[j], pool2[i] })
	bo = mk()
	cb, miss := bo.Complete(cs, pool1, pool2)
	if len(miss) != 0 {
		res.Violate(fw.Violation{Key: "c18-missing-wrong", What: "Complete reports missing transactions although the pool contains all omitted ones", Replay: replay, Expected: "-", Observed: c18Hashes(miss)})
	}
	if !c18BlockEqual(cb, b) {
		res.Violate(fw.Violation{Key: "c18-complete-differs", What: "Complete with a permuted superset pool does not return exactly the original block", Replay: replay,
			Expected: fmt.Sprintf("%x", c18Enc(types.V2Block(b))), Observed: fmt.Sprintf("%x", c18Enc(types.V2Block(cb)))})
	}
	// partial pool: drop a random part of the omitted transactions
	var part1 []types.Transaction
	var part2 []types.V2Transaction
	have := map[types.Hash256]bool{}
	for i := range om1 {
		if rng.Intn(2) == 0 {
			part1 = append(part1, om1[i])
			have[om1[i].MerkleLeafHash()] = true
		}
	}
	for i := range om2 {
		if rng.Intn(2) == 0 {
			part2 = append(part2, om2[i])
			have[om2[i].MerkleLeafHash()] = true
		}
	}
	part1 = append(part1, extra1...)
	part2 = append(part2, extra2...)
	var still []types.Hash256
	for _, h := range omitted {
		if !have[h] {
			still = append(still, h)
		}
	}
	bo = mk()
	pb, miss := bo.Complete(cs, part1, part2)
	if c18Hashes(miss) != c18Hashes(still) {
		res.Violate(fw.Violation{Key: "c18-missing-wrong", What: "Complete with a partial pool does not report exactly the still-missing hashes in block order", Replay: replay, Expected: c18Hashes(still), Observed: c18Hashes(miss)})
	}
	if len(still) == 0 && !c18BlockEqual(pb, b) {
		res.Violate(fw.Violation{Key: "c18-complete-differs", What: "Complete with a sufficient pool does not return the original block", Replay: replay})
	}
	// a second Complete on the same (mutated) outline with the rest finishes the job
	if len(still) > 0 {
		fb, miss2 := bo.Complete(cs, om1, om2)
		if len(miss2) != 0 || !c18BlockEqual(fb, b) {
			res.Violate(fw.Violation{Key: "c18-complete-differs", What: "completing in two steps does not return the original block", Replay: replay})
		}
	}
	if toModel && r.c.Model != nil {
		tok := func(v2 bool, h types.Hash256, fee types.Currency) string {
			k := 0
			if v2 {
				k = 1
			}
			return fmt.Sprintf("%d:%s:%s", k, accWHash(h), fee.ExactString())
		}
		var blk, pool []string
		for _, t := range txs {
			if t.v2 {
				blk = append(blk, tok(true, t.hash, b.V2.Transactions[t.i].MinerFee))
			} else {
				blk = append(blk, tok(false, t.hash, b.Transactions[t.i].TotalFees()))
			}
		}
		for i := range part1 {
			pool = append(pool, tok(false, part1[i].MerkleLeafHash(), part1[i].TotalFees()))
		}
		for i := range part2 {
			pool = append(pool, tok(true, part2[i].MerkleLeafHash(), part2[i].MinerFee))
		}
		var allH, v1H, v2H []types.Hash256
		for _, t := range txs {
			allH = append(allH, t.hash)
		}
		for i := range pb.Transactions {
			v1H = append(v1H, pb.Transactions[i].MerkleLeafHash())
		}
		for i := range pb.V2Transactions() {
			v2H = append(v2H, pb.V2.Transactions[i].MerkleLeafHash())
		}
		r.ops = append(r.ops, fmt.Sprintf("ol-complete %s %s %s %s", cs.BlockReward().ExactString(), accWList(blk), c18Hashes(omitted), accWList(pool)))
		r.outs = append(r.outs, fmt.Sprintf("%s %s %s %s %s %s", c18Hashes(allH), c18Hashes(omitted), c18Hashes(v1H), c18Hashes(v2H), pb.MinerPayouts[0].Value.ExactString(), c18Hashes(still)))
	}
}

// ---------------------------------------------------------------- driver

// c18Sets derives transaction sets with the same leaf twice from a valid block's
// transactions (valid proofs for one state; not a valid block, which the multiproof
// codec does not require).
func c18DupSets(rng *rand.Rand, txns []types.V2Transaction) [][]types.V2Transaction {
	var out [][]types.V2Transaction
	if len(txns) == 0 {
		return nil
	}
	// the whole set twice
	out = append(out, append(c18CopyTxns(txns), c18CopyTxns(txns)...))
	// one transaction repeated next to the others, in shuffled order
	k := rng.Intn(len(txns))
	s := append(c18CopyTxns(txns), txns[k].DeepCopy(), txns[k].DeepCopy())
	rng.Shuffle(len(s), func(i, j int) { s[i], s[j] = s[j], s[i] })
	out = append(out, s)
	// two storage proofs / inputs sharing one parent inside ONE transaction
	for _, t := range txns {
		if len(t.SiacoinInputs) > 0 {
			d := t.DeepCopy()
			d.SiacoinInputs = append(d.SiacoinInputs, d.DeepCopy().SiacoinInputs[0])
			out = append(out, []types.V2Transaction{d})
			break
		}
	}
	for _, t := range txns {
		if len(t.FileContractResolutions) > 0 {
			d := t.DeepCopy()
			d.FileContractResolutions = append(d.FileContractResolutions, d.DeepCopy().FileContractResolutions[0])
			out = append(out, []types.V2Transaction{d})
			break
		}
	}
	return out
}

func runC18(c *fw.Ctx) {
	res := c.Res
	res.Rule = "valid v2 blocks built by the chain simulator over real states (modes v2, mixed, legacy; up to 40 transactions per block, many inputs sharing subtrees, storage-proof chain indices, ephemeral parents) plus derived transaction sets with the same leaf twice. Per block: multiproof codec round trip (a case = one transaction set; non-trivial when it has at least one non-ephemeral element leaf; distinct by encoding), V2Block codec (ID, commitment, ValidateBlock verdict), and OutlineBlock/Complete for every subset of omitted transactions of blocks with <= 8 (quick) / 10 (thorough) transactions, 48 random subsets above (a case = one (block, subset); non-trivial when something is omitted)."
	r := &c18Run{c: c}
	sims := c.Budget(6, 24)
	steps := c.Budget(45, 80)
	allSubsetsUpTo := c.Budget(8, 10)
	modes := []string{"v2", "mixed", "legacy", "v2"}
	blocks := 0
	for si := 0; si < sims; si++ {
		mode := modes[si%len(modes)]
		seed := c.Seed*1000 + int64(si)
		s := chain.NewSim(rand.New(rand.NewSource(seed)), mode)
		s.MaxTxns = []int{6, 14, 40, 25}[si%4]
		var old1 []types.Transaction
		var old2 []types.V2Transaction
		for step := 0; step < steps; step++ {
			p := s.BuildBlock()
			cs := s.Tip
			if p.Block.Timestamp.Nanosecond() != 0 {
				// the simulator's median rule can yield half seconds; such a block cannot
				// travel (the wire format has second resolution), so move it to the next
				// full second and re-seal
				nb := chain.DeepCopyBlock(p.Block)
				nb.Timestamp = p.Block.Timestamp.Truncate(time.Second).Add(time.Second)
				s.Seal(&nb, p.Miner)
				if consensus.ValidateBlock(cs, nb, p.Supp) == nil {
					p.Block = nb
					res.Count("block:timestamp-normalised")
				} else {
					res.Count("block:skipped(sub-second timestamp)")
					if _, err := s.Apply(p.Block, p.Supp); err != nil {
						break
					}
					continue
				}
			}
			b := p.Block
			replay := map[string]any{"kind": "sim", "mode": mode, "simseed": seed, "maxtxns": s.MaxTxns, "step": step}
			if b.V2 != nil {
				blocks++
				res.Count("block:mode=" + mode)
				res.Count("block:v2txns=" + c05Bucket(len(b.V2.Transactions)))
				// what the block contains
				for _, t := range b.V2.Transactions {
					res.CountN("elements:siacoin-inputs", len(t.SiacoinInputs))
					res.CountN("elements:siafund-inputs", len(t.SiafundInputs))
					res.CountN("elements:revisions", len(t.FileContractRevisions))
					for _, fr := range t.FileContractResolutions {
						res.Count("elements:resolutions")
						if _, ok := fr.Resolution.(*types.V2StorageProof); ok {
							res.Count("elements:storage-proof-chain-index")
						}
					}
				}
				r.multiproof(b.V2.Transactions, "block", replay)
				r.block(cs, b, p.Supp, replay)
				for di, set := range c18DupSets(c.Rng, b.V2.Transactions) {
					r.multiproof(set, fmt.Sprintf("dup%d", di), replay)
				}
				// transaction sets that are sub-sequences of the block (relay sets)
				if n := len(b.V2.Transactions); n > 1 {
					lo := c.Rng.Intn(n)
					hi := lo + 1 + c.Rng.Intn(n-lo)
					r.multiproof(b.V2.Transactions[lo:hi], "subset", replay)
				}
				// relay scenarios (valid block and its duplicate-leaf variants)
				if step%3 == 0 || c.Thorough() {
					r.relayAll(cs, b, replay)
				}
				// outlines
				txs := c18BlockTxs(b)
				if len(txs) > 0 {
					var masks []uint64
					if len(txs) <= allSubsetsUpTo {
						for m := uint64(0); m < 1<<uint(len(txs)); m++ {
							masks = append(masks, m)
						}
						res.Count("outline:blocks-with-all-subsets")
					} else {
						full := uint64(1)<<uint(len(txs)%64) - 1
						masks = append(masks, 0, full)
						for k := 0; k < 48; k++ {
							m := c.Rng.Uint64() & full
							if c.Rng.Intn(3) == 0 { // sparse
								m &= c.Rng.Uint64()
							}
							masks = append(masks, m)
						}
						res.Count("outline:blocks-with-sampled-subsets")
					}
					if len(txs) > 63 {
						masks = nil // cannot index more than 64 transactions with a mask (never generated)
					}
					for mi, m := range masks {
						r.outline(cs, b, txs, m, old1, old2, mi%7 == 0, map[string]any{"kind": "outline", "mode": mode, "simseed": seed, "maxtxns": s.MaxTxns, "step": step, "mask": m})
					}
				}
			}
			if _, err := s.Apply(p.Block, p.Supp); err != nil {
				res.Note("simulator produced a block core rejects (sim %d step %d): %v", si, step, err)
				break
			}
			// unrelated transactions offered in later pools
			old1 = append(old1, b.Transactions...)
			old2 = append(old2, b.V2Transactions()...)
			if len(old1) > 6 {
				old1 = old1[len(old1)-6:]
			}
			if len(old2) > 6 {
				old2 = old2[len(old2)-6:]
			}
		}
		var ks []string
		for k := range s.Counts {
			ks = append(ks, k)
		}
		sort.Strings(ks)
		for _, k := range ks {
			res.CountN("sim:"+k, s.Counts[k])
		}
	}
	if blocks == 0 {
		res.Note("no v2 block was generated")
	}
	c18Synthetic(r)
	if len(r.ops) > 0 {
		res.Sample(map[string]string{"op": r.ops[0][:min(len(r.ops[0]), 400)], "go": r.outs[0][:min(len(r.outs[0]), 400)]})
	}
	c.Compare(r.ops, r.outs)
}
