package props

// C09 — Validation and application are deterministic, side-effect free, concurrency-safe.
//
// Go side: on generated valid blocks AND on their mutants (double-use and
// structure mutants), for every entry point (ValidateBlock, ApplyBlock,
// RevertBlock, ValidateOrphan, and the step-by-step NewMidState + Validate* +
// Apply* path): deep snapshots (canonical encodings incl. every Merkle proof) of
// block, supplement, state and the tracked store before and after must be
// identical; repeated calls, calls on a decode(encode(b)) copy (which passes
// through the multiproof form) and N concurrent callers must return the same
// verdict, the same encoded state and the same diffs; the step-by-step verdict
// must equal ValidateBlock's; Copy()/DeepCopy() results must share no mutable
// memory with their originals (mutate every slice reachable in the copy, original
// must not change). The concurrent part is re-run in a second binary built with
// the race detector (sub-run "C09R").

import (
	"time"
	"encoding/json"
	"bytes"
	"fmt"
	"math/rand"
	"os"
	"os/exec"
	"reflect"
	"regexp"
	"strings"
	"sync"

	"go.sia.tech/core/consensus"
	"go.sia.tech/core/types"
	"verif/harness/internal/chain"
	"verif/harness/internal/fw"
)

func init() {
	fw.Register("C09", runC09)
	fw.Register("C09R", runC09R)
}

var txnRejectRe = regexp.MustCompile(`^reject: (v2 )?transaction \d+ is invalid: `)

type snapshot struct{ block, supp, state, net []byte } // net: the network parameters the state points to (shared by every state of the chain)

// encodeBlockFull renders every field of a block including each element's own
// Merkle proof (the wire form of a v2 block compresses proofs into a multiproof,
// which cannot represent the malformed proofs some mutants carry).
func encodeBlockFull(b types.Block) []byte {
	var buf bytes.Buffer
	e := types.NewEncoder(&buf)
	b.ParentID.EncodeTo(e)
	e.WriteUint64(b.Nonce)
	e.WriteTime(b.Timestamp)
	types.EncodeSliceCast[types.V1SiacoinOutput](e, b.MinerPayouts)
	types.EncodeSlice(e, b.Transactions)
	if b.V2 != nil {
		e.WriteUint64(b.V2.Height)
		b.V2.Commitment.EncodeTo(e)
		e.WriteUint64(uint64(len(b.V2.Transactions)))
		for _, t := range b.V2.Transactions {
			if len(t.FileContractResolutions) > 0 {
				for _, r := range t.FileContractResolutions {
					if r.Resolution == nil {
						e.WriteString("nil-resolution")
					}
				}
			}
			t.EncodeTo(e)
		}
	}
	e.Flush()
	return buf.Bytes()
}

func snap(cs consensus.State, b types.Block, bs consensus.V1BlockSupplement) snapshot {
	var net []byte
	if cs.Network != nil {
		net, _ = json.Marshal(*cs.Network)
	}
	return snapshot{encodeBlockFull(b), chain.Encode(bs), chain.Encode(cs), net}
}

func (a snapshot) diff(b snapshot) string {
	switch {
	case !bytes.Equal(a.block, b.block):
		return "block"
	case !bytes.Equal(a.supp, b.supp):
		return "supplement"
	case !bytes.Equal(a.state, b.state):
		return "state"
	case !bytes.Equal(a.net, b.net):
		return "network-parameters"
	}
	return ""
}

func verdictOf(err error, panicked bool, msg string) string {
	if panicked {
		return "panic: " + msg
	}
	if err != nil {
		return "reject: " + err.Error()
	}
	return "accept"
}

// stepwise validates a block transaction by transaction against the evolving mid-state.
func stepwise(cs consensus.State, b types.Block, bs consensus.V1BlockSupplement) (verdict string) {
	panicked, msg := fw.Recover(func() {
		ms := consensus.NewMidState(cs)
		for i, txn := range b.Transactions {
			if i >= len(bs.Transactions) {
				verdict = "reject: supplement too short"
				return
			}
			if err := consensus.ValidateTransaction(ms, txn, bs.Transactions[i]); err != nil {
				verdict = fmt.Sprintf("reject: transaction %d is invalid: %v", i, err)
				return
			}
			ms.ApplyTransaction(txn, bs.Transactions[i])
		}
		for i, txn := range b.V2Transactions() {
			if err := consensus.ValidateV2Transaction(ms, txn); err != nil {
				verdict = fmt.Sprintf("reject: v2 transaction %d is invalid: %v", i, err)
				return
			}
			ms.ApplyV2Transaction(txn)
		}
		verdict = "accept"
	})
	if panicked {
		return "panic: " + msg
	}
	return verdict
}

type applyResult struct {
	state []byte
	diffs diffLists
}

func applyOnce(cs consensus.State, b types.Block, bs consensus.V1BlockSupplement, target interface{ IsZero() bool }) (applyResult, string) {
	var r applyResult
	panicked, msg := fw.Recover(func() {
		ns, au := consensus.ApplyBlock(cs, b, bs, cs.PrevTimestamps[0])
		r.state = chain.Encode(ns)
		r.diffs = dumpDiffs(au)
	})
	if panicked {
		return r, "panic: " + msg
	}
	return r, ""
}

func sameApply(a, b applyResult) bool {
	return bytes.Equal(a.state, b.state) && eqStrs(a.diffs.sc, b.diffs.sc) && eqStrs(a.diffs.sf, b.diffs.sf) && eqStrs(a.diffs.fc, b.diffs.fc) && eqStrs(a.diffs.v2, b.diffs.v2)
}

// checkCase runs every C09 check on one (state, block, supplement).
func checkCase(c *fw.Ctx, s *chain.Sim, kind string, b types.Block, bs consensus.V1BlockSupplement, rp map[string]any, workers int) {
	res := c.Res
	cs := s.Tip
	before := snap(cs, b, bs)
	storeBefore := s.St.Dump(true)
	var err error
	panicked, msg := fw.Recover(func() { err = consensus.ValidateBlock(cs, b, bs) })
	v1 := verdictOf(err, panicked, msg)
	if d := before.diff(snap(cs, b, bs)); d != "" {
		res.Violate(fw.Violation{Key: "c09-input-mutated:validate:" + d, What: "ValidateBlock modified its " + d, Replay: rp})
	}
	// repeated call
	panicked, msg = fw.Recover(func() { err = consensus.ValidateBlock(cs, b, bs) })
	if v2 := verdictOf(err, panicked, msg); v2 != v1 {
		res.Violate(fw.Violation{Key: "c09-nondeterministic:validate", What: "two ValidateBlock calls on the same inputs disagree", Replay: rp, Expected: v1, Observed: v2})
	}
	// decoded copy (through the multiproof form)
	var bc types.Block
	var bsc consensus.V1BlockSupplement
	okCopy := true
	if pc, _ := fw.Recover(func() { bc, bsc = chain.DeepCopyBlock(b), chain.CopySupp(bs) }); pc {
		okCopy = false
	}
	if okCopy && bytes.Equal(encodeBlockFull(bc), before.block) {
		panicked, msg = fw.Recover(func() { err = consensus.ValidateBlock(cs, bc, bsc) })
		if v3 := verdictOf(err, panicked, msg); v3 != v1 {
			res.Violate(fw.Violation{Key: "c09-copy-verdict-differs", What: "ValidateBlock on decode(encode(b)) disagrees with ValidateBlock on b", Replay: rp, Expected: v1, Observed: v3})
		}
		res.Count("decoded-copy")
		// the proofs of a decoded block are independent values: a client that carries one of them forward
		// (UpdateElementProof appends the hashes of tree growth) must not thereby overwrite another one
		if bc.V2 != nil {
			enc0 := encodeBlockFull(bc)
			grown := 0
			for _, p := range v2ProofSlices(&bc) {
				_ = append(*p, types.Hash256{0xA1, 0x1A, 0x5E, 0xD0})
				grown++
			}
			if grown > 1 && !bytes.Equal(encodeBlockFull(bc), enc0) {
				res.Violate(fw.Violation{Key: "c09-decoded-proofs-alias", What: "appending to one element proof of a block obtained from DecodeFrom changed another proof of the same block (the decoded proofs share a backing array with spare capacity)", Replay: rp})
			}
			res.Count("decoded-copy-growth")
		}
	}
	// step by step
	sv := stepwise(cs, b, bs)
	if d := before.diff(snap(cs, b, bs)); d != "" {
		res.Violate(fw.Violation{Key: "c09-input-mutated:stepwise:" + d, What: "step-by-step validation/application modified its " + d, Replay: rp})
	}
	if v1 == "accept" && sv != "accept" {
		res.Violate(fw.Violation{Key: "c09-stepwise-differs", What: "block accepted but step-by-step validation fails", Replay: rp, Expected: v1, Observed: sv})
	}
	if txnRejectRe.MatchString(v1) {
		if sv != v1 {
			res.Violate(fw.Violation{Key: "c09-stepwise-differs", What: "block rejected at a transaction but step-by-step validation gives another verdict", Replay: rp, Expected: v1, Observed: sv})
		}
	}
	if sv != "accept" && v1 == "accept" {
		res.Count("stepwise-mismatch")
	}
	res.Count("verdict:" + strings.SplitN(v1, ":", 2)[0])
	if v1 != "accept" {
		return
	}
	// application: inputs unchanged, deterministic, copy-independent, concurrent
	r1, p1 := applyOnce(cs, b, bs, nil)
	if p1 != "" {
		res.Violate(fw.Violation{Key: "c10-apply-panic:c09", What: "ApplyBlock panicked on an accepted block: " + p1, Replay: rp})
		return
	}
	if d := before.diff(snap(cs, b, bs)); d != "" {
		res.Violate(fw.Violation{Key: "c09-input-mutated:apply:" + d, What: "ApplyBlock modified its " + d, Replay: rp})
	}
	if !eqStrs(storeBefore, s.St.Dump(true)) {
		res.Violate(fw.Violation{Key: "c09-input-mutated:apply:tracked-proofs", What: "ApplyBlock modified element proofs held by the caller", Replay: rp})
	}
	r2, _ := applyOnce(cs, b, bs, nil)
	if !sameApply(r1, r2) {
		res.Violate(fw.Violation{Key: "c09-nondeterministic:apply", What: "two ApplyBlock calls on the same inputs give different state or diffs", Replay: rp})
	}
	if okCopy {
		r3, _ := applyOnce(cs, bc, bsc, nil)
		if !sameApply(r1, r3) {
			res.Violate(fw.Violation{Key: "c09-copy-state-differs", What: "ApplyBlock on decode(encode(b)) gives a different state or diffs", Replay: rp})
		}
	}
	// revert: inputs unchanged, deterministic
	var rd1, rd2 diffLists
	pr, msgr := fw.Recover(func() {
		rd1 = dumpDiffs(consensus.RevertBlock(cs, b, bs))
		rd2 = dumpDiffs(consensus.RevertBlock(cs, b, bs))
	})
	if pr {
		res.Violate(fw.Violation{Key: "c10-apply-panic:c09-revert", What: "RevertBlock panicked on an accepted block: " + msgr, Replay: rp})
	} else {
		if d := before.diff(snap(cs, b, bs)); d != "" {
			res.Violate(fw.Violation{Key: "c09-input-mutated:revert:" + d, What: "RevertBlock modified its " + d, Replay: rp})
		}
		if !eqStrs(rd1.sc, rd2.sc) || !eqStrs(rd1.sf, rd2.sf) || !eqStrs(rd1.fc, rd2.fc) || !eqStrs(rd1.v2, rd2.v2) {
			res.Violate(fw.Violation{Key: "c09-nondeterministic:revert", What: "two RevertBlock calls give different diffs", Replay: rp})
		}
	}
	// concurrent callers on shared inputs
	if workers > 1 {
		var wg sync.WaitGroup
		var otherMu sync.Mutex
		var otherDiff [][2]string
		verd := make([]string, workers)
		apps := make([]applyResult, workers)
		for w := 0; w < workers; w++ {
			wg.Add(1)
			go func(w int) {
				defer wg.Done()
				var e error
				if w%4 == 3 && c09Prev != nil {
					// a caller working on ANOTHER (state, block) pair at the same time: calls must not
					// influence each other through anything shared behind the API
					pv := c09Prev
					pp, m := fw.Recover(func() { e = consensus.ValidateBlock(pv.cs, pv.b, pv.bs) })
					if got := verdictOf(e, pp, m); got != pv.verdict {
						otherMu.Lock()
						otherDiff = append(otherDiff, [2]string{pv.verdict, got})
						otherMu.Unlock()
					}
				}
				pp, m := fw.Recover(func() { e = consensus.ValidateBlock(cs, b, bs) })
				verd[w] = verdictOf(e, pp, m)
				if w%2 == 0 {
					apps[w], _ = applyOnce(cs, b, bs, nil)
				} else {
					fw.Recover(func() { _ = consensus.RevertBlock(cs, b, bs) })
					apps[w], _ = applyOnce(cs, b, bs, nil)
				}
			}(w)
		}
		wg.Wait()
		for _, d := range otherDiff {
			res.Violate(fw.Violation{Key: "c09-concurrent-verdict-differs:other-state", What: "ValidateBlock on an earlier (state, block) pair returned a different verdict while other callers validated another block", Replay: rp, Expected: d[0], Observed: d[1]})
		}
		for w := 0; w < workers; w++ {
			if verd[w] != v1 {
				res.Violate(fw.Violation{Key: "c09-concurrent-verdict-differs", What: "a concurrent ValidateBlock call returned a different verdict", Replay: rp, Expected: v1, Observed: verd[w]})
			}
			if !sameApply(apps[w], r1) {
				res.Violate(fw.Violation{Key: "c09-concurrent-state-differs", What: "a concurrent ApplyBlock call produced a different state or diffs", Replay: rp})
			}
		}
		if d := before.diff(snap(cs, b, bs)); d != "" {
			res.Violate(fw.Violation{Key: "c09-input-mutated:concurrent:" + d, What: "concurrent calls modified their shared " + d, Replay: rp})
		}
		res.Count("concurrent-cases")
		if kind == "valid" || c09Prev == nil {
			c09Prev = &c09Case{cs: cs, b: b, bs: bs, verdict: v1}
		}
	}
	_ = kind
}

// v2ProofSlices returns pointers to every element proof carried by the block's v2 transactions.
func v2ProofSlices(b *types.Block) []*[]types.Hash256 {
	var out []*[]types.Hash256
	if b.V2 == nil {
		return out
	}
	for i := range b.V2.Transactions {
		t := &b.V2.Transactions[i]
		for j := range t.SiacoinInputs {
			out = append(out, &t.SiacoinInputs[j].Parent.StateElement.MerkleProof)
		}
		for j := range t.SiafundInputs {
			out = append(out, &t.SiafundInputs[j].Parent.StateElement.MerkleProof)
		}
		for j := range t.FileContractRevisions {
			out = append(out, &t.FileContractRevisions[j].Parent.StateElement.MerkleProof)
		}
		for j := range t.FileContractResolutions {
			out = append(out, &t.FileContractResolutions[j].Parent.StateElement.MerkleProof)
			if sp, ok := t.FileContractResolutions[j].Resolution.(*types.V2StorageProof); ok {
				out = append(out, &sp.ProofIndex.StateElement.MerkleProof)
			}
		}
	}
	return out
}

// c09Prev: an earlier (state, block, supplement) with its verdict, validated again concurrently with later cases
type c09Case struct {
	cs      consensus.State
	b       types.Block
	bs      consensus.V1BlockSupplement
	verdict string
}

var c09Prev *c09Case

// scribble overwrites every byte of every slice reachable from v (through
// pointers, structs, slices, arrays, interfaces).
func scribble(v reflect.Value, depth int) {
	if depth > 60 {
		return
	}
	switch v.Kind() {
	case reflect.Ptr:
		if !v.IsNil() {
			scribble(v.Elem(), depth+1)
		}
	case reflect.Interface:
		if !v.IsNil() {
			if v.CanSet() && v.Elem().Kind() != reflect.Ptr {
				// the dynamic value of an interface is not addressable: scribble over an addressable copy of it (slices
				// inside still point at the memory the copy owns — or shares) and store the copy back
				nv := reflect.New(v.Elem().Type()).Elem()
				nv.Set(v.Elem())
				scribble(nv, depth+1)
				v.Set(nv)
			} else {
				scribble(v.Elem(), depth+1)
			}
		}
	case reflect.Struct:
		for i := 0; i < v.NumField(); i++ {
			if v.Type().Field(i).IsExported() {
				scribble(v.Field(i), depth+1)
			}
		}
	case reflect.Slice:
		for i := 0; i < v.Len(); i++ {
			e := v.Index(i)
			if e.Kind() == reflect.Uint8 && e.CanSet() {
				e.SetUint(e.Uint() ^ 0xA5)
			} else {
				scribble(e, depth+1)
			}
		}
	case reflect.Array:
		for i := 0; i < v.Len(); i++ {
			e := v.Index(i)
			if e.Kind() == reflect.Uint8 {
				if e.CanSet() {
					e.SetUint(e.Uint() ^ 0xA5)
				}
			} else {
				scribble(e, depth+1)
			}
		}
	}
}

// copyIndependence: copies produced by the library's copy operations share no mutable memory.
func copyIndependence(c *fw.Ctx, s *chain.Sim, b types.Block, rp map[string]any) {
	res := c.Res
	for _, t := range b.V2Transactions() {
		orig := chain.Encode(t)
		cp := t.DeepCopy()
		if !bytes.Equal(chain.Encode(cp), orig) {
			res.Violate(fw.Violation{Key: "c09-deepcopy-differs", What: "V2Transaction.DeepCopy is not equal to its original", Replay: rp})
		}
		scribble(reflect.ValueOf(&cp), 0)
		if !bytes.Equal(chain.Encode(t), orig) {
			res.Violate(fw.Violation{Key: "c09-copy-aliases:V2Transaction.DeepCopy", What: "mutating a DeepCopy changed the original transaction", Replay: rp})
		}
		res.Count("copy:V2Transaction.DeepCopy")
	}
	// the same on transactions whose policies nest thresholds several levels deep with every branch revealed
	// (the wallet's own policies hide their inner branches behind opaque hashes)
	for depth := 1; depth <= 4; depth++ {
		var nest func(d int) types.SpendPolicy
		nest = func(d int) types.SpendPolicy {
			pk := types.PolicyPublicKey(s.W.Keys[d%len(s.W.Keys)].PublicKey())
			uc := types.SpendPolicy{Type: types.PolicyTypeUnlockConditions(types.StandardUnlockConditions(s.W.Keys[(d+1)%len(s.W.Keys)].PublicKey()))}
			if d == 0 {
				return types.PolicyThreshold(1, []types.SpendPolicy{pk, types.PolicyHash(types.Hash256{byte(d), 7}), uc})
			}
			return types.PolicyThreshold(2, []types.SpendPolicy{nest(d - 1), pk, types.PolicyThreshold(1, []types.SpendPolicy{nest(d - 1), types.PolicyAbove(uint64(d))}), uc})
		}
		addr := nest(depth).Address()
		t := types.V2Transaction{
			SiacoinInputs: []types.V2SiacoinInput{{Parent: types.SiacoinElement{StateElement: types.StateElement{LeafIndex: 3, MerkleProof: []types.Hash256{{1}, {2}}}, SiacoinOutput: types.SiacoinOutput{Address: addr}},
				SatisfiedPolicy: types.SatisfiedPolicy{Policy: nest(depth), Signatures: []types.Signature{{1}, {2}}, Preimages: [][32]byte{{3}}}}},
			SiafundInputs: []types.V2SiafundInput{{Parent: types.SiafundElement{StateElement: types.StateElement{LeafIndex: 4, MerkleProof: []types.Hash256{{5}}}, SiafundOutput: types.SiafundOutput{Address: addr, Value: 1}},
				SatisfiedPolicy: types.SatisfiedPolicy{Policy: nest(depth)}}},
			ArbitraryData: []byte("verif"),
		}
		orig := chain.Encode(t)
		cp := t.DeepCopy()
		if !bytes.Equal(chain.Encode(cp), orig) {
			res.Violate(fw.Violation{Key: "c09-deepcopy-differs", What: "V2Transaction.DeepCopy is not equal to its original (nested policies)", Replay: rp})
		}
		scribble(reflect.ValueOf(&cp), 0)
		if !bytes.Equal(chain.Encode(t), orig) {
			res.Violate(fw.Violation{Key: "c09-copy-aliases:V2Transaction.DeepCopy:nested-policy", What: fmt.Sprintf("mutating a DeepCopy changed the original transaction (threshold policies nested %d deep)", depth+1), Replay: rp})
		}
		res.Count("copy:V2Transaction.DeepCopy:nested")
	}
	n := 0
	for _, e := range s.St.SortedSC() {
		if n > 20 || len(e.StateElement.MerkleProof) == 0 {
			continue
		}
		n++
		orig := append([]types.Hash256(nil), e.StateElement.MerkleProof...)
		cp := e.Copy()
		for i := range cp.StateElement.MerkleProof {
			cp.StateElement.MerkleProof[i][0] ^= 0xFF
		}
		if !reflect.DeepEqual(orig, e.StateElement.MerkleProof) {
			res.Violate(fw.Violation{Key: "c09-copy-aliases:SiacoinElement.Copy", What: "mutating the proof of a Copy changed the original element", Replay: rp})
		}
		res.Count("copy:SiacoinElement.Copy")
	}
	for _, e := range s.St.SortedV2FC() {
		if len(e.StateElement.MerkleProof) == 0 {
			continue
		}
		orig := append([]types.Hash256(nil), e.StateElement.MerkleProof...)
		cp := e.Copy()
		for i := range cp.StateElement.MerkleProof {
			cp.StateElement.MerkleProof[i][0] ^= 0xFF
		}
		if !reflect.DeepEqual(orig, e.StateElement.MerkleProof) {
			res.Violate(fw.Violation{Key: "c09-copy-aliases:V2FileContractElement.Copy", What: "mutating the proof of a Copy changed the original element", Replay: rp})
		}
		res.Count("copy:V2FileContractElement.Copy")
	}
}

func c09Drive(c *fw.Ctx, nChains, blocks, workers int, withMutants bool) {
	res := c.Res
	for i := 0; i < nChains; i++ {
		mode := ledgerModes[i%len(ledgerModes)]
		seed := c.Seed*6000029 + int64(i)
		s := chain.NewSim(rand.New(rand.NewSource(seed)), mode)
		mrng := rand.New(rand.NewSource(seed ^ 0xc09))
		res.Count("chains:" + mode)
		for k := 0; k < blocks; k++ {
			p := s.BuildBlock()
			height := s.ChildHeight()
			rp := map[string]any{"mode": mode, "seed": seed, "height": height, "case": "valid"}
			res.Eval(fmt.Sprintf("%s/%d/%d", mode, seed, k), len(p.Block.Transactions)+len(p.Block.V2Transactions()) > 0)
			checkCase(c, s, "valid", p.Block, p.Supp, rp, workers)
			copyIndependence(c, s, p.Block, rp)
			if withMutants && k%3 == 0 {
				ms := doubleUseMutants(s, p, mrng)
				ms = append(ms, structureMutants(s, p, mrng)...)
				mrng.Shuffle(len(ms), func(a, b int) { ms[a], ms[b] = ms[b], ms[a] })
				if len(ms) > 12 {
					ms = ms[:12]
				}
				for _, m := range ms {
					rpm := map[string]any{"mode": mode, "seed": seed, "height": height, "case": m.kind}
					res.Eval(fmt.Sprintf("%s/%d/%d/%s/%x", mode, seed, k, m.kind, m.block.ID()), true)
					checkCase(c, s, m.kind, m.block, m.supp, rpm, 0)
				}
			}
			if _, err := s.Apply(p.Block, p.Supp); err != nil {
				res.Note("generator produced a rejected block (%s seed %d height %d): %v", mode, seed, height, err)
				res.Count("generator-rejected")
				break
			}
		}
	}
}

// c09GenesisNetworkProbe: applying a genesis block must not write into the Network the state points to — the
// pointer is shared by every state and chain built from that Network (here: a network whose Oak genesis
// timestamp is left unset, and one with every field set).
func c09GenesisNetworkProbe(c *fw.Ctx) {
	res := c.Res
	for i := 0; i < c.Budget(6, 40); i++ {
		s := chain.NewSim(rand.New(rand.NewSource(c.Seed*9100019+int64(i))), ledgerModes[i%len(ledgerModes)])
		for _, unset := range []bool{true, false} {
			n := *s.Net
			if unset {
				n.HardforkOak.GenesisTimestamp = time.Time{}
			}
			before, _ := json.Marshal(n)
			gs := n.GenesisState()
			bs := consensus.V1BlockSupplement{Transactions: make([]consensus.V1TransactionSupplement, len(s.Genesis.Transactions))}
			p, _ := fw.Recover(func() {
				cs1, _ := consensus.ApplyBlock(gs, s.Genesis, bs, time.Time{})
				g2 := s.Genesis
				g2.Timestamp = g2.Timestamp.Add(1000 * time.Hour)
				consensus.ApplyBlock(gs, g2, bs, time.Time{})
				// the first application again: same inputs, same result
				cs3, _ := consensus.ApplyBlock(gs, s.Genesis, bs, time.Time{})
				if !bytes.Equal(chain.Encode(cs1), chain.Encode(cs3)) {
					res.Violate(fw.Violation{Key: "c09-nondeterministic:apply-genesis", What: "applying the same genesis block to the same state twice (with another genesis applied in between) gives different states", Replay: map[string]any{"seed": c.Seed, "i": i, "oak_genesis_timestamp_unset": unset}})
				}
			})
			res.Eval(fmt.Sprintf("genesis-network/%d/%v", i, unset), true)
			res.Count("genesis-network-probe")
			if p {
				res.Count("genesis-network-probe:panic")
				continue
			}
			after, _ := json.Marshal(n)
			if !bytes.Equal(before, after) {
				res.Violate(fw.Violation{Key: "c09-input-mutated:apply:network-parameters", What: "ApplyBlock of a genesis block modified the Network its input state points to", Replay: map[string]any{"seed": c.Seed, "i": i, "oak_genesis_timestamp_unset": unset},
					Expected: string(before[:min(len(before), 300)]), Observed: string(after[:min(len(after), 300)])})
			}
		}
	}
}

func runC09(c *fw.Ctx) {
	defer c09GenesisNetworkProbe(c)
	c.Res.Rule = "random valid blocks (all modes/eras) and their double-use / structure mutants: deep snapshots of block, supplement, state and tracked proofs before/after ValidateBlock, ApplyBlock, RevertBlock and the step-by-step path; repeated calls; decode(encode(b)) copies through the multiproof form; 8 concurrent callers per valid block (also re-run under the race detector); step-by-step verdict == block verdict; Copy()/DeepCopy() independence by mutating every slice reachable in the copy. Non-trivial = block with transactions or any mutant."
	c09Drive(c, c.Budget(16, 600), c.Budget(30, 60), 8, true)
	// Share/Move/Copy scripts on real StateElements against the Lean aliasing model
	if a := fw.Lookup("C09A"); a != nil {
		rule := c.Res.Rule
		a(c)
		c.Res.Rule = rule + " PLUS: " + c.Res.Rule
	}
	// race-detector sub-run
	if bin := os.Getenv("VERIF_RACE_BIN"); bin != "" {
		cmd := exec.Command(bin, "-prop", "C09R", "-tier", c.Tier, "-seed", fmt.Sprint(c.Seed))
		out, err := cmd.CombinedOutput()
		txt := string(out)
		c.Res.Count("race-subrun")
		if strings.Contains(txt, "DATA RACE") {
			i := strings.Index(txt, "DATA RACE")
			end := i + 1500
			if end > len(txt) {
				end = len(txt)
			}
			c.Res.Violate(fw.Violation{Key: "c09-data-race", What: "the race detector reported a data race during concurrent ValidateBlock/ApplyBlock/RevertBlock", Replay: map[string]any{"seed": c.Seed, "report": txt[i:end]}})
		} else if err != nil {
			c.Res.Note("race sub-run failed to run: %v: %s", err, trunc(txt, 400))
			c.Res.Violate(fw.Violation{Key: "c09-race-subrun-failed", What: "the race-detector sub-run exited abnormally: " + trunc(txt, 300), Replay: map[string]any{"seed": c.Seed}})
		} else {
			c.Res.Note("race-detector sub-run: %s", strings.TrimSpace(lastLine(txt)))
		}
	} else {
		c.Res.Note("race-detector sub-run skipped (VERIF_RACE_BIN not set)")
	}
}

func lastLine(s string) string {
	ls := strings.Split(strings.TrimSpace(s), "\n")
	return ls[len(ls)-1]
}

// runC09R: the concurrent part only, meant to run in a -race build.
func runC09R(c *fw.Ctx) {
	c.Res.Rule = "concurrent ValidateBlock/ApplyBlock/RevertBlock on shared inputs under the race detector"
	c09Drive(c, c.Budget(6, 60), c.Budget(20, 40), 8, false)
}
