package props

// C18 relay scenarios through the real gateway API, including blocks whose transactions
// share accumulator leaves (the directed duplicate-leaf variants built by the codec
// harness, c11DupBlocks): the sender outlines the block omitting a set O of transactions,
// the outline travels through the RPCRelayV2BlockOutline codec (v2 transactions as one
// multiproof set), the receiver completes it from its pool P. For EVERY pair (O, P) of
// subsets of the block's transactions (all pairs for small blocks, sampled above):
//   * the received outline has the block's ID;
//   * Missing / Complete report exactly the hashes of the transactions in O not in P, in
//     block order (omission and completion are by transaction hash: identical
//     transactions go together);
//   * when nothing is missing — at once, or after a second Complete with the requested
//     transactions — the block is restored bit for bit: same ID, same commitment.

import (
	"bytes"
	"fmt"

	"go.sia.tech/core/consensus"
	"go.sia.tech/core/gateway"
	"go.sia.tech/core/types"
	"verif/harness/internal/chain"
	"verif/harness/internal/fw"
)

// c18Reseal makes the commitment and the miner payout of an edited v2 block consistent
// (no proof of work: the relay code never looks at it).
func c18Reseal(cs consensus.State, b *types.Block) {
	total := cs.BlockReward()
	for _, t := range b.Transactions {
		total = total.Add(t.TotalFees())
	}
	for _, t := range b.V2Transactions() {
		total = total.Add(t.MinerFee)
	}
	miner := b.MinerPayouts[0].Address
	b.MinerPayouts = []types.SiacoinOutput{{Address: miner, Value: total}}
	b.V2.Commitment = cs.Commitment(miner, b.Transactions, b.V2Transactions())
}

func (r *c18Run) relay(cs consensus.State, b types.Block, label string, replay map[string]any) {
	res := r.c.Res
	rng := r.c.Rng
	txs := c18BlockTxs(b)
	n := len(txs)
	if n == 0 || n > 30 {
		return
	}
	res.Count("relay:blocks:" + label)
	sub := func(mask uint64) (t1 []types.Transaction, t2 []types.V2Transaction, hs map[types.Hash256]bool) {
		hs = map[types.Hash256]bool{}
		for k, t := range txs {
			if mask&(1<<uint(k)) != 0 {
				hs[t.hash] = true
				if t.v2 {
					t2 = append(t2, b.V2.Transactions[t.i].DeepCopy())
				} else {
					t1 = append(t1, chain.DeepCopyBlock(types.Block{Transactions: []types.Transaction{b.Transactions[t.i]}}).Transactions[0])
				}
			}
		}
		return
	}
	type pair struct{ o, p uint64 }
	var pairs []pair
	full := uint64(1)<<uint(n) - 1
	if n <= 5 {
		for o := uint64(0); o <= full; o++ {
			for p := uint64(0); p <= full; p++ {
				pairs = append(pairs, pair{o, p})
			}
		}
		res.Count("relay:blocks-with-all-pairs")
	} else {
		pairs = append(pairs, pair{full, full}, pair{full, 0}, pair{0, 0})
		for k := 0; k < 40; k++ {
			o := rng.Uint64() & full
			p := rng.Uint64() & full
			if k%3 == 0 {
				p |= o // the pool covers what was omitted
			}
			pairs = append(pairs, pair{o, p})
		}
	}
	want := c18Enc(types.V2Block(b))
	for _, pr := range pairs {
		rp := map[string]any{"kind": "relay", "label": label, "omit": pr.o, "pool": pr.p}
		for k, v := range replay {
			rp[k] = v
		}
		o1, o2, oh := sub(pr.o)
		p1, p2, ph := sub(pr.p)
		res.Eval(fmt.Sprintf("relay %v %s %x %x", b.ID(), label, pr.o, pr.p), pr.o != 0)
		// sender
		bo := gateway.OutlineBlock(chain.DeepCopyBlock(b), o1, o2)
		enc := c18Enc(gateway.VerifCodec{O: &gateway.RPCRelayV2BlockOutline{Block: bo}})
		// receiver
		var msg gateway.RPCRelayV2BlockOutline
		d := types.NewBufDecoder(enc)
		if p, m := fw.Recover(func() { gateway.VerifCodec{O: &msg}.DecodeFrom(d) }); p || d.Err() != nil {
			res.Violate(fw.Violation{Key: "c18-outline-codec", What: fmt.Sprintf("relayed outline does not decode (%s): panic=%v %s err=%v", label, p, m, d.Err()), Replay: rp})
			continue
		}
		got := msg.Block
		if id := got.ID(cs); id != b.ID() {
			res.Violate(fw.Violation{Key: "c18-outline-id", What: "relayed outline has a different ID than the block (" + label + ")", Replay: rp, Expected: b.ID().String(), Observed: id.String()})
		}
		var missO, missOP []types.Hash256
		for _, t := range txs {
			if oh[t.hash] {
				missO = append(missO, t.hash)
				if !ph[t.hash] {
					missOP = append(missOP, t.hash)
				}
			}
		}
		if c18Hashes(got.Missing()) != c18Hashes(missO) {
			res.Violate(fw.Violation{Key: "c18-missing-wrong", What: "Missing() of the relayed outline is not the omitted hashes in block order (" + label + ")", Replay: rp, Expected: c18Hashes(missO), Observed: c18Hashes(got.Missing())})
		}
		cb, miss := got.Complete(cs, p1, p2)
		if c18Hashes(miss) != c18Hashes(missOP) {
			res.Violate(fw.Violation{Key: "c18-missing-wrong", What: "Complete does not report exactly the hashes omitted and not in the pool, in block order (" + label + ")", Replay: rp, Expected: c18Hashes(missOP), Observed: c18Hashes(miss)})
			continue
		}
		if len(miss) > 0 {
			// request exactly the missing ones and complete again
			res.Count("relay:second-round")
			var need uint64
			for k, t := range txs {
				for _, h := range miss {
					if t.hash == h {
						need |= 1 << uint(k)
					}
				}
			}
			q1, q2, _ := sub(need)
			cb, miss = got.Complete(cs, q1, q2)
			if len(miss) != 0 {
				res.Violate(fw.Violation{Key: "c18-missing-wrong", What: "after delivering the requested transactions something is still missing (" + label + ")", Replay: rp, Observed: c18Hashes(miss)})
				continue
			}
		}
		if cb.ID() != b.ID() || cb.V2 == nil || cb.V2.Commitment != b.V2.Commitment {
			res.Violate(fw.Violation{Key: "c18-complete-differs", What: "the completed block has a different ID or commitment (" + label + ")", Replay: rp, Expected: b.ID().String(), Observed: cb.ID().String()})
			continue
		}
		if got2 := cs.Commitment(cb.MinerPayouts[0].Address, cb.Transactions, cb.V2Transactions()); got2 != b.V2.Commitment {
			res.Violate(fw.Violation{Key: "c18-commitment", What: "the commitment recomputed over the completed block differs (" + label + ")", Replay: rp})
		}
		if !bytes.Equal(c18Enc(types.V2Block(cb)), want) {
			res.Violate(fw.Violation{Key: "c18-complete-differs", What: "the completed block is not bit-for-bit the original (" + label + ")", Replay: rp})
		}
	}
}

// relayAll runs the relay scenarios on a valid block and on its duplicate-leaf variants.
func (r *c18Run) relayAll(cs consensus.State, b types.Block, replay map[string]any) {
	r.relay(cs, b, "valid", replay)
	for _, v := range c11DupBlocks(b) {
		db := v.b
		c18Reseal(cs, &db)
		dups := 0
		for _, k := range c11LeafCounts(db) {
			if k > 1 {
				dups++
			}
		}
		if dups == 0 {
			continue
		}
		r.c.Res.Count("relay:duplicate-leaf-variant:" + v.kind)
		// the multiproof codec on the variant as a whole, then the relay pairs
		r.multiproof(db.V2.Transactions, "dup-block:"+v.kind, replay)
		r.relay(cs, db, v.kind, replay)
	}
}
