package props

// The table of every type with an encoder/decoder pair in types, consensus,
// gateway, rhp/v2, rhp/v3, rhp/v4 (C11, C10D). `lean` is the name of the codec in
// the generated Lean tables (SiaModel/Gen/FactsSchema.lean), `goName` the name used
// in violation keys.

import (
	"reflect"

	"go.sia.tech/core/consensus"
	"go.sia.tech/core/gateway"
	rhp2 "go.sia.tech/core/rhp/v2"
	rhp3 "go.sia.tech/core/rhp/v3"
	rhp4 "go.sia.tech/core/rhp/v4"
	"go.sia.tech/core/types"
)

type c11Codec struct {
	lean   string
	goName string
	// newPtr returns a pointer to a zero value (the object that is generated,
	// compared, mutated and decoded into)
	newPtr func() any
	// codec returns the encoder and decoder acting on p
	codec func(p any) (types.EncoderTo, types.DecoderFrom)
	// gen fills p with a random value in normal form (nil: reflection)
	gen func(g *c11Gen, p any)
	// norm re-establishes the normal form after a field was changed (custom objects)
	norm func(p any)
	// fields restricts generation and mutation to these struct fields (gateway
	// objects: the request or the response half)
	fields []string
}

func c11Std[T any, PT interface {
	*T
	types.EncoderTo
	types.DecoderFrom
}](lean, goName string) c11Codec {
	return c11Codec{lean: lean, goName: goName,
		newPtr: func() any { return new(T) },
		codec:  func(p any) (types.EncoderTo, types.DecoderFrom) { x := PT(p.(*T)); return x, x }}
}

func c11Gw[T any, PT interface {
	*T
	gateway.Object
}](lean, goName string, resp bool, fields ...string) c11Codec {
	return c11Codec{lean: lean, goName: goName, fields: fields,
		newPtr: func() any { return new(T) },
		codec: func(p any) (types.EncoderTo, types.DecoderFrom) {
			c := gateway.VerifCodec{O: PT(p.(*T)), Response: resp}
			return c, c
		}}
}

func c11R4[T any, PT interface {
	*T
	rhp4.VerifCodecer
}](lean, goName string) c11Codec {
	return c11Codec{lean: lean, goName: goName,
		newPtr: func() any { return new(T) },
		codec: func(p any) (types.EncoderTo, types.DecoderFrom) {
			c := rhp4.VerifCodec{O: PT(p.(*T))}
			return c, c
		}}
}

// harness-side mirrors of unexported wire objects (built through the verif hooks)
type (
	c11LoopReq struct {
		PublicKey [32]byte
		Ciphers   []types.Specifier
	}
	c11LoopResp struct {
		PublicKey [32]byte
		Signature types.Signature
		Cipher    types.Specifier
	}
	// rpcResponse: an error XOR a payload (payload type fixed by the caller)
	c11Resp2 struct {
		Err  *rhp2.RPCError
		Data rhp2.RPCSettingsResponse
	}
	c11Resp3 struct {
		Err  *rhp3.RPCError
		Data rhp3.RPCUpdatePriceTableResponse
	}
)

var c11Custom = []c11Codec{
	{lean: "Gateway_Header", goName: "gateway.Header", newPtr: func() any { return new(gateway.Header) },
		codec: func(p any) (types.EncoderTo, types.DecoderFrom) {
			c := gateway.VerifHeaderCodec{H: p.(*gateway.Header)}
			return c, c
		}},
	{lean: "Gateway_V2BlockOutline", goName: "gateway.V2BlockOutline", newPtr: func() any { return new(gateway.V2BlockOutline) },
		codec: func(p any) (types.EncoderTo, types.DecoderFrom) {
			c := gateway.VerifOutlineCodec{B: p.(*gateway.V2BlockOutline)}
			return c, c
		}},
	{lean: "Rhp4_AccountToken", goName: "rhp4.AccountToken", newPtr: func() any { return new(rhp4.AccountToken) },
		codec: func(p any) (types.EncoderTo, types.DecoderFrom) {
			c := rhp4.VerifAccountTokenCodec{T: p.(*rhp4.AccountToken)}
			return c, c
		}},
	{lean: "Types_V2TransactionsMultiproof", goName: "types.V2TransactionsMultiproof",
		newPtr: func() any { return new(types.V2TransactionsMultiproof) },
		codec: func(p any) (types.EncoderTo, types.DecoderFrom) {
			x := p.(*types.V2TransactionsMultiproof)
			return x, x
		},
		gen: func(g *c11Gen, p any) { *p.(*types.V2TransactionsMultiproof) = g.safeV2Txns() }},
	// v2 transactions without policy-bearing inputs: the part of the v2 transaction
	// codec (version, bitmap, every other field incl. all resolution kinds) that the
	// Lean model covers end to end (SpendPolicy has its own model, property C14)
	{lean: "Types_V2Transaction", goName: "types.V2Transaction/no-inputs",
		newPtr: func() any { return new(types.V2Transaction) },
		codec: func(p any) (types.EncoderTo, types.DecoderFrom) {
			x := p.(*types.V2Transaction)
			return x, x
		},
		gen: func(g *c11Gen, p any) {
			x := p.(*types.V2Transaction)
			g.fill(reflect.ValueOf(x).Elem(), 3)
			x.SiacoinInputs, x.SiafundInputs = nil, nil
		},
		norm: func(p any) {
			x := p.(*types.V2Transaction)
			x.SiacoinInputs, x.SiafundInputs = nil, nil
		}},
	{lean: "Rhp2_loopKeyExchangeRequest", goName: "rhp2.loopKeyExchangeRequest", newPtr: func() any { return new(c11LoopReq) },
		codec: func(p any) (types.EncoderTo, types.DecoderFrom) {
			x := p.(*c11LoopReq)
			return types.EncoderFunc(func(e *types.Encoder) {
					rhp2.VerifNewLoopKeyExchangeRequest(x.PublicKey, x.Ciphers).EncodeTo(e)
				}), types.DecoderFunc(func(d *types.Decoder) {
					o := rhp2.VerifNewLoopKeyExchangeRequest([32]byte{}, nil)
					o.DecodeFrom(d)
					x.PublicKey, x.Ciphers = rhp2.VerifLoopKeyExchangeRequestFields(o)
				})
		}},
	{lean: "Rhp2_loopKeyExchangeResponse", goName: "rhp2.loopKeyExchangeResponse", newPtr: func() any { return new(c11LoopResp) },
		codec: func(p any) (types.EncoderTo, types.DecoderFrom) {
			x := p.(*c11LoopResp)
			return types.EncoderFunc(func(e *types.Encoder) {
					rhp2.VerifNewLoopKeyExchangeResponse(x.PublicKey, x.Signature, x.Cipher).EncodeTo(e)
				}), types.DecoderFunc(func(d *types.Decoder) {
					o := rhp2.VerifNewLoopKeyExchangeResponse([32]byte{}, types.Signature{}, types.Specifier{})
					o.DecodeFrom(d)
					x.PublicKey, x.Signature, x.Cipher = rhp2.VerifLoopKeyExchangeResponseFields(o)
				})
		}},
	{lean: "Rhp2_rpcResponse", goName: "rhp2.rpcResponse", newPtr: func() any { return new(c11Resp2) },
		codec: func(p any) (types.EncoderTo, types.DecoderFrom) {
			x := p.(*c11Resp2)
			return types.EncoderFunc(func(e *types.Encoder) {
					rhp2.VerifNewRPCResponse(x.Err, &x.Data).EncodeTo(e)
				}), types.DecoderFunc(func(d *types.Decoder) {
					o := rhp2.VerifNewRPCResponse(nil, &x.Data)
					o.DecodeFrom(d)
					x.Err = rhp2.VerifRPCResponseErr(o)
				})
		},
		gen: func(g *c11Gen, p any) {
			x := p.(*c11Resp2)
			g.fill(reflect.ValueOf(x).Elem(), 3)
			if x.Err != nil { // the payload is not transmitted with an error
				x.Data = rhp2.RPCSettingsResponse{}
			}
		},
		norm: func(p any) {
			if x := p.(*c11Resp2); x.Err != nil {
				x.Data = rhp2.RPCSettingsResponse{}
			}
		}},
	{lean: "Rhp3_rpcResponse", goName: "rhp3.rpcResponse", newPtr: func() any { return new(c11Resp3) },
		codec: func(p any) (types.EncoderTo, types.DecoderFrom) {
			x := p.(*c11Resp3)
			return types.EncoderFunc(func(e *types.Encoder) {
					rhp3.VerifNewRPCResponse(x.Err, &x.Data).EncodeTo(e)
				}), types.DecoderFunc(func(d *types.Decoder) {
					o := rhp3.VerifNewRPCResponse(nil, &x.Data)
					o.DecodeFrom(d)
					x.Err = rhp3.VerifRPCResponseErr(o)
				})
		},
		gen: func(g *c11Gen, p any) {
			x := p.(*c11Resp3)
			g.fill(reflect.ValueOf(x).Elem(), 3)
			if x.Err != nil {
				x.Data = rhp3.RPCUpdatePriceTableResponse{}
			}
		},
		norm: func(p any) {
			if x := p.(*c11Resp3); x.Err != nil {
				x.Data = rhp3.RPCUpdatePriceTableResponse{}
			}
		}},
}

var _ = consensus.State{}

// c11Types: every codec type.
func c11Types() []c11Codec {
	ts := []c11Codec{
		c11Std[consensus.ElementAccumulator]("Consensus_ElementAccumulator", "consensus.ElementAccumulator"),
		c11Std[consensus.State]("Consensus_State", "consensus.State"),
		c11Std[consensus.V1BlockSupplement]("Consensus_V1BlockSupplement", "consensus.V1BlockSupplement"),
		c11Std[consensus.V1StorageProofSupplement]("Consensus_V1StorageProofSupplement", "consensus.V1StorageProofSupplement"),
		c11Std[consensus.V1TransactionSupplement]("Consensus_V1TransactionSupplement", "consensus.V1TransactionSupplement"),
		c11Std[consensus.Work]("Consensus_Work", "consensus.Work"),
		c11Gw[gateway.RPCDiscoverIP]("Gateway_RPCDiscoverIP_Response", "gateway.RPCDiscoverIP.Response", true, "IP"),
		c11Gw[gateway.RPCRelayV2BlockOutline]("Gateway_RPCRelayV2BlockOutline_Request", "gateway.RPCRelayV2BlockOutline.Request", false, "Block"),
		c11Gw[gateway.RPCRelayV2Header]("Gateway_RPCRelayV2Header_Request", "gateway.RPCRelayV2Header.Request", false, "Header"),
		c11Gw[gateway.RPCRelayV2TransactionSet]("Gateway_RPCRelayV2TransactionSet_Request", "gateway.RPCRelayV2TransactionSet.Request", false, "Index", "Transactions"),
		c11Gw[gateway.RPCSendCheckpoint]("Gateway_RPCSendCheckpoint_Request", "gateway.RPCSendCheckpoint.Request", false, "Index"),
		c11Gw[gateway.RPCSendCheckpoint]("Gateway_RPCSendCheckpoint_Response", "gateway.RPCSendCheckpoint.Response", true, "Block", "State"),
		c11Gw[gateway.RPCSendHeaders]("Gateway_RPCSendHeaders_Request", "gateway.RPCSendHeaders.Request", false, "Index", "Max"),
		c11Gw[gateway.RPCSendHeaders]("Gateway_RPCSendHeaders_Response", "gateway.RPCSendHeaders.Response", true, "Headers", "Remaining"),
		c11Gw[gateway.RPCSendTransactions]("Gateway_RPCSendTransactions_Request", "gateway.RPCSendTransactions.Request", false, "Index", "Hashes"),
		c11Gw[gateway.RPCSendTransactions]("Gateway_RPCSendTransactions_Response", "gateway.RPCSendTransactions.Response", true, "Transactions", "V2Transactions"),
		c11Gw[gateway.RPCSendV2Blocks]("Gateway_RPCSendV2Blocks_Request", "gateway.RPCSendV2Blocks.Request", false, "History", "Max"),
		c11Gw[gateway.RPCSendV2Blocks]("Gateway_RPCSendV2Blocks_Response", "gateway.RPCSendV2Blocks.Response", true, "Blocks", "Remaining"),
		c11Gw[gateway.RPCShareNodes]("Gateway_RPCShareNodes_Response", "gateway.RPCShareNodes.Response", true, "Peers"),
		c11Std[rhp2.Challenge]("Rhp2_Challenge", "rhp2.Challenge"),
		c11Std[rhp2.RPCError]("Rhp2_RPCError", "rhp2.RPCError"),
		c11Std[rhp2.RPCFormContractAdditions]("Rhp2_RPCFormContractAdditions", "rhp2.RPCFormContractAdditions"),
		c11Std[rhp2.RPCFormContractRequest]("Rhp2_RPCFormContractRequest", "rhp2.RPCFormContractRequest"),
		c11Std[rhp2.RPCFormContractSignatures]("Rhp2_RPCFormContractSignatures", "rhp2.RPCFormContractSignatures"),
		c11Std[rhp2.RPCLockRequest]("Rhp2_RPCLockRequest", "rhp2.RPCLockRequest"),
		c11Std[rhp2.RPCLockResponse]("Rhp2_RPCLockResponse", "rhp2.RPCLockResponse"),
		c11Std[rhp2.RPCReadRequest]("Rhp2_RPCReadRequest", "rhp2.RPCReadRequest"),
		c11Std[rhp2.RPCReadResponse]("Rhp2_RPCReadResponse", "rhp2.RPCReadResponse"),
		c11Std[rhp2.RPCRenewAndClearContractRequest]("Rhp2_RPCRenewAndClearContractRequest", "rhp2.RPCRenewAndClearContractRequest"),
		c11Std[rhp2.RPCRenewAndClearContractSignatures]("Rhp2_RPCRenewAndClearContractSignatures", "rhp2.RPCRenewAndClearContractSignatures"),
		c11Std[rhp2.RPCSectorRootsRequest]("Rhp2_RPCSectorRootsRequest", "rhp2.RPCSectorRootsRequest"),
		c11Std[rhp2.RPCSectorRootsResponse]("Rhp2_RPCSectorRootsResponse", "rhp2.RPCSectorRootsResponse"),
		c11Std[rhp2.RPCSettingsResponse]("Rhp2_RPCSettingsResponse", "rhp2.RPCSettingsResponse"),
		c11Std[rhp2.RPCWriteMerkleProof]("Rhp2_RPCWriteMerkleProof", "rhp2.RPCWriteMerkleProof"),
		c11Std[rhp2.RPCWriteRequest]("Rhp2_RPCWriteRequest", "rhp2.RPCWriteRequest"),
		c11Std[rhp2.RPCWriteResponse]("Rhp2_RPCWriteResponse", "rhp2.RPCWriteResponse"),
		c11Std[rhp3.Account]("Rhp3_Account", "rhp3.Account"),
		c11Std[rhp3.FundAccountReceipt]("Rhp3_FundAccountReceipt", "rhp3.FundAccountReceipt"),
		c11Std[rhp3.InstrAppendSector]("Rhp3_InstrAppendSector", "rhp3.InstrAppendSector"),
		c11Std[rhp3.InstrAppendSectorRoot]("Rhp3_InstrAppendSectorRoot", "rhp3.InstrAppendSectorRoot"),
		c11Std[rhp3.InstrDropSectors]("Rhp3_InstrDropSectors", "rhp3.InstrDropSectors"),
		c11Std[rhp3.InstrHasSector]("Rhp3_InstrHasSector", "rhp3.InstrHasSector"),
		c11Std[rhp3.InstrReadOffset]("Rhp3_InstrReadOffset", "rhp3.InstrReadOffset"),
		c11Std[rhp3.InstrReadRegistry]("Rhp3_InstrReadRegistry", "rhp3.InstrReadRegistry"),
		c11Std[rhp3.InstrReadRegistryNoVersion]("Rhp3_InstrReadRegistryNoVersion", "rhp3.InstrReadRegistryNoVersion"),
		c11Std[rhp3.InstrReadSector]("Rhp3_InstrReadSector", "rhp3.InstrReadSector"),
		c11Std[rhp3.InstrRevision]("Rhp3_InstrRevision", "rhp3.InstrRevision"),
		c11Std[rhp3.InstrStoreSector]("Rhp3_InstrStoreSector", "rhp3.InstrStoreSector"),
		c11Std[rhp3.InstrSwapSector]("Rhp3_InstrSwapSector", "rhp3.InstrSwapSector"),
		c11Std[rhp3.InstrUpdateRegistry]("Rhp3_InstrUpdateRegistry", "rhp3.InstrUpdateRegistry"),
		c11Std[rhp3.InstrUpdateRegistryNoType]("Rhp3_InstrUpdateRegistryNoType", "rhp3.InstrUpdateRegistryNoType"),
		c11Std[rhp3.InstrUpdateSector]("Rhp3_InstrUpdateSector", "rhp3.InstrUpdateSector"),
		c11Std[rhp3.PayByContractRequest]("Rhp3_PayByContractRequest", "rhp3.PayByContractRequest"),
		c11Std[rhp3.PayByEphemeralAccountRequest]("Rhp3_PayByEphemeralAccountRequest", "rhp3.PayByEphemeralAccountRequest"),
		c11Std[rhp3.PaymentResponse]("Rhp3_PaymentResponse", "rhp3.PaymentResponse"),
		c11Std[rhp3.RPCAccountBalanceRequest]("Rhp3_RPCAccountBalanceRequest", "rhp3.RPCAccountBalanceRequest"),
		c11Std[rhp3.RPCAccountBalanceResponse]("Rhp3_RPCAccountBalanceResponse", "rhp3.RPCAccountBalanceResponse"),
		c11Std[rhp3.RPCError]("Rhp3_RPCError", "rhp3.RPCError"),
		c11Std[rhp3.RPCExecuteProgramRequest]("Rhp3_RPCExecuteProgramRequest", "rhp3.RPCExecuteProgramRequest"),
		c11Std[rhp3.RPCExecuteProgramResponse]("Rhp3_RPCExecuteProgramResponse", "rhp3.RPCExecuteProgramResponse"),
		c11Std[rhp3.RPCFinalizeProgramRequest]("Rhp3_RPCFinalizeProgramRequest", "rhp3.RPCFinalizeProgramRequest"),
		c11Std[rhp3.RPCFinalizeProgramResponse]("Rhp3_RPCFinalizeProgramResponse", "rhp3.RPCFinalizeProgramResponse"),
		c11Std[rhp3.RPCFundAccountRequest]("Rhp3_RPCFundAccountRequest", "rhp3.RPCFundAccountRequest"),
		c11Std[rhp3.RPCFundAccountResponse]("Rhp3_RPCFundAccountResponse", "rhp3.RPCFundAccountResponse"),
		c11Std[rhp3.RPCLatestRevisionRequest]("Rhp3_RPCLatestRevisionRequest", "rhp3.RPCLatestRevisionRequest"),
		c11Std[rhp3.RPCLatestRevisionResponse]("Rhp3_RPCLatestRevisionResponse", "rhp3.RPCLatestRevisionResponse"),
		c11Std[rhp3.RPCPriceTableResponse]("Rhp3_RPCPriceTableResponse", "rhp3.RPCPriceTableResponse"),
		c11Std[rhp3.RPCRenewContractHostAdditions]("Rhp3_RPCRenewContractHostAdditions", "rhp3.RPCRenewContractHostAdditions"),
		c11Std[rhp3.RPCRenewContractRequest]("Rhp3_RPCRenewContractRequest", "rhp3.RPCRenewContractRequest"),
		c11Std[rhp3.RPCRenewSignatures]("Rhp3_RPCRenewSignatures", "rhp3.RPCRenewSignatures"),
		c11Std[rhp3.RPCUpdatePriceTableResponse]("Rhp3_RPCUpdatePriceTableResponse", "rhp3.RPCUpdatePriceTableResponse"),
		c11Std[rhp3.SettingsID]("Rhp3_SettingsID", "rhp3.SettingsID"),
		c11Std[rhp4.Account]("Rhp4_Account", "rhp4.Account"),
		c11Std[rhp4.AccountDeposit]("Rhp4_AccountDeposit", "rhp4.AccountDeposit"),
		c11Std[rhp4.HostPrices]("Rhp4_HostPrices", "rhp4.HostPrices"),
		c11Std[rhp4.HostSettings]("Rhp4_HostSettings", "rhp4.HostSettings"),
		c11Std[rhp4.PoolAttachment]("Rhp4_PoolAttachment", "rhp4.PoolAttachment"),
		c11Std[rhp4.PoolDetachment]("Rhp4_PoolDetachment", "rhp4.PoolDetachment"),
		c11R4[rhp4.RPCAccountBalanceRequest]("Rhp4_RPCAccountBalanceRequest", "rhp4.RPCAccountBalanceRequest"),
		c11R4[rhp4.RPCAccountBalanceResponse]("Rhp4_RPCAccountBalanceResponse", "rhp4.RPCAccountBalanceResponse"),
		c11R4[rhp4.RPCAppendSectorsRequest]("Rhp4_RPCAppendSectorsRequest", "rhp4.RPCAppendSectorsRequest"),
		c11R4[rhp4.RPCAppendSectorsResponse]("Rhp4_RPCAppendSectorsResponse", "rhp4.RPCAppendSectorsResponse"),
		c11R4[rhp4.RPCAppendSectorsSecondResponse]("Rhp4_RPCAppendSectorsSecondResponse", "rhp4.RPCAppendSectorsSecondResponse"),
		c11R4[rhp4.RPCAppendSectorsThirdResponse]("Rhp4_RPCAppendSectorsThirdResponse", "rhp4.RPCAppendSectorsThirdResponse"),
		c11R4[rhp4.RPCAttachPoolsRequest]("Rhp4_RPCAttachPoolsRequest", "rhp4.RPCAttachPoolsRequest"),
		c11R4[rhp4.RPCAttachPoolsResponse]("Rhp4_RPCAttachPoolsResponse", "rhp4.RPCAttachPoolsResponse"),
		c11R4[rhp4.RPCDetachPoolsRequest]("Rhp4_RPCDetachPoolsRequest", "rhp4.RPCDetachPoolsRequest"),
		c11R4[rhp4.RPCDetachPoolsResponse]("Rhp4_RPCDetachPoolsResponse", "rhp4.RPCDetachPoolsResponse"),
		c11R4[rhp4.RPCError]("Rhp4_RPCError", "rhp4.RPCError"),
		c11R4[rhp4.RPCFormContractParams]("Rhp4_RPCFormContractParams", "rhp4.RPCFormContractParams"),
		c11R4[rhp4.RPCFormContractRequest]("Rhp4_RPCFormContractRequest", "rhp4.RPCFormContractRequest"),
		c11R4[rhp4.RPCFormContractResponse]("Rhp4_RPCFormContractResponse", "rhp4.RPCFormContractResponse"),
		c11R4[rhp4.RPCFormContractSecondResponse]("Rhp4_RPCFormContractSecondResponse", "rhp4.RPCFormContractSecondResponse"),
		c11R4[rhp4.RPCFormContractThirdResponse]("Rhp4_RPCFormContractThirdResponse", "rhp4.RPCFormContractThirdResponse"),
		c11R4[rhp4.RPCFreeSectorsRequest]("Rhp4_RPCFreeSectorsRequest", "rhp4.RPCFreeSectorsRequest"),
		c11R4[rhp4.RPCFreeSectorsResponse]("Rhp4_RPCFreeSectorsResponse", "rhp4.RPCFreeSectorsResponse"),
		c11R4[rhp4.RPCFreeSectorsSecondResponse]("Rhp4_RPCFreeSectorsSecondResponse", "rhp4.RPCFreeSectorsSecondResponse"),
		c11R4[rhp4.RPCFreeSectorsThirdResponse]("Rhp4_RPCFreeSectorsThirdResponse", "rhp4.RPCFreeSectorsThirdResponse"),
		c11R4[rhp4.RPCFundAccountsRequest]("Rhp4_RPCFundAccountsRequest", "rhp4.RPCFundAccountsRequest"),
		c11R4[rhp4.RPCFundAccountsResponse]("Rhp4_RPCFundAccountsResponse", "rhp4.RPCFundAccountsResponse"),
		c11R4[rhp4.RPCLatestRevisionRequest]("Rhp4_RPCLatestRevisionRequest", "rhp4.RPCLatestRevisionRequest"),
		c11R4[rhp4.RPCLatestRevisionResponse]("Rhp4_RPCLatestRevisionResponse", "rhp4.RPCLatestRevisionResponse"),
		c11R4[rhp4.RPCReadSectorRequest]("Rhp4_RPCReadSectorRequest", "rhp4.RPCReadSectorRequest"),
		c11R4[rhp4.RPCReadSectorResponse]("Rhp4_RPCReadSectorResponse", "rhp4.RPCReadSectorResponse"),
		c11R4[rhp4.RPCRefreshContractParams]("Rhp4_RPCRefreshContractParams", "rhp4.RPCRefreshContractParams"),
		c11R4[rhp4.RPCRefreshContractRequest]("Rhp4_RPCRefreshContractRequest", "rhp4.RPCRefreshContractRequest"),
		c11R4[rhp4.RPCRefreshContractResponse]("Rhp4_RPCRefreshContractResponse", "rhp4.RPCRefreshContractResponse"),
		c11R4[rhp4.RPCRefreshContractSecondResponse]("Rhp4_RPCRefreshContractSecondResponse", "rhp4.RPCRefreshContractSecondResponse"),
		c11R4[rhp4.RPCRefreshContractThirdResponse]("Rhp4_RPCRefreshContractThirdResponse", "rhp4.RPCRefreshContractThirdResponse"),
		c11R4[rhp4.RPCRenewContractParams]("Rhp4_RPCRenewContractParams", "rhp4.RPCRenewContractParams"),
		c11R4[rhp4.RPCRenewContractRequest]("Rhp4_RPCRenewContractRequest", "rhp4.RPCRenewContractRequest"),
		c11R4[rhp4.RPCRenewContractResponse]("Rhp4_RPCRenewContractResponse", "rhp4.RPCRenewContractResponse"),
		c11R4[rhp4.RPCRenewContractSecondResponse]("Rhp4_RPCRenewContractSecondResponse", "rhp4.RPCRenewContractSecondResponse"),
		c11R4[rhp4.RPCRenewContractThirdResponse]("Rhp4_RPCRenewContractThirdResponse", "rhp4.RPCRenewContractThirdResponse"),
		c11R4[rhp4.RPCReplenishAccountsRequest]("Rhp4_RPCReplenishAccountsRequest", "rhp4.RPCReplenishAccountsRequest"),
		c11R4[rhp4.RPCReplenishAccountsResponse]("Rhp4_RPCReplenishAccountsResponse", "rhp4.RPCReplenishAccountsResponse"),
		c11R4[rhp4.RPCReplenishAccountsSecondResponse]("Rhp4_RPCReplenishAccountsSecondResponse", "rhp4.RPCReplenishAccountsSecondResponse"),
		c11R4[rhp4.RPCReplenishAccountsThirdResponse]("Rhp4_RPCReplenishAccountsThirdResponse", "rhp4.RPCReplenishAccountsThirdResponse"),
		c11R4[rhp4.RPCSectorRootsRequest]("Rhp4_RPCSectorRootsRequest", "rhp4.RPCSectorRootsRequest"),
		c11R4[rhp4.RPCSectorRootsResponse]("Rhp4_RPCSectorRootsResponse", "rhp4.RPCSectorRootsResponse"),
		c11R4[rhp4.RPCSettingsRequest]("Rhp4_RPCSettingsRequest", "rhp4.RPCSettingsRequest"),
		c11R4[rhp4.RPCSettingsResponse]("Rhp4_RPCSettingsResponse", "rhp4.RPCSettingsResponse"),
		c11R4[rhp4.RPCVerifySectorRequest]("Rhp4_RPCVerifySectorRequest", "rhp4.RPCVerifySectorRequest"),
		c11R4[rhp4.RPCVerifySectorResponse]("Rhp4_RPCVerifySectorResponse", "rhp4.RPCVerifySectorResponse"),
		c11R4[rhp4.RPCWriteSectorRequest]("Rhp4_RPCWriteSectorRequest", "rhp4.RPCWriteSectorRequest"),
		c11R4[rhp4.RPCWriteSectorResponse]("Rhp4_RPCWriteSectorResponse", "rhp4.RPCWriteSectorResponse"),
		c11Std[types.Address]("Types_Address", "types.Address"),
		c11Std[types.Attestation]("Types_Attestation", "types.Attestation"),
		c11Std[types.AttestationID]("Types_AttestationID", "types.AttestationID"),
		c11Std[types.BlockHeader]("Types_BlockHeader", "types.BlockHeader"),
		c11Std[types.BlockID]("Types_BlockID", "types.BlockID"),
		c11Std[types.ChainIndex]("Types_ChainIndex", "types.ChainIndex"),
		c11Std[types.ChainIndexElement]("Types_ChainIndexElement", "types.ChainIndexElement"),
		c11Std[types.CoveredFields]("Types_CoveredFields", "types.CoveredFields"),
		c11Std[types.FileContract]("Types_FileContract", "types.FileContract"),
		c11Std[types.FileContractElement]("Types_FileContractElement", "types.FileContractElement"),
		c11Std[types.FileContractID]("Types_FileContractID", "types.FileContractID"),
		c11Std[types.FileContractRevision]("Types_FileContractRevision", "types.FileContractRevision"),
		c11Std[types.FoundationAddressUpdate]("Types_FoundationAddressUpdate", "types.FoundationAddressUpdate"),
		c11Std[types.Hash256]("Types_Hash256", "types.Hash256"),
		c11Std[types.PublicKey]("Types_PublicKey", "types.PublicKey"),
		c11Std[types.SatisfiedPolicy]("Types_SatisfiedPolicy", "types.SatisfiedPolicy"),
		c11Std[types.SiacoinElement]("Types_SiacoinElement", "types.SiacoinElement"),
		c11Std[types.SiacoinInput]("Types_SiacoinInput", "types.SiacoinInput"),
		c11Std[types.SiacoinOutputID]("Types_SiacoinOutputID", "types.SiacoinOutputID"),
		c11Std[types.SiafundElement]("Types_SiafundElement", "types.SiafundElement"),
		c11Std[types.SiafundInput]("Types_SiafundInput", "types.SiafundInput"),
		c11Std[types.SiafundOutputID]("Types_SiafundOutputID", "types.SiafundOutputID"),
		c11Std[types.Signature]("Types_Signature", "types.Signature"),
		c11Std[types.Specifier]("Types_Specifier", "types.Specifier"),
		c11Std[types.SpendPolicy]("Types_SpendPolicy", "types.SpendPolicy"),
		c11Std[types.StateElement]("Types_StateElement", "types.StateElement"),
		c11Std[types.StorageProof]("Types_StorageProof", "types.StorageProof"),
		c11Std[types.Transaction]("Types_Transaction", "types.Transaction"),
		c11Std[types.TransactionID]("Types_TransactionID", "types.TransactionID"),
		c11Std[types.TransactionSignature]("Types_TransactionSignature", "types.TransactionSignature"),
		c11Std[types.UnlockConditions]("Types_UnlockConditions", "types.UnlockConditions"),
		c11Std[types.UnlockKey]("Types_UnlockKey", "types.UnlockKey"),
		c11Std[types.V1Block]("Types_V1Block", "types.V1Block"),
		c11Std[types.V1Currency]("Types_V1Currency", "types.V1Currency"),
		c11Std[types.V1SiacoinOutput]("Types_V1SiacoinOutput", "types.V1SiacoinOutput"),
		c11Std[types.V1SiafundOutput]("Types_V1SiafundOutput", "types.V1SiafundOutput"),
		c11Std[types.V2Block]("Types_V2Block", "types.V2Block"),
		c11Std[types.V2BlockData]("Types_V2BlockData", "types.V2BlockData"),
		c11Std[types.V2Currency]("Types_V2Currency", "types.V2Currency"),
		c11Std[types.V2FileContract]("Types_V2FileContract", "types.V2FileContract"),
		c11Std[types.V2FileContractElement]("Types_V2FileContractElement", "types.V2FileContractElement"),
		c11Std[types.V2FileContractExpiration]("Types_V2FileContractExpiration", "types.V2FileContractExpiration"),
		c11Std[types.V2FileContractRenewal]("Types_V2FileContractRenewal", "types.V2FileContractRenewal"),
		c11Std[types.V2FileContractResolution]("Types_V2FileContractResolution", "types.V2FileContractResolution"),
		c11Std[types.V2FileContractRevision]("Types_V2FileContractRevision", "types.V2FileContractRevision"),
		c11Std[types.V2SiacoinInput]("Types_V2SiacoinInput", "types.V2SiacoinInput"),
		c11Std[types.V2SiacoinOutput]("Types_V2SiacoinOutput", "types.V2SiacoinOutput"),
		c11Std[types.V2SiafundInput]("Types_V2SiafundInput", "types.V2SiafundInput"),
		c11Std[types.V2SiafundOutput]("Types_V2SiafundOutput", "types.V2SiafundOutput"),
		c11Std[types.V2StorageProof]("Types_V2StorageProof", "types.V2StorageProof"),
		c11Std[types.V2Transaction]("Types_V2Transaction", "types.V2Transaction"),
	}
	return append(ts, c11Custom...)
}
