package props

// C19 — RPC framing admits all valid messages, bounds reads; transports are faithful.
//
// Go side, written from the property statement, on the REAL code:
//   - rhp/v4: every Object through WriteRequest/ReadRequest and WriteResponse/
//     ReadResponse over an in-memory stream that counts the bytes pulled: at its
//     maximal valid size (protocol batch limits) and at random smaller sizes it must
//     be read back equal, pulling exactly the message; over the limit it must fail
//     without pulling more than the limit; RPCError responses must be delivered as
//     that error for every response type.
//   - the exact case of F12 (RPCFreeSectorsResponse vs 20 MiB) with the real proof
//     builder, and of F13 (a maximal-weight v2 block vs the gateway's 5 MB).
//   - gateway: Dial/Accept over net.Pipe, matching and mismatching headers, every
//     Stream method for every RPC object.
//   - rhp/v2: NewRenterTransport/NewHostTransport over net.Pipe, message sequences,
//     single-byte corruptions and truncations of an encrypted frame in transit.
//   - rhp/v3: the same object sequences over its mux transport.
//
// Correspondence: generated maxLen facts, bounded reads and the handshake decision
// against the Lean framing model (`frame …` ops).

import (
	"bytes"
	"encoding/binary"
	"encoding/json"
	"errors"
	"fmt"
	"io"
	"net"
	"reflect"
	"strings"
	"sync"
	"time"

	"go.sia.tech/core/consensus"
	"go.sia.tech/core/gateway"
	rhp2 "go.sia.tech/core/rhp/v2"
	rhp3 "go.sia.tech/core/rhp/v3"
	rhp4 "go.sia.tech/core/rhp/v4"
	"go.sia.tech/core/types"
	"verif/harness/internal/fw"
)

func init() { fw.Register("C19", runC19) }

// countingReader counts what is pulled from the underlying stream.
type c19CountingReader struct {
	r io.Reader
	n int
}

func (c *c19CountingReader) Read(p []byte) (int, error) {
	n, err := c.r.Read(p)
	c.n += n
	return n, err
}

// protocol limits per rhp/v4 type: field -> maximal element count
var c19Limits = map[string]map[string]int{
	"rhp4.RPCFreeSectorsRequest":        {"Indices": rhp4.MaxSectorBatchSize},
	"rhp4.RPCAppendSectorsRequest":      {"Sectors": rhp4.MaxSectorBatchSize},
	"rhp4.RPCAppendSectorsResponse":     {"Accepted": rhp4.MaxSectorBatchSize, "SubtreeRoots": 64},
	"rhp4.RPCSectorRootsResponse":       {"Proof": 128, "Roots": rhp4.MaxSectorBatchSize},
	"rhp4.RPCReadSectorResponse":        {"Proof": 32},
	"rhp4.RPCVerifySectorResponse":      {"Proof": 16},
	"rhp4.RPCFundAccountsRequest":       {"Deposits": rhp4.MaxAccountBatchSize},
	"rhp4.RPCFundAccountsResponse":      {"Balances": rhp4.MaxAccountBatchSize},
	"rhp4.RPCReplenishAccountsRequest":  {"Accounts": rhp4.MaxAccountBatchSize},
	"rhp4.RPCReplenishAccountsResponse": {"Deposits": rhp4.MaxAccountBatchSize},
	"rhp4.RPCAttachPoolsRequest":        {"Attachments": rhp4.MaxAccountBatchSize},
	"rhp4.RPCDetachPoolsRequest":        {"Detachments": rhp4.MaxAccountBatchSize},
}

// types whose only bound is maxLen itself (transaction sets, free-form strings):
// generated small so that they fit; the property is conditional for them
var c19Unbounded = map[string]bool{
	"rhp4.RPCSettingsResponse": true, "rhp4.RPCFormContractRequest": true, "rhp4.RPCFormContractResponse": true,
	"rhp4.RPCFormContractSecondResponse": true, "rhp4.RPCFormContractThirdResponse": true,
	"rhp4.RPCRenewContractRequest": true, "rhp4.RPCRenewContractResponse": true, "rhp4.RPCRenewContractSecondResponse": true,
	"rhp4.RPCRenewContractThirdResponse": true, "rhp4.RPCRefreshContractRequest": true, "rhp4.RPCRefreshContractResponse": true,
	"rhp4.RPCRefreshContractSecondResponse": true, "rhp4.RPCRefreshContractThirdResponse": true,
}

func c19IsResponse(name string) bool { return strings.HasSuffix(name, "Response") }

// c19SetLen sets slice field f of the struct pointed to by p to n random elements.
func c19SetLen(g *c11Gen, p any, f string, n int) {
	v := reflect.ValueOf(p).Elem().FieldByName(f)
	s := reflect.MakeSlice(v.Type(), n, n)
	if n > 0 {
		// fill the first few, the rest stay zero (content does not matter for size)
		for i := 0; i < n && i < 4; i++ {
			g.fill(s.Index(i), 1)
		}
	}
	v.Set(s)
}

type c19Case struct {
	ct   c11Codec
	obj  rhp4.Object
	p    any
	kind string
}

func c19Violate(c *fw.Ctx, key, what string, replay map[string]any, exp, obs string) {
	c.Res.Violate(fw.Violation{Key: key, What: what, Replay: replay, Expected: exp, Observed: obs})
}

func runC19(c *fw.Ctx) {
	res := c.Res
	res.Rule = "rhp/v4: every Object type through the real WriteRequest/ReadRequest resp. WriteResponse/ReadResponse over a byte-counting in-memory stream: at the maximal size the protocol limits allow (MaxSectorBatchSize / MaxAccountBatchSize entries), at random smaller sizes, and over the limit; RPCError responses of boundary description lengths for every response type; F12 with the real BuildFreeSectorsProof on 2 TiB and 4 TiB contracts; F13 with a maximal-weight v2 block. gateway: Dial/Accept over net.Pipe (matching, wrong genesis, same unique id) and every Stream method per RPC object. rhp/v2: handshake + request/response sequences over net.Pipe, one corrupted or truncated byte per run at every region of the encrypted frame. rhp/v3: object sequences over the mux transport. A case is non-trivial when a message is non-empty; distinct by (kind, type, bytes)."
	g := &c11Gen{rng: c.Rng}
	model := &c11Model{}
	if c.Replay != "" {
		// replay: re-run the part of the harness the stored case belongs to
		var v struct{ Replay struct{ Kind string } }
		b, err := readFile(c.Replay)
		if err != nil {
			b, err = readFile("../" + c.Replay)
		}
		if err == nil {
			json.Unmarshal(b, &v)
		}
		switch {
		case v.Replay.Kind == "F12":
			c19F12(c)
		case v.Replay.Kind == "F13":
			c19F13(c, g)
		case v.Replay.Kind == "rhp2-size":
			c19Rhp2Sweep(c, g, c11GetConsts(c), model)
		case strings.HasPrefix(v.Replay.Kind, "rhp2"):
			c19Rhp2(c, g)
		case v.Replay.Kind == "rhp2-multi":
			c19Rhp2Sequences(c, g)
		case strings.HasPrefix(v.Replay.Kind, "rhp3"):
			c19Rhp3(c, g, c11GetConsts(c))
		case strings.HasPrefix(v.Replay.Kind, "gateway"):
			c19Gateway(c, g, model)
		default:
			c19Rhp4(c, g, model)
		}
		c11Compare(c, model)
		return
	}
	consts := c11GetConsts(c)
	c19Rhp4(c, g, model)
	c19F12(c)
	c19F13(c, g)
	c19Gateway(c, g, model)
	c19Rhp2(c, g)
	c19Rhp2Sweep(c, g, consts, model)
	c19Rhp2Sequences(c, g)
	c19Rhp4Sequences(c, g)
	c19RawResponse(c)
	c19Rhp3(c, g, consts)
	c11Compare(c, model)
}

// ---------------------------------------------------------------- rhp/v4

func c19Rhp4(c *fw.Ctx, g *c11Gen, model *c11Model) {
	res := c.Res
	var id types.Specifier
	copy(id[:], "VerifC19")
	for _, ct := range c11Types() {
		if !strings.HasPrefix(ct.goName, "rhp4.RPC") {
			continue
		}
		p0 := ct.newPtr()
		obj0, ok := p0.(rhp4.Object)
		if !ok {
			continue // parameter structs are not messages
		}
		tname := strings.TrimPrefix(ct.goName, "rhp4.")
		maxLen := rhp4.VerifMaxLen(obj0)
		model.add("frame maxlen4 "+tname, fmt.Sprint(maxLen))
		isResp := c19IsResponse(tname) && tname != "RPCError"
		if tname == "RPCError" {
			continue // exercised as the error response of every type below
		}
		limit := maxLen
		if isResp {
			limit = rhp4.VerifMaxLen(new(rhp4.RPCError)) + maxLen
		}
		// ---- values: maximal valid, random smaller
		var vals []any
		nRand := c.Budget(6, 60)
		for i := 0; i <= nRand; i++ {
			p := ct.newPtr()
			switch {
			case c19Unbounded[ct.goName]:
				// regenerate until it fits: only maxLen bounds these
				for try := 0; try < 50; try++ {
					p = ct.newPtr()
					g.fill(reflect.ValueOf(p).Elem(), 2)
					if b, _ := c11Encode(ct, p); len(b)+1 <= maxLen {
						break
					}
					p = ct.newPtr()
				}
			default:
				g.fill(reflect.ValueOf(p).Elem(), 2)
				for f, n := range c19Limits[ct.goName] {
					k := n
					if i > 0 {
						k = g.rng.Intn(n + 1)
						if g.coin(2) {
							k = g.rng.Intn(20)
						}
					}
					c19SetLen(g, p, f, k)
				}
			}
			vals = append(vals, p)
		}
		for i, p := range vals {
			kind := "random"
			if i == 0 && !c19Unbounded[ct.goName] {
				kind = "maximal"
			}
			c19Rhp4Roundtrip(c, ct, tname, p, isResp, id, maxLen, limit, kind, model)
		}
		// ---- over the limit: must fail without pulling more than the limit
		if lims := c19Limits[ct.goName]; len(lims) > 0 && maxLen > 0 {
			p := ct.newPtr()
			g.fill(reflect.ValueOf(p).Elem(), 2)
			for f := range lims {
				fv := reflect.ValueOf(p).Elem().FieldByName(f)
				c19SetLen(g, p, f, limit/int(max(1, int(fv.Type().Elem().Size())))+300)
			}
			c19Rhp4Over(c, ct, tname, p, isResp, id, limit)
		}
		// ---- error responses are delivered as that error
		if isResp {
			dls := []int{0, 1, 100, 1014 + maxLen + 50}
			for d := -16; d <= 16; d++ { // every description length around the exact bound
				dls = append(dls, 1014+maxLen+d)
			}
			for _, dl := range dls {
				if dl < 0 || dl > 1<<20 {
					continue
				}
				c19Rhp4Error(c, g, ct, tname, dl, maxLen, model)
			}
		}
		res.Count("rhp4:types")
	}
}

func c19Rhp4Roundtrip(c *fw.Ctx, ct c11Codec, tname string, p any, isResp bool, id types.Specifier, maxLen, limit int, kind string, model *c11Model) {
	res := c.Res
	obj := p.(rhp4.Object)
	var buf bytes.Buffer
	var err error
	if isResp {
		err = rhp4.WriteResponse(&buf, obj)
	} else {
		err = rhp4.WriteRequest(&buf, id, obj)
	}
	if err != nil {
		return
	}
	msg := append([]byte(nil), buf.Bytes()...)
	body := msg
	if !isResp {
		body = msg[16:]
	}
	res.Eval("rhp4 "+tname+" "+fw.Hex(msg[:min(len(msg), 64)])+fmt.Sprint(len(msg)), len(body) > 0)
	res.Count("rhp4:" + kind)
	if len(body) > limit {
		if kind == "maximal" {
			c19Violate(c, "c19-maxlen-too-small:rhp4."+tname, fmt.Sprintf("a %s at the protocol's batch limit encodes to %d bytes, more than the %d the receiver allows", tname, len(body), limit),
				map[string]any{"kind": "rhp4-maximal", "type": tname}, fmt.Sprintf("<= %d", limit), fmt.Sprint(len(body)))
		}
		return
	}
	// trailing garbage must stay untouched
	stream := &c19CountingReader{r: bytes.NewReader(append(append([]byte(nil), msg...), bytes.Repeat([]byte{0xAA}, 64)...))}
	q := ct.newPtr()
	var rerr error
	panicked, pm := fw.Recover(func() {
		if isResp {
			rerr = rhp4.ReadResponse(stream, q.(rhp4.Object))
		} else {
			if _, e := rhp4.ReadID(stream); e != nil {
				rerr = e
				return
			}
			rerr = rhp4.ReadRequest(stream, q.(rhp4.Object))
		}
	})
	replay := map[string]any{"kind": "rhp4-roundtrip", "type": tname, "len": len(msg)}
	switch {
	case panicked:
		c19Violate(c, "c19-read-panic:rhp4."+tname, "reading a valid message panics: "+pm, replay, "object", "panic")
	case rerr != nil:
		c19Violate(c, "c19-valid-rejected:rhp4."+tname, fmt.Sprintf("a valid %s of %d bytes (limit %d) is refused: %v", tname, len(body), limit, rerr), replay, "same object", rerr.Error())
	case !c11NormEq(reflect.ValueOf(p).Elem(), reflect.ValueOf(q).Elem()):
		c19Violate(c, "c19-roundtrip:rhp4."+tname, "the object read differs from the object written", replay, "same object", "different")
	case stream.n != len(msg):
		c19Violate(c, "c19-read-count:rhp4."+tname, "the receiver did not pull exactly the message", replay, fmt.Sprint(len(msg)), fmt.Sprint(stream.n))
	}
	if len(body) <= 2048 {
		if isResp {
			model.add("frame resp4 "+tname+" "+c11Hex(body), fmt.Sprintf("ok %d %s", len(body), c11Hex(body[1:])))
		} else {
			model.add("frame req4 "+tname+" "+c11Hex(body), fmt.Sprintf("ok %d %s", len(body), c11Hex(body)))
		}
	}
}

func c19Rhp4Over(c *fw.Ctx, ct c11Codec, tname string, p any, isResp bool, id types.Specifier, limit int) {
	obj := p.(rhp4.Object)
	var buf bytes.Buffer
	if isResp {
		rhp4.WriteResponse(&buf, obj)
	} else {
		buf.Reset()
		e := types.NewEncoder(&buf)
		enc, _ := ct.codec(p)
		enc.EncodeTo(e)
		e.Flush()
	}
	msg := buf.Bytes()
	if len(msg) <= limit {
		return
	}
	c.Res.Eval("rhp4-over "+tname+fmt.Sprint(len(msg)), true)
	c.Res.Count("rhp4:over-limit")
	stream := &c19CountingReader{r: bytes.NewReader(msg)}
	q := ct.newPtr()
	var rerr error
	panicked, pm := fw.Recover(func() {
		if isResp {
			rerr = rhp4.ReadResponse(stream, q.(rhp4.Object))
		} else {
			rerr = rhp4.ReadRequest(stream, q.(rhp4.Object))
		}
	})
	replay := map[string]any{"kind": "rhp4-over-limit", "type": tname, "len": len(msg)}
	switch {
	case panicked:
		c19Violate(c, "c19-read-panic:rhp4."+tname, "reading an over-long message panics: "+pm, replay, "error", "panic")
	case rerr == nil:
		c19Violate(c, "c19-overlimit-accepted:rhp4."+tname, fmt.Sprintf("a message of %d bytes is accepted although the limit is %d", len(msg), limit), replay, "error", "object")
	case stream.n > limit:
		c19Violate(c, "c19-read-past-limit:rhp4."+tname, "the receiver pulled more bytes than its limit", replay, fmt.Sprintf("<= %d", limit), fmt.Sprint(stream.n))
	}
}

func c19Rhp4Error(c *fw.Ctx, g *c11Gen, ct c11Codec, tname string, descLen, maxLen int, model *c11Model) {
	re := &rhp4.RPCError{Code: uint8(1 + g.rng.Intn(250)), Description: strings.Repeat("e", descLen)}
	var buf bytes.Buffer
	if err := rhp4.WriteResponse(&buf, re); err != nil {
		return
	}
	msg := buf.Bytes()
	limit := 1024 + maxLen
	c.Res.Eval(fmt.Sprintf("rhp4-error %s %d", tname, descLen), true)
	c.Res.Count("rhp4:error-response")
	q := ct.newPtr()
	stream := &c19CountingReader{r: bytes.NewReader(msg)}
	rerr := rhp4.ReadResponse(stream, q.(rhp4.Object))
	var got *rhp4.RPCError
	delivered := errors.As(rerr, &got) && got.Code == re.Code && got.Description == re.Description
	fits := len(msg) <= limit
	replay := map[string]any{"kind": "rhp4-error", "type": tname, "descLen": descLen}
	switch {
	case fits && !delivered:
		c19Violate(c, "c19-error-not-delivered:rhp4."+tname, fmt.Sprintf("an RPCError of %d description bytes (message %d <= limit %d) is not delivered as that error: %v", descLen, len(msg), limit, rerr), replay, "the RPCError", fmt.Sprint(rerr))
	case !fits && rerr == nil:
		c19Violate(c, "c19-overlimit-accepted:rhp4."+tname, "an over-long error response is accepted as an object", replay, "error", "object")
	case stream.n > limit:
		c19Violate(c, "c19-read-past-limit:rhp4."+tname, "the receiver pulled more bytes than its limit", replay, fmt.Sprintf("<= %d", limit), fmt.Sprint(stream.n))
	}
	if len(msg) <= 2048 && fits {
		model.add("frame resp4 "+tname+" "+c11Hex(msg), fmt.Sprintf("rpcerr %d %s %d", re.Code, c11Hex([]byte(re.Description)), len(msg)))
	} else if len(msg) <= 4096 && !fits {
		model.add("frame resp4 "+tname+" "+c11Hex(msg), "err")
	}
}

// ---------------------------------------------------------------- F12: RPCFreeSectorsResponse vs 20 MiB

func c19F12(c *fw.Ctx) {
	res := c.Res
	sk := types.GeneratePrivateKey()
	prices := rhp4.HostPrices{ValidUntil: time.Now().Add(time.Hour), TipHeight: 1}
	prices.Signature = sk.SignHash(prices.SigHash())
	limit := 1024 + rhp4.VerifMaxLen(new(rhp4.RPCFreeSectorsResponse))
	for _, tib := range []uint64{2, 4} {
		sectors := tib << 40 / rhp4.SectorSize
		// MaxSectorBatchSize distinct in-range indices, evenly scattered
		n := uint64(rhp4.MaxSectorBatchSize)
		freed := make([]uint64, n)
		step := sectors / n
		for i := range freed {
			freed[i] = uint64(i) * step
		}
		req := rhp4.RPCFreeSectorsRequest{Prices: prices, Indices: freed}
		fc := types.V2FileContract{Filesize: sectors * rhp4.SectorSize, Capacity: sectors * rhp4.SectorSize}
		if err := req.Validate(sk.PublicKey(), fc); err != nil {
			res.Note("F12: request rejected by Validate (%v): not a valid-request case", err)
			continue
		}
		roots := make([]types.Hash256, sectors)
		for i := range roots {
			binary.LittleEndian.PutUint64(roots[i][:], uint64(i))
		}
		tree, leaves := rhp4.BuildFreeSectorsProof(roots, freed)
		resp := &rhp4.RPCFreeSectorsResponse{OldSubtreeHashes: tree, OldLeafHashes: leaves}
		var buf bytes.Buffer
		rhp4.WriteResponse(&buf, resp)
		size := buf.Len()
		res.Eval(fmt.Sprintf("F12 %dTiB %d", tib, size), true)
		res.Count("rhp4:F12-cases")
		res.Note("F12: %d TiB contract, %d scattered frees: %d subtree + %d leaf hashes, response %d bytes, ReadResponse limit %d", tib, n, len(tree), len(leaves), size, limit)
		var got rhp4.RPCFreeSectorsResponse
		stream := &c19CountingReader{r: bytes.NewReader(buf.Bytes())}
		err := rhp4.ReadResponse(stream, &got)
		if size > limit || err != nil {
			c19Violate(c, "c19-maxlen-too-small:rhp4.RPCFreeSectorsResponse",
				fmt.Sprintf("a request that passes Validate (%d distinct in-range indices = MaxSectorBatchSize, %d TiB contract) has a response of %d bytes (%d+%d hashes from the real BuildFreeSectorsProof), but ReadResponse allows %d: %v", n, tib, size, len(tree), len(leaves), limit, err),
				map[string]any{"kind": "F12", "tib": tib, "indices": n}, fmt.Sprintf("response <= %d bytes and readable", limit), fmt.Sprintf("%d bytes, err=%v", size, err))
		}
	}
}

// ---------------------------------------------------------------- F13: maximal-weight v2 block vs gateway limits

func c19F13(c *fw.Ctx, g *c11Gen) {
	res := c.Res
	var cs consensus.State
	maxW := cs.MaxBlockWeight()
	// minimal inputs (anyone-can-spend policy) scattered over an accumulator of 2^depth leaves
	const depth = 27
	mk := func(i uint64, n uint64) types.V2SiacoinInput {
		var in types.V2SiacoinInput
		in.Parent.StateElement.LeafIndex = i * ((1 << depth) / n)
		in.Parent.StateElement.MerkleProof = make([]types.Hash256, depth)
		for k := range in.Parent.StateElement.MerkleProof {
			binary.LittleEndian.PutUint64(in.Parent.StateElement.MerkleProof[k][:], i*64+uint64(k)+1)
		}
		binary.LittleEndian.PutUint64(in.Parent.ID[:], i+1)
		in.SatisfiedPolicy.Policy = types.AnyoneCanSpend()
		return in
	}
	one := types.V2Transaction{SiacoinInputs: []types.V2SiacoinInput{mk(0, 1)}}
	per := cs.V2TransactionWeight(one)
	n := maxW / per
	txn := types.V2Transaction{}
	for i := uint64(0); i < n; i++ {
		txn.SiacoinInputs = append(txn.SiacoinInputs, mk(i, n))
	}
	w := cs.V2TransactionWeight(txn)
	for w > maxW {
		txn.SiacoinInputs = txn.SiacoinInputs[:len(txn.SiacoinInputs)-1]
		w = cs.V2TransactionWeight(txn)
	}
	b := types.Block{V2: &types.V2BlockData{Height: 1, Transactions: []types.V2Transaction{txn}}}
	var buf bytes.Buffer
	e := types.NewEncoder(&buf)
	types.V2Block(b).EncodeTo(e)
	e.Flush()
	size := buf.Len()
	res.Eval(fmt.Sprintf("F13 %d %d", len(txn.SiacoinInputs), size), true)
	res.Note("F13: v2 block of weight %d (max %d): %d minimal inputs scattered over 2^%d leaves encodes (multiproof) to %d bytes; gateway per-block limit 5000000", w, maxW, len(txn.SiacoinInputs), depth, size)
	// decodes back? (the multiproof codec must accept what it produced)
	var back types.V2Block
	d := types.NewBufDecoder(buf.Bytes())
	back.DecodeFrom(d)
	if d.Err() != nil {
		res.Note("F13: the constructed block does not decode (%v); not reported", d.Err())
		return
	}
	for _, rpc := range []struct {
		name  string
		limit int
		extra int
	}{
		{"RPCSendV2Blocks", gateway.VerifMaxResponseLen(&gateway.RPCSendV2Blocks{Max: 1}), 8 + 8},
		{"RPCSendCheckpoint", gateway.VerifMaxResponseLen(&gateway.RPCSendCheckpoint{}), 0},
		// an outline that carries the transaction in full (the receiver does not know it yet)
		{"RPCRelayV2BlockOutline", gateway.VerifMaxRequestLen(&gateway.RPCRelayV2BlockOutline{}), 0},
	} {
		if size+rpc.extra > rpc.limit {
			c19Violate(c, "c19-maxlen-too-small:gateway."+rpc.name,
				fmt.Sprintf("a v2 block within the block weight limit (%d <= %d; %d inputs with %d-hash proofs, multiproof encoded) takes %d bytes on the wire, more than the %d bytes %s allows per block", w, maxW, len(txn.SiacoinInputs), depth, size+rpc.extra, rpc.limit, rpc.name),
				map[string]any{"kind": "F13", "inputs": len(txn.SiacoinInputs), "depth": depth}, fmt.Sprintf("<= %d", rpc.limit), fmt.Sprint(size+rpc.extra))
		}
	}
}

// ---------------------------------------------------------------- gateway

type c19AddrConn struct {
	net.Conn
	remote net.Addr
}

func (c c19AddrConn) RemoteAddr() net.Addr { return c.remote }

func c19Pipe() (net.Conn, net.Conn) {
	a, b := net.Pipe()
	addr := &net.TCPAddr{IP: net.IPv4(127, 0, 0, 1), Port: 9981}
	return c19AddrConn{a, addr}, c19AddrConn{b, addr}
}

func c19Handshake(dh, ah gateway.Header) (dt, at *gateway.Transport, derr, aerr error) {
	dc, ac := c19Pipe()
	dc.SetDeadline(time.Now().Add(3 * time.Second))
	ac.SetDeadline(time.Now().Add(3 * time.Second))
	var wg sync.WaitGroup
	wg.Add(2)
	go func() {
		defer wg.Done()
		dt, derr = gateway.Dial(dc, dh)
		if derr != nil {
			dc.Close()
		}
	}()
	go func() {
		defer wg.Done()
		at, aerr = gateway.Accept(ac, ah)
		if aerr != nil {
			ac.Close()
		}
	}()
	wg.Wait()
	dc.SetDeadline(time.Time{})
	ac.SetDeadline(time.Time{})
	return
}

func c19Gateway(c *fw.Ctx, g *c11Gen, model *c11Model) {
	res := c.Res
	genesis := func(b byte) (id types.BlockID) { id[0] = b; return }
	type hcase struct {
		name   string
		dh, ah gateway.Header
		ok     bool
	}
	cases := []hcase{
		{"match", gateway.Header{GenesisID: genesis(1), UniqueID: gateway.UniqueID{1}, NetAddress: "10.0.0.1:9981"}, gateway.Header{GenesisID: genesis(1), UniqueID: gateway.UniqueID{2}, NetAddress: "10.0.0.2:9981"}, true},
		{"genesis-mismatch", gateway.Header{GenesisID: genesis(1), UniqueID: gateway.UniqueID{1}, NetAddress: "10.0.0.1:9981"}, gateway.Header{GenesisID: genesis(2), UniqueID: gateway.UniqueID{2}, NetAddress: "10.0.0.2:9981"}, false},
		{"same-unique-id", gateway.Header{GenesisID: genesis(1), UniqueID: gateway.UniqueID{7}, NetAddress: "10.0.0.1:9981"}, gateway.Header{GenesisID: genesis(1), UniqueID: gateway.UniqueID{7}, NetAddress: "10.0.0.2:9981"}, false},
		{"both-wrong", gateway.Header{GenesisID: genesis(3), UniqueID: gateway.UniqueID{7}, NetAddress: "10.0.0.1:9981"}, gateway.Header{GenesisID: genesis(1), UniqueID: gateway.UniqueID{7}, NetAddress: "10.0.0.2:9981"}, false},
	}
	var okT [2]*gateway.Transport
	for _, hc := range cases {
		dt, at, derr, aerr := c19Handshake(hc.dh, hc.ah)
		res.Eval("gateway-handshake "+hc.name, true)
		res.Count("gateway:handshake")
		got := derr == nil && aerr == nil
		line := "reject"
		if got {
			line = "accept"
		}
		model.add(fmt.Sprintf("frame handshake %x %x %x %x", hc.dh.GenesisID[:], hc.dh.UniqueID[:], hc.ah.GenesisID[:], hc.ah.UniqueID[:]), line)
		replay := map[string]any{"kind": "gateway-handshake", "case": hc.name}
		if hc.ok && !got {
			c19Violate(c, "c19-gateway-handshake:"+hc.name, fmt.Sprintf("matching headers are refused: dial=%v accept=%v", derr, aerr), replay, "both accept", "reject")
		} else if !hc.ok && (derr == nil || aerr == nil) {
			c19Violate(c, "c19-gateway-handshake:"+hc.name, fmt.Sprintf("a header mismatch is not rejected by both sides: dial=%v accept=%v", derr, aerr), replay, "both reject", fmt.Sprintf("dial=%v accept=%v", derr, aerr))
		}
		if got && hc.ok {
			if dt.UniqueID != hc.ah.UniqueID || at.UniqueID != hc.dh.UniqueID {
				c19Violate(c, "c19-gateway-handshake:ids", "the transports do not report the peer's unique id", replay, "peer ids", "other")
			}
			okT = [2]*gateway.Transport{dt, at}
		} else {
			if dt != nil {
				dt.Close()
			}
			if at != nil {
				at.Close()
			}
		}
	}
	if okT[0] == nil {
		return
	}
	defer okT[0].Close()
	defer okT[1].Close()
	c19GatewaySweep(c, okT[0], okT[1])
	c19GatewayAtLimit(c)
	// every Stream method for every RPC object over the established mux
	for _, ct := range c11Types() {
		if !strings.HasPrefix(ct.goName, "gateway.RPC") {
			continue
		}
		isResp := strings.HasSuffix(ct.goName, ".Response")
		for i := 0; i < c.Budget(3, 30); i++ {
			p := ct.generate(g)
			obj := p.(gateway.Object)
			if sh, ok := p.(*gateway.RPCSendHeaders); ok && isResp {
				sh.Max = uint64(len(sh.Headers)) // the response limit is computed from the request's Max
			}
			if sb, ok := p.(*gateway.RPCSendV2Blocks); ok && isResp {
				sb.Max = uint64(len(sb.Blocks)) + 1
			}
			b, _ := c11Encode(ct, p)
			limit := gateway.VerifMaxRequestLen(obj)
			if isResp {
				limit = gateway.VerifMaxResponseLen(obj)
			}
			if len(b) > limit {
				continue // only bounded by the limit itself: conditional
			}
			res.Eval("gateway-stream "+ct.goName+" "+fw.Hex(b), len(b) > 0)
			res.Count("gateway:stream-roundtrip")
			q := ct.newPtr()
			qobj := q.(gateway.Object)
			if sh, ok := q.(*gateway.RPCSendHeaders); ok {
				sh.Max = p.(*gateway.RPCSendHeaders).Max
			}
			if sb, ok := q.(*gateway.RPCSendV2Blocks); ok {
				sb.Max = p.(*gateway.RPCSendV2Blocks).Max
			}
			var werr, rerr error
			var rid types.Specifier
			var wg sync.WaitGroup
			readDone := make(chan struct{})
			wg.Add(2)
			go func() {
				defer wg.Done()
				s, err := okT[0].DialStream()
				if err != nil {
					werr = err
					return
				}
				defer s.Close()
				s.SetDeadline(time.Now().Add(5 * time.Second))
				if werr = s.WriteID(obj); werr != nil {
					return
				}
				if isResp {
					werr = s.WriteResponse(obj)
				} else {
					werr = s.WriteRequest(obj)
				}
				// wait for the peer to finish reading before closing the stream
				select {
				case <-readDone:
				case <-time.After(5 * time.Second):
				}
			}()
			go func() {
				defer wg.Done()
				defer close(readDone)
				s, err := okT[1].AcceptStream()
				if err != nil {
					rerr = err
					return
				}
				defer s.Close()
				s.SetDeadline(time.Now().Add(5 * time.Second))
				if rid, rerr = s.ReadID(); rerr != nil {
					return
				}
				if isResp {
					rerr = s.ReadResponse(qobj)
				} else {
					rerr = s.ReadRequest(qobj)
				}
			}()
			wg.Wait()
			replay := map[string]any{"kind": "gateway-stream", "type": ct.lean, "hex": fw.Hex(b)}
			wantID := gateway.VerifIDForObject(obj)
			switch {
			case werr != nil || rerr != nil:
				c19Violate(c, "c19-gateway-stream:"+ct.goName, fmt.Sprintf("a message within its limit (%d <= %d) is not transferred: write=%v read=%v", len(b), limit, werr, rerr), replay, "same object", fmt.Sprintf("write=%v read=%v", werr, rerr))
			case rid != wantID:
				c19Violate(c, "c19-gateway-stream:"+ct.goName, "the RPC id read differs from the one written", replay, wantID.String(), rid.String())
			default:
				pv, qv := reflect.ValueOf(p).Elem(), reflect.ValueOf(q).Elem()
				same := true
				for _, f := range ct.fields {
					if !c11NormEq(pv.FieldByName(f), qv.FieldByName(f)) {
						same = false
					}
				}
				if !same {
					c19Violate(c, "c19-gateway-stream:"+ct.goName, "the object read differs from the object written", replay, "same object", "different")
				}
			}
		}
	}
}

// ---------------------------------------------------------------- rhp/v2

// c19TamperConn flips / truncates the renter's view of the host->renter stream.
type c19TamperConn struct {
	net.Conn
	mu     sync.Mutex
	armed  bool
	pos    int  // bytes read since arming
	target int  // offset of the byte to corrupt (-1: none)
	mask   byte // xor mask
	cut    int  // truncate the stream after this many bytes since arming (-1: never)
}

func (t *c19TamperConn) Read(p []byte) (int, error) {
	t.mu.Lock()
	armed, pos, cut := t.armed, t.pos, t.cut
	t.mu.Unlock()
	if armed && cut >= 0 {
		if pos >= cut {
			return 0, io.EOF
		}
		if len(p) > cut-pos {
			p = p[:cut-pos]
		}
	}
	n, err := t.Conn.Read(p)
	t.mu.Lock()
	if t.armed {
		if t.target >= t.pos && t.target < t.pos+n {
			p[t.target-t.pos] ^= t.mask
		}
		t.pos += n
	}
	t.mu.Unlock()
	return n, err
}

func (t *c19TamperConn) arm(target int, mask byte, cut int) {
	t.mu.Lock()
	t.armed, t.pos, t.target, t.mask, t.cut = true, 0, target, mask, cut
	t.mu.Unlock()
}

type c19Rhp2Session struct {
	renter, host *rhp2.Transport
	tc           *c19TamperConn
	hostConn     net.Conn
}

func c19NewRhp2Session() (*c19Rhp2Session, error) {
	rc, hc := c19BufPipe()
	tc := &c19TamperConn{Conn: rc, target: -1, cut: -1}
	sk := types.GeneratePrivateKey()
	var s c19Rhp2Session
	s.tc, s.hostConn = tc, hc
	rc.SetDeadline(time.Now().Add(3 * time.Second))
	hc.SetDeadline(time.Now().Add(3 * time.Second))
	var rerr, herr error
	var wg sync.WaitGroup
	wg.Add(2)
	go func() { defer wg.Done(); s.renter, rerr = rhp2.NewRenterTransport(tc, sk.PublicKey()) }()
	go func() { defer wg.Done(); s.host, herr = rhp2.NewHostTransport(hc, sk) }()
	wg.Wait()
	if rerr != nil || herr != nil {
		rc.Close()
		hc.Close()
		return nil, fmt.Errorf("rhp2 handshake: renter=%v host=%v", rerr, herr)
	}
	return &s, nil
}

func (s *c19Rhp2Session) close() {
	s.tc.Conn.Close()
	s.hostConn.Close()
}

// exchange: renter sends (id, req); host reads them and answers resp; renter reads.
func (s *c19Rhp2Session) exchange(id types.Specifier, req *rhp2.RPCSectorRootsRequest, resp *rhp2.RPCSectorRootsResponse, timeout time.Duration) (gotReq rhp2.RPCSectorRootsRequest, gotResp rhp2.RPCSectorRootsResponse, gotID types.Specifier, herr, rerr error) {
	s.renter.SetDeadline(time.Now().Add(timeout))
	s.host.SetDeadline(time.Now().Add(timeout))
	var wg sync.WaitGroup
	wg.Add(2)
	go func() {
		defer wg.Done()
		if gotID, herr = s.host.ReadID(); herr != nil {
			return
		}
		if herr = s.host.ReadRequest(&gotReq, 1<<20); herr != nil {
			return
		}
		herr = s.host.WriteResponse(resp)
	}()
	go func() {
		defer wg.Done()
		if rerr = s.renter.WriteRequest(id, req); rerr != nil {
			return
		}
		rerr = s.renter.ReadResponse(&gotResp, 1<<20)
	}()
	wg.Wait()
	return
}

func c19Rhp2(c *fw.Ctx, g *c11Gen) {
	res := c.Res
	mkReq := func() (*rhp2.RPCSectorRootsRequest, *rhp2.RPCSectorRootsResponse) {
		req, resp := new(rhp2.RPCSectorRootsRequest), new(rhp2.RPCSectorRootsResponse)
		g.fill(reflect.ValueOf(req).Elem(), 2)
		g.fill(reflect.ValueOf(resp).Elem(), 2)
		if g.coin(3) { // a response larger than one padded frame
			resp.SectorRoots = make([]types.Hash256, 200+g.rng.Intn(200))
			for i := range resp.SectorRoots {
				g.fill(reflect.ValueOf(&resp.SectorRoots[i]).Elem(), 1)
			}
		}
		return req, resp
	}
	var id types.Specifier
	copy(id[:], "SectorRoots")
	// ---- faithful sequences
	sess, err := c19NewRhp2Session()
	if err != nil {
		c19Violate(c, "c19-rhp2-handshake", err.Error(), map[string]any{"kind": "rhp2-handshake"}, "session", "error")
		return
	}
	for i := 0; i < c.Budget(8, 80); i++ {
		req, resp := mkReq()
		gotReq, gotResp, gotID, herr, rerr := sess.exchange(id, req, resp, 3*time.Second)
		res.Eval(fmt.Sprintf("rhp2-seq %d %v", i, req.RootOffset), true)
		res.Count("rhp2:faithful-exchange")
		if herr != nil || rerr != nil || gotID != id ||
			!c11NormEq(reflect.ValueOf(req).Elem(), reflect.ValueOf(&gotReq).Elem()) ||
			!c11NormEq(reflect.ValueOf(resp).Elem(), reflect.ValueOf(&gotResp).Elem()) {
			c19Violate(c, "c19-rhp2-transport-unfaithful", fmt.Sprintf("message %d of a sequence is not what was written: host=%v renter=%v", i, herr, rerr),
				map[string]any{"kind": "rhp2-sequence", "index": i}, "same objects in order", "different")
			break
		}
	}
	// error responses are delivered as that error
	{
		want := &rhp2.RPCError{Description: "verif: no such contract"}
		sess.renter.SetDeadline(time.Now().Add(3 * time.Second))
		sess.host.SetDeadline(time.Now().Add(3 * time.Second))
		var wg sync.WaitGroup
		var rerr error
		wg.Add(2)
		go func() { defer wg.Done(); sess.host.WriteResponseErr(want) }()
		go func() { defer wg.Done(); var r rhp2.RPCSectorRootsResponse; rerr = sess.renter.ReadResponse(&r, 4096) }()
		wg.Wait()
		var got *rhp2.RPCError
		res.Eval("rhp2-error-response", true)
		if !errors.As(rerr, &got) || got.Description != want.Description {
			c19Violate(c, "c19-error-not-delivered:rhp2", fmt.Sprintf("an error response is not delivered as that error: %v", rerr), map[string]any{"kind": "rhp2-error"}, want.Description, fmt.Sprint(rerr))
		}
	}
	sess.close()
	// ---- one corrupted / truncated byte of the host's response frame per session
	type tcase struct {
		region string
		off    int
		cut    bool
	}
	var tcases []tcase
	for _, off := range []int{0, 1, 7} {
		tcases = append(tcases, tcase{"length", off, false})
	}
	for _, off := range []int{8, 13, 19} {
		tcases = append(tcases, tcase{"nonce", off, false})
	}
	for _, off := range []int{20, 21, 60} {
		tcases = append(tcases, tcase{"ciphertext", off, false})
	}
	tcases = append(tcases, tcase{"padding", 3000, false}, tcase{"tag", 4095, false}, tcase{"tag", 4080, false},
		tcase{"truncation", 10, true}, tcase{"truncation", 2000, true}, tcase{"truncation", 4095, true})
	for i := 0; i < c.Budget(4, 60); i++ {
		tcases = append(tcases, tcase{"random", g.rng.Intn(4096), false})
	}
	for _, tcse := range tcases {
		sess, err := c19NewRhp2Session()
		if err != nil {
			continue
		}
		req, resp := mkReq()
		resp.SectorRoots, resp.MerkleProof = nil, nil // a single padded 4096-byte frame
		mask := byte(1 << uint(g.rng.Intn(8)))
		timeout := 3 * time.Second
		if tcse.region == "length" {
			timeout = 300 * time.Millisecond // a longer announced length waits for bytes that never come
		}
		if tcse.cut {
			sess.tc.arm(-1, 0, tcse.off)
		} else {
			sess.tc.arm(tcse.off, mask, -1)
		}
		_, gotResp, _, _, rerr := sess.exchange(id, req, resp, timeout)
		res.Eval(fmt.Sprintf("rhp2-tamper %s %d %d", tcse.region, tcse.off, mask), true)
		res.Count("rhp2:tamper-" + tcse.region)
		replay := map[string]any{"kind": "rhp2-tamper", "region": tcse.region, "offset": tcse.off, "mask": mask, "truncate": tcse.cut}
		if rerr == nil {
			c19Violate(c, "c19-rhp2-tamper-accepted:"+tcse.region, fmt.Sprintf("a response frame modified in transit (%s, offset %d) is accepted", tcse.region, tcse.off), replay, "error", fmt.Sprintf("object %+v", gotResp))
		} else if ne, ok := errAsNetTimeout(rerr); ok && ne {
			// a length prefix raised in transit makes the reader wait for bytes that never
			// come: the call fails by timeout (the "truncation-to-timeout" class, which cannot
			// be told from a slow peer and is not required to close the session)
			res.Count("rhp2:tamper-ends-in-timeout")
		} else {
			// the session must be dead: a further genuine response must not be delivered.
			// (a truncated stream stays truncated: a real connection cannot resume after EOF)
			if !tcse.cut {
				sess.tc.arm(-1, 0, -1)
			}
			sess.renter.SetDeadline(time.Now().Add(200 * time.Millisecond))
			sess.host.SetDeadline(time.Now().Add(200 * time.Millisecond))
			var wg sync.WaitGroup
			var rerr2 error
			var r2 rhp2.RPCSectorRootsResponse
			wg.Add(2)
			go func() { defer wg.Done(); sess.host.WriteResponse(resp) }()
			go func() { defer wg.Done(); rerr2 = sess.renter.ReadResponse(&r2, 1<<20) }()
			wg.Wait()
			if rerr2 == nil {
				c19Violate(c, "c19-rhp2-session-survives-tamper:"+tcse.region, fmt.Sprintf("after a modified frame (%s, offset %d) was detected, the next read on the same session succeeds", tcse.region, tcse.off), replay, "error", "object")
			}
			if sess.renter.IsClosed() {
				res.Count("rhp2:sticky-closed-after-" + tcse.region)
			} else {
				res.Count("rhp2:not-sticky-after-" + tcse.region)
			}
		}
		sess.close()
	}
}

func errAsNetTimeout(err error) (bool, bool) {
	var ne net.Error
	if errors.As(err, &ne) {
		return ne.Timeout(), true
	}
	return false, false
}

// ---------------------------------------------------------------- rhp/v3

func c19Rhp3(c *fw.Ctx, g *c11Gen, k c11Consts) {
	res := c.Res
	rc, hc := net.Pipe()
	defer rc.Close()
	defer hc.Close()
	sk := types.GeneratePrivateKey()
	rc.SetDeadline(time.Now().Add(5 * time.Second))
	hc.SetDeadline(time.Now().Add(5 * time.Second))
	var rt, ht *rhp3.Transport
	var rerr, herr error
	var wg sync.WaitGroup
	wg.Add(2)
	go func() { defer wg.Done(); rt, rerr = rhp3.NewRenterTransport(rc, sk.PublicKey()) }()
	go func() { defer wg.Done(); ht, herr = rhp3.NewHostTransport(hc, sk) }()
	wg.Wait()
	if rerr != nil || herr != nil {
		res.Note("rhp3: transport handshake over net.Pipe failed (renter=%v host=%v); rhp3 is covered by the Lean length-accounting theorem only", rerr, herr)
		return
	}
	rc.SetDeadline(time.Time{})
	hc.SetDeadline(time.Time{})
	defer rt.Close()
	defer ht.Close()
	var id types.Specifier
	copy(id[:], "LatestRevision")
	for i := 0; i < c.Budget(6, 60); i++ {
		req := new(rhp3.RPCLatestRevisionRequest)
		resp := new(rhp3.RPCFundAccountResponse)
		g.fill(reflect.ValueOf(req).Elem(), 2)
		g.fill(reflect.ValueOf(resp).Elem(), 2)
		sendErr := i%3 == 2
		var gotReq rhp3.RPCLatestRevisionRequest
		var gotResp rhp3.RPCFundAccountResponse
		var gotID types.Specifier
		var herr, rerr error
		wg.Add(2)
		go func() {
			defer wg.Done()
			s, err := ht.AcceptStream()
			if err != nil {
				herr = err
				return
			}
			defer s.Close()
			s.SetDeadline(time.Now().Add(5 * time.Second))
			if gotID, herr = s.ReadID(); herr != nil {
				return
			}
			if herr = s.ReadRequest(&gotReq, 4096); herr != nil {
				return
			}
			if sendErr {
				herr = s.WriteResponseErr(errors.New("verif: refused"))
			} else {
				herr = s.WriteResponse(resp)
			}
		}()
		go func() {
			defer wg.Done()
			s := rt.DialStream()
			defer s.Close()
			s.SetDeadline(time.Now().Add(5 * time.Second))
			if rerr = s.WriteRequest(id, req); rerr != nil {
				return
			}
			rerr = s.ReadResponse(&gotResp, 4096)
		}()
		wg.Wait()
		res.Eval(fmt.Sprintf("rhp3-seq %d", i), true)
		res.Count("rhp3:exchange")
		replay := map[string]any{"kind": "rhp3-sequence", "index": i}
		if sendErr {
			if rerr == nil || !strings.Contains(rerr.Error(), "verif: refused") {
				c19Violate(c, "c19-error-not-delivered:rhp3", fmt.Sprintf("an error response is not delivered as that error: %v", rerr), replay, "verif: refused", fmt.Sprint(rerr))
			}
			continue
		}
		if herr != nil || rerr != nil || gotID != id ||
			!c11NormEq(reflect.ValueOf(req).Elem(), reflect.ValueOf(&gotReq).Elem()) ||
			!c11NormEq(reflect.ValueOf(resp).Elem(), reflect.ValueOf(&gotResp).Elem()) {
			c19Violate(c, "c19-rhp3-transport-unfaithful", fmt.Sprintf("exchange %d is not what was written: host=%v renter=%v", i, herr, rerr), replay, "same objects", "different")
			break
		}
	}
	c19Rhp3Sweep(c, g, k, rt, ht)
	c19Rhp3Sequences(c, g, k, rt, ht)
}

// c19GatewayAtLimit: the gateway objects whose size is fixed by the protocol's own element limits (100 transaction
// hashes per SendTransactions request, 32 history ids per SendV2Blocks request, Max headers per SendHeaders response)
// at exactly those limits: the encoding must fit the length the receiving side allows. The counts are committed here
// (they are the ones for which the pinned code's length expressions are exact fits), not read from the code under
// test. RPCShareNodes is left out: its limit (100*128) is not an exact fit of any (count, length) pair, so no
// protocol limit can be read off it.
func c19GatewayAtLimit(c *fw.Ctx) {
	res := c.Res
	type lim struct {
		name string
		obj  gateway.Object
		resp bool
	}
	var cases []lim
	for _, n := range []int{0, 1, 99, 100} {
		cases = append(cases, lim{fmt.Sprintf("RPCSendTransactions.Request[%d hashes]", n), &gateway.RPCSendTransactions{Hashes: make([]types.Hash256, n)}, false})
	}
	for _, n := range []int{0, 1, 31, 32} {
		cases = append(cases, lim{fmt.Sprintf("RPCSendV2Blocks.Request[%d ids]", n), &gateway.RPCSendV2Blocks{History: make([]types.BlockID, n), Max: 10}, false})
	}
	for _, n := range []int{0, 1, 10, 2000} {
		cases = append(cases, lim{fmt.Sprintf("RPCSendHeaders.Response[%d headers]", n), &gateway.RPCSendHeaders{Max: uint64(n), Headers: make([]types.BlockHeader, n)}, true})
	}
	cases = append(cases,
		lim{"RPCSendHeaders.Request", &gateway.RPCSendHeaders{Max: ^uint64(0)}, false},
		lim{"RPCSendCheckpoint.Request", &gateway.RPCSendCheckpoint{}, false},
		lim{"RPCRelayV2Header.Request", &gateway.RPCRelayV2Header{}, false},
	)
	for _, lc := range cases {
		var buf bytes.Buffer
		e := types.NewEncoder(&buf)
		gateway.VerifCodec{O: lc.obj, Response: lc.resp}.EncodeTo(e)
		e.Flush()
		limit := gateway.VerifMaxRequestLen(lc.obj)
		if lc.resp {
			limit = gateway.VerifMaxResponseLen(lc.obj)
		}
		res.Eval("gateway-at-limit "+lc.name, true)
		res.Count("gateway:at-limit")
		if buf.Len() > limit {
			tname := strings.SplitN(lc.name, "[", 2)[0]
			c19Violate(c, "c19-maxlen-too-small:gateway."+tname+":at-protocol-limit",
				fmt.Sprintf("a %s within the protocol's own limits encodes to %d bytes, more than the %d the receiver allows", lc.name, buf.Len(), limit),
				map[string]any{"kind": "gateway-at-limit", "case": lc.name}, fmt.Sprintf("<= %d", limit), fmt.Sprint(buf.Len()))
		}
	}
}
