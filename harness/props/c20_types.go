package props

// C20 — list of every exported type of types, consensus, gateway, rhp/v2, rhp/v3,
// rhp/v4 that has a text or JSON form: a MarshalText/MarshalJSON method, json field
// tags, or a plain named array/integer/slice type (enumerated with go/types over
// /repo; structs without tags and without marshal methods are binary-protocol
// objects and are listed separately — their default JSON form is exercised but a
// failure there is only a note).

import (
	"go.sia.tech/core/consensus"
	"go.sia.tech/core/gateway"
	rhp2 "go.sia.tech/core/rhp/v2"
	rhp3 "go.sia.tech/core/rhp/v3"
	rhp4 "go.sia.tech/core/rhp/v4"
	"go.sia.tech/core/types"
)

var c20Types = []any{
	new(types.Address),                           // MarshalText
	new(types.Attestation),                       // tags
	new(types.AttestationElement),                // tags
	new(types.AttestationID),                     // MarshalText
	new(types.Block),                             // tags
	new(types.BlockHeader),                       // tags
	new(types.BlockID),                           // MarshalText
	new(types.ChainIndex),                        // MarshalJSON
	new(types.ChainIndexElement),                 // tags
	new(types.CoveredFields),                     // tags
	new(types.Currency),                          // MarshalText
	new(types.FileContract),                      // tags
	new(types.FileContractElement),               // tags
	new(types.FileContractID),                    // MarshalText
	new(types.FileContractRevision),              // MarshalJSON
	new(types.FoundationAddressUpdate),           // tags
	new(types.Hash256),                           // MarshalText
	new(types.PolicyTypeAbove),                   // plain:uint64
	new(types.PolicyTypeHash),                    // plain:[32]byte
	new(types.PolicyTypeOpaque),                  // plain:[32]byte
	new(types.PolicyTypePublicKey),               // plain:[32]byte
	new(types.PolicyTypeThreshold),               // tags
	new(types.PolicyTypeUnlockConditions),        // tags
	new(types.PrivateKey),                        // plain:[]byte
	new(types.PublicKey),                         // MarshalText
	new(types.SatisfiedPolicy),                   // MarshalJSON
	new(types.SiacoinElement),                    // tags
	new(types.SiacoinInput),                      // MarshalJSON
	new(types.SiacoinOutput),                     // tags
	new(types.SiacoinOutputID),                   // MarshalText
	new(types.SiafundElement),                    // tags
	new(types.SiafundInput),                      // MarshalJSON
	new(types.SiafundOutput),                     // tags
	new(types.SiafundOutputID),                   // MarshalText
	new(types.Signature),                         // MarshalText
	new(types.Specifier),                         // MarshalText
	new(types.SpendPolicy),                       // MarshalJSON
	new(types.StateElement),                      // tags
	new(types.StorageProof),                      // MarshalJSON
	new(types.Transaction),                       // MarshalJSON
	new(types.TransactionID),                     // MarshalText
	new(types.TransactionSignature),              // tags
	new(types.UnlockConditions),                  // tags
	new(types.UnlockKey),                         // MarshalText
	new(types.V1Block),                           // tags
	new(types.V1SiacoinOutput),                   // tags
	new(types.V1SiafundOutput),                   // tags
	new(types.V2Block),                           // tags
	new(types.V2BlockData),                       // tags
	new(types.V2FileContract),                    // tags
	new(types.V2FileContractElement),             // tags
	new(types.V2FileContractRenewal),             // tags
	new(types.V2FileContractResolution),          // MarshalJSON
	new(types.V2FileContractRevision),            // tags
	new(types.V2SiacoinInput),                    // tags
	new(types.V2SiacoinOutput),                   // tags
	new(types.V2SiafundInput),                    // tags
	new(types.V2SiafundOutput),                   // tags
	new(types.V2StorageProof),                    // MarshalJSON
	new(types.V2Transaction),                     // MarshalJSON
	new(types.V2TransactionSemantics),            // tags
	new(types.V2TransactionsMultiproof),          // plain:[]go.sia.tech/core/types.V2Transaction
	new(consensus.ApplyUpdate),                   // MarshalJSON
	new(consensus.ElementAccumulator),            // MarshalJSON
	new(consensus.FileContractElementDiff),       // tags
	new(consensus.Network),                       // tags
	new(consensus.RevertUpdate),                  // MarshalJSON
	new(consensus.SiacoinElementDiff),            // tags
	new(consensus.SiafundElementDiff),            // tags
	new(consensus.State),                         // tags
	new(consensus.V2FileContractElementDiff),     // MarshalJSON
	new(consensus.Work),                          // MarshalJSON
	new(gateway.UniqueID),                        // plain:[8]byte
	new(rhp2.Challenge),                          // plain:[16]byte
	new(rhp2.HostSettings),                       // MarshalJSON
	new(rhp3.Account),                            // MarshalText
	new(rhp3.HostPriceTable),                     // tags
	new(rhp3.SettingsID),                         // MarshalJSON
	new(rhp4.Account),                            // MarshalText
	new(rhp4.AccountDeposit),                     // tags
	new(rhp4.AccountToken),                       // tags
	new(rhp4.HostPrices),                         // tags
	new(rhp4.HostSettings),                       // tags
	new(rhp4.PoolAttachment),                     // tags
	new(rhp4.PoolDetachment),                     // tags
	new(rhp4.ProtocolVersion),                    // MarshalText
	new(rhp4.RPCAccountBalanceRequest),           // tags
	new(rhp4.RPCAccountBalanceResponse),          // tags
	new(rhp4.RPCAppendSectorsRequest),            // tags
	new(rhp4.RPCAppendSectorsResponse),           // tags
	new(rhp4.RPCAppendSectorsSecondResponse),     // tags
	new(rhp4.RPCAppendSectorsThirdResponse),      // tags
	new(rhp4.RPCAttachPoolsRequest),              // tags
	new(rhp4.RPCDetachPoolsRequest),              // tags
	new(rhp4.RPCFormContractParams),              // tags
	new(rhp4.RPCFormContractRequest),             // tags
	new(rhp4.RPCFormContractResponse),            // tags
	new(rhp4.RPCFormContractSecondResponse),      // tags
	new(rhp4.RPCFormContractThirdResponse),       // tags
	new(rhp4.RPCFreeSectorsRequest),              // tags
	new(rhp4.RPCFreeSectorsResponse),             // tags
	new(rhp4.RPCFreeSectorsSecondResponse),       // tags
	new(rhp4.RPCFreeSectorsThirdResponse),        // tags
	new(rhp4.RPCFundAccountsRequest),             // tags
	new(rhp4.RPCFundAccountsResponse),            // tags
	new(rhp4.RPCLatestRevisionRequest),           // tags
	new(rhp4.RPCLatestRevisionResponse),          // tags
	new(rhp4.RPCReadSectorRequest),               // tags
	new(rhp4.RPCReadSectorResponse),              // tags
	new(rhp4.RPCRefreshContractParams),           // tags
	new(rhp4.RPCRefreshContractRequest),          // tags
	new(rhp4.RPCRefreshContractResponse),         // tags
	new(rhp4.RPCRefreshContractSecondResponse),   // tags
	new(rhp4.RPCRefreshContractThirdResponse),    // tags
	new(rhp4.RPCRenewContractParams),             // tags
	new(rhp4.RPCRenewContractRequest),            // tags
	new(rhp4.RPCRenewContractResponse),           // tags
	new(rhp4.RPCRenewContractSecondResponse),     // tags
	new(rhp4.RPCRenewContractThirdResponse),      // tags
	new(rhp4.RPCReplenishAccountsRequest),        // tags
	new(rhp4.RPCReplenishAccountsResponse),       // tags
	new(rhp4.RPCReplenishAccountsSecondResponse), // tags
	new(rhp4.RPCReplenishAccountsThirdResponse),  // tags
	new(rhp4.RPCSectorRootsRequest),              // tags
	new(rhp4.RPCSectorRootsResponse),             // tags
	new(rhp4.RPCSettingsResponse),                // tags
	new(rhp4.RPCVerifySectorRequest),             // tags
	new(rhp4.RPCVerifySectorResponse),            // tags
	new(rhp4.RPCWriteSectorRequest),              // tags
	new(rhp4.RPCWriteSectorResponse),             // tags
	new(rhp4.Usage),                              // tags
}

var c20UntaggedTypes = []any{
	new(types.V2FileContractExpiration),
	new(consensus.V1BlockSupplement),
	new(consensus.V1StorageProofSupplement),
	new(consensus.V1TransactionSupplement),
	new(gateway.Header),
	new(gateway.OutlineTransaction),
	new(gateway.RPCDiscoverIP),
	new(gateway.RPCRelayV2BlockOutline),
	new(gateway.RPCRelayV2Header),
	new(gateway.RPCRelayV2TransactionSet),
	new(gateway.RPCSendCheckpoint),
	new(gateway.RPCSendHeaders),
	new(gateway.RPCSendTransactions),
	new(gateway.RPCSendV2Blocks),
	new(gateway.RPCShareNodes),
	new(gateway.V2BlockOutline),
	new(rhp2.ContractRevision),
	new(rhp2.RPCCost),
	new(rhp2.RPCError),
	new(rhp2.RPCFormContractAdditions),
	new(rhp2.RPCFormContractRequest),
	new(rhp2.RPCFormContractSignatures),
	new(rhp2.RPCLockRequest),
	new(rhp2.RPCLockResponse),
	new(rhp2.RPCReadRequest),
	new(rhp2.RPCReadRequestSection),
	new(rhp2.RPCReadResponse),
	new(rhp2.RPCRenewAndClearContractRequest),
	new(rhp2.RPCRenewAndClearContractSignatures),
	new(rhp2.RPCSectorRootsRequest),
	new(rhp2.RPCSectorRootsResponse),
	new(rhp2.RPCSettingsResponse),
	new(rhp2.RPCWriteAction),
	new(rhp2.RPCWriteMerkleProof),
	new(rhp2.RPCWriteRequest),
	new(rhp2.RPCWriteResponse),
	new(rhp3.FundAccountReceipt),
	new(rhp3.InstrAppendSector),
	new(rhp3.InstrAppendSectorRoot),
	new(rhp3.InstrDropSectors),
	new(rhp3.InstrHasSector),
	new(rhp3.InstrReadOffset),
	new(rhp3.InstrReadRegistry),
	new(rhp3.InstrReadRegistryNoVersion),
	new(rhp3.InstrReadSector),
	new(rhp3.InstrRevision),
	new(rhp3.InstrStoreSector),
	new(rhp3.InstrSwapSector),
	new(rhp3.InstrUpdateRegistry),
	new(rhp3.InstrUpdateRegistryNoType),
	new(rhp3.InstrUpdateSector),
	new(rhp3.PayByContractRequest),
	new(rhp3.PayByEphemeralAccountRequest),
	new(rhp3.PaymentResponse),
	new(rhp3.RPCAccountBalanceRequest),
	new(rhp3.RPCAccountBalanceResponse),
	new(rhp3.RPCError),
	new(rhp3.RPCExecuteProgramRequest),
	new(rhp3.RPCExecuteProgramResponse),
	new(rhp3.RPCFinalizeProgramRequest),
	new(rhp3.RPCFinalizeProgramResponse),
	new(rhp3.RPCFundAccountRequest),
	new(rhp3.RPCFundAccountResponse),
	new(rhp3.RPCLatestRevisionRequest),
	new(rhp3.RPCLatestRevisionResponse),
	new(rhp3.RPCPriceTableResponse),
	new(rhp3.RPCRenewContractHostAdditions),
	new(rhp3.RPCRenewContractRequest),
	new(rhp3.RPCRenewSignatures),
	new(rhp3.RPCUpdatePriceTableResponse),
	new(rhp3.RegistryEntry),
	new(rhp3.RegistryKey),
	new(rhp3.RegistryValue),
	new(rhp3.ResourceCost),
	new(rhp4.RPCAttachPoolsResponse),
	new(rhp4.RPCDetachPoolsResponse),
	new(rhp4.RPCError),
	new(rhp4.RPCSettingsRequest),
}
