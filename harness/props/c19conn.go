package props

// A buffered in-memory duplex connection for the transport runs of C19: unlike
// net.Pipe a Write never waits for the reader, so a byte stream keeps every byte
// that was sent (as a TCP connection does) even when the reader gives up early.

import (
	"io"
	"net"
	"os"
	"sync"
	"time"
)

type c19Half struct {
	mu     sync.Mutex
	cond   *sync.Cond
	buf    []byte
	closed bool
}

func newC19Half() *c19Half {
	h := &c19Half{}
	h.cond = sync.NewCond(&h.mu)
	return h
}

type c19BufConn struct {
	in, out  *c19Half
	dmu      sync.Mutex
	deadline time.Time
}

func c19BufPipe() (*c19BufConn, *c19BufConn) {
	a, b := newC19Half(), newC19Half()
	return &c19BufConn{in: a, out: b}, &c19BufConn{in: b, out: a}
}

func (c *c19BufConn) Read(p []byte) (int, error) {
	h := c.in
	h.mu.Lock()
	defer h.mu.Unlock()
	for len(h.buf) == 0 {
		if h.closed {
			return 0, io.EOF
		}
		c.dmu.Lock()
		dl := c.deadline
		c.dmu.Unlock()
		if !dl.IsZero() {
			d := time.Until(dl)
			if d <= 0 {
				return 0, os.ErrDeadlineExceeded
			}
			t := time.AfterFunc(d, func() { h.mu.Lock(); h.cond.Broadcast(); h.mu.Unlock() })
			h.cond.Wait()
			t.Stop()
			continue
		}
		h.cond.Wait()
	}
	n := copy(p, h.buf)
	h.buf = h.buf[n:]
	return n, nil
}

func (c *c19BufConn) Write(p []byte) (int, error) {
	h := c.out
	h.mu.Lock()
	defer h.mu.Unlock()
	if h.closed {
		return 0, io.ErrClosedPipe
	}
	h.buf = append(h.buf, p...)
	h.cond.Broadcast()
	return len(p), nil
}

func (c *c19BufConn) Close() error {
	for _, h := range []*c19Half{c.in, c.out} {
		h.mu.Lock()
		h.closed = true
		h.cond.Broadcast()
		h.mu.Unlock()
	}
	return nil
}

func (c *c19BufConn) SetDeadline(t time.Time) error {
	c.dmu.Lock()
	c.deadline = t
	c.dmu.Unlock()
	c.in.mu.Lock()
	c.in.cond.Broadcast()
	c.in.mu.Unlock()
	return nil
}
func (c *c19BufConn) SetReadDeadline(t time.Time) error  { return c.SetDeadline(t) }
func (c *c19BufConn) SetWriteDeadline(t time.Time) error { return nil }
func (c *c19BufConn) LocalAddr() net.Addr {
	return &net.TCPAddr{IP: net.IPv4(127, 0, 0, 1), Port: 9980}
}
func (c *c19BufConn) RemoteAddr() net.Addr {
	return &net.TCPAddr{IP: net.IPv4(127, 0, 0, 1), Port: 9981}
}
