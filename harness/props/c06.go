package props

// C06 — Reverting a block is the exact inverse of applying it (reorg safety).
//
// Go side (statement-level oracle, independent store driven only by the public
// diffs and UpdateElementProof): reorg schedules over random chains — revert k>=1
// tips, re-apply the same or a competing continuation, repeatedly. Checked after
// every revert: (1) the revert reports exactly the apply's diffs, reversed;
// (2) store(after revert) == store(before apply) as a set of (id, fields, leaf
// index); (3) every element of that store verifies against the parent state;
// after re-apply: state encoding, diffs and store (with proofs) byte-identical.
//
// Model side (correspondence for REVERT): every reverted block is also sent to
// the ledger model as `ledger-revert <abstracted parent ledger + block>` and the
// model's revert report is compared with the real RevertUpdate (same canonical
// dump as the C01 `ledger-block` comparison, diff lists in revert order).

import (
	"bytes"
	"fmt"
	"math/rand"
	"strings"

	"go.sia.tech/core/consensus"
	"go.sia.tech/core/types"
	"verif/harness/internal/chain"
	"verif/harness/internal/fw"
)

func init() { fw.Register("C06", runC06) }

type diffLists struct{ sc, sf, fc, v2 []string }

type diffSource interface {
	SiacoinElementDiffs() []consensus.SiacoinElementDiff
	SiafundElementDiffs() []consensus.SiafundElementDiff
	FileContractElementDiffs() []consensus.FileContractElementDiff
	V2FileContractElementDiffs() []consensus.V2FileContractElementDiff
}

func hexOf(b []byte) string { return fw.Hex(b) }

// dumpDiffs renders each diff as id + element content (without proof/leaf index,
// which legitimately differ between apply and revert) + flags.
func dumpDiffs(d diffSource) diffLists {
	var out diffLists
	for _, x := range d.SiacoinElementDiffs() {
		e := x.SiacoinElement
		out.sc = append(out.sc, fmt.Sprintf("%x %s %d c=%v s=%v leaf=%d", e.ID[:8], hexOf(chain.Encode(types.V2SiacoinOutput(e.SiacoinOutput))), e.MaturityHeight, x.Created, x.Spent, e.StateElement.LeafIndex))
	}
	for _, x := range d.SiafundElementDiffs() {
		e := x.SiafundElement
		out.sf = append(out.sf, fmt.Sprintf("%x %s %s c=%v s=%v leaf=%d", e.ID[:8], hexOf(chain.Encode(types.V2SiafundOutput(e.SiafundOutput))), e.ClaimStart.ExactString(), x.Created, x.Spent, e.StateElement.LeafIndex))
	}
	for _, x := range d.FileContractElementDiffs() {
		rev := "-"
		if x.Revision != nil {
			rev = hexOf(chain.Encode(*x.Revision))
		}
		out.fc = append(out.fc, fmt.Sprintf("%x %s c=%v res=%v valid=%v rev=%s leaf=%d", x.FileContractElement.ID[:8], hexOf(chain.Encode(x.FileContractElement.FileContract)), x.Created, x.Resolved, x.Valid, rev, x.FileContractElement.StateElement.LeafIndex))
	}
	for _, x := range d.V2FileContractElementDiffs() {
		rev := "-"
		if x.Revision != nil {
			rev = hexOf(chain.Encode(*x.Revision))
		}
		res := "-"
		if x.Resolution != nil {
			res = fmt.Sprintf("%T", x.Resolution)
		}
		out.v2 = append(out.v2, fmt.Sprintf("%x %s c=%v res=%s rev=%s leaf=%d", x.V2FileContractElement.ID[:8], hexOf(chain.Encode(x.V2FileContractElement.V2FileContract)), x.Created, res, rev, x.V2FileContractElement.StateElement.LeafIndex))
	}
	return out
}

func reversed(l []string) []string {
	o := make([]string, len(l))
	for i, s := range l {
		o[len(l)-1-i] = s
	}
	return o
}

func eqStrs(a, b []string) bool {
	if len(a) != len(b) {
		return false
	}
	for i := range a {
		if a[i] != b[i] {
			return false
		}
	}
	return true
}

func firstDiff(a, b []string) string {
	ma := map[string]bool{}
	for _, x := range a {
		ma[x] = true
	}
	for _, x := range b {
		if !ma[x] {
			return "only in second: " + trunc(x, 300)
		}
		delete(ma, x)
	}
	for x := range ma {
		return "only in first: " + trunc(x, 300)
	}
	return "order differs"
}

func trunc(s string, n int) string {
	if len(s) > n {
		return s[:n] + "…"
	}
	return s
}

// classifyBlock names the corner a block exercises (for stable violation keys).
func classifyFCDiffs(au diffSource) string {
	var tags []string
	for _, d := range au.FileContractElementDiffs() {
		if d.Revision != nil && d.Resolved && !d.Created {
			tags = append(tags, "v1-revised+resolved-same-block")
		}
	}
	if len(tags) == 0 {
		return "other"
	}
	return tags[0]
}

type c06Record struct {
	block    types.Block
	supp     consensus.V1BlockSupplement
	preDump  []string // store before apply (no proofs)
	postDump []string // store after apply (with proofs)
	state    []byte   // encoded state after apply
	diffs    diffLists
	corner   string
	modelReq string // abstracted (parent ledger, block) for the model, taken before the apply
}

func runC06(c *fw.Ctx) {
	res := c.Res
	res.Rule = "reorg schedules on random chains (all modes/eras): after a random prefix, repeatedly revert k in [1,depth] tip blocks one by one and re-apply either the very same blocks or a freshly generated competing continuation; per revert: diffs == apply's diffs reversed, store(after revert) == store(before apply) as (id, fields, leaf index) sets, every restored element verifies (independent Merkle check) against the parent state; per re-apply of the same block: encoded State, diffs and store incl. proofs byte-identical to the first apply. A schedule step is non-trivial when the reverted block contains transactions."
	nChains := c.Budget(30, 1200)
	depth := c.Budget(4, 20)
	var ops, outs []string
	for i := 0; i < nChains; i++ {
		mode := ledgerModes[i%len(ledgerModes)]
		seed := c.Seed*7000003 + int64(i)
		s := chain.NewSim(rand.New(rand.NewSource(seed)), mode)
		ab := chain.NewAbstractor(s)
		res.Count("chains:" + mode)
		var hist []c06Record // hist[k] = record of block at height k+1
		applyNew := func() bool {
			pre := s.St.Dump(false)
			p := s.BuildBlock()
			var req string
			if c.Model != nil {
				req = ab.Abstract(p.Block, p.Supp)
			}
			au, err := s.Apply(p.Block, p.Supp)
			if err != nil {
				res.Note("generator produced a rejected block (%s seed %d): %v", mode, seed, err)
				res.Count("generator-rejected")
				return false
			}
			rec := c06Record{block: p.Block, supp: p.Supp, preDump: pre, postDump: s.St.Dump(true), state: chain.Encode(s.Tip), diffs: dumpDiffs(au), corner: classifyFCDiffs(au), modelReq: req}
			hist = append(hist, rec)
			// every block that revises or resolves a contract (and every third other block) is reverted right away and
			// applied again: the random schedule below reverts only tip blocks, so without this most blocks with the
			// delicate diff shapes (revised twice, revised and resolved) would never be reverted at all
			touches := len(au.FileContractElementDiffs())+len(au.V2FileContractElementDiffs()) > 0
			if touches || len(hist)%3 == 0 {
				res.Count("immediate-revert")
				rp := map[string]any{"mode": mode, "seed": seed, "height": s.Height(), "schedule_step": "immediate", "corner": rec.corner}
				tipBefore := s.Tip
				var ru consensus.RevertUpdate
				if pr, pmsg := fw.Recover(func() { ru = s.RevertTip() }); pr {
					// RevertBlock itself, or a client following its update (the store refreshes its proofs with it), panicked
					res.Violate(fw.Violation{Key: "c06-revert-panic:" + rec.corner, What: "reverting an applied block (RevertBlock, or a store refreshing its proofs with the revert update) panicked: " + pmsg, Replay: rp})
					return false
				}
				if c.Model != nil && rec.modelReq != "" {
					ops = append(ops, "ledger-revert "+rec.modelReq)
					outs = append(outs, "ok "+ab.DumpRevert(ru, tipBefore, s.Tip))
					res.Count("model:ledger-revert")
				}
				res.Eval(fmt.Sprintf("%s/%d/imm/%d", mode, seed, len(hist)), true)
				rd := dumpDiffs(ru)
				if !eqStrs(rd.sc, reversed(rec.diffs.sc)) || !eqStrs(rd.sf, reversed(rec.diffs.sf)) || !eqStrs(rd.fc, reversed(rec.diffs.fc)) || !eqStrs(rd.v2, reversed(rec.diffs.v2)) {
					res.Violate(fw.Violation{Key: "c06-revert-diffs-differ:" + rec.corner, What: "RevertUpdate does not report the apply's diffs in reverse order", Replay: rp})
				}
				if got := s.St.Dump(false); !eqStrs(got, rec.preDump) {
					res.Violate(fw.Violation{Key: "c06-store-not-restored:" + rec.corner, What: "store after revert differs from store before apply", Replay: rp, Observed: firstDiff(rec.preDump, got)})
				}
				if bad := s.St.VerifyAgainst(s.Tip); bad != "" {
					res.Violate(fw.Violation{Key: "c06-restored-element-unverifiable:" + rec.corner, What: "after revert an element of the earlier store does not verify against the parent state: " + bad, Replay: rp})
				}
				var au2 consensus.ApplyUpdate
				var err2 error
				panicked, msg := fw.Recover(func() { au2, err2 = s.Apply(rec.block, rec.supp) })
				if panicked || err2 != nil {
					res.Violate(fw.Violation{Key: "c06-reapply-rejected:" + rec.corner, What: fmt.Sprintf("re-applying a reverted block failed: %v %v", msg, err2), Replay: rp})
					return false
				}
				if d := dumpDiffs(au2); !eqStrs(d.sc, rec.diffs.sc) || !eqStrs(d.sf, rec.diffs.sf) || !eqStrs(d.fc, rec.diffs.fc) || !eqStrs(d.v2, rec.diffs.v2) {
					res.Violate(fw.Violation{Key: "c06-reapply-diffs-differ:" + rec.corner, What: "diffs after re-apply differ from the first apply", Replay: rp})
				}
				if !bytes.Equal(chain.Encode(s.Tip), rec.state) {
					res.Violate(fw.Violation{Key: "c06-reapply-state-differs:" + rec.corner, What: "state after re-apply is not byte-identical to the first apply", Replay: rp})
				}
				if got := s.St.Dump(true); !eqStrs(got, rec.postDump) {
					res.Violate(fw.Violation{Key: "c06-reapply-store-differs:" + rec.corner, What: "store (with proofs) after re-apply differs from the first apply", Replay: rp, Observed: firstDiff(rec.postDump, got)})
				}
			}
			return true
		}
		ok := true
		for k := 0; k < 8+s.Rng.Intn(25) && ok; k++ {
			ok = applyNew()
		}
		steps := c.Budget(6, 10)
		nv0 := len(res.Violations)
		for st := 0; st < steps && ok && len(res.Violations) == nv0; st++ {
			k := 1 + s.Rng.Intn(depth)
			if k > len(hist) {
				k = len(hist)
			}
			same := s.Rng.Intn(2) == 0
			res.Count(fmt.Sprintf("reorg-depth:%d", min(k, 8)))
			var reverted []c06Record
			for j := 0; j < k && len(res.Violations) == nv0; j++ {
				rec := hist[len(hist)-1]
				hist = hist[:len(hist)-1]
				reverted = append(reverted, rec)
				height := s.Height()
				rp := map[string]any{"mode": mode, "seed": seed, "height": height, "schedule_step": st, "corner": rec.corner}
				tipBefore := s.Tip
				var ru consensus.RevertUpdate
				if pr, pmsg := fw.Recover(func() { ru = s.RevertTip() }); pr {
					res.Violate(fw.Violation{Key: "c06-revert-panic:" + rec.corner, What: "reverting an applied block (RevertBlock, or a store refreshing its proofs with the revert update) panicked: " + pmsg, Replay: rp})
					ok = false
					break
				}
				if c.Model != nil && rec.modelReq != "" {
					ops = append(ops, "ledger-revert "+rec.modelReq)
					outs = append(outs, "ok "+ab.DumpRevert(ru, tipBefore, s.Tip))
					res.Count("model:ledger-revert")
				}
				nt := len(rec.block.Transactions)+len(rec.block.V2Transactions()) > 0
				res.Eval(fmt.Sprintf("%s/%d/%d/%d", mode, seed, st, j), nt)
				rd := dumpDiffs(ru)
				if !eqStrs(rd.sc, reversed(rec.diffs.sc)) || !eqStrs(rd.sf, reversed(rec.diffs.sf)) || !eqStrs(rd.fc, reversed(rec.diffs.fc)) || !eqStrs(rd.v2, reversed(rec.diffs.v2)) {
					res.Violate(fw.Violation{Key: "c06-revert-diffs-differ:" + rec.corner, What: "RevertUpdate does not report the apply's diffs in reverse order", Replay: rp})
				}
				if got := s.St.Dump(false); !eqStrs(got, rec.preDump) {
					res.Violate(fw.Violation{Key: "c06-store-not-restored:" + rec.corner, What: "store after revert differs from store before apply", Replay: rp,
						Observed: firstDiff(rec.preDump, got)})
				}
				if bad := s.St.VerifyAgainst(s.Tip); bad != "" {
					res.Violate(fw.Violation{Key: "c06-restored-element-unverifiable:" + rec.corner, What: "after revert an element of the earlier store does not verify against the parent state: " + bad, Replay: rp})
				}
			}
			if len(res.Violations) != nv0 {
				break // later findings on this chain would be consequences of the first
			}
			if same {
				for j := len(reverted) - 1; j >= 0 && ok; j-- {
					rec := reverted[j]
					rp := map[string]any{"mode": mode, "seed": seed, "height": s.ChildHeight(), "schedule_step": st, "corner": rec.corner}
					var au consensus.ApplyUpdate
					var err error
					panicked, msg := fw.Recover(func() { au, err = s.Apply(rec.block, rec.supp) })
					if panicked || err != nil {
						res.Violate(fw.Violation{Key: "c06-reapply-rejected:" + rec.corner, What: fmt.Sprintf("re-applying a reverted block failed: %v %v", msg, err), Replay: rp})
						ok = false
						break
					}
					d := dumpDiffs(au)
					if !bytes.Equal(chain.Encode(s.Tip), rec.state) {
						res.Violate(fw.Violation{Key: "c06-reapply-state-differs:" + rec.corner, What: "state after re-apply is not byte-identical to the first apply", Replay: rp})
					}
					if !eqStrs(d.sc, rec.diffs.sc) || !eqStrs(d.sf, rec.diffs.sf) || !eqStrs(d.fc, rec.diffs.fc) || !eqStrs(d.v2, rec.diffs.v2) {
						res.Violate(fw.Violation{Key: "c06-reapply-diffs-differ:" + rec.corner, What: "diffs after re-apply differ from the first apply", Replay: rp})
					}
					if got := s.St.Dump(true); !eqStrs(got, rec.postDump) {
						res.Violate(fw.Violation{Key: "c06-reapply-store-differs:" + rec.corner, What: "store (with proofs) after re-apply differs from the first apply", Replay: rp, Observed: firstDiff(rec.postDump, got)})
					}
					hist = append(hist, rec)
				}
				res.Count("reapply:same")
			} else {
				n := k + s.Rng.Intn(3)
				for j := 0; j < n && ok; j++ {
					ok = applyNew()
				}
				if bad := s.St.VerifyAgainst(s.Tip); bad != "" && ok {
					res.Violate(fw.Violation{Key: "c06-competing-branch-unverifiable", What: "after applying a competing continuation an element does not verify: " + bad,
						Replay: map[string]any{"mode": mode, "seed": seed, "schedule_step": st}})
				}
				res.Count("reapply:competing")
			}
		}
		for k, v := range s.Counts {
			if strings.Contains(k, "same-block") || strings.HasPrefix(k, "v1:") || strings.HasPrefix(k, "v2:") {
				res.CountN("gen:"+k, v)
			}
		}
		if i == 0 {
			res.Sample(map[string]any{"mode": mode, "seed": seed, "final_height": s.Height(), "generated": s.Counts})
		}
	}
	if len(ops) > 0 {
		c.Compare(ops, outs)
		if len(ops[0]) < 4000 {
			res.Sample(map[string]string{"model_op": ops[0], "go": outs[0]})
		}
	}
}
