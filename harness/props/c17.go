package props

// C17 — RHP contract constructors conserve funds and yield consensus-valid contracts.
//
// Three layers:
//  1. "pure" cases: one op line = one call of a real rhp/v4 constructor or cost
//     function on numeric inputs. The same line is sent to the Lean driver, which
//     evaluates the definition GENERATED from the Go source (translator self-test
//     + the definitions the C17 theorems are about), and judged by an oracle
//     written with math/big from the property text.
//  2. sequences of constructor calls starting at NewContract (each step is a pure
//     case whose input is the previous step's real output).
//  3. end to end (c17_e2e.go): real signed v2 transactions on a real chain, judged
//     by consensus.ValidateV2Transaction / ValidateBlock, and compared with the
//     hand model Sia.Ledger.validate* on valid and single-rule-mutated cases.
//  4. v1 era (c17_v1.go, c17_v1c.go): taxAdjustedPayout, the rhp/v2+v3 formation/renewal
//     constructors, cost functions and PayByContract; end to end on a v1-era chain.

import (
	"encoding/json"
	"fmt"
	"math/big"
	"strings"

	"go.sia.tech/core/consensus"
	rhp4 "go.sia.tech/core/rhp/v4"
	"go.sia.tech/core/types"
	"verif/harness/internal/fw"
)

func init() { fw.Register("C17", runC17) }

var (
	c17W64      = new(big.Int).Lsh(big.NewInt(1), 64)
	c17W128     = new(big.Int).Lsh(big.NewInt(1), 128)
	c17MaxU64   = ^uint64(0)
	c17Sector   = uint64(rhp4.SectorSize)
	c17FeeConst = types.NewCurrency64(12345)
)

// ---------------------------------------------------------------- tokens

type c17Toks struct {
	t   []string
	i   int
	bad bool
}

func (r *c17Toks) big() *big.Int {
	if r.i >= len(r.t) {
		r.bad = true
		return new(big.Int)
	}
	b, ok := new(big.Int).SetString(r.t[r.i], 10)
	r.i++
	if !ok || b.Sign() < 0 {
		r.bad = true
		return new(big.Int)
	}
	return b
}

func (r *c17Toks) u64() uint64 {
	b := r.big()
	if b.Cmp(c17W64) >= 0 {
		r.bad = true
		return 0
	}
	return b.Uint64()
}

func (r *c17Toks) cur() types.Currency {
	b := r.big()
	if b.Cmp(c17W128) >= 0 {
		r.bad = true
		return types.ZeroCurrency
	}
	return bigCur(b)
}

func c17Key(tag uint64) (k types.PublicKey) {
	for i := range k {
		k[i] = byte(tag)
	}
	return
}

func (r *c17Toks) fc() (fc types.V2FileContract) {
	fc.Capacity = r.u64()
	fc.Filesize = r.u64()
	fc.ProofHeight = r.u64()
	fc.ExpirationHeight = r.u64()
	fc.RenterOutput.Value = r.cur()
	fc.HostOutput.Value = r.cur()
	fc.MissedHostValue = r.cur()
	fc.TotalCollateral = r.cur()
	fc.RevisionNumber = r.u64()
	rk, hk := r.u64(), r.u64()
	if rk > 255 || hk > 255 {
		r.bad = true
	}
	fc.RenterPublicKey, fc.HostPublicKey = c17Key(rk), c17Key(hk)
	return
}

func (r *c17Toks) prices() (p rhp4.HostPrices) {
	p.ContractPrice = r.cur()
	p.Collateral = r.cur()
	p.StoragePrice = r.cur()
	p.IngressPrice = r.cur()
	p.EgressPrice = r.cur()
	p.FreeSectorPrice = r.cur()
	p.TipHeight = r.u64()
	return
}

func (r *c17Toks) usage() (u rhp4.Usage) {
	u.RPC = r.cur()
	u.Storage = r.cur()
	u.Egress = r.cur()
	u.Ingress = r.cur()
	u.AccountFunding = r.cur()
	u.RiskedCollateral = r.cur()
	return
}

func (r *c17Toks) renewal() (rn types.V2FileContractRenewal) {
	rn.FinalRenterOutput.Value = r.cur()
	rn.FinalHostOutput.Value = r.cur()
	rn.RenterRollover = r.cur()
	rn.HostRollover = r.cur()
	rn.NewContract = r.fc()
	return
}

func (r *c17Toks) done() bool { return !r.bad && r.i == len(r.t) }

func c17ShowFC(fc types.V2FileContract) string {
	return fmt.Sprintf("%d %d %d %d %s %s %s %s %d %d %d", fc.Capacity, fc.Filesize, fc.ProofHeight, fc.ExpirationHeight,
		fc.RenterOutput.Value.ExactString(), fc.HostOutput.Value.ExactString(), fc.MissedHostValue.ExactString(), fc.TotalCollateral.ExactString(),
		fc.RevisionNumber, fc.RenterPublicKey[0], fc.HostPublicKey[0])
}

func c17ShowPrices(p rhp4.HostPrices) string {
	return fmt.Sprintf("%s %s %s %s %s %s %d", p.ContractPrice.ExactString(), p.Collateral.ExactString(), p.StoragePrice.ExactString(),
		p.IngressPrice.ExactString(), p.EgressPrice.ExactString(), p.FreeSectorPrice.ExactString(), p.TipHeight)
}

func c17ShowUsage(u rhp4.Usage) string {
	return fmt.Sprintf("%s %s %s %s %s %s", u.RPC.ExactString(), u.Storage.ExactString(), u.Egress.ExactString(), u.Ingress.ExactString(),
		u.AccountFunding.ExactString(), u.RiskedCollateral.ExactString())
}

func c17ShowRenewal(r types.V2FileContractRenewal) string {
	return fmt.Sprintf("%s %s %s %s %s", r.FinalRenterOutput.Value.ExactString(), r.FinalHostOutput.Value.ExactString(),
		r.RenterRollover.ExactString(), r.HostRollover.ExactString(), c17ShowFC(r.NewContract))
}

func c17ErrTok(err error) string {
	if err != nil {
		return "err"
	}
	return "none"
}

// ---------------------------------------------------------------- big helpers

func c17B(c types.Currency) *big.Int   { return c.Big() }
func c17U(u uint64) *big.Int           { return new(big.Int).SetUint64(u) }
func c17Add(xs ...*big.Int) *big.Int {
	s := new(big.Int)
	for _, x := range xs {
		s.Add(s, x)
	}
	return s
}
func c17Sub(a, b *big.Int) *big.Int { return new(big.Int).Sub(a, b) }
func c17Fits(xs ...*big.Int) bool {
	for _, x := range xs {
		if x.Sign() < 0 || x.Cmp(c17W128) >= 0 {
			return false
		}
	}
	return true
}

// c17MulChain multiplies base by the factors left to right, as the Go code does with
// Mul64; fits is false when any intermediate product leaves 128 bits.
func c17MulChain(base *big.Int, fs ...uint64) (*big.Int, bool) {
	p := new(big.Int).Set(base)
	ok := true
	for _, f := range fs {
		p.Mul(p, c17U(f))
		if p.Cmp(c17W128) >= 0 {
			ok = false
		}
	}
	return p, ok
}

func c17Round4K(n uint64) uint64 { return (n + 4095) &^ 4095 }

func c17Cost(u rhp4.Usage) *big.Int {
	return c17Add(c17B(u.RPC), c17B(u.Storage), c17B(u.Egress), c17B(u.Ingress), c17B(u.AccountFunding))
}

// c17Tax is the v2 contract tax of the statement: 4% of the two outputs, rounded down.
func c17Tax(fc types.V2FileContract) *big.Int {
	return new(big.Int).Quo(c17Add(c17B(fc.RenterOutput.Value), c17B(fc.HostOutput.Value)), big.NewInt(25))
}

// ---------------------------------------------------------------- one pure case

type c17Out struct {
	out     string   // canonical result line (compared with the model)
	follow  []string // further op lines derived from the real output
	nontriv bool
	buckets []string
	viol    []fw.Violation
	// the real results, for the sequence driver
	fc      types.V2FileContract
	renewal types.V2FileContractRenewal
	ok      bool // constructor returned without error/panic
}

func (o *c17Out) violate(key, what, line, exp, obs string) {
	o.viol = append(o.viol, fw.Violation{Key: key, What: what, Replay: map[string]any{"kind": "line", "line": line}, Expected: exp, Observed: obs})
}

// c17ContractOK: the facts consensus (validateContract/validateRevision and the
// overflow check) and the constructors maintain about a live contract, that the
// statement presupposes ("from a consensus-valid contract").
func c17ContractOK(fc types.V2FileContract) bool {
	ro, ho, m, tc := c17B(fc.RenterOutput.Value), c17B(fc.HostOutput.Value), c17B(fc.MissedHostValue), c17B(fc.TotalCollateral)
	return fc.Filesize <= fc.Capacity && m.Cmp(tc) <= 0 && tc.Cmp(ho) <= 0 &&
		fc.ExpirationHeight > fc.ProofHeight && fc.RevisionNumber < c17MaxU64-1 &&
		c17Fits(c17Add(ro, ho, m, tc, c17Tax(fc)))
}

// payment part of a revision, judged against the usage the function REPORTED.
func (o *c17Out) checkPayment(name, line string, before, after types.V2FileContract, u rhp4.Usage) {
	cost := c17Cost(u)
	ro0, ho0, m0 := c17B(before.RenterOutput.Value), c17B(before.HostOutput.Value), c17B(before.MissedHostValue)
	ro1, ho1, m1 := c17B(after.RenterOutput.Value), c17B(after.HostOutput.Value), c17B(after.MissedHostValue)
	if c17Sub(ro0, cost).Cmp(ro1) != 0 {
		o.violate("c17-pay:renter-charge", name+" does not charge the renter exactly the reported usage", line, c17Sub(ro0, cost).String(), ro1.String())
	}
	if c17Add(ho0, cost).Cmp(ho1) != 0 {
		o.violate("c17-pay:host-credit", name+" does not credit the host exactly the reported usage", line, c17Add(ho0, cost).String(), ho1.String())
	}
	if c17Add(ro0, ho0).Cmp(c17Add(ro1, ho1)) != 0 {
		o.violate("c17-pay:total-value", name+" changes the total contract value", line, c17Add(ro0, ho0).String(), c17Add(ro1, ho1).String())
	}
	if c17Sub(m0, c17B(u.RiskedCollateral)).Cmp(m1) != 0 {
		o.violate("c17-pay:missed-host-value", name+" does not lower the missed host value by exactly the reported risked collateral", line, c17Sub(m0, c17B(u.RiskedCollateral)).String(), m1.String())
	}
	if m1.Cmp(m0) > 0 {
		o.violate("c17-pay:missed-host-value-raised", name+" raises the missed host value", line, "<= "+m0.String(), m1.String())
	}
	if after.TotalCollateral != before.TotalCollateral {
		o.violate("c17-pay:total-collateral", name+" touches the total collateral", line, before.TotalCollateral.ExactString(), after.TotalCollateral.ExactString())
	}
	if before.RevisionNumber < c17MaxU64 && after.RevisionNumber != before.RevisionNumber+1 {
		o.violate("c17-pay:revision-number", name+" does not increment the revision number", line, fmt.Sprint(before.RevisionNumber+1), fmt.Sprint(after.RevisionNumber))
	}
}

// same: every field PayWithContract must not touch is equal.
func c17SameOther(a, b types.V2FileContract) bool {
	a.RenterOutput.Value, b.RenterOutput.Value = types.ZeroCurrency, types.ZeroCurrency
	a.HostOutput.Value, b.HostOutput.Value = types.ZeroCurrency, types.ZeroCurrency
	a.MissedHostValue, b.MissedHostValue = types.ZeroCurrency, types.ZeroCurrency
	a.RevisionNumber, b.RevisionNumber = 0, 0
	a.RenterSignature, b.RenterSignature = types.Signature{}, types.Signature{}
	a.HostSignature, b.HostSignature = types.Signature{}, types.Signature{}
	return a == b
}

func c17FundsEqual(a, b types.V2FileContract) bool {
	return a.RenterOutput == b.RenterOutput && a.HostOutput == b.HostOutput && a.MissedHostValue == b.MissedHostValue &&
		a.TotalCollateral == b.TotalCollateral && a.RevisionNumber == b.RevisionNumber
}

// statement-level prices of the revise RPCs (per the doc comments of HostPrices):
// returns the expected usage and whether every product fits in 128 bits.
func c17ExpectUsage(op string, fc types.V2FileContract, p rhp4.HostPrices, n uint64) (u [6]*big.Int, fits bool) {
	for i := range u {
		u[i] = new(big.Int)
	}
	fits = true
	switch op {
	case "append":
		free := (fc.Capacity - fc.Filesize) / c17Sector
		growth := uint64(0)
		if n > free {
			growth = n - free
		}
		dur := fc.ExpirationHeight - p.TipHeight
		var f1, f2, f3 bool
		u[1], f1 = c17MulChain(c17B(p.StoragePrice), c17Sector, growth, dur)
		u[3], f2 = c17MulChain(c17B(p.IngressPrice), c17Round4K(32*growth))
		u[5], f3 = c17MulChain(c17B(p.Collateral), c17Sector, growth, dur)
		fits = f1 && f2 && f3
	case "free":
		u[0], fits = c17MulChain(c17B(p.FreeSectorPrice), n)
	case "roots":
		u[2], fits = c17MulChain(c17B(p.EgressPrice), c17Round4K(32*n))
	}
	return
}

func c17UsageBig(u rhp4.Usage) [6]*big.Int {
	return [6]*big.Int{c17B(u.RPC), c17B(u.Storage), c17B(u.Egress), c17B(u.Ingress), c17B(u.AccountFunding), c17B(u.RiskedCollateral)}
}

// c17Eval runs the real code on one op line.
func c17Eval(line string) (o c17Out) {
	f := strings.Fields(line)
	if len(f) < 2 || f[0] != "rhp4c" {
		o.out = "bad-op"
		return
	}
	op := f[1]
	r := &c17Toks{t: f[2:]}
	cs := consensus.State{}
	o.buckets = append(o.buckets, "op:"+op)
	switch op {
	case "pay":
		fc0 := r.fc()
		u := r.usage()
		if !r.done() {
			o.out = "bad-op"
			return
		}
		fc := fc0
		var err error
		panicked, msg := fw.Recover(func() { err = rhp4.PayWithContract(&fc, u) })
		cost := c17Cost(u)
		ro, ho, m := c17B(fc0.RenterOutput.Value), c17B(fc0.HostOutput.Value), c17B(fc0.MissedHostValue)
		fits := c17Fits(cost, c17Add(ro, ho))
		o.nontriv = cost.Sign() > 0
		if panicked {
			o.out = "panic"
			o.buckets = append(o.buckets, "pay:panic")
			if fits {
				o.violate("c17-constructor-panic:PayWithContract", "PayWithContract panics ("+msg+") although the cost and the contract value fit in 128 bits", line, "no panic", "panic: "+msg)
			}
			return
		}
		o.out = "ok " + c17ShowFC(fc) + " " + c17ErrTok(err)
		insufficient := ro.Cmp(cost) < 0 || m.Cmp(c17B(u.RiskedCollateral)) < 0
		switch {
		case err != nil && ro.Cmp(cost) < 0:
			o.buckets = append(o.buckets, "pay:insufficient-renter-funds")
		case err != nil:
			o.buckets = append(o.buckets, "pay:insufficient-collateral")
		case ro.Cmp(cost) == 0 || m.Cmp(c17B(u.RiskedCollateral)) == 0:
			o.buckets = append(o.buckets, "pay:ok-exact-balance")
		default:
			o.buckets = append(o.buckets, "pay:ok")
		}
		if (err != nil) != insufficient {
			o.violate("c17-pay:error-iff-insufficient", "PayWithContract reports an error exactly when renter funds < cost or missed host value < risked collateral", line, fmt.Sprint(insufficient), fmt.Sprint(err != nil))
		}
		if err != nil {
			if fc != fc0 {
				o.violate("c17-pay:failure-modifies-contract", "PayWithContract modified the contract although it reported an error", line, c17ShowFC(fc0), c17ShowFC(fc))
			}
			return
		}
		o.ok, o.fc = true, fc
		o.checkPayment("PayWithContract", line, fc0, fc, u)
		if !c17SameOther(fc0, fc) {
			o.violate("c17-pay:other-fields", "PayWithContract changed a field other than the output values, missed host value, revision number and signatures", line, c17ShowFC(fc0), c17ShowFC(fc))
		}
	case "append", "free", "roots", "fund", "replenish":
		fc0 := r.fc()
		var p rhp4.HostPrices
		var n uint64
		var amount types.Currency
		if op == "fund" || op == "replenish" {
			amount = r.cur()
		} else {
			p = r.prices()
			n = r.u64()
		}
		if !r.done() {
			o.out = "bad-op"
			return
		}
		root := types.Hash256{}
		var fc types.V2FileContract
		var u rhp4.Usage
		var err error
		panicked, msg := fw.Recover(func() {
			switch op {
			case "append":
				fc, u, err = rhp4.ReviseForAppendSectors(fc0, p, root, n)
			case "free":
				fc, u, err = rhp4.ReviseForFreeSectors(fc0, p, root, int(n))
			case "roots":
				fc, u, err = rhp4.ReviseForSectorRoots(fc0, p, n)
			case "fund":
				fc, u, err = rhp4.ReviseForFundAccounts(fc0, amount)
			case "replenish":
				fc, u, err = rhp4.ReviseForReplenish(fc0, amount)
			}
		})
		// request validity as the RPC's own Validate / the host guarantee it:
		valid := c17ContractOK(fc0)
		switch op {
		case "append":
			// 1..MaxSectorBatchSize sectors; the contract cannot grow past 2^64 bytes; prices are for a tip before expiration
			valid = valid && n >= 1 && n <= rhp4.MaxSectorBatchSize && p.TipHeight <= fc0.ExpirationHeight &&
				c17Add(c17U(fc0.Capacity), new(big.Int).Mul(c17U(c17Sector), c17U(n))).Cmp(c17W64) < 0
		case "free":
			// distinct indices below the sector count
			valid = valid && n <= rhp4.MaxSectorBatchSize && n <= fc0.Filesize/c17Sector
		case "roots":
			valid = valid && n >= 1 && n <= rhp4.MaxSectorBatchSize && n <= fc0.Filesize/c17Sector
		case "fund", "replenish":
			valid = valid && !amount.IsZero()
		}
		exp, fits := c17ExpectUsage(op, fc0, p, n)
		if op == "fund" || op == "replenish" {
			exp[4] = c17B(amount)
		}
		expCost := c17Add(exp[0], exp[1], exp[2], exp[3], exp[4])
		fits = fits && c17Fits(expCost)
		o.nontriv = valid
		if valid {
			o.buckets = append(o.buckets, op+":valid-request")
		} else {
			o.buckets = append(o.buckets, op+":arbitrary-input")
		}
		if panicked {
			o.out = "panic"
			o.buckets = append(o.buckets, op+":panic")
			if valid && fits {
				o.violate("c17-constructor-panic:"+op, "ReviseFor* ("+op+") panics ("+msg+") on a consensus-valid contract and a valid request whose prices fit in 128 bits", line, "no panic", "panic: "+msg)
			}
			return
		}
		o.out = "ok " + c17ShowFC(fc) + " " + c17ShowUsage(u) + " " + c17ErrTok(err)
		if !valid {
			return
		}
		ro, m := c17B(fc0.RenterOutput.Value), c17B(fc0.MissedHostValue)
		insufficient := ro.Cmp(expCost) < 0 || m.Cmp(exp[5]) < 0
		if (err != nil) != insufficient {
			o.violate("c17-revise:error-iff-insufficient:"+op, "revision ("+op+") fails exactly when the renter funds or the remaining collateral are insufficient for the priced usage", line, fmt.Sprint(insufficient), fmt.Sprint(err != nil))
		}
		if err != nil {
			o.buckets = append(o.buckets, op+":insufficient")
			if !c17FundsEqual(fc, fc0) {
				o.violate("c17-revise:failure-modifies-funds:"+op, "failed revision ("+op+") returns a contract with modified funds/revision number", line, c17ShowFC(fc0), c17ShowFC(fc))
			}
			if op != "roots" && op != "fund" && op != "replenish" && u != (rhp4.Usage{}) {
				o.violate("c17-revise:failure-reports-usage:"+op, "failed revision ("+op+") reports non-zero usage", line, "zero usage", c17ShowUsage(u))
			}
			return
		}
		o.buckets = append(o.buckets, op+":ok")
		o.ok, o.fc = true, fc
		got := c17UsageBig(u)
		for i := range got {
			if got[i].Cmp(exp[i]) != 0 {
				o.violate("c17-revise:usage:"+op, fmt.Sprintf("reported usage field %d of %s differs from price x quantity", i, op), line, exp[i].String(), got[i].String())
			}
		}
		o.checkPayment("ReviseFor("+op+")", line, fc0, fc, u)
		// non-payment fields
		wantFS, wantCapMin := fc0.Filesize, fc0.Capacity
		switch op {
		case "append":
			wantFS = fc0.Filesize + c17Sector*n
		case "free":
			wantFS = fc0.Filesize - c17Sector*n
		}
		if fc.Filesize != wantFS {
			o.violate("c17-revise:filesize:"+op, "revision ("+op+") filesize", line, fmt.Sprint(wantFS), fmt.Sprint(fc.Filesize))
		}
		if fc.Filesize > fc.Capacity || fc.Capacity < wantCapMin {
			o.violate("c17-revise:capacity:"+op, "revision ("+op+") leaves filesize > capacity or shrinks capacity", line, "filesize <= capacity, capacity not lowered", fmt.Sprintf("filesize %d capacity %d (was %d)", fc.Filesize, fc.Capacity, fc0.Capacity))
		}
		if op == "append" {
			if fc0.Capacity >= wantFS && fc.Capacity != fc0.Capacity {
				o.violate("c17-revise:capacity-growth", "append within existing capacity changed the capacity", line, fmt.Sprint(fc0.Capacity), fmt.Sprint(fc.Capacity))
			}
			if fc0.Capacity < wantFS && ((fc.Capacity-fc0.Capacity)%c17Sector != 0 || fc.Capacity-wantFS >= c17Sector) {
				o.violate("c17-revise:capacity-growth", "append grew the capacity by other than the minimal number of whole sectors", line, "minimal whole sectors", fmt.Sprintf("capacity %d -> %d filesize %d", fc0.Capacity, fc.Capacity, wantFS))
			}
		} else if fc.Capacity != fc0.Capacity {
			o.violate("c17-revise:capacity:"+op, "revision ("+op+") changed capacity", line, fmt.Sprint(fc0.Capacity), fmt.Sprint(fc.Capacity))
		}
		a, b := fc0, fc
		a.Filesize, b.Filesize, a.Capacity, b.Capacity = 0, 0, 0, 0
		a.FileMerkleRoot, b.FileMerkleRoot = types.Hash256{}, types.Hash256{}
		if !c17SameOther(a, b) {
			o.violate("c17-revise:other-fields:"+op, "revision ("+op+") changed heights, addresses, keys or total collateral", line, c17ShowFC(fc0), c17ShowFC(fc))
		}
	case "new":
		p := r.prices()
		allowance, coll := r.cur(), r.cur()
		ph := r.u64()
		rk, hk := r.u64(), r.u64()
		if !r.done() || rk > 255 || hk > 255 {
			o.out = "bad-op"
			return
		}
		cp := rhp4.RPCFormContractParams{RenterPublicKey: c17Key(rk), Allowance: allowance, Collateral: coll, ProofHeight: ph}
		var fc types.V2FileContract
		var u rhp4.Usage
		panicked, msg := fw.Recover(func() { fc, u = rhp4.NewContract(p, cp, c17Key(hk), types.Address{}) })
		// what RPCFormContractRequest.Validate guarantees about the numbers
		valid := !allowance.IsZero() && ph <= c17MaxU64-rhp4.ProofWindow
		ho := c17Add(c17B(coll), c17B(p.ContractPrice))
		fits := c17Fits(ho)
		o.nontriv = valid
		if panicked {
			o.out = "panic"
			o.buckets = append(o.buckets, "new:panic")
			if fits {
				o.violate("c17-constructor-panic:NewContract", "NewContract panics ("+msg+") although collateral + contract price fits", line, "no panic", "panic: "+msg)
			}
			return
		}
		o.out = "ok " + c17ShowFC(fc) + " " + c17ShowUsage(u)
		o.follow = append(o.follow, "rhp4c ccost "+c17ShowFC(fc)+" "+c17FeeConst.ExactString())
		if !valid {
			o.buckets = append(o.buckets, "new:arbitrary-input")
			return
		}
		o.buckets = append(o.buckets, "new:valid-request")
		o.ok, o.fc = true, fc
		want := types.V2FileContract{ProofHeight: ph, ExpirationHeight: ph + rhp4.ProofWindow,
			RenterOutput: types.SiacoinOutput{Value: allowance}, HostOutput: types.SiacoinOutput{Value: bigCur(ho)},
			MissedHostValue: coll, TotalCollateral: coll, RenterPublicKey: c17Key(rk), HostPublicKey: c17Key(hk)}
		if fc != want {
			o.violate("c17-new:fields", "NewContract output differs from the formation terms", line, c17ShowFC(want), c17ShowFC(fc))
		}
		if u != (rhp4.Usage{RPC: p.ContractPrice}) {
			o.violate("c17-new:usage", "NewContract usage is not the contract price", line, p.ContractPrice.ExactString(), c17ShowUsage(u))
		}
		if why := c17ValidContract(fc, 0); why != "" {
			o.violate("c17-new:invalid-contract", "NewContract output breaks a consensus contract rule: "+why, line, "valid", why)
		}
	case "ccost":
		fc := r.fc()
		fee := r.cur()
		if !r.done() {
			o.out = "bad-op"
			return
		}
		var rc, hc types.Currency
		panicked, msg := fw.Recover(func() { rc, hc = rhp4.ContractCost(cs, fc, fee) })
		ro, ho, tc := c17B(fc.RenterOutput.Value), c17B(fc.HostOutput.Value), c17B(fc.TotalCollateral)
		total := c17Add(ro, ho, c17Tax(fc), c17B(fee))
		ok := tc.Cmp(ho) <= 0 && c17Fits(total)
		o.nontriv = ok
		if panicked {
			o.out = "panic"
			if ok {
				o.violate("c17-constructor-panic:ContractCost", "ContractCost panics ("+msg+") on a contract with total collateral <= host output and fitting sums", line, "no panic", "panic: "+msg)
			}
			return
		}
		o.out = "ok " + rc.ExactString() + " " + hc.ExactString()
		if ok && c17Add(c17B(rc), c17B(hc)).Cmp(total) != 0 {
			o.violate("c17-new:cost-identity", "ContractCost renter + host != renter output + host output + tax + fee", line, total.String(), c17Add(c17B(rc), c17B(hc)).String())
		}
	case "renew", "refreshp", "refreshf":
		fc0 := r.fc()
		p := r.prices()
		allowance, coll := r.cur(), r.cur()
		var ph uint64
		if op == "renew" {
			ph = r.u64()
		}
		if !r.done() {
			o.out = "bad-op"
			return
		}
		var rn types.V2FileContractRenewal
		var u rhp4.Usage
		name := map[string]string{"renew": "RenewContract", "refreshp": "RefreshContractPartialRollover", "refreshf": "RefreshContractFullRollover"}[op]
		vkey := map[string]string{"renew": "c17-renew", "refreshp": "c17-refresh-partial", "refreshf": "c17-refresh-full"}[op]
		panicked, msg := fw.Recover(func() {
			switch op {
			case "renew":
				rn, u = rhp4.RenewContract(fc0, p, types.Address{}, rhp4.RPCRenewContractParams{Allowance: allowance, Collateral: coll, ProofHeight: ph})
			case "refreshp":
				rn, u = rhp4.RefreshContractPartialRollover(fc0, p, types.Address{}, rhp4.RPCRefreshContractParams{Allowance: allowance, Collateral: coll})
			case "refreshf":
				rn, u = rhp4.RefreshContractFullRollover(fc0, p, types.Address{}, rhp4.RPCRefreshContractParams{Allowance: allowance, Collateral: coll})
			}
		})
		ro, ho, m, tc := c17B(fc0.RenterOutput.Value), c17B(fc0.HostOutput.Value), c17B(fc0.MissedHostValue), c17B(fc0.TotalCollateral)
		valid := c17ContractOK(fc0) && !allowance.IsZero()
		// expected new contract values, from the statement / doc comments
		var nro, nho, nm, ntc *big.Int
		fits := true
		switch op {
		case "renew":
			// Validate: new proof height above the old one and above the price tip, room for the proof window;
			// constructor invariant: the old expiration is not later than the new one
			valid = valid && ph > fc0.ProofHeight && ph <= c17MaxU64-rhp4.ProofWindow && p.TipHeight <= ph && fc0.ExpirationHeight <= ph+rhp4.ProofWindow
			if valid {
				risked, f1 := c17MulChain(c17B(p.Collateral), fc0.Filesize, ph+rhp4.ProofWindow-p.TipHeight)
				storage, f2 := c17MulChain(c17B(p.StoragePrice), fc0.Filesize, ph+rhp4.ProofWindow-fc0.ExpirationHeight)
				nro, nm = c17B(allowance), c17B(coll)
				ntc = c17Add(c17B(coll), risked)
				nho = c17Add(ntc, storage, c17B(p.ContractPrice))
				fits = f1 && f2
			}
		case "refreshp":
			nro, nm = c17B(allowance), c17B(coll)
			ntc = c17Add(c17Sub(tc, m), c17B(coll))
			nho = c17Add(c17Sub(ho, tc), c17Sub(tc, m), c17B(coll), c17B(p.ContractPrice))
		case "refreshf":
			nro = c17Add(ro, c17B(allowance))
			nho = c17Add(ho, c17B(coll), c17B(p.ContractPrice))
			nm = c17Add(m, c17B(coll))
			ntc = c17Add(tc, c17B(coll))
		}
		if valid {
			fits = fits && c17Fits(nro, nho, nm, ntc, c17Add(c17B(allowance), c17B(p.ContractPrice)))
		}
		o.nontriv = valid
		if valid {
			o.buckets = append(o.buckets, op+":valid-request")
		} else {
			o.buckets = append(o.buckets, op+":arbitrary-input")
		}
		if panicked {
			o.out = "panic"
			o.buckets = append(o.buckets, op+":panic")
			if valid && fits {
				o.violate("c17-constructor-panic:"+name, name+" panics ("+msg+") on a consensus-valid contract and a valid request whose values fit in 128 bits", line, "no panic", "panic: "+msg)
			}
			return
		}
		o.out = "ok " + c17ShowRenewal(rn) + " " + c17ShowUsage(u)
		if op == "renew" {
			o.follow = append(o.follow, "rhp4c rcost "+c17ShowRenewal(rn)+" "+c17FeeConst.ExactString())
		} else {
			o.follow = append(o.follow, "rhp4c fcost "+c17ShowRenewal(rn)+" "+c17ShowPrices(p)+" "+c17FeeConst.ExactString())
		}
		if !valid {
			return
		}
		o.ok, o.renewal = true, rn
		nc := rn.NewContract
		fr, fh, rr, hr := c17B(rn.FinalRenterOutput.Value), c17B(rn.FinalHostOutput.Value), c17B(rn.RenterRollover), c17B(rn.HostRollover)
		if c17Add(fr, rr).Cmp(ro) != 0 {
			o.violate(vkey+":split-renter", name+": final renter output + renter rollover != old renter output", line, ro.String(), c17Add(fr, rr).String())
		}
		if c17Add(fh, hr).Cmp(ho) != 0 {
			o.violate(vkey+":split-host", name+": final host output + host rollover != old host output", line, ho.String(), c17Add(fh, hr).String())
		}
		newCost := c17Add(c17B(nc.RenterOutput.Value), c17B(nc.HostOutput.Value), c17Tax(nc))
		if c17Add(rr, hr).Cmp(newCost) > 0 {
			o.violate(vkey+":rollover-bound", name+": rollover exceeds the new contract's cost", line, "<= "+newCost.String(), c17Add(rr, hr).String())
		}
		if nc.RenterPublicKey != fc0.RenterPublicKey || nc.HostPublicKey != fc0.HostPublicKey {
			o.violate(vkey+":keys", name+" changes a public key", line, "", "")
		}
		if c17B(nc.RenterOutput.Value).Cmp(nro) != 0 || c17B(nc.HostOutput.Value).Cmp(nho) != 0 || c17B(nc.MissedHostValue).Cmp(nm) != 0 || c17B(nc.TotalCollateral).Cmp(ntc) != 0 {
			o.violate(vkey+":new-values", name+": new contract values differ from the documented composition", line,
				fmt.Sprint(nro, nho, nm, ntc), c17ShowFC(nc))
		}
		minPH := fc0.ProofHeight
		if why := c17ValidContract(nc, minPH); why != "" {
			o.violate(vkey+":invalid-contract", name+": new contract breaks a consensus contract rule: "+why, line, "valid", why)
		}
		if nc.RevisionNumber != 0 || nc.Filesize != fc0.Filesize || nc.FileMerkleRoot != fc0.FileMerkleRoot {
			o.violate(vkey+":new-fields", name+": new contract does not start at revision 0 with the old data", line, "", c17ShowFC(nc))
		}
		// the cost functions on the constructor's own output
		var rc, hc types.Currency
		cpanicked, cmsg := fw.Recover(func() {
			if op == "renew" {
				rc, hc = rhp4.RenewalCost(cs, rn, c17FeeConst)
			} else {
				rc, hc = rhp4.RefreshCost(cs, p, rn, c17FeeConst)
			}
		})
		total := c17Add(newCost, c17B(c17FeeConst))
		if cpanicked {
			if c17Fits(total) {
				o.violate("c17-constructor-panic:"+name+"-cost", "the cost function panics ("+cmsg+") on the output of "+name, line, "no panic", "panic: "+cmsg)
			}
		} else if c17Add(c17B(rc), c17B(hc), rr, hr).Cmp(total) != 0 {
			o.violate(vkey+":cost-identity", name+": renter cost + host cost + rollovers != new outputs + tax + fee", line, total.String(), c17Add(c17B(rc), c17B(hc), rr, hr).String())
		}
	case "rcost", "fcost":
		rn := r.renewal()
		var p rhp4.HostPrices
		if op == "fcost" {
			p = r.prices()
		}
		fee := r.cur()
		if !r.done() {
			o.out = "bad-op"
			return
		}
		var rc, hc types.Currency
		panicked, _ := fw.Recover(func() {
			if op == "rcost" {
				rc, hc = rhp4.RenewalCost(cs, rn, fee)
			} else {
				rc, hc = rhp4.RefreshCost(cs, p, rn, fee)
			}
		})
		o.nontriv = true
		if panicked {
			o.out = "panic"
		} else {
			o.out = "ok " + rc.ExactString() + " " + hc.ExactString()
		}
	case "tax":
		fc := r.fc()
		if !r.done() {
			o.out = "bad-op"
			return
		}
		var t types.Currency
		panicked, _ := fw.Recover(func() { t = cs.V2FileContractTax(fc) })
		o.nontriv = true
		if panicked {
			o.out = "panic"
			if c17Fits(c17Add(c17B(fc.RenterOutput.Value), c17B(fc.HostOutput.Value))) {
				o.violate("c17-constructor-panic:V2FileContractTax", "V2FileContractTax panics although the outputs' sum fits", line, "no panic", "panic")
			}
		} else {
			o.out = "ok " + t.ExactString()
			if c17B(t).Cmp(c17Tax(fc)) != 0 {
				o.violate("c17-tax:value", "V2FileContractTax is not floor((renter+host)/25)", line, c17Tax(fc).String(), t.ExactString())
			}
		}
	case "ucost":
		k := r.u64()
		p := r.prices()
		a, b := r.u64(), r.u64()
		if !r.done() || k > 5 {
			o.out = "bad-op"
			return
		}
		var u rhp4.Usage
		panicked, _ := fw.Recover(func() {
			switch k {
			case 0:
				u = p.RPCReadSectorCost(a)
			case 1:
				u = p.RPCWriteSectorCost(a)
			case 2:
				u = p.RPCSectorRootsCost(a)
			case 3:
				u = p.RPCVerifySectorCost()
			case 4:
				u = p.RPCFreeSectorsCost(int(a))
			case 5:
				u = p.RPCAppendSectorsCost(a, b)
			}
		})
		o.nontriv = true
		o.buckets = append(o.buckets, fmt.Sprintf("ucost:%d", k))
		if panicked {
			o.out = "panic"
		} else {
			o.out = "ok " + c17ShowUsage(u)
		}
	case "uadd", "umul":
		a := r.usage()
		var b rhp4.Usage
		var n uint64
		if op == "uadd" {
			b = r.usage()
		} else {
			n = r.u64()
		}
		if !r.done() {
			o.out = "bad-op"
			return
		}
		var u rhp4.Usage
		panicked, _ := fw.Recover(func() {
			if op == "uadd" {
				u = a.Add(b)
			} else {
				u = a.Mul(n)
			}
		})
		o.nontriv = true
		if panicked {
			o.out = "panic"
		} else {
			o.out = "ok " + c17ShowUsage(u)
		}
	case "minallow", "maxcoll":
		p := r.prices()
		x := r.cur()
		if !r.done() {
			o.out = "bad-op"
			return
		}
		var v types.Currency
		panicked, _ := fw.Recover(func() {
			if op == "minallow" {
				v = rhp4.MinRenterAllowance(p, x)
			} else {
				v = rhp4.MaxHostCollateral(p, x)
			}
		})
		o.nontriv = true
		if panicked {
			o.out = "panic"
		} else {
			o.out = "ok " + v.ExactString()
		}
	default:
		o.out = "bad-op"
	}
	return
}

// c17ValidContract: the contract rules of the statement ("accepted by consensus
// rules"), on numbers; "" = acceptable at every child height <= minProofHeight.
func c17ValidContract(fc types.V2FileContract, minProofHeight uint64) string {
	ro, ho, m, tc := c17B(fc.RenterOutput.Value), c17B(fc.HostOutput.Value), c17B(fc.MissedHostValue), c17B(fc.TotalCollateral)
	switch {
	case fc.Filesize > fc.Capacity:
		return "filesize exceeds capacity"
	case fc.ProofHeight < minProofHeight:
		return "proof height too low"
	case fc.ExpirationHeight <= fc.ProofHeight:
		return "no proof window"
	case ro.Sign() == 0 && ho.Sign() == 0:
		return "zero value"
	case m.Cmp(ho) > 0:
		return "missed host value exceeds host output"
	case tc.Cmp(ho) > 0:
		return "total collateral exceeds host output"
	}
	return ""
}

// ---------------------------------------------------------------- generators

type c17Gen struct{ c *fw.Ctx }

func (g c17Gen) bigBelow(bits uint) *big.Int {
	if bits == 0 {
		return new(big.Int)
	}
	return new(big.Int).Rand(g.c.Rng, new(big.Int).Lsh(big.NewInt(1), bits))
}

// wild: any 128-bit value, weighted to boundaries
func (g c17Gen) wildCur() types.Currency {
	switch g.c.Rng.Intn(8) {
	case 0:
		return types.ZeroCurrency
	case 1:
		return types.NewCurrency64(uint64(g.c.Rng.Intn(5)))
	case 2:
		d := big.NewInt(int64(g.c.Rng.Intn(5) - 2))
		return bigCur(new(big.Int).Mod(new(big.Int).Add(c17W64, d), c17W128))
	case 3:
		return bigCur(c17Sub(c17W128, big.NewInt(int64(1+g.c.Rng.Intn(3)))))
	default:
		return bigCur(g.bigBelow(uint(1 + g.c.Rng.Intn(128))))
	}
}

func (g c17Gen) wildU64() uint64 {
	switch g.c.Rng.Intn(8) {
	case 0:
		return 0
	case 1:
		return uint64(g.c.Rng.Intn(5))
	case 2:
		return c17MaxU64 - uint64(g.c.Rng.Intn(200))
	case 3:
		return c17Sector * uint64(g.c.Rng.Intn(1<<20))
	default:
		return g.c.Rng.Uint64() >> uint(g.c.Rng.Intn(64))
	}
}

// cur below 2^bits, sometimes zero
func (g c17Gen) curBits(bits uint) types.Currency {
	if g.c.Rng.Intn(12) == 0 {
		return types.ZeroCurrency
	}
	return bigCur(g.bigBelow(uint(1 + g.c.Rng.Intn(int(bits)))))
}

func (g c17Gen) wildFC() types.V2FileContract {
	return types.V2FileContract{Capacity: g.wildU64(), Filesize: g.wildU64(), ProofHeight: g.wildU64(), ExpirationHeight: g.wildU64(),
		RenterOutput: types.SiacoinOutput{Value: g.wildCur()}, HostOutput: types.SiacoinOutput{Value: g.wildCur()},
		MissedHostValue: g.wildCur(), TotalCollateral: g.wildCur(), RevisionNumber: g.wildU64(),
		RenterPublicKey: c17Key(uint64(1 + g.c.Rng.Intn(2))), HostPublicKey: c17Key(uint64(1 + g.c.Rng.Intn(2)))}
}

func (g c17Gen) wildPrices() rhp4.HostPrices {
	return rhp4.HostPrices{ContractPrice: g.wildCur(), Collateral: g.wildCur(), StoragePrice: g.wildCur(), IngressPrice: g.wildCur(),
		EgressPrice: g.wildCur(), FreeSectorPrice: g.wildCur(), TipHeight: g.wildU64()}
}

func (g c17Gen) wildUsage() rhp4.Usage {
	return rhp4.Usage{RPC: g.wildCur(), Storage: g.wildCur(), Egress: g.wildCur(), Ingress: g.wildCur(), AccountFunding: g.wildCur(), RiskedCollateral: g.wildCur()}
}

// realistic prices: per-byte-per-block prices are small, the contract price larger;
// `scale` shifts everything (0 = free host .. large = expensive).
func (g c17Gen) prices(tip uint64) rhp4.HostPrices {
	per := uint(1 + g.c.Rng.Intn(40))
	p := rhp4.HostPrices{ContractPrice: g.curBits(90), Collateral: g.curBits(per), StoragePrice: g.curBits(per), IngressPrice: g.curBits(per + 10),
		EgressPrice: g.curBits(per + 10), FreeSectorPrice: g.curBits(60), TipHeight: tip}
	if g.c.Rng.Intn(10) == 0 { // free host
		p = rhp4.HostPrices{TipHeight: tip}
	}
	return p
}

// a usage around the contract's balances, hitting the exact boundaries often
func (g c17Gen) usageAround(fc types.V2FileContract) rhp4.Usage {
	ro, m := c17B(fc.RenterOutput.Value), c17B(fc.MissedHostValue)
	var target *big.Int
	switch g.c.Rng.Intn(6) {
	case 0:
		target = new(big.Int).Set(ro) // exact balance
	case 1:
		target = c17Add(ro, big.NewInt(1)) // one hasting short
	case 2:
		target = c17Sub(ro, big.NewInt(1))
	default:
		target = new(big.Int).Rand(g.c.Rng, c17Add(ro, big.NewInt(1)))
	}
	if target.Sign() < 0 {
		target.SetInt64(0)
	}
	if target.Cmp(c17W128) >= 0 {
		target = c17Sub(c17W128, big.NewInt(1))
	}
	// split target over the five fields
	var parts [5]*big.Int
	rest := new(big.Int).Set(target)
	for i := 0; i < 4; i++ {
		parts[i] = new(big.Int)
		if g.c.Rng.Intn(2) == 0 && rest.Sign() > 0 {
			parts[i].Rand(g.c.Rng, c17Add(rest, big.NewInt(1)))
			rest.Sub(rest, parts[i])
		}
	}
	parts[4] = rest
	g.c.Rng.Shuffle(5, func(i, j int) { parts[i], parts[j] = parts[j], parts[i] })
	var rc *big.Int
	switch g.c.Rng.Intn(6) {
	case 0:
		rc = new(big.Int).Set(m)
	case 1:
		rc = c17Add(m, big.NewInt(1))
	case 2:
		rc = new(big.Int)
	default:
		rc = new(big.Int).Rand(g.c.Rng, c17Add(m, big.NewInt(1)))
	}
	if rc.Cmp(c17W128) >= 0 {
		rc = c17Sub(c17W128, big.NewInt(1))
	}
	return rhp4.Usage{RPC: bigCur(parts[0]), Storage: bigCur(parts[1]), Egress: bigCur(parts[2]), Ingress: bigCur(parts[3]), AccountFunding: bigCur(parts[4]), RiskedCollateral: bigCur(rc)}
}

// ---------------------------------------------------------------- runner

type c17Run struct {
	c     *fw.Ctx
	lines []string
	outs  []string
}

// do evaluates a line (and the follow-up lines it produces) on the real code,
// records everything for the model comparison and reports oracle violations.
func (r *c17Run) do(line string) c17Out {
	o := c17Eval(line)
	res := r.c.Res
	res.Eval(line, o.nontriv)
	for _, b := range o.buckets {
		res.Count(b)
	}
	for _, v := range o.viol {
		res.Violate(v)
	}
	r.lines = append(r.lines, line)
	r.outs = append(r.outs, o.out)
	if len(r.lines)%4001 == 0 {
		res.Sample(map[string]string{"op": line, "go": o.out})
	}
	for _, f := range o.follow {
		r.do(f)
	}
	return o
}

func runC17(c *fw.Ctx) {
	res := c.Res
	res.Rule = "pure: every rhp/v4 constructor/cost function on (a) arbitrary 128-bit/64-bit field values weighted to 0, 2^64+-2, 2^128-3.., sector multiples (translator self-test incl. panics) and (b) structured cases: consensus-valid contracts x valid requests with exact-balance, one-short, zero-price, max-batch and max-height boundaries; a case is non-trivial when the request is valid (pay: cost>0); distinct by op line. sequences: random walks of append/free/roots/fund/replenish/renew/refresh(full,partial) from NewContract, each step judged. e2e: real signed v2 transactions (formation, revisions, renewal/refresh) on a mined chain judged by ValidateV2Transaction+ValidateBlock, with exact funding by the cost functions; the same transactions and single-rule mutations compared with the hand model Sia.Ledger.validate*. v1: taxAdjustedPayout via rhp/v2+v3 PrepareContractFormation/Renewal against the consensus tax equation; rhp1c lines: rhp/v2 formation/host payouts/renewal/collateral, rhp/v3 renewal costs/host payouts/renewal and PayByContract (exact-balance, one-short, malformed output lists) vs generated+hand model and the statement; requests: real rhp/v4 request objects around every boundary of their Validate (indices n-1/n/n+1, counts 0/1/max/max+1, heights/durations/allowance/collateral limits, empty contract, all sectors freed) through the real Validate (vs the Lean model, op rhp4v); accepted requests must make the constructor behave (no panic, totals kept, filesize = 4MiB x sectors after, no wrap) and, on a real chain, be accepted by ValidateV2Transaction. e2e-v1: formation, PayByContract revisions, v2/v3-style renewals as signed v1 transactions through ValidateTransaction+ValidateBlock on chain.NewSim(v1)."
	if c.Replay != "" {
		c17Replay(c)
		return
	}
	g := c17Gen{c}
	run := &c17Run{c: c}

	// (a) arbitrary inputs: translator self-test, panics included
	nWild := c.Budget(3000, 200000)
	for i := 0; i < nWild; i++ {
		switch c.Rng.Intn(16) {
		case 0, 1:
			fc := g.wildFC()
			u := g.wildUsage()
			if c.Rng.Intn(2) == 0 {
				u = g.usageAround(fc)
			}
			run.do("rhp4c pay " + c17ShowFC(fc) + " " + c17ShowUsage(u))
		case 2:
			run.do(fmt.Sprintf("rhp4c append %s %s %d", c17ShowFC(g.wildFC()), c17ShowPrices(g.wildPrices()), g.wildU64()))
		case 3:
			run.do(fmt.Sprintf("rhp4c free %s %s %d", c17ShowFC(g.wildFC()), c17ShowPrices(g.wildPrices()), g.wildU64()>>uint(1+c.Rng.Intn(20))))
		case 4:
			run.do(fmt.Sprintf("rhp4c roots %s %s %d", c17ShowFC(g.wildFC()), c17ShowPrices(g.wildPrices()), g.wildU64()))
		case 5:
			op := []string{"fund", "replenish"}[c.Rng.Intn(2)]
			run.do(fmt.Sprintf("rhp4c %s %s %s", op, c17ShowFC(g.wildFC()), g.wildCur().ExactString()))
		case 6:
			run.do(fmt.Sprintf("rhp4c new %s %s %s %d 1 2", c17ShowPrices(g.wildPrices()), g.wildCur().ExactString(), g.wildCur().ExactString(), g.wildU64()))
		case 7:
			run.do(fmt.Sprintf("rhp4c renew %s %s %s %s %d", c17ShowFC(g.wildFC()), c17ShowPrices(g.wildPrices()), g.wildCur().ExactString(), g.wildCur().ExactString(), g.wildU64()))
		case 8:
			run.do(fmt.Sprintf("rhp4c refreshp %s %s %s %s", c17ShowFC(g.wildFC()), c17ShowPrices(g.wildPrices()), g.wildCur().ExactString(), g.wildCur().ExactString()))
		case 9:
			run.do(fmt.Sprintf("rhp4c refreshf %s %s %s %s", c17ShowFC(g.wildFC()), c17ShowPrices(g.wildPrices()), g.wildCur().ExactString(), g.wildCur().ExactString()))
		case 10:
			rn := types.V2FileContractRenewal{FinalRenterOutput: types.SiacoinOutput{Value: g.wildCur()}, FinalHostOutput: types.SiacoinOutput{Value: g.wildCur()},
				RenterRollover: g.wildCur(), HostRollover: g.wildCur(), NewContract: g.wildFC()}
			if c.Rng.Intn(2) == 0 {
				run.do("rhp4c rcost " + c17ShowRenewal(rn) + " " + g.wildCur().ExactString())
			} else {
				run.do("rhp4c fcost " + c17ShowRenewal(rn) + " " + c17ShowPrices(g.wildPrices()) + " " + g.wildCur().ExactString())
			}
		case 11:
			run.do("rhp4c ccost " + c17ShowFC(g.wildFC()) + " " + g.wildCur().ExactString())
		case 12:
			run.do("rhp4c tax " + c17ShowFC(g.wildFC()))
		case 13:
			run.do(fmt.Sprintf("rhp4c ucost %d %s %d %d", c.Rng.Intn(6), c17ShowPrices(g.wildPrices()), g.wildU64(), g.wildU64()))
		case 14:
			if c.Rng.Intn(2) == 0 {
				run.do("rhp4c uadd " + c17ShowUsage(g.wildUsage()) + " " + c17ShowUsage(g.wildUsage()))
			} else {
				run.do(fmt.Sprintf("rhp4c umul %s %d", c17ShowUsage(g.wildUsage()), g.wildU64()))
			}
		case 15:
			op := []string{"minallow", "maxcoll"}[c.Rng.Intn(2)]
			p := g.wildPrices()
			if c.Rng.Intn(2) == 0 {
				p = g.prices(g.wildU64())
			}
			run.do(fmt.Sprintf("rhp4c %s %s %s", op, c17ShowPrices(p), g.wildCur().ExactString()))
		}
	}

	// (b) sequences of constructor calls from NewContract
	nSeq := c.Budget(400, 40000)
	for i := 0; i < nSeq; i++ {
		c17Sequence(run, g)
	}
	c.Compare(run.lines, run.outs)

	c17V1(c)
	c17V1Contracts(c)
	c17E2E(c)
	c17Requests(c)
}

// c17Sequence: NewContract, then a random walk of valid requests; each step's
// input contract is the real output of the previous step.
func c17Sequence(run *c17Run, g c17Gen) {
	c := g.c
	res := c.Res
	tip := uint64(c.Rng.Intn(1 << 20))
	if c.Rng.Intn(20) == 0 {
		tip = c17MaxU64 - 400 - uint64(c.Rng.Intn(1000)) // maximal heights
	}
	p := g.prices(tip)
	ph := tip + rhp4.MinContractDuration + uint64(c.Rng.Intn(5000))
	if c.Rng.Intn(10) == 0 {
		ph = c17MaxU64 - rhp4.ProofWindow // maximal proof height accepted by Validate
	}
	if ph < tip || ph > c17MaxU64-rhp4.ProofWindow {
		ph = c17MaxU64 - rhp4.ProofWindow
	}
	allowance := bigCur(c17Add(g.bigBelow(uint(1+c.Rng.Intn(100))), big.NewInt(1)))
	coll := g.curBits(100)
	o := run.do(fmt.Sprintf("rhp4c new %s %s %s %d 1 2", c17ShowPrices(p), allowance.ExactString(), coll.ExactString(), ph))
	if !o.ok {
		return
	}
	fc := o.fc
	steps := 1 + c.Rng.Intn(10)
	res.Count("sequence:started")
	for s := 0; s < steps; s++ {
		if !c17ContractOK(fc) {
			res.Count("sequence:left-valid-space")
			return
		}
		var o c17Out
		switch k := c.Rng.Intn(9); k {
		case 0, 1: // append
			n := uint64(1 + c.Rng.Intn(64))
			switch c.Rng.Intn(10) {
			case 0:
				n = rhp4.MaxSectorBatchSize
			case 1:
				if free := (fc.Capacity - fc.Filesize) / c17Sector; free > 0 { // fits in the free capacity
					n = 1 + uint64(c.Rng.Int63n(int64(min(free, rhp4.MaxSectorBatchSize))))
				}
			}
			if p.TipHeight > fc.ExpirationHeight {
				continue
			}
			o = run.do(fmt.Sprintf("rhp4c append %s %s %d", c17ShowFC(fc), c17ShowPrices(p), n))
		case 2: // free
			sectors := fc.Filesize / c17Sector
			if sectors == 0 {
				continue
			}
			n := 1 + uint64(c.Rng.Int63n(int64(min(sectors, rhp4.MaxSectorBatchSize))))
			if c.Rng.Intn(4) == 0 {
				n = min(sectors, rhp4.MaxSectorBatchSize)
			}
			o = run.do(fmt.Sprintf("rhp4c free %s %s %d", c17ShowFC(fc), c17ShowPrices(p), n))
		case 3: // sector roots
			sectors := fc.Filesize / c17Sector
			if sectors == 0 {
				continue
			}
			n := 1 + uint64(c.Rng.Int63n(int64(min(sectors, rhp4.MaxSectorBatchSize))))
			o = run.do(fmt.Sprintf("rhp4c roots %s %s %d", c17ShowFC(fc), c17ShowPrices(p), n))
		case 4, 5: // fund / replenish, exact balance often
			ro := c17B(fc.RenterOutput.Value)
			var amt *big.Int
			switch c.Rng.Intn(5) {
			case 0:
				amt = new(big.Int).Set(ro)
			case 1:
				amt = c17Add(ro, big.NewInt(1))
			default:
				amt = c17Add(new(big.Int).Rand(c.Rng, c17Add(ro, big.NewInt(1))), big.NewInt(0))
			}
			if amt.Sign() == 0 || amt.Cmp(c17W128) >= 0 {
				amt = big.NewInt(1)
			}
			op := []string{"fund", "replenish"}[k-4]
			o = run.do(fmt.Sprintf("rhp4c %s %s %s", op, c17ShowFC(fc), amt.String()))
		case 6: // renew
			if fc.ProofHeight >= c17MaxU64-rhp4.ProofWindow {
				continue
			}
			nph := fc.ProofHeight + 1 + uint64(c.Rng.Intn(5000))
			if nph > c17MaxU64-rhp4.ProofWindow || nph < fc.ProofHeight {
				nph = c17MaxU64 - rhp4.ProofWindow
			}
			a := bigCur(c17Add(g.bigBelow(uint(1+c.Rng.Intn(100))), big.NewInt(1)))
			o = run.do(fmt.Sprintf("rhp4c renew %s %s %s %s %d", c17ShowFC(fc), c17ShowPrices(p), a.ExactString(), g.curBits(100).ExactString(), nph))
			if o.ok {
				o.fc = o.renewal.NewContract
			}
		case 7, 8:
			a := bigCur(c17Add(g.bigBelow(uint(1+c.Rng.Intn(100))), big.NewInt(1)))
			if c.Rng.Intn(4) == 0 { // allowance around the remaining renter funds: both rollover branches
				a = fc.RenterOutput.Value
				if a.IsZero() {
					a = types.NewCurrency64(1)
				}
			}
			op := []string{"refreshp", "refreshf"}[k-7]
			o = run.do(fmt.Sprintf("rhp4c %s %s %s %s %s", op, c17ShowFC(fc), c17ShowPrices(p), a.ExactString(), g.curBits(100).ExactString()))
			if o.ok {
				o.fc = o.renewal.NewContract
			}
		}
		if o.ok {
			fc = o.fc
			res.Count("sequence:steps-applied")
		}
	}
}

// ---------------------------------------------------------------- replay

func c17Replay(c *fw.Ctx) {
	b, err := readFile(c.Replay)
	if err != nil {
		c.Res.Note("cannot read replay file: %v", err)
		return
	}
	var v struct {
		Replay struct {
			Kind string
			Line string
			Seed int64
		}
	}
	if json.Unmarshal(b, &v) != nil {
		c.Res.Note("cannot parse replay file")
		return
	}
	switch v.Replay.Kind {
	case "line":
		if strings.HasPrefix(v.Replay.Line, "rhp1c") {
			o := c17V1Eval(v.Replay.Line)
			c.Res.Eval(v.Replay.Line, o.nontriv)
			for _, x := range o.viol {
				c.Res.Violate(x)
			}
			c.Compare([]string{v.Replay.Line}, []string{o.out})
			return
		}
		run := &c17Run{c: c}
		run.do(v.Replay.Line)
		c.Compare(run.lines, run.outs)
	case "v1":
		c17V1(c)
	case "e2e-v1":
		c17V1Contracts(c)
	case "req":
		c17Requests(c)
	default: // e2e cases are replayed by re-running the e2e part with the recorded seed
		c17E2E(c)
	}
}
