package props

import (
	"encoding/json"
	"fmt"

	"go.sia.tech/core/consensus"

	"verif/harness/internal/fw"
)

// c10UpdateJSONKeys: the JSON forms of ApplyUpdate / RevertUpdate file their updated leaves and tree-growth
// hashes under map keys that index fixed 64-slot arrays; an out-of-range key is malformed input and must give an error.
func c10UpdateJSONKeys(c *fw.Ctx) {
	res := c.Res
	keys := []string{"-1", "0", "63", "64", "65", "255", "4294967296", "-9223372036854775808", "9223372036854775807"}
	for _, k := range keys {
		for _, field := range []string{"updatedLeaves", "treeGrowth"} {
			for _, typ := range []string{"ApplyUpdate", "RevertUpdate"} {
				if typ == "RevertUpdate" && field == "treeGrowth" {
					continue
				}
				doc := fmt.Sprintf(`{"%s":{"%s":[]}}`, field, k)
				var err error
				panicked, msg := fw.Recover(func() {
					if typ == "ApplyUpdate" {
						var au consensus.ApplyUpdate
						err = json.Unmarshal([]byte(doc), &au)
					} else {
						var ru consensus.RevertUpdate
						err = json.Unmarshal([]byte(doc), &ru)
					}
				})
				res.Eval("update-json-key/"+typ+"/"+field+"/"+k, true)
				res.Count("update-json-key")
				if panicked {
					res.Violate(fw.Violation{Key: "c10-decode-panic:json:consensus." + typ, What: fmt.Sprintf("json.Unmarshal of %s into consensus.%s panicked: %s", doc, typ, msg),
						Replay: map[string]any{"type": typ, "json": doc}, Expected: "value or error", Observed: "panic: " + msg})
				} else if err == nil && (k == "-1" || k == "64" || k == "65" || k == "255" || len(k) > 3) {
					res.Count("update-json-key:out-of-range-accepted")
				}
			}
		}
	}
}
