package props

// C14 — Spend policy verification matches the policy's meaning and address commitment.
//
// Three-way comparison on every scenario (policy, height, median time, sighash,
// signatures, preimages):
//   (a) the real SpendPolicy.Verify,
//   (b) the Lean model `Sia.Policy.verify` (driver op policy-verify; signature validity
//       is an oracle bit computed here by the real PublicKey.VerifyHash),
//   (c) the statement-level evaluator c14Meaning (c14_oracle.go).
// (a)≠(c) is a Violation, (a)≠(b) a model disagreement.
// Addresses: Address() vs model byte for byte; Address() invariant under replacing any
// set of sub-policies by PolicyOpaque; an opaquified branch is unusable.

import (
	"crypto/sha256"
	"encoding/binary"
	"encoding/json"
	"fmt"
	"runtime"
	"sort"
	"strings"
	"sync"
	"time"

	"go.sia.tech/core/types"
	"verif/harness/internal/fw"
)

func init() { fw.Register("C14", runC14) }

func sha256sum(b []byte) [32]byte { return sha256.Sum256(b) }

const (
	c14H0 = uint64(1000)       // the height lock used by generated policies
	c14T0 = int64(1_700_000_000) // the time lock (unix seconds)
)

// ---------------------------------------------------------------- fixtures

type c14Fix struct {
	priv   []types.PrivateKey
	pub    []types.PublicKey
	pubIdx map[types.PublicKey]int
	sigH   types.Hash256
	sig    []types.Signature // sig[i] = priv[i].SignHash(sigH)
	pre    [][32]byte
	hash   []types.Hash256
	preOf  map[types.Hash256][32]byte
	opq    types.Address // an arbitrary opaque address
}

func c14NewFix(c *fw.Ctx, nkeys int) *c14Fix {
	f := &c14Fix{pubIdx: map[types.PublicKey]int{}, preOf: map[types.Hash256][32]byte{}}
	c.Rng.Read(f.sigH[:])
	for i := 0; i < nkeys; i++ {
		seed := make([]byte, 32)
		c.Rng.Read(seed)
		k := types.NewPrivateKeyFromSeed(seed)
		f.priv = append(f.priv, k)
		f.pub = append(f.pub, k.PublicKey())
		f.pubIdx[k.PublicKey()] = i
		f.sig = append(f.sig, k.SignHash(f.sigH))
		var pre [32]byte
		c.Rng.Read(pre[:])
		h := types.Hash256(sha256sum(pre[:]))
		f.pre = append(f.pre, pre)
		f.hash = append(f.hash, h)
		f.preOf[h] = pre
	}
	c.Rng.Read(f.opq[:])
	return f
}

// natural witnesses: walk the revealed part of the tree in order; every public-key
// leaf gets the signature of its key (when we hold it), every hash leaf its preimage.
func (f *c14Fix) witnesses(p types.SpendPolicy) (sigs []types.Signature, pres [][32]byte) {
	var walk func(p types.SpendPolicy)
	walk = func(p types.SpendPolicy) {
		switch t := p.Type.(type) {
		case types.PolicyTypePublicKey:
			if i, ok := f.pubIdx[types.PublicKey(t)]; ok {
				sigs = append(sigs, f.sig[i])
			} else {
				sigs = append(sigs, types.Signature{1})
			}
		case types.PolicyTypeHash:
			pres = append(pres, f.preOf[types.Hash256(t)])
		case types.PolicyTypeThreshold:
			for _, c := range t.Of {
				walk(c)
			}
		case types.PolicyTypeUnlockConditions:
			// in key order, as many as required
			need := t.SignaturesRequired
			for _, k := range t.PublicKeys {
				if need == 0 {
					break
				}
				var pk types.PublicKey
				copy(pk[:], k.Key)
				if i, ok := f.pubIdx[pk]; ok && k.Algorithm == types.SpecifierEd25519 {
					sigs = append(sigs, f.sig[i])
					need--
				}
			}
		}
	}
	walk(p)
	return
}

// ---------------------------------------------------------------- real-code side

var (
	c14RealMu    sync.Mutex
	c14RealCache = map[c14SigKey]bool{}
)

// the signature oracle handed to the model: the REAL VerifyHash
func c14RealSigOK(k types.PublicKey, h types.Hash256, s types.Signature) bool {
	key := c14SigKey{k, h, s}
	c14RealMu.Lock()
	v, ok := c14RealCache[key]
	c14RealMu.Unlock()
	if ok {
		return v
	}
	v = k.VerifyHash(h, s)
	c14RealMu.Lock()
	if len(c14RealCache) > 1<<20 {
		c14RealCache = map[c14SigKey]bool{}
	}
	c14RealCache[key] = v
	c14RealMu.Unlock()
	return v
}

func c14ErrClass(err error) string {
	if err == nil {
		return "accept"
	}
	m := err.Error()
	for _, pc := range [][2]string{
		{"height (", "height"}, {"median timestamp", "time"}, {"invalid signature", "sig"}, {"invalid preimage", "preimage"},
		{"policy is too complex", "complex"}, {"unlock conditions cannot be sub-policies", "uc-sub"},
		{"threshold exceeded", "exceeded"}, {"threshold not reached: satisfied", "not-reached"}, {"opaque policy", "opaque"},
		{"policy uses an entropy public key", "entropy"}, {"threshold not reached: remaining", "uc-not-reached"},
		{"superfluous signature", "super-sig"}, {"superfluous preimage", "super-pre"},
	} {
		if strings.HasPrefix(m, pc[0]) {
			return "reject:" + pc[1]
		}
	}
	return "reject:other"
}

func c14GoVerify(s *c14Scn) string {
	var err error
	panicked, msg := fw.Recover(func() {
		err = s.P.Verify(s.Height, time.Unix(s.Median, s.MedianNs), s.SigH, s.Sigs, s.Pres)
	})
	if panicked {
		return "panic:" + msg
	}
	return c14ErrClass(err)
}

func c14Verdict3(out string) string {
	if i := strings.IndexByte(out, ':'); i >= 0 {
		return out[:i]
	}
	return out
}

// distinct 32-byte keys a policy can check a signature against
func c14Keys(p types.SpendPolicy) []types.PublicKey {
	seen := map[types.PublicKey]bool{}
	var keys []types.PublicKey
	add := func(k types.PublicKey) {
		if !seen[k] {
			seen[k] = true
			keys = append(keys, k)
		}
	}
	var walk func(p types.SpendPolicy)
	walk = func(p types.SpendPolicy) {
		switch t := p.Type.(type) {
		case types.PolicyTypePublicKey:
			add(types.PublicKey(t))
		case types.PolicyTypeThreshold:
			for _, c := range t.Of {
				walk(c)
			}
		case types.PolicyTypeUnlockConditions:
			for _, k := range t.PublicKeys {
				var pk types.PublicKey
				copy(pk[:], k.Key)
				add(pk)
			}
		}
	}
	walk(p)
	return keys
}

func (s *c14Scn) modelLine() string {
	keys := c14Keys(s.P)
	var valid [][2]int
	seenSig := map[types.Signature]int{}
	for si, sg := range s.Sigs {
		if _, dup := seenSig[sg]; dup {
			continue // the model looks signatures up by value
		}
		seenSig[sg] = si
		for ki, k := range keys {
			if c14RealSigOK(k, s.SigH, sg) {
				valid = append(valid, [2]int{ki, si})
			}
		}
	}
	return s.line("policy-verify", keys, valid)
}

// ---------------------------------------------------------------- run state

type c14Run struct {
	c     *fw.Ctx
	res   *fw.Result
	f     *c14Fix
	batch []*c14Scn
	// simple ops (address / encode / decode / std), compared with c.Compare
	ops, outs    []string
	classNoted   bool
	addrSeen     map[string]bool
	addrOwner    map[types.Address]string // address -> normal form of the policy that owns it (collision oracle)
	slowestNs    int64
	slowestWhat  string
	acceptedSeen int
}

func (r *c14Run) add(s *c14Scn) {
	r.batch = append(r.batch, s)
	if len(r.batch) >= 40000 {
		r.flush()
	}
}

func (r *c14Run) simple(op, goOut string) {
	r.ops = append(r.ops, op)
	r.outs = append(r.outs, goOut)
	if len(r.ops) >= 40000 {
		r.flushSimple()
	}
}

func (r *c14Run) flushSimple() {
	if len(r.ops) > 0 {
		r.c.Compare(r.ops, r.outs)
	}
	r.ops, r.outs = nil, nil
}

func c14RootKind(p types.SpendPolicy) string {
	switch p.Type.(type) {
	case types.PolicyTypeAbove:
		return "above"
	case types.PolicyTypeAfter:
		return "after"
	case types.PolicyTypePublicKey:
		return "pk"
	case types.PolicyTypeHash:
		return "hash"
	case types.PolicyTypeThreshold:
		return "thresh"
	case types.PolicyTypeOpaque:
		return "opaque"
	case types.PolicyTypeUnlockConditions:
		return "uc"
	}
	return "invalid"
}

func (r *c14Run) flush() {
	b := r.batch
	r.batch = nil
	if len(b) == 0 {
		return
	}
	n := len(b)
	goOut := make([]string, n)
	want := make([]c14Verdict, n)
	lines := make([]string, n)
	durs := make([]int64, n)
	workers := runtime.GOMAXPROCS(0)
	if workers > 8 {
		workers = 8
	}
	var wg sync.WaitGroup
	for w := 0; w < workers; w++ {
		wg.Add(1)
		go func(w int) {
			defer wg.Done()
			for i := w; i < n; i += workers {
				t0 := time.Now()
				goOut[i] = c14GoVerify(b[i])
				durs[i] = time.Since(t0).Nanoseconds()
				want[i] = c14Meaning(b[i])
				if r.c.Model != nil && !b[i].NoModel {
					lines[i] = b[i].modelLine()
				}
			}
		}(w)
	}
	wg.Wait()
	res := r.res
	for i, s := range b {
		got := c14Verdict3(goOut[i])
		repr := s.line("scn", nil, nil)
		res.Eval(repr, got == "accept" || len(s.Sigs)+len(s.Pres) > 0)
		res.Count("family:" + s.Tag)
		res.Count("go:" + goOut[i])
		res.Count("oracle:" + want[i].String())
		res.Count("root:" + c14RootKind(s.P))
		if durs[i] > r.slowestNs {
			r.slowestNs, r.slowestWhat = durs[i], s.Tag
		}
		if got == "accept" {
			r.acceptedSeen++
			if r.acceptedSeen%997 == 1 {
				res.Sample(map[string]any{"family": s.Tag, "policy": c14Trunc(c14Show(s.P), 300), "sigs": len(s.Sigs), "preimages": len(s.Pres), "go": goOut[i], "oracle": want[i].String()})
			}
		}
		bad := func(key, what string) {
			line := lines[i]
			if line == "" {
				line = s.modelLine()
			}
			res.Violate(fw.Violation{
				Key: key, What: what,
				Replay:   map[string]any{"kind": "verify", "family": s.Tag, "line": line},
				Expected: want[i].String(), Observed: goOut[i],
			})
		}
		switch {
		case strings.HasPrefix(goOut[i], "panic"):
			bad("c14-verify-panic:"+s.Focus, "SpendPolicy.Verify panicked on "+c14Trunc(c14Show(s.P), 200))
		case want[i] == c14Unspecified:
		case got != want[i].String():
			key := "c14-verify-mismatch:" + s.Focus
			if got == "accept" {
				if strings.Contains(s.Tag, "surplus") {
					key = "c14-leftover-accepted"
				} else if strings.HasPrefix(s.Tag, "limit") {
					key = "c14-limit-not-enforced"
				} else if strings.Contains(s.Tag, "opaquified") {
					key = "c14-opaque-branch-usable"
				}
			}
			bad(key, fmt.Sprintf("Verify says %s but the policy's meaning says %s (family %s, policy %s)", goOut[i], want[i], s.Tag, c14Trunc(c14Show(s.P), 200)))
		}
		// complexity limits must reject quickly rather than hang
		if durs[i] > int64(20*time.Second) {
			bad("c14-limit-not-enforced", fmt.Sprintf("Verify took %v on a %s policy", time.Duration(durs[i]), s.Tag))
		}
	}
	if r.c.Model != nil {
		r.res.ModelUsed = true
		var mlines []string
		var midx []int
		for i := range b {
			if lines[i] != "" {
				mlines = append(mlines, lines[i])
				midx = append(midx, i)
			}
		}
		mouts, err := r.c.Model.Eval(mlines)
		if err != nil {
			res.Disagree(fw.Disagreement{Op: "(driver)", Model: err.Error(), Note: "model driver failed"})
			return
		}
		outs := make([]string, n)
		for j, i := range midx {
			outs[i] = mouts[j]
		}
		for _, i := range midx {
			res.ModelOps++
			if c14Verdict3(outs[i]) != c14Verdict3(goOut[i]) {
				res.Disagree(fw.Disagreement{Op: c14Trunc(lines[i], 4000), Go: goOut[i], Model: outs[i], Note: b[i].Tag})
			} else if outs[i] != goOut[i] {
				// error class: recorded, never by itself a disagreement
				res.Count("error-class-differs(recorded-only)")
				if !r.classNoted {
					r.classNoted = true
					res.Note("error class differs (recorded only): go=%s model=%s on %s", goOut[i], outs[i], c14Trunc(lines[i], 300))
				}
			}
		}
	}
}

func c14Trunc(s string, n int) string {
	if len(s) > n {
		return s[:n] + "…"
	}
	return s
}

// ---------------------------------------------------------------- policy templates (exhaustive part)

// a template: kinds only; keys / preimages are assigned by position when instantiated
type c14T struct {
	kind byte // a f k h o u t
	n    int
	kids []c14T
}

var c14LeafKinds = []byte{'a', 'f', 'k', 'h', 'o', 'u'}

// all templates of nesting depth <= depth with at most `breadth` children per threshold;
// thresholds take every n in 0..len(kids)+1
func c14Templates(depth, breadth int) []c14T {
	var out []c14T
	for _, k := range c14LeafKinds {
		out = append(out, c14T{kind: k})
	}
	if depth == 0 {
		return out
	}
	kids := c14Templates(depth-1, breadth)
	var lists func(k int) [][]c14T
	lists = func(k int) [][]c14T {
		if k == 0 {
			return [][]c14T{nil}
		}
		var res [][]c14T
		for _, pre := range lists(k - 1) {
			for _, c := range kids {
				l := append(append([]c14T{}, pre...), c)
				res = append(res, l)
			}
		}
		return res
	}
	for k := 0; k <= breadth; k++ {
		for _, l := range lists(k) {
			for n := 0; n <= k+1; n++ {
				out = append(out, c14T{kind: 't', n: n, kids: l})
			}
		}
	}
	return out
}

func (f *c14Fix) instantiate(t c14T) types.SpendPolicy {
	nk, nh := 0, 0
	var inst func(t c14T) types.SpendPolicy
	inst = func(t c14T) types.SpendPolicy {
		switch t.kind {
		case 'a':
			return types.PolicyAbove(c14H0)
		case 'f':
			return types.PolicyAfter(time.Unix(c14T0, 0))
		case 'k':
			nk++
			return types.PolicyPublicKey(f.pub[(nk-1)%len(f.pub)])
		case 'h':
			nh++
			return types.PolicyHash(f.hash[(nh-1)%len(f.hash)])
		case 'o':
			return types.SpendPolicy{Type: types.PolicyTypeOpaque(f.opq)}
		case 'u':
			nk++
			return types.SpendPolicy{Type: types.PolicyTypeUnlockConditions(types.StandardUnlockConditions(f.pub[(nk-1)%len(f.pub)]))}
		}
		var of []types.SpendPolicy
		for _, c := range t.kids {
			of = append(of, inst(c))
		}
		return types.PolicyThreshold(uint8(t.n), of)
	}
	return inst(t)
}

func c14Has(p types.SpendPolicy, kind string) bool {
	if c14RootKind(p) == kind {
		return true
	}
	if t, ok := p.Type.(types.PolicyTypeThreshold); ok {
		for _, c := range t.Of {
			if c14Has(c, kind) {
				return true
			}
		}
	}
	return false
}

// the height and time locks occurring in the revealed part of a policy
func c14Locks(p types.SpendPolicy) (hs []uint64, ts []int64) {
	switch t := p.Type.(type) {
	case types.PolicyTypeAbove:
		hs = append(hs, uint64(t))
	case types.PolicyTypeAfter:
		ts = append(ts, time.Time(t).Unix())
	case types.PolicyTypeUnlockConditions:
		hs = append(hs, t.Timelock)
	case types.PolicyTypeThreshold:
		for _, c := range t.Of {
			h2, t2 := c14Locks(c)
			hs, ts = append(hs, h2...), append(ts, t2...)
		}
	}
	return
}

func c14FlipSig(s types.Signature, bit int) types.Signature {
	s[(bit/8)%64] ^= 1 << (bit % 8)
	return s
}

// scenarios around one policy: locks at lock-1/lock/lock+1, witnesses valid / corrupted /
// missing / surplus / reordered
func (r *c14Run) scenariosFor(p types.SpendPolicy, fam string, full bool) {
	f := r.f
	sigs, pres := f.witnesses(p)
	base := func(tag, focus string) *c14Scn {
		return &c14Scn{P: p, Height: c14H0, Median: c14T0 + 1, SigH: f.sigH, Sigs: sigs, Pres: pres, Tag: fam + "/" + tag, Focus: focus}
	}
	root := c14RootKind(p)
	r.add(base("valid", root))
	// locks
	hs := []uint64{c14H0}
	ms := []int64{c14T0 + 1}
	if c14Has(p, "above") || c14Has(p, "uc") {
		hs = []uint64{c14H0 - 1, c14H0, c14H0 + 1}
	}
	if c14Has(p, "after") {
		ms = []int64{c14T0 - 1, c14T0, c14T0 + 1}
	}
	for _, h := range hs {
		for _, m := range ms {
			if h == c14H0 && m == c14T0+1 {
				continue
			}
			focus := "above"
			if h == c14H0 {
				focus = "after"
			}
			s := base("lock", focus)
			s.Height, s.Median = h, m
			r.add(s)
		}
	}
	if c14Has(p, "after") {
		// sub-second median timestamps: the model is second-resolution, so Go vs oracle only
		for _, mn := range [][2]int64{{c14T0, 1}, {c14T0, 999999999}, {c14T0 - 1, 999999999}} {
			s := base("lock-subsecond", "after")
			s.Median, s.MedianNs, s.NoModel = mn[0], mn[1], true
			r.add(s)
		}
	}
	if !full {
		return
	}
	capN := func(n int) int {
		if n > 3 {
			return 3
		}
		return n
	}
	cpS := func() []types.Signature { return append([]types.Signature(nil), sigs...) }
	cpP := func() [][32]byte { return append([][32]byte(nil), pres...) }
	for i := 0; i < capN(len(sigs)); i++ {
		s := base("sig-corrupt", "pk")
		s.Sigs = cpS()
		s.Sigs[i] = c14FlipSig(s.Sigs[i], 7*i+3)
		r.add(s)
		s = base("sig-missing", "pk")
		s.Sigs = append(cpS()[:i], sigs[i+1:]...)
		r.add(s)
		if i+1 < len(sigs) {
			s = base("sig-reordered", "pk")
			s.Sigs = cpS()
			s.Sigs[i], s.Sigs[i+1] = s.Sigs[i+1], s.Sigs[i]
			r.add(s)
		}
	}
	for i := 0; i < capN(len(pres)); i++ {
		s := base("pre-corrupt", "hash")
		s.Pres = cpP()
		s.Pres[i][(5*i)%32] ^= 0x40
		r.add(s)
		s = base("pre-missing", "hash")
		s.Pres = append(cpP()[:i], pres[i+1:]...)
		r.add(s)
		if i+1 < len(pres) {
			s = base("pre-reordered", "hash")
			s.Pres = cpP()
			s.Pres[i], s.Pres[i+1] = s.Pres[i+1], s.Pres[i]
			r.add(s)
		}
	}
	// surplus witnesses: a valid signature / a correct preimage too many, at the end and at the front
	s := base("sig-surplus", "pk")
	s.Sigs = append(cpS(), f.sig[0])
	r.add(s)
	s = base("sig-surplus-front", "pk")
	s.Sigs = append([]types.Signature{f.sig[1]}, sigs...)
	r.add(s)
	s = base("pre-surplus", "hash")
	s.Pres = append(cpP(), f.pre[0])
	r.add(s)
	if len(pres) > 0 {
		s = base("pre-surplus-front", "hash")
		s.Pres = append([][32]byte{f.pre[1]}, pres...)
		r.add(s)
	}
}

// ---------------------------------------------------------------- addresses

// all sub-policy positions (paths), preorder
func c14Paths(p types.SpendPolicy) [][]int {
	var out [][]int
	var walk func(p types.SpendPolicy, path []int)
	walk = func(p types.SpendPolicy, path []int) {
		if t, ok := p.Type.(types.PolicyTypeThreshold); ok {
			for i, c := range t.Of {
				q := append(append([]int{}, path...), i)
				out = append(out, q)
				walk(c, q)
			}
		}
	}
	walk(p, nil)
	return out
}

// replace the sub-policies at the given paths by their opaque form (deepest first)
func c14Opaquify(p types.SpendPolicy, paths [][]int) types.SpendPolicy {
	sort.Slice(paths, func(i, j int) bool { return len(paths[i]) > len(paths[j]) })
	var rep func(p types.SpendPolicy, path []int) types.SpendPolicy
	rep = func(p types.SpendPolicy, path []int) types.SpendPolicy {
		if len(path) == 0 {
			return types.PolicyOpaque(p)
		}
		t, ok := p.Type.(types.PolicyTypeThreshold)
		if !ok || path[0] >= len(t.Of) {
			return p // the position vanished under an earlier replacement
		}
		of := append([]types.SpendPolicy(nil), t.Of...)
		of[path[0]] = rep(of[path[0]], path[1:])
		return types.PolicyThreshold(t.N, of)
	}
	for _, q := range paths {
		p = rep(p, q)
	}
	return p
}

func (r *c14Run) addressChecks(p types.SpendPolicy, fam string, maxVariants int) {
	txt := c14Show(p)
	if r.addrSeen[txt] {
		return
	}
	r.addrSeen[txt] = true
	var addr types.Address
	if panicked, msg := fw.Recover(func() { addr = p.Address() }); panicked {
		r.res.Violate(fw.Violation{Key: "c14-address-panic", What: "Address() panicked: " + msg, Replay: map[string]any{"kind": "address", "policy": txt}})
		return
	}
	r.res.Eval("addr "+txt, true)
	r.res.Count("address:" + fam)
	r.simple("policy-address "+txt, fmt.Sprintf("%x", addr[:]))
	r.noteAddress(addr, p, "Address(), family "+fam)
	// (the statement is about SUB-policies: an opaque ROOT is a different policy with a
	// different address — PolicyOpaque(p).Address() hashes the opaque node itself)
	paths := c14Paths(p)
	if len(paths) == 0 {
		return
	}
	var subsets [][][]int
	if len(paths) <= 5 && (1<<len(paths)) <= maxVariants {
		for m := 1; m < 1<<len(paths); m++ {
			var sel [][]int
			for i, q := range paths {
				if m&(1<<i) != 0 {
					sel = append(sel, q)
				}
			}
			subsets = append(subsets, sel)
		}
	} else {
		for v := 0; v < maxVariants; v++ {
			var sel [][]int
			for _, q := range paths {
				if r.c.Rng.Intn(3) == 0 {
					sel = append(sel, q)
				}
			}
			if len(sel) == 0 {
				sel = [][]int{paths[r.c.Rng.Intn(len(paths))]}
			}
			subsets = append(subsets, sel)
		}
	}
	for vi, sel := range subsets {
		v := c14Opaquify(p, sel)
		va := v.Address()
		r.res.Count("address:opaquified-variant")
		r.res.Eval("addrv "+c14Show(v), true)
		if va != addr {
			r.res.Violate(fw.Violation{Key: "c14-address-changes-under-opaque",
				What:     fmt.Sprintf("replacing %d sub-policies by their opaque form changed the address", len(sel)),
				Replay:   map[string]any{"kind": "address", "policy": txt, "variant": c14Show(v)},
				Expected: fmt.Sprintf("%x", addr[:]), Observed: fmt.Sprintf("%x", va[:])})
		}
		if vi%4 == 0 {
			vt := c14Show(v)
			if !r.addrSeen[vt] {
				r.addrSeen[vt] = true
				r.simple("policy-address "+vt, fmt.Sprintf("%x", va[:]))
			}
		}
	}
}

// an accepted scenario must be rejected once any revealed branch is replaced by its opaque form
func (r *c14Run) opaqueUnusable(s *c14Scn) {
	paths := c14Paths(s.P)
	if len(paths) == 0 {
		o := *s
		o.P = types.PolicyOpaque(s.P)
		o.Tag = strings.SplitN(s.Tag, "/", 2)[0] + "/opaquified"
		o.Focus = "opaque"
		r.add(&o)
		return
	}
	for k := 0; k < 2 && k < len(paths); k++ {
		q := paths[r.c.Rng.Intn(len(paths))]
		o := *s
		o.P = c14Opaquify(s.P, [][]int{q})
		if c14Show(o.P) == c14Show(s.P) {
			continue // was already opaque
		}
		o.Tag = strings.SplitN(s.Tag, "/", 2)[0] + "/opaquified"
		o.Focus = "opaque"
		r.add(&o)
	}
}

// ---------------------------------------------------------------- legacy unlock conditions (exhaustive part)

func (r *c14Run) ucFamily() {
	f := r.f
	c := r.c
	unknownAlg := types.NewSpecifier("unknown")
	keyKinds := []byte{'E', 'D', 'N', 'T', 'S', 'L'}
	mk := func(kind byte, pos int) types.UnlockKey {
		switch kind {
		case 'E':
			return f.pub[pos].UnlockKey()
		case 'D':
			return f.pub[0].UnlockKey()
		case 'N':
			return types.UnlockKey{Algorithm: unknownAlg, Key: f.pub[pos][:]}
		case 'T':
			return types.UnlockKey{Algorithm: types.SpecifierEntropy, Key: f.pub[pos][:]}
		case 'S':
			return types.UnlockKey{Algorithm: types.SpecifierEd25519, Key: f.pub[pos][:16]}
		default:
			return types.UnlockKey{Algorithm: types.SpecifierEd25519, Key: append(append([]byte{}, f.pub[pos][:]...), 1, 2, 3, 4, 5, 6, 7, 8)}
		}
	}
	sigAlphabet := []types.Signature{f.sig[0], f.sig[1], f.sig[2], c14FlipSig(f.sig[0], 5)}
	maxSigs := 4
	var sigSeqs [][]types.Signature
	var gen func(pre []types.Signature, n int)
	gen = func(pre []types.Signature, n int) {
		sigSeqs = append(sigSeqs, append([]types.Signature(nil), pre...))
		if n == 0 {
			return
		}
		for _, s := range sigAlphabet {
			gen(append(pre, s), n-1)
		}
	}
	gen(nil, maxSigs)
	reqs := []uint64{0, 1, 2, 3, 4}
	if c.Thorough() {
		reqs = append(reqs, 255, 256, 1<<63, ^uint64(0))
	}
	var keyLists [][]types.UnlockKey
	var genK func(pre []types.UnlockKey, n int)
	genK = func(pre []types.UnlockKey, n int) {
		keyLists = append(keyLists, append([]types.UnlockKey(nil), pre...))
		if n == 0 {
			return
		}
		for _, k := range keyKinds {
			genK(append(pre, mk(k, len(pre))), n-1)
		}
	}
	genK(nil, 3)
	total := len(keyLists) * len(reqs) * len(sigSeqs)
	// quick: deterministic subsample (stride by seeded hash); thorough: everything
	keep := c.Budget(25000, total)
	r.res.Note("uc family: %d key lists x %d required counts x %d signature sequences = %d cases; running %d", len(keyLists), len(reqs), len(sigSeqs), total, min(keep, total))
	idx := 0
	for _, kl := range keyLists {
		for _, req := range reqs {
			for _, ss := range sigSeqs {
				idx++
				if keep < total && c.Rng.Intn(total) >= keep {
					continue
				}
				uc := types.UnlockConditions{Timelock: c14H0, PublicKeys: kl, SignaturesRequired: req}
				s := &c14Scn{P: types.SpendPolicy{Type: types.PolicyTypeUnlockConditions(uc)}, Height: c14H0, Median: c14T0, SigH: f.sigH, Sigs: ss, Tag: "uc-exhaustive/valid-or-not", Focus: "uc"}
				switch idx % 23 {
				case 0:
					s.Height = c14H0 - 1
					s.Tag = "uc-exhaustive/lock"
				case 1:
					s.Height = c14H0 + 1
					s.Tag = "uc-exhaustive/lock"
				case 2:
					s.Pres = [][32]byte{f.pre[0]}
					s.Tag = "uc-exhaustive/pre-surplus"
				}
				r.add(s)
			}
		}
	}
	_ = idx
	// addresses of unlock conditions: 0..40 keys (Merkle root shapes), odd key sizes
	for n := 0; n <= c.Budget(40, 300); n++ {
		var uc types.UnlockConditions
		uc.Timelock = uint64(c.Rng.Intn(3)) * uint64(c.Rng.Int63())
		uc.SignaturesRequired = uint64(c.Rng.Intn(n + 2))
		for i := 0; i < n; i++ {
			k := mk(keyKinds[c.Rng.Intn(len(keyKinds))], c.Rng.Intn(len(f.pub)))
			if c.Rng.Intn(5) == 0 {
				k.Key = make([]byte, c.Rng.Intn(70))
				c.Rng.Read(k.Key)
			}
			uc.PublicKeys = append(uc.PublicKeys, k)
		}
		p := types.SpendPolicy{Type: types.PolicyTypeUnlockConditions(uc)}
		r.addressChecks(p, "uc", 0)
		// the legacy derivation: the policy's address is the unlock hash
		if p.Address() != uc.UnlockHash() {
			r.res.Violate(fw.Violation{Key: "c14-standard-address-mismatch", What: "uc policy address differs from UnlockConditions.UnlockHash()", Replay: map[string]any{"kind": "address", "policy": c14Show(p)}})
		}
		// and as a (rejected) sub-policy its address still feeds the parent's
		r.addressChecks(types.PolicyThreshold(1, []types.SpendPolicy{p, types.PolicyAbove(5)}), "uc-as-child", 3)
	}
}

// ---------------------------------------------------------------- random policies

type c14Rand struct {
	r *c14Run
}

// a policy that is satisfiable by construction at (H0, T0+1) with its natural witnesses
func (g c14Rand) sat(depth, maxKids int, budget *int) types.SpendPolicy {
	c := g.r.c
	f := g.r.f
	*budget--
	k := c.Rng.Intn(10)
	if depth <= 0 || *budget <= 0 {
		k = c.Rng.Intn(6)
	}
	switch k {
	case 0:
		return types.PolicyAbove(c14H0 - uint64(c.Rng.Intn(3))*uint64(c.Rng.Intn(1000)))
	case 1:
		return types.PolicyAfter(time.Unix(c14T0-int64(c.Rng.Intn(3))*int64(c.Rng.Intn(100000)), 0))
	case 2, 3:
		return types.PolicyPublicKey(f.pub[c.Rng.Intn(len(f.pub))])
	case 4, 5:
		return types.PolicyHash(f.hash[c.Rng.Intn(len(f.hash))])
	}
	nk := c.Rng.Intn(maxKids + 1)
	of := make([]types.SpendPolicy, nk)
	n := 0
	for i := range of {
		if c.Rng.Intn(5) < 3 && n < 255 {
			of[i] = g.sat(depth-1, maxKids, budget)
			n++
		} else {
			of[i] = g.hidden(depth-1, maxKids, budget)
		}
	}
	return types.PolicyThreshold(uint8(n), of)
}

// an opaque child: usually PolicyOpaque of some policy
func (g c14Rand) hidden(depth, maxKids int, budget *int) types.SpendPolicy {
	c := g.r.c
	if c.Rng.Intn(3) == 0 {
		var a types.Address
		c.Rng.Read(a[:])
		return types.SpendPolicy{Type: types.PolicyTypeOpaque(a)}
	}
	b := 6
	return types.PolicyOpaque(g.any(min(depth, 2), min(maxKids, 3), &b))
}

// any policy at all (mostly unsatisfiable)
func (g c14Rand) any(depth, maxKids int, budget *int) types.SpendPolicy {
	c := g.r.c
	f := g.r.f
	*budget--
	k := c.Rng.Intn(11)
	if depth <= 0 || *budget <= 0 {
		k = c.Rng.Intn(8)
	}
	switch k {
	case 0:
		return types.PolicyAbove(c14H0 + uint64(c.Rng.Intn(3)) - 1)
	case 1:
		return types.PolicyAfter(time.Unix(c14T0+int64(c.Rng.Intn(3))-1, 0))
	case 2, 3:
		return types.PolicyPublicKey(f.pub[c.Rng.Intn(len(f.pub))])
	case 4:
		return types.PolicyHash(f.hash[c.Rng.Intn(len(f.hash))])
	case 5:
		var a types.Address
		c.Rng.Read(a[:])
		return types.SpendPolicy{Type: types.PolicyTypeOpaque(a)}
	case 6:
		var h types.Hash256
		c.Rng.Read(h[:])
		return types.PolicyHash(h)
	case 7:
		uc := types.UnlockConditions{Timelock: c14H0, SignaturesRequired: uint64(c.Rng.Intn(3))}
		for i := c.Rng.Intn(3); i > 0; i-- {
			uc.PublicKeys = append(uc.PublicKeys, f.pub[c.Rng.Intn(len(f.pub))].UnlockKey())
		}
		return types.SpendPolicy{Type: types.PolicyTypeUnlockConditions(uc)}
	}
	nk := c.Rng.Intn(maxKids + 1)
	of := make([]types.SpendPolicy, nk)
	for i := range of {
		of[i] = g.any(depth-1, maxKids, budget)
	}
	return types.PolicyThreshold(uint8(c.Rng.Intn(nk+2)), of)
}

func (r *c14Run) randomFamily() {
	c := r.c
	g := c14Rand{r}
	f := r.f
	n := c.Budget(10000, 100000)
	for i := 0; i < n; i++ {
		var p types.SpendPolicy
		fam := "random-sat"
		budget := 5 + c.Rng.Intn(60)
		switch c.Rng.Intn(4) {
		case 0:
			fam = "random-any"
			p = g.any(1+c.Rng.Intn(5), 1+c.Rng.Intn(6), &budget)
		default:
			p = g.sat(1+c.Rng.Intn(6), 1+c.Rng.Intn(7), &budget)
		}
		sigs, pres := f.witnesses(p)
		base := &c14Scn{P: p, Height: c14H0, Median: c14T0 + 1, SigH: f.sigH, Sigs: sigs, Pres: pres, Tag: fam + "/valid", Focus: c14RootKind(p)}
		r.add(base)
		if fam == "random-sat" {
			r.opaqueUnusable(base)
		}
		// one or two mutations
		for m := 0; m < 2; m++ {
			s := *base
			s.Sigs = append([]types.Signature(nil), sigs...)
			s.Pres = append([][32]byte(nil), pres...)
			switch c.Rng.Intn(10) {
			case 0:
				if len(s.Sigs) == 0 {
					continue
				}
				j := c.Rng.Intn(len(s.Sigs))
				s.Sigs[j] = c14FlipSig(s.Sigs[j], c.Rng.Intn(512))
				s.Tag, s.Focus = fam+"/sig-corrupt", "pk"
			case 1:
				if len(s.Pres) == 0 {
					continue
				}
				j := c.Rng.Intn(len(s.Pres))
				s.Pres[j][c.Rng.Intn(32)] ^= byte(1 << c.Rng.Intn(8))
				s.Tag, s.Focus = fam+"/pre-corrupt", "hash"
			case 2:
				if len(s.Sigs) == 0 {
					continue
				}
				j := c.Rng.Intn(len(s.Sigs))
				s.Sigs = append(s.Sigs[:j], s.Sigs[j+1:]...)
				s.Tag, s.Focus = fam+"/sig-missing", "pk"
			case 3:
				if len(s.Pres) == 0 {
					continue
				}
				j := c.Rng.Intn(len(s.Pres))
				s.Pres = append(s.Pres[:j], s.Pres[j+1:]...)
				s.Tag, s.Focus = fam+"/pre-missing", "hash"
			case 4:
				j := c.Rng.Intn(len(s.Sigs) + 1)
				s.Sigs = append(s.Sigs[:j], append([]types.Signature{f.sig[c.Rng.Intn(len(f.sig))]}, s.Sigs[j:]...)...)
				s.Tag, s.Focus = fam+"/sig-surplus", "pk"
			case 5:
				j := c.Rng.Intn(len(s.Pres) + 1)
				s.Pres = append(s.Pres[:j], append([][32]byte{f.pre[c.Rng.Intn(len(f.pre))]}, s.Pres[j:]...)...)
				s.Tag, s.Focus = fam+"/pre-surplus", "hash"
			case 6:
				if len(s.Sigs) < 2 {
					continue
				}
				a, b := c.Rng.Intn(len(s.Sigs)), c.Rng.Intn(len(s.Sigs))
				s.Sigs[a], s.Sigs[b] = s.Sigs[b], s.Sigs[a]
				s.Tag, s.Focus = fam+"/sig-reordered", "pk"
			case 7:
				if len(s.Pres) < 2 {
					continue
				}
				a, b := c.Rng.Intn(len(s.Pres)), c.Rng.Intn(len(s.Pres))
				s.Pres[a], s.Pres[b] = s.Pres[b], s.Pres[a]
				s.Tag, s.Focus = fam+"/pre-reordered", "hash"
			case 8: // lock-1 / lock / lock+1 around a height lock that occurs in the policy
				hs, _ := c14Locks(p)
				if len(hs) == 0 {
					continue
				}
				s.Height = hs[c.Rng.Intn(len(hs))] + uint64(c.Rng.Intn(3)) - 1
				s.Tag, s.Focus = fam+"/lock", "above"
			case 9:
				_, ts := c14Locks(p)
				if len(ts) == 0 {
					continue
				}
				s.Median = ts[c.Rng.Intn(len(ts))] + int64(c.Rng.Intn(3)) - 1
				s.Tag, s.Focus = fam+"/lock", "after"
			}
			r.add(&s)
		}
		if i%3 == 0 {
			r.addressChecks(p, "random", 4)
		}
		if i%5 == 0 {
			r.codecChecks(p, "random")
		}
	}
	// extreme timestamps (time.Time arithmetic wraps): model vs Go only
	for _, t := range []int64{1<<63 - 1, -1 << 63, 1<<63 - 62135596801, 1<<63 - 62135596800, -62135596800, -62135596801, 0, -1, 1 << 62, -(1 << 62)} {
		for _, m := range []int64{t - 1, t, t + 1, 0, c14T0, 1<<63 - 1, -1 << 63} {
			p := types.PolicyAfter(time.Unix(t, 0))
			r.add(&c14Scn{P: p, Height: 1, Median: m, SigH: f.sigH, Tag: "extreme-time/lock", Focus: "after"})
		}
	}
	for _, h := range []uint64{0, 1, 1<<63 - 1, 1 << 63, ^uint64(0) - 1, ^uint64(0)} {
		for _, e := range []uint64{h - 1, h, h + 1} {
			r.add(&c14Scn{P: types.PolicyAbove(h), Height: e, Median: c14T0, SigH: f.sigH, Tag: "extreme-height/lock", Focus: "above"})
		}
	}
}

// ---------------------------------------------------------------- complexity limits

func (r *c14Run) limitFamily() {
	f := r.f
	c := r.c
	leaf := func(i int) types.SpendPolicy {
		switch i % 4 {
		case 0:
			return types.PolicyAbove(c14H0)
		case 1:
			return types.PolicyHash(f.hash[i%len(f.hash)])
		case 2:
			return types.PolicyAfter(time.Unix(c14T0, 0))
		}
		return types.PolicyPublicKey(f.pub[i%len(f.pub)])
	}
	wide := func(k int, revealed int) types.SpendPolicy { // k children, the first `revealed` revealed
		of := make([]types.SpendPolicy, k)
		for i := range of {
			if i < revealed {
				of[i] = leaf(i)
			} else {
				of[i] = types.SpendPolicy{Type: types.PolicyTypeOpaque(f.opq)}
			}
		}
		return types.PolicyThreshold(uint8(revealed), of)
	}
	run := func(p types.SpendPolicy, tag string) {
		sigs, pres := f.witnesses(p)
		r.add(&c14Scn{P: p, Height: c14H0, Median: c14T0 + 1, SigH: f.sigH, Sigs: sigs, Pres: pres, Tag: "limit/" + tag, Focus: "thresh", NoModel: c14Depth(p) > 3000})
	}
	// breadth: 254, 255 accepted; 256.. rejected
	for _, k := range []int{253, 254, 255, 256, 257, 300, 511, 512, 1024, 1025, 5000} {
		for _, rev := range []int{0, 1, 7, 255} {
			if rev <= k {
				run(wide(k, rev), fmt.Sprintf("breadth-%d", min(k, 258)))
			}
		}
	}
	// total sub-policies: root with m children, each a threshold of w leaves: m + m*w
	nested := func(m, w, extra int) types.SpendPolicy {
		of := make([]types.SpendPolicy, 0, m+extra)
		for i := 0; i < m; i++ {
			of = append(of, wide(w, min(w, 2)))
		}
		for i := 0; i < extra; i++ {
			of = append(of, types.SpendPolicy{Type: types.PolicyTypeOpaque(f.opq)})
		}
		return types.PolicyThreshold(uint8(m), of)
	}
	run(nested(4, 255, 0), "total-1024")  // 4 + 4*255 = 1024: allowed
	run(nested(4, 255, 1), "total-1025")  // one more: too complex
	run(nested(8, 127, 0), "total-1024")  // 8 + 8*127 = 1024
	run(nested(8, 127, 1), "total-1025")
	run(nested(8, 127, 100), "total-1025")
	run(nested(32, 31, 0), "total-1024") // 32 + 32*31 = 1024
	run(nested(32, 31, 1), "total-1025")
	run(nested(33, 31, 0), "total-1025")
	run(nested(100, 100, 0), "total-10100")
	// chains: depth d, each level one revealed child
	chain := func(d int, tail types.SpendPolicy) types.SpendPolicy {
		p := tail
		for i := 0; i < d; i++ {
			p = types.PolicyThreshold(1, []types.SpendPolicy{p})
		}
		return p
	}
	for _, d := range []int{1, 31, 32, 33, 34, 100, 1023, 1024, 1025, 1026, 5000, 100000} {
		run(chain(d, types.PolicyAbove(c14H0)), fmt.Sprintf("chain-%d", min(d, 1027)))
		run(chain(d, types.PolicyPublicKey(f.pub[0])), fmt.Sprintf("chain-%d", min(d, 1027)))
	}
	// random large
	g := c14Rand{r}
	for i := 0; i < c.Budget(40, 1500); i++ {
		budget := 200 + c.Rng.Intn(1400)
		p := g.sat(2+c.Rng.Intn(12), 2+c.Rng.Intn(300), &budget)
		run(p, "random-large")
		if i%4 == 0 {
			r.addressChecks(p, "random-large", 2)
			r.codecChecks(p, "random-large")
		}
	}
	// the decoder's nesting limit: deep encodings must be rejected (not overflow the stack)
	for _, d := range []int{30, 31, 32, 33, 34, 35, 64, 1000, 200000} {
		p := chain(d, types.PolicyAbove(1))
		enc := c14Encode(p)
		var q types.SpendPolicy
		var err error
		t0 := time.Now()
		panicked, msg := fw.Recover(func() {
			dec := types.NewBufDecoder(enc)
			q.DecodeFrom(dec)
			err = dec.Err()
		})
		r.res.Eval(fmt.Sprintf("decode-depth %d", d), true)
		r.res.Count("limit:decode-depth")
		if panicked || (d >= 1000 && err == nil) || time.Since(t0) > 5*time.Second {
			r.res.Violate(fw.Violation{Key: "c14-limit-not-enforced", What: fmt.Sprintf("decoding a policy nested %d deep: err=%v panic=%v %s after %v", d, err, panicked, msg, time.Since(t0)),
				Replay: map[string]any{"kind": "decode-depth", "depth": d}})
		}
		if d <= 1000 {
			out := "reject"
			if err == nil {
				out = "ok " + c14Show(q)
			}
			r.simple("policy-decode "+fmt.Sprintf("%x", enc), out)
		}
	}
}

func c14Depth(p types.SpendPolicy) int {
	d := 0
	if t, ok := p.Type.(types.PolicyTypeThreshold); ok {
		for _, c := range t.Of {
			d = max(d, c14Depth(c))
		}
		d++
	}
	return d
}

// ---------------------------------------------------------------- codec

func c14Encode(p types.SpendPolicy) []byte {
	var buf strings.Builder
	e := types.NewEncoder(&buf)
	p.EncodeTo(e)
	e.Flush()
	return []byte(buf.String())
}

func c14GoDecode(b []byte) string {
	var q types.SpendPolicy
	var err error
	panicked, msg := fw.Recover(func() {
		d := types.NewBufDecoder(b)
		q.DecodeFrom(d)
		err = d.Err()
	})
	if panicked {
		return "panic:" + msg
	}
	if err != nil {
		return "reject"
	}
	return "ok " + c14Show(q)
}

func (r *c14Run) codecChecks(p types.SpendPolicy, fam string) {
	c := r.c
	enc := c14Encode(p)
	if len(enc) > 200000 {
		return
	}
	r.res.Count("codec:" + fam)
	r.simple("policy-encode "+c14Show(p), fmt.Sprintf("%x", enc))
	r.simple("policy-decode "+fmt.Sprintf("%x", enc), c14GoDecode(enc))
	// malformed stream: truncation, byte flips, random tails
	for m := 0; m < 3; m++ {
		b := append([]byte(nil), enc...)
		switch c.Rng.Intn(3) {
		case 0:
			b = b[:c.Rng.Intn(len(b)+1)]
		case 1:
			b[c.Rng.Intn(len(b))] ^= byte(1 << c.Rng.Intn(8))
		case 2:
			i := c.Rng.Intn(len(b))
			b[i] = byte(c.Rng.Intn(9))
		}
		if len(b) == 0 {
			continue
		}
		r.res.Count("codec:malformed")
		r.simple("policy-decode "+fmt.Sprintf("%x", b), c14GoDecode(b))
	}
}

// ---------------------------------------------------------------- standard addresses

func (r *c14Run) standardFamily() {
	c := r.c
	for i := 0; i < c.Budget(200, 5000); i++ {
		var pk types.PublicKey
		if i < len(r.f.pub) {
			pk = r.f.pub[i]
		} else {
			c.Rng.Read(pk[:])
		}
		sa, su := types.StandardAddress(pk), types.StandardUnlockHash(pk)
		pa := types.PolicyPublicKey(pk).Address()
		ua := types.SpendPolicy{Type: types.PolicyTypeUnlockConditions(types.StandardUnlockConditions(pk))}.Address()
		r.res.Eval(fmt.Sprintf("std %x", pk[:]), true)
		r.res.Count("address:standard")
		if sa != pa || su != ua {
			r.res.Violate(fw.Violation{Key: "c14-standard-address-mismatch", What: "StandardAddress/StandardUnlockHash differ from the general Address()",
				Replay: map[string]any{"kind": "std", "pk": fmt.Sprintf("%x", pk[:])}, Expected: fmt.Sprintf("%x %x", pa[:], ua[:]), Observed: fmt.Sprintf("%x %x", sa[:], su[:])})
		}
		r.simple(fmt.Sprintf("policy-std %x %s %s", pk[:], c14TimelockLeaf, c14SigsReqLeaf), fmt.Sprintf("%x %x", sa[:], su[:]))
		r.simple("policy-address "+c14Show(types.PolicyPublicKey(pk)), fmt.Sprintf("%x", sa[:]))
	}
}

// BLAKE2b(0x00 | le64(0)) and BLAKE2b(0x00 | le64(1)), recomputed here (not copied from hash.go)
var c14TimelockLeaf, c14SigsReqLeaf = func() (string, string) {
	leaf := func(v uint64) string {
		buf := make([]byte, 9)
		binary.LittleEndian.PutUint64(buf[1:], v)
		h := types.HashBytes(buf)
		return fmt.Sprintf("%x", h[:])
	}
	return leaf(0), leaf(1)
}()

// ---------------------------------------------------------------- main

func runC14(c *fw.Ctx) {
	res := c.Res
	res.Rule = "policy/witness scenarios: (1) EXHAUSTIVE over all policy trees of depth<=1 with <=3 children over leaf kinds {above,after,pk,hash,opaque,uc} and every threshold count 0..k+1, and of depth 2 with <=2 children per level (quick tier: deterministic subsample of depth 2; depth-2/breadth-3 sampled); each with its natural witnesses, every lock at lock-1/lock/lock+1, and each of the first 3 signatures/preimages corrupted, missing, swapped with its neighbour, plus surplus witnesses front and back; (2) legacy unlock conditions: all key lists of <=3 keys over {ed25519, duplicate, unknown algorithm, entropy, short, long} x required counts x all signature sequences of length <=4 over {sig0,sig1,sig2,invalid} (quick: subsample); (3) random satisfiable-by-construction and arbitrary trees with mutations; (4) complexity limits (255/256 children, 1024/1025 sub-policies, chains to depth 100000, decoder nesting 32/33); (5) addresses of every policy and of opaquified variants, standard addresses, binary codec incl. malformed stream; (6) directed family around the special cases of the address code (the conjuncts of the standard-unlock-hash fast path as read from the source: every unlock-conditions shape over algorithm {ed25519, zero, entropy, unknown, ...} x key length {0,31,32,33} x timelock {0,1} x required {0,1,2} x {0,1,2} keys): UnlockHash() and Address() vs model, no two different policies may share an address, and a v2 spend of an output at StandardUnlockHash(K)/StandardAddress(K) by any other policy must be refused by ValidateV2Transaction; (7) multi-input transactions: for every satisfiable policy shape two siacoin and two siafund outputs at its address, spent together with (good,good), (good,bad), (bad,good), (bad,same SatisfiedPolicy) for every witness variation (signature corrupt/zero/missing/surplus/stranger/reordered, preimage corrupt/missing/surplus, no witnesses, all-opaque threshold, other policy), siacoin/siafund mixes and inputs at different addresses: ValidateV2Transaction (ValidateBlock on a subsample) must equal the conjunction of the per-input verdicts (oracle) and the Lean model of the loop (policy-txn). A case is non-trivial when Verify accepts or at least one witness is supplied; distinct by full scenario."
	r := &c14Run{c: c, res: res, f: c14NewFix(c, 9), addrSeen: map[string]bool{}}

	if c.Replay != "" {
		r.replay(c.Replay)
		r.flush()
		r.flushSimple()
		return
	}

	// (1) exhaustive small trees
	t1 := c14Templates(1, 3)
	for _, t := range t1 {
		p := r.f.instantiate(t)
		r.scenariosFor(p, "exhaustive-d1b3", true)
		r.addressChecks(p, "exhaustive-d1b3", 8)
		r.codecChecks(p, "exhaustive")
	}
	res.CountN("templates:depth<=1,breadth<=3", len(t1))
	t2 := c14Templates(2, 2)
	keep := c.Budget(10000, len(t2))
	nd2 := 0
	for _, t := range t2 {
		if t.kind != 't' {
			continue
		}
		d2 := false
		for _, k := range t.kids {
			if k.kind == 't' {
				d2 = true
			}
		}
		if !d2 {
			continue // already covered by depth 1
		}
		if keep < len(t2) && c.Rng.Intn(len(t2)) >= keep {
			continue
		}
		nd2++
		p := r.f.instantiate(t)
		r.scenariosFor(p, "exhaustive-d2b2", true)
		if nd2%4 == 0 {
			r.addressChecks(p, "exhaustive-d2b2", 32)
		}
		if nd2%16 == 0 {
			r.codecChecks(p, "exhaustive")
		}
	}
	res.CountN("templates:depth2,breadth<=2(total)", len(t2))
	res.CountN("templates:depth2,breadth<=2(run)", nd2)
	res.Exhaustive = keep >= len(t2)
	// depth 2 / breadth 3: sampled (the full set has ~2e9 trees)
	d1 := c14Templates(1, 3)
	for i := 0; i < c.Budget(4000, 150000); i++ {
		kids := make([]c14T, 3)
		for j := range kids {
			kids[j] = d1[c.Rng.Intn(len(d1))]
			if c.Rng.Intn(3) == 0 {
				kids[j] = c14T{kind: c14LeafKinds[c.Rng.Intn(len(c14LeafKinds))]}
			}
		}
		// bias n towards the number of revealed children
		rev := 0
		for _, k := range kids {
			if k.kind != 'o' {
				rev++
			}
		}
		n := rev
		if c.Rng.Intn(4) == 0 {
			n = c.Rng.Intn(5)
		}
		p := r.f.instantiate(c14T{kind: 't', n: n, kids: kids})
		r.scenariosFor(p, "sampled-d2b3", i%4 == 0)
		if i%8 == 0 {
			r.addressChecks(p, "sampled-d2b3", 6)
		}
	}
	// (2)
	r.ucFamily()
	// (3)
	r.randomFamily()
	// (4)
	r.limitFamily()
	// (5)
	r.standardFamily()
	// (6) directed family around the special cases of the address code; collisions; end to end
	r.specialFamily()
	// (7) multi-input transactions through consensus.ValidateV2Transaction / ValidateBlock
	r.multiFamily()
	r.flush()
	r.flushSimple()
	res.Note("slowest single Verify: %v (%s)", time.Duration(r.slowestNs), r.slowestWhat)
}

func (r *c14Run) replay(path string) {
	b, err := readFile(path)
	if err != nil {
		r.res.Note("cannot read replay file: %v", err)
		return
	}
	var v struct {
		Replay struct {
			Kind    string
			Line    string
			Policy  string
			Variant string
			Pk      string
			Depth   int
		}
	}
	if err := json.Unmarshal(b, &v); err != nil {
		r.res.Note("cannot parse replay file: %v", err)
		return
	}
	switch v.Replay.Kind {
	case "verify":
		s, err := c14ParseLine(v.Replay.Line)
		if err != nil {
			r.res.Note("bad replay line: %v", err)
			return
		}
		s.Tag = "replay"
		if strings.Contains(string(b), "c14-leftover-accepted") {
			s.Tag = "replay/surplus"
		} else if strings.Contains(string(b), "c14-limit-not-enforced") {
			s.Tag = "limit/replay"
		} else if strings.Contains(string(b), "c14-opaque-branch-usable") {
			s.Tag = "replay/opaquified"
		}
		if i := strings.Index(string(b), "c14-verify-mismatch:"); i >= 0 {
			rest := string(b)[i+len("c14-verify-mismatch:"):]
			if j := strings.IndexAny(rest, "\"\\ "); j > 0 {
				s.Focus = rest[:j]
			}
		}
		r.add(s)
	case "address":
		p, err := c14Parse(v.Replay.Policy)
		if err != nil {
			r.res.Note("bad replay policy: %v", err)
			return
		}
		if v.Replay.Variant != "" {
			q, err := c14Parse(v.Replay.Variant)
			if err == nil && q.Address() != p.Address() {
				r.res.Violate(fw.Violation{Key: "c14-address-changes-under-opaque", What: "replayed: variant address differs",
					Replay: map[string]any{"kind": "address", "policy": v.Replay.Policy, "variant": v.Replay.Variant}, Expected: p.Address().String(), Observed: q.Address().String()})
			}
		}
		r.addressChecks(p, "replay", 64)
	case "collision", "e2e":
		r.specialFamily()
	case "multi":
		r.multiFamily()
	default:
		r.res.Note("replay kind %q: re-running the full family instead", v.Replay.Kind)
		r.standardFamily()
		r.limitFamily()
	}
}
