package props

import (
	"fmt"
	"math/big"
	"math/rand"

	"go.sia.tech/core/consensus"
	"go.sia.tech/core/types"

	"verif/harness/internal/chain"
	"verif/harness/internal/fw"
)

// c01MissedHostProbe: a directed history for the conservation claim. A v2
// contract is revised so that value moves from the host output to the renter
// output while MissedHostValue stays above the new host output; if that
// revision is accepted, the contract is left to expire and the expiration pays
// renter output + missed host value, which is more than the contract locked.
// The revision rule that forbids this is gated on the ephemeral-output fix
// height, so the history is played on networks where the gate is open from
// genesis (must be rejected) and on networks where it opens late (the documented
// legacy window — but the statement exempts only *ephemeral parents* there).
func c01MissedHostProbe(c *fw.Ctx) {
	res := c.Res
	for i := 0; i < c.Budget(6, 60); i++ {
		legacy := i%2 == 1
		seed := c.Seed*7000003 + int64(i)
		s := chain.NewSim(rand.New(rand.NewSource(seed)), "v2")
		if legacy {
			s.Net.HardforkV2.EphemeralOutputHeight = 1 << 40 // the rule never applies on this network
		}
		era := map[bool]string{false: "rule-active", true: "legacy-window"}[legacy]
		var target *types.V2FileContractElement
		for k := 0; k < 40 && target == nil; k++ {
			if _, _, err := s.Step(); err != nil {
				res.Note("missed-host probe: generator block rejected (%v)", err)
				break
			}
			for _, e := range s.St.SortedV2FC() {
				fc := e.V2FileContract
				if fc.ProofHeight >= s.ChildHeight() && !fc.MissedHostValue.IsZero() && fc.HostOutput.Value.Cmp(fc.TotalCollateral) >= 0 &&
					fc.TotalCollateral.Cmp(fc.MissedHostValue) < 0 {
					e := e.Copy()
					target = &e
					break
				}
			}
		}
		if target == nil {
			res.Count("missed-host-probe:no-suitable-contract")
			continue
		}
		cur := target.V2FileContract
		rev := cur
		rev.RevisionNumber++
		// host output drops to just below the missed host value (never below the total collateral: that rule is separate)
		newHost := cur.MissedHostValue.Sub(types.NewCurrency64(1))
		if newHost.Cmp(cur.TotalCollateral) < 0 {
			newHost = cur.TotalCollateral
		}
		moved := cur.HostOutput.Value.Sub(newHost)
		rev.HostOutput.Value = newHost
		rev.RenterOutput.Value = cur.RenterOutput.Value.Add(moved)
		s.SignContract(&rev, cur.RenterPublicKey, cur.HostPublicKey)
		miner := s.NewAddr(false)
		mk := func(txns ...types.V2Transaction) types.Block {
			b := types.Block{Timestamp: s.NextTimestamp(), V2: &types.V2BlockData{Transactions: txns}}
			s.Seal(&b, miner)
			return b
		}
		noSupp := consensus.V1BlockSupplement{}
		revBlock := mk(types.V2Transaction{FileContractRevisions: []types.V2FileContractRevision{{Parent: target.Copy(), Revision: rev}}})
		revHeight := s.ChildHeight()
		rp := map[string]any{"seed": seed, "era": era, "height": revHeight, "contract": fmt.Sprint(target.ID),
			"revision_block": fw.Hex(chain.Encode(types.V2Block(revBlock))),
			"before":         fmt.Sprintf("renter %v host %v missed-host %v", cur.RenterOutput.Value, cur.HostOutput.Value, cur.MissedHostValue),
			"after":          fmt.Sprintf("renter %v host %v missed-host %v", rev.RenterOutput.Value, rev.HostOutput.Value, rev.MissedHostValue)}
		var err error
		panicked, msg := fw.Recover(func() { _, err = s.Apply(revBlock, noSupp) })
		res.Eval(fmt.Sprintf("missed-host/%s/%d", era, seed), true)
		if panicked {
			res.Violate(fw.Violation{Key: "c10-validate-or-apply-panic", What: "panic on the missed-host revision block: " + msg, Replay: rp})
			continue
		}
		res.Count(fmt.Sprintf("missed-host-probe:%s:revision-accepted=%v", era, err == nil))
		if err != nil {
			continue
		}
		// let it expire untouched, then resolve as missed
		ok := true
		for s.ChildHeight() <= rev.ExpirationHeight && ok {
			if _, err := s.Apply(mk(), noSupp); err != nil {
				res.Note("missed-host probe: empty block rejected: %v", err)
				ok = false
			}
		}
		e, live := s.St.V2FC[target.ID]
		if !ok || !live {
			continue
		}
		expBlock := mk(types.V2Transaction{FileContractResolutions: []types.V2FileContractResolution{{Parent: e.Copy(), Resolution: &types.V2FileContractExpiration{}}}})
		var au consensus.ApplyUpdate
		if au, err = s.Apply(expBlock, noSupp); err != nil {
			res.Note("missed-host probe: expiration rejected: %v", err)
			continue
		}
		locked := new(big.Int).Add(rev.RenterOutput.Value.Big(), rev.HostOutput.Value.Big())
		paid := new(big.Int)
		for _, d := range au.SiacoinElementDiffs() {
			if d.Created && (d.SiacoinElement.ID == target.ID.V2RenterOutputID() || d.SiacoinElement.ID == target.ID.V2HostOutputID()) {
				paid.Add(paid, d.SiacoinElement.SiacoinOutput.Value.Big())
			}
		}
		rp["locked"], rp["paid"] = locked.String(), paid.String()
		rp["expiration_block"] = fw.Hex(chain.Encode(types.V2Block(expBlock)))
		if paid.Cmp(locked) > 0 {
			key := "c01-supply-created:revision-missed-host-above-host-output"
			if legacy {
				key = "c01-supply-created:legacy-window:revision-missed-host-above-host-output"
			}
			res.Violate(fw.Violation{Key: key, What: fmt.Sprintf("an accepted v2 revision left MissedHostValue above the host output; the later expiration paid %v H from a contract holding %v H", paid, locked),
				Replay: rp, Expected: "paid <= locked", Observed: fmt.Sprintf("surplus %v H", new(big.Int).Sub(paid, locked))})
		} else {
			res.Count("missed-host-probe:" + era + ":no-surplus")
		}
	}
}
