package props

// C16 section (b): range proofs — over a list of sector roots (exhaustive in
// (n,start,end)) and over the leaves of one sector.

import (
	"bytes"

	"fmt"
	"io"
	"math/rand"
	"strings"

	cblake "go.sia.tech/core/blake2b"
	rhp2 "go.sia.tech/core/rhp/v2"
	rhp4 "go.sia.tech/core/rhp/v4"
	"verif/harness/internal/fw"
)

// ------------------------------------------------------------------ sector-roots level

type c16RangeCorr struct {
	what     string
	proof    []c16H
	data     []c16H
	s, e     uint64
	root     c16H
	skipNote string
}

// rangeCase: one (roots,start,end) with 0 <= start < end <= n: honest proof is
// accepted, every single-element corruption is rejected (n stays true).
// modelSample < 0: all corruptions go to the model, otherwise that many.
func (t *c16task) rangeCase(roots []c16H, s, e uint64, cseed int64, modelSample int) {
	n := uint64(len(roots))
	if !(s < e && e <= n) {
		return
	}
	rng := rand.New(rand.NewSource(cseed))
	root := c16ORoot(roots)
	rootsHex := c16HexList(roots)
	name := fmt.Sprintf("n=%d start=%d end=%d", n, s, e)
	rep := func(what string) map[string]any {
		return map[string]any{"kind": "range", "roots": rootsHex, "start": s, "end": e, "cseed": cseed, "what": what}
	}
	t.eval("range "+name+" "+c16Hex(root), true)
	t.count("range:cases")
	switch {
	case e-s == n:
		t.count("range:shape:whole")
	case e-s == 1:
		t.count("range:shape:single")
	case s == 0:
		t.count("range:shape:prefix")
	case e == n:
		t.count("range:shape:suffix")
	default:
		t.count("range:shape:inner")
	}
	var proof, proof4 []c16H
	if p, msg := fw.Recover(func() { proof = rhp2.BuildSectorRangeProof(roots, s, e) }); p {
		t.violate("c16-panic:BuildSectorRangeProof", "BuildSectorRangeProof panicked on admissible "+name, rep("build"), "a proof", "panic: "+msg)
		t.model(fmt.Sprintf("rhp-buildrange %s %d %d", rootsHex, s, e), "panic")
		return
	}
	if p, _ := fw.Recover(func() { proof4 = rhp4.BuildSectorRootsProof(roots, s, e) }); p || !c16HashesEqual(proof, proof4) {
		t.violate("c16-v4-differs:BuildSectorRootsProof", "rhp4.BuildSectorRootsProof differs from rhp2.BuildSectorRangeProof on "+name, rep("build4"), c16HexList(proof), c16HexList(proof4))
	}
	t.model(fmt.Sprintf("rhp-buildrange %s %d %d", rootsHex, s, e), "ok "+c16HexList(proof))
	var size uint64
	fw.Recover(func() { size = rhp2.RangeProofSize(n, s, e) })
	if uint64(len(proof)) != size {
		t.violate("c16-proof-size:range", fmt.Sprintf("BuildSectorRangeProof(%s) has %d hashes, RangeProofSize says %d", name, len(proof), size), rep("size"), fmt.Sprint(size), fmt.Sprint(len(proof)))
	}
	verify := func(pr, data []c16H, s2, e2, n2 uint64, rt c16H) string {
		v2 := c16Verdict(func() bool { return rhp2.VerifySectorRangeProof(pr, data, s2, e2, n2, rt) })
		v4 := c16Verdict(func() bool { return rhp4.VerifySectorRootsProof(pr, data, n2, s2, e2, rt) })
		if v2 != v4 {
			t.violate("c16-v4-differs:VerifySectorRootsProof", "rhp4.VerifySectorRootsProof differs from rhp2.VerifySectorRangeProof near "+name, rep("verify4"), v2, v4)
		}
		return v2
	}
	modelVerify := func(pr, data []c16H, s2, e2, n2 uint64, rt c16H, got string) {
		t.model(fmt.Sprintf("rhp-verifyrange %s %s %d %d %d %s", c16HexList(pr), c16HexList(data), s2, e2, n2, c16Hex(rt)), c16OkB(got))
	}
	covered := roots[s:e]
	honest := verify(proof, covered, s, e, n, root)
	if honest != "1" {
		t.violate("c16-honest-proof-rejected:range", "VerifySectorRangeProof does not accept the built proof with the true root for "+name, rep("honest"), "1", honest)
	}
	modelVerify(proof, covered, s, e, n, root, honest)

	var cs []c16RangeCorr
	add := func(what string, pr, data []c16H, s2, e2 uint64, rt c16H) {
		cs = append(cs, c16RangeCorr{what: what, proof: pr, data: data, s: s2, e: e2, root: rt})
	}
	for i := range proof {
		add("proof-hash", c16WithFlipped(proof, i, rng), covered, s, e, root)
	}
	for i := range covered {
		add("covered-root", proof, c16WithFlipped(covered, i, rng), s, e, root)
	}
	if len(covered) >= 2 {
		i := rng.Intn(len(covered) - 1)
		sw := c16CopyHashes(covered)
		sw[i], sw[i+1] = sw[i+1], sw[i]
		if sw[i] != sw[i+1] {
			add("covered-swapped", proof, sw, s, e, root)
		}
	}
	add("root", proof, covered, s, e, c16Flip(root, rng))
	for i := range proof {
		add("proof-shorter", c16Without(proof, i), covered, s, e, root)
	}
	add("proof-longer-append", append(c16CopyHashes(proof), c16RandHash(rng)), covered, s, e, root)
	add("proof-longer-prepend", c16InsertAt(proof, 0, c16RandHash(rng)), covered, s, e, root)
	if len(proof) > 0 {
		i := rng.Intn(len(proof))
		add("proof-longer-dup", c16InsertAt(proof, i, proof[i]), covered, s, e, root)
		add("proof-longer-zero", append(c16CopyHashes(proof), c16H{}), covered, s, e, root)
	}
	// shifted / resized ranges with data of the right LENGTH but from the wrong place;
	// both with the original proof and with the genuine proof of the claimed range
	shift := func(what string, s2, e2 uint64, data []c16H) {
		if !(s2 < e2 && e2 <= n) || uint64(len(data)) != e2-s2 {
			return
		}
		if c16HashesEqual(data, roots[s2:e2]) {
			return // the claim would be true
		}
		add(what, proof, data, s2, e2, root)
		var np []c16H
		if p, _ := fw.Recover(func() { np = rhp2.BuildSectorRangeProof(roots, s2, e2) }); !p {
			add(what+"+its-proof", np, data, s2, e2, root)
		}
	}
	shift("shift+1", s+1, e+1, covered)
	if s > 0 {
		shift("shift-1", s-1, e-1, covered)
	}
	if e-s >= 2 {
		shift("end-1,data-from-wrong-side", s, e-1, covered[1:])
		shift("start+1,data-from-wrong-side", s+1, e, covered[:len(covered)-1])
	}
	if e < n {
		shift("end+1,extra-datum", s, e+1, append(c16CopyHashes(covered), c16RandHash(rng)))
	}
	if s > 0 {
		shift("start-1,extra-datum", s-1, e, append([]c16H{c16RandHash(rng)}, covered...))
	}

	toModel := map[int]bool{}
	if modelSample < 0 {
		for i := range cs {
			toModel[i] = true
		}
	} else {
		for _, i := range rng.Perm(len(cs)) {
			if len(toModel) >= modelSample {
				break
			}
			toModel[i] = true
		}
	}
	for i, c := range cs {
		got := verify(c.proof, c.data, c.s, c.e, n, c.root)
		t.eval(fmt.Sprintf("range-corrupt %s %s %d %d", name, c.what, i, cseed), true)
		t.count("range:corrupt:" + strings.SplitN(c.what, "+its", 2)[0])
		if got != "0" {
			m := rep(c.what)
			m["corrupt_proof"], m["corrupt_data"], m["corrupt_start"], m["corrupt_end"], m["corrupt_root"] = c16HexList(c.proof), c16HexList(c.data), c.s, c.e, c16Hex(c.root)
			t.violate("c16-accepts-corrupt:range:"+c.what,
				fmt.Sprintf("VerifySectorRangeProof verdict %s on a corrupted instance (%s) of %s, claimed range [%d,%d)", got, c.what, name, c.s, c.e), m, "0", got)
		}
		if toModel[i] {
			modelVerify(c.proof, c.data, c.s, c.e, n, c.root, got)
		}
	}
	// wrong element count: the statement treats n as trusted — only counted
	for _, n2 := range []uint64{n + 1, n - 1, 2 * n} {
		if n2 < e || n2 == n {
			continue
		}
		got := verify(proof, covered, s, e, n2, root)
		t.count("range:wrong-n(trusted-input,not-checked):verdict-" + got)
		if modelSample < 0 {
			modelVerify(proof, covered, s, e, n2, root, got)
		}
	}
}

func (r *c16run) secRange() {
	maxN := r.c.Budget(24, 40)
	type triple struct{ n, s, e int }
	var all []triple
	for n := 1; n <= maxN; n++ {
		for s := 0; s < n; s++ {
			for e := s + 1; e <= n; e++ {
				all = append(all, triple{n, s, e})
			}
		}
	}
	// a few larger, random
	for i := 0; i < r.c.Budget(60, 1500); i++ {
		n := maxN + 1 + r.c.Rng.Intn(r.c.Budget(200, 1200))
		s := r.c.Rng.Intn(n)
		e := s + 1 + r.c.Rng.Intn(n-s)
		if i%3 == 0 {
			e = s + 1 + r.c.Rng.Intn(min(n-s, 8))
		}
		all = append(all, triple{n, s, e})
	}
	const per = 24
	ntasks := (len(all) + per - 1) / per
	sampleAbove := 3
	r.parallel(ntasks, func(ti int, t *c16task) {
		for j := ti * per; j < (ti+1)*per && j < len(all); j++ {
			c := all[j]
			ms := sampleAbove
			if c.n <= 12 {
				ms = -1
			}
			if c.n > maxN {
				t.count("range:n:random-large")
			} else {
				t.count("range:n:exhaustive")
			}
			t.rangeCase(c16RandHashes(t.rng, c.n), uint64(c.s), uint64(c.e), t.rng.Int63(), ms)
		}
	})
	r.res.Exhaustive = true
	r.res.Sample(map[string]any{"section": "sector-range-proofs", "cases": len(all), "exhaustive_n_max": maxN})
	r.res.Note("sector-range proofs: exhaustive over all (n,start,end) with 0<=start<end<=n<=%d (%d cases), every single-element corruption of each", maxN, len(all))
	// inadmissible calls: only Go vs model
	r.serial(func(t *c16task) {
		for _, n := range []int{0, 1, 2, 5, 8} {
			roots := c16RandHashes(t.rng, n)
			rootsHex := c16HexList(roots)
			root := c16ORoot(roots)
			N := uint64(n)
			for _, se := range [][2]uint64{{0, 0}, {1, 1}, {N, N}, {0, N + 1}, {N, N + 1}, {2, 1}, {N + 1, N}, {N + 2, N + 3}, {0, 1}} {
				s, e := se[0], se[1]
				var pr []c16H
				out := "panic"
				if p, _ := fw.Recover(func() { pr = rhp2.BuildSectorRangeProof(roots, s, e) }); !p {
					out = "ok " + c16HexList(pr)
				}
				t.eval(fmt.Sprintf("range-inadmissible build %d %d %d", n, s, e), false)
				t.count("range:inadmissible-build:" + strings.Fields(out)[0])
				t.model(fmt.Sprintf("rhp-buildrange %s %d %d", rootsHex, s, e), out)
				for _, k := range []int{0, 1, 2, int(e - s)} {
					if k < 0 || k > 16 {
						continue
					}
					for _, pl := range []int{0, 1} {
						data := c16RandHashes(t.rng, k)
						proof := c16RandHashes(t.rng, pl)
						got := c16Verdict(func() bool { return rhp2.VerifySectorRangeProof(proof, data, s, e, N, root) })
						t.eval(fmt.Sprintf("range-inadmissible verify %d %d %d %d %d", n, s, e, k, pl), false)
						t.count("range:inadmissible-verify:" + got)
						t.model(fmt.Sprintf("rhp-verifyrange %s %s %d %d %d %s", c16HexList(proof), c16HexList(data), s, e, N, c16Hex(root)), c16OkB(got))
					}
				}
			}
		}
	})
}

// ------------------------------------------------------------------ leaf-in-sector level

const c16LPS = rhp2.LeavesPerSector

// c16LeafFold: consensus-style leaf-to-root evaluation.
func c16LeafFold(leaf c16H, index uint64, proof []c16H) c16H {
	h := leaf
	for i, p := range proof {
		if index&(1<<uint(i)) != 0 {
			h = c16ONode(p, h)
		} else {
			h = c16ONode(h, p)
		}
	}
	return h
}

// c16NewRPV ingests data into a fresh RangeProofVerifier.
func c16NewRPV(s, e uint64, rd io.Reader) (v *rhp2.RangeProofVerifier, n int64, err error, panicked bool) {
	panicked, _ = fw.Recover(func() {
		v = rhp2.NewRangeProofVerifier(s, e)
		n, err = v.ReadFrom(rd)
	})
	return
}

// c16RPVVerdict verifies on a COPY of the verifier (Verify consumes its roots).
func c16RPVVerdict(v *rhp2.RangeProofVerifier, proof []c16H, root c16H) string {
	if v == nil {
		return "panic"
	}
	cp := *v
	return c16Verdict(func() bool { return cp.Verify(proof, root) })
}

// leafRangeCase returns the model-format string `<proof>:<verdict>:<conv>`.
func (t *c16task) leafRangeCase(sec *c16Sector, s, e uint64, rng *rand.Rand) string {
	if !(s < e && e <= c16LPS) {
		// inadmissible: only Go vs model ("panic" must agree)
		t.eval(fmt.Sprintf("leafrange-inadmissible %s %d %d", sec.name(), s, e), false)
		p2, _ := fw.Recover(func() { rhp2.BuildProof(sec.data, s, e, nil) })
		p4, _ := fw.Recover(func() { rhp4.BuildSectorProof(sec.data[:4096], s, e, sec.cache) })
		p5, _ := fw.Recover(func() { rhp4.SectorSubtreeRange(s, e) })
		t.count(fmt.Sprintf("leafrange:inadmissible:panics=%v/%v/%v", p2, p4, p5))
		if p2 && p4 && p5 {
			return "panic"
		}
		return fmt.Sprintf("no-panic(BuildProof=%v,BuildSectorProof=%v,SectorSubtreeRange=%v)", !p2, !p4, !p5)
	}
	name := fmt.Sprintf("%s leaves [%d,%d)", sec.name(), s, e)
	rep := func(what string) map[string]any {
		return map[string]any{"kind": "leafrange", "gkind": sec.kind, "gseed": sec.seed, "start": s, "end": e, "what": what}
	}
	t.eval("leafrange "+name, true)
	t.count("leafrange:cases")
	switch {
	case e-s == 1:
		t.count("leafrange:shape:single-leaf")
	case e-s == c16LPS:
		t.count("leafrange:shape:whole-sector")
	case e-s < 64:
		t.count("leafrange:shape:<64-leaves")
	case e-s < 8192:
		t.count("leafrange:shape:64..8191-leaves")
	default:
		t.count("leafrange:shape:>=8192-leaves")
	}
	data := sec.data[64*s : 64*e]
	root := sec.root
	var p2, p4 []c16H
	if p, msg := fw.Recover(func() { p2 = rhp2.BuildProof(sec.data, s, e, nil) }); p {
		t.violate("c16-panic:BuildProof", "BuildProof panicked on admissible "+name, rep("build"), "a proof", "panic: "+msg)
		return "panic"
	}
	if sec.cache != nil {
		if p, msg := fw.Recover(func() {
			a, b := rhp4.SectorSubtreeRange(s, e)
			p4 = rhp4.BuildSectorProof(sec.data[64*a:64*b], s, e, sec.cache)
		}); p {
			t.violate("c16-panic:BuildSectorProof", "BuildSectorProof panicked on admissible "+name, rep("build4"), "a proof", "panic: "+msg)
		} else if !c16HashesEqual(p2, p4) {
			t.violate("c16-cached-neq-uncached", "rhp4.BuildSectorProof (cached subtrees) differs from rhp2.BuildProof on "+name, rep("build4"), c16HexList(p2), c16HexList(p4))
		}
	}
	if want := rhp2.RangeProofSize(c16LPS, s, e); uint64(len(p2)) != want {
		t.violate("c16-proof-size:leafrange", fmt.Sprintf("BuildProof(%s) has %d hashes, RangeProofSize says %d", name, len(p2), want), rep("size"), fmt.Sprint(want), fmt.Sprint(len(p2)))
	}
	base, nread, err, pan := c16NewRPV(s, e, bytes.NewReader(data))
	honest := "panic"
	if !pan && err == nil && nread == int64(len(data)) {
		honest = c16RPVVerdict(base, p2, root)
	}
	if honest != "1" {
		t.violate("c16-honest-proof-rejected:leafrange", "RangeProofVerifier does not accept BuildProof's proof with the true root for "+name, rep("honest"),
			"1", fmt.Sprintf("%s (ReadFrom n=%d err=%v panic=%v)", honest, nread, err, pan))
	}
	reject := func(what string, got string) {
		t.eval("leafrange-corrupt "+name+" "+what, true)
		t.count("leafrange:corrupt:" + strings.SplitN(what, "#", 2)[0])
		if got != "0" {
			t.violate("c16-accepts-corrupt:leafrange:"+strings.SplitN(what, "#", 2)[0], fmt.Sprintf("RangeProofVerifier verdict %s on a corrupted instance (%s) of %s", got, what, name), rep(what), "0", got)
		}
	}
	smallModel := e-s <= 256 && t.r.c.Model != nil && rng.Intn(3) == 0
	rpvModel := func(proof []c16H, d []byte, s2, e2 uint64, rt c16H, got string) {
		if smallModel && got != "panic" {
			t.modelC(fmt.Sprintf("rhp-rpv %d %s %s %d %d %s", c16LPS, c16HexList(proof), c16HexData(d), s2, e2, c16Hex(rt)), got, 200)
		}
	}
	rpvModel(p2, data, s, e, root, honest)
	if base != nil {
		for i := range p2 {
			bad := c16WithFlipped(p2, i, rng)
			got := c16RPVVerdict(base, bad, root)
			reject(fmt.Sprintf("proof-hash#%d", i), got)
			if i == 0 || i == len(p2)-1 {
				rpvModel(bad, data, s, e, root, got)
			}
		}
		badRoot := c16Flip(root, rng)
		got := c16RPVVerdict(base, p2, badRoot)
		reject("root", got)
		rpvModel(p2, data, s, e, badRoot, got)
		if len(p2) > 0 {
			reject("proof-shorter#first", c16RPVVerdict(base, p2[1:], root))
			reject("proof-shorter#last", c16RPVVerdict(base, p2[:len(p2)-1], root))
			i := rng.Intn(len(p2))
			reject("proof-shorter#any", c16RPVVerdict(base, c16Without(p2, i), root))
			reject("proof-longer#dup", c16RPVVerdict(base, c16InsertAt(p2, i, p2[i]), root))
		}
		longer := append(c16CopyHashes(p2), c16RandHash(rng))
		got = c16RPVVerdict(base, longer, root)
		reject("proof-longer#append", got)
		rpvModel(longer, data, s, e, root, got)
		reject("proof-longer#prepend", c16RPVVerdict(base, c16InsertAt(p2, 0, c16RandHash(rng)), root))
	}
	big := e-s > 16384
	// covered data altered
	nd := 2
	if big && !t.r.c.Thorough() {
		nd = 1
	}
	for k := 0; k < nd; k++ {
		off := rng.Intn(len(data))
		if k == 1 {
			off = len(data) - 1 - rng.Intn(64)
		}
		flipped := []byte{data[off] ^ (1 << uint(rng.Intn(8)))}
		v, _, err, pan := c16NewRPV(s, e, io.MultiReader(bytes.NewReader(data[:off]), bytes.NewReader(flipped), bytes.NewReader(data[off+1:])))
		got := "panic"
		if !pan && err == nil {
			got = c16RPVVerdict(v, p2, root)
		}
		reject("data-byte", got)
		if smallModel {
			d2 := append([]byte(nil), data...)
			d2[off] = flipped[0]
			rpvModel(p2, d2, s, e, root, got)
		}
	}
	if e-s >= 2 { // one covered leaf missing from the stream
		v, _, err, pan := c16NewRPV(s, e, bytes.NewReader(data[:len(data)-64]))
		got := "panic"
		if !pan && err == nil {
			got = c16RPVVerdict(v, p2, root)
		} else if !pan {
			got = "0" // ReadFrom refused
		}
		reject("data-truncated", got)
	}
	// shifted range, same data (and the proof of the claimed range as well)
	if !big || rng.Intn(4) == 0 {
		for _, d := range []int64{1, -1} {
			s2, e2 := uint64(int64(s)+d), uint64(int64(e)+d)
			if int64(s)+d < 0 || e2 > c16LPS {
				continue
			}
			if bytes.Equal(data, sec.data[64*s2:64*e2]) {
				t.count("leafrange:shift-skipped(claim-would-be-true)")
				continue
			}
			v, _, err, pan := c16NewRPV(s2, e2, bytes.NewReader(data))
			if pan || err != nil {
				reject("shift#readfrom", "panic")
				continue
			}
			got := c16RPVVerdict(v, p2, root)
			reject(fmt.Sprintf("shift%+d", d), got)
			rpvModel(p2, data, s2, e2, root, got)
			if sec.cache != nil {
				var np []c16H
				if p, _ := fw.Recover(func() {
					a, b := rhp4.SectorSubtreeRange(s2, e2)
					np = rhp4.BuildSectorProof(sec.data[64*a:64*b], s2, e2, sec.cache)
				}); !p {
					got := c16RPVVerdict(v, np, root)
					reject(fmt.Sprintf("shift%+d+its-proof", d), got)
					rpvModel(np, data, s2, e2, root, got)
				}
			}
		}
	}
	// streaming: the verdict does not depend on how the data arrives
	readers := c16Readers(rng, e-s <= 2048)
	for _, nr := range readers {
		if nr.name == "whole" || (rng.Intn(4) != 0 && !(e-s <= 64)) {
			continue
		}
		v, n, err, pan := c16NewRPV(s, e, nr.mk(data))
		got := "panic"
		if !pan && err == nil && n == int64(len(data)) {
			got = c16RPVVerdict(v, p2, root)
		}
		t.eval("leafrange-stream "+name+" "+nr.name, true)
		t.count("leafrange:stream:" + nr.name)
		if got != "1" {
			t.violate("c16-honest-proof-rejected:leafrange-streaming", fmt.Sprintf("RangeProofVerifier fed through reader %q rejects the honest proof for %s", nr.name, name), rep("stream:"+nr.name), "1",
				fmt.Sprintf("%s (n=%d err=%v)", got, n, err))
		} else if len(p2) > 0 {
			reject("stream-proof-hash#"+nr.name, c16RPVVerdict(v, c16WithFlipped(p2, rng.Intn(len(p2)), rng), root))
		}
	}
	conv := "-"
	if e == s+1 {
		conv = t.singleLeaf(sec, s, p2, rng, rep)
	}
	return c16HexList(p2) + ":" + honest + ":" + conv
}

// singleLeaf: VerifyLeafProof and ConvertProofOrdering for leaf s; returns the
// converted proof in model format.
func (t *c16task) singleLeaf(sec *c16Sector, s uint64, proof []c16H, rng *rand.Rand, rep func(string) map[string]any) string {
	name := fmt.Sprintf("%s leaf %d", sec.name(), s)
	var leaf [64]byte
	copy(leaf[:], sec.data[64*s:])
	root := sec.root
	vl := func(pr []c16H, lf [64]byte, idx uint64, rt c16H) string {
		return c16Verdict(func() bool { return rhp4.VerifyLeafProof(pr, lf, idx, rt) })
	}
	if got := vl(proof, leaf, s, root); got != "1" {
		t.violate("c16-honest-proof-rejected:VerifyLeafProof", "VerifyLeafProof rejects BuildProof's single-leaf proof for "+name, rep("leafproof"), "1", got)
	}
	rej := func(what, got string) {
		t.eval("leafproof-corrupt "+name+" "+what, true)
		t.count("leafproof:corrupt:" + strings.SplitN(what, "#", 2)[0])
		if got != "0" {
			t.violate("c16-accepts-corrupt:leafproof:"+strings.SplitN(what, "#", 2)[0], fmt.Sprintf("VerifyLeafProof verdict %s on a corrupted instance (%s) of %s", got, what, name), rep("leafproof:"+what), "0", got)
		}
	}
	for i := range proof {
		rej(fmt.Sprintf("proof-hash#%d", i), vl(c16WithFlipped(proof, i, rng), leaf, s, root))
	}
	bl := leaf
	bl[rng.Intn(64)] ^= 1 << uint(rng.Intn(8))
	rej("leaf-byte", vl(proof, bl, s, root))
	rej("root", vl(proof, leaf, s, c16Flip(root, rng)))
	if len(proof) > 0 {
		rej("proof-shorter", vl(c16Without(proof, rng.Intn(len(proof))), leaf, s, root))
	}
	rej("proof-longer", vl(append(c16CopyHashes(proof), c16RandHash(rng)), leaf, s, root))
	for _, d := range []int64{1, -1} {
		s2 := int64(s) + d
		if s2 < 0 || s2 >= c16LPS {
			continue
		}
		if bytes.Equal(leaf[:], sec.data[64*s2:64*s2+64]) {
			continue // claim true
		}
		rej(fmt.Sprintf("index%+d", d), vl(proof, leaf, uint64(s2), root))
	}
	// ConvertProofOrdering + leaf-to-root fold
	var cv []c16H
	if p, msg := fw.Recover(func() { cv = rhp2.ConvertProofOrdering(c16CopyHashes(proof), s) }); p {
		t.violate("c16-panic:ConvertProofOrdering", "ConvertProofOrdering panicked on the honest proof of "+name, rep("convert"), "a proof", "panic: "+msg)
		return "panic"
	}
	t.eval("convert "+name, true)
	t.count("leafproof:convert-ordering")
	if got := c16LeafFold(c16OLeaf(leaf[:]), s, cv); got != root || len(cv) != len(proof) {
		t.violate("c16-honest-proof-rejected:ConvertProofOrdering", "leaf-to-root fold over ConvertProofOrdering(proof) does not give the sector root for "+name, rep("convert"), c16Hex(root), c16Hex(got))
	}
	t.modelC(fmt.Sprintf("rhp-convert %s %d", c16HexList(proof), s), "ok "+c16HexList(cv), 10)
	t.modelC(fmt.Sprintf("rhp-l2r %s %d %s", c16Hex(cblake.SumLeaf(&leaf)), s, c16HexList(cv)), c16Hex(root), 40)
	if len(cv) > 0 {
		i := rng.Intn(len(cv))
		if got := c16LeafFold(c16OLeaf(leaf[:]), s, c16WithFlipped(cv, i, rng)); got == root {
			t.violate("c16-accepts-corrupt:leaf-fold", "leaf-to-root fold accepts a corrupted converted proof for "+name, rep("convert-corrupt"), "different root", "same root")
		}
	}
	return c16HexList(cv)
}

// leafRangeBatch runs up to ~20 ranges of one sector and (optionally) queues the
// single `rhp-sector` model line covering them.
func (t *c16task) leafRangeBatch(sec *c16Sector, ranges [][2]uint64, cseed int64, withModel bool) {
	rng := rand.New(rand.NewSource(cseed))
	outs := make([]string, len(ranges))
	var args []string
	for i, se := range ranges {
		outs[i] = t.leafRangeCase(sec, se[0], se[1], rng)
		args = append(args, fmt.Sprint(se[0]), fmt.Sprint(se[1]))
	}
	if withModel && len(ranges) > 0 {
		t.modelC(fmt.Sprintf("rhp-sector %d %d %d %s", sec.kind, sec.seed, c16LPS, strings.Join(args, " ")),
			c16Hex(sec.goRt)+" "+strings.Join(outs, ","), 200000+60000*len(ranges))
	}
}

func c16LeafRanges(rng *rand.Rand, step int, gridPairs, nRandom, nSingles int) [][2]uint64 {
	ptsSet := map[int]bool{}
	for p := 0; p <= c16LPS; p += step {
		for _, d := range []int{-1, 0, 1} {
			if q := p + d; q >= 0 && q <= c16LPS {
				ptsSet[q] = true
			}
		}
	}
	var pts []int
	for p := 0; p <= c16LPS; p++ {
		if ptsSet[p] {
			pts = append(pts, p)
		}
	}
	var out [][2]uint64
	for i := range pts {
		for j := i + 1; j < len(pts); j++ {
			out = append(out, [2]uint64{uint64(pts[i]), uint64(pts[j])})
		}
	}
	if gridPairs >= 0 && gridPairs < len(out) {
		rng.Shuffle(len(out), func(i, j int) { out[i], out[j] = out[j], out[i] })
		out = out[:gridPairs]
	}
	for i := 0; i < nRandom; i++ {
		s := rng.Intn(c16LPS)
		var e int
		switch i % 4 {
		case 0:
			e = s + 1 + rng.Intn(c16LPS-s)
		case 1:
			e = s + 1 + rng.Intn(min(c16LPS-s, 70))
		case 2:
			e = s + 1 + rng.Intn(min(c16LPS-s, 3000))
		default: // aligned subtree
			sz := 1 << uint(rng.Intn(16))
			s = s / sz * sz
			e = s + sz
		}
		out = append(out, [2]uint64{uint64(s), uint64(e)})
	}
	singles := []int{0, 1, 2, 3, 63, 64, 65, 4095, 4096, 32767, 32768, 43690, 21845, 65534, 65535}
	for i := 0; i < nSingles; i++ {
		singles = append(singles, rng.Intn(c16LPS))
	}
	for _, s := range singles {
		out = append(out, [2]uint64{uint64(s), uint64(s + 1)})
	}
	rng.Shuffle(len(out), func(i, j int) { out[i], out[j] = out[j], out[i] })
	// inadmissible ranges ride in the first (always modelled) batch
	bad := [][2]uint64{{5, 5}, {10, 3}, {0, c16LPS + 1}, {c16LPS, c16LPS + 1}, {c16LPS, c16LPS}, {uint64(rng.Intn(c16LPS)), 0}}
	out = append(bad[:2+rng.Intn(5)], out...)
	return out
}

func (r *c16run) secSectors() {
	nsec := r.c.Budget(4, 40)
	type sspec struct {
		kind int
		seed uint64
	}
	specs := make([]sspec, nsec)
	for i := range specs {
		k := i % 4
		if i >= 4 && k == 0 {
			k = 1 + r.c.Rng.Intn(3)
		}
		specs[i] = sspec{k, uint64(r.c.Rng.Uint32())}
	}
	specs[0].seed = 0
	const wave = 8
	const perBatch = 20
	modelBatches := r.c.Budget(5, 4)
	total := 0
	for w0 := 0; w0 < nsec; w0 += wave {
		w1 := min(w0+wave, nsec)
		secs := make([]*c16Sector, w1-w0)
		r.parallel(len(secs), func(i int, t *c16task) {
			secs[i] = c16NewSector(specs[w0+i].kind, specs[w0+i].seed)
			t.sectorRootCase(secs[i])
		})
		type batch struct {
			sec    *c16Sector
			ranges [][2]uint64
			model  bool
		}
		var batches []batch
		for i, sec := range secs {
			var rs [][2]uint64
			switch {
			case !r.c.Thorough():
				rs = c16LeafRanges(r.c.Rng, 8192, -1, 40, 8)
			case w0+i < 6:
				rs = c16LeafRanges(r.c.Rng, 4096, -1, 120, 30)
			default:
				rs = c16LeafRanges(r.c.Rng, 4096, 150, 60, 15)
			}
			total += len(rs)
			for b := 0; b*perBatch < len(rs); b++ {
				batches = append(batches, batch{sec, rs[b*perBatch : min((b+1)*perBatch, len(rs))], b < modelBatches})
			}
		}
		r.parallel(len(batches), func(i int, t *c16task) {
			b := batches[i]
			t.leafRangeBatch(b.sec, b.ranges, t.rng.Int63(), b.model)
		})
	}
	r.res.Sample(map[string]any{"section": "sectors", "sectors": nsec, "leaf_ranges": total})
}
