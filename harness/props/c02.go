package props

// C02 — No double spend or double resolution, within or across blocks and versions.
//
// Go side: (a) along every generated chain the consumed element ids never repeat
// (oracle over the public diffs); (b) adversarial blocks: take a valid block and add
// a second use of an element at another place — same transaction, another
// transaction of the block (v1, v2, v1-then-v2), outputs created and spent inside
// the block, the next block with the maintained proof of the already-spent leaf, and
// a v1 parent id naming an element of another kind — re-sign, re-seal (payout,
// commitment, nonce), and require ValidateBlock to reject. Accepted blocks and every
// mutant are also run through the Lean ledger model.

import (
	"fmt"
	"math/rand"
	"sort"

	"go.sia.tech/core/consensus"
	"go.sia.tech/core/types"
	"verif/harness/internal/chain"
	"verif/harness/internal/fw"
)

func init() { fw.Register("C02", runC02) }

type mutant struct {
	kind  string
	block types.Block
	supp  consensus.V1BlockSupplement
}

func cloneV1(t types.Transaction) types.Transaction {
	var out types.Transaction
	out.DecodeFrom(types.NewBufDecoder(chain.Encode(t)))
	return out
}

func cloneV2(t types.V2Transaction) types.V2Transaction { return t.DeepCopy() }

func usesV1(t types.Transaction) string {
	switch {
	case len(t.SiacoinInputs) > 0 && len(t.FileContractRevisions) == 0 && len(t.SiafundInputs) == 0:
		return "v1-siacoin"
	case len(t.SiafundInputs) > 0:
		return "v1-siafund"
	case len(t.FileContractRevisions) > 0:
		return "v1-revision"
	case len(t.StorageProofs) > 0:
		return "v1-proof"
	}
	return ""
}

func usesV2(t types.V2Transaction) string {
	switch {
	case len(t.FileContractResolutions) > 0:
		return "v2-resolution"
	case len(t.FileContractRevisions) > 0:
		return "v2-revision"
	case len(t.SiafundInputs) > 0:
		return "v2-siafund"
	case len(t.SiacoinInputs) > 0:
		for _, in := range t.SiacoinInputs {
			if in.Parent.StateElement.LeafIndex == types.UnassignedLeafIndex {
				return "v2-ephemeral"
			}
		}
		return "v2-siacoin"
	}
	return ""
}

// doubleUseMutants builds blocks that differ from p only by one additional use of
// an element that p already uses.
func doubleUseMutants(s *chain.Sim, p chain.BlockPlan, rng *rand.Rand) []mutant {
	var out []mutant
	b := p.Block
	// --- another transaction of the same block repeats all uses of transaction i
	for i, t := range b.Transactions {
		kind := usesV1(t)
		if kind == "" {
			continue
		}
		mb, ms := chain.DeepCopyBlock(b), chain.CopySupp(p.Supp)
		c := cloneV1(t)
		c.ArbitraryData = append(c.ArbitraryData, []byte(fmt.Sprintf("second use %d", rng.Int63())))
		if !s.ResignV1(&c) {
			continue
		}
		mb.Transactions = append(mb.Transactions, c)
		ms.Transactions = append(ms.Transactions, chain.CopySupp(consensus.V1BlockSupplement{Transactions: []consensus.V1TransactionSupplement{p.Supp.Transactions[i]}}).Transactions[0])
		s.Seal(&mb, p.Miner)
		out = append(out, mutant{kind + ":other-txn", mb, ms})
		// the very same transaction (same id, same signatures) listed twice, fees paid out twice
		mb2, ms2 := chain.DeepCopyBlock(b), chain.CopySupp(p.Supp)
		mb2.Transactions = append(mb2.Transactions, cloneV1(t))
		ms2.Transactions = append(ms2.Transactions, chain.CopySupp(consensus.V1BlockSupplement{Transactions: []consensus.V1TransactionSupplement{p.Supp.Transactions[i]}}).Transactions[0])
		s.Seal(&mb2, p.Miner)
		out = append(out, mutant{kind + ":same-txn-twice", mb2, ms2})
	}
	for _, t := range b.V2Transactions() {
		kind := usesV2(t)
		if kind == "" {
			continue
		}
		mb, ms := chain.DeepCopyBlock(b), chain.CopySupp(p.Supp)
		c := cloneV2(t)
		c.ArbitraryData = append(c.ArbitraryData, []byte(fmt.Sprintf("second use %d", rng.Int63()))...)
		if !s.ResignV2(&c) {
			continue
		}
		mb.V2.Transactions = append(mb.V2.Transactions, c)
		s.Seal(&mb, p.Miner)
		out = append(out, mutant{kind + ":other-txn", mb, ms})
		// the very same transaction (same id, same signatures) listed twice, fees paid out twice
		mb2, ms2 := chain.DeepCopyBlock(b), chain.CopySupp(p.Supp)
		mb2.V2.Transactions = append(mb2.V2.Transactions, cloneV2(t))
		s.Seal(&mb2, p.Miner)
		out = append(out, mutant{kind + ":same-txn-twice", mb2, ms2})
	}
	// --- a contract revised earlier in the block, then resolved, then resolved AGAIN (and revised again) by later
	// transactions: whatever is remembered about the parent from the in-block revision must not let the second use through
	for ti, t := range b.V2Transactions() {
		if len(t.FileContractResolutions) != 1 || len(t.FileContractRevisions) != 0 {
			continue
		}
		res := t.FileContractResolutions[0]
		if _, isRenewal := res.Resolution.(*types.V2FileContractRenewal); !isRenewal {
			continue // only a renewal can follow a revision in one block (height rules)
		}
		rev := res.Parent.V2FileContract
		rev.RevisionNumber++
		s.SignContract(&rev, rev.RenterPublicKey, rev.HostPublicKey)
		revTxn := types.V2Transaction{FileContractRevisions: []types.V2FileContractRevision{{Parent: res.Parent.Copy(), Revision: rev}}}
		// control: [revision, renewal] alone must be a valid block, otherwise the construction proves nothing
		ctl := chain.DeepCopyBlock(b)
		ctl.V2.Transactions = append(append(append([]types.V2Transaction{}, ctl.V2.Transactions[:ti]...), revTxn), ctl.V2.Transactions[ti:]...)
		s.Seal(&ctl, p.Miner)
		if consensus.ValidateBlock(s.Tip, ctl, chain.CopySupp(p.Supp)) != nil {
			continue
		}
		again := cloneV2(t)
		again.ArbitraryData = append(again.ArbitraryData, []byte(fmt.Sprintf("second use %d", ti))...)
		if !s.ResignV2(&again) {
			continue
		}
		mb := chain.DeepCopyBlock(ctl)
		mb.V2.Transactions = append(mb.V2.Transactions, again)
		s.Seal(&mb, p.Miner)
		out = append(out, mutant{"v2-resolution:after-inblock-revision:resolved-twice", mb, chain.CopySupp(p.Supp)})
		rev2 := rev
		rev2.RevisionNumber++
		s.SignContract(&rev2, rev2.RenterPublicKey, rev2.HostPublicKey)
		mb2 := chain.DeepCopyBlock(ctl)
		mb2.V2.Transactions = append(mb2.V2.Transactions, types.V2Transaction{FileContractRevisions: []types.V2FileContractRevision{{Parent: res.Parent.Copy(), Revision: rev2}}})
		s.Seal(&mb2, p.Miner)
		out = append(out, mutant{"v2-resolution:after-inblock-revision:revised-after-resolution", mb2, chain.CopySupp(p.Supp)})
	}
	// --- the same transaction lists an element twice
	for i, t := range b.Transactions {
		if len(t.SiacoinInputs) > 0 && len(t.StorageProofs) == 0 {
			mb, ms := chain.DeepCopyBlock(b), chain.CopySupp(p.Supp)
			c := &mb.Transactions[i]
			in := c.SiacoinInputs[rng.Intn(len(c.SiacoinInputs))]
			c.SiacoinInputs = append(c.SiacoinInputs, in)
			// give the extra value to the miner so that the balance still holds
			for _, e := range p.Supp.Transactions[i].SiacoinInputs {
				if e.ID == in.ParentID {
					c.MinerFees = append(c.MinerFees, e.SiacoinOutput.Value)
				}
			}
			if s.ResignV1(c) {
				s.Seal(&mb, p.Miner)
				out = append(out, mutant{"v1-siacoin:same-txn", mb, ms})
			}
		}
		if len(t.StorageProofs) > 0 {
			mb, ms := chain.DeepCopyBlock(b), chain.CopySupp(p.Supp)
			c := &mb.Transactions[i]
			c.StorageProofs = append(c.StorageProofs, c.StorageProofs[0])
			s.Seal(&mb, p.Miner)
			out = append(out, mutant{"v1-proof:same-txn", mb, ms})
		}
		if len(t.FileContractRevisions) > 0 {
			mb, ms := chain.DeepCopyBlock(b), chain.CopySupp(p.Supp)
			c := &mb.Transactions[i]
			r := c.FileContractRevisions[0]
			r.FileContract.RevisionNumber++
			c.FileContractRevisions = append(c.FileContractRevisions, r)
			if s.ResignV1(c) {
				s.Seal(&mb, p.Miner)
				out = append(out, mutant{"v1-revision:same-txn", mb, ms})
			}
		}
	}
	for i, t := range b.V2Transactions() {
		if len(t.SiacoinInputs) > 0 {
			mb, ms := chain.DeepCopyBlock(b), chain.CopySupp(p.Supp)
			c := &mb.V2.Transactions[i]
			in := c.SiacoinInputs[rng.Intn(len(c.SiacoinInputs))]
			c.SiacoinInputs = append(c.SiacoinInputs, in)
			c.MinerFee = c.MinerFee.Add(in.Parent.SiacoinOutput.Value)
			if s.ResignV2(c) {
				s.Seal(&mb, p.Miner)
				out = append(out, mutant{"v2-siacoin:same-txn", mb, ms})
			}
		}
		if len(t.SiafundInputs) > 0 {
			mb, ms := chain.DeepCopyBlock(b), chain.CopySupp(p.Supp)
			c := &mb.V2.Transactions[i]
			in := c.SiafundInputs[0]
			c.SiafundInputs = append(c.SiafundInputs, in)
			c.SiafundOutputs = append(c.SiafundOutputs, types.SiafundOutput{Value: in.Parent.SiafundOutput.Value, Address: s.NewAddr(true)})
			if s.ResignV2(c) {
				s.Seal(&mb, p.Miner)
				out = append(out, mutant{"v2-siafund:same-txn", mb, ms})
			}
		}
		if len(t.FileContractRevisions) > 0 {
			mb, ms := chain.DeepCopyBlock(b), chain.CopySupp(p.Supp)
			c := &mb.V2.Transactions[i]
			r := c.FileContractRevisions[0]
			r.Revision.RevisionNumber++
			s.SignContract(&r.Revision, r.Parent.V2FileContract.RenterPublicKey, r.Parent.V2FileContract.HostPublicKey)
			c.FileContractRevisions = append(c.FileContractRevisions, r)
			s.Seal(&mb, p.Miner)
			out = append(out, mutant{"v2-revision:same-txn", mb, ms})
			// revise and resolve (expire) in one transaction
			mb2, ms2 := chain.DeepCopyBlock(b), chain.CopySupp(p.Supp)
			c2 := &mb2.V2.Transactions[i]
			c2.FileContractResolutions = append(c2.FileContractResolutions, types.V2FileContractResolution{Parent: c2.FileContractRevisions[0].Parent.Copy(), Resolution: &types.V2FileContractExpiration{}})
			s.Seal(&mb2, p.Miner)
			out = append(out, mutant{"v2-revise+resolve:same-txn", mb2, ms2})
		}
		if len(t.FileContractResolutions) > 0 {
			if _, isRenewal := t.FileContractResolutions[0].Resolution.(*types.V2FileContractRenewal); !isRenewal {
				mb, ms := chain.DeepCopyBlock(b), chain.CopySupp(p.Supp)
				c := &mb.V2.Transactions[i]
				c.FileContractResolutions = append(c.FileContractResolutions, c.FileContractResolutions[0])
				s.Seal(&mb, p.Miner)
				out = append(out, mutant{"v2-resolution:same-txn", mb, ms})
			}
		}
	}
	// --- v1 then v2: a v2 transaction re-spends what a v1 transaction of the block spent
	if b.V2 != nil {
		for i, t := range b.Transactions {
			if len(t.SiacoinInputs) == 0 || len(t.StorageProofs) > 0 {
				continue
			}
			var vt types.V2Transaction
			okAll := true
			var sum types.Currency
			for _, in := range t.SiacoinInputs {
				var found *types.SiacoinElement
				for k := range p.Supp.Transactions[i].SiacoinInputs {
					if p.Supp.Transactions[i].SiacoinInputs[k].ID == in.ParentID {
						found = &p.Supp.Transactions[i].SiacoinInputs[k]
					}
				}
				if found == nil || !s.Spendable(found.SiacoinOutput.Address, true) {
					okAll = false
					break
				}
				vt.SiacoinInputs = append(vt.SiacoinInputs, types.V2SiacoinInput{Parent: found.Copy()})
				sum = sum.Add(found.SiacoinOutput.Value)
			}
			if !okAll || sum.IsZero() {
				continue
			}
			vt.SiacoinOutputs = []types.SiacoinOutput{{Value: sum, Address: s.NewAddr(true)}}
			if !s.ResignV2(&vt) {
				continue
			}
			mb, ms := chain.DeepCopyBlock(b), chain.CopySupp(p.Supp)
			mb.V2.Transactions = append(mb.V2.Transactions, vt)
			s.Seal(&mb, p.Miner)
			out = append(out, mutant{"v1-then-v2-siacoin", mb, ms})
			break
		}
	}
	return out
}

// aliasMutant: a v1 siacoin input whose parent id is the id of a siafund output
// created earlier in the block, aligned with an already-spent siacoin diff.
func aliasMutant(s *chain.Sim) (mutant, bool) {
	if s.V1Forbidden() {
		return mutant{}, false
	}
	var sf *types.SiafundElement
	for _, e := range s.St.SortedSF() {
		e := e
		if r := s.RecipeFor(e.SiafundOutput.Address); r != nil && r.V1Spendable() && s.Spendable(e.SiafundOutput.Address, false) && (sf == nil || string(e.ID[:]) < string(sf.ID[:])) {
			sf = &e
		}
	}
	var sc *types.SiacoinElement
	for _, e := range s.St.SortedSC() {
		e := e
		if r := s.RecipeFor(e.SiacoinOutput.Address); r != nil && r.V1Spendable() && s.Spendable(e.SiacoinOutput.Address, false) && e.MaturityHeight <= s.ChildHeight() && !e.SiacoinOutput.Value.IsZero() && (sc == nil || string(e.ID[:]) < string(sc.ID[:])) {
			sc = &e
		}
	}
	if sf == nil || sc == nil {
		return mutant{}, false
	}
	sfr, scr := s.RecipeFor(sf.SiafundOutput.Address), s.RecipeFor(sc.SiacoinOutput.Address)
	t1 := types.Transaction{
		SiafundInputs:  []types.SiafundInput{{ParentID: sf.ID, UnlockConditions: *sfr.UC, ClaimAddress: s.NewAddr(false)}},
		SiafundOutputs: []types.SiafundOutput{{Value: sf.SiafundOutput.Value, Address: s.NewAddr(false)}},
	}
	t2 := types.Transaction{
		SiacoinInputs:  []types.SiacoinInput{{ParentID: sc.ID, UnlockConditions: *scr.UC}},
		SiacoinOutputs: []types.SiacoinOutput{{Value: sc.SiacoinOutput.Value, Address: s.NewAddr(false)}},
	}
	// sfes = [spent parent, new output] -> index 1; sces = [claim, sc spent] -> index 1
	t3 := types.Transaction{
		SiacoinInputs:  []types.SiacoinInput{{ParentID: types.SiacoinOutputID(t1.SiafundOutputID(0)), UnlockConditions: *scr.UC}},
		SiacoinOutputs: []types.SiacoinOutput{{Value: sc.SiacoinOutput.Value, Address: s.NewAddr(false)}},
	}
	for _, t := range []*types.Transaction{&t1, &t2, &t3} {
		if !s.ResignV1(t) {
			return mutant{}, false
		}
	}
	b := types.Block{Timestamp: s.NextTimestamp(), Transactions: []types.Transaction{t1, t2, t3}}
	if s.V2Allowed() {
		b.V2 = &types.V2BlockData{}
	}
	supp := consensus.V1BlockSupplement{Transactions: []consensus.V1TransactionSupplement{
		{SiafundInputs: []types.SiafundElement{sf.Copy()}}, {SiacoinInputs: []types.SiacoinElement{sc.Copy()}}, {}}}
	s.Seal(&b, s.NewAddr(false))
	return mutant{"v1-kind-alias", b, supp}, true
}

func runC02(c *fw.Ctx) {
	res := c.Res
	res.Rule = "random valid chains (all modes/eras) plus, for every generated block, every applicable 'second use' mutant: clone of a transaction as another transaction of the block (v1, v2), an element listed twice in one transaction (siacoin/siafund inputs, v1/v2 revisions, storage proofs, v2 resolutions, revise+resolve), a v2 re-spend of a v1-spent output, ephemeral outputs, a v1 parent id aliasing another element kind, and — in the following block — a re-use of every element consumed by the previous block carrying its maintained proof; mutants are re-signed and re-sealed so that nothing else is wrong; each must be rejected by ValidateBlock. Along every chain consumed ids must never repeat. Non-trivial = block or mutant with at least one consumed element."
	var ops, outs []string
	nChains := c.Budget(24, 1000)
	blocks := c.Budget(40, 60)
	for i := 0; i < nChains; i++ {
		mode := ledgerModes[i%len(ledgerModes)]
		seed := c.Seed*9000011 + int64(i)
		s := chain.NewSim(rand.New(rand.NewSource(seed)), mode)
		ab := chain.NewAbstractor(s)
		mrng := rand.New(rand.NewSource(seed ^ 0x5eed))
		res.Count("chains:" + mode)
		consumed := map[types.Hash256]uint64{}
		// elements consumed by the previous block, with proofs maintained past it
		type stale struct {
			sc []types.SiacoinElement
			sf []types.SiafundElement
			v2 []types.V2FileContractElement
			fc []types.FileContractElement
		}
		var prev stale
		judge := func(m mutant, height uint64) {
			rp := map[string]any{"mode": mode, "seed": seed, "height": height, "mutant": m.kind}
			var err error
			panicked, msg := fw.Recover(func() { err = consensus.ValidateBlock(s.Tip, m.block, m.supp) })
			res.Eval(fmt.Sprintf("%s/%d/%d/%s/%x", mode, seed, height, m.kind, m.block.ID()), true)
			res.Count("mutant:" + m.kind)
			verdict := "reject"
			switch {
			case panicked:
				verdict = "panic-validate"
				res.Violate(fw.Violation{Key: "c10-validate-panic:" + m.kind, What: "ValidateBlock panicked on a double-use block: " + msg, Replay: rp})
			case err == nil:
				verdict = "accept"
				res.Violate(fw.Violation{Key: "c02-double-use-accepted:" + m.kind, What: "ValidateBlock accepted a block that uses an element twice (" + m.kind + ")", Replay: rp, Expected: "rejected", Observed: "accepted"})
			}
			if c.Model != nil && verdict != "accept" {
				ops = append(ops, "ledger-block "+ab.Abstract(m.block, m.supp))
				outs = append(outs, verdict)
			}
		}
		for k := 0; k < blocks; k++ {
			p := s.BuildBlock()
			height := s.ChildHeight()
			for _, m := range doubleUseMutants(s, p, mrng) {
				judge(m, height)
			}
			if m, ok := aliasMutant(s); ok && k%3 == 0 {
				judge(m, height)
			}
			// cross-block: re-use what the previous block consumed, with maintained proofs
			if len(prev.sc)+len(prev.sf)+len(prev.v2)+len(prev.fc) > 0 {
				for _, m := range crossBlockMutants(s, p, prev.sc, prev.sf, prev.v2, prev.fc) {
					judge(m, height)
				}
			}
			// collect what this block consumes (pre-spend copies)
			var cur stale
			for _, t := range p.Block.Transactions {
				for _, in := range t.SiacoinInputs {
					if e, ok := s.St.SC[in.ParentID]; ok {
						cur.sc = append(cur.sc, e.Copy())
					}
				}
				for _, in := range t.SiafundInputs {
					if e, ok := s.St.SF[in.ParentID]; ok {
						cur.sf = append(cur.sf, e.Copy())
					}
				}
				for _, sp := range t.StorageProofs {
					if e, ok := s.St.FC[sp.ParentID]; ok {
						cur.fc = append(cur.fc, e.Copy())
					}
				}
			}
			for _, t := range p.Block.V2Transactions() {
				for _, in := range t.SiacoinInputs {
					if e, ok := s.St.SC[in.Parent.ID]; ok {
						cur.sc = append(cur.sc, e.Copy())
					}
				}
				for _, in := range t.SiafundInputs {
					if e, ok := s.St.SF[in.Parent.ID]; ok {
						cur.sf = append(cur.sf, e.Copy())
					}
				}
				for _, r := range t.FileContractResolutions {
					if e, ok := s.St.V2FC[r.Parent.ID]; ok {
						cur.v2 = append(cur.v2, e.Copy())
					}
				}
			}
			parent := s.Tip
			au, err := s.Apply(p.Block, p.Supp)
			if err != nil {
				res.Note("generator produced a rejected block (%s seed %d height %d): %v", mode, seed, height, err)
				res.Count("generator-rejected")
				break
			}
			_ = parent
			res.Eval(fmt.Sprintf("%s/%d/%d", mode, seed, k), len(cur.sc)+len(cur.sf)+len(cur.v2)+len(cur.fc) > 0)
			// maintained proofs of the consumed leaves
			for j := range cur.sc {
				au.UpdateElementProof(&cur.sc[j].StateElement)
			}
			for j := range cur.sf {
				au.UpdateElementProof(&cur.sf[j].StateElement)
			}
			for j := range cur.v2 {
				au.UpdateElementProof(&cur.v2[j].StateElement)
			}
			for j := range cur.fc {
				au.UpdateElementProof(&cur.fc[j].StateElement)
			}
			prev = cur
			// history oracle: consumed ids never repeat
			note := func(id types.Hash256, what string) {
				if h, dup := consumed[id]; dup {
					res.Violate(fw.Violation{Key: "c02-history-repeat:" + what, What: fmt.Sprintf("element consumed at height %d and again at height %d", h, height),
						Replay: map[string]any{"mode": mode, "seed": seed, "height": height}})
				}
				consumed[id] = height
			}
			// what the block consumes is read from the block itself (not from what the code reports) …
			used := map[types.Hash256]string{}
			for _, t := range p.Block.Transactions {
				for _, in := range t.SiacoinInputs {
					used[types.Hash256(in.ParentID)] = "siacoin"
				}
				for _, in := range t.SiafundInputs {
					used[types.Hash256(in.ParentID)] = "siafund"
				}
				for _, sp := range t.StorageProofs {
					used[types.Hash256(sp.ParentID)] = "v1-contract"
				}
			}
			for _, e := range p.Supp.ExpiringFileContracts {
				used[types.Hash256(e.ID)] = "v1-contract"
			}
			for _, t := range p.Block.V2Transactions() {
				for _, in := range t.SiacoinInputs {
					used[types.Hash256(in.Parent.ID)] = "siacoin"
				}
				for _, in := range t.SiafundInputs {
					used[types.Hash256(in.Parent.ID)] = "siafund"
				}
				for _, r := range t.FileContractResolutions {
					used[types.Hash256(r.Parent.ID)] = "v2-contract"
				}
			}
			for _, id := range sortedHashKeys(used) {
				note(id, used[id])
			}
			// … and every consumed element must be REPORTED consumed by the update (a created-and-spent output too):
			// a client that follows the diffs must never be told that a consumed element is still live
			reported := map[types.Hash256]bool{}
			for _, d := range au.SiacoinElementDiffs() {
				if d.Spent {
					reported[types.Hash256(d.SiacoinElement.ID)] = true
				}
			}
			for _, d := range au.SiafundElementDiffs() {
				if d.Spent {
					reported[types.Hash256(d.SiafundElement.ID)] = true
				}
			}
			for _, d := range au.FileContractElementDiffs() {
				if d.Resolved {
					reported[types.Hash256(d.FileContractElement.ID)] = true
				}
			}
			for _, d := range au.V2FileContractElementDiffs() {
				if d.Resolution != nil {
					reported[types.Hash256(d.V2FileContractElement.ID)] = true
				}
			}
			for _, id := range sortedHashKeys(used) {
				if !reported[id] {
					res.Violate(fw.Violation{Key: "c02-consumed-not-reported:" + used[id], What: fmt.Sprintf("element %v is consumed by the block at height %d but the apply update does not report it spent/resolved (it stays live for every client and in the accumulator)", id, height),
						Replay: map[string]any{"mode": mode, "seed": seed, "height": height, "id": fmt.Sprint(id)}})
				}
			}
			// a resolved v1 contract pays out ONE family of outputs: the valid ones (storage proof) or the missed ones
			// (expiry) — a contract both proven and listed as expiring in the same block must not be resolved twice
			created := map[types.SiacoinOutputID]bool{}
			for _, d := range au.SiacoinElementDiffs() {
				if d.Created {
					created[d.SiacoinElement.ID] = true
				}
			}
			for _, d := range au.FileContractElementDiffs() {
				if !d.Resolved {
					continue
				}
				fc := d.FileContractElement.FileContract
				if d.Revision != nil {
					fc = *d.Revision
				}
				nv, nm := 0, 0
				for i := range fc.ValidProofOutputs {
					if created[d.FileContractElement.ID.ValidOutputID(i)] {
						nv++
					}
				}
				for i := range fc.MissedProofOutputs {
					if created[d.FileContractElement.ID.MissedOutputID(i)] {
						nm++
					}
				}
				if nv > 0 && nm > 0 {
					res.Violate(fw.Violation{Key: "c02-double-resolution:v1", What: fmt.Sprintf("contract %v is resolved twice in the block at height %d: %d valid-proof outputs AND %d missed-proof outputs were created", d.FileContractElement.ID, height, nv, nm),
						Replay: map[string]any{"mode": mode, "seed": seed, "height": height, "id": fmt.Sprint(d.FileContractElement.ID)}})
				}
			}
			for id := range reported {
				if _, ok := used[id]; !ok {
					res.Violate(fw.Violation{Key: "c02-reported-not-consumed", What: fmt.Sprintf("the apply update reports element %v spent/resolved but no transaction of the block consumes it", id),
						Replay: map[string]any{"mode": mode, "seed": seed, "height": height, "id": fmt.Sprint(id)}})
				}
			}
		}
		for k, v := range s.Counts {
			res.CountN("gen:"+k, v)
		}
	}
	if len(ops) > 0 {
		c.Compare(ops, outs)
	}
	res.Sample(map[string]any{"mutant_kinds": fw.SortedKeys(res.Distribution)})
}

// crossBlockMutants re-uses, in block p (built on the tip), elements consumed by
// the previous block; the element records are the pre-spend ones with proofs
// maintained through the spending block (so the proof is "valid before the first use"
// and kept up to date).
func crossBlockMutants(s *chain.Sim, p chain.BlockPlan, sc []types.SiacoinElement, sf []types.SiafundElement, v2 []types.V2FileContractElement, fc []types.FileContractElement) []mutant {
	var out []mutant
	b := p.Block
	if b.V2 != nil {
		for _, e := range sc {
			if !s.Spendable(e.SiacoinOutput.Address, true) || e.SiacoinOutput.Value.IsZero() {
				continue
			}
			vt := types.V2Transaction{SiacoinInputs: []types.V2SiacoinInput{{Parent: e.Copy()}}, SiacoinOutputs: []types.SiacoinOutput{{Value: e.SiacoinOutput.Value, Address: s.NewAddr(true)}}}
			if !s.ResignV2(&vt) {
				continue
			}
			mb, ms := chain.DeepCopyBlock(b), chain.CopySupp(p.Supp)
			mb.V2.Transactions = append(mb.V2.Transactions, vt)
			s.Seal(&mb, p.Miner)
			out = append(out, mutant{"v2-siacoin:next-block", mb, ms})
			break
		}
		for _, e := range sf {
			if !s.Spendable(e.SiafundOutput.Address, true) {
				continue
			}
			vt := types.V2Transaction{SiafundInputs: []types.V2SiafundInput{{Parent: e.Copy(), ClaimAddress: s.NewAddr(true)}}, SiafundOutputs: []types.SiafundOutput{{Value: e.SiafundOutput.Value, Address: s.NewAddr(true)}}}
			if !s.ResignV2(&vt) {
				continue
			}
			mb, ms := chain.DeepCopyBlock(b), chain.CopySupp(p.Supp)
			mb.V2.Transactions = append(mb.V2.Transactions, vt)
			s.Seal(&mb, p.Miner)
			out = append(out, mutant{"v2-siafund:next-block", mb, ms})
			break
		}
		for _, e := range v2 {
			if s.ChildHeight() <= e.V2FileContract.ExpirationHeight {
				continue
			}
			vt := types.V2Transaction{FileContractResolutions: []types.V2FileContractResolution{{Parent: e.Copy(), Resolution: &types.V2FileContractExpiration{}}}}
			mb, ms := chain.DeepCopyBlock(b), chain.CopySupp(p.Supp)
			mb.V2.Transactions = append(mb.V2.Transactions, vt)
			s.Seal(&mb, p.Miner)
			out = append(out, mutant{"v2-resolution:next-block", mb, ms})
			break
		}
	}
	if !s.V1Forbidden() {
		for _, e := range sc {
			r := s.RecipeFor(e.SiacoinOutput.Address)
			if r == nil || !r.V1Spendable() || !s.Spendable(e.SiacoinOutput.Address, false) || e.SiacoinOutput.Value.IsZero() {
				continue
			}
			t := types.Transaction{SiacoinInputs: []types.SiacoinInput{{ParentID: e.ID, UnlockConditions: *r.UC}}, SiacoinOutputs: []types.SiacoinOutput{{Value: e.SiacoinOutput.Value, Address: s.NewAddr(false)}}}
			if !s.ResignV1(&t) {
				continue
			}
			mb, ms := chain.DeepCopyBlock(b), chain.CopySupp(p.Supp)
			mb.Transactions = append(mb.Transactions, t)
			ms.Transactions = append(ms.Transactions, consensus.V1TransactionSupplement{SiacoinInputs: []types.SiacoinElement{e.Copy()}})
			s.Seal(&mb, p.Miner)
			out = append(out, mutant{"v1-siacoin:next-block", mb, ms})
			break
		}
		for _, e := range fc {
			mb, ms := chain.DeepCopyBlock(b), chain.CopySupp(p.Supp)
			ms.ExpiringFileContracts = append(ms.ExpiringFileContracts, e.Copy())
			s.Seal(&mb, p.Miner)
			out = append(out, mutant{"v1-contract-expire-after-proof:next-block", mb, ms})
			break
		}
	}
	return out
}

func sortedHashKeys(m map[types.Hash256]string) []types.Hash256 {
	ks := make([]types.Hash256, 0, len(m))
	for k := range m {
		ks = append(ks, k)
	}
	sort.Slice(ks, func(i, j int) bool { return string(ks[i][:]) < string(ks[j][:]) })
	return ks
}
