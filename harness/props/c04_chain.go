package props

// C04 (ledger level) — membership as seen through ValidateBlock: on blocks of
// generated chains every element record a block presents to the accumulator (v2
// parents inside transactions, v1 parents in the supplement, storage-proof chain
// indices) is altered at one point — a value, an address, the maturity height /
// claim start, a contract field, the leaf index, one proof hash, the proof length,
// another element's proof or position — and the block, re-signed and re-sealed so
// that nothing else is wrong, must be rejected. This includes the placement "the
// same contract was already revised by an earlier transaction of the block".

import (
	"fmt"
	"math"
	"math/rand"
	"strings"

	"go.sia.tech/core/consensus"
	"go.sia.tech/core/types"
	"verif/harness/internal/chain"
	"verif/harness/internal/fw"
)

func init() { fw.Register("C04L", runC04L) }

func mutateStateElement(se *types.StateElement, rng *rand.Rand, other *types.StateElement) string {
	switch k := rng.Intn(8); {
	case k == 5:
		// the "not in the accumulator yet" sentinel on a record that claims to be in it
		se.LeafIndex = types.UnassignedLeafIndex
		if rng.Intn(2) == 0 {
			se.MerkleProof = nil
		}
		return "sentinel-index"
	case k == 6:
		se.LeafIndex = []uint64{math.MaxUint64 - 1, 1 << 63, 1 << 40}[rng.Intn(3)]
		return "extreme-index"
	case k == 7 && len(se.MerkleProof) > 0:
		se.MerkleProof = nil
		return "proof-dropped"
	case k == 0:
		se.LeafIndex ^= 1 << uint(rng.Intn(6))
		return "leaf-index"
	case k == 1 && len(se.MerkleProof) > 0:
		se.MerkleProof = append([]types.Hash256(nil), se.MerkleProof...)
		se.MerkleProof[rng.Intn(len(se.MerkleProof))][rng.Intn(32)] ^= 1 << uint(rng.Intn(8))
		return "proof-hash"
	case k == 2 && len(se.MerkleProof) > 0:
		se.MerkleProof = append([]types.Hash256(nil), se.MerkleProof[:len(se.MerkleProof)-1]...)
		return "proof-shorter"
	case k == 3:
		se.MerkleProof = append(append([]types.Hash256(nil), se.MerkleProof...), types.Hash256{byte(rng.Intn(256))})
		return "proof-longer"
	case other != nil && other.LeafIndex != se.LeafIndex:
		se.LeafIndex, se.MerkleProof = other.LeafIndex, append([]types.Hash256(nil), other.MerkleProof...)
		return "other-position"
	}
	se.LeafIndex++
	return "leaf-index"
}

// parentMutants: one altered parent record per mutant.
func parentMutants(s *chain.Sim, p chain.BlockPlan, rng *rand.Rand) []mutant {
	var out []mutant
	b := p.Block
	var anyOther *types.StateElement
	for _, e := range s.St.SortedSC() {
		if len(e.StateElement.MerkleProof) > 0 {
			se := e.StateElement
			anyOther = &se
			break
		}
	}
	add := func(kind string, f func(mb *types.Block, ms *consensus.V1BlockSupplement) (string, bool)) {
		mb, ms := chain.DeepCopyBlock(b), chain.CopySupp(p.Supp)
		what, ok := f(&mb, &ms)
		if !ok {
			return
		}
		s.Seal(&mb, p.Miner)
		out = append(out, mutant{kind + ":" + what, mb, ms})
	}
	for i, t := range b.V2Transactions() {
		i := i
		for j, in := range t.SiacoinInputs {
			j := j
			if in.Parent.StateElement.LeafIndex == types.UnassignedLeafIndex {
				continue
			}
			add("v2-siacoin-parent", func(mb *types.Block, _ *consensus.V1BlockSupplement) (string, bool) {
				e := &mb.V2.Transactions[i].SiacoinInputs[j].Parent
				what := ""
				switch rng.Intn(4) {
				case 0:
					e.SiacoinOutput.Value = e.SiacoinOutput.Value.Add(types.NewCurrency64(1))
					// keep the balance: the extra hasting goes to the miner
					mb.V2.Transactions[i].MinerFee = mb.V2.Transactions[i].MinerFee.Add(types.NewCurrency64(1))
					what = "value"
				case 1:
					if e.MaturityHeight == 0 {
						return "", false
					}
					e.MaturityHeight--
					what = "maturity"
				default:
					what = mutateStateElement(&e.StateElement, rng, anyOther)
				}
				return what, s.ResignV2(&mb.V2.Transactions[i])
			})
		}
		for j := range t.SiafundInputs {
			j := j
			add("v2-siafund-parent", func(mb *types.Block, _ *consensus.V1BlockSupplement) (string, bool) {
				e := &mb.V2.Transactions[i].SiafundInputs[j].Parent
				if e.StateElement.LeafIndex == types.UnassignedLeafIndex {
					return "", false
				}
				what := ""
				if rng.Intn(2) == 0 {
					if e.ClaimStart.IsZero() {
						return "", false
					}
					e.ClaimStart = e.ClaimStart.Sub(types.NewCurrency64(1))
					what = "claim-start"
				} else {
					what = mutateStateElement(&e.StateElement, rng, anyOther)
				}
				return what, s.ResignV2(&mb.V2.Transactions[i])
			})
		}
		for j, r := range t.FileContractRevisions {
			j := j
			placement := "v2-revision-parent"
			for k := 0; k < i; k++ {
				for _, r0 := range b.V2Transactions()[k].FileContractRevisions {
					if r0.Parent.ID == r.Parent.ID {
						placement = "v2-revision-parent-after-inblock-revision"
					}
				}
			}
			add(placement, func(mb *types.Block, _ *consensus.V1BlockSupplement) (string, bool) {
				e := &mb.V2.Transactions[i].FileContractRevisions[j].Parent
				switch rng.Intn(3) {
				case 0:
					e.V2FileContract.ExpirationHeight++
					return "contract-field", true
				case 1:
					e.V2FileContract.RenterOutput.Value = e.V2FileContract.RenterOutput.Value.Add(types.NewCurrency64(1))
					return "contract-value", true
				}
				return mutateStateElement(&e.StateElement, rng, anyOther), true
			})
		}
		for j, r := range t.FileContractResolutions {
			j := j
			placement := "v2-resolution-parent"
			add(placement, func(mb *types.Block, _ *consensus.V1BlockSupplement) (string, bool) {
				e := &mb.V2.Transactions[i].FileContractResolutions[j].Parent
				if rng.Intn(2) == 0 {
					e.V2FileContract.MissedHostValue = e.V2FileContract.MissedHostValue.Add(types.NewCurrency64(1))
					return "contract-value", true
				}
				return mutateStateElement(&e.StateElement, rng, anyOther), true
			})
			if sp, ok := r.Resolution.(*types.V2StorageProof); ok && len(sp.ProofIndex.StateElement.MerkleProof) > 0 {
				add("v2-chain-index", func(mb *types.Block, _ *consensus.V1BlockSupplement) (string, bool) {
					q := mb.V2.Transactions[i].FileContractResolutions[j].Resolution.(*types.V2StorageProof)
					return mutateStateElement(&q.ProofIndex.StateElement, rng, nil), true
				})
			}
		}
	}
	// a forged parent presented for a contract that an earlier transaction of the block revised
	for i, t := range b.V2Transactions() {
		for _, r := range t.FileContractRevisions {
			i, r := i, r
			add("v2-forged-expiration-after-inblock-revision", func(mb *types.Block, _ *consensus.V1BlockSupplement) (string, bool) {
				forged := r.Parent.Copy()
				forged.V2FileContract.ExpirationHeight = 0
				forged.V2FileContract.ProofHeight = 0
				vt := types.V2Transaction{FileContractResolutions: []types.V2FileContractResolution{{Parent: forged, Resolution: &types.V2FileContractExpiration{}}}}
				txns := append([]types.V2Transaction{}, mb.V2.Transactions[:i+1]...)
				txns = append(txns, vt)
				mb.V2.Transactions = append(txns, mb.V2.Transactions[i+1:]...)
				return "contract-field", true
			})
		}
	}
	for i := range b.Transactions {
		i := i
		add("v1-supplement", func(_ *types.Block, ms *consensus.V1BlockSupplement) (string, bool) {
			ts := &ms.Transactions[i]
			switch {
			case len(ts.SiacoinInputs) > 0:
				e := &ts.SiacoinInputs[rng.Intn(len(ts.SiacoinInputs))]
				if rng.Intn(3) == 0 {
					e.MaturityHeight++
					return "siacoin-maturity", true
				}
				return "siacoin-" + mutateStateElement(&e.StateElement, rng, anyOther), true
			case len(ts.SiafundInputs) > 0:
				e := &ts.SiafundInputs[0]
				if rng.Intn(2) == 0 {
					e.ClaimStart = e.ClaimStart.Add(types.NewCurrency64(1))
					return "siafund-claim-start", true
				}
				return "siafund-" + mutateStateElement(&e.StateElement, rng, anyOther), true
			case len(ts.RevisedFileContracts) > 0:
				e := &ts.RevisedFileContracts[0]
				if rng.Intn(2) == 0 {
					e.FileContract.RevisionNumber--
					return "contract-field", true
				}
				return "contract-" + mutateStateElement(&e.StateElement, rng, anyOther), true
			case len(ts.StorageProofs) > 0:
				e := &ts.StorageProofs[0].FileContract
				if rng.Intn(2) == 0 {
					e.FileContract.WindowEnd++
					return "contract-field", true
				}
				return "contract-" + mutateStateElement(&e.StateElement, rng, anyOther), true
			}
			return "", false
		})
	}
	for k := range p.Supp.ExpiringFileContracts {
		k := k
		add("v1-expiring", func(_ *types.Block, ms *consensus.V1BlockSupplement) (string, bool) {
			e := &ms.ExpiringFileContracts[k]
			if rng.Intn(2) == 0 && len(e.FileContract.MissedProofOutputs) > 0 {
				e.FileContract.MissedProofOutputs[0].Value = e.FileContract.MissedProofOutputs[0].Value.Add(types.NewCurrency64(1))
				return "contract-value", true
			}
			return "contract-" + mutateStateElement(&e.StateElement, rng, anyOther), true
		})
	}
	return out
}

func runC04L(c *fw.Ctx) {
	res := c.Res
	nChains := c.Budget(20, 800)
	blocks := c.Budget(40, 60)
	var ops, outs []string
	for i := 0; i < nChains; i++ {
		mode := ledgerModes[i%len(ledgerModes)]
		seed := c.Seed*8000009 + int64(i)
		s := chain.NewSim(rand.New(rand.NewSource(seed)), mode)
		ab := chain.NewAbstractor(s)
		mrng := rand.New(rand.NewSource(seed ^ 0xc04))
		res.Count("chains:" + mode)
		for k := 0; k < blocks; k++ {
			p := s.BuildBlock()
			height := s.ChildHeight()
			// ElementAccumulator.ValidateTransactionElements (the transaction-pool entry point of the same membership
			// check): every transaction of a valid block passes; the transaction carrying an altered record does not
			acc := s.Tip.Elements
			if vt := p.Block.V2Transactions(); len(vt) > 1 {
				res.Count("txelements:genuine-composite")
				if err := acc.ValidateTransactionElements(compositeTxn(vt, types.V2Transaction{}, -1, true)); err != nil {
					res.Violate(fw.Violation{Key: "c04-txelements-rejects-genuine", What: "ValidateTransactionElements rejected the union of the transactions of a valid block: " + err.Error(),
						Replay: map[string]any{"mode": mode, "seed": seed, "height": height, "txn": "composite"}, Expected: "nil", Observed: err.Error()})
				}
			}
			for ti, txn := range p.Block.V2Transactions() {
				res.Count("txelements:genuine")
				if err := acc.ValidateTransactionElements(txn); err != nil {
					res.Violate(fw.Violation{Key: "c04-txelements-rejects-genuine", What: "ValidateTransactionElements rejected a transaction of a valid block: " + err.Error(),
						Replay: map[string]any{"mode": mode, "seed": seed, "height": height, "txn": ti}, Expected: "nil", Observed: err.Error()})
				}
			}
			for _, m := range parentMutants(s, p, mrng) {
				rp := map[string]any{"mode": mode, "seed": seed, "height": height, "mutant": m.kind}
				if strings.HasPrefix(m.kind, "v2-") && !strings.Contains(m.kind, "sentinel-index") && !strings.Contains(m.kind, "after-inblock-revision") {
					orig, mut := p.Block.V2Transactions(), m.block.V2Transactions()
					for ti := range mut {
						if ti < len(orig) && string(chain.Encode(orig[ti])) == string(chain.Encode(mut[ti])) {
							continue
						}
						res.Count("txelements:altered")
						res.Eval(fmt.Sprintf("TE/%s/%d/%d/%s/%d", mode, seed, height, m.kind, ti), true)
						if err := acc.ValidateTransactionElements(mut[ti]); err == nil {
							res.Violate(fw.Violation{Key: "c04-txelements-accepts-altered:" + m.kind, What: "ValidateTransactionElements accepted a transaction presenting an altered element record (" + m.kind + ")", Replay: rp, Expected: "error", Observed: "nil"})
						}
						// the same altered record inside one large transaction, after (and before) all the genuine
						// elements of the block: every element of a transaction is checked, wherever it stands
						for _, last := range []bool{true, false} {
							comp := compositeTxn(orig, mut[ti], ti, last)
							res.Count("txelements:altered-in-composite")
							if err := acc.ValidateTransactionElements(comp); err == nil {
								res.Violate(fw.Violation{Key: "c04-txelements-accepts-altered:composite:" + m.kind, What: fmt.Sprintf("ValidateTransactionElements accepted a transaction in which one of %d element records is altered (%s; altered part last=%v)", len(comp.SiacoinInputs)+len(comp.SiafundInputs)+len(comp.FileContractRevisions)+len(comp.FileContractResolutions), m.kind, last), Replay: rp, Expected: "error", Observed: "nil"})
							}
						}
					}
				}
				var err error
				panicked, msg := fw.Recover(func() { err = consensus.ValidateBlock(s.Tip, m.block, m.supp) })
				res.Eval(fmt.Sprintf("L/%s/%d/%d/%s/%x", mode, seed, height, m.kind, m.block.ID()), true)
				res.Count("ledger-mutant:" + m.kind)
				if panicked {
					res.Violate(fw.Violation{Key: "c10-validate-panic:c04-" + m.kind, What: "panic on an altered parent record: " + msg, Replay: rp})
				} else if err == nil {
					res.Violate(fw.Violation{Key: "c04-accepts-altered-parent:" + m.kind, What: "ValidateBlock accepted a block presenting an altered element record (" + m.kind + ")", Replay: rp, Expected: "rejected", Observed: "accepted"})
				} else if c.Model != nil {
					ops = append(ops, "ledger-block "+ab.Abstract(m.block, m.supp))
					outs = append(outs, "reject")
				}
			}
			if au, err := s.Apply(p.Block, p.Supp); err == nil {
				// outputs created AND spent inside the block are spent leaves from the start: presented again with the leaf
				// index and proof the update reports, they must not be accepted as unspent (v2 parent and v1 supplement path)
				for _, d := range au.SiacoinElementDiffs() {
					if !d.Created || !d.Spent {
						continue
					}
					res.Count("ephemeral-leaf:siacoin")
					res.Eval(fmt.Sprintf("eph/%s/%d/%d/%x", mode, seed, height, d.SiacoinElement.ID[:6]), true)
					vt := types.V2Transaction{SiacoinInputs: []types.V2SiacoinInput{{Parent: d.SiacoinElement.Copy()}}}
					if err := s.Tip.Elements.ValidateTransactionElements(vt); err == nil {
						res.Violate(fw.Violation{Key: "c04-accepts-spent:ephemeral-siacoin", What: fmt.Sprintf("siacoin output %v was created and spent in the block at height %d, yet the accumulator accepts it as an unspent parent with the leaf index and proof the update reports", d.SiacoinElement.ID, height),
							Replay: map[string]any{"mode": mode, "seed": seed, "height": height, "id": fmt.Sprint(d.SiacoinElement.ID)}, Expected: "rejected", Observed: "accepted"})
					}
				}
				for _, d := range au.SiafundElementDiffs() {
					if !d.Created || !d.Spent {
						continue
					}
					res.Count("ephemeral-leaf:siafund")
					vt := types.V2Transaction{SiafundInputs: []types.V2SiafundInput{{Parent: d.SiafundElement.Copy()}}}
					if err := s.Tip.Elements.ValidateTransactionElements(vt); err == nil {
						res.Violate(fw.Violation{Key: "c04-accepts-spent:ephemeral-siafund", What: fmt.Sprintf("siafund output %v was created and spent in the block at height %d, yet the accumulator accepts it as an unspent parent", d.SiafundElement.ID, height),
							Replay: map[string]any{"mode": mode, "seed": seed, "height": height, "id": fmt.Sprint(d.SiafundElement.ID)}, Expected: "rejected", Observed: "accepted"})
					}
				}
			} else {
				res.Note("generator produced a rejected block (%s seed %d height %d): %v", mode, seed, height, err)
				res.Count("generator-rejected")
				break
			}
		}
	}
	if len(ops) > 0 {
		c.Compare(ops, outs)
	}
}

// compositeTxn concatenates the element-carrying parts of txns (skipping index skip) and puts those of `extra`
// after them (last) or before them.
func compositeTxn(txns []types.V2Transaction, extra types.V2Transaction, skip int, last bool) types.V2Transaction {
	var out types.V2Transaction
	app := func(t types.V2Transaction) {
		out.SiacoinInputs = append(out.SiacoinInputs, t.SiacoinInputs...)
		out.SiafundInputs = append(out.SiafundInputs, t.SiafundInputs...)
		out.FileContractRevisions = append(out.FileContractRevisions, t.FileContractRevisions...)
		out.FileContractResolutions = append(out.FileContractResolutions, t.FileContractResolutions...)
	}
	if !last {
		app(extra)
	}
	for i, t := range txns {
		if i != skip {
			app(t)
		}
	}
	if last {
		app(extra)
	}
	return out
}
