package props

// C17, v1 era: the payout of contracts built by rhp/v2 and rhp/v3
// (PrepareContractFormation / PrepareContractRenewal, i.e. the unexported
// taxAdjustedPayout) satisfies the consensus tax equation
//     payout = sum(valid outputs) + tax(payout),  sum(missed) = sum(valid),
// tax(p) = floor(39p/1000) rounded down to a multiple of 10000 (post-hardfork
// State.FileContractTax, which is what validateFileContracts uses).

import (
	"fmt"
	"math/big"

	"go.sia.tech/core/consensus"
	rhp2 "go.sia.tech/core/rhp/v2"
	rhp3 "go.sia.tech/core/rhp/v3"
	"go.sia.tech/core/types"
	"verif/harness/internal/fw"
)

func c17V1Tax(p *big.Int) *big.Int {
	t := new(big.Int).Mul(p, big.NewInt(39))
	t.Quo(t, big.NewInt(1000))
	return t.Sub(t, new(big.Int).Mod(t, big.NewInt(10000)))
}

// c17V1Payout reaches taxAdjustedPayout(target) through the exported v2 formation
// constructor (contract price and collateral zero).
func c17V1Payout(target types.Currency) (p types.Currency, panicked bool) {
	panicked, _ = fw.Recover(func() {
		fc := rhp2.PrepareContractFormation(types.PublicKey{1}, types.PublicKey{2}, target, types.ZeroCurrency, 100, rhp2.HostSettings{WindowSize: 10}, types.Address{})
		p = fc.Payout
	})
	return
}

func c17SumOutputs(outs []types.SiacoinOutput) *big.Int {
	s := new(big.Int)
	for _, o := range outs {
		s.Add(s, o.Value.Big())
	}
	return s
}

func c17V1(c *fw.Ctx) {
	res := c.Res
	cs := consensus.State{Network: &consensus.Network{}} // HardforkTax.Height = 0: post-hardfork tax
	limit := new(big.Int).Quo(c17W128, big.NewInt(1000))   // 1000*t must fit: Mul64 panics beyond by design

	checkFC := func(what string, fc types.FileContract, replay map[string]any) {
		p := fc.Payout.Big()
		valid, missed := c17SumOutputs(fc.ValidProofOutputs), c17SumOutputs(fc.MissedProofOutputs)
		tax := c17V1Tax(p)
		if cs.FileContractTax(fc).Big().Cmp(tax) != 0 {
			res.Violate(fw.Violation{Key: "c17-v1-tax-function", What: "State.FileContractTax differs from floor(39p/1000) rounded down to a multiple of 10000", Replay: replay,
				Expected: tax.String(), Observed: cs.FileContractTax(fc).ExactString()})
		}
		if c17Add(valid, tax).Cmp(p) != 0 {
			res.Violate(fw.Violation{Key: "c17-v1-tax-equation", What: what + ": payout != valid outputs + tax(payout)", Replay: replay,
				Expected: c17Add(valid, tax).String(), Observed: p.String()})
		}
		if missed.Cmp(valid) != 0 {
			res.Violate(fw.Violation{Key: "c17-v1-missed-sum", What: what + ": missed outputs do not sum to the valid outputs", Replay: replay,
				Expected: valid.String(), Observed: missed.String()})
		}
	}

	var lines, outs []string
	one := func(t *big.Int, bucket string) {
		if t.Sign() < 0 || t.Cmp(c17W128) >= 0 {
			return
		}
		line := "rhp4c v1payout " + t.String()
		p, panicked := c17V1Payout(bigCur(t))
		res.Eval(line, t.Sign() > 0)
		res.Count("v1:" + bucket)
		lines = append(lines, line)
		replay := map[string]any{"kind": "v1", "target": t.String()}
		if panicked {
			outs = append(outs, "panic")
			if t.Cmp(limit) < 0 {
				res.Violate(fw.Violation{Key: "c17-constructor-panic:taxAdjustedPayout", What: "taxAdjustedPayout panics although 1000*target fits in 128 bits", Replay: replay, Expected: "no panic", Observed: "panic"})
			}
			return
		}
		outs = append(outs, "ok "+p.ExactString())
		if c17Add(t, c17V1Tax(p.Big())).Cmp(p.Big()) != 0 {
			res.Violate(fw.Violation{Key: "c17-v1-tax-equation", What: "taxAdjustedPayout(t) = p does not satisfy p = t + tax(p)", Replay: replay,
				Expected: "p - tax(p) = " + t.String(), Observed: fmt.Sprintf("p = %s, tax(p) = %s", p.ExactString(), c17V1Tax(p.Big()))})
		}
	}
	// exhaustive small range, every residue class mod 10000 several times over
	nSmall := c.Budget(30000, 3000000)
	for t := 0; t < nSmall; t++ {
		one(big.NewInt(int64(t)), "exhaustive-small")
	}
	// around the points where floor(39t/9610000) steps, and where the guess's residue wraps
	for i := 0; i < c.Budget(2000, 200000); i++ {
		k := new(big.Int).Rand(c.Rng, new(big.Int).Lsh(big.NewInt(1), uint(1+c.Rng.Intn(100))))
		t := new(big.Int).Mul(k, big.NewInt(9610000))
		t.Quo(t, big.NewInt(39))
		t.Add(t, big.NewInt(int64(c.Rng.Intn(7)-3)))
		one(t, "step-boundary")
	}
	for i := 0; i < c.Budget(5000, 500000); i++ {
		t := new(big.Int).Rand(c.Rng, new(big.Int).Lsh(big.NewInt(1), uint(1+c.Rng.Intn(118))))
		one(t, "random")
	}
	for d := int64(-3); d <= 3; d++ { // the Fits boundary 1000 t < 2^128
		one(new(big.Int).Add(limit, big.NewInt(d)), "fits-boundary")
	}
	c.Compare(lines, outs)

	// whole constructors: v2 formation, v2 renewal, v3 renewal
	g := c17Gen{c}
	for i := 0; i < c.Budget(2000, 100000); i++ {
		renterPayout := g.curBits(100)
		hostColl := g.curBits(100)
		hs := rhp2.HostSettings{WindowSize: uint64(c.Rng.Intn(1000)), ContractPrice: g.curBits(90), Collateral: g.curBits(30), StoragePrice: g.curBits(30),
			MaxCollateral: g.curBits(110), Address: types.Address{3}}
		end := uint64(1000 + c.Rng.Intn(100000))
		replay := map[string]any{"kind": "v1", "seed": c.Seed, "case": i}
		var fc types.FileContract
		if panicked, msg := fw.Recover(func() {
			fc = rhp2.PrepareContractFormation(types.PublicKey{1}, types.PublicKey{2}, renterPayout, hostColl, end, hs, types.Address{4})
		}); panicked {
			res.Violate(fw.Violation{Key: "c17-constructor-panic:PrepareContractFormation", What: "rhp/v2 PrepareContractFormation panics on 100-bit values: " + msg, Replay: replay})
			continue
		}
		res.Eval(fmt.Sprintf("v1form %v %v %v", renterPayout, hostColl, hs.ContractPrice), true)
		res.Count("v1:formation")
		checkFC("rhp/v2 PrepareContractFormation", fc, replay)

		// renew it (v2)
		rev := types.FileContractRevision{FileContract: fc}
		rev.FileContract.Filesize = uint64(c.Rng.Intn(1 << 30))
		newEnd := end + uint64(c.Rng.Intn(10000))
		var fc2 types.FileContract
		if panicked, msg := fw.Recover(func() {
			fc2, _ = rhp2.PrepareContractRenewal(rev, types.Address{4}, g.curBits(100), g.curBits(100), hs, newEnd)
		}); panicked {
			res.Violate(fw.Violation{Key: "c17-constructor-panic:PrepareContractRenewal-v2", What: "rhp/v2 PrepareContractRenewal panics on in-range values: " + msg, Replay: replay})
		} else {
			res.Eval(fmt.Sprintf("v1renew2 %d %d", rev.FileContract.Filesize, newEnd), true)
			res.Count("v1:renewal-v2")
			checkFC("rhp/v2 PrepareContractRenewal", fc2, replay)
		}
		// renew it (v3)
		pt := rhp3.HostPriceTable{WindowSize: hs.WindowSize, ContractPrice: hs.ContractPrice, CollateralCost: hs.Collateral, WriteStoreCost: hs.StoragePrice,
			MaxCollateral: hs.MaxCollateral, RenewContractCost: g.curBits(60), HostBlockHeight: end - uint64(c.Rng.Intn(1000))}
		var fc3 types.FileContract
		var err error
		if panicked, msg := fw.Recover(func() {
			fc3, _, err = rhp3.PrepareContractRenewal(rev, types.Address{3}, types.Address{4}, g.curBits(100), types.ZeroCurrency, pt, uint64(c.Rng.Intn(1<<30)), newEnd)
		}); panicked {
			res.Violate(fw.Violation{Key: "c17-constructor-panic:PrepareContractRenewal-v3", What: "rhp/v3 PrepareContractRenewal panics on in-range values: " + msg, Replay: replay})
		} else if err == nil {
			res.Eval(fmt.Sprintf("v1renew3 %d %d", rev.FileContract.Filesize, newEnd), true)
			res.Count("v1:renewal-v3")
			checkFC("rhp/v3 PrepareContractRenewal", fc3, replay)
		} else {
			res.Count("v1:renewal-v3-refused")
		}
	}
}
