package props

// C16 section (c): append proofs, free (swap+trim) proofs, general diff proofs.

import (
	"fmt"
	"math/rand"
	"strconv"
	"strings"

	rhp2 "go.sia.tech/core/rhp/v2"
	rhp4 "go.sia.tech/core/rhp/v4"
	"verif/harness/internal/fw"
)

// ------------------------------------------------------------------ append

func (t *c16task) appendCase(roots, app []c16H, cseed int64, modelSample int) {
	rng := rand.New(rand.NewSource(cseed))
	n := uint64(len(roots))
	oldRoot := c16ORoot(roots)
	newRoot := c16ORoot(append(c16CopyHashes(roots), app...))
	name := fmt.Sprintf("n=%d appended=%d", n, len(app))
	rootsHex, appHex := c16HexList(roots), c16HexList(app)
	rep := func(what string) map[string]any {
		return map[string]any{"kind": "append", "roots": rootsHex, "appended": appHex, "cseed": cseed, "what": what}
	}
	t.eval("append "+name+" "+c16Hex(newRoot), n+uint64(len(app)) > 0)
	t.count("append:cases")
	t.count(fmt.Sprintf("append:batch:%s", c16Bucket(len(app))))
	var st []c16H
	var built c16H
	if p, msg := fw.Recover(func() { st, built = rhp4.BuildAppendProof(roots, app) }); p {
		t.violate("c16-panic:BuildAppendProof", "BuildAppendProof panicked on "+name, rep("build"), "a proof", "panic: "+msg)
		return
	}
	if built != newRoot {
		t.violate("c16-root-mismatch:BuildAppendProof", "BuildAppendProof's new root differs from the plain tree over roots++appended, "+name, rep("build"), c16Hex(newRoot), c16Hex(built))
	}
	t.model(fmt.Sprintf("rhp-append-build4 %s %s", rootsHex, appHex), c16HexList(st)+" "+c16Hex(built))
	v4 := func(st, app []c16H, o, nw c16H) string {
		return c16Verdict(func() bool { return rhp4.VerifyAppendSectorsProof(n, st, app, o, nw) })
	}
	m4 := func(st, app []c16H, o, nw c16H, got string) {
		t.model(fmt.Sprintf("rhp-append-verify4 %d %s %s %s %s", n, c16HexList(st), c16HexList(app), c16Hex(o), c16Hex(nw)), got)
	}
	v2 := func(st []c16H, sr, o, nw c16H) string {
		return c16Verdict(func() bool { return rhp2.VerifyAppendProof(n, st, sr, o, nw) })
	}
	m2 := func(st []c16H, sr, o, nw c16H, got string) {
		t.model(fmt.Sprintf("rhp-append-verify2 %d %s %s %s %s", n, c16HexList(st), c16Hex(sr), c16Hex(o), c16Hex(nw)), got)
	}
	honest := v4(st, app, oldRoot, newRoot)
	if honest != "1" {
		t.violate("c16-honest-proof-rejected:append", "VerifyAppendSectorsProof rejects BuildAppendProof's proof with the true roots, "+name, rep("honest"), "1", honest)
	}
	m4(st, app, oldRoot, newRoot, honest)
	type corr struct {
		what   string
		st, ap []c16H
		o, nw  c16H
	}
	var cs []corr
	for i := range st {
		cs = append(cs, corr{"subtree-root", c16WithFlipped(st, i, rng), app, oldRoot, newRoot})
		cs = append(cs, corr{"subtree-root-dropped", c16Without(st, i), app, oldRoot, newRoot})
	}
	for i := range app {
		cs = append(cs, corr{"appended-root", st, c16WithFlipped(app, i, rng), oldRoot, newRoot})
	}
	if len(app) >= 2 && app[0] != app[1] {
		sw := c16CopyHashes(app)
		sw[0], sw[1] = sw[1], sw[0]
		cs = append(cs, corr{"appended-swapped", st, sw, oldRoot, newRoot})
	}
	if len(app) >= 1 {
		cs = append(cs, corr{"appended-dropped", st, app[:len(app)-1], oldRoot, newRoot})
	}
	cs = append(cs, corr{"appended-extra", st, append(c16CopyHashes(app), c16RandHash(rng)), oldRoot, newRoot})
	cs = append(cs, corr{"old-root", st, app, c16Flip(oldRoot, rng), newRoot})
	cs = append(cs, corr{"new-root", st, app, oldRoot, c16Flip(newRoot, rng)})
	pick := map[int]bool{}
	for _, i := range rng.Perm(len(cs)) {
		if modelSample >= 0 && len(pick) >= modelSample {
			break
		}
		pick[i] = true
	}
	for i, c := range cs {
		got := v4(c.st, c.ap, c.o, c.nw)
		t.eval(fmt.Sprintf("append-corrupt %s %s %d %d", name, c.what, i, cseed), true)
		t.count("append:corrupt:" + c.what)
		if got != "0" {
			m := rep(c.what)
			m["corrupt_subtree"], m["corrupt_appended"], m["corrupt_old"], m["corrupt_new"] = c16HexList(c.st), c16HexList(c.ap), c16Hex(c.o), c16Hex(c.nw)
			t.violate("c16-accepts-corrupt:append:"+c.what, fmt.Sprintf("VerifyAppendSectorsProof verdict %s on a corrupted instance (%s) of %s", got, c.what, name), m, "0", got)
		}
		if pick[i] {
			m4(c.st, c.ap, c.o, c.nw, got)
		}
	}
	// longer list: extra hashes are ignored by this verifier — allowed by the statement
	longer := append(c16CopyHashes(st), c16RandHash(rng))
	got := v4(longer, app, oldRoot, newRoot)
	if got == "1" {
		t.count("append:longer-accepted")
	} else {
		t.count("append:longer-" + got)
	}
	m4(longer, app, oldRoot, newRoot, got)
	// wrong element count: trusted input, only counted
	if n > 0 {
		w := c16Verdict(func() bool { return rhp4.VerifyAppendSectorsProof(n-1, st, app, oldRoot, newRoot) })
		t.count("append:wrong-n(trusted-input,not-checked):verdict-" + w)
	}
	if len(app) != 1 {
		return
	}
	// rhp/v2 single append
	sr := app[0]
	h2 := v2(st, sr, oldRoot, newRoot)
	if h2 != "1" {
		t.violate("c16-honest-proof-rejected:append2", "rhp2.VerifyAppendProof rejects the honest subtree roots, "+name, rep("honest2"), "1", h2)
	}
	m2(st, sr, oldRoot, newRoot, h2)
	rej2 := func(what string, st []c16H, sr, o, nw c16H) {
		got := v2(st, sr, o, nw)
		t.eval(fmt.Sprintf("append2-corrupt %s %s %d", name, what, cseed), true)
		t.count("append2:corrupt:" + what)
		if got != "0" {
			t.violate("c16-accepts-corrupt:append2:"+what, fmt.Sprintf("rhp2.VerifyAppendProof verdict %s on a corrupted instance (%s) of %s", got, what, name), rep("v2:"+what), "0", got)
		}
		if modelSample < 0 || rng.Intn(3) == 0 {
			m2(st, sr, o, nw, got)
		}
	}
	for i := range st {
		rej2("subtree-root", c16WithFlipped(st, i, rng), sr, oldRoot, newRoot)
		rej2("subtree-root-dropped", c16Without(st, i), sr, oldRoot, newRoot)
	}
	rej2("appended-root", st, c16Flip(sr, rng), oldRoot, newRoot)
	rej2("old-root", st, sr, c16Flip(oldRoot, rng), newRoot)
	rej2("new-root", st, sr, oldRoot, c16Flip(newRoot, rng))
	if got := v2(longer, sr, oldRoot, newRoot); got == "1" {
		t.count("append2:longer-accepted")
	} else {
		t.count("append2:longer-" + got)
	}
}

func c16Bucket(k int) string {
	switch {
	case k <= 5:
		return fmt.Sprint(k)
	case k <= 30:
		return "6..30"
	}
	return ">30"
}

func (r *c16run) secAppend() {
	maxN := r.c.Budget(24, 40)
	type spec struct{ n, k int }
	var specs []spec
	for n := 0; n <= maxN; n++ {
		for k := 0; k <= 5; k++ {
			specs = append(specs, spec{n, k})
		}
	}
	for i := 0; i < r.c.Budget(80, 2000); i++ {
		n := r.c.Rng.Intn(r.c.Budget(300, 1400))
		if i%4 == 0 {
			n = (1 << uint(r.c.Rng.Intn(10))) - r.c.Rng.Intn(2)
		}
		specs = append(specs, spec{n, r.c.Rng.Intn(40)})
	}
	const per = 16
	r.parallel((len(specs)+per-1)/per, func(ti int, t *c16task) {
		for j := ti * per; j < (ti+1)*per && j < len(specs); j++ {
			s := specs[j]
			ms := 4
			if s.n <= 12 {
				ms = -1
			}
			t.appendCase(c16RandHashes(t.rng, s.n), c16RandHashes(t.rng, s.k), t.rng.Int63(), ms)
		}
	})
}

// ------------------------------------------------------------------ free

// c16ApplyFree: the operation itself — for i, x := range freed { swap roots[x]
// and roots[n-1-i] }; then drop the last len(freed).
func c16ApplyFree(roots []c16H, freed []uint64) []c16H {
	out := c16CopyHashes(roots)
	n := len(out)
	for i, x := range freed {
		out[x], out[n-1-i] = out[n-1-i], out[x]
	}
	return out[:n-len(freed)]
}

func c16ActionsToken(as []rhp2.RPCWriteAction, appendRoots []c16H) string {
	if len(as) == 0 {
		return "-"
	}
	var ts []string
	ai := 0
	for _, a := range as {
		switch a.Type {
		case rhp2.RPCWriteActionAppend:
			ts = append(ts, "a:"+c16Hex(appendRoots[ai]))
			ai++
		case rhp2.RPCWriteActionTrim:
			ts = append(ts, fmt.Sprintf("t:%d", a.A))
		case rhp2.RPCWriteActionSwap:
			ts = append(ts, fmt.Sprintf("s:%d:%d", a.A, a.B))
		default:
			ts = append(ts, "u")
		}
	}
	return strings.Join(ts, ",")
}

func (t *c16task) freeCase(roots []c16H, freed []uint64, cseed int64, modelSample int) {
	rng := rand.New(rand.NewSource(cseed))
	n := uint64(len(roots))
	// admissibility (RPCFreeSectorsRequest.Validate): distinct, in range, non-empty
	seen := map[uint64]bool{}
	for _, x := range freed {
		if x >= n || seen[x] {
			return
		}
		seen[x] = true
	}
	if len(freed) == 0 {
		return
	}
	oldRoot := c16ORoot(roots)
	newRoot := c16ORoot(c16ApplyFree(roots, freed))
	name := fmt.Sprintf("n=%d freed=%s", n, c16IdxList(freed))
	rootsHex, freedS := c16HexList(roots), c16IdxList(freed)
	rep := func(what string) map[string]any {
		return map[string]any{"kind": "free", "roots": rootsHex, "freed": freed, "cseed": cseed, "what": what}
	}
	t.eval("free "+name+" "+c16Hex(oldRoot), true)
	t.count("free:cases")
	t.count("free:freed:" + c16Bucket(len(freed)))
	if uint64(len(freed)) == n {
		t.count("free:shape:everything-freed")
	}
	var tree, leaf []c16H
	if p, msg := fw.Recover(func() { tree, leaf = rhp4.BuildFreeSectorsProof(roots, freed) }); p {
		t.violate("c16-panic:BuildFreeSectorsProof", "BuildFreeSectorsProof panicked on admissible "+name, rep("build"), "a proof", "panic: "+msg)
		t.model(fmt.Sprintf("rhp-free-build %s %s", rootsHex, freedS), "panic")
		return
	}
	t.model(fmt.Sprintf("rhp-free-build %s %s", rootsHex, freedS), "ok "+c16HexList(tree)+" "+c16HexList(leaf))
	t.model(fmt.Sprintf("rhp-free-apply %s %s", rootsHex, freedS), "ok "+c16Hex(newRoot))
	var acts []rhp2.RPCWriteAction
	var size uint64
	if p, msg := fw.Recover(func() {
		acts = rhp4.VerifConvertFreeActions(freed, n)
		size = rhp2.DiffProofSize(acts, n)
	}); p {
		t.violate("c16-panic:DiffProofSize", "DiffProofSize panicked on the actions of "+name, rep("size"), "a size", "panic: "+msg)
	} else {
		if uint64(len(tree)+len(leaf)) != size {
			t.violate("c16-proof-size:diff", fmt.Sprintf("BuildFreeSectorsProof(%s) has %d+%d hashes, DiffProofSize says %d", name, len(tree), len(leaf), size), rep("size"), fmt.Sprint(size), fmt.Sprint(len(tree)+len(leaf)))
		}
		t.model(fmt.Sprintf("rhp-diff-size %s %d", c16ActionsToken(acts, nil), n), fmt.Sprintf("ok %d", size))
	}
	vf := func(tr, lf []c16H, fr []uint64, o, nw c16H) string {
		return c16Verdict(func() bool { return rhp4.VerifyFreeSectorsProof(tr, lf, fr, n, o, nw) })
	}
	mf := func(tr, lf []c16H, fr []uint64, o, nw c16H, got string) {
		t.model(fmt.Sprintf("rhp-free-verify %s %s %s %d %s %s", c16HexList(tr), c16HexList(lf), c16IdxList(fr), n, c16Hex(o), c16Hex(nw)), c16OkB(got))
	}
	honest := vf(tree, leaf, freed, oldRoot, newRoot)
	if honest != "1" {
		t.violate("c16-honest-proof-rejected:free", "VerifyFreeSectorsProof rejects BuildFreeSectorsProof's proof with the true old and new roots, "+name, rep("honest"), "1", honest)
	}
	mf(tree, leaf, freed, oldRoot, newRoot, honest)
	type corr struct {
		what        string
		tr, lf      []c16H
		fr          []uint64
		o, nw       c16H
		onlyIfFalse bool // reject required only when the claim (fr, o, nw) is false
	}
	var cs []corr
	for i := range tree {
		cs = append(cs, corr{"tree-hash", c16WithFlipped(tree, i, rng), leaf, freed, oldRoot, newRoot, false})
		cs = append(cs, corr{"tree-hash-dropped", c16Without(tree, i), leaf, freed, oldRoot, newRoot, false})
	}
	for i := range leaf {
		cs = append(cs, corr{"leaf-hash", tree, c16WithFlipped(leaf, i, rng), freed, oldRoot, newRoot, false})
	}
	if len(leaf) >= 2 {
		i := rng.Intn(len(leaf) - 1)
		if leaf[i] != leaf[i+1] {
			sw := c16CopyHashes(leaf)
			sw[i], sw[i+1] = sw[i+1], sw[i]
			cs = append(cs, corr{"leaf-hash-swapped", tree, sw, freed, oldRoot, newRoot, false})
		}
	}
	cs = append(cs, corr{"tree-hash-appended", append(c16CopyHashes(tree), c16RandHash(rng)), leaf, freed, oldRoot, newRoot, false})
	cs = append(cs, corr{"tree-hash-prepended", c16InsertAt(tree, 0, c16RandHash(rng)), leaf, freed, oldRoot, newRoot, false})
	if len(leaf) > 0 {
		cs = append(cs, corr{"leaf-hash-dropped", tree, c16Without(leaf, rng.Intn(len(leaf))), freed, oldRoot, newRoot, false})
	}
	cs = append(cs, corr{"leaf-hash-added", tree, append(c16CopyHashes(leaf), c16RandHash(rng)), freed, oldRoot, newRoot, false})
	cs = append(cs, corr{"old-root", tree, leaf, freed, c16Flip(oldRoot, rng), newRoot, false})
	cs = append(cs, corr{"new-root", tree, leaf, freed, oldRoot, c16Flip(newRoot, rng), false})
	// one freed index replaced by an unused in-range index
	if uint64(len(freed)) < n {
		var unused []uint64
		for x := uint64(0); x < n; x++ {
			if !seen[x] {
				unused = append(unused, x)
			}
		}
		fr := append([]uint64(nil), freed...)
		fr[rng.Intn(len(fr))] = unused[rng.Intn(len(unused))]
		cs = append(cs, corr{"freed-index", tree, leaf, fr, oldRoot, newRoot, true})
	}
	if len(freed) >= 2 { // same set, another order: a different operation
		fr := append([]uint64(nil), freed...)
		i := rng.Intn(len(fr) - 1)
		fr[i], fr[i+1] = fr[i+1], fr[i]
		cs = append(cs, corr{"freed-order", tree, leaf, fr, oldRoot, newRoot, true})
	}
	pick := map[int]bool{}
	for _, i := range rng.Perm(len(cs)) {
		if modelSample >= 0 && len(pick) >= modelSample {
			break
		}
		pick[i] = true
	}
	for i, c := range cs {
		got := vf(c.tr, c.lf, c.fr, c.o, c.nw)
		t.eval(fmt.Sprintf("free-corrupt %s %s %d %d", name, c.what, i, cseed), true)
		if pick[i] {
			mf(c.tr, c.lf, c.fr, c.o, c.nw, got)
		}
		if c.onlyIfFalse && c16ORoot(c16ApplyFree(roots, c.fr)) == c.nw {
			// freeing c.fr really gives the same new root: the claim is true
			t.count("free:corrupt:" + c.what + ":claim-still-true:verdict-" + got)
			continue
		}
		t.count("free:corrupt:" + c.what)
		if got != "0" {
			m := rep(c.what)
			m["corrupt_tree"], m["corrupt_leaf"], m["corrupt_freed"], m["corrupt_old"], m["corrupt_new"] = c16HexList(c.tr), c16HexList(c.lf), c.fr, c16Hex(c.o), c16Hex(c.nw)
			t.violate("c16-accepts-corrupt:free:"+c.what, fmt.Sprintf("VerifyFreeSectorsProof verdict %s on a corrupted instance (%s) of %s", got, c.what, name), m, "0", got)
		}
	}
	if n > 0 {
		w := c16Verdict(func() bool { return rhp4.VerifyFreeSectorsProof(tree, leaf, freed, n+1, oldRoot, newRoot) })
		t.count("free:wrong-n(trusted-input,not-checked):verdict-" + w)
	}
}

func c16Perms(xs []uint64) [][]uint64 {
	if len(xs) <= 1 {
		return [][]uint64{append([]uint64(nil), xs...)}
	}
	var out [][]uint64
	for i := range xs {
		rest := append(append([]uint64(nil), xs[:i]...), xs[i+1:]...)
		for _, p := range c16Perms(rest) {
			out = append(out, append([]uint64{xs[i]}, p...))
		}
	}
	return out
}

func (r *c16run) secFree() {
	type spec struct {
		n     int
		freed []uint64
		all   bool
	}
	var specs []spec
	maxN := r.c.Budget(6, 8)
	for n := 1; n <= maxN; n++ {
		for mask := 1; mask < 1<<uint(n); mask++ {
			var asc []uint64
			for i := 0; i < n; i++ {
				if mask&(1<<uint(i)) != 0 {
					asc = append(asc, uint64(i))
				}
			}
			if n <= 5 {
				for _, p := range c16Perms(asc) {
					specs = append(specs, spec{n, p, n <= 4})
				}
				continue
			}
			desc := make([]uint64, len(asc))
			for i, x := range asc {
				desc[len(asc)-1-i] = x
			}
			rnd := append([]uint64(nil), asc...)
			r.c.Rng.Shuffle(len(rnd), func(i, j int) { rnd[i], rnd[j] = rnd[j], rnd[i] })
			specs = append(specs, spec{n, asc, false}, spec{n, desc, false}, spec{n, rnd, false})
		}
	}
	nExh := len(specs)
	bigN := r.c.Budget(200, 5000)
	for i := 0; i < r.c.Budget(150, 3000); i++ {
		n := 1 + r.c.Rng.Intn(bigN)
		if i%3 == 0 {
			n = 1 + r.c.Rng.Intn(40)
		}
		k := 1 + r.c.Rng.Intn(30)
		if k > n {
			k = n
		}
		perm := r.c.Rng.Perm(n)[:k]
		freed := make([]uint64, k)
		for j, x := range perm {
			freed[j] = uint64(x)
		}
		switch i % 5 {
		case 0: // the tail itself
			for j := range freed {
				freed[j] = uint64(n - 1 - j)
			}
		case 1: // tail in ascending order
			for j := range freed {
				freed[j] = uint64(n - k + j)
			}
		}
		specs = append(specs, spec{n, freed, false})
	}
	const per = 12
	r.parallel((len(specs)+per-1)/per, func(ti int, t *c16task) {
		for j := ti * per; j < (ti+1)*per && j < len(specs); j++ {
			s := specs[j]
			ms := 3
			if s.all {
				ms = -1
			}
			if s.n > 1500 {
				ms = -2 // too long for a model line
			}
			if j < nExh {
				t.count("free:n:exhaustive-subsets")
			} else {
				t.count("free:n:random")
			}
			if ms == -2 {
				t.freeCaseNoModel(c16RandHashes(t.rng, s.n), s.freed, t.rng.Int63())
				continue
			}
			t.freeCase(c16RandHashes(t.rng, s.n), s.freed, t.rng.Int63(), ms)
		}
	})
	r.res.Note("free proofs: every non-empty subset of indices for n<=%d (all orders for n<=5; ascending, descending, one random order above): %d cases; plus random n<=%d", maxN, nExh, bigN)
}

// freeCaseNoModel runs freeCase but drops the queued model lines (inputs too long).
func (t *c16task) freeCaseNoModel(roots []c16H, freed []uint64, cseed int64) {
	k := len(t.ops)
	t.freeCase(roots, freed, cseed, 0)
	t.ops, t.outs, t.cost = t.ops[:k], t.outs[:k], t.cost[:k]
	t.count("free:model-skipped(n>1500)")
}

// ------------------------------------------------------------------ general diff proofs

type c16Action struct {
	typ  byte // 'a', 't', 's'
	a, b uint64
	root c16H
}

func c16ParseActions(s string) ([]c16Action, bool) {
	if s == "-" || s == "" {
		return nil, true
	}
	var out []c16Action
	for _, tok := range strings.Split(s, ",") {
		f := strings.Split(tok, ":")
		switch {
		case len(f) == 2 && f[0] == "a":
			hs := c16ParseHashes(f[1])
			if len(hs) != 1 {
				return nil, false
			}
			out = append(out, c16Action{typ: 'a', root: hs[0]})
		case len(f) == 2 && f[0] == "t":
			k, err := strconv.ParseUint(f[1], 10, 64)
			if err != nil {
				return nil, false
			}
			out = append(out, c16Action{typ: 't', a: k})
		case len(f) == 3 && f[0] == "s":
			a, e1 := strconv.ParseUint(f[1], 10, 64)
			b, e2 := strconv.ParseUint(f[2], 10, 64)
			if e1 != nil || e2 != nil {
				return nil, false
			}
			out = append(out, c16Action{typ: 's', a: a, b: b})
		default:
			return nil, false
		}
	}
	return out, true
}

func c16ActionsString(as []c16Action) string {
	if len(as) == 0 {
		return "-"
	}
	ts := make([]string, len(as))
	for i, a := range as {
		switch a.typ {
		case 'a':
			ts[i] = "a:" + c16Hex(a.root)
		case 't':
			ts[i] = fmt.Sprintf("t:%d", a.a)
		default:
			ts[i] = fmt.Sprintf("s:%d:%d", a.a, a.b)
		}
	}
	return strings.Join(ts, ",")
}

func c16GoActions(as []c16Action) (acts []rhp2.RPCWriteAction, appendRoots []c16H) {
	for _, a := range as {
		switch a.typ {
		case 'a':
			acts = append(acts, rhp2.RPCWriteAction{Type: rhp2.RPCWriteActionAppend})
			appendRoots = append(appendRoots, a.root)
		case 't':
			acts = append(acts, rhp2.RPCWriteAction{Type: rhp2.RPCWriteActionTrim, A: a.a})
		default:
			acts = append(acts, rhp2.RPCWriteAction{Type: rhp2.RPCWriteActionSwap, A: a.a, B: a.b})
		}
	}
	return
}

// c16ApplyActions applies a VALID action list; ok=false when it is not valid.
func c16ApplyActions(roots []c16H, as []c16Action) (out []c16H, ok bool) {
	out = c16CopyHashes(roots)
	for _, a := range as {
		switch a.typ {
		case 'a':
			out = append(out, a.root)
		case 't':
			if a.a > uint64(len(out)) {
				return nil, false
			}
			out = out[:uint64(len(out))-a.a]
		default:
			if a.a >= uint64(len(out)) || a.b >= uint64(len(out)) {
				return nil, false
			}
			out[a.a], out[a.b] = out[a.b], out[a.a]
		}
	}
	return out, true
}

// c16DiffClass: which part of the statement the action list falls under.
func c16DiffClass(as []c16Action) (class string, inScope bool) {
	na, nt, ns := 0, 0, 0
	for _, a := range as {
		switch a.typ {
		case 'a':
			na++
		case 't':
			nt++
		default:
			ns++
		}
	}
	switch {
	case len(as) == 0:
		return "empty", true
	case nt == 0 && ns == 0:
		return "appends", true
	case nt == 0 && na == 0:
		return "swaps", true
	case nt == 0:
		return "swaps+appends", true
	case nt == 1 && na == 0 && as[len(as)-1].typ == 't':
		return "swaps-then-trim", true
	}
	// every valid list is in scope: C16.c16_diff_complete_general / c16_diff_sound_general cover
	// appends, swaps and trims in any order and number (rhp/v2 write batches)
	return "mixed(append/swap/trim-any-order)", true
}

func (t *c16task) diffCase(roots []c16H, as []c16Action, cseed int64, modelSample int) {
	rng := rand.New(rand.NewSource(cseed))
	n := uint64(len(roots))
	newList, valid := c16ApplyActions(roots, as)
	if !valid {
		return
	}
	class, inScope := c16DiffClass(as)
	oldRoot, newRoot := c16ORoot(roots), c16ORoot(newList)
	asS, rootsHex := c16ActionsString(as), c16HexList(roots)
	name := fmt.Sprintf("n=%d actions=%s", n, c16ShortActions(as))
	rep := func(what string) map[string]any {
		return map[string]any{"kind": "diff", "roots": rootsHex, "actions": asS, "cseed": cseed, "what": what, "class": class}
	}
	t.eval("diff "+name+" "+c16Hex(oldRoot)+c16Hex(newRoot), len(as) > 0)
	t.count("diff:class:" + class)
	// the model's SPECIFICATION of what the actions denote (applyActions) against the oracle
	t.model(fmt.Sprintf("rhp-diff-apply %s %s", asS, rootsHex), "ok "+c16Hex(newRoot))
	acts, _ := c16GoActions(as)
	var tree, leaf []c16H
	if p, msg := fw.Recover(func() { tree, leaf = rhp2.BuildDiffProof(acts, roots) }); p {
		if inScope {
			t.violate("c16-panic:BuildDiffProof", "BuildDiffProof panicked on valid "+name, rep("build"), "a proof", "panic: "+msg)
		} else {
			t.count("diff-exotic:build-panic")
		}
		t.model(fmt.Sprintf("rhp-diff-build %s %s", asS, rootsHex), "panic")
		return
	}
	t.model(fmt.Sprintf("rhp-diff-build %s %s", asS, rootsHex), "ok "+c16HexList(tree)+" "+c16HexList(leaf))
	var size uint64
	if p, _ := fw.Recover(func() { size = rhp2.DiffProofSize(acts, n) }); p {
		t.model(fmt.Sprintf("rhp-diff-size %s %d", asS, n), "panic")
		if inScope {
			t.violate("c16-panic:DiffProofSize", "DiffProofSize panicked on valid "+name, rep("size"), "a size", "panic")
		}
	} else {
		t.model(fmt.Sprintf("rhp-diff-size %s %d", asS, n), fmt.Sprintf("ok %d", size))
		if uint64(len(tree)+len(leaf)) != size {
			if inScope {
				t.violate("c16-proof-size:diff", fmt.Sprintf("BuildDiffProof(%s) has %d+%d hashes, DiffProofSize says %d", name, len(tree), len(leaf), size), rep("size"), fmt.Sprint(size), fmt.Sprint(len(tree)+len(leaf)))
			} else {
				t.count("diff-exotic:size-differs")
			}
		}
	}
	vd := func(as2 []c16Action, tr, lf []c16H, o, nw c16H) string {
		a2, ar := c16GoActions(as2)
		return c16Verdict(func() bool { return rhp2.VerifyDiffProof(a2, n, tr, lf, o, nw, ar) })
	}
	md := func(as2 []c16Action, tr, lf []c16H, o, nw c16H, got string) {
		t.model(fmt.Sprintf("rhp-diff-verify %s %d %s %s %s %s", c16ActionsString(as2), n, c16HexList(tr), c16HexList(lf), c16Hex(o), c16Hex(nw)), c16OkB(got))
	}
	honest := vd(as, tree, leaf, oldRoot, newRoot)
	md(as, tree, leaf, oldRoot, newRoot, honest)
	if honest != "1" {
		if inScope {
			t.violate("c16-honest-proof-rejected:diff:"+class, "VerifyDiffProof rejects BuildDiffProof's proof with the true old and new roots, "+name, rep("honest"), "1", honest)
		} else {
			t.count("diff-exotic:honest-rejected:verdict-" + honest)
			t.r.noteOnce("diff-exotic-rejected", "exotic diff (not in the C16 statement) whose honest proof is not accepted (verdict %s): roots=%s actions=%s old=%s new=%s", honest, rootsHex, asS, c16Hex(oldRoot), c16Hex(newRoot))
		}
	} else if !inScope {
		t.count("diff-exotic:honest-accepted")
	}
	type corr struct {
		what   string
		as     []c16Action
		tr, lf []c16H
		o, nw  c16H
	}
	var cs []corr
	for i := range tree {
		cs = append(cs, corr{"tree-hash", as, c16WithFlipped(tree, i, rng), leaf, oldRoot, newRoot})
	}
	if len(tree) > 0 {
		cs = append(cs, corr{"tree-hash-dropped", as, c16Without(tree, rng.Intn(len(tree))), leaf, oldRoot, newRoot})
	}
	cs = append(cs, corr{"tree-hash-appended", as, append(c16CopyHashes(tree), c16RandHash(rng)), leaf, oldRoot, newRoot})
	for i := range leaf {
		cs = append(cs, corr{"leaf-hash", as, tree, c16WithFlipped(leaf, i, rng), oldRoot, newRoot})
	}
	if len(leaf) > 0 {
		cs = append(cs, corr{"leaf-hash-dropped", as, tree, c16Without(leaf, rng.Intn(len(leaf))), oldRoot, newRoot})
	}
	cs = append(cs, corr{"leaf-hash-added", as, tree, append(c16CopyHashes(leaf), c16RandHash(rng)), oldRoot, newRoot})
	cs = append(cs, corr{"old-root", as, tree, leaf, c16Flip(oldRoot, rng), newRoot})
	cs = append(cs, corr{"new-root", as, tree, leaf, oldRoot, c16Flip(newRoot, rng)})
	for i, a := range as {
		if a.typ == 'a' {
			as2 := append([]c16Action(nil), as...)
			as2[i].root = c16Flip(a.root, rng)
			if nl, ok := c16ApplyActions(roots, as2); ok && c16ORoot(nl) != newRoot {
				cs = append(cs, corr{"appended-root", as2, tree, leaf, oldRoot, newRoot})
			}
		}
	}
	// one swap index altered (only when that makes the claim false)
	var swaps []int
	for i, a := range as {
		if a.typ == 's' {
			swaps = append(swaps, i)
		}
	}
	if len(swaps) > 0 && n+uint64(len(as)) > 1 {
		i := swaps[rng.Intn(len(swaps))]
		as2 := append([]c16Action(nil), as...)
		d := 1 + uint64(rng.Intn(int(n)+len(as)))
		if rng.Intn(2) == 0 {
			as2[i].a = (as2[i].a + d) % (n + uint64(len(as)))
		} else {
			as2[i].b = (as2[i].b + d) % (n + uint64(len(as)))
		}
		if nl, ok := c16ApplyActions(roots, as2); ok {
			if c16ORoot(nl) != newRoot {
				cs = append(cs, corr{"swap-index", as2, tree, leaf, oldRoot, newRoot})
			} else {
				t.count("diff:corrupt:swap-index:claim-still-true(skipped)")
			}
		}
	}
	pick := map[int]bool{}
	for _, i := range rng.Perm(len(cs)) {
		if modelSample >= 0 && len(pick) >= modelSample {
			break
		}
		pick[i] = true
	}
	for i, c := range cs {
		got := vd(c.as, c.tr, c.lf, c.o, c.nw)
		t.eval(fmt.Sprintf("diff-corrupt %s %s %d %d", name, c.what, i, cseed), true)
		if pick[i] {
			md(c.as, c.tr, c.lf, c.o, c.nw, got)
		}
		if !inScope {
			t.count("diff-exotic:corrupt:verdict-" + got)
			if got != "0" && honest == "1" {
				t.count("diff-exotic:corrupt-not-rejected:" + c.what)
				t.r.noteOnce("diff-exotic-corrupt", "exotic diff (not in the C16 statement): corrupted instance (%s) not rejected (verdict %s): n=%d actions=%s tree=%s leaf=%s old=%s new=%s (honest actions %s)",
					c.what, got, n, c16ActionsString(c.as), c16HexList(c.tr), c16HexList(c.lf), c16Hex(c.o), c16Hex(c.nw), asS)
			}
			continue
		}
		if honest != "1" {
			continue
		}
		t.count("diff:corrupt:" + c.what)
		if got != "0" {
			m := rep(c.what)
			m["corrupt_actions"], m["corrupt_tree"], m["corrupt_leaf"], m["corrupt_old"], m["corrupt_new"] = c16ActionsString(c.as), c16HexList(c.tr), c16HexList(c.lf), c16Hex(c.o), c16Hex(c.nw)
			t.violate("c16-accepts-corrupt:diff:"+c.what, fmt.Sprintf("VerifyDiffProof verdict %s on a corrupted instance (%s) of %s", got, c.what, name), m, "0", got)
		}
	}
}

func c16ShortActions(as []c16Action) string {
	if len(as) == 0 {
		return "-"
	}
	ts := make([]string, len(as))
	for i, a := range as {
		switch a.typ {
		case 'a':
			ts[i] = "a"
		case 't':
			ts[i] = fmt.Sprintf("t%d", a.a)
		default:
			ts[i] = fmt.Sprintf("s%d:%d", a.a, a.b)
		}
	}
	return strings.Join(ts, ",")
}

func (r *c16run) noteOnce(key, f string, a ...any) {
	r.noteMu.Lock()
	defer r.noteMu.Unlock()
	if r.noted == nil {
		r.noted = map[string]bool{}
	}
	if r.noted[key] {
		return
	}
	r.noted[key] = true
	r.res.Note(f, a...)
}

// c16RandActions draws a valid action list of the given shape.
func c16RandActions(rng *rand.Rand, n int, shape int) []c16Action {
	cur := n
	var as []c16Action
	swap := func() {
		if cur == 0 {
			return
		}
		a, b := uint64(rng.Intn(cur)), uint64(rng.Intn(cur))
		if rng.Intn(4) == 0 && cur > 0 {
			b = uint64(cur - 1)
		}
		as = append(as, c16Action{typ: 's', a: a, b: b})
	}
	app := func() {
		as = append(as, c16Action{typ: 'a', root: c16RandHash(rng)})
		cur++
	}
	trim := func(max int) {
		k := 0
		if cur > 0 {
			k = rng.Intn(min(cur, max) + 1)
		}
		as = append(as, c16Action{typ: 't', a: uint64(k)})
		cur -= k
	}
	switch shape {
	case 0: // empty
	case 1: // appends
		for i := 0; i < 1+rng.Intn(5); i++ {
			app()
		}
	case 2: // swaps
		for i := 0; i < 1+rng.Intn(5); i++ {
			swap()
		}
	case 3: // swaps + appends, any order
		for i := 0; i < 2+rng.Intn(7); i++ {
			if rng.Intn(2) == 0 {
				swap()
			} else {
				app()
			}
		}
	case 4: // swaps then one trim
		for i := 0; i < rng.Intn(6); i++ {
			swap()
		}
		trim(6)
	default: // anything valid
		for i := 0; i < 1+rng.Intn(8); i++ {
			switch rng.Intn(3) {
			case 0:
				swap()
			case 1:
				app()
			default:
				trim(4)
			}
		}
	}
	return as
}

func (r *c16run) secDiff() {
	type spec struct{ n, shape int }
	var specs []spec
	// small n densely, every shape
	for n := 0; n <= 12; n++ {
		for shape := 0; shape <= 5; shape++ {
			reps := r.c.Budget(6, 40)
			if shape == 0 {
				reps = 1
			}
			for k := 0; k < reps; k++ {
				specs = append(specs, spec{n, shape})
			}
		}
	}
	for i := 0; i < r.c.Budget(600, 12000); i++ {
		specs = append(specs, spec{r.c.Rng.Intn(65), 1 + r.c.Rng.Intn(5)})
	}
	const per = 16
	r.parallel((len(specs)+per-1)/per, func(ti int, t *c16task) {
		for j := ti * per; j < (ti+1)*per && j < len(specs); j++ {
			s := specs[j]
			roots := c16RandHashes(t.rng, s.n)
			as := c16RandActions(t.rng, s.n, s.shape)
			ms := 3
			if s.n <= 8 {
				ms = -1
			}
			t.diffCase(roots, as, t.rng.Int63(), ms)
		}
	})
}
