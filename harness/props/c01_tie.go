package props

// C01T — the ledger model's arithmetic helpers against the code, numerically.
// The ties of lean/SiaProofs/Props/C01Tie.lean are proofs about definitions
// GENERATED from consensus/state.go; this sub-check runs the real functions
// (BlockReward, MaturityHeight, FoundationSubsidy, FileContractTax, the siafund
// claim expression) against both the hand model (`m-…`) and the generated
// definitions (`g-…`, the translator's self-test), and checks that
// new(big.Rat).SetFloat64(0.039) is the model's taxNum/taxDen.

import (
	"fmt"
	"math/big"
	"time"

	"go.sia.tech/core/consensus"
	"go.sia.tech/core/types"
	"verif/harness/internal/fw"
)

func init() { fw.Register("C01T", runC01T) }

func c01tCur(c *fw.Ctx, maxBits int) types.Currency {
	n := uint(c.Rng.Intn(maxBits + 1))
	if n == 0 {
		return types.ZeroCurrency
	}
	b := new(big.Int).Rand(c.Rng, new(big.Int).Lsh(big.NewInt(1), n))
	switch c.Rng.Intn(5) {
	case 0:
		b.Lsh(big.NewInt(1), n-1)
	case 1:
		b.Sub(new(big.Int).Lsh(big.NewInt(1), n), big.NewInt(1))
	}
	lo := new(big.Int).And(b, new(big.Int).SetUint64(^uint64(0))).Uint64()
	hi := new(big.Int).Rsh(b, 64).Uint64()
	return types.NewCurrency(lo, hi)
}

func runC01T(c *fw.Ctx) {
	res := c.Res
	res.Rule = "real consensus.State helpers vs the ledger model (m-) and vs the Lean definitions generated from state.go (g-): FileContractTax on payouts of every magnitude in both eras; BlockReward incl. heights beyond 2^32 and the genesis marker; MaturityHeight; FoundationSubsidy over intervals from 10ms to > 1 year (blocksPerMonth = 0), heights around the fork, void/non-void address, zero interval; the siafund claim expression; big.Rat.SetFloat64(0.039). Non-trivial: non-zero operands; distinct by op line."
	r := c.Rng
	var ops, outs []string
	add := func(line, out string, nontrivial bool) {
		ops = append(ops, line)
		outs = append(outs, out)
		res.Eval(line, nontrivial)
	}
	// --- the float constant
	rat := new(big.Rat).SetFloat64(0.039)
	add("c01t taxrat", rat.Num().String()+" "+rat.Denom().String(), true)
	if rat.Denom().Cmp(new(big.Int).Lsh(big.NewInt(1), 57)) != 0 || rat.Num().String() != "5620492334958379" {
		res.Violate(fw.Violation{Key: "c01t-float-constant", What: "big.Rat.SetFloat64(0.039) is not 5620492334958379/2^57",
			Replay: map[string]any{"kind": "taxrat"}, Expected: "5620492334958379/144115188075855872", Observed: rat.String()})
	}
	n := c.Budget(3000, 150000)
	for i := 0; i < n; i++ {
		switch r.Intn(5) {
		case 0: // FileContractTax
			net := &consensus.Network{}
			net.HardforkTax.Height = 5
			pre := r.Intn(2)
			s := consensus.State{Network: net}
			if pre == 1 {
				s.Index.Height = ^uint64(0) // child height 0 < 5
			} else {
				s.Index.Height = 9
			}
			payout := c01tCur(c, 128)
			var got types.Currency
			out := "panic"
			if p, _ := fw.Recover(func() { got = s.FileContractTax(types.FileContract{Payout: payout}) }); !p {
				out = got.ExactString()
			}
			add(fmt.Sprintf("c01t m-tax %d %s", pre, payout.ExactString()), out, !payout.IsZero())
			res.Count("tax")
		case 1: // BlockReward
			net := &consensus.Network{InitialCoinbase: c01tCur(c, 120), MinimumCoinbase: c01tCur(c, 100)}
			if r.Intn(2) == 0 {
				net.InitialCoinbase = types.Siacoins(300000)
				net.MinimumCoinbase = types.Siacoins(30000)
			}
			h := uint64(r.Intn(400000))
			switch r.Intn(6) {
			case 0:
				h = ^uint64(0)
			case 1:
				h = uint64(1)<<32 - 2 + uint64(r.Intn(5))
			case 2:
				h = r.Uint64()
			}
			s := consensus.State{Network: net}
			s.Index.Height = h
			out := "panic"
			var got types.Currency
			if p, _ := fw.Recover(func() { got = s.BlockReward() }); !p {
				out = got.ExactString()
			}
			add(fmt.Sprintf("c01t m-reward %s %s %d", net.InitialCoinbase.ExactString(), net.MinimumCoinbase.ExactString(), h+1), out, true)
			g := "panic"
			if out != "panic" {
				g = "ok " + out
			}
			add(fmt.Sprintf("c01t g-reward %s %s %d", net.InitialCoinbase.ExactString(), net.MinimumCoinbase.ExactString(), h), g, true)
			res.Count("reward")
		case 2: // MaturityHeight
			net := &consensus.Network{MaturityDelay: uint64(r.Intn(1000))}
			if r.Intn(8) == 0 {
				net.MaturityDelay = r.Uint64()
			}
			h := uint64(r.Intn(1 << 30))
			if r.Intn(8) == 0 {
				h = r.Uint64()
			}
			s := consensus.State{Network: net}
			s.Index.Height = h
			got := s.MaturityHeight()
			add(fmt.Sprintf("c01t g-maturity %d %d", h, net.MaturityDelay), fmt.Sprint(got), true)
			if sum := new(big.Int).Add(new(big.Int).SetUint64(h+1), new(big.Int).SetUint64(net.MaturityDelay)); h != ^uint64(0) && sum.IsUint64() {
				add(fmt.Sprintf("c01t m-maturity %d %d", h+1, net.MaturityDelay), fmt.Sprint(got), true)
			}
			res.Count("maturity")
		case 3: // FoundationSubsidy
			net := &consensus.Network{}
			ivs := []time.Duration{10 * time.Millisecond, time.Second, 10 * time.Minute, 24 * time.Hour, 40 * 24 * time.Hour, 366 * 24 * time.Hour, 0, 1, time.Duration(1 + r.Int63n(int64(400*24*time.Hour)))}
			net.BlockInterval = ivs[r.Intn(len(ivs))]
			net.HardforkFoundation.Height = uint64(r.Intn(100))
			void := r.Intn(4) == 0
			s := consensus.State{Network: net}
			if !void {
				s.FoundationSubsidyAddress[31] = 7
			}
			bpy := uint64(0)
			if net.BlockInterval != 0 {
				bpy = uint64(365 * 24 * time.Hour / net.BlockInterval)
			}
			// heights: before, at, at a month boundary after, off a boundary
			hf := net.HardforkFoundation.Height
			child := uint64(r.Intn(200))
			switch r.Intn(4) {
			case 0:
				child = hf
			case 1:
				if bpy/12 > 0 && bpy/12 < 1<<40 {
					child = hf + (bpy/12)*uint64(1+r.Intn(3))
				}
			}
			s.Index.Height = child - 1
			out := "panic"
			if p, _ := fw.Recover(func() {
				sco, ok := s.FoundationSubsidy()
				if ok {
					out = "some " + sco.Value.ExactString()
				} else {
					out = "none"
				}
			}); p {
				out = "panic"
				res.Count("subsidy:panic")
			}
			v := 0
			if void {
				v = 1
			}
			add(fmt.Sprintf("c01t g-subsidy %d %d %d %d", v, int64(net.BlockInterval), child-1, hf), out, true)
			if net.BlockInterval != 0 { // the tie's hypothesis
				add(fmt.Sprintf("c01t m-subsidy %d %d %d %d", v, bpy, child, hf), out, true)
			}
			res.Count("subsidy")
		default: // the claim expression
			pool, start := c01tCur(c, 128), c01tCur(c, 128)
			if r.Intn(2) == 0 {
				start = c01tCur(c, 100)
				pool, _ = start.AddWithOverflow(c01tCur(c, 110))
			}
			value := uint64(r.Intn(10001))
			if r.Intn(10) == 0 {
				value = r.Uint64()
			}
			out := "panic"
			var got types.Currency
			s := consensus.State{}
			if p, _ := fw.Recover(func() { got = pool.Sub(start).Div64(s.SiafundCount()).Mul64(value) }); !p {
				out = "ok " + got.ExactString()
			}
			add(fmt.Sprintf("c01t m-claim %s %s %d", pool.ExactString(), start.ExactString(), value), out, true)
			res.Count("claim")
		}
	}
	for i := 0; i < len(ops); i += 1 + len(ops)/8 {
		res.Sample(map[string]string{"op": ops[i], "go": outs[i]})
	}
	c.Compare(ops, outs)
}
