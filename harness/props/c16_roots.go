package props

// C16 section (a): roots — block hashing on every CPU path, integer helpers,
// hash-list roots, byte-stream roots, whole-sector roots.

import (
	"strings"
	"bytes"
	"encoding/binary"
	"fmt"
	"io"
	"math"
	"math/rand"
	"testing/iotest"

	xblake "golang.org/x/crypto/blake2b"

	cblake "go.sia.tech/core/blake2b"
	rhp2 "go.sia.tech/core/rhp/v2"
	rhp4 "go.sia.tech/core/rhp/v4"
	"verif/harness/internal/fw"
)

// ------------------------------------------------------------------ block hashing

func c16OBlock(prefix uint64, block *[64]byte) [32]byte {
	var buf [65]byte
	buf[0] = byte(prefix)
	copy(buf[1:], block[:])
	return xblake.Sum256(buf[:])
}

func (t *c16task) hashBlocksCase(g *[4][64]byte, prefix uint64, name string, withModel bool) {
	flat := make([]byte, 0, 256)
	for i := range g {
		flat = append(flat, g[i][:]...)
	}
	hx := c16HexData(flat)
	t.eval(fmt.Sprintf("hashblocks %d %s", prefix, hx), true)
	t.count("hashblocks:" + name)
	t.count(fmt.Sprintf("hashblocks:prefix%d", prefix))
	var want [4][32]byte
	for i := range g {
		want[i] = c16OBlock(prefix, &g[i])
	}
	rep := func() map[string]any {
		return map[string]any{"kind": "hashblocks", "prefix": prefix, "blocks": hx}
	}
	check := func(fn string, got *[4][32]byte, panicked bool, msg string) {
		if panicked {
			t.violate("c16-root-mismatch:"+fn, fn+" panicked on prefix "+fmt.Sprint(prefix)+" blocks "+hx, rep(), "hashes", "panic: "+msg)
			return
		}
		if *got != want {
			t.violate("c16-root-mismatch:"+fn, fmt.Sprintf("%s(prefix %d) differs from blake2b(prefix‖block) on blocks %s", fn, prefix, hx),
				rep(), c16HexList(c16H4(&want)), c16HexList(c16H4(got)))
		}
	}
	var a, b, single, api [4][32]byte
	g1 := *g // the assembly must not modify its input
	p, msg := fw.Recover(func() { cblake.VerifHashBlocks(&a, &g1, prefix) })
	dispatch := "hashBlocks-avx2"
	if !cblake.VerifHasAVX2() {
		dispatch = "hashBlocks-dispatch"
	}
	check(dispatch, &a, p, msg)
	if g1 != *g {
		t.violate("c16-root-mismatch:"+dispatch+"-clobbers-input", "hashBlocks modified its input blocks "+hx, rep(), "input unchanged", "input changed")
	}
	p, msg = fw.Recover(func() { cblake.VerifHashBlocksGeneric(&b, g, prefix) })
	check("hashBlocks-generic", &b, p, msg)
	p, msg = fw.Recover(func() {
		for i := range g {
			single[i] = cblake.VerifHashBlock(&g[i], prefix)
		}
	})
	check("hashBlock", &single, p, msg)
	switch prefix {
	case 0:
		p, msg = fw.Recover(func() { cblake.SumLeaves(&api, g) })
		check("SumLeaves", &api, p, msg)
		p, msg = fw.Recover(func() {
			for i := range g {
				api[i] = cblake.SumLeaf(&g[i])
			}
		})
		check("SumLeaf", &api, p, msg)
	case 1:
		var nodes [8][32]byte
		for i := range g {
			copy(nodes[2*i][:], g[i][:32])
			copy(nodes[2*i+1][:], g[i][32:])
		}
		p, msg = fw.Recover(func() { cblake.SumNodes(&api, &nodes) })
		check("SumNodes", &api, p, msg)
		p, msg = fw.Recover(func() {
			for i := range g {
				api[i] = cblake.SumPair(nodes[2*i], nodes[2*i+1])
			}
		})
		check("SumPair", &api, p, msg)
	}
	if withModel {
		t.modelC(fmt.Sprintf("rhp-hashblocks %d %s", prefix, hx), c16HexList(c16H4(&a)), 12)
		if prefix == 1 { // leaf and node hash of the same 64 bytes
			var l, r c16H
			copy(l[:], g[0][:32])
			copy(r[:], g[0][32:])
			t.modelC("rhp-leafpair "+c16HexData(g[0][:]), c16Hex(cblake.SumLeaf(&g[0]))+" "+c16Hex(cblake.SumPair(l, r)), 6)
		}
	}
}

func c16H4(x *[4][32]byte) []c16H {
	return []c16H{x[0], x[1], x[2], x[3]}
}

func (r *c16run) secHashBlocks() {
	if cblake.VerifHasAVX2() {
		r.res.Count("avx2:present")
	} else {
		r.res.Count("avx2:absent")
		r.res.Note("AVX2 not available: SIMD path not exercised")
	}
	total := r.c.Budget(2000, 200000)
	modelCap := r.c.Budget(2000, 40000)
	const structured = 2*512 + 2*6
	const per = 500
	ntasks := (total + per - 1) / per
	r.parallel(ntasks, func(ti int, t *c16task) {
		for j := ti * per; j < (ti+1)*per && j < total; j++ {
			var g [4][64]byte
			prefix := uint64(j % 2)
			name := "random"
			switch {
			case j < 2*512: // single bit at every position of one block
				pos := j / 2
				lane := pos % 4
				if pos%8 >= 4 {
					for i := range g {
						t.rng.Read(g[i][:])
					}
				}
				g[lane] = [64]byte{}
				g[lane][pos/8] = 1 << (pos % 8)
				name = "single-bit"
			case j < structured:
				switch (j - 2*512) / 2 {
				case 0:
					name = "zeros"
				case 1:
					for i := range g {
						for k := range g[i] {
							g[i][k] = 0xff
						}
					}
					name = "ones"
				case 2:
					for i := range g {
						for k := range g[i] {
							g[i][k] = byte(64*i + k)
						}
					}
					name = "counter"
				case 3:
					for i := range g {
						binary.LittleEndian.PutUint64(g[i][:], uint64(i))
					}
					name = "counter"
				case 4: // identical lanes
					t.rng.Read(g[0][:])
					g[1], g[2], g[3] = g[0], g[0], g[0]
					name = "same-lanes"
				default:
					for i := range g {
						for k := range g[i] {
							g[i][k] = 0x80
						}
					}
					name = "high-bits"
				}
			default:
				for i := range g {
					t.rng.Read(g[i][:])
				}
				if t.rng.Intn(8) == 0 { // sparse
					for i := range g {
						for k := range g[i] {
							if t.rng.Intn(8) != 0 {
								g[i][k] = 0
							}
						}
					}
					name = "sparse"
				}
			}
			t.hashBlocksCase(&g, prefix, name, j < modelCap)
		}
	})
	r.res.Sample(map[string]any{"section": "hashblocks", "groups": total, "avx2": cblake.VerifHasAVX2()})
}

// ------------------------------------------------------------------ integer helpers

func (r *c16run) secIntHelpers() {
	r.serial(func(t *c16task) {
		nss := func(i, j uint64, bucket string) {
			var v uint64
			p, _ := fw.Recover(func() { v = rhp2.VerifNextSubtreeSize(i, j) })
			out := fmt.Sprintf("%d %d", v, v)
			if p {
				out = "panic"
			}
			t.eval(fmt.Sprintf("nss %d %d", i, j), true)
			t.count("nss:" + bucket)
			t.modelC(fmt.Sprintf("rhp-nss %d %d", i, j), out, 3)
		}
		for j := uint64(1); j <= 70; j++ {
			for i := uint64(0); i < j; i++ {
				nss(i, j, "exhaustive<=70")
			}
		}
		for k := 0; k < r.c.Budget(600, 20000); k++ {
			var i, j uint64
			switch k % 6 {
			case 0:
				j = math.MaxUint64
				i = t.rng.Uint64() >> uint(t.rng.Intn(64))
			case 1:
				j = math.MaxInt32
				i = uint64(t.rng.Int63n(math.MaxInt32))
			case 2: // i a multiple of a large power of two
				sh := uint(t.rng.Intn(63))
				i = (t.rng.Uint64() >> sh) << sh
				j = i + 1 + t.rng.Uint64()>>uint(t.rng.Intn(64))
				if j <= i {
					j = math.MaxUint64
				}
			default:
				a, b := t.rng.Uint64()>>uint(t.rng.Intn(64)), t.rng.Uint64()>>uint(t.rng.Intn(64))
				if a == b {
					b++
				}
				if a > b {
					a, b = b, a
				}
				i, j = a, b
			}
			if i >= j {
				continue
			}
			nss(i, j, "random-64bit")
		}
		rps := func(n, s, e uint64, bucket string) {
			var v uint64
			p, _ := fw.Recover(func() { v = rhp2.RangeProofSize(n, s, e) })
			out := fmt.Sprintf("%d %d", v, v)
			if p {
				out = "panic"
			}
			t.eval(fmt.Sprintf("rps %d %d %d", n, s, e), true)
			t.count("rps:" + bucket)
			t.modelC(fmt.Sprintf("rhp-rps %d %d %d", n, s, e), out, 3)
		}
		maxN := uint64(r.c.Budget(40, 70))
		for n := uint64(1); n <= maxN; n++ {
			for e := uint64(1); e <= n; e++ {
				for s := uint64(0); s < e; s++ {
					rps(n, s, e, "exhaustive")
				}
			}
		}
		for k := 0; k < r.c.Budget(600, 20000); k++ {
			n := 1 + t.rng.Uint64()>>uint(24+t.rng.Intn(40)) // up to 2^40
			if k%5 == 0 {
				n = 1 << uint(t.rng.Intn(41))
			}
			e := 1 + t.rng.Uint64()%n
			s := t.rng.Uint64() % e
			if k%7 == 0 {
				s = e - 1
			}
			rps(n, s, e, "random-large")
		}
	})
}

// ------------------------------------------------------------------ hash lists

var c16ListKinds = []string{"zeros", "ones", "counter", "onebit", "random"}

func c16HashListOf(kind string, n int, rng *rand.Rand) []c16H {
	hs := make([]c16H, n)
	switch kind {
	case "zeros":
	case "ones":
		for i := range hs {
			for k := range hs[i] {
				hs[i][k] = 0xff
			}
		}
	case "counter":
		for i := range hs {
			binary.LittleEndian.PutUint64(hs[i][:], uint64(i))
		}
	case "onebit":
		if n > 0 {
			b := rng.Intn(256)
			hs[rng.Intn(n)][b/8] = 1 << (b % 8)
		}
	default:
		for i := range hs {
			rng.Read(hs[i][:])
		}
	}
	return hs
}

// hashListCase: every root function of the optimised code against the plain tree.
func (t *c16task) hashListCase(hs []c16H, kind string, withModel bool) {
	n := len(hs)
	want := c16ORoot(hs)
	repr := fmt.Sprintf("roots %s %d", kind, n)
	if kind == "random" || kind == "onebit" || kind == "replay" {
		repr += " " + c16Hex(want)
	}
	t.eval(repr, n > 0)
	t.count("hashlist:kind:" + kind)
	switch {
	case n <= 70:
		t.count("hashlist:len:0..70(exhaustive)")
	case n <= 65536:
		t.count("hashlist:len:71..65536")
	default:
		t.count("hashlist:len:>65536")
	}
	fns := []struct {
		name string
		f    func() c16H
		max  int
	}{
		{"rhp2.MetaRoot", func() c16H { return rhp2.MetaRoot(hs) }, math.MaxInt},
		{"blake2b.Accumulator", func() c16H {
			var acc cblake.Accumulator
			for _, h := range hs {
				acc.AddLeaf(h)
			}
			return acc.Root()
		}, math.MaxInt},
		{"rhp2.proofAccumulator", func() c16H {
			var pa rhp2.VerifProofAccumulator
			for _, h := range hs {
				pa.InsertNode(h, 0)
			}
			return pa.Root()
		}, math.MaxInt},
		{"rhp4.MetaRoot", func() c16H { return rhp4.MetaRoot(hs) }, math.MaxInt},
		{"rhp2.sectorAccumulator", func() c16H {
			var sa rhp2.VerifSectorAccumulator
			for _, h := range hs {
				sa.AppendNode(h)
			}
			return sa.Root()
		}, rhp2.LeavesPerSector},
		{"rhp4.sectorAccumulator", func() c16H {
			var sa rhp4.VerifSectorAccumulator
			for _, h := range hs {
				sa.AppendNode(h)
			}
			return sa.Root()
		}, rhp2.LeavesPerSector},
	}
	var got [4]c16H
	for i, fn := range fns {
		if n > fn.max {
			continue
		}
		var g c16H
		p, msg := fw.Recover(func() { g = fn.f() })
		if i < 4 {
			got[i] = g
		}
		if p || g != want {
			rep := map[string]any{"kind": "root", "n": n, "list": kind}
			if n <= 4096 {
				rep["hashes"] = c16HexList(hs)
			}
			obs := c16Hex(g)
			if p {
				obs = "panic: " + msg
			}
			t.violate("c16-root-mismatch:"+fn.name, fmt.Sprintf("%s of %d %s hashes differs from the plain Merkle tree root", fn.name, n, kind), rep, c16Hex(want), obs)
		}
	}
	if withModel && n <= 600 {
		t.modelC("rhp-roots "+c16HexList(hs),
			c16Hex(got[0])+" "+c16Hex(got[1])+" "+c16Hex(got[2])+" "+c16Hex(got[3]), 30+5*n)
		// the 4-lane sectorAccumulator model (appendNode) and the model of Go's MetaRoot
		var saRoot c16H
		if p, _ := fw.Recover(func() {
			var sa rhp2.VerifSectorAccumulator
			for _, h := range hs {
				sa.AppendNode(h)
			}
			saRoot = sa.Root()
		}); !p {
			t.modelC("rhp-saroot "+c16HexList(hs), c16Hex(saRoot)+" "+c16Hex(got[0]), 30+5*n)
		}
	}
}

func (r *c16run) secHashLists() {
	type spec struct {
		kind string
		n    int
	}
	var specs []spec
	for n := 0; n <= 70; n++ {
		for _, k := range c16ListKinds {
			specs = append(specs, spec{k, n})
		}
	}
	maxLen := r.c.Budget(600, 5000)
	for i := 0; i < r.c.Budget(100, 1200); i++ {
		n := 71 + r.c.Rng.Intn(maxLen-70)
		if i%4 == 0 { // around powers of two
			n = (1 << uint(6+r.c.Rng.Intn(r.c.Budget(4, 7)))) + r.c.Rng.Intn(5) - 2
		}
		specs = append(specs, spec{c16ListKinds[r.c.Rng.Intn(len(c16ListKinds))], n})
	}
	if r.c.Thorough() {
		for _, n := range []int{65535, 65536, 65537, 70000, 131072, 131073, 65536 + 4096 + 3} {
			specs = append(specs, spec{"random", n})
		}
		specs = append(specs, spec{"counter", 65537}, spec{"zeros", 131073})
	} else {
		specs = append(specs, spec{"random", 4096}, spec{"counter", 65536})
	}
	r.parallel(len(specs), func(i int, t *c16task) {
		s := specs[i]
		t.hashListCase(c16HashListOf(s.kind, s.n, t.rng), s.kind, true)
	})
	r.res.Sample(map[string]any{"section": "hash-list-roots", "lists": len(specs), "max_len": maxLen})
}

// ------------------------------------------------------------------ byte streams

type c16NamedReader struct {
	name string
	mk   func(data []byte) io.Reader
}

func c16Readers(rng *rand.Rand, withOneByte bool) []c16NamedReader {
	rs := []c16NamedReader{
		{"whole", func(d []byte) io.Reader { return bytes.NewReader(d) }},
		{"half", func(d []byte) io.Reader { return iotest.HalfReader(bytes.NewReader(d)) }},
		{"data+EOF", func(d []byte) io.Reader { return iotest.DataErrReader(bytes.NewReader(d)) }},
		{"rand<=300", func(d []byte) io.Reader { return c16RandChunks(d, rng, 300, false) }},
		{"rand<=5000", func(d []byte) io.Reader { return c16RandChunks(d, rng, 5000, false) }},
		{"rand<=300,data+EOF", func(d []byte) io.Reader { return c16RandChunks(d, rng, 300, true) }},
	}
	for _, sz := range []int{63, 64, 65, 1023, 1024, 1025} {
		sz := sz
		rs = append(rs, c16NamedReader{fmt.Sprintf("chunk%d", sz), func(d []byte) io.Reader { return c16FixedChunks(d, sz) }})
	}
	if withOneByte {
		rs = append(rs,
			c16NamedReader{"onebyte", func(d []byte) io.Reader { return iotest.OneByteReader(bytes.NewReader(d)) }},
			c16NamedReader{"onebyte,data+EOF", func(d []byte) io.Reader { return iotest.DataErrReader(iotest.OneByteReader(bytes.NewReader(d))) }})
	}
	return rs
}

// c16SA abstracts the two copies of sectorAccumulator.
type c16SA interface {
	Reset()
	AppendNode(h c16H)
	AppendLeaves(b []byte)
	Root() c16H
}

// c16FeedSA feeds `data` to a sectorAccumulator in random pieces, mixing
// AppendLeaves and AppendNode. sectorAccumulator.appendLeaves overwrites the
// 4-node buffer when it is handed four or more leaves, so (like all callers in
// core) batches of >= 4 leaves are only appended at a multiple of four leaves.
func c16FeedSA(sa c16SA, data []byte, lh []c16H, rng *rand.Rand, aligned bool) {
	k := len(lh)
	pos := 0
	for pos < k {
		rest := k - pos
		var m int
		if pos%4 != 0 && aligned {
			m = 1 + rng.Intn(3)
		} else {
			switch rng.Intn(4) {
			case 0:
				m = 1 + rng.Intn(3)
			case 1:
				m = 4 * (1 + rng.Intn(8))
			default:
				m = 1 + rng.Intn(70)
			}
		}
		if m > rest {
			m = rest
		}
		if rng.Intn(3) == 0 || (m == 0) {
			for i := 0; i < m; i++ {
				sa.AppendNode(lh[pos+i])
			}
		} else {
			sa.AppendLeaves(data[64*pos : 64*(pos+m)])
		}
		pos += m
	}
}

func (t *c16task) byteStreamCase(data []byte, name string, cseed int64, withModel bool) {
	rng := rand.New(rand.NewSource(cseed))
	k := len(data) / 64
	data = data[:64*k]
	lh := c16OLeafHashes(data)
	want := c16ORoot(lh)
	t.eval(fmt.Sprintf("stream %s %d %s", name, k, c16Hex(want)), k > 0)
	t.count("stream:data:" + name)
	switch {
	case k <= 130:
		t.count("stream:leaves:0..130(exhaustive)")
	default:
		t.count("stream:leaves:131..4096")
	}
	rep := func(extra string) map[string]any {
		m := map[string]any{"kind": "sectorroot", "leaves": k, "cseed": cseed, "what": extra}
		if len(data) <= 1<<16 {
			m["data"] = c16HexData(data)
		}
		return m
	}
	var whole c16H
	for _, nr := range c16Readers(rng, true) {
		var got c16H
		var err error
		p, msg := fw.Recover(func() { got, err = rhp2.ReaderRoot(nr.mk(data)) })
		t.count("stream:reader:" + nr.name)
		if nr.name == "whole" {
			whole = got
		}
		if p || err != nil || got != want {
			obs := c16Hex(got)
			if p {
				obs = "panic: " + msg
			} else if err != nil {
				obs = "error: " + err.Error()
			}
			t.violate("c16-root-mismatch:ReaderRoot", fmt.Sprintf("ReaderRoot over %d leaves (%s data, reader %s) differs from the plain Merkle tree root", k, name, nr.name), rep(nr.name), c16Hex(want), obs)
		}
	}
	var got4 c16H
	if p, _ := fw.Recover(func() { got4, _ = rhp4.ReaderRoot(bytes.NewReader(data)) }); p || got4 != want {
		t.violate("c16-root-mismatch:rhp4.ReaderRoot", fmt.Sprintf("rhp4.ReaderRoot over %d leaves differs from the plain tree", k), rep("v4"), c16Hex(want), c16Hex(got4))
	}
	// sectorAccumulator: appendLeaves / appendNode splits
	for _, acc := range []struct {
		name string
		sa   c16SA
	}{{"rhp2.sectorAccumulator", &rhp2.VerifSectorAccumulator{}}, {"rhp4.sectorAccumulator", &rhp4.VerifSectorAccumulator{}}} {
		for trial := 0; trial < 3; trial++ {
			var got c16H
			p, msg := fw.Recover(func() {
				if trial == 1 { // re-use after reset
					junk := c16RandHashes(rng, rng.Intn(9))
					for _, h := range junk {
						acc.sa.AppendNode(h)
					}
				}
				acc.sa.Reset()
				if trial == 0 {
					acc.sa.AppendLeaves(data)
				} else {
					c16FeedSA(acc.sa, data, lh, rng, true)
				}
				got = acc.sa.Root()
			})
			t.count("stream:sa-split-trials")
			if p || got != want {
				obs := c16Hex(got)
				if p {
					obs = "panic: " + msg
				}
				t.violate("c16-root-mismatch:"+acc.name+".appendLeaves", fmt.Sprintf("%s fed %d leaves in pieces (trial %d) differs from the plain tree", acc.name, k, trial), rep(acc.name), c16Hex(want), obs)
			}
		}
	}
	if k >= 6 { // informational: unaligned batches (not reachable through the exported API)
		sa := &rhp2.VerifSectorAccumulator{}
		var got c16H
		p, _ := fw.Recover(func() {
			sa.AppendNode(lh[0])
			sa.AppendLeaves(data[64:])
			got = sa.Root()
		})
		if p || got != want {
			t.count("sa:unaligned-appendLeaves(>=4 leaves at offset 1):wrong-root(not-a-violation,internal-precondition)")
		} else {
			t.count("sa:unaligned-appendLeaves(>=4 leaves at offset 1):right-root")
		}
	}
	if withModel && k <= 700 {
		t.modelC("rhp-sectorroot "+c16HexData(data), c16Hex(whole), 30+3*k)
		// the 4-lane model against the real sectorAccumulator on a random feeding plan; one plan
		// respects the alignment precondition of appendLeaves, one does not (the model must
		// reproduce whatever the code computes, right or wrong)
		for _, aligned := range []bool{true, false} {
			var plan []string
			sa := &rhp2.VerifSectorAccumulator{}
			var got c16H
			p, _ := fw.Recover(func() {
				pos := 0
				for pos < k {
					m := 1 + rng.Intn(9)
					if m > k-pos {
						m = k - pos
					}
					useLeaves := rng.Intn(2) == 0
					if aligned && pos%4 != 0 && m >= 4 {
						useLeaves = false
					}
					if useLeaves {
						sa.AppendLeaves(data[64*pos : 64*(pos+m)])
						plan = append(plan, fmt.Sprintf("l%d", m))
					} else {
						for i := 0; i < m; i++ {
							sa.AppendNode(lh[pos+i])
						}
						plan = append(plan, fmt.Sprintf("n%d", m))
					}
					pos += m
				}
				got = sa.Root()
			})
			if p {
				continue
			}
			if aligned && got != want {
				t.violate("c16-root-mismatch:rhp2.sectorAccumulator.plan", fmt.Sprintf("sectorAccumulator fed %d leaves by plan %s differs from the plain tree", k, strings.Join(plan, ",")), rep("plan "+strings.Join(plan, ",")), c16Hex(want), c16Hex(got))
			}
			ps := "-"
			if len(plan) > 0 {
				ps = strings.Join(plan, ",")
			}
			t.count(fmt.Sprintf("stream:sa-plan:aligned=%v", aligned))
			t.modelC("rhp-saleaves "+c16HexData(data)+" "+ps, c16Hex(got), 30+4*k)
		}
	}
	// a stream that is not a whole number of leaves must be refused
	extra := 1 + rng.Intn(63)
	bad := append(append([]byte(nil), data...), make([]byte, extra)...)
	rng.Read(bad[len(data):])
	for _, nr := range c16Readers(rng, k <= 200)[:] {
		if rng.Intn(3) != 0 && nr.name != "whole" {
			continue
		}
		var err error
		var got c16H
		p, msg := fw.Recover(func() { got, err = rhp2.ReaderRoot(nr.mk(bad)) })
		t.eval(fmt.Sprintf("stream-partial %d+%d %s %s", k, extra, nr.name, c16Hex(want)), true)
		if p || err == nil {
			obs := "root " + c16Hex(got)
			if p {
				obs = "panic: " + msg
			}
			m := rep("partial:" + nr.name)
			m["extra"] = extra
			t.violate("c16-partial-leaf-accepted:ReaderRoot", fmt.Sprintf("ReaderRoot accepted a stream of %d leaves + %d bytes (reader %s)", k, extra, nr.name), m, "error", obs)
		} else {
			t.count("stream:partial-leaf:error-returned")
		}
	}
	if withModel && k <= 200 {
		t.modelC("rhp-sectorroot "+c16HexData(bad), "error", 30)
	}
}

func c16StreamData(kind string, k int, rng *rand.Rand) []byte {
	d := make([]byte, 64*k)
	switch kind {
	case "zeros":
	case "ones":
		for i := range d {
			d[i] = 0xff
		}
	case "counter":
		for i := range d {
			d[i] = byte(i + i/256)
		}
	case "onebit":
		if k > 0 {
			d[rng.Intn(len(d))] = 1 << uint(rng.Intn(8))
		}
	default:
		rng.Read(d)
	}
	return d
}

func (r *c16run) secByteStreams() {
	type spec struct {
		kind string
		k    int
	}
	var specs []spec
	for k := 0; k <= 130; k++ {
		specs = append(specs, spec{"random", k}, spec{c16ListKinds[k%4], k})
	}
	for i := 0; i < r.c.Budget(40, 400); i++ {
		k := 131 + r.c.Rng.Intn(4096-130)
		switch i % 5 {
		case 0:
			k = 131 + r.c.Rng.Intn(570) // small enough for the model
		case 1:
			k = (1 << uint(8+r.c.Rng.Intn(5))) + r.c.Rng.Intn(7) - 3
		}
		specs = append(specs, spec{c16ListKinds[r.c.Rng.Intn(len(c16ListKinds))], k})
	}
	specs = append(specs, spec{"random", 4096})
	r.parallel(len(specs), func(i int, t *c16task) {
		s := specs[i]
		t.byteStreamCase(c16StreamData(s.kind, s.k, t.rng), s.kind, t.rng.Int63(), true)
	})
	r.res.Sample(map[string]any{"section": "byte-stream-roots", "streams": len(specs)})
}

// ------------------------------------------------------------------ whole sectors

type c16Sector struct {
	kind  int
	seed  uint64
	data  *[rhp2.SectorSize]byte
	lh    []c16H // oracle leaf hashes
	root  c16H   // oracle root
	cache []c16H // rhp4.CachedSectorSubtrees (code under test; nil when it panicked)
	goRt  c16H   // rhp2.SectorRoot
}

func c16NewSector(kind int, seed uint64) *c16Sector {
	s := &c16Sector{kind: kind, seed: seed, data: c16GenSector(kind, seed)}
	s.lh = c16OLeafHashes(s.data[:])
	s.root = c16ORoot(s.lh)
	fw.Recover(func() { s.cache = rhp4.CachedSectorSubtrees(s.data) })
	fw.Recover(func() { s.goRt = rhp2.SectorRoot(s.data) })
	return s
}

func (s *c16Sector) name() string { return fmt.Sprintf("gen(%d,%d)", s.kind, s.seed) }

func (t *c16task) sectorRootCase(s *c16Sector) {
	t.eval("sector "+s.name(), true)
	t.count(fmt.Sprintf("sector:kind%d", s.kind))
	rep := func(fn string) map[string]any {
		return map[string]any{"kind": "sector", "gkind": s.kind, "gseed": s.seed, "fn": fn}
	}
	check := func(fn string, f func() (c16H, error)) {
		var got c16H
		var err error
		p, msg := fw.Recover(func() { got, err = f() })
		t.count("sector:fn:" + fn)
		if p || err != nil || got != s.root {
			obs := c16Hex(got)
			if p {
				obs = "panic: " + msg
			} else if err != nil {
				obs = "error: " + err.Error()
			}
			key := fn
			if i := bytes.IndexByte([]byte(fn), '['); i >= 0 {
				key = fn[:i]
			}
			t.violate("c16-root-mismatch:"+key, fmt.Sprintf("%s of generated sector %s differs from the plain Merkle tree root", fn, s.name()), rep(fn), c16Hex(s.root), obs)
		}
	}
	d := s.data[:]
	check("rhp2.SectorRoot", func() (c16H, error) { return rhp2.SectorRoot(s.data), nil })
	check("rhp4.SectorRoot", func() (c16H, error) { return rhp4.SectorRoot(s.data), nil })
	check("rhp2.MetaRoot(CachedSectorSubtrees)", func() (c16H, error) { return rhp2.MetaRoot(rhp4.CachedSectorSubtrees(s.data)), nil })
	check("rhp4.MetaRoot(CachedSectorSubtrees)", func() (c16H, error) { return rhp4.MetaRoot(rhp4.CachedSectorSubtrees(s.data)), nil })
	check("rhp2.sectorAccumulator.appendLeaves", func() (c16H, error) {
		var sa rhp2.VerifSectorAccumulator
		sa.AppendLeaves(d)
		return sa.Root(), nil
	})
	check("rhp4.sectorAccumulator.appendLeaves", func() (c16H, error) {
		var sa rhp4.VerifSectorAccumulator
		sa.AppendLeaves(d)
		return sa.Root(), nil
	})
	check("rhp2.MetaRoot(leafhashes)", func() (c16H, error) { return rhp2.MetaRoot(s.lh), nil })
	readers := c16Readers(t.rng, s.kind == 2 || t.r.c.Thorough())
	for _, nr := range readers {
		nr := nr
		if nr.name == "chunk63" || nr.name == "chunk65" || nr.name == "chunk1023" {
			continue // covered by 64/1025 on this size; keeps the quick tier fast
		}
		check("rhp2.ReadSectorRoot["+nr.name+"]", func() (c16H, error) { return rhp2.ReadSectorRoot(nr.mk(d)) })
	}
	check("rhp4.ReadSectorRoot[whole]", func() (c16H, error) { return rhp4.ReadSectorRoot(bytes.NewReader(d)) })
	for _, nr := range readers[:4] {
		nr := nr
		check("rhp2.ReaderRoot["+nr.name+"]", func() (c16H, error) { return rhp2.ReaderRoot(nr.mk(d)) })
		check("rhp2.ReadSector["+nr.name+"]", func() (c16H, error) {
			// extra bytes after the sector must be left alone
			root, sec, err := rhp2.ReadSector(io.MultiReader(nr.mk(d), bytes.NewReader([]byte("trailing"))))
			if err == nil && (sec == nil || *sec != *s.data) {
				return root, fmt.Errorf("ReadSector returned different sector bytes")
			}
			return root, err
		})
	}
	// short streams: ReadSectorRoot zero-pads (intended; core tests it), ReadSector refuses
	for i := 0; i < 3; i++ {
		m := t.rng.Intn(rhp2.LeavesPerSector)
		if i == 0 {
			m = 0
		}
		padded := append(c16CopyHashes(s.lh[:m]), make([]c16H, rhp2.LeavesPerSector-m)...)
		zl := c16OLeaf(make([]byte, 64))
		for j := m; j < len(padded); j++ {
			padded[j] = zl
		}
		want := c16ORoot(padded)
		var got c16H
		var err error
		p, _ := fw.Recover(func() { got, err = rhp2.ReadSectorRoot(c16RandChunks(d[:64*m], t.rng, 70000, i == 1)) })
		t.eval(fmt.Sprintf("sector-short %s %d", s.name(), m), true)
		if !p && err == nil && got == want {
			t.count("readsectorroot:short-stream:root-of-zero-padded-sector(intended)")
		} else {
			t.count("readsectorroot:short-stream:other")
			t.r.res.Note("ReadSectorRoot on the first %d leaves of %s: panic=%v err=%v root=%s, zero-padded oracle root %s", m, s.name(), p, err, c16Hex(got), c16Hex(want))
		}
		var sec *[rhp2.SectorSize]byte
		p, _ = fw.Recover(func() { _, sec, err = rhp2.ReadSector(bytes.NewReader(d[:64*m])) })
		if !p && err != nil && sec == nil {
			t.count("readsector:short-stream:error")
		} else {
			t.count("readsector:short-stream:no-error")
		}
		bad := d[:64*m+1+t.rng.Intn(63)]
		p, _ = fw.Recover(func() { got, err = rhp2.ReadSectorRoot(bytes.NewReader(bad)) })
		t.eval(fmt.Sprintf("sector-partial %s %d", s.name(), len(bad)), true)
		if p || err == nil {
			t.violate("c16-partial-leaf-accepted:ReadSectorRoot", fmt.Sprintf("ReadSectorRoot accepted a stream of %d bytes (not a whole number of leaves) of %s", len(bad), s.name()),
				map[string]any{"kind": "sector", "gkind": s.kind, "gseed": s.seed, "bytes": len(bad)}, "error", fmt.Sprintf("panic=%v root=%s", p, c16Hex(got)))
		} else {
			t.count("readsectorroot:partial-leaf:error-returned")
		}
	}
	t.modelC(fmt.Sprintf("rhp-sector %d %d %d", s.kind, s.seed, rhp2.LeavesPerSector), c16Hex(s.goRt)+" -", 200000)
}
