package props

// C20 — Text and JSON forms round-trip and reject corrupted identifiers.
//
// Statement-level oracle (independent of the Lean model): for every public type
// with a text or JSON form, parse(print(v)) is the same value as v; corrupted
// identifiers are rejected (an error — not a panic, not a different value); a
// block update that went through JSON refreshes proofs like the original
// (c20_chain.go).  Correspondence: the modelled text forms (`text` ops of the Lean
// driver) agree with the Go code on the same inputs, print and parse.

import (
	"encoding"
	"encoding/hex"
	"encoding/json"
	"fmt"
	"math/big"
	"reflect"
	"strconv"
	"strings"
	"time"
	"unicode/utf8"

	"go.sia.tech/core/consensus"
	rhp3 "go.sia.tech/core/rhp/v3"
	rhp4 "go.sia.tech/core/rhp/v4"
	"go.sia.tech/core/types"
	"verif/harness/internal/fw"
)

func init() { fw.Register("C20", runC20) }

type c20run struct {
	c   *fw.Ctx
	res *fw.Result
	g   *c20Gen
	// model ops and the Go answers, compared in one batch at the end
	ops, outs []string
}

func (r *c20run) model(op, goOut string) {
	r.ops = append(r.ops, op)
	r.outs = append(r.outs, goOut)
}

func c20hx(b []byte) string {
	if len(b) == 0 {
		return "-"
	}
	return hex.EncodeToString(b)
}

func runC20(c *fw.Ctx) {
	r := &c20run{c: c, res: c.Res, g: &c20Gen{rng: c.Rng}}
	r.res.Rule = "every exported type of types, consensus, gateway, rhp/v2, rhp/v3, rhp/v4 with a text or JSON form (list generated with go/types): seeded random values incl. extremes (max currency, 64-bit counts, every resolution kind, nil and empty collections, unusual specifiers, valid-UTF-8 strings with escapes, times in years 0-9999 with zones and nanoseconds) -> marshal -> unmarshal into a fresh value -> same value (nil=empty, times as instants), same binary encoding, same re-marshalled bytes; text forms likewise. Identifiers: every single-character substitution of address strings by another hex digit (all 76 positions x 15) and by non-hex bytes, every deletion and insertion, must be rejected; wrong length / prefix / alphabet for the other identifiers. Policies: String -> ParseSpendPolicy -> equal, all kinds, depth <= 3. Updates: real chains (v1 and v2 blocks, contracts, reverts), every tracked element refreshed with the original update and with its JSON round trip, proofs identical and valid against the new state. A case is non-trivial when the value is not the zero value; distinct by type+content. The modelled text forms are compared with the Lean driver on the same inputs (print and parse, well-formed and malformed)."
	if c.Replay != "" {
		r.replay(c.Replay)
		r.flush()
		return
	}
	r.idents()
	r.addresses()
	r.specifiers()
	r.chainIndices()
	r.versionsAndWork()
	r.policies()
	r.allTypes()
	r.jsonTrees()
	r.updates()
	r.flush()
}

func (r *c20run) flush() {
	r.c.Compare(r.ops, r.outs)
}

func (r *c20run) violate(key, what string, replay map[string]any, expected, observed string) {
	r.res.Violate(fw.Violation{Key: key, What: what, Replay: replay, Expected: expected, Observed: observed})
}

// ---------------------------------------------------------------- fixed-size identifiers

type c20Ident struct {
	name   string
	size   int
	prefix string // text prefix ("" for plain hex)
	mk     func() any
	model  string // op stem of the model ("hex", "pk", "acct4") or ""
}

var c20Idents = []c20Ident{
	{"types.Hash256", 32, "", func() any { return new(types.Hash256) }, "hex"},
	{"types.BlockID", 32, "", func() any { return new(types.BlockID) }, "hex"},
	{"types.TransactionID", 32, "", func() any { return new(types.TransactionID) }, "hex"},
	{"types.AttestationID", 32, "", func() any { return new(types.AttestationID) }, "hex"},
	{"types.SiacoinOutputID", 32, "", func() any { return new(types.SiacoinOutputID) }, "hex"},
	{"types.SiafundOutputID", 32, "", func() any { return new(types.SiafundOutputID) }, "hex"},
	{"types.FileContractID", 32, "", func() any { return new(types.FileContractID) }, "hex"},
	{"types.Signature", 64, "", func() any { return new(types.Signature) }, "hex"},
	{"types.PublicKey", 32, "ed25519:", func() any { return new(types.PublicKey) }, "pk"},
	{"rhp3.Account", 32, "ed25519:", func() any { return new(rhp3.Account) }, "pk"},
	{"rhp4.Account", 32, "ed25519:", func() any { return new(rhp4.Account) }, "acct4"},
}

// parseText runs UnmarshalText on a fresh value: "ok <hex of value>", "err", "panic".
func c20ParseIdent(id c20Ident, text []byte) string {
	p := id.mk()
	var err error
	panicked, _ := c20Recover(func() { err = p.(encoding.TextUnmarshaler).UnmarshalText(text) })
	if panicked {
		return "panic"
	} else if err != nil {
		return "err"
	}
	return "ok " + c20hx(reflect.ValueOf(p).Elem().Bytes())
}

func (r *c20run) identModelOp(id c20Ident, text []byte) string {
	switch id.model {
	case "hex":
		return fmt.Sprintf("text hex.parse %d %s", id.size, c20hx(text))
	case "pk":
		return "text pk.parse " + c20hx(text)
	case "acct4":
		return "text acct4.parse " + c20hx(text)
	}
	return ""
}

func (r *c20run) idents() {
	res := r.res
	nvals := r.c.Budget(6, 60)
	for _, id := range c20Idents {
		for i := 0; i < nvals; i++ {
			raw := r.g.bytesN(id.size)
			p := id.mk()
			reflect.Copy(reflect.ValueOf(p).Elem(), reflect.ValueOf(raw))
			res.Eval("ident "+id.name+" "+c20hx(raw), !c20AllZero(raw))
			res.Count("ident:" + id.name)
			// statement: print is prefix + lowercase hex, parse(print(v)) = v, JSON likewise
			text, _ := p.(encoding.TextMarshaler).MarshalText()
			want := id.prefix + hex.EncodeToString(raw)
			if string(text) != want {
				r.violate("c20-ident-print:"+id.name, fmt.Sprintf("%s prints %q for %x", id.name, text, raw),
					map[string]any{"kind": "ident", "type": id.name, "value": c20hx(raw)}, want, string(text))
			}
			if s, ok := p.(fmt.Stringer); ok && s.String() != want {
				r.violate("c20-ident-print:"+id.name, fmt.Sprintf("%s.String() = %q for %x", id.name, s.String(), raw),
					map[string]any{"kind": "ident", "type": id.name, "value": c20hx(raw)}, want, s.String())
			}
			if prob, _, _ := c20TextRoundTrip(p); prob != "" {
				r.violate("c20-ident-roundtrip:"+id.name, id.name+": "+prob,
					map[string]any{"kind": "ident", "type": id.name, "value": c20hx(raw)}, "parse(print(v)) = v", prob)
			}
			if prob, _ := c20JSONRoundTrip(p); prob != "" {
				r.violate("c20-json:"+id.name, id.name+": "+prob,
					map[string]any{"kind": "ident", "type": id.name, "value": c20hx(raw)}, "unmarshal(marshal(v)) = v", prob)
			}
			switch id.model {
			case "hex":
				r.model("text hex.enc "+c20hx(raw), c20hx(text))
			case "pk":
				r.model("text pk.str "+c20hx(raw), c20hx(text))
			case "acct4":
				r.model("text acct4.str "+c20hx(raw), c20hx(text))
			}
			r.model(r.identModelOp(id, text), "ok "+c20hx(raw))
			// corruptions: must be rejected (an error), never a panic, never another value
			for _, cor := range c20Corruptions(r.g, id, string(text)) {
				r.checkCorruption(id, raw, cor)
			}
		}
	}
	// rhp/v3 SettingsID: JSON only
	for i := 0; i < nvals; i++ {
		var s rhp3.SettingsID
		copy(s[:], r.g.bytesN(len(s)))
		res.Eval("ident rhp3.SettingsID "+c20hx(s[:]), !c20AllZero(s[:]))
		res.Count("ident:rhp3.SettingsID")
		if prob, js := c20JSONRoundTrip(&s); prob != "" {
			r.violate("c20-json:rhp3.SettingsID", "rhp3.SettingsID: "+prob, map[string]any{"kind": "json", "type": "rhp3.SettingsID", "json": string(js)}, "round trip", prob)
		}
		good := `"` + hex.EncodeToString(s[:]) + `"`
		for _, bad := range []string{good[:len(good)-2] + `"`, good[:len(good)-1] + `0"`, `"g` + good[2:], `"` + strings.ToUpper(good[1:len(good)-1]) + `"`} {
			var s2 rhp3.SettingsID
			var err error
			panicked, _ := c20Recover(func() { err = json.Unmarshal([]byte(bad), &s2) })
			res.Eval("corrupt rhp3.SettingsID "+bad, true)
			if panicked || (err == nil && s2 != s) {
				r.violate("c20-ident-corrupt:rhp3.SettingsID", fmt.Sprintf("rhp3.SettingsID accepts %s (panic=%v)", bad, panicked),
					map[string]any{"kind": "json-corrupt", "type": "rhp3.SettingsID", "json": bad}, "rejected", fmt.Sprintf("value %x", s2[:]))
			} else if err == nil {
				res.Count("corrupt-accepted-same-value:rhp3.SettingsID")
			} else {
				res.Count("corrupt-rejected:rhp3.SettingsID")
			}
		}
	}
}

func c20AllZero(b []byte) bool {
	for _, x := range b {
		if x != 0 {
			return false
		}
	}
	return true
}

type c20Corruption struct {
	kind string
	text string
}

const c20HexDigits = "0123456789abcdef"

func c20Corruptions(g *c20Gen, id c20Ident, good string) []c20Corruption {
	var out []c20Corruption
	body := good[len(id.prefix):]
	add := func(kind, t string) { out = append(out, c20Corruption{kind, t}) }
	// wrong length
	add("short-1", good[:len(good)-1])
	add("short-2", good[:len(good)-2])
	add("long+1", good+"0")
	add("long+2", good+"00")
	add("long+2", good+"ab")
	add("long+64", good+strings.Repeat("cd", 32))
	add("empty", "")
	add("prefix-only", id.prefix)
	add("half", id.prefix+body[:len(body)/2])
	add("drop-first", id.prefix+body[1:])
	// wrong alphabet
	for _, ch := range []string{"g", "G", "z", " ", "-", "_", ":", "\x00", "\xff", "x", "O", "l", "é"} {
		pos := g.rng.Intn(len(body))
		add("alphabet", id.prefix+body[:pos]+ch+body[pos+1:])
	}
	add("0x-prefix", id.prefix+"0x"+body[2:])
	add("leading-space", " "+good)
	add("trailing-space", good+" ")
	add("trailing-newline", good+"\n")
	add("inner-space", id.prefix+body[:4]+" "+body[5:])
	add("quoted", `"`+good+`"`)
	// case: same value, may be accepted
	add("uppercase-hex", id.prefix+strings.ToUpper(body))
	// wrong prefix
	if id.prefix != "" {
		add("no-prefix", body)
		add("prefix-no-colon", strings.TrimSuffix(id.prefix, ":")+body)
		add("prefix-other-alg", "ed25518:"+body)
		add("prefix-other-alg", "curve25519:"+body)
		add("prefix-other-alg", "ed448:"+body)
		add("prefix-upper", strings.ToUpper(id.prefix)+body)
		add("prefix-twice", id.prefix+id.prefix+body)
		add("prefix-empty-alg", ":"+body)
		add("prefix-space", "ed25519 :"+body)
	} else {
		add("with-prefix", "ed25519:"+body)
		add("with-0x", "0x"+body)
	}
	return out
}

func (r *c20run) checkCorruption(id c20Ident, raw []byte, cor c20Corruption) {
	res := r.res
	got := c20ParseIdent(id, []byte(cor.text))
	res.Eval("corrupt "+id.name+" "+cor.text, true)
	rep := map[string]any{"kind": "ident-corrupt", "type": id.name, "text": c20hx([]byte(cor.text)), "corruption": cor.kind}
	switch {
	case got == "panic":
		res.Count("corrupt-panic:" + id.name)
		key := "c20-ident-panic:" + id.name
		r.violate(key, fmt.Sprintf("%s.UnmarshalText panics (instead of rejecting) on a %s text %q", id.name, cor.kind, cor.text), rep, "rejected with an error", "panic")
	case got == "err":
		res.Count("corrupt-rejected:" + cor.kind)
	case got == "ok "+c20hx(raw):
		// accepted as the SAME value (upper-case hex, optional prefix): not "a different value"
		res.Count("corrupt-accepted-same-value:" + id.name + ":" + cor.kind)
	default:
		res.Count("corrupt-accepted-other-value:" + id.name)
		r.violate("c20-ident-corrupt:"+id.name+":"+cor.kind, fmt.Sprintf("%s accepts the %s text %q as a different value", id.name, cor.kind, cor.text), rep, "rejected", got)
	}
	if op := r.identModelOp(id, []byte(cor.text)); op != "" {
		r.model(op, got)
	}
}

// ---------------------------------------------------------------- addresses

func (r *c20run) addresses() {
	res := r.res
	var addrs []types.Address
	addrs = append(addrs, types.VoidAddress, types.AnyoneCanSpend().Address())
	var ff types.Address
	for i := range ff {
		ff[i] = 0xff
	}
	addrs = append(addrs, ff)
	for i := 0; i < r.c.Budget(12, 300); i++ {
		addrs = append(addrs, types.Address(r.g.bytesN(32)))
	}
	parse := func(s string) string {
		var a types.Address
		var err error
		panicked, _ := c20Recover(func() { err = a.UnmarshalText([]byte(s)) })
		if panicked {
			return "panic"
		} else if err != nil {
			return "err"
		}
		return "ok " + c20hx(a[:])
	}
	for ai, a := range addrs {
		good := a.String()
		res.Eval("address "+good, a != types.VoidAddress)
		res.Count("address:values")
		// statement: 64 hex characters of the address followed by 12 checksum characters
		if len(good) != 76 || good[:64] != hex.EncodeToString(a[:]) || strings.ToLower(good) != good {
			r.violate("c20-address-print", "Address.String has the wrong shape: "+good, map[string]any{"kind": "address", "value": c20hx(a[:])}, "64+12 lowercase hex characters", good)
		}
		if prob, _, _ := c20TextRoundTrip(&a); prob != "" {
			r.violate("c20-address-roundtrip", "Address: "+prob, map[string]any{"kind": "address", "value": c20hx(a[:])}, "parse(print(a)) = a", prob)
		}
		if b, err := types.ParseAddress(good); err != nil || b != a {
			r.violate("c20-address-roundtrip", "ParseAddress(a.String()) != a", map[string]any{"kind": "address", "value": c20hx(a[:])}, good, fmt.Sprint(b, err))
		}
		if prob, _ := c20JSONRoundTrip(&a); prob != "" {
			r.violate("c20-json:types.Address", "Address: "+prob, map[string]any{"kind": "address", "value": c20hx(a[:])}, "round trip", prob)
		}
		toModel := ai < r.c.Budget(3, 12)
		if toModel {
			r.model("text addr.str "+c20hx(a[:]), c20hx([]byte(good)))
			r.model("text addr.parse "+c20hx([]byte(good)), "ok "+c20hx(a[:]))
		}
		check := func(kind, s string) {
			got := parse(s)
			res.Eval("corrupt address "+s, true)
			switch {
			case got == "err":
				res.Count("address-corrupt-rejected:" + kind)
			case got == "ok "+c20hx(a[:]) && strings.EqualFold(s, good):
				res.Count("address-corrupt-accepted-same-value:" + kind)
			default:
				res.Count("address-corrupt-ACCEPTED:" + kind)
				r.violate("c20-address-corrupt:"+kind, fmt.Sprintf("address text %q (a %s corruption of %s) is not rejected: %s", s, kind, good, got),
					map[string]any{"kind": "address-corrupt", "text": c20hx([]byte(s)), "original": good}, "rejected", got)
			}
			if toModel {
				r.model("text addr.parse "+c20hx([]byte(s)), got)
			}
		}
		for pos := 0; pos < len(good); pos++ {
			// every other hex digit at every position
			for _, d := range c20HexDigits {
				if byte(d) == good[pos] {
					continue
				}
				kind := "body-digit"
				if pos >= 64 {
					kind = "checksum-digit"
				}
				check(kind, good[:pos]+string(d)+good[pos+1:])
			}
			// non-hex bytes
			for _, ch := range []string{"g", "G", " ", "O", "\x00", "\xff", ":"} {
				check("non-hex", good[:pos]+ch+good[pos+1:])
			}
			// upper-case of a letter: the same value
			if good[pos] >= 'a' {
				check("uppercase", good[:pos]+strings.ToUpper(good[pos:pos+1])+good[pos+1:])
			}
			// length -1 / +1
			check("delete", good[:pos]+good[pos+1:])
			check("insert", good[:pos]+string(c20HexDigits[r.g.rng.Intn(16)])+good[pos:])
		}
		check("append", good+"0")
		check("append", good+"00")
		check("empty", "")
		check("body-only", good[:64])
		check("prefix", "addr:"+good)
		check("space", good+" ")
	}
}

// ---------------------------------------------------------------- specifiers and unlock keys

// printable runes above U+00FF of a byte string, as Go's strconv sees them (an
// oracle bit for the model, which does not carry the Unicode tables)
func c20Runes256(b []byte) string {
	var rs []string
	seen := map[rune]bool{}
	for len(b) > 0 {
		rn, w := utf8.DecodeRune(b)
		b = b[w:]
		if rn >= 0x100 && !(rn == utf8.RuneError && w == 1) && strconv.IsPrint(rn) && !seen[rn] {
			seen[rn] = true
			rs = append(rs, strconv.Itoa(int(rn)))
		}
	}
	if len(rs) == 0 {
		return "-"
	}
	return strings.Join(rs, ",")
}

func (r *c20run) specifiers() {
	res := r.res
	n := r.c.Budget(400, 20000)
	for i := 0; i < n; i++ {
		s := r.g.specifier()
		res.Eval("specifier "+c20hx(s[:]), s != types.Specifier{})
		text, _ := s.MarshalText()
		if len(text) > 0 && text[0] == '"' {
			res.Count("specifier:quoted")
		} else {
			res.Count("specifier:plain")
		}
		rep := map[string]any{"kind": "specifier", "value": c20hx(s[:])}
		if prob, _, _ := c20TextRoundTrip(&s); prob != "" {
			r.violate("c20-specifier-roundtrip", "Specifier: "+prob, rep, "parse(print(s)) = s", prob)
		}
		if prob, _ := c20JSONRoundTrip(&s); prob != "" {
			r.violate("c20-json:types.Specifier", "Specifier: "+prob, rep, "round trip", prob)
		}
		r.model("text spec.str "+c20hx(s[:])+" "+c20Runes256(s[:]), c20hx(text))
		r.model("text spec.parse "+c20hx(text), "ok "+c20hx(s[:]))
		// unlock key
		uk := types.UnlockKey{Algorithm: s, Key: r.g.unlockKey().Key}
		ut, _ := uk.MarshalText()
		res.Eval("unlockkey "+c20hx(ut), true)
		res.Count("unlockkey:values")
		rep = map[string]any{"kind": "unlockkey", "alg": c20hx(s[:]), "key": c20hx(uk.Key)}
		if prob, _, _ := c20TextRoundTrip(&uk); prob != "" {
			r.violate("c20-unlockkey-roundtrip", "UnlockKey: "+prob, rep, "parse(print(k)) = k", prob)
		}
		if prob, _ := c20JSONRoundTrip(&uk); prob != "" {
			r.violate("c20-json:types.UnlockKey", "UnlockKey: "+prob, rep, "round trip", prob)
		}
		r.model("text uk.str "+c20hx(s[:])+" "+c20hx(uk.Key)+" "+c20Runes256(s[:]), c20hx(ut))
		r.model("text uk.parse "+c20hx(ut), "ok "+c20hx(s[:])+" "+c20hx(uk.Key))
		// malformed specifier texts: Go and the model must agree (ok / err)
		if i%4 == 0 {
			bad := c20Mutate(r.g, text)
			if c20ModelSafeText(bad) {
				var s2 types.Specifier
				var err error
				panicked, _ := c20Recover(func() { err = s2.UnmarshalText(bad) })
				got := "ok " + c20hx(s2[:])
				if panicked {
					got = "panic"
				} else if err != nil {
					got = "err"
				}
				res.Count("specifier-malformed:" + strings.SplitN(got, " ", 2)[0])
				r.model("text spec.parse "+c20hx(bad), got)
			}
		}
	}
}

// c20Mutate applies one or two small random edits to a text.
func c20Mutate(g *c20Gen, t []byte) []byte {
	b := append([]byte(nil), t...)
	for k := 0; k < 1+g.rng.Intn(2); k++ {
		const ins = " \t\n(),[]\"\\:0aZx_+-\x00\xc3\xa9"
		switch op := g.rng.Intn(4); {
		case op == 0 && len(b) > 0: // delete
			i := g.rng.Intn(len(b))
			b = append(b[:i:i], b[i+1:]...)
		case op == 1: // insert
			i := g.rng.Intn(len(b) + 1)
			b = append(b[:i:i], append([]byte{ins[g.rng.Intn(len(ins))]}, b[i:]...)...)
		case op == 2 && len(b) > 0: // replace
			b[g.rng.Intn(len(b))] = ins[g.rng.Intn(len(ins))]
		case len(b) > 1: // swap neighbours
			i := g.rng.Intn(len(b) - 1)
			b[i], b[i+1] = b[i+1], b[i]
		}
	}
	return b
}

// c20ModelSafeText: the model trims ASCII white space only; texts in which a
// Unicode space rune could be trimmed by Go are not sent to the model.
func c20ModelSafeText(b []byte) bool {
	s := string(b)
	for _, sp := range []string{"\u0085", "\u00a0", "\u1680", "\u2028", "\u2029", "\u202f", "\u205f", "\u3000"} {
		if strings.Contains(s, sp) {
			return false
		}
	}
	for rn := rune(0x2000); rn <= 0x200a; rn++ {
		if strings.ContainsRune(s, rn) {
			return false
		}
	}
	return true
}

// ---------------------------------------------------------------- chain index

func (r *c20run) chainIndices() {
	res := r.res
	parse := func(s string) string {
		var ci types.ChainIndex
		var err error
		panicked, _ := c20Recover(func() { ci, err = types.ParseChainIndex(s) })
		if panicked {
			return "panic"
		} else if err != nil {
			return "err"
		}
		return fmt.Sprintf("ok %d %s", ci.Height, c20hx(ci.ID[:]))
	}
	for i := 0; i < r.c.Budget(40, 2000); i++ {
		ci := types.ChainIndex{Height: r.g.u64(), ID: types.BlockID(r.g.bytesN(32))}
		res.Eval(fmt.Sprintf("chainindex %d %x", ci.Height, ci.ID), ci != types.ChainIndex{})
		res.Count("chainindex:values")
		rep := map[string]any{"kind": "chainindex", "height": ci.Height, "id": c20hx(ci.ID[:])}
		text, _ := ci.MarshalText()
		want := fmt.Sprintf("%d::%s", ci.Height, hex.EncodeToString(ci.ID[:]))
		if string(text) != want {
			r.violate("c20-chainindex-print", "ChainIndex.MarshalText shape", rep, want, string(text))
		}
		if prob, _, _ := c20TextRoundTrip(&ci); prob != "" {
			r.violate("c20-chainindex-roundtrip", "ChainIndex: "+prob, rep, "parse(print(ci)) = ci", prob)
		}
		if prob, _ := c20JSONRoundTrip(&ci); prob != "" {
			r.violate("c20-json:types.ChainIndex", "ChainIndex: "+prob, rep, "round trip", prob)
		}
		r.model(fmt.Sprintf("text ci.text %d %s", ci.Height, c20hx(ci.ID[:])), c20hx(text))
		r.model(fmt.Sprintf("text ci.str %d %s", ci.Height, c20hx(ci.ID[:])), c20hx([]byte(ci.String())))
		r.model("text ci.parse "+c20hx(text), parse(string(text)))
		h, id := strconv.FormatUint(ci.Height, 10), hex.EncodeToString(ci.ID[:])
		cors := []c20Corruption{
			{"no-separator", h + id}, {"one-colon", h + ":" + id}, {"three-colons", h + ":::" + id}, {"two-separators", h + "::" + id[:32] + "::" + id[32:]},
			{"empty-height", "::" + id}, {"negative-height", "-" + h + "::" + id}, {"plus-height", "+" + h + "::" + id}, {"height-overflow", "18446744073709551616::" + id},
			{"height-hex", "0x10::" + id}, {"height-space", h + " ::" + id}, {"height-underscore", "1_0::" + id},
			{"id-short", h + "::" + id[:62]}, {"id-odd", h + "::" + id[:63]}, {"id-empty", h + "::"}, {"id-long+2", h + "::" + id + "00"}, {"id-long+64", h + "::" + id + id},
			{"id-nonhex", h + "::" + id[:10] + "g" + id[11:]}, {"id-space", h + ":: " + id}, {"trailing-space", h + "::" + id + " "}, {"empty", ""}, {"string-form", ci.String()},
			{"id-uppercase", h + "::" + strings.ToUpper(id)}, {"leading-zero-height", "0" + h + "::" + id},
		}
		for _, cor := range cors {
			got := parse(cor.text)
			res.Eval("corrupt chainindex "+cor.text, true)
			crep := map[string]any{"kind": "chainindex-corrupt", "text": c20hx([]byte(cor.text)), "corruption": cor.kind}
			switch {
			case got == "panic":
				res.Count("corrupt-panic:types.ChainIndex")
				r.violate("c20-ident-panic:types.ChainIndex", fmt.Sprintf("ParseChainIndex panics (instead of rejecting) on the %s text %q", cor.kind, cor.text), crep, "rejected with an error", "panic")
			case got == "err":
				res.Count("corrupt-rejected:chainindex:" + cor.kind)
			case got == fmt.Sprintf("ok %d %s", ci.Height, c20hx(ci.ID[:])):
				res.Count("corrupt-accepted-same-value:types.ChainIndex:" + cor.kind)
			default:
				r.violate("c20-ident-corrupt:types.ChainIndex:"+cor.kind, fmt.Sprintf("ParseChainIndex accepts the %s text %q as a different value", cor.kind, cor.text), crep, "rejected", got)
			}
			r.model("text ci.parse "+c20hx([]byte(cor.text)), got)
		}
	}
}

// ---------------------------------------------------------------- protocol version, work

func (r *c20run) versionsAndWork() {
	res := r.res
	for i := 0; i < r.c.Budget(60, 3000); i++ {
		var v rhp4.ProtocolVersion
		for j := range v {
			switch r.g.rng.Intn(4) {
			case 0:
				v[j] = 0
			case 1:
				v[j] = 255
			default:
				v[j] = uint8(r.g.rng.Intn(256))
			}
		}
		res.Eval("version "+v.String(), v != rhp4.ProtocolVersion{})
		res.Count("version:values")
		rep := map[string]any{"kind": "version", "value": []int{int(v[0]), int(v[1]), int(v[2])}}
		if prob, _, _ := c20TextRoundTrip(&v); prob != "" {
			r.violate("c20-version-roundtrip", "ProtocolVersion: "+prob, rep, "parse(print(v)) = v", prob)
		}
		if prob, _ := c20JSONRoundTrip(&v); prob != "" {
			r.violate("c20-json:rhp4.ProtocolVersion", "ProtocolVersion: "+prob, rep, "round trip", prob)
		}
		// the legacy JSON array form denotes the same value
		var v2 rhp4.ProtocolVersion
		if err := json.Unmarshal([]byte(fmt.Sprintf("[%d,%d,%d]", v[0], v[1], v[2])), &v2); err != nil || v2 != v {
			r.violate("c20-version-legacy-json", "ProtocolVersion legacy array form", rep, v.String(), fmt.Sprint(v2, err))
		}
		r.model(fmt.Sprintf("text ver.str %d %d %d", v[0], v[1], v[2]), c20hx([]byte(v.String())))
		r.model("text ver.parse "+c20hx([]byte(v.String())), fmt.Sprintf("ok %d %d %d", v[0], v[1], v[2]))
		if i%3 == 0 {
			bad := c20Mutate(r.g, []byte(v.String()))
			if c20ModelSafeText(bad) && utf8.Valid(bad) && !strings.ContainsAny(string(bad), "\xc3") {
				var v3 rhp4.ProtocolVersion
				var err error
				panicked, _ := c20Recover(func() { err = v3.UnmarshalText(bad) })
				got := fmt.Sprintf("ok %d %d %d", v3[0], v3[1], v3[2])
				if panicked {
					got = "panic"
				} else if err != nil {
					got = "err"
				}
				res.Count("version-malformed:" + strings.SplitN(got, " ", 2)[0])
				r.model("text ver.parse "+c20hx(bad), got)
			}
		}
	}
	for i := 0; i < r.c.Budget(60, 3000); i++ {
		raw := r.g.bytesN(32)
		if r.g.rng.Intn(3) == 0 { // small values
			for j := 0; j < 24+r.g.rng.Intn(8); j++ {
				raw[j] = 0
			}
		}
		var w consensus.Work
		w.DecodeFrom(types.NewBufDecoder(raw))
		n := new(big.Int).SetBytes(raw)
		res.Eval("work "+n.String(), n.Sign() != 0)
		res.Count("work:values")
		rep := map[string]any{"kind": "work", "value": n.String()}
		if w.String() != n.String() {
			r.violate("c20-work-print", "Work.String is not the decimal value", rep, n.String(), w.String())
		}
		if prob, _, _ := c20TextRoundTrip(&w); prob != "" {
			r.violate("c20-work-roundtrip", "Work: "+prob, rep, "parse(print(w)) = w", prob)
		}
		if prob, _ := c20JSONRoundTrip(&w); prob != "" {
			r.violate("c20-json:consensus.Work", "Work: "+prob, rep, "round trip", prob)
		}
		r.model("text work.str "+n.String(), c20hx([]byte(w.String())))
		r.model("text work.parse "+c20hx([]byte(w.String())), "ok "+n.String())
	}
	// out of range / malformed work (plain decimal only is modelled)
	two256 := new(big.Int).Lsh(big.NewInt(1), 256)
	for _, s := range []string{two256.String(), new(big.Int).Sub(two256, big.NewInt(1)).String(), "", "12a", "-1", " 1", "1 "} {
		var w consensus.Work
		var err error
		panicked, _ := c20Recover(func() { err = w.UnmarshalText([]byte(s)) })
		got := "err"
		if panicked {
			got = "panic"
			r.violate("c20-work-panic", "Work.UnmarshalText panics on "+strconv.Quote(s), map[string]any{"kind": "work-text", "text": s}, "error", "panic")
		} else if err == nil {
			got = "ok " + w.String()
		}
		res.Eval("work-text "+s, true)
		if s != "-1" {
			r.model("text work.parse "+c20hx([]byte(s)), got)
		}
	}
}

// ---------------------------------------------------------------- spend policies

func c20PolicyTokens(p types.SpendPolicy) []string {
	switch pt := p.Type.(type) {
	case types.PolicyTypeAbove:
		return []string{"ab", strconv.FormatUint(uint64(pt), 10)}
	case types.PolicyTypeAfter:
		return []string{"af", strconv.FormatInt(time.Time(pt).Unix(), 10)}
	case types.PolicyTypePublicKey:
		return []string{"pk", c20hx(pt[:])}
	case types.PolicyTypeHash:
		return []string{"h", c20hx(pt[:])}
	case types.PolicyTypeOpaque:
		return []string{"op", c20hx(pt[:])}
	case types.PolicyTypeThreshold:
		out := []string{"th", strconv.Itoa(int(pt.N)), strconv.Itoa(len(pt.Of))}
		for _, sp := range pt.Of {
			out = append(out, c20PolicyTokens(sp)...)
		}
		return out
	case types.PolicyTypeUnlockConditions:
		out := []string{"uc", strconv.FormatUint(pt.Timelock, 10), strconv.FormatUint(pt.SignaturesRequired, 10), strconv.Itoa(len(pt.PublicKeys))}
		for _, k := range pt.PublicKeys {
			out = append(out, c20hx(k.Algorithm[:]), c20hx(k.Key))
		}
		return out
	}
	return []string{"?"}
}

// corners of a policy that the statement includes and that are known suspects
func c20PolicyCorners(p types.SpendPolicy) (bigSig, delimSpec bool, runes []byte) {
	switch pt := p.Type.(type) {
	case types.PolicyTypeThreshold:
		for _, sp := range pt.Of {
			a, b, rs := c20PolicyCorners(sp)
			bigSig, delimSpec, runes = bigSig || a, delimSpec || b, append(runes, rs...)
		}
	case types.PolicyTypeUnlockConditions:
		if pt.SignaturesRequired > 255 {
			bigSig = true
		}
		for _, k := range pt.PublicKeys {
			runes = append(runes, k.Algorithm[:]...)
			runes = append(runes, 0)
			if strings.ContainsAny(k.Algorithm.String(), "(),[]") {
				delimSpec = true
			}
		}
	}
	return
}

func c20ClampSigs(p types.SpendPolicy) types.SpendPolicy {
	switch pt := p.Type.(type) {
	case types.PolicyTypeThreshold:
		of := make([]types.SpendPolicy, len(pt.Of))
		for i := range of {
			of[i] = c20ClampSigs(pt.Of[i])
		}
		return types.PolicyThreshold(pt.N, of)
	case types.PolicyTypeUnlockConditions:
		pt.SignaturesRequired &= 0xff
		return types.SpendPolicy{Type: pt}
	}
	return p
}

// c20PolicyStringRoundTrip: the statement for the string form.
func c20PolicyStringRoundTrip(p types.SpendPolicy) (ok bool, s, observed string) {
	panicked, msg := c20Recover(func() { s = p.String() })
	if panicked {
		return false, "", "String panics: " + msg
	}
	var q types.SpendPolicy
	var err error
	panicked, msg = c20Recover(func() { q, err = types.ParseSpendPolicy(s) })
	if panicked {
		return false, s, "ParseSpendPolicy panics: " + msg
	} else if err != nil {
		return false, s, "ParseSpendPolicy(p.String()) fails: " + err.Error()
	}
	a, b := c20PolicyNormalize(p), c20PolicyNormalize(q)
	if d := c20Equal(reflect.ValueOf(&a).Elem(), reflect.ValueOf(&b).Elem(), "policy"); d != "" {
		return false, s, "parsed policy differs at " + d
	}
	return true, s, ""
}

func (r *c20run) checkPolicy(p types.SpendPolicy) {
	res := r.res
	toks := c20PolicyTokens(p)
	res.Eval("policy "+strings.Join(toks, " "), true)
	res.Count("policy:" + toks[0])
	bigSig, delimSpec, runeBytes := c20PolicyCorners(p)
	js, _ := json.Marshal(p)
	rep := map[string]any{"kind": "policy", "json": string(js)}
	ok, s, observed := c20PolicyStringRoundTrip(p)
	if !ok {
		key := "c20-policy-string:other"
		switch {
		case bigSig && !delimSpec:
			key = "c20-policy-string:uc-sigcount"
		case delimSpec && !bigSig:
			key = "c20-policy-string:uc-specifier-delim"
		case bigSig && delimSpec:
			// isolate: with the counts brought below 256, does it still fail?
			if ok2, _, _ := c20PolicyStringRoundTrip(c20ClampSigs(p)); ok2 {
				key = "c20-policy-string:uc-sigcount"
			} else {
				key = "c20-policy-string:uc-specifier-delim"
			}
		}
		res.Count("policy-string-FAIL:" + strings.TrimPrefix(key, "c20-policy-string:"))
		rep["string"] = s
		r.violate(key, fmt.Sprintf("SpendPolicy %s does not survive String -> ParseSpendPolicy", s), rep, "ParseSpendPolicy(p.String()) = p", observed)
	} else {
		res.Count("policy-string-ok")
	}
	if bigSig {
		res.Count("policy-corner:uc-sigcount>255")
	}
	if delimSpec {
		res.Count("policy-corner:uc-specifier-with-delimiter")
	}
	// JSON form
	pp := p
	if prob, _ := c20JSONRoundTrip(&pp); prob != "" {
		r.violate("c20-json:types.SpendPolicy", "SpendPolicy JSON: "+prob, rep, "round trip", prob)
	}
	// model: printer and parser agree with Go (whatever Go does)
	runes := c20Runes256(runeBytes)
	r.model("text pol.str "+runes+" "+strings.Join(toks, " "), c20hx([]byte(s)))
	r.model("text pol.parse "+c20hx([]byte(s)), c20GoParsePolicy(s))
}

func c20GoParsePolicy(s string) string {
	var q types.SpendPolicy
	var err error
	panicked, _ := c20Recover(func() { q, err = types.ParseSpendPolicy(s) })
	if panicked {
		return "panic"
	} else if err != nil {
		return "err"
	}
	return "ok " + strings.Join(c20PolicyTokens(q), " ")
}

func (r *c20run) policies() {
	// fixed corner cases first (the statement lists them), then random ones
	pk := types.PublicKey{1, 2, 3}
	spec := func(s string) types.Specifier { return types.NewSpecifier(s) }
	uc := func(sigs uint64, keys ...types.UnlockKey) types.SpendPolicy {
		return types.SpendPolicy{Type: types.PolicyTypeUnlockConditions{PublicKeys: keys, SignaturesRequired: sigs}}
	}
	fixed := []types.SpendPolicy{
		types.AnyoneCanSpend(),
		types.PolicyAbove(0), types.PolicyAbove(^uint64(0)),
		types.PolicyAfter(time.Unix(0, 0)), types.PolicyAfter(time.Unix(-1, 0)), types.PolicyAfter(time.Time{}),
		types.PolicyThreshold(255, []types.SpendPolicy{types.PolicyPublicKey(pk), types.PolicyHash(types.Hash256{9})}),
		types.PolicyThreshold(1, []types.SpendPolicy{types.PolicyThreshold(1, []types.SpendPolicy{types.PolicyThreshold(0, nil)})}),
		types.PolicyOpaque(types.PolicyPublicKey(pk)),
		uc(0), uc(1, pk.UnlockKey()), uc(255, pk.UnlockKey()), uc(256, pk.UnlockKey()), uc(300), uc(^uint64(0), pk.UnlockKey()),
		uc(1, types.UnlockKey{Algorithm: spec("a b"), Key: []byte{1}}),
		uc(1, types.UnlockKey{Algorithm: spec("a,b"), Key: []byte{1}}),
		uc(1, types.UnlockKey{Algorithm: spec("a(b"), Key: []byte{1}}),
		uc(1, types.UnlockKey{Algorithm: spec("x]"), Key: nil}),
		uc(1, types.UnlockKey{Algorithm: spec("q\"uo\\te"), Key: []byte{}}),
		uc(1, types.UnlockKey{Algorithm: spec("co:lon"), Key: []byte{0xab}}),
		uc(1, types.UnlockKey{Algorithm: types.Specifier{}, Key: []byte{0xab}}),
		uc(2, pk.UnlockKey(), types.UnlockKey{Algorithm: spec("é世"), Key: []byte{7}}),
		types.PolicyThreshold(1, []types.SpendPolicy{uc(1000, pk.UnlockKey()), types.PolicyAbove(5)}),
	}
	for _, p := range fixed {
		r.checkPolicy(p)
	}
	for i := 0; i < r.c.Budget(1500, 60000); i++ {
		r.checkPolicy(r.g.policy(3))
	}
	// malformed policy strings: Go and the model must agree
	for i := 0; i < r.c.Budget(1500, 40000); i++ {
		p := r.g.policy(2)
		if i%5 == 0 { // make sure quoted key specifiers (with delimiters) are mutated too
			p = types.PolicyThreshold(1, []types.SpendPolicy{types.PolicyAbove(uint64(i)),
				{Type: types.PolicyTypeUnlockConditions{PublicKeys: []types.UnlockKey{r.g.unlockKey(), {Algorithm: types.NewSpecifier("a,b(\"]"), Key: []byte{1}}}, SignaturesRequired: r.g.u64()}}})
		}
		bad := c20Mutate(r.g, []byte(p.String()))
		if !c20ModelSafeText(bad) {
			continue
		}
		got := c20GoParsePolicy(string(bad))
		r.res.Eval("policy-malformed "+string(bad), true)
		r.res.Count("policy-malformed:" + strings.SplitN(got, " ", 2)[0])
		if got == "panic" {
			r.violate("c20-policy-parse-panic", "ParseSpendPolicy panics on "+strconv.Quote(string(bad)), map[string]any{"kind": "policy-text", "text": c20hx(bad)}, "error", "panic")
		}
		r.model("text pol.parse "+c20hx(bad), got)
	}
}

// ---------------------------------------------------------------- every type, JSON (and text)

func (r *c20run) allTypes() {
	res := r.res
	per := r.c.Budget(25, 600)
	run := func(list []any, tagged bool) {
		for _, proto := range list {
			t := reflect.TypeOf(proto).Elem()
			name := c20TypeName(proto)
			if t == c20tApplyUpd || t == c20tRevertUpd {
				continue // real chains only, see updates()
			}
			// the zero value first, then generated values
			for i := 0; i <= per; i++ {
				p := reflect.New(t)
				if i > 0 {
					r.g.unsupported = ""
					r.g.fill(p.Elem(), 3)
					if r.g.unsupported != "" {
						res.Count("type-not-generated:" + name)
						res.Note("%s: generator cannot produce %s; only the zero value was checked", name, r.g.unsupported)
						break
					}
				} else if !c20ZeroValueInDomain(p.Elem()) {
					// a SpendPolicy with a nil Type is not a policy, a resolution without a
					// kind is not a resolution: such a zero value is not a value of the statement
					res.Count("zero-value-not-in-domain")
					continue
				}
				prob, js := c20JSONRoundTrip(p.Interface())
				res.Eval("json "+name+" "+string(js), i > 0)
				if tagged {
					res.Count("json:" + name)
				} else {
					res.Count("json-untagged:" + name)
				}
				if prob != "" {
					if !tagged {
						res.Count("json-untagged-FAIL:" + name)
						res.Note("untagged %s (no declared JSON form): %s", name, prob)
						break
					}
					key := "c20-json:" + name
					r.violate(key, fmt.Sprintf("%s does not survive its JSON form: %s", name, prob),
						map[string]any{"kind": "json", "type": name, "json": string(js)}, "unmarshal(marshal(v)) = v", prob)
				}
				if prob, text, has := c20TextRoundTrip(p.Interface()); has {
					res.Count("text:" + name)
					if prob != "" {
						r.violate("c20-text:"+name, fmt.Sprintf("%s does not survive its text form: %s", name, prob),
							map[string]any{"kind": "text", "type": name, "text": c20hx(text), "json": string(js)}, "parse(print(v)) = v", prob)
					}
				}
				if i == 1 {
					res.Sample(map[string]string{"type": name, "json": c20Trunc(string(js), 300)})
				}
			}
		}
	}
	run(c20Types, true)
	run(c20UntaggedTypes, false)
	r.typeCensus()
	res.CountN("types-with-text-or-json-form", len(c20Types))
	res.CountN("types-untagged-default-json", len(c20UntaggedTypes))
}

// typeCensus compares the committed type list with the census the extractor made
// of the current tree (lean/SiaModel/Gen/report.json): a type with a text/JSON form
// that is not swept is a coverage gap and is reported (note + bucket), never silently.
func (r *c20run) typeCensus() {
	b, err := readFile("../lean/SiaModel/Gen/report.json")
	if err != nil {
		r.res.Note("type census not available (%v): the committed list of %d types was swept", err, len(c20Types))
		return
	}
	var rep struct {
		Facts struct {
			FactsText struct {
				Census []string `json:"jsonTypeCensus"`
			} `json:"FactsText"`
		} `json:"facts"`
	}
	if json.Unmarshal(b, &rep) != nil || len(rep.Facts.FactsText.Census) == 0 {
		r.res.Note("type census not found in the extractor report")
		return
	}
	have := map[string]int{}
	for _, p := range c20Types {
		have[c20TypeName(p)]++
	}
	want := map[string]int{}
	for _, e := range rep.Facts.FactsText.Census {
		want[strings.SplitN(e, "@", 2)[0]]++
	}
	for n, k := range want {
		if have[n] < k {
			r.res.Count("type-census-NOT-SWEPT")
			r.res.Note("type %s has a text/JSON form in the current tree but is not in harness/props/c20_types.go (regenerate the list)", n)
		}
	}
	for n, k := range have {
		if want[n] < k {
			r.res.Count("type-census-gone")
			r.res.Note("type %s is in harness/props/c20_types.go but the extractor no longer sees a text/JSON form for it", n)
		}
	}
	r.res.CountN("type-census-size", len(rep.Facts.FactsText.Census))
}

func c20Trunc(s string, n int) string {
	if len(s) > n {
		return s[:n] + "…"
	}
	return s
}

// ---------------------------------------------------------------- replay

func (r *c20run) replay(path string) {
	b, err := readFile(path)
	if err != nil {
		r.res.Note("cannot read replay file: %v", err)
		return
	}
	var f struct {
		Replay map[string]any `json:"replay"`
	}
	if json.Unmarshal(b, &f) != nil || f.Replay == nil {
		r.res.Note("replay file has no replay object")
		return
	}
	str := func(k string) string { s, _ := f.Replay[k].(string); return s }
	unhex := func(s string) []byte {
		if s == "-" {
			return nil
		}
		b, _ := hex.DecodeString(s)
		return b
	}
	kind := str("kind")
	r.res.Note("replaying a %q case", kind)
	switch kind {
	case "policy":
		var p types.SpendPolicy
		if err := json.Unmarshal([]byte(str("json")), &p); err != nil {
			r.res.Note("replay: policy JSON does not parse: %v", err)
			return
		}
		r.checkPolicy(p)
	case "ident-corrupt":
		for _, id := range c20Idents {
			if id.name == str("type") {
				r.checkCorruption(id, nil, c20Corruption{str("corruption"), string(unhex(str("text")))})
			}
		}
	case "chainindex-corrupt":
		s := string(unhex(str("text")))
		panicked, _ := c20Recover(func() { types.ParseChainIndex(s) })
		r.res.Eval("corrupt chainindex "+s, true)
		if panicked {
			r.violate("c20-ident-panic:types.ChainIndex", "ParseChainIndex panics on "+strconv.Quote(s), f.Replay, "rejected with an error", "panic")
		}
	case "address-corrupt":
		s := string(unhex(str("text")))
		var a types.Address
		err := a.UnmarshalText([]byte(s))
		r.res.Eval("corrupt address "+s, true)
		if err == nil && !strings.EqualFold(s, str("original")) {
			r.violate("c20-address-corrupt:replay", "corrupted address accepted: "+s, f.Replay, "rejected", "ok "+c20hx(a[:]))
		}
	case "json":
		for _, proto := range append(append([]any{}, c20Types...), c20UntaggedTypes...) {
			if c20TypeName(proto) != str("type") {
				continue
			}
			p := reflect.New(reflect.TypeOf(proto).Elem())
			if err := json.Unmarshal([]byte(str("json")), p.Interface()); err != nil {
				// the stored JSON is the library's own output: failing to read it back IS the finding
				r.res.Eval("json "+str("type"), true)
				r.violate("c20-json:"+str("type"), str("type")+" cannot read back its own JSON: "+err.Error(), f.Replay, "round trip", err.Error())
				return
			}
			prob, js := c20JSONRoundTrip(p.Interface())
			r.res.Eval("json "+str("type")+" "+string(js), true)
			if prob != "" {
				r.violate("c20-json:"+str("type"), str("type")+": "+prob, f.Replay, "round trip", prob)
			}
		}
	case "update-json":
		seed, _ := f.Replay["chainSeed"].(float64)
		r.updatesWithSeed(int64(seed), 1)
	default:
		r.res.Note("replay kind %q is re-run through the whole sweep", kind)
		r.idents()
		r.specifiers()
		r.allTypes()
	}
}
