package props

// C10D, structure-aware malformed family for the MULTIPROOF block form.
//
// V2TransactionsMultiproof on the wire = the transactions with every non-ephemeral element
// proof stripped, `numLeaves`, then the multiproof hashes; the decoder re-derives every proof
// length from (LeafIndex, numLeaves). Real blocks from the shared chain simulator that contain
// every kind of non-ephemeral element (siacoin / siafund input parents, revision parents,
// resolution parents, storage-proof ProofIndex) are re-encoded by a small encoder that mirrors
// the layout (the element parts go through the real V2Transaction.EncodeTo) with ONE thing
// wrong at a time: an inline proof of 1 / 63 / 64 / 65 / 255 / 65536 hashes left on an
// element, a LeafIndex ≥ numLeaves / 2^63 / 2^64-1 / the ephemeral sentinel, numLeaves 0 /
// too small / 2^63 / 2^64-1, too few / too many multiproof hashes, two elements on one leaf
// with different inline proofs, and (outlines) a kinds vector inconsistent with the payload.
// Every stream is fed to every decoder that carries the form, under recover: value or error,
// never a panic, never a long loop.

import (
	"bytes"
	"encoding/binary"
	"fmt"
	"math/rand"
	"reflect"
	"time"

	"go.sia.tech/core/consensus"
	"go.sia.tech/core/gateway"
	"go.sia.tech/core/types"
	"verif/harness/internal/chain"
	"verif/harness/internal/fw"
)

type c10Elem struct {
	kind string
	se   func(txns []types.V2Transaction) *types.StateElement
}

// c10Elems lists (kind, accessor) for the first non-ephemeral element of each kind in txns.
func c10Elems(txns []types.V2Transaction) []c10Elem {
	var out []c10Elem
	seen := map[string]bool{}
	add := func(kind string, ti, i int, get func(t *types.V2Transaction, i int) *types.StateElement) {
		if seen[kind] {
			return
		}
		if get(&txns[ti], i).LeafIndex == types.UnassignedLeafIndex {
			return
		}
		seen[kind] = true
		out = append(out, c10Elem{kind, func(ts []types.V2Transaction) *types.StateElement { return get(&ts[ti], i) }})
	}
	for ti := range txns {
		t := &txns[ti]
		for i := range t.SiacoinInputs {
			add("siacoin-input", ti, i, func(t *types.V2Transaction, i int) *types.StateElement {
				return &t.SiacoinInputs[i].Parent.StateElement
			})
		}
		for i := range t.SiafundInputs {
			add("siafund-input", ti, i, func(t *types.V2Transaction, i int) *types.StateElement {
				return &t.SiafundInputs[i].Parent.StateElement
			})
		}
		for i := range t.FileContractRevisions {
			add("revision-parent", ti, i, func(t *types.V2Transaction, i int) *types.StateElement {
				return &t.FileContractRevisions[i].Parent.StateElement
			})
		}
		for i := range t.FileContractResolutions {
			add("resolution-parent", ti, i, func(t *types.V2Transaction, i int) *types.StateElement {
				return &t.FileContractResolutions[i].Parent.StateElement
			})
			if _, ok := t.FileContractResolutions[i].Resolution.(*types.V2StorageProof); ok {
				add("storage-proof-index", ti, i, func(t *types.V2Transaction, i int) *types.StateElement {
					return &t.FileContractResolutions[i].Resolution.(*types.V2StorageProof).ProofIndex.StateElement
				})
			}
		}
	}
	return out
}

func c10CopyTxns(txns []types.V2Transaction) []types.V2Transaction {
	out := make([]types.V2Transaction, len(txns))
	for i := range txns {
		out[i] = txns[i].DeepCopy()
	}
	return out
}

// c10Strip removes the proof of every non-ephemeral element (what the real encoder does).
func c10Strip(txns []types.V2Transaction) {
	visit := func(se *types.StateElement) {
		if se.LeafIndex != types.UnassignedLeafIndex {
			se.MerkleProof = nil
		}
	}
	for ti := range txns {
		t := &txns[ti]
		for i := range t.SiacoinInputs {
			visit(&t.SiacoinInputs[i].Parent.StateElement)
		}
		for i := range t.SiafundInputs {
			visit(&t.SiafundInputs[i].Parent.StateElement)
		}
		for i := range t.FileContractRevisions {
			visit(&t.FileContractRevisions[i].Parent.StateElement)
		}
		for i := range t.FileContractResolutions {
			visit(&t.FileContractResolutions[i].Parent.StateElement)
			if sp, ok := t.FileContractResolutions[i].Resolution.(*types.V2StorageProof); ok {
				visit(&sp.ProofIndex.StateElement)
			}
		}
	}
}

func c10EncTxns(txns []types.V2Transaction) []byte {
	var buf bytes.Buffer
	e := types.NewEncoder(&buf)
	types.EncodeSlice(e, txns)
	e.Flush()
	return buf.Bytes()
}

// c10MP is the multiproof wire form, taken apart.
type c10MP struct {
	txns      []types.V2Transaction // proofless
	numLeaves uint64
	hashes    []byte // 32·k bytes
}

func (m c10MP) bytes() []byte {
	b := c10EncTxns(m.txns)
	var n [8]byte
	binary.LittleEndian.PutUint64(n[:], m.numLeaves)
	return append(append(b, n[:]...), m.hashes...)
}

func c10SplitMP(txns []types.V2Transaction) (c10MP, bool) {
	real := chain.Encode(types.V2TransactionsMultiproof(txns))
	p := c10CopyTxns(txns)
	c10Strip(p)
	head := c10EncTxns(p)
	if len(real) < len(head)+8 || !bytes.Equal(real[:len(head)], head) {
		return c10MP{}, false
	}
	return c10MP{p, binary.LittleEndian.Uint64(real[len(head):]), append([]byte(nil), real[len(head)+8:]...)}, true
}

type c10MPCase struct {
	name string
	mp   []byte
}

func c10Hashes(n int, seed byte) []types.Hash256 {
	hs := make([]types.Hash256, n)
	for i := range hs {
		hs[i][0], hs[i][1], hs[i][2] = seed, byte(i), byte(i>>8)
	}
	return hs
}

// c10MPMutants: one thing wrong at a time.
func c10MPMutants(base c10MP, thorough bool) []c10MPCase {
	var out []c10MPCase
	elems := c10Elems(base.txns)
	mut := func(name string, f func(m *c10MP)) {
		m := c10MP{c10CopyTxns(base.txns), base.numLeaves, append([]byte(nil), base.hashes...)}
		f(&m)
		out = append(out, c10MPCase{name, m.bytes()})
	}
	mut("unchanged", func(m *c10MP) {})
	lens := []int{1, 63, 64, 65, 255}
	if thorough {
		lens = append(lens, 1<<16)
	}
	for _, el := range elems {
		el := el
		for _, k := range lens {
			k := k
			mut(fmt.Sprintf("inline-proof-%d:%s", k, el.kind), func(m *c10MP) { el.se(m.txns).MerkleProof = c10Hashes(k, 7) })
		}
		for _, ix := range []struct {
			name string
			v    func(m *c10MP) uint64
		}{
			{"leafindex=numLeaves", func(m *c10MP) uint64 { return m.numLeaves }},
			{"leafindex=numLeaves+1", func(m *c10MP) uint64 { return m.numLeaves + 1 }},
			{"leafindex=0", func(m *c10MP) uint64 { return 0 }},
			{"leafindex=2^63", func(m *c10MP) uint64 { return 1 << 63 }},
			{"leafindex=2^64-1", func(m *c10MP) uint64 { return ^uint64(0) }},
			{"leafindex=ephemeral", func(m *c10MP) uint64 { return types.UnassignedLeafIndex }},
		} {
			ix := ix
			mut(ix.name+":"+el.kind, func(m *c10MP) { el.se(m.txns).LeafIndex = ix.v(m) })
			// … and with numLeaves raised so that the index is in range again
			mut(ix.name+"+numLeaves=2^64-1:"+el.kind, func(m *c10MP) { el.se(m.txns).LeafIndex = ix.v(m); m.numLeaves = ^uint64(0) })
		}
	}
	for _, n := range []uint64{0, 1, 1 << 63, ^uint64(0), base.numLeaves - 1, base.numLeaves + 1, base.numLeaves << 1, base.numLeaves >> 1} {
		n := n
		mut(fmt.Sprintf("numLeaves=%d", n), func(m *c10MP) { m.numLeaves = n })
	}
	mut("multiproof-empty", func(m *c10MP) { m.hashes = nil })
	mut("multiproof-one-hash-short", func(m *c10MP) {
		if len(m.hashes) >= 32 {
			m.hashes = m.hashes[:len(m.hashes)-32]
		}
	})
	mut("multiproof-one-byte-short", func(m *c10MP) {
		if len(m.hashes) >= 1 {
			m.hashes = m.hashes[:len(m.hashes)-1]
		}
	})
	mut("multiproof-one-hash-extra", func(m *c10MP) { m.hashes = append(m.hashes, make([]byte, 32)...) })
	mut("multiproof-many-extra", func(m *c10MP) { m.hashes = append(m.hashes, make([]byte, 32*70)...) })
	if len(elems) >= 2 {
		a, b := elems[0], elems[1]
		mut("same-leaf-different-inline-proofs", func(m *c10MP) {
			b.se(m.txns).LeafIndex = a.se(m.txns).LeafIndex
			a.se(m.txns).MerkleProof = c10Hashes(3, 1)
			b.se(m.txns).MerkleProof = c10Hashes(70, 2)
		})
		mut("same-leaf", func(m *c10MP) { b.se(m.txns).LeafIndex = a.se(m.txns).LeafIndex })
	}
	return out
}

func c10Enc(f func(e *types.Encoder)) []byte {
	var buf bytes.Buffer
	e := types.NewEncoder(&buf)
	f(e)
	e.Flush()
	return buf.Bytes()
}

func c10MultiproofFamily(c *fw.Ctx, g *c11Gen) {
	res := c.Res
	byLean := map[string]c11Codec{}
	for _, ct := range c11Types() {
		if _, dup := byLean[ct.lean]; !dup {
			byLean[ct.lean] = ct
		}
	}
	feed := func(lean, mutation string, in []byte) {
		ct, ok := byLean[lean]
		if !ok {
			return
		}
		o := c11Decode(ct, in)
		res.Eval("mp "+lean+" "+mutation+" "+fw.Hex(in[:min(len(in), 48)])+fmt.Sprint(len(in)), true)
		res.Count("multiproof-family:" + lean)
		switch {
		case o.panicked:
			res.Count("multiproof-family:outcome:panic")
			res.Violate(fw.Violation{Key: "c10-decode-panic:" + ct.goName + ":" + mutation,
				What:     fmt.Sprintf("decoding a %s whose multiproof block form has %s panics: %s", ct.goName, mutation, o.panicMsg),
				Replay:   map[string]any{"kind": "codec", "type": ct.lean, "hex": fw.Hex(in)},
				Expected: "a value or an error", Observed: "panic: " + o.panicMsg})
		case o.err != nil:
			res.Count("multiproof-family:outcome:error")
		default:
			res.Count("multiproof-family:outcome:value")
		}
		if o.elapsed > 2*time.Second {
			res.Violate(fw.Violation{Key: "c10-decode-slow:" + ct.goName + ":" + mutation,
				What:     fmt.Sprintf("decoding %d bytes as %s (%s) took %v", len(in), ct.goName, mutation, o.elapsed),
				Replay:   map[string]any{"kind": "codec", "type": ct.lean, "hex": fw.Hex(in)},
				Expected: "time proportional to the input", Observed: o.elapsed.String()})
		}
	}
	// blocks that together contain every kind of element
	wanted := map[string]bool{"siacoin-input": true, "siafund-input": true, "revision-parent": true, "resolution-parent": true, "storage-proof-index": true}
	var blocks []types.Block
	for _, mode := range []string{"v2", "mixed"} {
		s := chain.NewSim(rand.New(rand.NewSource(c.Rng.Int63())), mode)
		for i := 0; i < c.Budget(120, 600) && len(wanted) > 0; i++ {
			p, _, err := s.Step()
			if err != nil {
				break
			}
			if p.Block.V2 == nil {
				continue
			}
			fresh := false
			for _, el := range c10Elems(p.Block.V2.Transactions) {
				if wanted[el.kind] {
					delete(wanted, el.kind)
					fresh = true
				}
			}
			if fresh || len(blocks) < 2 {
				blocks = append(blocks, c11CopyBlock(p.Block))
			}
		}
	}
	for k := range wanted {
		res.Note("multiproof family: the simulator produced no block with a %s element", k)
	}
	var st consensus.State
	g.fill(reflect.ValueOf(&st).Elem(), 2)
	stBytes := chain.Encode(st)
	for _, b := range blocks {
		base, ok := c10SplitMP(b.V2.Transactions)
		if !ok {
			res.Note("multiproof family: the hand encoder does not reproduce the real encoding of a block; skipped")
			continue
		}
		res.Count("multiproof-family:blocks")
		v1 := chain.Encode(types.V1Block(b))
		dataHead := c10Enc(func(e *types.Encoder) { e.WriteUint64(b.V2.Height); b.V2.Commitment.EncodeTo(e) })
		ob := gateway.OutlineBlock(c11CopyBlock(b), nil, nil)
		for _, m := range c10MPMutants(base, c.Thorough()) {
			res.Count("multiproof-family:mutation")
			data := append(append([]byte(nil), dataHead...), m.mp...)
			block := append(append(append([]byte(nil), v1...), 1), data...)
			feed("Types_V2TransactionsMultiproof", m.name, m.mp)
			feed("Types_V2BlockData", m.name, data)
			feed("Types_V2Block", m.name, block)
			feed("Gateway_RPCSendV2Blocks_Response", m.name, c10Enc(func(e *types.Encoder) { e.WriteUint64(1); e.Write(block); e.WriteUint64(0) }))
			feed("Gateway_RPCSendCheckpoint_Response", m.name, append(append([]byte(nil), block...), stBytes...))
			// outline: header, v1 transactions, the multiproof form, hashes, kinds
			nv1, nv2 := len(b.Transactions), len(b.V2.Transactions)
			outline := func(kinds []byte, hashes int) []byte {
				return c10Enc(func(e *types.Encoder) {
					e.WriteUint64(ob.Height)
					ob.ParentID.EncodeTo(e)
					e.WriteUint64(ob.Nonce)
					e.WriteTime(ob.Timestamp)
					ob.MinerAddress.EncodeTo(e)
					types.EncodeSlice(e, b.Transactions)
					e.Write(m.mp)
					types.EncodeSlice(e, make([]types.Hash256, hashes))
					e.Write(kinds)
				})
			}
			good := append(bytes.Repeat([]byte{0}, nv1), bytes.Repeat([]byte{1}, nv2)...)
			feed("Gateway_V2BlockOutline", m.name, outline(good, 0))
			feed("Gateway_RPCRelayV2BlockOutline_Request", m.name, outline(good, 0))
			if m.name == "unchanged" {
				// kinds vector inconsistent with the payload counts
				for _, kc := range []struct {
					name  string
					kinds []byte
					h     int
				}{
					{"kinds-all-v1", bytes.Repeat([]byte{0}, nv1+nv2), 0},
					{"kinds-all-v2", bytes.Repeat([]byte{1}, nv1+nv2), 0},
					{"kinds-all-hash", bytes.Repeat([]byte{2}, nv1+nv2), 0},
					{"kinds-out-of-range", append(append([]byte(nil), good...)[:max(0, len(good)-1)], 3), 0},
					{"kinds-255", bytes.Repeat([]byte{255}, nv1+nv2), 0},
					{"kinds-short", good[:len(good)/2], 0},
					{"kinds-extra", append(append([]byte(nil), good...), 2, 2, 1, 0), 0},
					{"kinds-hashes-not-listed", good, 3},
					{"kinds-hash-listed-none-sent", append(append([]byte(nil), good...), 2), 0},
					{"kinds-swapped", append(bytes.Repeat([]byte{1}, nv1), bytes.Repeat([]byte{0}, nv2)...), 0},
				} {
					feed("Gateway_V2BlockOutline", kc.name, outline(kc.kinds, kc.h))
					feed("Gateway_RPCRelayV2BlockOutline_Request", kc.name, outline(kc.kinds, kc.h))
				}
			}
		}
	}
}
