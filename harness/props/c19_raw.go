package props

// C19 — the streaming read path of the RHP2 transport (Transport.RawResponse + ResponseReader.VerifyTag),
// which the renter uses for large responses. Statement: a valid message is delivered and authenticated;
// any modification of an encrypted frame is detected and closes the session.

import (
	"bytes"
	"fmt"
	"io"
	"net"
	"time"

	rhp2 "go.sia.tech/core/rhp/v2"
	"go.sia.tech/core/types"

	"verif/harness/internal/fw"
)

type c19Blob struct{ b []byte }

func (x *c19Blob) EncodeTo(e *types.Encoder)   { e.Write(x.b) }
func (x *c19Blob) DecodeFrom(d *types.Decoder) { d.Read(x.b) }

// c19Conn lets the test corrupt or cut the byte stream from host to renter.
type c19Conn struct {
	net.Conn
	n       int // bytes delivered so far
	flipAt  int // flip one bit of the byte with this stream offset (-1: none)
	cutAt   int // close the stream before this offset (-1: none)
	started bool
}

func (c *c19Conn) Read(p []byte) (int, error) {
	if c.started && c.cutAt >= 0 && c.n >= c.cutAt {
		return 0, io.ErrUnexpectedEOF
	}
	if c.started && c.cutAt >= 0 && c.n+len(p) > c.cutAt {
		p = p[:c.cutAt-c.n]
	}
	n, err := c.Conn.Read(p)
	if c.started {
		if c.flipAt >= c.n && c.flipAt < c.n+n {
			p[c.flipAt-c.n] ^= 0x20
		}
		c.n += n
	}
	return n, err
}

func c19RawResponse(c *fw.Ctx) {
	res := c.Res
	hostKey := types.NewPrivateKeyFromSeed(make([]byte, 32))
	lastDelivered := 0 // bytes of the response frame handed to the renter in the last exchange
	// one exchange: the host answers with `payload` (or an error); the renter reads through RawResponse
	run := func(payload []byte, rpcErr error, flipAt, cutAt int) (got []byte, rawErr, tagErr error, closed bool, panicked string) {
		c1, c2 := net.Pipe()
		defer c1.Close()
		defer c2.Close()
		c1.SetDeadline(time.Now().Add(5 * time.Second))
		c2.SetDeadline(time.Now().Add(5 * time.Second))
		done := make(chan struct{})
		go func() {
			defer close(done)
			defer func() { recover() }()
			ht, err := rhp2.NewHostTransport(c2, hostKey)
			if err != nil {
				return
			}
			if rpcErr != nil {
				ht.WriteResponseErr(rpcErr)
			} else {
				ht.WriteResponse(&c19Blob{payload})
			}
		}()
		cc := &c19Conn{Conn: c1, flipAt: flipAt, cutAt: cutAt}
		var rt *rhp2.Transport
		p, msg := fw.Recover(func() {
			var err error
			rt, err = rhp2.NewRenterTransport(cc, hostKey.PublicKey())
			if err != nil {
				rawErr = err
				return
			}
			cc.started = true
			rr, err := rt.RawResponse(1 << 22)
			if err != nil {
				rawErr = err
				closed = rt.IsClosed()
				return
			}
			got, _ = io.ReadAll(rr)
			tagErr = rr.VerifyTag()
			closed = rt.IsClosed()
		})
		if p {
			panicked = msg
		}
		c1.Close()
		c2.Close()
		<-done
		lastDelivered = cc.n
		return
	}
	// (1) valid messages of every size in windows around the padding / block boundaries are delivered and authenticate
	var sizes []int
	for _, base := range []int{0, 4040, 4096, 5000, 8192, 65536} {
		for d := 0; d < c.Budget(40, 200); d++ {
			sizes = append(sizes, base+d)
		}
	}
	for _, n := range sizes {
		payload := make([]byte, n)
		for i := range payload {
			payload[i] = byte(i*7 + n)
		}
		got, rawErr, tagErr, _, pan := run(payload, nil, -1, -1)
		res.Eval(fmt.Sprintf("rhp2-raw/valid/%d", n), n > 0)
		res.Count("rhp2-raw:valid")
		rp := map[string]any{"kind": "rhp2-raw", "payload_len": n}
		switch {
		case pan != "":
			res.Violate(fw.Violation{Key: "c19-rhp2-raw-panic", What: "RawResponse/VerifyTag panicked on a valid message: " + pan, Replay: rp})
		case rawErr != nil || tagErr != nil:
			res.Violate(fw.Violation{Key: "c19-rhp2-raw-valid-rejected", What: fmt.Sprintf("a valid, untampered response of %d payload bytes read through RawResponse is not delivered: RawResponse err=%v, VerifyTag err=%v", n, rawErr, tagErr), Replay: rp, Expected: "delivered and authenticated", Observed: fmt.Sprint(rawErr, " / ", tagErr)})
		case len(got) < n || !bytes.Equal(got[:n], payload): // RawResponse consumes the is-error flag; padding may follow the payload
			res.Violate(fw.Violation{Key: "c19-rhp2-transport-unfaithful:raw", What: fmt.Sprintf("RawResponse delivered different bytes for a %d-byte payload", n), Replay: rp})
		}
	}
	// (2) every single corrupted byte / every truncation of the frame is detected and closes the session,
	// for data responses and for error responses
	for _, kind := range []string{"data", "error"} {
		var payload []byte
		var rpcErr error
		if kind == "error" {
			rpcErr = fmt.Errorf("verif: the host refuses (%s)", bytes.Repeat([]byte("x"), 40))
		} else {
			payload = bytes.Repeat([]byte{0x5a}, 300)
		}
		// the frame as it is on the wire: measured on an unmodified exchange (the length prefix is part of the
		// minimal 4096-byte message, so offsets at and beyond the measured length modify nothing)
		if _, rawErr, tagErr, _, pan := run(payload, rpcErr, -1, -1); pan != "" || (kind == "data" && (rawErr != nil || tagErr != nil)) {
			res.Note("rhp2-raw: unmodified %s exchange failed: %v %v %s", kind, rawErr, tagErr, pan)
			continue
		}
		frameLen := lastDelivered
		res.CountN("rhp2-raw:frame-bytes:"+kind, frameLen)
		step := c.Budget(37, 1)
		for off := 0; off < frameLen; off += step {
			for _, mode := range []string{"flip", "cut"} {
				flipAt, cutAt := -1, -1
				if mode == "flip" {
					flipAt = off
				} else {
					cutAt = off
				}
				_, rawErr, tagErr, closed, pan := run(payload, rpcErr, flipAt, cutAt)
				res.Eval(fmt.Sprintf("rhp2-raw/%s/%s/%d", kind, mode, off), true)
				res.Count("rhp2-raw:" + kind + ":" + mode)
				rp := map[string]any{"kind": "rhp2-raw", "response": kind, "mode": mode, "offset": off}
				switch {
				case pan != "":
					res.Violate(fw.Violation{Key: "c19-rhp2-raw-panic", What: "RawResponse/VerifyTag panicked on a modified frame: " + pan, Replay: rp})
				case rawErr == nil && tagErr == nil:
					res.Violate(fw.Violation{Key: "c19-rhp2-raw-modification-undetected:" + kind + ":" + mode, What: fmt.Sprintf("a frame modified at stream offset %d (%s) was delivered without any error on the RawResponse path", off, mode), Replay: rp, Expected: "error", Observed: "nil"})
				case kind == "error" && rawErr != nil && isRPCError(rawErr) && mode == "flip" && off >= 8:
					// the error text came back "authenticated": the modification must have been detected instead
					res.Violate(fw.Violation{Key: "c19-rhp2-raw-modification-undetected:error-delivered", What: fmt.Sprintf("an error response modified at offset %d was returned as an authenticated RPC error: %v", off, rawErr), Replay: rp})
				case !closed && off >= 8:
					res.Violate(fw.Violation{Key: "c19-rhp2-raw-session-left-open:" + kind + ":" + mode, What: fmt.Sprintf("a frame modified at stream offset %d (%s) produced an error (%v / %v) but the session was not closed", off, mode, rawErr, tagErr), Replay: rp, Expected: "session closed", Observed: "open"})
				}
			}
		}
	}
}

func isRPCError(err error) bool {
	_, ok := err.(*rhp2.RPCError)
	return ok
}
