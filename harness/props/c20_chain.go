package props

// C20 — "a block update that has been through its JSON form refreshes element
// proofs exactly as the original does".
//
// Real chains are built from the exported API only: random valid blocks (v1 and v2
// transactions, siacoin and siafund spends, v1 and v2 file contracts with
// revisions, expirations, renewals and storage proofs, attestations), validated
// with consensus.ValidateBlock, applied with consensus.ApplyBlock, and sometimes
// reverted with consensus.RevertBlock.  Every element that was ever created is
// tracked with its proof.  For every block, each tracked element is refreshed
// twice — with the update as returned, and with json.Unmarshal(json.Marshal(update))
// — and the statement requires identical proofs that verify against the new
// state's accumulator.  The accumulator check is written here from the leaf
// definition (BLAKE2b of 0x00 ‖ element hash ‖ index ‖ spent), not with core's
// unexported helpers.

import (
	"bytes"
	"encoding/binary"
	"encoding/json"
	"fmt"
	"math/rand"
	"reflect"
	"time"

	"go.sia.tech/core/blake2b"
	"go.sia.tech/core/consensus"
	"go.sia.tech/core/types"
)

type c20Elem struct {
	kind  string // sc sf fc v2fc att ci
	id    types.Hash256
	hash  func() types.Hash256 // element hash of the current content
	spent bool
	se    types.StateElement
}

type c20Chain struct {
	rng    *rand.Rand
	n      *consensus.Network
	sk     types.PrivateKey
	pk     types.PublicKey
	addr   types.Address
	uc     types.UnlockConditions
	cs     consensus.State
	tip    types.Block
	ts     time.Time
	ids    []types.BlockID // by height
	elems  map[types.Hash256]*c20Elem
	order  []types.Hash256
	sces   map[types.SiacoinOutputID]types.SiacoinElement
	sfes   map[types.SiafundOutputID]types.SiafundElement
	fces   map[types.FileContractID]types.FileContractElement
	v2fces map[types.FileContractID]types.V2FileContractElement
	cies   map[uint64]types.ChainIndexElement
	// undo log for reverts
	hist []c20Hist
}

type c20Hist struct {
	prev  consensus.State
	block types.Block
	bs    consensus.V1BlockSupplement
	ts    time.Time
}

func c20ElemHash(dist string, parts ...types.EncoderTo) types.Hash256 {
	h := types.NewHasher()
	h.WriteDistinguisher(dist)
	for _, p := range parts {
		p.EncodeTo(h.E)
	}
	return h.Sum()
}

type c20U64 uint64

func (u c20U64) EncodeTo(e *types.Encoder) { e.WriteUint64(uint64(u)) }

// c20LeafRoot: the root the accumulator must hold for this leaf and proof.
func c20LeafRoot(elemHash types.Hash256, spent bool, se types.StateElement) types.Hash256 {
	buf := make([]byte, 1+32+8+1)
	buf[0] = 0x00
	copy(buf[1:], elemHash[:])
	binary.LittleEndian.PutUint64(buf[33:], se.LeafIndex)
	if spent {
		buf[41] = 1
	}
	root := types.HashBytes(buf)
	for i, h := range se.MerkleProof {
		if se.LeafIndex&(1<<uint(i)) == 0 {
			root = blake2b.SumPair(root, h)
		} else {
			root = blake2b.SumPair(h, root)
		}
	}
	return root
}

func c20InAccumulator(acc consensus.ElementAccumulator, elemHash types.Hash256, spent bool, se types.StateElement) bool {
	h := len(se.MerkleProof)
	if h >= 64 || acc.NumLeaves&(1<<uint(h)) == 0 || se.LeafIndex >= acc.NumLeaves {
		return false
	}
	return acc.Trees[h] == c20LeafRoot(elemHash, spent, se)
}

func c20CopySE(se types.StateElement) types.StateElement {
	return types.StateElement{LeafIndex: se.LeafIndex, MerkleProof: append([]types.Hash256(nil), se.MerkleProof...)}
}

func newC20Chain(seed int64) *c20Chain {
	rng := rand.New(rand.NewSource(seed))
	n := &consensus.Network{
		Name:            "verif-c20",
		InitialCoinbase: types.Siacoins(300000),
		MinimumCoinbase: types.Siacoins(300000),
		InitialTarget:   types.BlockID{0xFF},
		BlockInterval:   10 * time.Millisecond,
		MaturityDelay:   2,
	}
	n.HardforkDevAddr.Height = 1
	n.HardforkTax.Height = 0
	n.HardforkStorageProof.Height = 0
	n.HardforkOak.Height = 4
	n.HardforkOak.FixHeight = 5
	n.HardforkOak.GenesisTimestamp = time.Unix(1618033988, 0)
	n.HardforkASIC.Height = 6
	n.HardforkASIC.OakTime = 10000 * time.Second
	n.HardforkASIC.OakTarget = n.InitialTarget
	n.HardforkASIC.NonceFactor = 1009
	n.HardforkFoundation.Height = 7
	n.HardforkFoundation.PrimaryAddress = types.AnyoneCanSpend().Address()
	n.HardforkFoundation.FailsafeAddress = types.VoidAddress
	n.HardforkV2.AllowHeight = uint64(6 + rng.Intn(12))
	n.HardforkV2.RequireHeight = n.HardforkV2.AllowHeight + uint64(2+rng.Intn(8))
	n.HardforkV2.FinalCutHeight = n.HardforkV2.RequireHeight + 1000
	n.HardforkV2.EphemeralOutputHeight = 0
	seedBytes := make([]byte, 32)
	rng.Read(seedBytes)
	sk := types.NewPrivateKeyFromSeed(seedBytes)
	ch := &c20Chain{rng: rng, n: n, sk: sk, pk: sk.PublicKey(),
		elems: map[types.Hash256]*c20Elem{}, sces: map[types.SiacoinOutputID]types.SiacoinElement{}, sfes: map[types.SiafundOutputID]types.SiafundElement{},
		fces: map[types.FileContractID]types.FileContractElement{}, v2fces: map[types.FileContractID]types.V2FileContractElement{}, cies: map[uint64]types.ChainIndexElement{}}
	ch.uc = types.StandardUnlockConditions(ch.pk)
	ch.addr = ch.uc.UnlockHash()
	return ch
}

func (ch *c20Chain) genesis() types.Block {
	gift := types.Transaction{}
	for i := 0; i < 6; i++ {
		gift.SiacoinOutputs = append(gift.SiacoinOutputs, types.SiacoinOutput{Address: ch.addr, Value: types.Siacoins(uint32(1000 + ch.rng.Intn(1000)))})
	}
	left := uint64(10000)
	for i := 0; i < 3; i++ {
		v := left / 2
		if i == 2 {
			v = left
		}
		left -= v
		gift.SiafundOutputs = append(gift.SiafundOutputs, types.SiafundOutput{Address: ch.addr, Value: v})
	}
	return types.Block{Timestamp: ch.n.HardforkOak.GenesisTimestamp, Transactions: []types.Transaction{gift}}
}

// ---------------------------------------------------------------- tracking

func (ch *c20Chain) track(kind string, id types.Hash256, se types.StateElement, hash func() types.Hash256) {
	if e, ok := ch.elems[id]; ok {
		e.hash = hash
		return
	}
	ch.elems[id] = &c20Elem{kind: kind, id: id, hash: hash, se: c20CopySE(se)}
	ch.order = append(ch.order, id)
}

func (ch *c20Chain) untrack(id types.Hash256) {
	delete(ch.elems, id)
	for i, x := range ch.order {
		if x == id {
			ch.order = append(ch.order[:i:i], ch.order[i+1:]...)
			break
		}
	}
}

func c20scHash(e types.SiacoinElement) func() types.Hash256 {
	e = e.Copy()
	return func() types.Hash256 {
		return c20ElemHash("leaf/siacoin", e.ID, types.V2SiacoinOutput(e.SiacoinOutput), c20U64(e.MaturityHeight))
	}
}
func c20sfHash(e types.SiafundElement) func() types.Hash256 {
	e = e.Copy()
	return func() types.Hash256 {
		return c20ElemHash("leaf/siafund", e.ID, types.V2SiafundOutput(e.SiafundOutput), types.V2Currency(e.ClaimStart))
	}
}
func c20fcHash(id types.FileContractID, fc types.FileContract) func() types.Hash256 {
	return func() types.Hash256 { return c20ElemHash("leaf/filecontract", id, fc) }
}
func c20v2fcHash(id types.FileContractID, fc types.V2FileContract) func() types.Hash256 {
	return func() types.Hash256 { return c20ElemHash("leaf/v2filecontract", id, fc) }
}

// ---------------------------------------------------------------- block building

func (ch *c20Chain) matured() []types.SiacoinElement {
	var out []types.SiacoinElement
	h := ch.cs.Index.Height + 1
	for _, id := range ch.order {
		if e := ch.elems[id]; e.kind == "sc" && !e.spent {
			sce := ch.sces[types.SiacoinOutputID(id)]
			if sce.MaturityHeight <= h && sce.SiacoinOutput.Address == ch.addr && sce.SiacoinOutput.Value.Cmp(types.Siacoins(200)) >= 0 {
				sce.StateElement = c20CopySE(e.se)
				out = append(out, sce)
			}
		}
	}
	return out
}

func (ch *c20Chain) pickSF() (types.SiafundElement, bool) {
	var c []types.SiafundElement
	for _, id := range ch.order {
		if e := ch.elems[id]; e.kind == "sf" && !e.spent {
			sfe := ch.sfes[types.SiafundOutputID(id)]
			if sfe.SiafundOutput.Address == ch.addr && sfe.SiafundOutput.Value > 1 {
				sfe.StateElement = c20CopySE(e.se)
				c = append(c, sfe)
			}
		}
	}
	if len(c) == 0 {
		return types.SiafundElement{}, false
	}
	return c[ch.rng.Intn(len(c))], true
}

func (ch *c20Chain) signV1(txn *types.Transaction) {
	add := func(parent types.Hash256) {
		sig := ch.sk.SignHash(ch.cs.WholeSigHash(*txn, parent, 0, 0, nil))
		txn.Signatures = append(txn.Signatures, types.TransactionSignature{ParentID: parent, CoveredFields: types.CoveredFields{WholeTransaction: true}, PublicKeyIndex: 0, Signature: sig[:]})
	}
	for _, in := range txn.SiacoinInputs {
		add(types.Hash256(in.ParentID))
	}
	for _, in := range txn.SiafundInputs {
		add(types.Hash256(in.ParentID))
	}
	for _, rev := range txn.FileContractRevisions {
		add(types.Hash256(rev.ParentID))
	}
}

func (ch *c20Chain) signV2(txn *types.V2Transaction) {
	cs := ch.cs
	for i := range txn.Attestations {
		txn.Attestations[i].Signature = ch.sk.SignHash(cs.AttestationSigHash(txn.Attestations[i]))
	}
	for i := range txn.FileContracts {
		h := cs.ContractSigHash(txn.FileContracts[i])
		txn.FileContracts[i].RenterSignature, txn.FileContracts[i].HostSignature = ch.sk.SignHash(h), ch.sk.SignHash(h)
	}
	for i := range txn.FileContractRevisions {
		h := cs.ContractSigHash(txn.FileContractRevisions[i].Revision)
		txn.FileContractRevisions[i].Revision.RenterSignature, txn.FileContractRevisions[i].Revision.HostSignature = ch.sk.SignHash(h), ch.sk.SignHash(h)
	}
	for i := range txn.FileContractResolutions {
		if r, ok := txn.FileContractResolutions[i].Resolution.(*types.V2FileContractRenewal); ok {
			h := cs.ContractSigHash(r.NewContract)
			r.NewContract.RenterSignature, r.NewContract.HostSignature = ch.sk.SignHash(h), ch.sk.SignHash(h)
			rh := cs.RenewalSigHash(*r)
			r.RenterSignature, r.HostSignature = ch.sk.SignHash(rh), ch.sk.SignHash(rh)
		}
	}
	sp := types.SatisfiedPolicy{Policy: types.SpendPolicy{Type: types.PolicyTypeUnlockConditions(ch.uc)}}
	for i := range txn.SiacoinInputs {
		txn.SiacoinInputs[i].SatisfiedPolicy = sp
	}
	for i := range txn.SiafundInputs {
		txn.SiafundInputs[i].SatisfiedPolicy = sp
	}
	sig := ch.sk.SignHash(cs.InputSigHash(*txn))
	for i := range txn.SiacoinInputs {
		txn.SiacoinInputs[i].SatisfiedPolicy.Signatures = []types.Signature{sig}
	}
	for i := range txn.SiafundInputs {
		txn.SiafundInputs[i].SatisfiedPolicy.Signatures = []types.Signature{sig}
	}
}

func (ch *c20Chain) newV2Contract(h uint64, value types.Currency) types.V2FileContract {
	half := value.Div64(2)
	return types.V2FileContract{
		ProofHeight:      h + uint64(1+ch.rng.Intn(4)),
		ExpirationHeight: h + uint64(6+ch.rng.Intn(4)),
		RenterOutput:     types.SiacoinOutput{Address: ch.addr, Value: half},
		HostOutput:       types.SiacoinOutput{Address: types.VoidAddress, Value: value.Sub(half)},
		MissedHostValue:  value.Sub(half).Div64(2),
		TotalCollateral:  value.Sub(half).Div64(3),
		RenterPublicKey:  ch.pk,
		HostPublicKey:    ch.pk,
	}
}

// buildBlock assembles a random child block of the current tip.
func (ch *c20Chain) buildBlock(count func(string)) (types.Block, consensus.V1BlockSupplement) {
	cs := ch.cs
	h := cs.Index.Height + 1
	v2Allowed := h >= ch.n.HardforkV2.AllowHeight
	v2Required := h >= ch.n.HardforkV2.RequireHeight
	useV2 := v2Required || (v2Allowed && ch.rng.Intn(2) == 0)
	b := types.Block{ParentID: cs.Index.ID, Timestamp: ch.ts.Add(time.Second)}
	if h == 1 {
		b.ParentID = ch.tip.ID()
	}
	var bs consensus.V1BlockSupplement
	fees := types.ZeroCurrency
	avail := ch.matured()
	ch.rng.Shuffle(len(avail), func(i, j int) { avail[i], avail[j] = avail[j], avail[i] })
	take := func() (types.SiacoinElement, bool) {
		if len(avail) == 0 {
			return types.SiacoinElement{}, false
		}
		e := avail[0]
		avail = avail[1:]
		return e, true
	}
	ntx := ch.rng.Intn(4)
	if !useV2 {
		for t := 0; t < ntx; t++ {
			var txn types.Transaction
			var ts consensus.V1TransactionSupplement
			switch k := ch.rng.Intn(5); {
			case k <= 1: // siacoin spend, maybe a contract
				in, ok := take()
				if !ok {
					continue
				}
				txn.SiacoinInputs = []types.SiacoinInput{{ParentID: in.ID, UnlockConditions: ch.uc}}
				ts.SiacoinInputs = append(ts.SiacoinInputs, in)
				fee := types.Siacoins(1)
				rest := in.SiacoinOutput.Value.Sub(fee)
				if k == 1 && h+8 < ch.n.HardforkV2.RequireHeight {
					payout := types.Siacoins(uint32(10 + ch.rng.Intn(10)))
					tax := cs.FileContractTax(types.FileContract{Payout: payout})
					fc := types.FileContract{WindowStart: h + uint64(2+ch.rng.Intn(3)), Payout: payout, UnlockHash: ch.uc.UnlockHash(),
						ValidProofOutputs:  []types.SiacoinOutput{{Address: ch.addr, Value: payout.Sub(tax)}},
						MissedProofOutputs: []types.SiacoinOutput{{Address: ch.addr, Value: payout.Sub(tax).Div64(2)}, {Address: types.VoidAddress, Value: payout.Sub(tax).Sub(payout.Sub(tax).Div64(2))}}}
					fc.WindowEnd = fc.WindowStart + uint64(2+ch.rng.Intn(3))
					txn.FileContracts = []types.FileContract{fc}
					rest = rest.Sub(payout)
					count("v1-contract-formation")
				}
				a := rest.Div64(3)
				txn.SiacoinOutputs = []types.SiacoinOutput{{Address: ch.addr, Value: a}, {Address: ch.addr, Value: rest.Sub(a)}}
				txn.MinerFees = []types.Currency{fee}
				fees = fees.Add(fee)
				count("v1-siacoin-spend")
			case k == 2: // siafund spend
				in, ok := ch.pickSF()
				if !ok {
					continue
				}
				dup := false
				for _, o := range bs.Transactions {
					for _, x := range o.SiafundInputs {
						dup = dup || x.ID == in.ID
					}
				}
				if dup {
					continue
				}
				txn.SiafundInputs = []types.SiafundInput{{ParentID: in.ID, UnlockConditions: ch.uc, ClaimAddress: ch.addr}}
				ts.SiafundInputs = append(ts.SiafundInputs, in)
				a := in.SiafundOutput.Value / 2
				txn.SiafundOutputs = []types.SiafundOutput{{Address: ch.addr, Value: a}, {Address: ch.addr, Value: in.SiafundOutput.Value - a}}
				count("v1-siafund-spend")
			case k == 3: // revise a v1 contract
				var cands []types.FileContractElement
				for _, fce := range ch.fces {
					if e := ch.elems[types.Hash256(fce.ID)]; e != nil && !e.spent && fce.FileContract.WindowStart > h {
						fce.StateElement = c20CopySE(e.se)
						cands = append(cands, fce)
					}
				}
				if len(cands) == 0 {
					continue
				}
				// map order is random: pick by smallest id for determinism
				pick := cands[0]
				for _, c := range cands {
					if bytes.Compare(c.ID[:], pick.ID[:]) < 0 {
						pick = c
					}
				}
				dup := false
				for _, o := range bs.Transactions {
					for _, x := range o.RevisedFileContracts {
						dup = dup || x.ID == pick.ID
					}
				}
				if dup {
					continue
				}
				rev := pick.FileContract
				rev.RevisionNumber++
				rev.Filesize = 0
				txn.FileContractRevisions = []types.FileContractRevision{{ParentID: pick.ID, UnlockConditions: ch.uc, FileContract: rev}}
				ts.RevisedFileContracts = append(ts.RevisedFileContracts, pick)
				count("v1-contract-revision")
			default:
				txn.ArbitraryData = [][]byte{[]byte("verif")}
				count("v1-arbitrary-data")
			}
			ch.signV1(&txn)
			b.Transactions = append(b.Transactions, txn)
			bs.Transactions = append(bs.Transactions, ts)
		}
	} else {
		b.V2 = &types.V2BlockData{Height: h}
		usedFC := map[types.FileContractID]bool{}
		for t := 0; t < ntx; t++ {
			var txn types.V2Transaction
			switch k := ch.rng.Intn(7); {
			case k <= 1: // siacoin spend, maybe a contract, maybe an attestation
				in, ok := take()
				if !ok {
					continue
				}
				txn.SiacoinInputs = []types.V2SiacoinInput{{Parent: in}}
				fee := types.Siacoins(1)
				txn.MinerFee = fee
				rest := in.SiacoinOutput.Value.Sub(fee)
				if k == 1 && rest.Cmp(types.Siacoins(100)) > 0 {
					fc := ch.newV2Contract(h, types.Siacoins(uint32(10+ch.rng.Intn(10))))
					txn.FileContracts = []types.V2FileContract{fc}
					rest = rest.Sub(fc.RenterOutput.Value).Sub(fc.HostOutput.Value).Sub(cs.V2FileContractTax(fc))
					count("v2-contract-formation")
				}
				if ch.rng.Intn(3) == 0 {
					txn.Attestations = []types.Attestation{{PublicKey: ch.pk, Key: fmt.Sprintf("k%d", ch.rng.Intn(1000)), Value: []byte{byte(ch.rng.Intn(256))}}}
					count("v2-attestation")
				}
				a := rest.Div64(3)
				txn.SiacoinOutputs = []types.SiacoinOutput{{Address: ch.addr, Value: a}, {Address: ch.addr, Value: rest.Sub(a)}}
				fees = fees.Add(fee)
				count("v2-siacoin-spend")
			case k == 2:
				in, ok := ch.pickSF()
				if !ok {
					continue
				}
				dup := false
				for _, o := range b.V2.Transactions {
					for _, x := range o.SiafundInputs {
						dup = dup || x.Parent.ID == in.ID
					}
				}
				if dup {
					continue
				}
				txn.SiafundInputs = []types.V2SiafundInput{{Parent: in, ClaimAddress: ch.addr}}
				a := in.SiafundOutput.Value / 2
				txn.SiafundOutputs = []types.SiafundOutput{{Address: ch.addr, Value: a}, {Address: ch.addr, Value: in.SiafundOutput.Value - a}}
				count("v2-siafund-spend")
			default: // act on an existing v2 contract
				var ids []types.FileContractID
				for id := range ch.v2fces {
					if e := ch.elems[types.Hash256(id)]; e != nil && !e.spent && !usedFC[id] {
						ids = append(ids, id)
					}
				}
				if len(ids) == 0 {
					continue
				}
				pick := ids[0]
				for _, id := range ids {
					if bytes.Compare(id[:], pick[:]) < 0 {
						pick = id
					}
				}
				if len(ids) > 1 && ch.rng.Intn(2) == 0 {
					pick = ids[len(ids)-1]
					for _, id := range ids {
						if bytes.Compare(id[:], pick[:]) > 0 {
							pick = id
						}
					}
				}
				fce := ch.v2fces[pick]
				fce.StateElement = c20CopySE(ch.elems[types.Hash256(pick)].se)
				fc := fce.V2FileContract
				usedFC[pick] = true
				switch {
				case h > fc.ExpirationHeight:
					txn.FileContractResolutions = []types.V2FileContractResolution{{Parent: fce, Resolution: &types.V2FileContractExpiration{}}}
					count("v2-resolution-expiration")
				case h >= fc.ProofHeight && h <= fc.ExpirationHeight && ch.rng.Intn(3) == 0:
					usedFC[pick] = false
					continue // leave it alone so that some contracts reach their expiration
				case h >= fc.ProofHeight:
					cie, ok := ch.cies[fc.ProofHeight]
					if !ok {
						continue
					}
					cie.StateElement = c20CopySE(ch.elems[types.Hash256(cie.ID)].se)
					txn.FileContractResolutions = []types.V2FileContractResolution{{Parent: fce, Resolution: &types.V2StorageProof{ProofIndex: cie}}}
					count("v2-resolution-storage-proof")
				case k%2 == 0 && h <= fc.ProofHeight:
					rev := fc
					rev.RevisionNumber++
					move := rev.RenterOutput.Value.Div64(4)
					rev.RenterOutput.Value = rev.RenterOutput.Value.Sub(move)
					rev.HostOutput.Value = rev.HostOutput.Value.Add(move)
					txn.FileContractRevisions = []types.V2FileContractRevision{{Parent: fce, Revision: rev}}
					count("v2-contract-revision")
				default:
					// renewal: everything rolls over into the new contract, the rest is funded by an input
					in, ok := take()
					if !ok {
						usedFC[pick] = false
						continue
					}
					nc := ch.newV2Contract(h, fc.RenterOutput.Value.Add(fc.HostOutput.Value))
					ren := &types.V2FileContractRenewal{
						FinalRenterOutput: types.SiacoinOutput{Address: ch.addr, Value: types.ZeroCurrency},
						FinalHostOutput:   types.SiacoinOutput{Address: types.VoidAddress, Value: types.ZeroCurrency},
						RenterRollover:    fc.RenterOutput.Value, HostRollover: fc.HostOutput.Value, NewContract: nc}
					txn.FileContractResolutions = []types.V2FileContractResolution{{Parent: fce, Resolution: ren}}
					txn.SiacoinInputs = []types.V2SiacoinInput{{Parent: in}}
					fee := types.Siacoins(1)
					txn.MinerFee = fee
					fees = fees.Add(fee)
					txn.SiacoinOutputs = []types.SiacoinOutput{{Address: ch.addr, Value: in.SiacoinOutput.Value.Sub(fee).Sub(cs.V2FileContractTax(nc))}}
					count("v2-resolution-renewal")
				}
			}
			ch.signV2(&txn)
			b.V2.Transactions = append(b.V2.Transactions, txn)
		}
	}
	// expiring v1 contracts must be supplied
	var exp []types.FileContractElement
	for _, fce := range ch.fces {
		if e := ch.elems[types.Hash256(fce.ID)]; e != nil && !e.spent && fce.FileContract.WindowEnd == h {
			fce.StateElement = c20CopySE(e.se)
			exp = append(exp, fce)
		}
	}
	for i := range exp {
		for j := i + 1; j < len(exp); j++ {
			if bytes.Compare(exp[j].ID[:], exp[i].ID[:]) < 0 {
				exp[i], exp[j] = exp[j], exp[i]
			}
		}
	}
	if v2Required {
		exp = nil // no supplement after the hardfork is complete
	}
	bs.ExpiringFileContracts = exp
	if len(exp) > 0 {
		count("v1-contract-expiry")
	}
	b.MinerPayouts = []types.SiacoinOutput{{Address: ch.addr, Value: cs.BlockReward().Add(fees)}}
	if b.V2 != nil {
		b.V2.Commitment = cs.Commitment(ch.addr, b.Transactions, b.V2Transactions())
	}
	for b.Nonce%cs.NonceFactor() != 0 {
		b.Nonce++
	}
	for b.ID().CmpWork(cs.PoWTarget()) < 0 {
		b.Nonce += cs.NonceFactor()
	}
	return b, bs
}

// ---------------------------------------------------------------- the check

type c20Updater interface {
	UpdateElementProof(e *types.StateElement)
}

// c20Refreshed is one tracked element refreshed by the original update and by
// the update that went through JSON.
type c20Refreshed struct {
	orig, via   types.StateElement
	viaPanicked string
	hasVia      bool
}

// refreshAll applies both updates to a copy of every tracked proof.
func (r *c20run) refreshAll(ch *c20Chain, what string, orig, viaJSON c20Updater, chainSeed int64, height uint64, skip func(*c20Elem) bool) map[types.Hash256]*c20Refreshed {
	res := r.res
	out := map[types.Hash256]*c20Refreshed{}
	for _, id := range ch.order {
		e := ch.elems[id]
		if skip != nil && skip(e) {
			continue
		}
		a, b := c20CopySE(e.se), c20CopySE(e.se)
		res.Eval(fmt.Sprintf("update %s seed=%d h=%d %s %x", what, chainSeed, height, e.kind, id[:8]), true)
		res.Count("update-" + what + ":" + e.kind)
		if pa, ma := c20Recover(func() { orig.UpdateElementProof(&a) }); pa {
			rep := map[string]any{"kind": "update-json", "chainSeed": chainSeed, "height": height, "update": what, "element": fmt.Sprintf("%s %x leaf %d", e.kind, id[:], e.se.LeafIndex)}
			r.violate("c20-update-original-panic", fmt.Sprintf("%s.UpdateElementProof panics on a tracked, up-to-date %s element: %s", what, e.kind, ma), rep, "no panic", ma)
			continue
		}
		rf := &c20Refreshed{orig: a}
		if viaJSON != nil {
			rf.hasVia = true
			if pb, mb := c20Recover(func() { viaJSON.UpdateElementProof(&b) }); pb {
				rf.viaPanicked = mb
			}
			rf.via = b
		}
		out[id] = rf
	}
	return out
}

// verifyAll checks the statement on the refreshed proofs; `ch` must hold the
// content and spent flags the elements have in the state `acc` belongs to.
func (r *c20run) verifyAll(ch *c20Chain, what string, fresh map[types.Hash256]*c20Refreshed, acc consensus.ElementAccumulator, chainSeed int64, height uint64) {
	res := r.res
	for _, id := range ch.order {
		rf, ok := fresh[id]
		if !ok {
			continue
		}
		e := ch.elems[id]
		rep := map[string]any{"kind": "update-json", "chainSeed": chainSeed, "height": height, "update": what, "element": fmt.Sprintf("%s %x leaf %d", e.kind, id[:], rf.orig.LeafIndex)}
		okA := c20InAccumulator(acc, e.hash(), e.spent, rf.orig)
		if !okA {
			// the original update itself is wrong: not a JSON matter (that is C05), but it is
			// what "exactly as the original" is measured against
			res.Count("update-original-proof-INVALID:" + what)
			r.violate("c20-update-original-proof", fmt.Sprintf("after %s at height %d the refreshed proof of a %s element does not verify against the accumulator (original update, no JSON involved)", what, height, e.kind), rep, "valid proof", "root mismatch")
		}
		if !rf.hasVia {
			continue
		}
		a, b := rf.orig, rf.via
		switch {
		case rf.viaPanicked != "":
			res.Count("update-json-DIFF:" + what)
			r.violate("c20-update-json-proof", fmt.Sprintf("%s that went through JSON panics in UpdateElementProof (%s) where the original does not", what, rf.viaPanicked), rep, "same as original", "panic: "+rf.viaPanicked)
		case a.LeafIndex != b.LeafIndex || !reflect.DeepEqual(append([]types.Hash256{}, a.MerkleProof...), append([]types.Hash256{}, b.MerkleProof...)):
			res.Count("update-json-DIFF:" + what)
			okB := c20InAccumulator(acc, e.hash(), e.spent, b)
			r.violate("c20-update-json-proof", fmt.Sprintf("%s that went through JSON refreshes the proof of a tracked %s element differently from the original (original verifies: %v, via JSON verifies: %v)", what, e.kind, okA, okB), rep,
				fmt.Sprintf("proof %x", a.MerkleProof), fmt.Sprintf("proof %x", b.MerkleProof))
		default:
			res.Count("update-json-same:" + what)
		}
	}
}

// c20DiffsEqual compares the element diffs exposed by two updates.
func c20DiffsEqual(a, b any) string {
	type diffs interface {
		SiacoinElementDiffs() []consensus.SiacoinElementDiff
		SiafundElementDiffs() []consensus.SiafundElementDiff
		FileContractElementDiffs() []consensus.FileContractElementDiff
		V2FileContractElementDiffs() []consensus.V2FileContractElementDiff
		ChainIndexElement() types.ChainIndexElement
	}
	x, y := a.(diffs), b.(diffs)
	pairs := [][2]any{
		{x.SiacoinElementDiffs(), y.SiacoinElementDiffs()}, {x.SiafundElementDiffs(), y.SiafundElementDiffs()},
		{x.FileContractElementDiffs(), y.FileContractElementDiffs()}, {x.V2FileContractElementDiffs(), y.V2FileContractElementDiffs()},
		{x.ChainIndexElement(), y.ChainIndexElement()},
	}
	for i, p := range pairs {
		va, vb := reflect.New(reflect.TypeOf(p[0])), reflect.New(reflect.TypeOf(p[1]))
		va.Elem().Set(reflect.ValueOf(p[0]))
		vb.Elem().Set(reflect.ValueOf(p[1]))
		if d := c20Equal(va.Elem(), vb.Elem(), fmt.Sprintf("diffs[%d]", i)); d != "" {
			return d
		}
	}
	return ""
}

func (ch *c20Chain) absorbApply(au consensus.ApplyUpdate, fresh map[types.Hash256]*c20Refreshed) {
	for id, rf := range fresh {
		if e := ch.elems[id]; e != nil {
			e.se = c20CopySE(rf.orig)
		}
	}
	for _, d := range au.SiacoinElementDiffs() {
		sce := d.SiacoinElement.Copy()
		id := types.Hash256(sce.ID)
		if d.Created && d.Spent {
			continue // ephemeral: never a tracked leaf with a usable proof before this block
		}
		if d.Created {
			ch.sces[sce.ID] = sce
			ch.track("sc", id, sce.StateElement, c20scHash(sce))
		}
		if d.Spent {
			if e := ch.elems[id]; e != nil {
				e.spent = true
			}
		}
	}
	for _, d := range au.SiafundElementDiffs() {
		sfe := d.SiafundElement.Copy()
		id := types.Hash256(sfe.ID)
		if d.Created && d.Spent {
			continue
		}
		if d.Created {
			ch.sfes[sfe.ID] = sfe
			ch.track("sf", id, sfe.StateElement, c20sfHash(sfe))
		}
		if d.Spent {
			if e := ch.elems[id]; e != nil {
				e.spent = true
			}
		}
	}
	for _, d := range au.FileContractElementDiffs() {
		fce := d.FileContractElement.Copy()
		id := types.Hash256(fce.ID)
		fc := fce.FileContract
		if d.Revision != nil {
			fc = *d.Revision
		}
		fce.FileContract = fc
		if d.Created {
			ch.track("fc", id, fce.StateElement, c20fcHash(fce.ID, fc))
		}
		if e := ch.elems[id]; e != nil {
			e.hash = c20fcHash(fce.ID, fc)
			if d.Resolved {
				e.spent = true
			}
		}
		ch.fces[fce.ID] = fce
	}
	for _, d := range au.V2FileContractElementDiffs() {
		fce := d.V2FileContractElement.Copy()
		id := types.Hash256(fce.ID)
		fc := fce.V2FileContract
		if d.Revision != nil {
			fc = *d.Revision
		}
		fce.V2FileContract = fc
		if d.Created {
			ch.track("v2fc", id, fce.StateElement, c20v2fcHash(fce.ID, fc))
		}
		if e := ch.elems[id]; e != nil {
			e.hash = c20v2fcHash(fce.ID, fc)
			if d.Resolution != nil {
				e.spent = true
			}
		}
		ch.v2fces[fce.ID] = fce
	}
	// attestation elements have no accessor; they are visible in the update's JSON form
	for _, ae := range c20AttestationElements(au) {
		a := ae
		ch.track("att", types.Hash256(a.ID), a.StateElement, func() types.Hash256 { return c20ElemHash("leaf/attestation", a.ID, a.Attestation) })
	}
	cie := au.ChainIndexElement().Copy()
	ch.cies[cie.ChainIndex.Height] = cie
	ci := cie
	ch.track("ci", types.Hash256(cie.ID), cie.StateElement, func() types.Hash256 { return c20ElemHash("leaf/chainindex", ci.ID, ci.ChainIndex) })
}

func c20AttestationElements(au consensus.ApplyUpdate) []types.AttestationElement {
	js, err := json.Marshal(au)
	if err != nil {
		return nil
	}
	var v struct {
		AttestationElements []types.AttestationElement `json:"attestationElements"`
	}
	if json.Unmarshal(js, &v) != nil {
		return nil
	}
	return v.AttestationElements
}

// runChain builds one chain and checks every update.
func (r *c20run) runChain(chainSeed int64, nblocks int) {
	res := r.res
	ch := newC20Chain(chainSeed)
	count := func(s string) { res.Count("chain-event:" + s) }
	gen := ch.genesis()
	ch.tip = gen
	ch.ts = gen.Timestamp
	var au consensus.ApplyUpdate
	panicked, msg := c20Recover(func() {
		ch.cs, au = consensus.ApplyBlock(ch.n.GenesisState(), gen, consensus.V1BlockSupplement{Transactions: make([]consensus.V1TransactionSupplement, 1)}, time.Time{})
	})
	if panicked {
		res.Note("chain %d: genesis panics: %s", chainSeed, msg)
		return
	}
	ch.ids = append(ch.ids, gen.ID())
	ch.absorbApply(au, nil)
	for step := 0; step < nblocks; step++ {
		h := ch.cs.Index.Height + 1
		var b types.Block
		var bs consensus.V1BlockSupplement
		if p, m := c20Recover(func() { b, bs = ch.buildBlock(count) }); p {
			res.Count("chain-build-panic")
			res.Note("chain %d height %d: block builder panicked: %s", chainSeed, h, m)
			return
		}
		var verr error
		if p, m := c20Recover(func() { verr = consensus.ValidateBlock(ch.cs, b, bs) }); p {
			res.Count("chain-validate-panic")
			res.Note("chain %d height %d: ValidateBlock panicked: %s", chainSeed, h, m)
			return
		}
		if verr != nil {
			// the generator produced an invalid block: fall back to an empty block
			res.Count("chain-block-invalid")
			if res.Distribution["chain-block-invalid"] <= 5 {
				res.Note("chain %d height %d: generated block invalid: %v", chainSeed, h, verr)
			}
			continue
		}
		prev := ch.cs
		var next consensus.State
		if p, m := c20Recover(func() { next, au = consensus.ApplyBlock(prev, b, bs, time.Time{}) }); p {
			res.Count("chain-apply-panic")
			res.Note("chain %d height %d: ApplyBlock panicked on a valid block: %s", chainSeed, h, m)
			return
		}
		res.Count("chain-blocks-applied")
		if b.V2 != nil {
			res.Count("chain-blocks-v2")
		}
		// the update through JSON
		var au2 consensus.ApplyUpdate
		js, err := json.Marshal(au)
		rep := map[string]any{"kind": "update-json", "chainSeed": chainSeed, "height": h, "update": "ApplyUpdate"}
		if err != nil {
			r.violate("c20-update-json-marshal", "ApplyUpdate cannot be marshalled: "+err.Error(), rep, "JSON", err.Error())
		} else if p, m := c20Recover(func() { err = json.Unmarshal(js, &au2) }); p || err != nil {
			r.violate("c20-update-json-unmarshal", fmt.Sprintf("ApplyUpdate cannot read back its own JSON: %v %s", err, m), rep, "round trip", fmt.Sprint(err, m))
		} else {
			if r.c.Thorough() || step%4 == 0 {
				r.modelUpdateJSON(js, true)
			}
			if d := c20DiffsEqual(au, au2); d != "" {
				r.violate("c20-update-json-diffs", "ApplyUpdate element diffs differ after JSON round trip at "+d, rep, "same diffs", d)
			}
			if js2, err := json.Marshal(au2); err != nil || !bytes.Equal(js, js2) {
				r.violate("c20-update-json-remarshal", "ApplyUpdate re-marshals differently after a JSON round trip", rep, "same bytes", "different")
			}
			fresh := r.refreshAll(ch, "ApplyUpdate", au, au2, chainSeed, h, nil)
			ch.hist = append(ch.hist, c20Hist{prev: prev, block: b, bs: bs, ts: ch.ts})
			snapshot := ch.snapshot()
			ch.cs, ch.tip, ch.ts = next, b, b.Timestamp
			ch.ids = append(ch.ids, b.ID())
			ch.absorbApply(au, fresh)
			// the elements now carry their post-block content and spent flags
			r.verifyAll(ch, "ApplyUpdate", fresh, next.Elements, chainSeed, h)
			// occasionally revert the block just applied and check the RevertUpdate the same way
			if ch.rng.Intn(4) == 0 {
				var ru, ru2 consensus.RevertUpdate
				if p, m := c20Recover(func() { ru = consensus.RevertBlock(prev, b, bs) }); p {
					res.Note("chain %d height %d: RevertBlock panicked: %s", chainSeed, h, m)
					return
				}
				res.Count("chain-blocks-reverted")
				rrep := map[string]any{"kind": "update-json", "chainSeed": chainSeed, "height": h, "update": "RevertUpdate"}
				rjs, err := json.Marshal(ru)
				if err != nil {
					r.violate("c20-update-json-marshal", "RevertUpdate cannot be marshalled: "+err.Error(), rrep, "JSON", err.Error())
				} else if p, m := c20Recover(func() { err = json.Unmarshal(rjs, &ru2) }); p || err != nil {
					r.violate("c20-update-json-unmarshal", fmt.Sprintf("RevertUpdate cannot read back its own JSON: %v %s", err, m), rrep, "round trip", fmt.Sprint(err, m))
				} else {
					r.modelUpdateJSON(rjs, false)
					if d := c20DiffsEqual(ru, ru2); d != "" {
						r.violate("c20-update-json-diffs", "RevertUpdate element diffs differ after JSON round trip at "+d, rrep, "same diffs", d)
					}
					// elements created by the reverted block leave the accumulator; the others are
					// refreshed and must verify against the parent state, in their pre-block condition
					created := map[types.Hash256]bool{}
					for _, d := range au.SiacoinElementDiffs() {
						if d.Created {
							created[types.Hash256(d.SiacoinElement.ID)] = true
						}
					}
					for _, d := range au.SiafundElementDiffs() {
						if d.Created {
							created[types.Hash256(d.SiafundElement.ID)] = true
						}
					}
					for _, d := range au.FileContractElementDiffs() {
						if d.Created {
							created[types.Hash256(d.FileContractElement.ID)] = true
						}
					}
					for _, d := range au.V2FileContractElementDiffs() {
						if d.Created {
							created[types.Hash256(d.V2FileContractElement.ID)] = true
						}
					}
					created[types.Hash256(au.ChainIndexElement().ID)] = true
					for _, ae := range c20AttestationElements(au) {
						created[types.Hash256(ae.ID)] = true
					}
					// use the pre-block content/spent flags for verification: compare on a
					// view of the chain where those are restored but proofs are the post-block ones
					view := snapshot.withProofsFrom(ch)
					rfresh := r.refreshAll(view, "RevertUpdate", ru, ru2, chainSeed, h, func(e *c20Elem) bool { return created[e.id] })
					r.verifyAll(view, "RevertUpdate", rfresh, prev.Elements, chainSeed, h)
				}
				// continue on the reverted chain (a fork will be built on the parent)
				ch.restore(snapshot)
				ch.hist = ch.hist[:len(ch.hist)-1]
			}
		}
	}
}

// snapshot / restore of the tracking state (for reverts)
type c20Snap struct {
	cs     consensus.State
	tip    types.Block
	ts     time.Time
	ids    []types.BlockID
	elems  map[types.Hash256]c20Elem
	order  []types.Hash256
	sces   map[types.SiacoinOutputID]types.SiacoinElement
	sfes   map[types.SiafundOutputID]types.SiafundElement
	fces   map[types.FileContractID]types.FileContractElement
	v2fces map[types.FileContractID]types.V2FileContractElement
	cies   map[uint64]types.ChainIndexElement
	rng    *rand.Rand
	n      *consensus.Network
}

func (ch *c20Chain) snapshot() *c20Snap {
	s := &c20Snap{cs: ch.cs, tip: ch.tip, ts: ch.ts, ids: append([]types.BlockID(nil), ch.ids...), order: append([]types.Hash256(nil), ch.order...),
		elems: map[types.Hash256]c20Elem{}, sces: map[types.SiacoinOutputID]types.SiacoinElement{}, sfes: map[types.SiafundOutputID]types.SiafundElement{},
		fces: map[types.FileContractID]types.FileContractElement{}, v2fces: map[types.FileContractID]types.V2FileContractElement{}, cies: map[uint64]types.ChainIndexElement{}}
	for k, v := range ch.elems {
		c := *v
		c.se = c20CopySE(v.se)
		s.elems[k] = c
	}
	for k, v := range ch.sces {
		s.sces[k] = v
	}
	for k, v := range ch.sfes {
		s.sfes[k] = v
	}
	for k, v := range ch.fces {
		s.fces[k] = v
	}
	for k, v := range ch.v2fces {
		s.v2fces[k] = v
	}
	for k, v := range ch.cies {
		s.cies[k] = v
	}
	return s
}

func (ch *c20Chain) restore(s *c20Snap) {
	ch.cs, ch.tip, ch.ts, ch.ids, ch.order = s.cs, s.tip, s.ts, s.ids, s.order
	ch.elems = map[types.Hash256]*c20Elem{}
	for k, v := range s.elems {
		c := v
		ch.elems[k] = &c
	}
	ch.sces, ch.sfes, ch.fces, ch.v2fces, ch.cies = s.sces, s.sfes, s.fces, s.v2fces, s.cies
}

// withProofsFrom: the pre-block elements (content, spent flag) carrying the
// post-block proofs of `cur` — the input a RevertUpdate is meant for.
func (s *c20Snap) withProofsFrom(cur *c20Chain) *c20Chain {
	v := &c20Chain{elems: map[types.Hash256]*c20Elem{}}
	for _, id := range cur.order {
		ce := cur.elems[id]
		c := *ce
		c.se = c20CopySE(ce.se)
		if pre, ok := s.elems[id]; ok {
			c.hash, c.spent = pre.hash, pre.spent
		}
		v.elems[id] = &c
		v.order = append(v.order, id)
	}
	return v
}

func (r *c20run) updates() {
	n := r.c.Budget(4, 60)
	r.updatesWithSeed(r.c.Seed*1000, n)
}

func (r *c20run) updatesWithSeed(base int64, n int) {
	for i := 0; i < n; i++ {
		r.runChain(base+int64(i), r.c.Budget(45, 120))
	}
}
