package props

// C08 — Height- and time-dependent rules flip exactly at their boundaries.
//
// Go side: while random chains grow (all modes / eras, random hardfork heights and
// maturity delays), at every height the harness looks for elements whose rule
// boundary is the current child height or the next one and builds a single-purpose
// block containing one transaction that is valid except possibly for that rule; the
// real ValidateBlock verdict must equal the verdict the STATEMENT prescribes
// (bound comparisons written here from the property text). Every probe is also run
// through the Lean ledger model.

import (
	"fmt"
	"math/rand"
	"time"

	"go.sia.tech/core/consensus"
	"go.sia.tech/core/types"
	"verif/harness/internal/chain"
	"verif/harness/internal/fw"
)

func init() { fw.Register("C08", runC08) }

type probe struct {
	rule   string
	where  string // "below" | "at" | "above" the boundary
	accept bool   // what the statement prescribes
	block  types.Block
	supp   consensus.V1BlockSupplement
	note   string
}

func emptyBlock(s *chain.Sim) types.Block {
	b := types.Block{Timestamp: s.NextTimestamp()}
	if s.V2Allowed() {
		b.V2 = &types.V2BlockData{}
	}
	return b
}

func v1SpendBlock(s *chain.Sim, e types.SiacoinElement) (types.Block, consensus.V1BlockSupplement, *types.Transaction, bool) {
	r := s.RecipeFor(e.SiacoinOutput.Address)
	if r == nil || !r.V1Spendable() || e.SiacoinOutput.Value.IsZero() {
		return types.Block{}, consensus.V1BlockSupplement{}, nil, false
	}
	t := types.Transaction{SiacoinInputs: []types.SiacoinInput{{ParentID: e.ID, UnlockConditions: *r.UC}}, SiacoinOutputs: []types.SiacoinOutput{{Value: e.SiacoinOutput.Value, Address: s.NewAddr(false)}}}
	if !s.ResignV1(&t) {
		return types.Block{}, consensus.V1BlockSupplement{}, nil, false
	}
	b := emptyBlock(s)
	b.Transactions = []types.Transaction{t}
	supp := consensus.V1BlockSupplement{Transactions: []consensus.V1TransactionSupplement{{SiacoinInputs: []types.SiacoinElement{e.Copy()}}}}
	return b, supp, &b.Transactions[0], true
}

// v1SiafundSpendBlock spends siafund element e revealing recipe r's unlock conditions.
func v1SiafundSpendBlock(s *chain.Sim, e types.SiafundElement, r *chain.Recipe) (types.Block, consensus.V1BlockSupplement, bool) {
	if r == nil || !r.V1Spendable() {
		return types.Block{}, consensus.V1BlockSupplement{}, false
	}
	t := types.Transaction{
		SiafundInputs:  []types.SiafundInput{{ParentID: e.ID, UnlockConditions: *r.UC, ClaimAddress: s.NewAddr(false)}},
		SiafundOutputs: []types.SiafundOutput{{Value: e.SiafundOutput.Value, Address: s.NewAddr(false)}},
	}
	if !s.ResignV1(&t) {
		return types.Block{}, consensus.V1BlockSupplement{}, false
	}
	b := emptyBlock(s)
	b.Transactions = []types.Transaction{t}
	supp := consensus.V1BlockSupplement{Transactions: []consensus.V1TransactionSupplement{{SiafundInputs: []types.SiafundElement{e.Copy()}}}}
	return b, supp, true
}

func v2SpendBlock(s *chain.Sim, e types.SiacoinElement) (types.Block, bool) {
	if s.RecipeFor(e.SiacoinOutput.Address) == nil || e.SiacoinOutput.Value.IsZero() {
		return types.Block{}, false
	}
	vt := types.V2Transaction{SiacoinInputs: []types.V2SiacoinInput{{Parent: e.Copy()}}, SiacoinOutputs: []types.SiacoinOutput{{Value: e.SiacoinOutput.Value, Address: s.NewAddr(true)}}}
	if !s.ResignV2(&vt) {
		return types.Block{}, false
	}
	b := types.Block{Timestamp: s.NextTimestamp(), V2: &types.V2BlockData{Transactions: []types.V2Transaction{vt}}}
	return b, true
}

func where(child, bound uint64) string {
	switch {
	case child < bound:
		return "below"
	case child == bound:
		return "at"
	}
	return "above"
}

// probesAt builds the boundary probes applicable at the current tip.
func probesAt(s *chain.Sim, rng *rand.Rand) []probe {
	var out []probe
	child := s.ChildHeight()
	net := s.Net
	v1ok := child < net.HardforkV2.RequireHeight
	v2ok := child >= net.HardforkV2.AllowHeight
	miner := s.NewAddr(false)
	add := func(rule string, bound uint64, accept bool, b types.Block, supp consensus.V1BlockSupplement) {
		if len(supp.Transactions) < len(b.Transactions) {
			supp.Transactions = append(supp.Transactions, make([]consensus.V1TransactionSupplement, len(b.Transactions)-len(supp.Transactions))...)
		}
		s.Seal(&b, miner)
		out = append(out, probe{rule: rule, where: where(child, bound), accept: accept, block: b, supp: supp})
	}
	near := func(bound uint64) bool { return bound == child || bound == child+1 || bound+1 == child }
	med := s.MedianTime()

	// --- spending rules on siacoin outputs
	nsc := 0
	for _, e := range s.St.SortedSC() {
		r := s.RecipeFor(e.SiacoinOutput.Address)
		if r == nil || e.SiacoinOutput.Value.IsZero() || nsc > 40 {
			continue
		}
		lockFree := r.Kind == "uc1" || r.Kind == "uc2of3" || r.Kind == "uc2of70" || r.Kind == "ucalien" || r.Kind == "pk" || r.Kind == "hash" || r.Kind == "thresh"
		// maturity: spendable iff MaturityHeight <= child
		if lockFree && near(e.MaturityHeight) {
			if v1ok && r.V1Spendable() {
				if b, supp, _, ok := v1SpendBlock(s, e); ok {
					add("maturity-v1", e.MaturityHeight, e.MaturityHeight <= child, b, supp)
					nsc++
				}
			}
			if v2ok {
				if b, ok := v2SpendBlock(s, e); ok {
					add("maturity-v2", e.MaturityHeight, e.MaturityHeight <= child, b, consensus.V1BlockSupplement{})
					nsc++
				}
			}
		}
		if e.MaturityHeight > child {
			continue
		}
		switch r.Kind {
		case "uclock":
			tl := r.UC.Timelock
			// v1: conditions usable iff Timelock <= child height
			if v1ok && near(tl) {
				if b, supp, _, ok := v1SpendBlock(s, e); ok {
					add("uc-timelock-v1", tl, tl <= child, b, supp)
				}
			}
			// v2 (policy form): height compared is the PARENT's: usable iff Timelock <= child-1
			if v2ok && near(tl+1) {
				if b, ok := v2SpendBlock(s, e); ok {
					add("uc-timelock-v2", tl+1, tl+1 <= child, b, consensus.V1BlockSupplement{})
				}
			}
		case "above":
			// above(h): parent height >= h, i.e. child >= h+1 (MinHeight = h+1)
			if v2ok && near(r.MinHeight) {
				if b, ok := v2SpendBlock(s, e); ok {
					add("policy-above", r.MinHeight, r.MinHeight <= child, b, consensus.V1BlockSupplement{})
				}
			}
		case "after":
			// after(t): median of the previous eleven timestamps strictly after t
			if v2ok {
				d := med.Sub(r.MinTime)
				if d >= -2*time.Second && d <= 2*time.Second {
					if b, ok := v2SpendBlock(s, e); ok {
						w := "at"
						if d < 0 {
							w = "below"
						} else if d > 0 {
							w = "above"
						}
						s.Seal(&b, miner)
						out = append(out, probe{rule: "policy-after", where: w, accept: med.After(r.MinTime), block: b})
					}
				}
			}
		}
		// signature timelock (v1): a signature is usable iff its Timelock <= child height
		if v1ok && lockFree && r.V1Spendable() && nsc < 6 {
			for _, tl := range []uint64{child - 1, child, child + 1} {
				if child == 0 && tl > child+1 {
					continue
				}
				b, supp, t, ok := v1SpendBlock(s, e)
				if !ok {
					continue
				}
				for i := range t.Signatures {
					t.Signatures[i].Timelock = tl
					h := s.Tip.WholeSigHash(*t, t.Signatures[i].ParentID, t.Signatures[i].PublicKeyIndex, tl, nil)
					sig := r.Keys[i].SignHash(h)
					t.Signatures[i].Signature = sig[:]
				}
				add("sig-timelock-v1", tl, tl <= child, b, supp)
				out[len(out)-1].note = fmt.Sprintf("kind=%s keys=%d sigs=%d idx=%v", r.Kind, len(r.Keys), len(t.Signatures), r.UCKeyIdx)
			}
			nsc += 3
		}
	}

	// --- siafund inputs (v1): unlock-conditions timelock, also through the developer-address override
	if v1ok {
		da := s.Net.HardforkDevAddr
		nsf := 0
		for _, e := range s.St.SortedSF() {
			if nsf > 8 {
				break
			}
			if r := s.RecipeFor(e.SiafundOutput.Address); r != nil && r.Kind == "uclock" && near(r.UC.Timelock) {
				if b, supp, ok := v1SiafundSpendBlock(s, e, r); ok {
					add("uc-timelock-v1-siafund", r.UC.Timelock, r.UC.Timelock <= child, b, supp)
					nsf++
				}
			}
			if e.SiafundOutput.Address == da.OldAddress {
				if nr := s.RecipeFor(da.NewAddress); nr != nil && nr.UC != nil {
					// the override exists from the hardfork height on …
					if near(da.Height) && nr.UC.Timelock <= child {
						if b, supp, ok := v1SiafundSpendBlock(s, e, nr); ok {
							add("devaddr-override-height", da.Height, child >= da.Height, b, supp)
							nsf++
						}
					}
					// … and the revealed conditions' own timelock still applies
					if child >= da.Height && near(nr.UC.Timelock) {
						if b, supp, ok := v1SiafundSpendBlock(s, e, nr); ok {
							add("uc-timelock-v1-siafund-devaddr", nr.UC.Timelock, nr.UC.Timelock <= child, b, supp)
							nsf++
						}
					}
				}
			}
		}
	}

	// --- maturity of an output created EARLIER IN THE SAME BLOCK: a siafund claim pays an output that matures
	// MaturityDelay blocks later; a following transaction of the block that spends it must be rejected (v1: parent found
	// in the block's own diffs, no supplement record; v2: ephemeral parent record)
	if net.MaturityDelay > 0 {
		n := 0
		for _, e := range s.St.SortedSF() {
			r := s.RecipeFor(e.SiafundOutput.Address)
			if r == nil || n >= 2 || e.SiafundOutput.Value == 0 {
				continue
			}
			claim := s.Tip.SiafundTaxRevenue.Sub(e.ClaimStart).Div64(s.Tip.SiafundCount()).Mul64(e.SiafundOutput.Value)
			if claim.IsZero() {
				continue
			}
			dest := s.W.NewRecipeKind("uc1", 0, med)
			matures := child + net.MaturityDelay
			if v1ok && r.V1Spendable() && s.Spendable(e.SiafundOutput.Address, false) {
				t1 := types.Transaction{
					SiafundInputs:  []types.SiafundInput{{ParentID: e.ID, UnlockConditions: *r.UC, ClaimAddress: dest.Addr}},
					SiafundOutputs: []types.SiafundOutput{{Value: e.SiafundOutput.Value, Address: dest.Addr}},
				}
				t2 := types.Transaction{
					SiacoinInputs:  []types.SiacoinInput{{ParentID: e.ID.ClaimOutputID(), UnlockConditions: *dest.UC}},
					SiacoinOutputs: []types.SiacoinOutput{{Value: claim, Address: dest.Addr}},
				}
				if s.ResignV1(&t1) && s.ResignV1(&t2) {
					b := emptyBlock(s)
					b.Transactions = []types.Transaction{t1, t2}
					add("maturity-v1-inblock", matures, false, b, consensus.V1BlockSupplement{Transactions: []consensus.V1TransactionSupplement{{SiafundInputs: []types.SiafundElement{e.Copy()}}, {}}})
					// control: the claim alone is fine
					b2 := emptyBlock(s)
					b2.Transactions = []types.Transaction{t1}
					add("maturity-v1-inblock-control", matures, true, b2, consensus.V1BlockSupplement{Transactions: []consensus.V1TransactionSupplement{{SiafundInputs: []types.SiafundElement{e.Copy()}}}})
					n++
				}
			}
			if v2ok && s.Spendable(e.SiafundOutput.Address, true) {
				t1 := types.V2Transaction{
					SiafundInputs:  []types.V2SiafundInput{{Parent: e.Copy(), ClaimAddress: dest.Addr}},
					SiafundOutputs: []types.SiafundOutput{{Value: e.SiafundOutput.Value, Address: dest.Addr}},
				}
				if s.ResignV2(&t1) {
					t2 := types.V2Transaction{
						SiacoinInputs: []types.V2SiacoinInput{{Parent: types.SiacoinElement{ID: e.ID.V2ClaimOutputID(),
							StateElement:  types.StateElement{LeafIndex: types.UnassignedLeafIndex},
							SiacoinOutput: types.SiacoinOutput{Value: claim, Address: dest.Addr}, MaturityHeight: matures}}},
						SiacoinOutputs: []types.SiacoinOutput{{Value: claim, Address: dest.Addr}},
					}
					if s.ResignV2(&t2) {
						b := types.Block{Timestamp: s.NextTimestamp(), V2: &types.V2BlockData{Transactions: []types.V2Transaction{t1, t2}}}
						add("maturity-v2-inblock", matures, false, b, consensus.V1BlockSupplement{})
						n++
					}
				}
			}
		}
	}

	// --- v1 contracts
	if v1ok {
		n := 0
		for _, e := range s.St.SortedFC() {
			fc := e.FileContract
			r := s.RecipeFor(fc.UnlockHash)
			if r == nil || n > 12 {
				continue
			}
			// revisable iff the window has not opened: child <= WindowStart
			if near(fc.WindowStart + 1) {
				rev := fc
				rev.RevisionNumber++
				rev.WindowStart = child
				rev.WindowEnd = child + 2
				rev.Payout = types.ZeroCurrency
				t := types.Transaction{FileContractRevisions: []types.FileContractRevision{{ParentID: e.ID, UnlockConditions: *r.UC, FileContract: rev}}}
				if s.ResignV1(&t) {
					b := emptyBlock(s)
					b.Transactions = []types.Transaction{t}
					add("v1-revision-window", fc.WindowStart+1, child <= fc.WindowStart, b, consensus.V1BlockSupplement{Transactions: []consensus.V1TransactionSupplement{{RevisedFileContracts: []types.FileContractElement{e.Copy()}}}})
					n++
				}
				// new window start must not lie in the past: accept iff newStart >= child
				for _, ns := range []uint64{child - 1, child} {
					if child == 0 || child > fc.WindowStart {
						continue
					}
					rev2 := rev
					rev2.WindowStart, rev2.WindowEnd = ns, ns+3
					t2 := types.Transaction{FileContractRevisions: []types.FileContractRevision{{ParentID: e.ID, UnlockConditions: *r.UC, FileContract: rev2}}}
					if s.ResignV1(&t2) {
						b := emptyBlock(s)
						b.Transactions = []types.Transaction{t2}
						add("v1-revision-newstart", ns+1, ns >= child, b, consensus.V1BlockSupplement{Transactions: []consensus.V1TransactionSupplement{{RevisedFileContracts: []types.FileContractElement{e.Copy()}}}})
					}
				}
			}
			// provable only once the window-start block exists (here: the store can name it iff WindowStart < child)
			if near(fc.WindowStart+1) && fc.Filesize == 0 && child >= net.HardforkStorageProof.Height {
				t := types.Transaction{StorageProofs: []types.StorageProof{{ParentID: e.ID}}}
				b := emptyBlock(s)
				b.Transactions = []types.Transaction{t}
				supp := consensus.V1BlockSupplement{Transactions: []consensus.V1TransactionSupplement{{}}}
				if fc.WindowStart < child {
					supp.Transactions[0].StorageProofs = []consensus.V1StorageProofSupplement{{FileContract: e.Copy(), WindowID: s.Blocks[fc.WindowStart].ID()}}
				} else {
					// the store cannot name a window-start block that does not exist yet; it can still present the contract
					supp.Transactions[0].RevisedFileContracts = []types.FileContractElement{e.Copy()}
				}
				add("v1-proof-window", fc.WindowStart+1, fc.WindowStart < child, b, supp)
				n++
			}
		}
		// v1 transactions are invalid from the require height
		if near(net.HardforkV2.RequireHeight) {
			for _, e := range s.St.SortedSC() {
				r := s.RecipeFor(e.SiacoinOutput.Address)
				if r != nil && (r.Kind == "uc1" || r.Kind == "uc2of3" || r.Kind == "uc2of70" || r.Kind == "ucalien") && e.MaturityHeight <= child {
					if b, supp, _, ok := v1SpendBlock(s, e); ok {
						add("v1-forbidden-from-require", net.HardforkV2.RequireHeight, child < net.HardforkV2.RequireHeight, b, supp)
						break
					}
				}
			}
		}
	}
	if !v1ok && near(net.HardforkV2.RequireHeight) {
		for _, e := range s.St.SortedSC() {
			r := s.RecipeFor(e.SiacoinOutput.Address)
			if r != nil && (r.Kind == "uc1" || r.Kind == "uc2of3" || r.Kind == "uc2of70" || r.Kind == "ucalien") && e.MaturityHeight <= child {
				if b, supp, _, ok := v1SpendBlock(s, e); ok {
					add("v1-forbidden-from-require", net.HardforkV2.RequireHeight, false, b, supp)
					break
				}
			}
		}
	}
	// v2 transactions are invalid before the allow height
	if near(net.HardforkV2.AllowHeight) {
		for _, e := range s.St.SortedSC() {
			r := s.RecipeFor(e.SiacoinOutput.Address)
			if r != nil && (r.Kind == "uc1" || r.Kind == "uc2of3" || r.Kind == "uc2of70" || r.Kind == "ucalien") && e.MaturityHeight <= child {
				if b, ok := v2SpendBlock(s, e); ok {
					add("v2-allowed-from-allow", net.HardforkV2.AllowHeight, child >= net.HardforkV2.AllowHeight, b, consensus.V1BlockSupplement{})
					break
				}
			}
		}
	}

	// --- v2 contracts
	if v2ok {
		n := 0
		for _, e := range s.St.SortedV2FC() {
			fc := e.V2FileContract
			if n > 12 {
				break
			}
			// revisable iff child <= ProofHeight
			if near(fc.ProofHeight + 1) {
				rev := fc
				rev.RevisionNumber++
				rev.ProofHeight = child + 1
				rev.ExpirationHeight = child + 3
				s.SignContract(&rev, fc.RenterPublicKey, fc.HostPublicKey)
				vt := types.V2Transaction{FileContractRevisions: []types.V2FileContractRevision{{Parent: e.Copy(), Revision: rev}}}
				b := types.Block{Timestamp: s.NextTimestamp(), V2: &types.V2BlockData{Transactions: []types.V2Transaction{vt}}}
				add("v2-revision-proofheight", fc.ProofHeight+1, child <= fc.ProofHeight, b, consensus.V1BlockSupplement{})
				n++
			}
			// provable iff the block at ProofHeight is an ancestor: child > ProofHeight
			if near(fc.ProofHeight+1) && child <= fc.ExpirationHeight {
				data, ok := s.Files[fc.FileMerkleRoot]
				if ok && uint64(len(data)) == fc.Filesize {
					cie, have := s.St.CIE[fc.ProofHeight]
					if !have {
						// the prover can only offer an existing ancestor: use the tip (wrong height) with a valid proof
						cie = s.St.CIE[s.Height()]
					}
					idx := s.Tip.StorageProofLeafIndex(fc.Filesize, cie.ChainIndex.ID, e.ID)
					sp := &types.V2StorageProof{ProofIndex: cie.Copy()}
					if fc.Filesize > 0 {
						sp.Leaf, sp.Proof = chain.FileProof(data, idx)
					}
					vt := types.V2Transaction{FileContractResolutions: []types.V2FileContractResolution{{Parent: e.Copy(), Resolution: sp}}}
					b := types.Block{Timestamp: s.NextTimestamp(), V2: &types.V2BlockData{Transactions: []types.V2Transaction{vt}}}
					add("v2-proof-height", fc.ProofHeight+1, child > fc.ProofHeight, b, consensus.V1BlockSupplement{})
					n++
				}
			}
			// expirable iff child > ExpirationHeight
			if near(fc.ExpirationHeight + 1) {
				vt := types.V2Transaction{FileContractResolutions: []types.V2FileContractResolution{{Parent: e.Copy(), Resolution: &types.V2FileContractExpiration{}}}}
				b := types.Block{Timestamp: s.NextTimestamp(), V2: &types.V2BlockData{Transactions: []types.V2Transaction{vt}}}
				add("v2-expiration", fc.ExpirationHeight+1, child > fc.ExpirationHeight, b, consensus.V1BlockSupplement{})
				n++
			}
		}
	}
	return out
}

func runC08(c *fw.Ctx) {
	res := c.Res
	res.Rule = "random chains over random network configurations; at every height, for each rule (maturity v1/v2, unlock-condition timelock v1 and v2-policy form, signature timelock, policy above / after, v1 revision window + new window start, v1 proof window, v2 revision vs proof height, v2 proof vs proof height, v2 expiration, v1 forbidden from require height, v2 allowed from allow height) and each live element whose bound is child-1, child or child+1: one single-transaction block valid except possibly for that rule; real verdict must equal the statement's (accept iff bound reached). distinct by (chain, height, rule, element). Buckets rule:<name>:<below|at|above>:<accept|reject> show that both sides of every boundary were hit."
	var ops, outs []string
	nChains := c.Budget(30, 1500)
	blocks := c.Budget(40, 60)
	for i := 0; i < nChains; i++ {
		mode := ledgerModes[i%len(ledgerModes)]
		seed := c.Seed*4000037 + int64(i)
		s := chain.NewSim(rand.New(rand.NewSource(seed)), mode)
		ab := chain.NewAbstractor(s)
		prng := rand.New(rand.NewSource(seed ^ 0xb0b))
		res.Count("chains:" + mode)
		for k := 0; k < blocks; k++ {
			height := s.ChildHeight()
			for _, p := range probesAt(s, prng) {
				var err error
				panicked, msg := fw.Recover(func() { err = consensus.ValidateBlock(s.Tip, p.block, p.supp) })
				got := err == nil && !panicked
				acc := "reject"
				if p.accept {
					acc = "accept"
				}
				res.Count("rule:" + p.rule + ":" + p.where + ":" + acc)
				res.Eval(fmt.Sprintf("%s/%d/%d/%s/%x", mode, seed, height, p.rule, p.block.ID()), true)
				rp := map[string]any{"mode": mode, "seed": seed, "height": height, "rule": p.rule, "where": p.where, "note": p.note}
				if panicked {
					res.Violate(fw.Violation{Key: "c10-validate-panic:c08-" + p.rule, What: "ValidateBlock panicked on a boundary probe: " + msg, Replay: rp})
				} else if got != p.accept {
					what := "accepted before its boundary"
					if p.accept {
						what = fmt.Sprintf("rejected at/after its boundary (%v)", err)
					}
					res.Violate(fw.Violation{Key: "c08-boundary:" + p.rule + ":" + p.where, What: "rule " + p.rule + ": transaction " + what, Replay: rp,
						Expected: acc, Observed: fmt.Sprint(err)})
				}
				if c.Model != nil && !panicked {
					ops = append(ops, "ledger-block "+ab.Abstract(p.block, p.supp))
					if got {
						// compare verdict only for accepted probes (the update dump needs an apply)
						outs = append(outs, "accept")
					} else {
						outs = append(outs, "reject")
					}
				}
			}
			if _, _, err := s.Step(); err != nil {
				res.Note("%v", err)
				res.Count("generator-rejected")
				break
			}
		}
	}
	if len(ops) > 0 && c.Model != nil {
		c.Res.ModelUsed = true
		got, err := c.Model.Eval(ops)
		if err != nil {
			res.Disagree(fw.Disagreement{Op: "(driver)", Model: err.Error()})
		} else {
			for i := range ops {
				res.ModelOps++
				m := "reject"
				if len(got[i]) >= 3 && got[i][:3] == "ok " {
					m = "accept"
				} else if got[i] != "reject" {
					m = got[i]
				}
				if m != outs[i] {
					res.Disagree(fw.Disagreement{Op: trunc(ops[i], 2000), Go: outs[i], Model: trunc(got[i], 300)})
				}
			}
		}
	}
	res.Sample(map[string]any{"buckets": fw.SortedKeys(res.Distribution)})
}
