package props

// C13B — what happens AT and BEYOND the hypotheses of the C13 totality theorems.
//
// c13_apply_header_total assumes, at every step, NetworkWF and the work margin
// `Margin` (difficulty and decayed work < 2^200, cumulative work < 2^255, legacy
// targets ≥ 2^32). Margin is not preserved: difficulty may rise by the clamp
// factor per block for as long as timestamps lag the schedule, and constant
// timestamps satisfy the median-time rule. This directed family runs the REAL
// code exactly there:
//
//   (A) reach: from a well-formed genesis, apply headers that satisfy every
//       acceptance rule except the (assumed satisfiable) PoW inequality, with
//       adversarial timestamps (constant / +1s / sawtooth inside the median and
//       3-hour-future rules), until something breaks. Anything that panics,
//       zeroes the difficulty or breaks a clamp on such a chain is a VIOLATION
//       (keys c13-panic:<fn>:<boundary>, c13-zero:<boundary>, …). The model is
//       compared at sampled steps and on the failing step.
//   (B) table: states built directly at each boundary value of each PoW field in
//       every era (exported State fields), through ApplyHeader, ApplyBlock,
//       ValidateHeader, SufficientlyHeavierThan, PoWTarget, MaxFutureTimestamp
//       under recover; compared with the model; outcomes are reported in the
//       distribution (many of these states are not reachable: no violations).
//   (C) config: each conjunct of NetworkWF violated in turn; what the code does.

import (
	"encoding/json"
	"fmt"
	"math/big"
	"strings"
	"time"

	"go.sia.tech/core/consensus"
	"go.sia.tech/core/types"
	"verif/harness/internal/fw"
)

func init() { fw.Register("C13B", runC13B) }

func c13bPow2(k uint) *big.Int { return new(big.Int).Lsh(big.NewInt(1), k) }

// c13bNet: final-cut rules from genesis unless heights are given.
func c13bNet(initialTargetBits uint, bi time.Duration) *consensus.Network {
	n := &consensus.Network{Name: "c13b", BlockInterval: bi}
	n.InitialTarget = c13IDOf(c13bPow2(initialTargetBits))
	n.HardforkOak.GenesisTimestamp = time.Unix(1_000_000_000, 0)
	n.HardforkASIC.OakTarget = n.InitialTarget
	n.HardforkASIC.OakTime = 120000 * time.Second
	n.HardforkASIC.NonceFactor = 1
	n.InitialCoinbase = types.Siacoins(300000)
	n.MinimumCoinbase = types.Siacoins(30000)
	n.HardforkFoundation.PrimaryAddress = types.VoidAddress
	n.HardforkFoundation.FailsafeAddress = types.VoidAddress
	return n
}

type c13bChainResult struct {
	headers   int
	panicFn   string
	panicMsg  string
	lastState consensus.State
	failStep  *c13Step
	marginAt  int // first header index at which Margin failed (-1 = never)
}

// c13bReach applies headers with the given timestamp policy until a panic or max headers.
func c13bReach(c *fw.Ctx, n *consensus.Network, policy string, max int, ops, outs *[]string) c13bChainResult {
	res := c.Res
	s := n.GenesisState()
	r := c13bChainResult{marginAt: -1}
	gts := n.HardforkOak.GenesisTimestamp.Unix()
	ts := gts
	var prev []int64
	for i := 0; i < max; i++ {
		var bh types.BlockHeader
		if i > 0 {
			bh.ParentID = s.Index.ID
			minA := c13MinAllowed(prev)
			switch policy {
			case "constant":
				ts = gts
			case "plus1":
				ts = prev[0] + 1
			case "sawtooth": // 5 blocks three hours ahead of "now" (= schedule), 6 blocks back at the median
				now := gts + int64(i)*int64(n.BlockInterval/time.Second)
				if i%11 < 5 {
					ts = now + 3*3600
				} else {
					ts = minA
				}
			case "slow": // as late as the future rule allows: now + 3h with "now" far behind the schedule
				ts = prev[0] + 3*int64(n.BlockInterval/time.Second)
			}
			if ts < minA {
				ts = minA
			}
		}
		bh.Timestamp = time.Unix(ts, 0)
		bh.Nonce = 0
		st := c13Step{n: n, s: s, bh: bh, target: time.Time{}}
		// every rule but the PoW inequality
		if i > 0 {
			if err := consensus.ValidateHeader(c13EasyTarget(s), bh); err != nil {
				res.Violate(fw.Violation{Key: "c13-validate-header:generated", What: "boundary chain header rejected: " + err.Error(), Replay: st.replay(), Expected: "accept", Observed: err.Error()})
				break
			}
		}
		if r.marginAt < 0 && !c13Margin(s) {
			r.marginAt = i
		}
		var next consensus.State
		panicked, msg := fw.Recover(func() { next = consensus.ApplyHeader(s, bh, time.Time{}) })
		sample := i%97 == 0 || panicked
		if sample {
			out := "panic"
			if !panicked {
				out = "ok " + c13StateTokens(next)
			}
			*ops = append(*ops, st.line())
			*outs = append(*outs, out)
			res.Eval(st.line(), true)
		}
		if panicked {
			r.panicFn, r.panicMsg, r.failStep = "ApplyHeader", msg, &st
			break
		}
		// the full statement oracle on EVERY header (never zero, clamp, total work monotone/strict
		// and exact against math/big, decayed work exact, inverse relation) …
		c13Oracle(c, st, next, i == 0, map[bool]string{true: "genesis", false: c13Era(s)}[i == 0])
		// … and header ≡ block at sampled steps
		if i > 0 && i%97 == 0 {
			c13bHeaderVsBlock(c, st, next)
		}
		s = next
		r.headers++
		prev = append([]int64{ts}, prev...)
		if len(prev) > 11 {
			prev = prev[:11]
		}
	}
	r.lastState = s
	return r
}

func c13bBits(b *big.Int) int { return b.BitLen() - 1 }

func runC13B(c *fw.Ctx) {
	res := c.Res
	res.Rule = "directed: (A) chains of rule-abiding headers (PoW inequality assumed satisfiable) with adversarial timestamps from well-formed geneses, run until the real ApplyHeader breaks; (B) states at every boundary value of every PoW field in every era through ApplyHeader/ApplyBlock/ValidateHeader/SufficientlyHeavierThan/PoWTarget/MaxFutureTimestamp; (C) every NetworkWF conjunct violated in turn. Model compared wherever defined. Non-trivial: every case; distinct by op line."
	var ops, outs []string
	if c.Replay != "" {
		c13bReplay(c)
		return
	}

	// ------------------------------------------------------------ (A) reach
	type reach struct {
		name   string
		itBits uint // InitialTarget = 2^itBits  (difficulty ≈ 2^(256-itBits))
		bi     time.Duration
		policy string
		max    int
	}
	reaches := []reach{
		{"D0=2^64,10min,constant", 192, 10 * time.Minute, "constant", 40000},
		{"D0=2^64,10min,+1s", 192, 10 * time.Minute, "plus1", 40000},
		{"D0=2^216,10min,constant", 40, 10 * time.Minute, "constant", 50},
		{"D0=2^64,10min,sawtooth(±3h)", 192, 10 * time.Minute, "sawtooth", 3000},
		{"D0=2^64,10min,slow(3×interval)", 192, 10 * time.Minute, "slow", 3000},
	}
	if c.Thorough() {
		reaches = append(reaches,
			reach{"D0=2^64,1s,constant", 192, time.Second, "constant", 60000},
			reach{"D0=2^64,13days,constant", 192, 1 << 50, "constant", 40000},
			reach{"D0=2^128,10min,constant", 128, 10 * time.Minute, "constant", 20000})
	}
	for _, rc := range reaches {
		n := c13bNet(rc.itBits, rc.bi)
		r := c13bReach(c, n, rc.policy, rc.max, &ops, &outs)
		res.Count("reach-chains")
		res.CountN("reach-headers", r.headers)
		d := c13BigW(r.lastState.Difficulty)
		line := fmt.Sprintf("reach[%s]: %d headers applied, margin first violated at header %d, final difficulty 2^%d oakWork 2^%d totalWork 2^%d oakTime %v",
			rc.name, r.headers, r.marginAt, c13bBits(d), c13bBits(c13BigW(r.lastState.OakWork)), c13bBits(c13BigW(r.lastState.TotalWork)), r.lastState.OakTime)
		if r.panicFn != "" {
			line += fmt.Sprintf(" — PANIC in %s: %s", r.panicFn, r.panicMsg)
			boundary := "finalcut-mul64-overflow"
			if !strings.Contains(r.panicMsg, "mul64") {
				boundary = strings.ReplaceAll(strings.ReplaceAll(r.panicMsg, " ", "-"), ":", "")
			}
			rp := r.failStep.replay()
			rp["chain"] = rc.name
			rp["headers_before"] = r.headers
			res.Violate(fw.Violation{
				Key:      "c13-panic:ApplyHeader:" + boundary,
				What:     fmt.Sprintf("ApplyHeader panics (%s) on header %d of a chain whose every header extends the tip, respects the median-time and 3-hour-future rules and has an admissible nonce (%s): difficulty rose by the 0.4%% clamp per block to 2^%d", r.panicMsg, r.headers, rc.name, c13bBits(d)),
				Replay:   rp,
				Expected: "no panic", Observed: "panic: " + r.panicMsg})
			// the same step through the full-block entry point
			var msg2 string
			b := types.Block{ParentID: r.failStep.bh.ParentID, Timestamp: r.failStep.bh.Timestamp,
				MinerPayouts: []types.SiacoinOutput{{Address: types.VoidAddress, Value: r.failStep.s.BlockReward()}},
				V2:           &types.V2BlockData{Height: r.failStep.s.Index.Height + 1}}
			p2, m2 := fw.Recover(func() { consensus.ApplyBlock(r.failStep.s, b, consensus.V1BlockSupplement{}, time.Time{}) })
			if p2 {
				msg2 = m2
				res.Violate(fw.Violation{Key: "c13-panic:ApplyBlock:" + boundary, What: "ApplyBlock panics on the same step (" + m2 + ")",
					Replay: rp, Expected: "no panic", Observed: "panic: " + m2})
			}
			line += " / ApplyBlock: " + msg2
			res.Count("reach:panic")
		} else {
			res.Count("reach:no-panic")
		}
		res.Note("%s", line)
	}

	// ------------------------------------------------------------ (B) boundary table
	c13bGuard(c, "table", func() { c13bTable(c, &ops, &outs) })
	// ------------------------------------------------------------ (C) configuration
	c13bGuard(c, "config", func() { c13bConfig(c) })
	// ------------------------------------------------------------ (D) limb boundaries of cumulative work
	c13bGuard(c, "limbs", func() { c13bLimbChains(c, &ops, &outs) })
	// ------------------------------------------------------------ (E) Work operations on limb-boundary operands
	c13bGuard(c, "work-ops", func() { c13bWorkOps(c, &ops, &outs) })

	for i := 0; i < len(ops); i += 1 + len(ops)/6 {
		res.Sample(map[string]string{"op": c13Short(ops[i]), "go": c13Short(outs[i])})
	}
	c.Compare(ops, outs)
}

// c13bTable: boundary values of each field in each era.
func c13bTable(c *fw.Ctx, ops, outs *[]string) {
	res := c.Res
	maxT := c13MaxT
	vals := func(ks ...uint) []*big.Int {
		out := []*big.Int{big.NewInt(0), big.NewInt(1), big.NewInt(2), big.NewInt(3), big.NewInt(249), big.NewInt(250)}
		for _, k := range ks {
			p := c13bPow2(k)
			out = append(out, new(big.Int).Sub(p, big.NewInt(1)), p)
		}
		return append(out, new(big.Int).Sub(maxT, big.NewInt(1)), maxT)
	}
	work := vals(32, 64, 128, 199, 200, 207, 208, 215, 216, 248, 255)
	tgt := vals(32, 40, 64, 128, 254, 255)
	times := []time.Duration{0, 1, -1, time.Second, -time.Second, time.Second + 1, 120000 * time.Second, 1<<63 - 1, -1 << 63}

	eras := []struct {
		name                              string
		oak, fix, asic, allow, final_, at uint64 // `at` = Index.Height of the state
	}{
		{"preoak-retarget", 2000, 2000, 2001, 3000, 4000, 999},
		{"preoak", 2000, 2000, 2001, 3000, 4000, 700},
		{"oak", 10, 12, 20, 3000, 4000, 100},
		{"asic-reset", 10, 12, 101, 3000, 4000, 100},
		{"asic-minus-1", 10, 12, 102, 3000, 4000, 100},
		{"v2", 10, 12, 20, 50, 4000, 100},
		{"finalcut", 10, 12, 20, 50, 60, 100},
	}
	for _, e := range eras {
		n := c13bNet(192, 10*time.Minute)
		n.HardforkOak.Height, n.HardforkOak.FixHeight = e.oak, e.fix
		n.HardforkASIC.Height = e.asic
		n.HardforkV2.AllowHeight, n.HardforkV2.RequireHeight, n.HardforkV2.FinalCutHeight = e.allow, e.allow, e.final_
		base := n.GenesisState()
		base.Index.Height = e.at
		base.Index.ID = types.BlockID{1}
		now := n.HardforkOak.GenesisTimestamp.Unix() + int64(e.at)*600
		for i := range base.PrevTimestamps {
			base.PrevTimestamps[i] = time.Unix(now-int64(i)*600, 0)
		}
		D := c13bPow2(64)
		base.Difficulty = c13WorkOf(D)
		base.ChildTarget = c13IDOf(new(big.Int).Div(maxT, D))
		base.TotalWork = c13WorkOf(new(big.Int).Mul(D, big.NewInt(int64(e.at))))
		base.Depth = c13IDOf(new(big.Int).Div(maxT, c13BigW(base.TotalWork)))
		base.OakWork = c13WorkOf(new(big.Int).Mul(D, big.NewInt(200)))
		base.OakTarget = c13IDOf(new(big.Int).Div(maxT, c13BigW(base.OakWork)))
		base.OakTime = 200 * n.BlockInterval
		if e.name == "finalcut" {
			base.Depth, base.ChildTarget, base.OakTarget = types.BlockID{}, types.BlockID{}, types.BlockID{}
		}
		type tweak struct {
			field string
			apply func(s *consensus.State)
			desc  string
		}
		var tweaks []tweak
		tweaks = append(tweaks, tweak{"none", func(s *consensus.State) {}, "base"})
		for _, v := range work {
			v := v
			tweaks = append(tweaks,
				tweak{"Difficulty", func(s *consensus.State) { s.Difficulty = c13WorkOf(v) }, v.String()},
				tweak{"OakWork", func(s *consensus.State) { s.OakWork = c13WorkOf(v) }, v.String()},
				tweak{"TotalWork", func(s *consensus.State) { s.TotalWork = c13WorkOf(v) }, v.String()},
				tweak{"Difficulty+OakWork(steady)", func(s *consensus.State) {
					s.Difficulty = c13WorkOf(v)
					ow := new(big.Int).Mul(v, big.NewInt(200))
					if ow.Cmp(maxT) > 0 {
						ow = maxT
					}
					s.OakWork = c13WorkOf(ow)
				}, v.String()})
		}
		for _, v := range tgt {
			v := v
			tweaks = append(tweaks,
				tweak{"ChildTarget", func(s *consensus.State) { s.ChildTarget = c13IDOf(v) }, v.String()},
				tweak{"Depth", func(s *consensus.State) { s.Depth = c13IDOf(v) }, v.String()},
				tweak{"OakTarget", func(s *consensus.State) { s.OakTarget = c13IDOf(v) }, v.String()})
		}
		for _, v := range times {
			v := v
			tweaks = append(tweaks, tweak{"OakTime", func(s *consensus.State) { s.OakTime = v }, fmt.Sprint(int64(v))})
		}
		hdrTimes := []int64{now, now - 100000, now + 600, now + 3*3600, now + 1<<40, 1 << 61, -(1 << 40)}
		for _, tw := range tweaks {
			s := base
			tw.apply(&s)
			for hi, ht := range hdrTimes {
				if tw.field != "none" && tw.field != "OakTime" && hi > 1 {
					break // timestamp extremes only on the base state and the OakTime tweaks
				}
				bh := types.BlockHeader{ParentID: s.Index.ID, Timestamp: time.Unix(ht, 0)}
				target := time.Unix(now-1000*600, 0)
				st := c13Step{n: n, s: s, bh: bh, target: target}
				var next consensus.State
				p, msg := fw.Recover(func() { next = consensus.ApplyHeader(s, bh, target) })
				out := "panic"
				outcome := "ok"
				if p {
					outcome = "panic(" + c13bClass(msg) + ")"
				} else {
					out = "ok " + c13StateTokens(next)
					if c13BigW(next.Difficulty).Sign() == 0 {
						outcome = "zero-difficulty"
					}
				}
				*ops = append(*ops, st.line())
				*outs = append(*outs, out)
				res.Eval(st.line(), true)
				res.Count(fmt.Sprintf("table:%s:%s:%s", e.name, tw.field, outcome))
				if p && hi == 0 {
					res.Count("table-panic-states")
				}
				if hi > 0 {
					continue
				}
				// the other entry points on the same state
				var err error
				pv, mv := fw.Recover(func() { err = consensus.ValidateHeader(s, bh) })
				vout := "accept"
				if pv {
					vout = "panic"
					res.Count(fmt.Sprintf("table:%s:%s:ValidateHeader-panic(%s)", e.name, tw.field, c13bClass(mv)))
				} else if err != nil {
					switch {
					case strings.Contains(err.Error(), "parent"):
						vout = "reject 1"
					case strings.Contains(err.Error(), "timestamp"):
						vout = "reject 2"
					case strings.Contains(err.Error(), "nonce"):
						vout = "reject 3"
					default:
						vout = "reject 4"
					}
				}
				vline := fmt.Sprintf("pow-validate %s %s %s", c13NetTokens(n), c13StateTokens(s), c13HeaderTokens(bh))
				*ops = append(*ops, vline)
				*outs = append(*outs, vout)
				res.Eval(vline, true)
				var hv bool
				ph, mh := fw.Recover(func() { hv = base.SufficientlyHeavierThan(s) })
				hout := "ok 0"
				if ph {
					hout = "panic"
					res.Count(fmt.Sprintf("table:%s:%s:SufficientlyHeavierThan-panic(%s)", e.name, tw.field, c13bClass(mh)))
				} else if hv {
					hout = "ok 1"
				}
				hline := fmt.Sprintf("pow-heavier %s %s", c13StateTokens(base), c13StateTokens(s))
				*ops = append(*ops, hline)
				*outs = append(*outs, hout)
				res.Eval(hline, true)
				if pm, _ := fw.Recover(func() { _ = s.MaxFutureTimestamp(bh.Timestamp) }); pm {
					res.Violate(fw.Violation{Key: "c13-panic:MaxFutureTimestamp:" + tw.field, What: "MaxFutureTimestamp panicked", Replay: st.replay(), Expected: "no panic", Observed: "panic"})
				}
			}
		}
	}
}

func c13bClass(msg string) string {
	switch {
	case strings.Contains(msg, "mul64"):
		return "mul64-overflow"
	case strings.Contains(msg, "Work.add"):
		return "add-overflow"
	case strings.Contains(msg, "Work.sub"):
		return "sub-underflow"
	case strings.Contains(msg, "division by zero"), strings.Contains(msg, "divide by zero"):
		return "div-by-zero"
	case strings.Contains(msg, "non-child"):
		return "non-child"
	}
	return "other"
}

// c13bConfig: violate each conjunct of NetworkWF and run a short regular chain.
func c13bConfig(c *fw.Ctx) {
	res := c.Res
	type cfg struct {
		name string
		mut  func(n *consensus.Network)
	}
	legacy := func(n *consensus.Network) { // eras far apart so that the legacy code runs
		n.HardforkOak.Height, n.HardforkOak.FixHeight = 600, 600
		n.HardforkASIC.Height = 700
		n.HardforkV2.AllowHeight, n.HardforkV2.RequireHeight, n.HardforkV2.FinalCutHeight = 800, 800, 900
	}
	cfgs := []cfg{
		{"well-formed (control)", func(n *consensus.Network) { legacy(n) }},
		{"BlockInterval=0", func(n *consensus.Network) { n.BlockInterval = 0 }},
		{"BlockInterval<0", func(n *consensus.Network) { n.BlockInterval = -10 * time.Minute }},
		{"BlockInterval=10ms, Oak.Height>=500 (F5)", func(n *consensus.Network) { legacy(n); n.BlockInterval = 10 * time.Millisecond }},
		{"BlockInterval=2^62ns", func(n *consensus.Network) { n.BlockInterval = 1 << 62 }},
		{"InitialTarget=0", func(n *consensus.Network) { n.InitialTarget = types.BlockID{} }},
		{"InitialTarget=1, legacy eras", func(n *consensus.Network) { legacy(n); n.InitialTarget = c13IDOf(big.NewInt(1)) }},
		{"InitialTarget=2, legacy eras", func(n *consensus.Network) { legacy(n); n.InitialTarget = c13IDOf(big.NewInt(2)) }},
		{"InitialTarget=2^20, legacy eras", func(n *consensus.Network) { legacy(n); n.InitialTarget = c13IDOf(c13bPow2(20)) }},
		{"InitialTarget=2^30 (D0=2^226), final cut from genesis", func(n *consensus.Network) { n.InitialTarget = c13IDOf(c13bPow2(30)) }},
		{"ASIC.OakTarget=0, legacy eras", func(n *consensus.Network) { legacy(n); n.HardforkASIC.OakTarget = types.BlockID{} }},
		{"ASIC.NonceFactor=0 (unset)", func(n *consensus.Network) { n.HardforkASIC.NonceFactor = 0 }},
		{"V2.AllowHeight > V2.FinalCutHeight", func(n *consensus.Network) {
			legacy(n)
			n.HardforkV2.AllowHeight, n.HardforkV2.FinalCutHeight = 900, 650
		}},
	}
	for _, cf := range cfgs {
		for _, pol := range []string{"regular", "constant"} {
			n := c13bNet(192, 10*time.Minute)
			cf.mut(n)
			outcome := "no panic in 1000 " + pol + " headers"
			func() {
				var s consensus.State
				if p, msg := fw.Recover(func() { s = n.GenesisState() }); p {
					outcome = "GenesisState panics: " + msg
					return
				}
				ts := n.HardforkOak.GenesisTimestamp.Unix()
				var tss []int64
				for i := 0; i < 1000; i++ {
					bh := types.BlockHeader{Timestamp: time.Unix(ts, 0)}
					if i > 0 {
						bh.ParentID = s.Index.ID
						if p, msg := fw.Recover(func() { _ = consensus.ValidateHeader(c13EasyTarget(s), bh) }); p {
							outcome = fmt.Sprintf("ValidateHeader panics at header %d: %s", i, msg)
							return
						}
					}
					target := time.Time{}
					if len(tss) > 0 {
						k := len(tss) - 1000
						if k < 0 {
							k = 0
						}
						target = time.Unix(tss[k], 0)
					}
					var next consensus.State
					if p, msg := fw.Recover(func() { next = consensus.ApplyHeader(s, bh, target) }); p {
						outcome = fmt.Sprintf("ApplyHeader panics at header %d (child height %d): %s", i, s.Index.Height+1, msg)
						return
					}
					if i > 0 && c13BigW(next.Difficulty).Sign() == 0 {
						outcome = fmt.Sprintf("difficulty zero after header %d", i)
						return
					}
					s = next
					tss = append(tss, ts)
					step := int64(n.BlockInterval / time.Second)
					if step < 1 {
						step = 1
					}
					if pol == "regular" {
						ts += step
					}
				}
			}()
			res.Eval("config "+cf.name+" "+pol, true)
			res.Count("config:" + cf.name + "/" + pol + " => " + c13bClassOutcome(outcome))
			res.Note("config[%s, %s timestamps]: %s", cf.name, pol, outcome)
		}
	}
}

func c13bClassOutcome(o string) string {
	if i := strings.Index(o, ":"); i > 0 && strings.Contains(o, "panics") {
		return o[:i]
	}
	return o
}

// c13bReplay re-runs one stored failing step (kind "apply") against the real code and the model.
func c13bReplay(c *fw.Ctx) {
	b, err := readFile(c.Replay)
	if err != nil {
		c.Res.Note("replay: %v", err)
		return
	}
	var v struct {
		Key    string
		Replay struct {
			Kind, Net, State, Parent, Commitment string
			Timestamp, Target                    int64
			Nonce                                uint64
		}
	}
	if json.Unmarshal(b, &v) != nil || v.Replay.Kind != "apply" {
		c.Res.Note("replay: cannot parse %s", c.Replay)
		return
	}
	n, ok := c13ParseNet(strings.Fields(v.Replay.Net))
	if !ok {
		return
	}
	s, ok := c13ParseState(n, strings.Fields(v.Replay.State))
	if !ok {
		return
	}
	var bh types.BlockHeader
	if p, ok := new(big.Int).SetString(v.Replay.Parent, 10); ok {
		bh.ParentID = c13IDOf(p)
	}
	bh.Timestamp = time.Unix(v.Replay.Timestamp, 0)
	bh.Nonce = v.Replay.Nonce
	st := c13Step{n: n, s: s, bh: bh, target: c13Time(v.Replay.Target)}
	var next consensus.State
	panicked, msg := fw.Recover(func() { next = consensus.ApplyHeader(s, bh, st.target) })
	out := "panic"
	if !panicked {
		out = "ok " + c13StateTokens(next)
	} else {
		key := v.Key
		if key == "" {
			key = "c13-panic:ApplyHeader:" + c13bClass(msg)
		}
		c.Res.Violate(fw.Violation{Key: key, What: "replayed: ApplyHeader panics (" + msg + ")", Replay: st.replay(), Expected: "no panic", Observed: "panic: " + msg})
	}
	c.Res.Eval(st.line(), true)
	c.Compare([]string{st.line()}, []string{out})
}

// c13bGuard keeps a bug of the harness itself (a panic outside fw.Recover) from hiding the
// findings of the other families: it is reported as a disagreement, not as a crash.
func c13bGuard(c *fw.Ctx, family string, f func()) {
	if p, msg := fw.Recover(f); p {
		c.Res.Note("harness family %s crashed: %s", family, msg)
		c.Res.Disagree(fw.Disagreement{Op: "(harness family " + family + ")", Go: "", Model: msg, Note: "harness-internal panic"})
	}
}

// c13bHeaderVsBlock: the same step through ApplyBlock (an empty block with that header's
// parent and timestamp) must give the same proof-of-work state.
func c13bHeaderVsBlock(c *fw.Ctx, st c13Step, viaHeader consensus.State) {
	b := types.Block{ParentID: st.bh.ParentID, Nonce: st.bh.Nonce, Timestamp: st.bh.Timestamp,
		MinerPayouts: []types.SiacoinOutput{{Address: types.VoidAddress, Value: st.s.BlockReward()}},
		V2:           &types.V2BlockData{Height: st.s.Index.Height + 1, Commitment: st.bh.Commitment}}
	var viaBlock consensus.State
	if p, msg := fw.Recover(func() { viaBlock, _ = consensus.ApplyBlock(st.s, b, consensus.V1BlockSupplement{}, st.target) }); p {
		c.Res.Violate(fw.Violation{Key: "c13-header-vs-block", What: "ApplyBlock panics (" + msg + ") where ApplyHeader succeeds", Replay: st.replay(), Expected: "same state", Observed: "panic"})
		return
	}
	c.Res.Count("header-vs-block:steps")
	if c13StateTokens(viaBlock) != c13StateTokens(viaHeader) {
		c.Res.Violate(fw.Violation{Key: "c13-header-vs-block", What: "header-only and full-block application give different proof-of-work state on a high-work chain",
			Replay: st.replay(), Expected: c13StateTokens(viaBlock), Observed: c13StateTokens(viaHeader)})
	}
}

// c13bLimbChains: per-block difficulty below 2^64, cumulative (and decayed) work started just
// below every multiple-of-2^64 limb boundary, in every era; full oracle on every header.
func c13bLimbChains(c *fw.Ctx, ops, outs *[]string) {
	res := c.Res
	r := c.Rng
	eras := []struct {
		name                          string
		oak, fix, asic, allow, final_ uint64
		at                            uint64
	}{
		{"preoak", 5000, 5000, 5001, 6000, 7000, 700},
		{"oak", 10, 12, 20, 6000, 7000, 100},
		{"v2", 10, 12, 20, 50, 7000, 100},
		{"finalcut", 10, 12, 20, 50, 60, 100},
		{"oak->v2->finalcut", 10, 12, 20, 110, 125, 100},
	}
	type start struct {
		k    uint  // boundary 2^k·m
		mult int64 // m
		dBit uint  // difficulty ≈ 2^dBit (< 2^64)
		back int64 // start this many difficulties below the boundary
	}
	var starts []start
	for _, k := range []uint{64, 128, 192} {
		for _, m := range []int64{1, 2, 3, 1 << 20} {
			starts = append(starts, start{k, m, uint(20 + r.Intn(43)), int64(1 + r.Intn(6))})
		}
		starts = append(starts, start{k, 1, 63, 2}, start{k, 1, 1, 3})
	}
	for _, e := range eras {
		for _, sp := range starts {
			n := c13bNet(192, 10*time.Minute)
			n.HardforkOak.Height, n.HardforkOak.FixHeight = e.oak, e.fix
			n.HardforkASIC.Height = e.asic
			n.HardforkV2.AllowHeight, n.HardforkV2.RequireHeight, n.HardforkV2.FinalCutHeight = e.allow, e.allow, e.final_
			D := c13bPow2(sp.dBit)
			D.Add(D, new(big.Int).Rand(r, D)) // [2^dBit, 2^(dBit+1)) … still < 2^64 for dBit ≤ 62
			if D.BitLen() > 64 {
				D = new(big.Int).Sub(c13bPow2(64), big.NewInt(1+int64(r.Intn(1000))))
			}
			boundary := new(big.Int).Mul(c13bPow2(sp.k), big.NewInt(sp.mult))
			tw := new(big.Int).Sub(boundary, new(big.Int).Mul(D, big.NewInt(sp.back)))
			if tw.Sign() <= 0 { // boundary 2^64 with a difficulty close to 2^64: start one block below it
				tw = new(big.Int).Sub(boundary, D)
			}
			tw.Add(tw, big.NewInt(int64(r.Intn(3)))) // land on, one below, one above
			if tw.Sign() <= 0 {
				tw = big.NewInt(1)
			}
			s := n.GenesisState()
			s.Index.Height = e.at
			r.Read(s.Index.ID[:])
			now := n.HardforkOak.GenesisTimestamp.Unix() + int64(e.at)*600
			for i := range s.PrevTimestamps {
				s.PrevTimestamps[i] = time.Unix(now-int64(i)*600, 0)
			}
			s.Difficulty = c13WorkOf(D)
			s.ChildTarget = c13IDOf(new(big.Int).Div(c13MaxT, D))
			s.TotalWork = c13WorkOf(tw)
			s.Depth = c13IDOf(new(big.Int).Div(c13MaxT, tw))
			// decayed work also next to a limb boundary (it moves by about +D - OakWork/200 per block)
			ow := new(big.Int).Sub(c13bPow2(64), new(big.Int).Div(D, big.NewInt(3)))
			if sp.k > 64 && r.Intn(2) == 0 {
				ow = new(big.Int).Mul(D, big.NewInt(200))
			}
			s.OakWork = c13WorkOf(ow)
			s.OakTarget = c13IDOf(new(big.Int).Div(c13MaxT, ow))
			s.OakTime = 200 * n.BlockInterval
			if e.name == "finalcut" {
				s.Depth, s.ChildTarget, s.OakTarget = types.BlockID{}, types.BlockID{}, types.BlockID{}
			}
			res.Count("limb-chains:" + e.name)
			ts := now
			for i := 0; i < 40; i++ {
				ts += 600 + int64(r.Intn(120)) - 60
				bh := types.BlockHeader{ParentID: s.Index.ID, Timestamp: time.Unix(ts, 0)}
				r.Read(bh.Commitment[:])
				st := c13Step{n: n, s: s, bh: bh, target: time.Unix(now-600000, 0)}
				var next consensus.State
				p, msg := fw.Recover(func() { next = consensus.ApplyHeader(s, bh, st.target) })
				out := "panic"
				if !p {
					out = "ok " + c13StateTokens(next)
				}
				*ops = append(*ops, st.line())
				*outs = append(*outs, out)
				res.Eval(st.line(), true)
				if p {
					res.Violate(fw.Violation{Key: "c13-panic:ApplyHeader:limb-boundary", What: "ApplyHeader panics (" + msg + ") next to a 2^64 limb boundary of cumulative work, difficulty < 2^64",
						Replay: st.replay(), Expected: "no panic", Observed: "panic: " + msg})
					break
				}
				c13Oracle(c, st, next, false, c13Era(s))
				if i%7 == 0 && c13ChildHeight(s) >= n.HardforkV2.AllowHeight {
					c13bHeaderVsBlock(c, st, next)
				}
				res.Count("limb-chain-headers")
				s = next
			}
		}
	}
}

// c13bWorkOps: every Work operation against math/big on ALL pairs of limb-boundary operands.
func c13bWorkOps(c *fw.Ctx, ops, outs *[]string) {
	res := c.Res
	var vs []*big.Int
	add := func(b *big.Int) {
		if b.Sign() >= 0 && b.Cmp(c13Two256) < 0 {
			vs = append(vs, b)
		}
	}
	add(big.NewInt(0))
	add(big.NewInt(1))
	for _, k := range []uint{63, 64, 65, 127, 128, 129, 191, 192, 193, 255, 256} {
		p := c13bPow2(k)
		for _, d := range []int64{-2, -1, 0, 1} {
			add(new(big.Int).Add(p, big.NewInt(d)))
		}
	}
	// all-ones low limbs under a non-zero high limb, and alternating limbs
	add(new(big.Int).Sub(new(big.Int).Lsh(big.NewInt(5), 192), big.NewInt(1)))
	add(new(big.Int).Add(new(big.Int).Lsh(new(big.Int).Sub(c13bPow2(64), big.NewInt(1)), 128), new(big.Int).Sub(c13bPow2(64), big.NewInt(1))))
	add(new(big.Int).Lsh(new(big.Int).Sub(c13bPow2(64), big.NewInt(1)), 64))
	small := []uint64{0, 1, 2, 3, 5, 200, 250, 1<<32 - 1, 1 << 32, 1<<63 - 1, 1 << 63, 1<<64 - 2, 1<<64 - 1}
	check := func(op string, a, b *big.Int, got consensus.Work, panicked bool, gotCmp int, exact *big.Int, wantCmp int) {
		want := "panic"
		if op == "cmp" {
			want = fmt.Sprint(wantCmp)
		} else if exact != nil && exact.Sign() >= 0 && exact.Cmp(c13Two256) < 0 {
			want = "ok " + exact.String()
		}
		out := "panic"
		if op == "cmp" {
			out = fmt.Sprint(gotCmp)
		} else if !panicked {
			out = "ok " + c13BigW(got).String()
		}
		line := fmt.Sprintf("pow-work %s %s %s", op, a, b)
		res.Eval(line, true)
		res.Count("work-op:" + op)
		if out != want {
			res.Violate(fw.Violation{Key: "c13-work-op:" + op, What: "Work." + op + " differs from exact 256-bit arithmetic (math/big) on limb-boundary operands",
				Replay: map[string]any{"kind": "work", "line": line}, Expected: want, Observed: out})
		}
		*ops = append(*ops, line)
		*outs = append(*outs, out)
	}
	for _, a := range vs {
		wa := c13WorkOf(a)
		for _, b := range vs {
			wb := c13WorkOf(b)
			var got consensus.Work
			p, _ := fw.Recover(func() { got = consensus.VerifWorkAdd(wa, wb) })
			check("add", a, b, got, p, 0, new(big.Int).Add(a, b), 0)
			p, _ = fw.Recover(func() { got = consensus.VerifWorkSub(wa, wb) })
			check("sub", a, b, got, p, 0, new(big.Int).Sub(a, b), 0)
			check("cmp", a, b, got, false, wa.Cmp(wb), nil, a.Cmp(b))
		}
		for _, v := range small {
			bv := new(big.Int).SetUint64(v)
			var got consensus.Work
			p, _ := fw.Recover(func() { got = consensus.VerifWorkMul64(wa, v) })
			check("mul64", a, bv, got, p, 0, new(big.Int).Mul(a, bv), 0)
			p, _ = fw.Recover(func() { got = consensus.VerifWorkDiv64(wa, v) })
			var q *big.Int
			if v != 0 {
				q = new(big.Int).Div(a, bv)
			}
			check("div64", a, bv, got, p, 0, q, 0)
		}
	}
}
