package props

// C13B — what happens AT and BEYOND the hypotheses of the C13 totality theorems.
//
// c13_apply_header_total assumes, at every step, NetworkWF and the work margin
// `Margin` (difficulty and decayed work < 2^200, cumulative work < 2^255, legacy
// targets ≥ 2^32). Margin is not preserved: difficulty may rise by the clamp
// factor per block for as long as timestamps lag the schedule, and constant
// timestamps satisfy the median-time rule. This directed family runs the REAL
// code exactly there:
//
//   (A) reach: from a well-formed genesis, apply headers that satisfy every
//       acceptance rule except the (assumed satisfiable) PoW inequality, with
//       adversarial timestamps (constant / +1s / sawtooth inside the median and
//       3-hour-future rules), until something breaks. Anything that panics,
//       zeroes the difficulty or breaks a clamp on such a chain is a VIOLATION
//       (keys c13-panic:<fn>:<boundary>, c13-zero:<boundary>, …). The model is
//       compared at sampled steps and on the failing step.
//   (B) table: states built directly at each boundary value of each PoW field in
//       every era (exported State fields), through ApplyHeader, ApplyBlock,
//       ValidateHeader, SufficientlyHeavierThan, PoWTarget, MaxFutureTimestamp
//       under recover; compared with the model; outcomes are reported in the
//       distribution (many of these states are not reachable: no violations).
//   (C) config: each conjunct of NetworkWF violated in turn; what the code does.

import (
	"encoding/json"
	"fmt"
	"math/big"
	"strings"
	"time"

	"go.sia.tech/core/consensus"
	"go.sia.tech/core/types"
	"verif/harness/internal/fw"
)

func init() { fw.Register("C13B", runC13B) }

func c13bPow2(k uint) *big.Int { return new(big.Int).Lsh(big.NewInt(1), k) }

// c13bNet: final-cut rules from genesis unless heights are given.
func c13bNet(initialTargetBits uint, bi time.Duration) *consensus.Network {
	n := &consensus.Network{Name: "c13b", BlockInterval: bi}
	n.InitialTarget = c13IDOf(c13bPow2(initialTargetBits))
	n.HardforkOak.GenesisTimestamp = time.Unix(1_000_000_000, 0)
	n.HardforkASIC.OakTarget = n.InitialTarget
	n.HardforkASIC.OakTime = 120000 * time.Second
	n.HardforkASIC.NonceFactor = 1
	n.InitialCoinbase = types.Siacoins(300000)
	n.MinimumCoinbase = types.Siacoins(30000)
	n.HardforkFoundation.PrimaryAddress = types.VoidAddress
	n.HardforkFoundation.FailsafeAddress = types.VoidAddress
	return n
}

type c13bChainResult struct {
	headers   int
	panicFn   string
	panicMsg  string
	lastState consensus.State
	failStep  *c13Step
	marginAt  int // first header index at which Margin failed (-1 = never)
}

// c13bReach applies headers with the given timestamp policy until a panic or max headers.
func c13bReach(c *fw.Ctx, n *consensus.Network, policy string, max int, ops, outs *[]string) c13bChainResult {
	res := c.Res
	s := n.GenesisState()
	r := c13bChainResult{marginAt: -1}
	gts := n.HardforkOak.GenesisTimestamp.Unix()
	ts := gts
	var prev []int64
	for i := 0; i < max; i++ {
		var bh types.BlockHeader
		if i > 0 {
			bh.ParentID = s.Index.ID
			minA := c13MinAllowed(prev)
			switch policy {
			case "constant":
				ts = gts
			case "plus1":
				ts = prev[0] + 1
			case "sawtooth": // 5 blocks three hours ahead of "now" (= schedule), 6 blocks back at the median
				now := gts + int64(i)*int64(n.BlockInterval/time.Second)
				if i%11 < 5 {
					ts = now + 3*3600
				} else {
					ts = minA
				}
			case "slow": // as late as the future rule allows: now + 3h with "now" far behind the schedule
				ts = prev[0] + 3*int64(n.BlockInterval/time.Second)
			}
			if ts < minA {
				ts = minA
			}
		}
		bh.Timestamp = time.Unix(ts, 0)
		bh.Nonce = 0
		st := c13Step{n: n, s: s, bh: bh, target: time.Time{}}
		// every rule but the PoW inequality
		if i > 0 {
			if err := consensus.ValidateHeader(c13EasyTarget(s), bh); err != nil {
				res.Violate(fw.Violation{Key: "c13-validate-header:generated", What: "boundary chain header rejected: " + err.Error(), Replay: st.replay(), Expected: "accept", Observed: err.Error()})
				break
			}
		}
		if r.marginAt < 0 && !c13Margin(s) {
			r.marginAt = i
		}
		var next consensus.State
		panicked, msg := fw.Recover(func() { next = consensus.ApplyHeader(s, bh, time.Time{}) })
		sample := i%97 == 0 || panicked
		if sample {
			out := "panic"
			if !panicked {
				out = "ok " + c13StateTokens(next)
			}
			*ops = append(*ops, st.line())
			*outs = append(*outs, out)
			res.Eval(st.line(), true)
		}
		if panicked {
			r.panicFn, r.panicMsg, r.failStep = "ApplyHeader", msg, &st
			break
		}
		// statement oracle on the way: clamp (final cut), never zero, total work strictly increasing
		if i > 0 {
			D, D1 := c13BigW(s.Difficulty), c13BigW(next.Difficulty)
			m := new(big.Int).Div(D, big.NewInt(250))
			if m.Sign() == 0 {
				m.SetInt64(1)
			}
			if D1.Sign() == 0 {
				res.Violate(fw.Violation{Key: "c13-zero:reach:" + policy, What: "difficulty became zero on an accepted chain", Replay: st.replay(), Expected: "≥ 1", Observed: "0"})
			}
			if D1.Cmp(new(big.Int).Sub(D, m)) < 0 || D1.Cmp(new(big.Int).Add(D, m)) > 0 {
				res.Violate(fw.Violation{Key: "c13-clamp:finalcut:reach", What: "clamp exceeded on a boundary chain", Replay: st.replay(), Expected: "±max(D/250,1)", Observed: D1.String()})
			}
			if c13BigW(next.TotalWork).Cmp(c13BigW(s.TotalWork)) <= 0 {
				res.Violate(fw.Violation{Key: "c13-totalwork-decreased", What: "cumulative work did not increase on a boundary chain", Replay: st.replay(), Expected: "increase", Observed: c13BigW(next.TotalWork).String()})
			}
		}
		s = next
		r.headers++
		prev = append([]int64{ts}, prev...)
		if len(prev) > 11 {
			prev = prev[:11]
		}
	}
	r.lastState = s
	return r
}

func c13bBits(b *big.Int) int { return b.BitLen() - 1 }

func runC13B(c *fw.Ctx) {
	res := c.Res
	res.Rule = "directed: (A) chains of rule-abiding headers (PoW inequality assumed satisfiable) with adversarial timestamps from well-formed geneses, run until the real ApplyHeader breaks; (B) states at every boundary value of every PoW field in every era through ApplyHeader/ApplyBlock/ValidateHeader/SufficientlyHeavierThan/PoWTarget/MaxFutureTimestamp; (C) every NetworkWF conjunct violated in turn. Model compared wherever defined. Non-trivial: every case; distinct by op line."
	var ops, outs []string
	if c.Replay != "" {
		c13bReplay(c)
		return
	}

	// ------------------------------------------------------------ (A) reach
	type reach struct {
		name   string
		itBits uint // InitialTarget = 2^itBits  (difficulty ≈ 2^(256-itBits))
		bi     time.Duration
		policy string
		max    int
	}
	reaches := []reach{
		{"D0=2^64,10min,constant", 192, 10 * time.Minute, "constant", 40000},
		{"D0=2^64,10min,+1s", 192, 10 * time.Minute, "plus1", 40000},
		{"D0=2^216,10min,constant", 40, 10 * time.Minute, "constant", 50},
		{"D0=2^64,10min,sawtooth(±3h)", 192, 10 * time.Minute, "sawtooth", 3000},
		{"D0=2^64,10min,slow(3×interval)", 192, 10 * time.Minute, "slow", 3000},
	}
	if c.Thorough() {
		reaches = append(reaches,
			reach{"D0=2^64,1s,constant", 192, time.Second, "constant", 60000},
			reach{"D0=2^64,13days,constant", 192, 1 << 50, "constant", 40000},
			reach{"D0=2^128,10min,constant", 128, 10 * time.Minute, "constant", 20000})
	}
	for _, rc := range reaches {
		n := c13bNet(rc.itBits, rc.bi)
		r := c13bReach(c, n, rc.policy, rc.max, &ops, &outs)
		res.Count("reach-chains")
		res.CountN("reach-headers", r.headers)
		d := c13BigW(r.lastState.Difficulty)
		line := fmt.Sprintf("reach[%s]: %d headers applied, margin first violated at header %d, final difficulty 2^%d oakWork 2^%d totalWork 2^%d oakTime %v",
			rc.name, r.headers, r.marginAt, c13bBits(d), c13bBits(c13BigW(r.lastState.OakWork)), c13bBits(c13BigW(r.lastState.TotalWork)), r.lastState.OakTime)
		if r.panicFn != "" {
			line += fmt.Sprintf(" — PANIC in %s: %s", r.panicFn, r.panicMsg)
			boundary := "finalcut-mul64-overflow"
			if !strings.Contains(r.panicMsg, "mul64") {
				boundary = strings.ReplaceAll(strings.ReplaceAll(r.panicMsg, " ", "-"), ":", "")
			}
			rp := r.failStep.replay()
			rp["chain"] = rc.name
			rp["headers_before"] = r.headers
			res.Violate(fw.Violation{
				Key:      "c13-panic:ApplyHeader:" + boundary,
				What:     fmt.Sprintf("ApplyHeader panics (%s) on header %d of a chain whose every header extends the tip, respects the median-time and 3-hour-future rules and has an admissible nonce (%s): difficulty rose by the 0.4%% clamp per block to 2^%d", r.panicMsg, r.headers, rc.name, c13bBits(d)),
				Replay:   rp,
				Expected: "no panic", Observed: "panic: " + r.panicMsg})
			// the same step through the full-block entry point
			var msg2 string
			b := types.Block{ParentID: r.failStep.bh.ParentID, Timestamp: r.failStep.bh.Timestamp,
				MinerPayouts: []types.SiacoinOutput{{Address: types.VoidAddress, Value: r.failStep.s.BlockReward()}},
				V2:           &types.V2BlockData{Height: r.failStep.s.Index.Height + 1}}
			p2, m2 := fw.Recover(func() { consensus.ApplyBlock(r.failStep.s, b, consensus.V1BlockSupplement{}, time.Time{}) })
			if p2 {
				msg2 = m2
				res.Violate(fw.Violation{Key: "c13-panic:ApplyBlock:" + boundary, What: "ApplyBlock panics on the same step (" + m2 + ")",
					Replay: rp, Expected: "no panic", Observed: "panic: " + m2})
			}
			line += " / ApplyBlock: " + msg2
			res.Count("reach:panic")
		} else {
			res.Count("reach:no-panic")
		}
		res.Note("%s", line)
	}

	// ------------------------------------------------------------ (B) boundary table
	c13bTable(c, &ops, &outs)
	// ------------------------------------------------------------ (C) configuration
	c13bConfig(c)

	for i := 0; i < len(ops); i += 1 + len(ops)/6 {
		res.Sample(map[string]string{"op": c13Short(ops[i]), "go": c13Short(outs[i])})
	}
	c.Compare(ops, outs)
}

// c13bTable: boundary values of each field in each era.
func c13bTable(c *fw.Ctx, ops, outs *[]string) {
	res := c.Res
	maxT := c13MaxT
	vals := func(ks ...uint) []*big.Int {
		out := []*big.Int{big.NewInt(0), big.NewInt(1), big.NewInt(2), big.NewInt(3), big.NewInt(249), big.NewInt(250)}
		for _, k := range ks {
			p := c13bPow2(k)
			out = append(out, new(big.Int).Sub(p, big.NewInt(1)), p)
		}
		return append(out, new(big.Int).Sub(maxT, big.NewInt(1)), maxT)
	}
	work := vals(32, 64, 128, 199, 200, 207, 208, 215, 216, 248, 255)
	tgt := vals(32, 40, 64, 128, 254, 255)
	times := []time.Duration{0, 1, -1, time.Second, -time.Second, time.Second + 1, 120000 * time.Second, 1<<63 - 1, -1 << 63}

	eras := []struct {
		name                              string
		oak, fix, asic, allow, final_, at uint64 // `at` = Index.Height of the state
	}{
		{"preoak-retarget", 2000, 2000, 2001, 3000, 4000, 999},
		{"preoak", 2000, 2000, 2001, 3000, 4000, 700},
		{"oak", 10, 12, 20, 3000, 4000, 100},
		{"asic-reset", 10, 12, 101, 3000, 4000, 100},
		{"asic-minus-1", 10, 12, 102, 3000, 4000, 100},
		{"v2", 10, 12, 20, 50, 4000, 100},
		{"finalcut", 10, 12, 20, 50, 60, 100},
	}
	for _, e := range eras {
		n := c13bNet(192, 10*time.Minute)
		n.HardforkOak.Height, n.HardforkOak.FixHeight = e.oak, e.fix
		n.HardforkASIC.Height = e.asic
		n.HardforkV2.AllowHeight, n.HardforkV2.RequireHeight, n.HardforkV2.FinalCutHeight = e.allow, e.allow, e.final_
		base := n.GenesisState()
		base.Index.Height = e.at
		base.Index.ID = types.BlockID{1}
		now := n.HardforkOak.GenesisTimestamp.Unix() + int64(e.at)*600
		for i := range base.PrevTimestamps {
			base.PrevTimestamps[i] = time.Unix(now-int64(i)*600, 0)
		}
		D := c13bPow2(64)
		base.Difficulty = c13WorkOf(D)
		base.ChildTarget = c13IDOf(new(big.Int).Div(maxT, D))
		base.TotalWork = c13WorkOf(new(big.Int).Mul(D, big.NewInt(int64(e.at))))
		base.Depth = c13IDOf(new(big.Int).Div(maxT, c13BigW(base.TotalWork)))
		base.OakWork = c13WorkOf(new(big.Int).Mul(D, big.NewInt(200)))
		base.OakTarget = c13IDOf(new(big.Int).Div(maxT, c13BigW(base.OakWork)))
		base.OakTime = 200 * n.BlockInterval
		if e.name == "finalcut" {
			base.Depth, base.ChildTarget, base.OakTarget = types.BlockID{}, types.BlockID{}, types.BlockID{}
		}
		type tweak struct {
			field string
			apply func(s *consensus.State)
			desc  string
		}
		var tweaks []tweak
		tweaks = append(tweaks, tweak{"none", func(s *consensus.State) {}, "base"})
		for _, v := range work {
			v := v
			tweaks = append(tweaks,
				tweak{"Difficulty", func(s *consensus.State) { s.Difficulty = c13WorkOf(v) }, v.String()},
				tweak{"OakWork", func(s *consensus.State) { s.OakWork = c13WorkOf(v) }, v.String()},
				tweak{"TotalWork", func(s *consensus.State) { s.TotalWork = c13WorkOf(v) }, v.String()},
				tweak{"Difficulty+OakWork(steady)", func(s *consensus.State) {
					s.Difficulty = c13WorkOf(v)
					ow := new(big.Int).Mul(v, big.NewInt(200))
					if ow.Cmp(maxT) > 0 {
						ow = maxT
					}
					s.OakWork = c13WorkOf(ow)
				}, v.String()})
		}
		for _, v := range tgt {
			v := v
			tweaks = append(tweaks,
				tweak{"ChildTarget", func(s *consensus.State) { s.ChildTarget = c13IDOf(v) }, v.String()},
				tweak{"Depth", func(s *consensus.State) { s.Depth = c13IDOf(v) }, v.String()},
				tweak{"OakTarget", func(s *consensus.State) { s.OakTarget = c13IDOf(v) }, v.String()})
		}
		for _, v := range times {
			v := v
			tweaks = append(tweaks, tweak{"OakTime", func(s *consensus.State) { s.OakTime = v }, fmt.Sprint(int64(v))})
		}
		hdrTimes := []int64{now, now - 100000, now + 600, now + 3*3600, now + 1<<40, 1 << 61, -(1 << 40)}
		for _, tw := range tweaks {
			s := base
			tw.apply(&s)
			for hi, ht := range hdrTimes {
				if tw.field != "none" && tw.field != "OakTime" && hi > 1 {
					break // timestamp extremes only on the base state and the OakTime tweaks
				}
				bh := types.BlockHeader{ParentID: s.Index.ID, Timestamp: time.Unix(ht, 0)}
				target := time.Unix(now-1000*600, 0)
				st := c13Step{n: n, s: s, bh: bh, target: target}
				var next consensus.State
				p, msg := fw.Recover(func() { next = consensus.ApplyHeader(s, bh, target) })
				out := "panic"
				outcome := "ok"
				if p {
					outcome = "panic(" + c13bClass(msg) + ")"
				} else {
					out = "ok " + c13StateTokens(next)
					if c13BigW(next.Difficulty).Sign() == 0 {
						outcome = "zero-difficulty"
					}
				}
				*ops = append(*ops, st.line())
				*outs = append(*outs, out)
				res.Eval(st.line(), true)
				res.Count(fmt.Sprintf("table:%s:%s:%s", e.name, tw.field, outcome))
				if p && hi == 0 {
					res.Count("table-panic-states")
				}
				if hi > 0 {
					continue
				}
				// the other entry points on the same state
				var err error
				pv, mv := fw.Recover(func() { err = consensus.ValidateHeader(s, bh) })
				vout := "accept"
				if pv {
					vout = "panic"
					res.Count(fmt.Sprintf("table:%s:%s:ValidateHeader-panic(%s)", e.name, tw.field, c13bClass(mv)))
				} else if err != nil {
					switch {
					case strings.Contains(err.Error(), "parent"):
						vout = "reject 1"
					case strings.Contains(err.Error(), "timestamp"):
						vout = "reject 2"
					case strings.Contains(err.Error(), "nonce"):
						vout = "reject 3"
					default:
						vout = "reject 4"
					}
				}
				vline := fmt.Sprintf("pow-validate %s %s %s", c13NetTokens(n), c13StateTokens(s), c13HeaderTokens(bh))
				*ops = append(*ops, vline)
				*outs = append(*outs, vout)
				res.Eval(vline, true)
				var hv bool
				ph, mh := fw.Recover(func() { hv = base.SufficientlyHeavierThan(s) })
				hout := "ok 0"
				if ph {
					hout = "panic"
					res.Count(fmt.Sprintf("table:%s:%s:SufficientlyHeavierThan-panic(%s)", e.name, tw.field, c13bClass(mh)))
				} else if hv {
					hout = "ok 1"
				}
				hline := fmt.Sprintf("pow-heavier %s %s", c13StateTokens(base), c13StateTokens(s))
				*ops = append(*ops, hline)
				*outs = append(*outs, hout)
				res.Eval(hline, true)
				if pm, _ := fw.Recover(func() { _ = s.MaxFutureTimestamp(bh.Timestamp) }); pm {
					res.Violate(fw.Violation{Key: "c13-panic:MaxFutureTimestamp:" + tw.field, What: "MaxFutureTimestamp panicked", Replay: st.replay(), Expected: "no panic", Observed: "panic"})
				}
			}
		}
	}
}

func c13bClass(msg string) string {
	switch {
	case strings.Contains(msg, "mul64"):
		return "mul64-overflow"
	case strings.Contains(msg, "Work.add"):
		return "add-overflow"
	case strings.Contains(msg, "Work.sub"):
		return "sub-underflow"
	case strings.Contains(msg, "division by zero"), strings.Contains(msg, "divide by zero"):
		return "div-by-zero"
	case strings.Contains(msg, "non-child"):
		return "non-child"
	}
	return "other"
}

// c13bConfig: violate each conjunct of NetworkWF and run a short regular chain.
func c13bConfig(c *fw.Ctx) {
	res := c.Res
	type cfg struct {
		name string
		mut  func(n *consensus.Network)
	}
	legacy := func(n *consensus.Network) { // eras far apart so that the legacy code runs
		n.HardforkOak.Height, n.HardforkOak.FixHeight = 600, 600
		n.HardforkASIC.Height = 700
		n.HardforkV2.AllowHeight, n.HardforkV2.RequireHeight, n.HardforkV2.FinalCutHeight = 800, 800, 900
	}
	cfgs := []cfg{
		{"well-formed (control)", func(n *consensus.Network) { legacy(n) }},
		{"BlockInterval=0", func(n *consensus.Network) { n.BlockInterval = 0 }},
		{"BlockInterval<0", func(n *consensus.Network) { n.BlockInterval = -10 * time.Minute }},
		{"BlockInterval=10ms, Oak.Height>=500 (F5)", func(n *consensus.Network) { legacy(n); n.BlockInterval = 10 * time.Millisecond }},
		{"BlockInterval=2^62ns", func(n *consensus.Network) { n.BlockInterval = 1 << 62 }},
		{"InitialTarget=0", func(n *consensus.Network) { n.InitialTarget = types.BlockID{} }},
		{"InitialTarget=1, legacy eras", func(n *consensus.Network) { legacy(n); n.InitialTarget = c13IDOf(big.NewInt(1)) }},
		{"InitialTarget=2, legacy eras", func(n *consensus.Network) { legacy(n); n.InitialTarget = c13IDOf(big.NewInt(2)) }},
		{"InitialTarget=2^20, legacy eras", func(n *consensus.Network) { legacy(n); n.InitialTarget = c13IDOf(c13bPow2(20)) }},
		{"InitialTarget=2^30 (D0=2^226), final cut from genesis", func(n *consensus.Network) { n.InitialTarget = c13IDOf(c13bPow2(30)) }},
		{"ASIC.OakTarget=0, legacy eras", func(n *consensus.Network) { legacy(n); n.HardforkASIC.OakTarget = types.BlockID{} }},
		{"ASIC.NonceFactor=0 (unset)", func(n *consensus.Network) { n.HardforkASIC.NonceFactor = 0 }},
		{"V2.AllowHeight > V2.FinalCutHeight", func(n *consensus.Network) {
			legacy(n)
			n.HardforkV2.AllowHeight, n.HardforkV2.FinalCutHeight = 900, 650
		}},
	}
	for _, cf := range cfgs {
		for _, pol := range []string{"regular", "constant"} {
			n := c13bNet(192, 10*time.Minute)
			cf.mut(n)
			outcome := "no panic in 1000 " + pol + " headers"
			func() {
				var s consensus.State
				if p, msg := fw.Recover(func() { s = n.GenesisState() }); p {
					outcome = "GenesisState panics: " + msg
					return
				}
				ts := n.HardforkOak.GenesisTimestamp.Unix()
				var tss []int64
				for i := 0; i < 1000; i++ {
					bh := types.BlockHeader{Timestamp: time.Unix(ts, 0)}
					if i > 0 {
						bh.ParentID = s.Index.ID
						if p, msg := fw.Recover(func() { _ = consensus.ValidateHeader(c13EasyTarget(s), bh) }); p {
							outcome = fmt.Sprintf("ValidateHeader panics at header %d: %s", i, msg)
							return
						}
					}
					target := time.Time{}
					if len(tss) > 0 {
						k := len(tss) - 1000
						if k < 0 {
							k = 0
						}
						target = time.Unix(tss[k], 0)
					}
					var next consensus.State
					if p, msg := fw.Recover(func() { next = consensus.ApplyHeader(s, bh, target) }); p {
						outcome = fmt.Sprintf("ApplyHeader panics at header %d (child height %d): %s", i, s.Index.Height+1, msg)
						return
					}
					if i > 0 && c13BigW(next.Difficulty).Sign() == 0 {
						outcome = fmt.Sprintf("difficulty zero after header %d", i)
						return
					}
					s = next
					tss = append(tss, ts)
					step := int64(n.BlockInterval / time.Second)
					if step < 1 {
						step = 1
					}
					if pol == "regular" {
						ts += step
					}
				}
			}()
			res.Eval("config "+cf.name+" "+pol, true)
			res.Count("config:" + cf.name + "/" + pol + " => " + c13bClassOutcome(outcome))
			res.Note("config[%s, %s timestamps]: %s", cf.name, pol, outcome)
		}
	}
}

func c13bClassOutcome(o string) string {
	if i := strings.Index(o, ":"); i > 0 && strings.Contains(o, "panics") {
		return o[:i]
	}
	return o
}

// c13bReplay re-runs one stored failing step (kind "apply") against the real code and the model.
func c13bReplay(c *fw.Ctx) {
	b, err := readFile(c.Replay)
	if err != nil {
		c.Res.Note("replay: %v", err)
		return
	}
	var v struct {
		Key    string
		Replay struct {
			Kind, Net, State, Parent, Commitment string
			Timestamp, Target                    int64
			Nonce                                uint64
		}
	}
	if json.Unmarshal(b, &v) != nil || v.Replay.Kind != "apply" {
		c.Res.Note("replay: cannot parse %s", c.Replay)
		return
	}
	n, ok := c13ParseNet(strings.Fields(v.Replay.Net))
	if !ok {
		return
	}
	s, ok := c13ParseState(n, strings.Fields(v.Replay.State))
	if !ok {
		return
	}
	var bh types.BlockHeader
	if p, ok := new(big.Int).SetString(v.Replay.Parent, 10); ok {
		bh.ParentID = c13IDOf(p)
	}
	bh.Timestamp = time.Unix(v.Replay.Timestamp, 0)
	bh.Nonce = v.Replay.Nonce
	st := c13Step{n: n, s: s, bh: bh, target: c13Time(v.Replay.Target)}
	var next consensus.State
	panicked, msg := fw.Recover(func() { next = consensus.ApplyHeader(s, bh, st.target) })
	out := "panic"
	if !panicked {
		out = "ok " + c13StateTokens(next)
	} else {
		key := v.Key
		if key == "" {
			key = "c13-panic:ApplyHeader:" + c13bClass(msg)
		}
		c.Res.Violate(fw.Violation{Key: key, What: "replayed: ApplyHeader panics (" + msg + ")", Replay: st.replay(), Expected: "no panic", Observed: "panic: " + msg})
	}
	c.Res.Eval(st.line(), true)
	c.Compare([]string{st.line()}, []string{out})
}
