package props

// C15 — Currency arithmetic is exact 128-bit arithmetic; text forms round-trip.
//
// Go side: every operation on boundary pairs (exhaustive) and random values is
// compared (a) with math/big — the statement-level oracle — and (b) with the Lean
// definitions generated from types/currency.go (the correspondence / translator
// self-test).

import (
	"encoding/json"
	"fmt"
	"math/big"
	"math/bits"
	"strings"

	"go.sia.tech/core/types"
	"verif/harness/internal/fw"
)

func init() { fw.Register("C15", runC15) }

var two128 = new(big.Int).Lsh(big.NewInt(1), 128)

func curBig(c types.Currency) *big.Int { return c.Big() }

func bigCur(b *big.Int) types.Currency {
	lo := new(big.Int).And(b, new(big.Int).SetUint64(^uint64(0))).Uint64()
	hi := new(big.Int).Rsh(b, 64).Uint64()
	return types.NewCurrency(lo, hi)
}

func c15Boundary() []types.Currency {
	var vs []types.Currency
	add := func(b *big.Int) {
		if b.Sign() >= 0 && b.Cmp(two128) < 0 {
			vs = append(vs, bigCur(b))
		}
	}
	for _, sh := range []uint{0, 1, 31, 32, 33, 62, 63, 64, 65, 95, 96, 97, 126, 127} {
		p := new(big.Int).Lsh(big.NewInt(1), sh)
		for _, d := range []int64{-2, -1, 0, 1, 2} {
			add(new(big.Int).Add(p, big.NewInt(d)))
		}
	}
	add(big.NewInt(0))
	add(new(big.Int).Sub(two128, big.NewInt(1)))
	add(new(big.Int).Sub(two128, big.NewInt(2)))
	add(curBig(types.HastingsPerSiacoin))
	add(big.NewInt(10000))
	add(big.NewInt(25))
	// de-duplicate
	seen := map[types.Currency]bool{}
	var out []types.Currency
	for _, v := range vs {
		if !seen[v] {
			seen[v] = true
			out = append(out, v)
		}
	}
	return out
}

func c15Rand(c *fw.Ctx) types.Currency {
	// random magnitude, then random bits below it
	n := uint(c.Rng.Intn(129))
	if n == 0 {
		return types.ZeroCurrency
	}
	b := new(big.Int).Rand(c.Rng, new(big.Int).Lsh(big.NewInt(1), n))
	switch c.Rng.Intn(6) {
	case 0: // all-ones low limb
		b.Or(b, new(big.Int).SetUint64(^uint64(0)))
	case 1: // zero low limb
		b.Rsh(b, 64).Lsh(b, 64)
	}
	b.Mod(b, two128)
	return bigCur(b)
}

type c15case struct {
	op   string
	a, b types.Currency
}

func (k c15case) line() string {
	return fmt.Sprintf("cur %s %d %d %d %d", k.op, k.a.Lo, k.a.Hi, k.b.Lo, k.b.Hi)
}

func showCur(c types.Currency) string { return fmt.Sprintf("%d %d", c.Lo, c.Hi) }
func flag(b bool) string {
	if b {
		return "1"
	}
	return "0"
}

// c15Go runs the real code; returns the canonical output line.
func c15Go(k c15case) string {
	a, b := k.a, k.b
	var out string
	panicked, _ := fw.Recover(func() {
		switch k.op {
		case "addo":
			s, f := a.AddWithOverflow(b)
			out = showCur(s) + " " + flag(f)
		case "subo":
			s, f := a.SubWithUnderflow(b)
			out = showCur(s) + " " + flag(f)
		case "mulo":
			s, f := a.MulWithOverflow(b)
			out = showCur(s) + " " + flag(f)
		case "mul64o":
			s, f := a.Mul64WithOverflow(b.Lo)
			out = showCur(s) + " " + flag(f)
		case "add":
			out = "ok " + showCur(a.Add(b))
		case "sub":
			out = "ok " + showCur(a.Sub(b))
		case "mul":
			out = "ok " + showCur(a.Mul(b))
		case "mul64":
			out = "ok " + showCur(a.Mul64(b.Lo))
		case "div":
			out = "ok " + showCur(a.Div(b))
		case "div64":
			out = "ok " + showCur(a.Div64(b.Lo))
		case "cmp":
			out = fmt.Sprint(a.Cmp(b))
		case "iszero":
			out = flag(a.IsZero())
		case "eq":
			out = flag(a.Equals(b))
		}
	})
	if panicked {
		return "panic"
	}
	return out
}

// c15Spec is the statement: exact integer arithmetic, written with math/big.
func c15Spec(k c15case) string {
	A, B := curBig(k.a), curBig(k.b)
	b64 := new(big.Int).SetUint64(k.b.Lo)
	mod := func(x *big.Int) types.Currency {
		m := new(big.Int).Mod(x, two128)
		return bigCur(m)
	}
	fits := func(x *big.Int) bool { return x.Sign() >= 0 && x.Cmp(two128) < 0 }
	exactOrPanic := func(x *big.Int) string {
		if fits(x) {
			return "ok " + showCur(bigCur(x))
		}
		return "panic"
	}
	switch k.op {
	case "addo":
		s := new(big.Int).Add(A, B)
		return showCur(mod(s)) + " " + flag(!fits(s))
	case "subo":
		s := new(big.Int).Sub(A, B)
		return showCur(mod(s)) + " " + flag(!fits(s))
	case "mulo":
		s := new(big.Int).Mul(A, B)
		return showCur(mod(s)) + " " + flag(!fits(s))
	case "mul64o":
		s := new(big.Int).Mul(A, b64)
		return showCur(mod(s)) + " " + flag(!fits(s))
	case "add":
		return exactOrPanic(new(big.Int).Add(A, B))
	case "sub":
		return exactOrPanic(new(big.Int).Sub(A, B))
	case "mul":
		return exactOrPanic(new(big.Int).Mul(A, B))
	case "mul64":
		return exactOrPanic(new(big.Int).Mul(A, b64))
	case "div":
		if B.Sign() == 0 {
			return "panic"
		}
		return "ok " + showCur(bigCur(new(big.Int).Quo(A, B)))
	case "div64":
		if b64.Sign() == 0 {
			return "panic"
		}
		return "ok " + showCur(bigCur(new(big.Int).Quo(A, b64)))
	case "cmp":
		return fmt.Sprint(A.Cmp(B))
	case "iszero":
		return flag(A.Sign() == 0)
	case "eq":
		return flag(A.Cmp(B) == 0)
	}
	return "?"
}

var c15Ops = []string{"addo", "subo", "mulo", "mul64o", "add", "sub", "mul", "mul64", "div", "div64", "cmp", "iszero", "eq"}

func runC15(c *fw.Ctx) {
	res := c.Res
	res.Rule = "every Currency operation on (a) ALL pairs of a boundary set around 0, 2^32, 2^63, 2^64, 2^96, 2^127, 2^128-1 and (b) seeded random pairs of every magnitude; a case is non-trivial when both operands are non-zero; distinct by (op,a,b). Each case: Go vs math/big (oracle) and Go vs the Lean definitions generated from types/currency.go. Text forms: parse(format(c)) for ExactString, String, MarshalText/JSON, %d; rejection of negative, fractional-hasting, out-of-range strings."
	var cases []c15case
	bs := c15Boundary()
	for _, op := range c15Ops {
		for _, a := range bs {
			for _, b := range bs {
				cases = append(cases, c15case{op, a, b})
			}
		}
	}
	res.CountN("boundary_pairs", len(bs)*len(bs))
	nr := c.Budget(20000, 2000000)
	for i := 0; i < nr; i++ {
		op := c15Ops[c.Rng.Intn(len(c15Ops))]
		a, b := c15Rand(c), c15Rand(c)
		if c.Rng.Intn(4) == 0 { // near-equal operands
			b = a
			if c.Rng.Intn(2) == 0 {
				b, _ = a.AddWithOverflow(types.NewCurrency64(uint64(c.Rng.Intn(3))))
			}
		}
		if c.Rng.Intn(8) == 0 { // divisor-shaped: small high limb
			b = types.NewCurrency(b.Lo, b.Hi>>uint(c.Rng.Intn(64)))
		}
		cases = append(cases, c15case{op, a, b})
	}
	if c.Replay != "" {
		cases = c15ReplayCases(c.Replay)
	}
	ops := make([]string, len(cases))
	outs := make([]string, len(cases))
	for i, k := range cases {
		ops[i] = k.line()
		outs[i] = c15Go(k)
		spec := c15Spec(k)
		res.Eval(ops[i], !k.a.IsZero() && !k.b.IsZero())
		res.Count("op:" + k.op)
		if strings.HasPrefix(outs[i], "panic") {
			res.Count("result:panic")
		} else if strings.HasSuffix(outs[i], " 1") && strings.HasSuffix(k.op, "o") {
			res.Count("result:overflow-flag")
		} else {
			res.Count("result:value")
		}
		mag := bits.Len64(k.a.Hi)
		if k.a.Hi == 0 {
			res.Count("a<2^64")
		} else if mag > 32 {
			res.Count("a>=2^96")
		} else {
			res.Count("2^64<=a<2^96")
		}
		if outs[i] != spec {
			res.Violate(fw.Violation{
				Key:      "c15-arith:" + k.op,
				What:     fmt.Sprintf("Currency %s is not exact on %s", k.op, ops[i]),
				Replay:   map[string]any{"kind": "cur", "op": k.op, "a": [2]uint64{k.a.Lo, k.a.Hi}, "b": [2]uint64{k.b.Lo, k.b.Hi}},
				Expected: spec, Observed: outs[i],
			})
		}
		if i%7919 == 0 {
			res.Sample(map[string]string{"op": ops[i], "go": outs[i]})
		}
	}
	c.Compare(ops, outs)
	c15Text(c, bs)
}

func c15ReplayCases(path string) []c15case {
	var v struct {
		Replay struct {
			Op   string
			A, B [2]uint64
		}
	}
	b, err := readFile(path)
	if err != nil {
		return nil
	}
	if json.Unmarshal(b, &v) != nil || v.Replay.Op == "" {
		return nil
	}
	return []c15case{{v.Replay.Op, types.NewCurrency(v.Replay.A[0], v.Replay.A[1]), types.NewCurrency(v.Replay.B[0], v.Replay.B[1])}}
}

// c15Text: text round trips and rejections (Go against the statement).
func c15Text(c *fw.Ctx, bs []types.Currency) {
	res := c.Res
	vals := append([]types.Currency{}, bs...)
	for i := 0; i < c.Budget(3000, 200000); i++ {
		vals = append(vals, c15Rand(c))
	}
	// values with many trailing decimal zeros exercise the unit-suffix form
	for e := 0; e <= 38; e++ {
		p := new(big.Int).Exp(big.NewInt(10), big.NewInt(int64(e)), nil)
		for _, m := range []int64{1, 7, 123, 1001, 999999} {
			x := new(big.Int).Mul(p, big.NewInt(m))
			if x.Cmp(two128) < 0 {
				vals = append(vals, bigCur(x))
			}
		}
	}
	bad := func(form string, cur types.Currency, s string, got types.Currency, err error) {
		res.Violate(fw.Violation{
			Key:      "c15-text:" + form,
			What:     fmt.Sprintf("Currency text form %s does not round-trip for %s", form, cur.ExactString()),
			Replay:   map[string]any{"kind": "text", "form": form, "value": cur.ExactString(), "text": s},
			Expected: cur.ExactString(), Observed: fmt.Sprintf("%v err=%v", got.ExactString(), err),
		})
	}
	for _, v := range vals {
		res.Eval("text "+v.ExactString(), !v.IsZero())
		res.Count("text:values")
		if v.ExactString() != curBig(v).String() {
			bad("ExactString-digits", v, v.ExactString(), v, nil)
		}
		for _, form := range []string{"exact", "string", "text", "json", "%d", "%s", "%v"} {
			var s string
			switch form {
			case "exact":
				s = v.ExactString()
			case "string":
				s = v.String()
			case "text":
				b, _ := v.MarshalText()
				s = string(b)
			case "json":
				b, _ := json.Marshal(v)
				var w types.Currency
				err := json.Unmarshal(b, &w)
				if err != nil || w != v {
					bad(form, v, string(b), w, err)
				}
				continue
			default:
				s = fmt.Sprintf(form, v)
			}
			w, err := types.ParseCurrency(s)
			if err != nil || w != v {
				bad(form, v, s, w, err)
			}
		}
	}
	// rejections
	rej := []string{"-1", "-1 SC", "-0.5 SC", "0.5 H", "0.5", "1.5 pS", "0.0000000000001 pS", "1e3", "abc", "", " ", "SC", "1 XS", "1 sc",
		two128.String(), two128.String() + " H", new(big.Int).Add(two128, big.NewInt(5)).String(),
		"340282366920938463463374607431768211456", "340282366920939 SC", "1000000000000000 SC", "0x10", "1,000", "--1", "+-1"}
	for i := 0; i < c.Budget(300, 20000); i++ {
		// a value with a fractional number of hastings after scaling
		units := []string{"pS", "nS", "uS", "mS", "SC", "KS", "MS", "GS", "TS"}
		u := c.Rng.Intn(len(units))
		digits := 12 + 3*u + 1 + c.Rng.Intn(3)
		frac := "0." + strings.Repeat("0", digits-1) + fmt.Sprint(1+c.Rng.Intn(9))
		rej = append(rej, frac+" "+units[u])
		// out of range by magnitude
		big_ := new(big.Int).Add(two128, new(big.Int).Rand(c.Rng, two128))
		rej = append(rej, big_.String())
		// negative
		rej = append(rej, "-"+c15Rand(c).ExactString())
	}
	unitExp := map[string]int64{"": 0, "H": 0, "pS": 12, "nS": 15, "uS": 18, "mS": 21, "SC": 24, "KS": 27, "MS": 30, "GS": 33, "TS": 36}
	for _, s := range rej {
		res.Eval("reject "+s, true)
		// the statement's own reading of the string: <decimal number> [space] <unit>
		k := strings.LastIndexAny(s, "0123456789.") + 1
		num, unit := s[:k], strings.TrimSpace(s[k:])
		var want string // "reject", "accept:<n>", or "" (malformed: only totality is required)
		if e, ok := unitExp[unit]; ok && k > 0 && !strings.ContainsAny(num, "eE/ _xXoObB") {
			if r, ok := new(big.Rat).SetString(num); ok {
				r.Mul(r, new(big.Rat).SetInt(new(big.Int).Exp(big.NewInt(10), big.NewInt(e), nil)))
				switch {
				case r.Sign() < 0:
					want = "reject"
					res.Count("text:reject-negative")
				case !r.IsInt():
					want = "reject"
					res.Count("text:reject-fractional")
				case r.Num().Cmp(two128) >= 0:
					want = "reject"
					res.Count("text:reject-out-of-range")
				default:
					want = "accept:" + r.Num().String()
					res.Count("text:accept")
				}
			}
		}
		if want == "" {
			res.Count("text:malformed")
		}
		var v types.Currency
		var err error
		panicked, msg := fw.Recover(func() { v, err = types.ParseCurrency(s) })
		got := "reject"
		if panicked {
			got = "panic:" + msg
		} else if err == nil {
			got = "accept:" + v.ExactString()
		}
		if panicked || (want != "" && got != want) {
			res.Violate(fw.Violation{
				Key:      "c15-parse:" + classify(s),
				What:     fmt.Sprintf("ParseCurrency(%q) = %s, the statement requires %s", s, got, want),
				Replay:   map[string]any{"kind": "parse", "text": s},
				Expected: want, Observed: got,
			})
		}
	}
	res.Sample(map[string]string{"text": vals[len(vals)/2].String(), "exact": vals[len(vals)/2].ExactString()})
}

func classify(s string) string {
	switch {
	case strings.HasPrefix(s, "-"):
		return "negative"
	case strings.Contains(s, "."):
		return "fractional"
	case strings.ContainsAny(s, "eE"):
		return "exponent"
	}
	return "other"
}
