package props

// C14 — directed family around every special case in the address code, the address
// collision oracle, and the end-to-end "foreign policy" check through consensus.
//
// The special cases are read out of the code by the extractor (extract/facts_policy.go →
// Gen.FactsPolicy.unlockHashFastPath / ucRootFastPath / addressFastPath, tied to the model by
// `tie_standard_fastpath_condition`). This file generates, for each conjunct of the standard
// fast path (timelock == 0, one key, algorithm == ed25519, len(key) == 32,
// signaturesRequired == 1), the unlock conditions that satisfy all the others but not that one,
// plus their neighbours, and checks
//   * UnlockConditions.UnlockHash() and SpendPolicy{uc}.Address() against the Lean model
//     (byte for byte) and against each other,
//   * the statement: two DIFFERENT policies never share an address, unless one is the opaque
//     form of the other (key c14-address-collision:<shape>),
//   * end to end: an output at StandardUnlockHash(K) / StandardAddress(K) can only be spent in a
//     v2 transaction by the policy its address commits to (key c14-foreign-policy-accepted).

import (
	"encoding/json"
	"fmt"
	"strings"
	"time"

	"go.sia.tech/core/consensus"
	"go.sia.tech/core/types"
	"verif/harness/internal/fw"
)

// ---------------------------------------------------------------- collision oracle

// the part of a policy its address commits to: a threshold commits to its children's
// addresses only (so a policy and its opaquified variants legitimately share an address)
func c14NormalForm(p types.SpendPolicy) string {
	if t, ok := p.Type.(types.PolicyTypeThreshold); ok {
		of := make([]types.SpendPolicy, len(t.Of))
		for i := range of {
			of[i] = types.PolicyOpaque(t.Of[i])
		}
		return c14Show(types.PolicyThreshold(t.N, of))
	}
	return c14Show(p)
}

func c14CollisionShape(a, b string) string {
	pa, ea := c14Parse(a)
	pb, eb := c14Parse(b)
	if ea != nil || eb != nil {
		return "unparsed"
	}
	ua, oka := pa.Type.(types.PolicyTypeUnlockConditions)
	ub, okb := pb.Type.(types.PolicyTypeUnlockConditions)
	if !oka || !okb {
		return c14RootKind(pa) + "/" + c14RootKind(pb)
	}
	var d []string
	if ua.Timelock != ub.Timelock {
		d = append(d, "timelock")
	}
	if ua.SignaturesRequired != ub.SignaturesRequired {
		d = append(d, "sigsrequired")
	}
	if len(ua.PublicKeys) != len(ub.PublicKeys) {
		d = append(d, "keycount")
	} else {
		alg, klen, kbytes := false, false, false
		for i := range ua.PublicKeys {
			x, y := ua.PublicKeys[i], ub.PublicKeys[i]
			alg = alg || x.Algorithm != y.Algorithm
			klen = klen || len(x.Key) != len(y.Key)
			kbytes = kbytes || (len(x.Key) == len(y.Key) && string(x.Key) != string(y.Key))
		}
		if alg {
			d = append(d, "algorithm")
		}
		if klen {
			d = append(d, "keylen")
		}
		if kbytes {
			d = append(d, "key")
		}
	}
	return "uc-" + strings.Join(d, "+")
}

// noteAddress records that policy p has address a; a second, different policy (different
// normal form) with the same address is a violation of the address commitment.
func (r *c14Run) noteAddress(a types.Address, p types.SpendPolicy, via string) {
	if r.addrOwner == nil {
		r.addrOwner = map[types.Address]string{}
	}
	nf := c14NormalForm(p)
	if len(nf) > 4096 {
		return // keep the table small; large random trees are covered by the model comparison
	}
	old, ok := r.addrOwner[a]
	if !ok {
		r.addrOwner[a] = nf
		return
	}
	if old == nf {
		return
	}
	r.res.Violate(fw.Violation{
		Key:      "c14-address-collision:" + c14CollisionShape(old, nf),
		What:     fmt.Sprintf("two different policies share the address %x (%s)", a[:], via),
		Replay:   map[string]any{"kind": "collision", "policy": old, "other": nf, "via": via},
		Expected: "different addresses", Observed: fmt.Sprintf("%x", a[:]),
	})
}

// ---------------------------------------------------------------- directed shapes

type c14UCShape struct {
	uc   types.UnlockConditions
	name string
}

func c14SpecialShapes(keys []types.PublicKey) []c14UCShape {
	algs := []struct {
		n string
		s types.Specifier
	}{
		{"ed25519", types.SpecifierEd25519}, {"zero", types.Specifier{}}, {"entropy", types.SpecifierEntropy},
		{"unknown", types.NewSpecifier("unknown")}, {"blank", types.NewSpecifier("blank")},
		{"Ed25519", types.NewSpecifier("Ed25519")},
		{"ed25519+tail", func() types.Specifier { s := types.SpecifierEd25519; s[15] = 1; return s }()},
	}
	var out []c14UCShape
	for ki, K := range keys {
		K2 := keys[(ki+1)%len(keys)]
		klens := map[int][]byte{0: nil, 31: K[:31], 32: K[:], 33: append(append([]byte{}, K[:]...), 0)}
		for _, tl := range []uint64{0, 1} {
			for _, req := range []uint64{0, 1, 2} {
				out = append(out, c14UCShape{types.UnlockConditions{Timelock: tl, SignaturesRequired: req}, "nokeys"})
				for _, a := range algs {
					for _, kl := range []int{0, 31, 32, 33} {
						uc := types.UnlockConditions{Timelock: tl, SignaturesRequired: req,
							PublicKeys: []types.UnlockKey{{Algorithm: a.s, Key: klens[kl]}}}
						out = append(out, c14UCShape{uc, fmt.Sprintf("alg=%s,keylen=%d,timelock=%d,req=%d", a.n, kl, tl, req)})
					}
					for j, second := range []types.UnlockKey{K.UnlockKey(), K2.UnlockKey(), {Algorithm: a.s, Key: K[:]}} {
						uc := types.UnlockConditions{Timelock: tl, SignaturesRequired: req,
							PublicKeys: []types.UnlockKey{{Algorithm: a.s, Key: K[:]}, second}}
						out = append(out, c14UCShape{uc, fmt.Sprintf("alg=%s,twokeys=%d,timelock=%d,req=%d", a.n, j, tl, req)})
					}
				}
			}
		}
	}
	return out
}

// the conjuncts the extractor found guarding `return StandardUnlockHash(..)` (for the evidence)
func c14FastPathFacts() map[string][]string {
	out := map[string][]string{}
	b, err := readFile("../lean/SiaModel/Gen/report.json")
	if err != nil {
		return out
	}
	var rep struct {
		Facts map[string]map[string]json.RawMessage `json:"facts"`
	}
	if json.Unmarshal(b, &rep) != nil {
		return out
	}
	for _, k := range []string{"unlockHashFastPath", "ucRootFastPath", "addressFastPath"} {
		var xs []string
		if raw, ok := rep.Facts["FactsPolicy"][k]; ok && json.Unmarshal(raw, &xs) == nil {
			out[k] = xs
		}
	}
	return out
}

func (r *c14Run) specialFamily() {
	res := r.res
	f := r.f
	for fn, cj := range c14FastPathFacts() {
		res.Note("special case read from the code: %s guarded by %d conjunct(s): %s", fn, len(cj), strings.Join(cj, " && "))
		for _, x := range cj {
			known := false
			for _, pat := range []string{"Timelock", "len(uc.PublicKeys)", "Algorithm", "Key", "SignaturesRequired"} {
				known = known || strings.Contains(x, pat)
			}
			if !known {
				res.Note("UNRECOGNISED special-case conjunct %q in %s: the directed family may not straddle it", x, fn)
			}
		}
	}
	keys := []types.PublicKey{f.pub[0], f.pub[1], {}}
	shapes := c14SpecialShapes(keys)
	for _, sh := range shapes {
		p := types.SpendPolicy{Type: types.PolicyTypeUnlockConditions(sh.uc)}
		txt := c14Show(p)
		var pa, uh types.Address
		if panicked, msg := fw.Recover(func() { pa, uh = p.Address(), sh.uc.UnlockHash() }); panicked {
			res.Violate(fw.Violation{Key: "c14-address-panic", What: "Address()/UnlockHash() panicked: " + msg, Replay: map[string]any{"kind": "address", "policy": txt}})
			continue
		}
		res.Eval("special "+txt, true)
		res.Count("special:uc-shape")
		if !r.addrSeen[txt] {
			r.addrSeen[txt] = true
			r.simple("policy-address "+txt, fmt.Sprintf("%x", pa[:]))
		}
		r.simple(fmt.Sprintf("policy-unlockhash %s %s %s", txt, c14TimelockLeaf, c14SigsReqLeaf), fmt.Sprintf("%x", uh[:]))
		if pa != uh {
			res.Violate(fw.Violation{Key: "c14-standard-address-mismatch", What: "uc policy address differs from UnlockConditions.UnlockHash() (" + sh.name + ")",
				Replay: map[string]any{"kind": "address", "policy": txt}, Expected: fmt.Sprintf("%x", uh[:]), Observed: fmt.Sprintf("%x", pa[:])})
		}
		r.noteAddress(pa, p, "SpendPolicy.Address, "+sh.name)
		r.noteAddress(uh, p, "UnlockConditions.UnlockHash, "+sh.name)
		// as a sub-policy its address feeds the parent's: the parent must differ too
		par := types.PolicyThreshold(1, []types.SpendPolicy{p})
		r.noteAddress(par.Address(), par, "threshold over "+sh.name)
	}
	// the documented identities, registered under the policy they belong to
	for _, K := range keys {
		std := types.SpendPolicy{Type: types.PolicyTypeUnlockConditions(types.StandardUnlockConditions(K))}
		r.noteAddress(types.StandardUnlockHash(K), std, "StandardUnlockHash")
		pk := types.PolicyPublicKey(K)
		r.noteAddress(types.StandardAddress(K), pk, "StandardAddress")
		r.noteAddress(pk.Address(), pk, "PolicyPublicKey.Address")
		// neighbours of the v2 standard address: same 32 bytes under every other opcode
		for _, q := range []types.SpendPolicy{types.PolicyHash(types.Hash256(K)), {Type: types.PolicyTypeOpaque(K)},
			types.PolicyThreshold(1, []types.SpendPolicy{pk}), types.PolicyThreshold(0, []types.SpendPolicy{pk}),
			types.PolicyThreshold(1, []types.SpendPolicy{pk, pk})} {
			r.noteAddress(q.Address(), q, "neighbour of StandardAddress")
			r.addressChecks(q, "special", 2)
		}
	}
	r.e2e(keys[:2], shapes)
}

// ---------------------------------------------------------------- end to end

func c14Network() (*consensus.Network, types.Block) {
	n := &consensus.Network{
		Name:            "c14",
		InitialCoinbase: types.Siacoins(300000),
		MinimumCoinbase: types.Siacoins(300000),
		InitialTarget:   types.BlockID{0xFF},
		BlockInterval:   10 * time.Millisecond,
		MaturityDelay:   5,
	}
	n.HardforkOak.GenesisTimestamp = time.Unix(1618033988, 0)
	n.HardforkASIC.OakTime = 10000 * time.Second
	n.HardforkASIC.OakTarget = n.InitialTarget
	n.HardforkASIC.NonceFactor = 1009
	n.HardforkFoundation.PrimaryAddress = types.AnyoneCanSpend().Address()
	n.HardforkFoundation.FailsafeAddress = types.VoidAddress
	n.HardforkV2.AllowHeight = 0
	n.HardforkV2.RequireHeight = 1000
	n.HardforkV2.FinalCutHeight = 2000
	return n, types.Block{Timestamp: n.HardforkOak.GenesisTimestamp}
}

// e2e: outputs held by the standard v1 address and the standard v2 address of each key; every
// policy that is NOT the one the address commits to must be refused by ValidateV2Transaction,
// whatever signatures accompany it.
func (r *c14Run) e2e(keys []types.PublicKey, shapes []c14UCShape) {
	res := r.res
	f := r.f
	n, genesis := c14Network()
	var gifts []types.SiacoinOutput
	for _, K := range keys {
		gifts = append(gifts, types.SiacoinOutput{Address: types.StandardUnlockHash(K), Value: types.Siacoins(100)})
		gifts = append(gifts, types.SiacoinOutput{Address: types.StandardAddress(K), Value: types.Siacoins(100)})
	}
	genesis.Transactions = []types.Transaction{{SiacoinOutputs: gifts}}
	var cs consensus.State
	var au consensus.ApplyUpdate
	if panicked, msg := fw.Recover(func() {
		cs, au = consensus.ApplyBlock(n.GenesisState(), genesis, consensus.V1BlockSupplement{Transactions: make([]consensus.V1TransactionSupplement, 1)}, time.Time{})
	}); panicked {
		res.Note("e2e setup: ApplyBlock(genesis) panicked: %s", msg)
		return
	}
	parents := map[types.Address]types.SiacoinElement{}
	for _, d := range au.SiacoinElementDiffs() {
		parents[d.SiacoinElement.SiacoinOutput.Address] = d.SiacoinElement.Copy()
	}
	sink := types.StandardAddress(f.pub[5])
	try := func(parent types.SiacoinElement, p types.SpendPolicy, sigsOf func(h types.Hash256) []types.Signature) error {
		txn := types.V2Transaction{
			SiacoinInputs:  []types.V2SiacoinInput{{Parent: parent.Copy(), SatisfiedPolicy: types.SatisfiedPolicy{Policy: p}}},
			SiacoinOutputs: []types.SiacoinOutput{{Address: sink, Value: parent.SiacoinOutput.Value}},
		}
		txn.SiacoinInputs[0].SatisfiedPolicy.Signatures = sigsOf(cs.InputSigHash(txn))
		var err error
		if panicked, msg := fw.Recover(func() { err = consensus.ValidateV2Transaction(consensus.NewMidState(cs), txn) }); panicked {
			return fmt.Errorf("panic: %s", msg)
		}
		return err
	}
	for ki, K := range keys {
		priv := f.priv[ki]
		owner := func(h types.Hash256) []types.Signature { return []types.Signature{priv.SignHash(h)} }
		v1, ok1 := parents[types.StandardUnlockHash(K)]
		v2, ok2 := parents[types.StandardAddress(K)]
		if !ok1 || !ok2 {
			res.Note("e2e setup: gift outputs not found")
			return
		}
		stdUC := types.SpendPolicy{Type: types.PolicyTypeUnlockConditions(types.StandardUnlockConditions(K))}
		stdPK := types.PolicyPublicKey(K)
		// controls: the owner spends with the committed policy
		for _, ctl := range []struct {
			parent types.SiacoinElement
			p      types.SpendPolicy
		}{{v1, stdUC}, {v2, stdPK}} {
			res.Eval("e2e control "+c14Show(ctl.p), true)
			if err := try(ctl.parent, ctl.p, owner); err != nil {
				res.Count("e2e:control-rejected")
				res.Note("e2e control: the owner's spend with the committed policy was rejected: %v", err)
			} else {
				res.Count("e2e:control-accepted")
			}
		}
		foreign := func(parent types.SiacoinElement, committed, q types.SpendPolicy, what string) {
			if c14Show(q) == c14Show(committed) {
				return
			}
			nsig := 1
			if uc, ok := q.Type.(types.PolicyTypeUnlockConditions); ok && uc.SignaturesRequired < 4 {
				nsig = int(uc.SignaturesRequired)
			}
			variants := map[string]func(h types.Hash256) []types.Signature{
				"zero-signatures": func(types.Hash256) []types.Signature { return make([]types.Signature, nsig) },
				"owner-signature": func(h types.Hash256) []types.Signature {
					s := make([]types.Signature, nsig)
					for i := range s {
						s[i] = priv.SignHash(h)
					}
					return s
				},
			}
			for vn, sg := range variants {
				res.Eval("e2e "+what+" "+vn+" "+c14Show(q), true)
				res.Count("e2e:foreign-" + vn)
				if err := try(parent, q, sg); err == nil {
					res.Violate(fw.Violation{
						Key:  "c14-foreign-policy-accepted",
						What: fmt.Sprintf("ValidateV2Transaction accepted a spend of an output at %s by a DIFFERENT policy (%s) with %s", what, c14Trunc(c14Show(q), 200), vn),
						Replay: map[string]any{"kind": "e2e", "committed": c14Show(committed), "policy": c14Show(q), "witness": vn,
							"victim": fmt.Sprintf("%x", K[:])},
						Expected: "rejected (the address commits to " + c14Show(committed) + ")", Observed: "accepted",
					})
				} else {
					res.Count("e2e:foreign-rejected")
				}
			}
		}
		for _, sh := range shapes {
			q := types.SpendPolicy{Type: types.PolicyTypeUnlockConditions(sh.uc)}
			foreign(v1, stdUC, q, "StandardUnlockHash(K)")
			if len(sh.uc.PublicKeys) == 1 && len(sh.uc.PublicKeys[0].Key) == 32 {
				foreign(v2, stdPK, q, "StandardAddress(K)")
			}
		}
		for _, q := range []types.SpendPolicy{stdPK, types.PolicyHash(types.Hash256(K)), types.PolicyThreshold(1, []types.SpendPolicy{stdPK}),
			types.PolicyThreshold(0, nil), {Type: types.PolicyTypeOpaque(types.StandardUnlockHash(K))}, types.PolicyPublicKey(f.pub[3])} {
			foreign(v1, stdUC, q, "StandardUnlockHash(K)")
			foreign(v2, stdPK, q, "StandardAddress(K)")
		}
	}
}
