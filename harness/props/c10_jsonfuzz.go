package props

// C10J — malformed JSON and text never crash, hang or blow up a decoder.
//
// Family of C10 ("untrusted input never crashes a node") for the JSON / text entry
// points: every exported type with a text or JSON form (the C20 census: all types with
// a hand-written UnmarshalJSON / UnmarshalText, and every struct that contains one).
// Valid documents are produced by marshalling generated values (the C20 generator; real
// ApplyUpdate / RevertUpdate values from a chain) and then mutated STRUCTURALLY, one
// mutation at a time: map keys, numbers, strings, arrays, objects, `type` tags, deep
// nesting, huge payloads, every prefix, random byte flips. The text forms get the
// analogous treatment (policy strings, currencies, identifiers).
//
// Oracle (statement level): json.Unmarshal / UnmarshalText / Parse* return a value or
// an error — never panic (c10-decode-panic:json|text:<type>:<mutation>), never take
// seconds (c10-decode-slow:…), never allocate out of proportion to the input
// (c10-decode-alloc:…). When a VALUE is returned, marshalling it and reading that back
// must not panic or hang either (c10-json-unstable:<type>): no half-initialised values that
// crash later. (An error from that second trip is recorded, not flagged: not a crash.)
// Where the Lean JSON tree model has a decoder for the type, accept/reject is compared
// with it (`json parse.<type>` ops).

import (
	"bytes"
	"encoding"
	"encoding/hex"
	"encoding/json"
	"fmt"
	"math/rand"
	"os"
	"reflect"
	"runtime/metrics"
	"sort"
	"strconv"
	"strings"
	"time"

	"go.sia.tech/core/consensus"
	"go.sia.tech/core/types"
	"verif/harness/internal/fw"
)

func init() { fw.Register("C10J", runC10J) }

// ---------------------------------------------------------------- ordered JSON tree

type c10jNode struct {
	kind byte // 'o' object, 'a' array, 's' string, 'n' number, 't' true, 'f' false, 'z' null
	keys []string
	kids []*c10jNode
	lit  string // string value (decoded) or number literal
}

func c10jParse(doc []byte) (*c10jNode, bool) {
	dec := json.NewDecoder(bytes.NewReader(doc))
	dec.UseNumber()
	var parse func() (*c10jNode, bool)
	parse = func() (*c10jNode, bool) {
		tok, err := dec.Token()
		if err != nil {
			return nil, false
		}
		switch t := tok.(type) {
		case json.Delim:
			if t == '{' {
				n := &c10jNode{kind: 'o'}
				for dec.More() {
					kt, err := dec.Token()
					if err != nil {
						return nil, false
					}
					k, _ := kt.(string)
					v, ok := parse()
					if !ok {
						return nil, false
					}
					n.keys = append(n.keys, k)
					n.kids = append(n.kids, v)
				}
				dec.Token()
				return n, true
			}
			n := &c10jNode{kind: 'a'}
			for dec.More() {
				v, ok := parse()
				if !ok {
					return nil, false
				}
				n.kids = append(n.kids, v)
			}
			dec.Token()
			return n, true
		case string:
			return &c10jNode{kind: 's', lit: t}, true
		case json.Number:
			return &c10jNode{kind: 'n', lit: string(t)}, true
		case bool:
			if t {
				return &c10jNode{kind: 't'}, true
			}
			return &c10jNode{kind: 'f'}, true
		case nil:
			return &c10jNode{kind: 'z'}, true
		}
		return nil, false
	}
	return parse()
}

func c10jQuote(s string) string {
	b, _ := json.Marshal(s)
	return string(b)
}

// c10jEdit describes one mutation: at node `at` write `repl` instead of the node; or, for
// an object node `at`, replace key number `key` by `newKey` (keyOnly), drop it (drop) or
// append raw members (extra).
type c10jEdit struct {
	at      *c10jNode
	repl    string
	hasRepl bool
	key     int
	newKey  string
	keyOnly bool
	drop    bool
	extra   string
}

func (n *c10jNode) render(sb *strings.Builder, e *c10jEdit) {
	if e != nil && e.at == n && e.hasRepl {
		sb.WriteString(e.repl)
		return
	}
	switch n.kind {
	case 'o':
		sb.WriteByte('{')
		first := true
		for i, k := range n.keys {
			if e != nil && e.at == n && e.drop && e.key == i {
				continue
			}
			if !first {
				sb.WriteByte(',')
			}
			first = false
			if e != nil && e.at == n && e.keyOnly && e.key == i {
				k = e.newKey
			}
			sb.WriteString(c10jQuote(k))
			sb.WriteByte(':')
			n.kids[i].render(sb, e)
		}
		if e != nil && e.at == n && e.extra != "" {
			if !first {
				sb.WriteByte(',')
			}
			sb.WriteString(e.extra)
		}
		sb.WriteByte('}')
	case 'a':
		sb.WriteByte('[')
		for i, k := range n.kids {
			if i > 0 {
				sb.WriteByte(',')
			}
			k.render(sb, e)
		}
		sb.WriteByte(']')
	case 's':
		sb.WriteString(c10jQuote(n.lit))
	case 'n':
		sb.WriteString(n.lit)
	case 't':
		sb.WriteString("true")
	case 'f':
		sb.WriteString("false")
	default:
		sb.WriteString("null")
	}
}

func (n *c10jNode) text(e *c10jEdit) string {
	var sb strings.Builder
	n.render(&sb, e)
	return sb.String()
}

func (n *c10jNode) walk(f func(*c10jNode)) {
	f(n)
	for _, k := range n.kids {
		k.walk(f)
	}
}

// ---------------------------------------------------------------- mutations

type c10jMutant struct {
	name string
	doc  string
}

var c10jTypeTags = []string{"unknown", "", "renewal", "storageProof", "expiration", "above", "after", "pk", "h", "thresh", "opaque", "uc"}

// c10jMutations enumerates the structural mutants of one document; `budget` bounds how
// many are returned (a seeded sample when there are more). Heavy ones (huge / deep
// payloads) are generated at a few places only.
func c10jMutations(rng *rand.Rand, root *c10jNode, orig string, budget int, heavy int, nprefix int) []c10jMutant {
	var out []c10jMutant
	add := func(name string, e *c10jEdit) { out = append(out, c10jMutant{name, root.text(e)}) }
	repl := func(n *c10jNode, name, with string) {
		add(name, &c10jEdit{at: n, repl: with, hasRepl: true})
	}
	var nodes []*c10jNode
	root.walk(func(n *c10jNode) { nodes = append(nodes, n) })
	for _, n := range nodes {
		switch n.kind {
		case 'o':
			for i, k := range n.keys {
				for _, nk := range []string{"-1", "64", "2147483648", "9223372036854775808", "x", "", strings.ToUpper(k)} {
					if nk != k {
						add("key->"+c10jKeyName(nk, k), &c10jEdit{at: n, key: i, newKey: nk, keyOnly: true})
					}
				}
				add("key-missing", &c10jEdit{at: n, key: i, drop: true})
				if k == "type" && n.kids[i].kind == 's' {
					for _, tg := range c10jTypeTags {
						if tg != n.kids[i].lit {
							name := "type-tag->other-kind"
							if tg == "unknown" || tg == "" {
								name = "type-tag->unknown"
							}
							repl(n.kids[i], name, c10jQuote(tg))
						}
					}
				}
			}
			if len(n.keys) > 0 {
				add("key-duplicate", &c10jEdit{at: n, extra: c10jQuote(n.keys[0]) + ":null"})
				add("key-duplicate", &c10jEdit{at: n, extra: c10jQuote(n.keys[len(n.keys)-1]) + ":" + n.kids[0].text(nil)})
			}
			add("key-extra", &c10jEdit{at: n, extra: `"zzExtra":{"a":[1,2,3]}`})
			for _, w := range []string{"null", "{}", "[]", "0", `""`} {
				repl(n, "object->"+w, w)
			}
		case 'a':
			for _, w := range []string{"null", "[]", "{}", "0", `""`, "[null]", "[[]]", "[{}]"} {
				repl(n, "array->"+w, w)
			}
			if len(n.kids) > 0 {
				repl(n, "array-truncated", "["+n.kids[0].text(nil)+"]")
				repl(n, "array-elem-null", strings.Replace(n.text(nil), n.kids[0].text(nil), "null", 1))
			}
		case 'n':
			for _, w := range []string{"-1", "18446744073709551616", "1e400", "1.5", "1e2", "-0", `"1"`, `"x"`, "null", "true", "[]", "{}", "9223372036854775808", "256", "340282366920938463463374607431768211456"} {
				repl(n, "number->"+c10jClass(w), w)
			}
		case 's':
			s := n.lit
			vars := [][2]string{{"number", "0"}, {"null", "null"}, {"empty", `""`}, {"1-char", `"a"`}, {"bool", "true"}, {"array", "[]"}, {"object", "{}"},
				{"odd-length", c10jQuote(s + "a")}, {"over-long-hex", c10jQuote(s + strings.Repeat("00", 40))}, {"non-hex", c10jQuote("zz" + s)},
				{"wrong-prefix", c10jQuote("ed25518:" + strings.TrimPrefix(s, "ed25519:"))}, {"no-prefix", c10jQuote(strings.TrimPrefix(s, "ed25519:"))},
				{"uppercase", c10jQuote(strings.ToUpper(s))}, {"space", c10jQuote(" " + s + " ")}, {"nul", c10jQuote(s + "\x00")},
				{"bad-escape", `"\ud800"`}, {"quote-in", c10jQuote(`"` + s + `"`)}, {"negative", c10jQuote("-" + s)}, {"exponent", c10jQuote(s + "e10")},
				{"suffix", c10jQuote(s + " SC")}, {"fraction", c10jQuote(s + ".5")}, {"plus", c10jQuote("+" + s)}, {"0x", c10jQuote("0x" + s)}, {"underscore", c10jQuote("1_0")}}
			if len(s) > 0 {
				last := s[len(s)-1]
				flip := byte('0')
				if last == '0' {
					flip = '1'
				}
				vars = append(vars, [2]string{"checksum-flipped", c10jQuote(s[:len(s)-1] + string(flip))}, [2]string{"short-1", c10jQuote(s[:len(s)-1])},
					[2]string{"first-flipped", c10jQuote(string(flip) + s[1:])}, [2]string{"half", c10jQuote(s[:len(s)/2])})
			}
			for _, v := range vars {
				repl(n, "string->"+v[0], v[1])
			}
		case 't', 'f':
			for _, w := range []string{"0", `"true"`, "null", "[]"} {
				repl(n, "bool->"+c10jClass(w), w)
			}
		case 'z':
			for _, w := range []string{"0", `""`, "[]", "{}", "false"} {
				repl(n, "null->"+c10jClass(w), w)
			}
		}
	}
	// sample down to the budget (deterministically, with the seeded rng)
	if len(out) > budget {
		rng.Shuffle(len(out), func(i, j int) { out[i], out[j] = out[j], out[i] })
		out = out[:budget]
	}
	// heavy payloads: at the root and at up to three random nodes
	var heavyAt []*c10jNode
	if heavy > 0 {
		heavyAt = append(heavyAt, root)
	}
	for i := 1; i < heavy && len(nodes) > 1; i++ {
		heavyAt = append(heavyAt, nodes[1+rng.Intn(len(nodes)-1)])
	}
	deepArr := strings.Repeat("[", 10000) + strings.Repeat("]", 10000)
	deepObj := strings.Repeat(`{"a":`, 10000) + "1" + strings.Repeat("}", 10000)
	for _, n := range heavyAt {
		el := "null"
		if n.kind == 'a' && len(n.kids) > 0 {
			el = n.kids[0].text(nil)
		}
		if len(el) < 2000 {
			repl(n, "array-1000-elements", "["+strings.TrimSuffix(strings.Repeat(el+",", 1000), ",")+"]")
		}
		repl(n, "nested-10000-arrays", deepArr)
		repl(n, "nested-10000-objects", deepObj)
		repl(n, "nested-9000-arrays", strings.Repeat("[", 9000)+strings.Repeat("]", 9000))
		repl(n, "string-200k", `"`+strings.Repeat("a", 200000)+`"`)
		repl(n, "hex-200k", `"`+strings.Repeat("ab", 100000)+`"`)
		repl(n, "digits-10000", strings.Repeat("9", 10000))
		repl(n, "digits-10000-string", `"`+strings.Repeat("9", 10000)+`"`)
		repl(n, "policy-string-deep", `"`+strings.Repeat("thresh(1,[", 3000)+strings.Repeat("])", 3000)+`"`)
	}
	// prefixes and byte flips of the whole document
	if len(orig) <= 4*nprefix {
		for i := 0; i < len(orig); i++ {
			out = append(out, c10jMutant{"prefix", orig[:i]})
		}
	} else {
		for i := 0; i < nprefix; i++ {
			out = append(out, c10jMutant{"prefix", orig[:rng.Intn(len(orig))]})
		}
	}
	for i := 0; i < nprefix*2/3 && len(orig) > 0; i++ {
		b := []byte(orig)
		for k := 0; k <= rng.Intn(2); k++ {
			b[rng.Intn(len(b))] ^= 1 << uint(rng.Intn(8))
		}
		out = append(out, c10jMutant{"byte-flip", string(b)})
	}
	return out
}

func c10jKeyName(nk, orig string) string {
	switch {
	case nk == "":
		return "empty"
	case nk == strings.ToUpper(orig):
		return "uppercase"
	}
	return nk
}

func c10jClass(w string) string {
	if len(w) > 12 {
		return w[:6] + "…"
	}
	return w
}

// ---------------------------------------------------------------- bounded execution

type c10jOutcome struct {
	panicked bool
	msg      string
	timedOut bool
	dur      time.Duration
	alloc    uint64
	err      error
}

// c10jRun executes f under recover with a wall-clock bound; allocation is measured
// (the harness runs one decode at a time).
func c10jRun(limit time.Duration, f func() error) c10jOutcome {
	var o c10jOutcome
	done := make(chan struct{})
	a0 := c10jAllocBytes()
	t0 := time.Now()
	go func() {
		defer close(done)
		defer func() {
			if r := recover(); r != nil {
				o.panicked, o.msg = true, fmt.Sprint(r)
			}
		}()
		o.err = f()
	}()
	select {
	case <-done:
	case <-time.After(limit):
		o.timedOut = true
	}
	o.dur = time.Since(t0)
	o.alloc = c10jAllocBytes() - a0
	return o
}

// cumulative bytes allocated by the process (cheap to read: no stop-the-world)
func c10jAllocBytes() uint64 {
	s := []metrics.Sample{{Name: "/gc/heap/allocs:bytes"}}
	metrics.Read(s)
	if s[0].Value.Kind() == metrics.KindUint64 {
		return s[0].Value.Uint64()
	}
	return 0
}

type discardWriter struct{}

func (discardWriter) Write(b []byte) (int, error) { return len(b), nil }

type c10jRunner struct {
	nsample      int
	encodeNoted  map[string]bool
	lastNilIface bool // the last accepted value held a nil policy / resolution (outside the model's values)
	c            *fw.Ctx
	res          *fw.Result
	g            *c20Gen
	limit        time.Duration
	ops          []string
	outs         []string
}

// judge records the outcome of one decode and reports violations of the statement.
func (r *c10jRunner) judge(form, typ, mut string, doc []byte, o c10jOutcome) {
	res := r.res
	res.Count("mutation:" + form + ":" + mut)
	rep := map[string]any{"kind": "jsonfuzz", "form": form, "type": typ, "mutation": mut, "doc": hex.EncodeToString(c10jCap(doc, 4000)), "doc_len": len(doc)}
	show := string(c10jCap(doc, 160))
	switch {
	case o.timedOut:
		res.Count("outcome:TIMEOUT")
		res.Violate(fw.Violation{Key: fmt.Sprintf("c10-decode-slow:%s:%s:%s", form, typ, mut), What: fmt.Sprintf("decoding a %d-byte malformed %s document into %s did not finish within %v: %q…", len(doc), form, typ, r.limit, show), Replay: rep, Expected: "value or error, promptly", Observed: "no result after " + r.limit.String()})
	case o.panicked:
		res.Count("outcome:PANIC")
		res.Violate(fw.Violation{Key: fmt.Sprintf("c10-decode-panic:%s:%s:%s", form, typ, mut), What: fmt.Sprintf("decoding a malformed %s document into %s panicked (%s): %q", form, typ, o.msg, show), Replay: rep, Expected: "value or error", Observed: "panic: " + o.msg})
	default:
		if o.err == nil {
			res.Count("outcome:accept")
		} else {
			res.Count("outcome:reject")
		}
		// out of proportion: more than 64 MiB beyond 2000 bytes per input byte
		if o.alloc > 64<<20+2000*uint64(len(doc)) {
			res.Count("outcome:ALLOC")
			res.Violate(fw.Violation{Key: fmt.Sprintf("c10-decode-alloc:%s:%s:%s", form, typ, mut), What: fmt.Sprintf("decoding a %d-byte malformed %s document into %s allocated %d MiB: %q…", len(doc), form, typ, o.alloc>>20, show), Replay: rep, Expected: "allocation proportional to the input", Observed: fmt.Sprintf("%d bytes", o.alloc)})
		}
		if o.dur > r.limit/2 {
			res.Count("outcome:SLOW")
			res.Violate(fw.Violation{Key: fmt.Sprintf("c10-decode-slow:%s:%s:%s", form, typ, mut), What: fmt.Sprintf("decoding a %d-byte malformed %s document into %s took %v", len(doc), form, typ, o.dur), Replay: rep, Expected: "prompt", Observed: o.dur.String()})
		}
	}
}

func c10jCap(b []byte, n int) []byte {
	if len(b) > n {
		return b[:n]
	}
	return b
}

// c10jHasNilIface: the decoded value contains a SpendPolicy without a type or a
// resolution without a kind (a JSON document that omits or nulls that member is read
// into the Go zero value, which is not a policy / resolution and cannot be marshalled
// back into something readable). Counted, not judged: see the report.
func c10jHasNilIface(v reflect.Value, depth int) bool {
	if depth > 40 {
		return false
	}
	switch v.Kind() {
	case reflect.Struct:
		if v.Type() == c20tPolicy {
			return v.Field(0).IsNil()
		}
		if v.Type() == c20tResolution && v.FieldByName("Resolution").IsNil() {
			return true
		}
		for i := 0; i < v.NumField(); i++ {
			if v.Type().Field(i).IsExported() && c10jHasNilIface(v.Field(i), depth+1) {
				return true
			}
		}
	case reflect.Ptr, reflect.Interface:
		if !v.IsNil() {
			return c10jHasNilIface(v.Elem(), depth+1)
		}
	case reflect.Slice, reflect.Array:
		if v.Type().Elem().Kind() == reflect.Uint8 {
			return false
		}
		for i := 0; i < v.Len() && i < 64; i++ {
			if c10jHasNilIface(v.Index(i), depth+1) {
				return true
			}
		}
	}
	return false
}

// decodeJSON feeds one (malformed) document to json.Unmarshal for type t and applies
// the oracle, including stability of an accepted value.
func (r *c10jRunner) decodeJSON(t reflect.Type, typ, mut string, doc []byte) (accepted bool) {
	p := reflect.New(t)
	r.lastNilIface = false
	o := c10jRun(r.limit, func() error { return json.Unmarshal(doc, p.Interface()) })
	r.res.Eval("jsonfuzz "+typ+" "+mut+" "+string(c10jCap(doc, 300)), true)
	r.judge("json", typ, mut, doc, o)
	if o.timedOut || o.panicked || o.err != nil {
		return false
	}
	// a value came back: it must survive its own JSON form
	// downstream: a value json.Unmarshal hands back should also be encodable (binary form)
	if et, ok := p.Interface().(types.EncoderTo); ok {
		if pe, msg := c20Recover(func() { e := types.NewEncoder(discardWriter{}); et.EncodeTo(e); e.Flush() }); pe {
			r.res.Count("accepted-value:EncodeTo-panics:" + typ)
			if !r.encodeNoted[typ] {
				r.encodeNoted[typ] = true
				r.res.Note("OBSERVATION (not judged unless VERIF_C10J_STRICT=1): json.Unmarshal accepts %q into %s, and EncodeTo of the resulting value panics: %s", string(c10jCap(doc, 300)), typ, msg)
			}
			if os.Getenv("VERIF_C10J_STRICT") == "1" {
				ukey := "c10-json-value-unencodable:" + typ
				if strings.Contains(msg, "policy type <nil>") {
					// one finding, whatever type carries the input: a spend policy left nil by the JSON decoder
					ukey = "c10-json-value-unencodable:nil-spend-policy"
				}
				r.res.Violate(fw.Violation{Key: ukey, What: fmt.Sprintf("json.Unmarshal accepts a malformed document into %s (%s) and the value panics in EncodeTo: %s; document %q", typ, mut, msg, string(c10jCap(doc, 200))),
					Replay: map[string]any{"kind": "jsonfuzz", "form": "json", "type": typ, "mutation": mut, "doc": hex.EncodeToString(c10jCap(doc, 4000))}, Expected: "a value that can be encoded, or an error", Observed: "EncodeTo panic: " + msg})
			}
		}
	}
	r.lastNilIface = false
	if c10jHasNilIface(p.Elem(), 0) {
		r.lastNilIface = true
		r.res.Count("accepted-value:nil-policy-or-resolution(not judged)")
		return true
	}
	var js2 []byte
	var p2 reflect.Value
	o2 := c10jRun(r.limit, func() error {
		var err error
		if js2, err = json.Marshal(p.Interface()); err != nil {
			return fmt.Errorf("re-marshal: %w", err)
		}
		p2 = reflect.New(t)
		if err = json.Unmarshal(js2, p2.Interface()); err != nil {
			return fmt.Errorf("re-unmarshal: %w", err)
		}
		c20Normalize(p.Elem())
		c20Normalize(p2.Elem())
		if d := c20Equal(p.Elem(), p2.Elem(), ""); d != "" {
			return fmt.Errorf("value changes on a second round trip at %s", d)
		}
		return nil
	})
	if !o2.panicked && !o2.timedOut && o2.err != nil {
		// an ERROR while re-marshalling or re-reading an accepted value is not a crash: C10 says nothing about it (seed 5
		// of the multi-seed sweep: encoding/json's time.Time accepts a zone offset of "+24:00" that its own MarshalJSON
		// refuses — standard-library behaviour, reported as a violation by an earlier version of this oracle). Recorded.
		r.res.Count("outcome:accepted-value-does-not-remarshal(recorded-only)")
		return true
	}
	if o2.panicked || o2.timedOut {
		why := o2.msg
		if o2.err != nil {
			why = o2.err.Error()
		}
		if o2.timedOut {
			why = "timeout"
		}
		r.res.Count("outcome:UNSTABLE")
		r.res.Violate(fw.Violation{Key: "c10-json-unstable:" + typ, What: fmt.Sprintf("json.Unmarshal accepted a malformed document into %s (%s) but the value does not survive its own JSON form: %s; document %q", typ, mut, why, string(c10jCap(doc, 200))),
			Replay: map[string]any{"kind": "jsonfuzz", "form": "json", "type": typ, "mutation": mut, "doc": hex.EncodeToString(c10jCap(doc, 4000))}, Expected: "a value that re-marshals and reads back equal", Observed: why})
	} else {
		r.res.Count("accepted-value:stable")
	}
	return true
}

// ---------------------------------------------------------------- model (Lean JSON tree decoders)

var c10jModelTypes = map[string]string{
	"types.ChainIndex": "ci", "consensus.Work": "work", "rhp.ProtocolVersion": "ver", "consensus.ElementAccumulator": "acc",
	"types.StorageProof": "sp", "types.SpendPolicy": "pol", "types.SatisfiedPolicy": "sat", "types.FileContractRevision": "rev",
	"types.SiacoinInput": "input", "consensus.ApplyUpdate": "upd", "consensus.RevertUpdate": "rupd",
}

// mutations on which the tree model is written to agree with encoding/json: it looks fields
// up by their exact name (no case folding), takes the last occurrence of a key (encoding/json
// processes every occurrence, so a duplicate holding null does not undo an earlier value),
// knows integers only (no -0, fractions, exponents) and plain-decimal Work.
func c10jModelMutation(typ, mut string) bool {
	switch {
	case strings.HasPrefix(mut, "key->uppercase"), mut == "key-duplicate", mut == "prefix", mut == "byte-flip", strings.HasPrefix(mut, "nested-"),
		strings.HasSuffix(mut, "-200k"), strings.HasPrefix(mut, "digits-"), mut == "array-1000-elements", mut == "policy-string-deep",
		mut == "string->bad-escape", mut == "string->nul", mut == "number->-0":
		return false
	}
	if typ == "types.FileContractRevision" { // Currency: the model reads the exact decimal form only, ParseCurrency reads more
		switch mut {
		case "string->plus", "string->suffix", "string->fraction", "string->exponent", "string->space", "string->underscore", "string->0x", "string->negative":
			return false
		}
	}
	if typ == "consensus.Work" {
		switch mut {
		case "string->plus", "string->underscore", "string->0x", "string->first-flipped", "string->uppercase", "string->number", "string->negative":
			return false
		}
	}
	return true
}

// ---------------------------------------------------------------- seeds

type c10jSeed struct {
	t     reflect.Type
	typ   string
	doc   []byte
	model bool // the whole document is within the tree model (updates: accumulator part only)
}

func (r *c10jRunner) seeds() []c10jSeed {
	var out []c10jSeed
	per := r.c.Budget(2, 12)
	for _, proto := range c20Types {
		t := reflect.TypeOf(proto).Elem()
		if t == c20tApplyUpd || t == c20tRevertUpd {
			continue
		}
		name := c20TypeName(proto)
		for i := 0; i < per; i++ {
			p := reflect.New(t)
			r.g.unsupported = ""
			r.g.fill(p.Elem(), 2)
			if r.g.unsupported != "" {
				break
			}
			js, err := json.Marshal(p.Interface())
			if err != nil || len(js) > 20000 {
				continue
			}
			out = append(out, c10jSeed{t, name, js, true})
		}
	}
	// real updates from a chain
	ch := newC20Chain(r.c.Seed*7919 + 17)
	gen := ch.genesis()
	ch.tip, ch.ts = gen, gen.Timestamp
	var au consensus.ApplyUpdate
	if p, _ := c20Recover(func() {
		ch.cs, au = consensus.ApplyBlock(ch.n.GenesisState(), gen, consensus.V1BlockSupplement{Transactions: make([]consensus.V1TransactionSupplement, 1)}, time.Time{})
	}); !p {
		ch.ids = append(ch.ids, gen.ID())
		ch.absorbApply(au, nil)
		kept := 0
		for step := 0; step < 40 && kept < r.c.Budget(4, 16); step++ {
			var b types.Block
			var bs consensus.V1BlockSupplement
			if p, _ := c20Recover(func() { b, bs = ch.buildBlock(func(string) {}) }); p {
				break
			}
			if consensus.ValidateBlock(ch.cs, b, bs) != nil {
				continue
			}
			prev := ch.cs
			next, au := consensus.ApplyBlock(prev, b, bs, time.Time{})
			fresh := map[types.Hash256]*c20Refreshed{}
			for _, id := range ch.order {
				e := ch.elems[id]
				se := c20CopySE(e.se)
				au.UpdateElementProof(&se)
				fresh[id] = &c20Refreshed{orig: se}
			}
			ch.cs, ch.tip, ch.ts = next, b, b.Timestamp
			ch.ids = append(ch.ids, b.ID())
			ch.absorbApply(au, fresh)
			if step%3 == 2 {
				if js, err := json.Marshal(au); err == nil && len(js) < 60000 {
					out = append(out, c10jSeed{c20tApplyUpd, "consensus.ApplyUpdate", js, false})
					if i := bytes.Index(js, []byte(`"updatedLeaves":`)); i > 0 { // the accumulator part alone
						out = append(out, c10jSeed{c20tApplyUpd, "consensus.ApplyUpdate", append([]byte("{"), js[i:]...), true})
					}
					kept++
				}
				ru := consensus.RevertBlock(prev, b, bs)
				if js, err := json.Marshal(ru); err == nil && len(js) < 60000 {
					out = append(out, c10jSeed{c20tRevertUpd, "consensus.RevertUpdate", js, false})
					if i := bytes.Index(js, []byte(`"updatedLeaves":`)); i > 0 {
						out = append(out, c10jSeed{c20tRevertUpd, "consensus.RevertUpdate", append([]byte("{"), js[i:]...), true})
					}
				}
			}
		}
	}
	// small hand-made documents that reach the maps directly
	out = append(out, c10jSeed{c20tApplyUpd, "consensus.ApplyUpdate", []byte(`{"updatedLeaves":{"0":[{"leafIndex":0,"elementHash":"` + strings.Repeat("00", 32) + `","spent":false}]},"treeGrowth":{"1":["` + strings.Repeat("ab", 32) + `"]},"oldNumLeaves":1,"numLeaves":2}`), true})
	out = append(out, c10jSeed{c20tRevertUpd, "consensus.RevertUpdate", []byte(`{"updatedLeaves":{"3":[{"leafIndex":5,"merkleProof":["` + strings.Repeat("cd", 32) + `"],"elementHash":"` + strings.Repeat("11", 32) + `","spent":true}]},"numLeaves":9}`), true})
	return out
}

// ---------------------------------------------------------------- text forms

type c10jTextTarget struct {
	typ   string
	parse func([]byte) error
	seeds func(g *c20Gen) []string
}

func c10jTextTargets() []c10jTextTarget {
	var out []c10jTextTarget
	for _, proto := range c20Types {
		t := reflect.TypeOf(proto).Elem()
		if _, ok := reflect.New(t).Interface().(encoding.TextUnmarshaler); !ok {
			continue
		}
		tt := t
		out = append(out, c10jTextTarget{typ: c20TypeName(proto),
			parse: func(b []byte) error { return reflect.New(tt).Interface().(encoding.TextUnmarshaler).UnmarshalText(b) },
			seeds: func(g *c20Gen) []string {
				var ss []string
				for i := 0; i < 3; i++ {
					p := reflect.New(tt)
					g.fill(p.Elem(), 2)
					if m, ok := p.Interface().(encoding.TextMarshaler); ok {
						if b, err := m.MarshalText(); err == nil {
							ss = append(ss, string(b))
						}
					}
				}
				return ss
			}})
	}
	out = append(out,
		c10jTextTarget{"types.ParseSpendPolicy", func(b []byte) error { _, err := types.ParseSpendPolicy(string(b)); return err },
			func(g *c20Gen) []string {
				ss := []string{"thresh(1,[above(1),pk(0x" + strings.Repeat("ab", 32) + ")])", `uc(1,["a,b(":01,ed25519:` + strings.Repeat("cd", 32) + `],2)`, "after(-5)", "opaque(0x" + strings.Repeat("00", 32) + ")"}
				for i := 0; i < 3; i++ {
					ss = append(ss, g.policy(2).String())
				}
				return ss
			}},
		c10jTextTarget{"types.ParseCurrency", func(b []byte) error { _, err := types.ParseCurrency(string(b)); return err },
			func(g *c20Gen) []string {
				c := types.NewCurrency(g.u64(), g.u64())
				return []string{c.String(), c.ExactString(), "1.5 SC", "100 mS", "0", "340282366920938463463374607431768211455"}
			}},
		c10jTextTarget{"types.ParseAddress", func(b []byte) error { _, err := types.ParseAddress(string(b)); return err },
			func(g *c20Gen) []string { return []string{types.Address(g.bytesN(32)).String()} }},
		c10jTextTarget{"types.ParseChainIndex", func(b []byte) error { _, err := types.ParseChainIndex(string(b)); return err },
			func(g *c20Gen) []string {
				ci := types.ChainIndex{Height: g.u64(), ID: types.BlockID(g.bytesN(32))}
				b, _ := ci.MarshalText()
				return []string{string(b), ci.String()}
			}},
	)
	return out
}

func c10jTextMutations(rng *rand.Rand, s string) []c10jMutant {
	var out []c10jMutant
	add := func(n, d string) { out = append(out, c10jMutant{n, d}) }
	for i := 0; i <= len(s) && i < 200; i++ {
		add("prefix", s[:i])
	}
	const ins = " \t\n(),[]\"\\:0aZx_+-.eE/\x00\xff\xc3\xa9"
	for i := 0; i < 60 && len(s) > 0; i++ {
		b := []byte(s)
		switch rng.Intn(4) {
		case 0:
			b[rng.Intn(len(b))] ^= 1 << uint(rng.Intn(8))
			add("byte-flip", string(b))
		case 1:
			j := rng.Intn(len(b))
			add("delete", string(b[:j])+string(b[j+1:]))
		case 2:
			j := rng.Intn(len(b) + 1)
			add("insert", string(b[:j])+string(ins[rng.Intn(len(ins))])+string(b[j:]))
		default:
			b[rng.Intn(len(b))] = ins[rng.Intn(len(ins))]
			add("replace", string(b))
		}
	}
	add("empty", "")
	add("doubled", s+s)
	add("over-long-hex", s+strings.Repeat("00", 40))
	add("over-long-hex-odd", s+strings.Repeat("0", 81))
	add("hex-200k", strings.Repeat("ab", 100000))
	add("prefix+hex-200k", "ed25519:"+strings.Repeat("ab", 100000))
	add("uppercase", strings.ToUpper(s))
	add("wrong-prefix", "ed25518:"+strings.TrimPrefix(s, "ed25519:"))
	add("no-prefix", strings.TrimPrefix(s, "ed25519:"))
	add("spaces", "  "+s+"  ")
	add("quoted", `"`+s+`"`)
	add("unterminated-quote", `"`+s)
	add("colons", strings.Repeat(":", 1000))
	add("separators", strings.Repeat("::", 1000)+s)
	// policy strings
	add("policy-unbalanced-open", strings.Repeat("thresh(1,[", 40)+"above(1)")
	add("policy-unbalanced-close", "above(1)"+strings.Repeat("])", 40))
	add("policy-5000-deep", strings.Repeat("thresh(1,[", 5000)+"above(1)"+strings.Repeat("])", 5000))
	add("policy-5000-parens", strings.Repeat("(", 5000)+strings.Repeat(")", 5000))
	add("policy-huge-count", "thresh(18446744073709551615,[above(1)])")
	add("policy-huge-count-2", "thresh(18446744073709551616,[above(1)])")
	add("policy-huge-uc-count", "uc(18446744073709551615,[],18446744073709551616)")
	add("policy-unknown-function", "foo(1)")
	add("policy-unknown-nested", "thresh(1,[bar(0x00)])")
	add("policy-5000-children", "thresh(1,["+strings.TrimSuffix(strings.Repeat("above(1),", 5000), ",")+"])")
	add("policy-5000-keys", "uc(0,["+strings.TrimSuffix(strings.Repeat("ed25519:00,", 5000), ",")+"],1)")
	add("policy-quoted-forever", `uc(0,["`+strings.Repeat("a", 5000))
	add("policy-quoted-escapes", `uc(0,["`+strings.Repeat(`\x41`, 2000)+`":00],1)`)
	add("policy-whitespace", strings.Repeat(" ", 5000)+"above( 1 )"+strings.Repeat("\n", 5000))
	// currencies and other numbers
	add("digits-10000", strings.Repeat("9", 10000))
	add("digits-10000-suffix", strings.Repeat("9", 10000)+" SC")
	add("zeros-10000", strings.Repeat("0", 10000)+"1")
	add("fraction-10000", "0."+strings.Repeat("0", 10000)+"1 SC")
	add("exponent", "1e10")
	add("exponent-huge", "1e1000000000")
	add("exponent-suffix", "1e10 SC")
	add("negative", "-"+s)
	add("suffix-unknown", s+" XS")
	add("suffix-twice", s+" SC SC")
	add("rational", "1/3 SC")
	add("hex-number", "0x10")
	add("underscore", "1_000")
	add("nan", "NaN")
	add("inf", "Inf SC")
	add("version-huge", "v999999999999999999999.1.1")
	add("version-many", "v"+strings.TrimSuffix(strings.Repeat("1.", 5000), "."))
	return out
}

// ---------------------------------------------------------------- main

func runC10J(c *fw.Ctx) {
	r := &c10jRunner{c: c, res: c.Res, g: &c20Gen{rng: c.Rng}, limit: 4 * time.Second, encodeNoted: map[string]bool{}}
	rule := "JSON/TEXT DECODING: for every exported type of types, consensus, gateway, rhp/v2-4 with a text or JSON form (all hand-written UnmarshalJSON/UnmarshalText and every struct containing one; real ApplyUpdate/RevertUpdate documents from a chain), valid documents (marshalled generated values) are mutated structurally, one mutation at a time (map keys -> -1/64/2^31/2^63/x/empty/upper-case, missing, duplicate, extra; numbers -> -1/2^64/1e400/1.5/strings; strings -> numbers/null/empty/1-char/odd/over-long/non-hex/wrong prefix/flipped checksum; arrays -> null/empty/1000 elements/10000-deep; objects -> null/empty; `type` tags -> unknown / the other kinds; 200 kB strings, 10000-digit numbers; every prefix; byte flips) and fed to json.Unmarshal under recover with a wall-clock and an allocation bound: value or error, never panic/hang/blow-up; an accepted value must re-marshal and read back equal. Text forms (UnmarshalText of every such type, ParseSpendPolicy, ParseCurrency, ParseAddress, ParseChainIndex): prefixes, byte edits, over-long / wrong-prefix identifiers, unbalanced and 5000-deep policy strings, huge counts, unknown functions, 10000-digit / exponent / suffixed currencies. Non-trivial = a mutant that differs from its seed document."
	if c.Res.Rule == "" {
		c.Res.Rule = rule
	} else {
		c.Res.Rule += " (3) " + rule
	}
	if c.Replay != "" && r.replay(c.Replay) {
		return
	}
	budget := c.Budget(60, 400)
	seeds := r.seeds()
	r.res.CountN("jsonfuzz-seed-documents", len(seeds))
	seen := map[string]bool{}
	heavyDone := map[string]int{}
	for _, sd := range seeds {
		r.res.Count("jsonfuzz-type:" + sd.typ)
		root, ok := c10jParse(sd.doc)
		if !ok {
			continue
		}
		// the seed itself must be accepted (sanity of the harness)
		if !r.decodeJSON(sd.t, sd.typ, "valid-seed", sd.doc) {
			r.res.Count("seed-rejected:" + sd.typ)
		}
		// the huge / deep payloads: at a few places of one or two documents per type
		heavy := 0
		if heavyDone[sd.typ] < c.Budget(1, 3) {
			heavyDone[sd.typ]++
			heavy = c.Budget(2, 4)
		}
		for _, m := range c10jMutations(c.Rng, root, string(sd.doc), budget, heavy, c.Budget(30, 100)) {
			if m.doc == string(sd.doc) {
				continue
			}
			// identical small documents recur a lot (null, {}, prefixes): once per type is enough
			if len(m.doc) < 64 {
				k := sd.typ + "\x00" + m.doc
				if seen[k] {
					continue
				}
				seen[k] = true
			}
			if r.nsample%4099 == 0 {
				r.res.Sample(map[string]string{"type": sd.typ, "mutation": m.name, "document": string(c10jCap([]byte(m.doc), 240))})
			}
			r.nsample++
			acc := r.decodeJSON(sd.t, sd.typ, m.name, []byte(m.doc))
			if op, ok := c10jModelTypes[sd.typ]; ok && sd.model && c.Model != nil && c10jModelMutation(sd.typ, m.name) && len(m.doc) < 30000 && json.Valid([]byte(m.doc)) && !r.lastNilIface {
				r.ops = append(r.ops, "json parse."+op+" "+hex.EncodeToString([]byte(m.doc)))
				if acc {
					r.outs = append(r.outs, "ok")
				} else {
					r.outs = append(r.outs, "err")
				}
			}
		}
	}
	// text forms
	for _, tt := range c10jTextTargets() {
		for _, s := range tt.seeds(r.g) {
			for _, m := range c10jTextMutations(c.Rng, s) {
				doc := []byte(m.doc)
				o := c10jRun(r.limit, func() error { return tt.parse(doc) })
				r.res.Eval("textfuzz "+tt.typ+" "+m.name+" "+string(c10jCap(doc, 200)), m.doc != s)
				r.res.Count("textfuzz-type:" + tt.typ)
				r.judge("text", tt.typ, m.name, doc, o)
			}
		}
	}
	if len(r.ops) > 0 {
		c.Compare(r.ops, r.outs)
	}
	ks := make([]string, 0)
	for k := range r.res.Distribution {
		if strings.HasPrefix(k, "outcome:") {
			ks = append(ks, k+"="+strconv.Itoa(r.res.Distribution[k]))
		}
	}
	sort.Strings(ks)
	r.res.Note("C10J outcomes: %s", strings.Join(ks, " "))
}

func (r *c10jRunner) replay(path string) bool {
	b, err := readFile(path)
	if err != nil {
		return false
	}
	var f struct {
		Replay struct {
			Kind, Form, Type, Mutation, Doc string
		} `json:"replay"`
	}
	if json.Unmarshal(b, &f) != nil || f.Replay.Kind != "jsonfuzz" {
		return false
	}
	doc, _ := hex.DecodeString(f.Replay.Doc)
	if f.Replay.Form == "json" {
		for _, proto := range c20Types {
			if c20TypeName(proto) == f.Replay.Type {
				r.decodeJSON(reflect.TypeOf(proto).Elem(), f.Replay.Type, f.Replay.Mutation, doc)
			}
		}
		return true
	}
	for _, tt := range c10jTextTargets() {
		if tt.typ == f.Replay.Type {
			o := c10jRun(r.limit, func() error { return tt.parse(doc) })
			r.res.Eval("textfuzz "+tt.typ+" "+f.Replay.Mutation, true)
			r.judge("text", tt.typ, f.Replay.Mutation, doc, o)
		}
	}
	return true
}
