package props

// C09A — the aliasing primitives on real elements against the Lean alias model
// (SiaModel/Ledger/Alias.lean): random scripts of Share / Copy / Move / in-place
// write on a types.StateElement. Observed on the Go side: which Move panics
// ("Move called on shared StateElement"), and, after all writes, the first byte
// of every hash of every handle's proof (a Copy must not follow writes made
// through the original or through Share/Move views of it, and vice versa; Share
// and Move views must follow them). Statement-level oracle: a handle produced by
// Copy never changes when any other handle is written, and writing it changes no
// other handle.

import (
	"fmt"
	"strings"

	"go.sia.tech/core/types"
	"verif/harness/internal/fw"
)

func init() { fw.Register("C09A", runC09A) }

func c09aShow(se types.StateElement) string {
	if se.MerkleProof == nil {
		return "-"
	}
	parts := make([]string, len(se.MerkleProof))
	for i, h := range se.MerkleProof {
		parts[i] = fmt.Sprint(h[0])
	}
	return strings.Join(parts, ",")
}

func runC09A(c *fw.Ctx) {
	res := c.Res
	res.Rule = "random scripts (length 0..12) over {Share, Copy, Move, in-place write} on a real types.StateElement with a proof of 0..4 hashes (or nil): Go (panic position / every handle's proof bytes) vs the Lean alias model, plus the independence oracle for Copy. Non-trivial: the script contains a write; distinct by (proof, script)."
	r := c.Rng
	n := c.Budget(4000, 200000)
	var ops, outs []string
	alphabet := "SCMW"
	for i := 0; i < n; i++ {
		plen := r.Intn(6) - 1 // -1 = nil proof
		var se types.StateElement
		se.LeafIndex = uint64(r.Intn(100))
		bufTok := "-"
		if plen >= 0 {
			se.MerkleProof = make([]types.Hash256, plen)
			ws := make([]string, plen)
			for j := range se.MerkleProof {
				se.MerkleProof[j][0] = byte(r.Intn(256))
				ws[j] = fmt.Sprint(se.MerkleProof[j][0])
			}
			bufTok = strings.Join(ws, ",")
			if plen == 0 {
				// an empty non-nil slice has no backing array to alias: model it as nil
				se.MerkleProof = nil
				bufTok = "-"
			}
		}
		var sb strings.Builder
		for k := r.Intn(13); k > 0; k-- {
			sb.WriteByte(alphabet[r.Intn(4)])
		}
		script := sb.String()
		line := "alias-script " + bufTok + " " + script
		if script == "" {
			line = "alias-script " + bufTok
		}
		// --- Go
		handles := []types.StateElement{se}
		isCopy := []bool{false}
		out := ""
		for k, op := range script {
			cur := handles[len(handles)-1]
			switch op {
			case 'S':
				handles = append(handles, cur.Share())
				isCopy = append(isCopy, false)
			case 'C':
				handles = append(handles, cur.Copy())
				isCopy = append(isCopy, true)
			case 'M':
				var m types.StateElement
				if p, _ := fw.Recover(func() { m = cur.Move() }); p {
					out = fmt.Sprintf("panic %d", k)
				} else {
					handles = append(handles, m)
					isCopy = append(isCopy, false)
				}
			case 'W':
				if len(cur.MerkleProof) > 0 {
					before := make([]string, len(handles))
					for j := range handles {
						before[j] = c09aShow(handles[j])
					}
					cur.MerkleProof[0][0]++
					// independence oracle: the newest Copy-produced ancestor boundary separates the handles
					last := len(handles) - 1
					boundary := 0
					for j := last; j >= 0; j-- {
						if isCopy[j] {
							boundary = j
							break
						}
					}
					for j := range handles {
						changed := c09aShow(handles[j]) != before[j]
						sameGroup := j >= boundary
						if changed != sameGroup {
							res.Violate(fw.Violation{Key: "c09-copy-aliasing", What: "a write through one element handle was (not) seen through another, contrary to Share/Move = alias and Copy = independent",
								Replay:   map[string]any{"kind": "alias-script", "line": line, "op": k, "handle": j},
								Expected: fmt.Sprint(sameGroup), Observed: fmt.Sprint(changed)})
						}
					}
				}
			}
			if out != "" {
				break
			}
		}
		if out == "" {
			parts := make([]string, len(handles))
			for j := range handles {
				parts[j] = c09aShow(handles[j])
			}
			out = "ok " + strings.Join(parts, ";")
		}
		res.Eval(line, strings.Contains(script, "W"))
		if strings.HasPrefix(out, "panic") {
			res.Count("move-on-shared-panics")
		} else {
			res.Count("script-completed")
		}
		res.Count(fmt.Sprintf("proof-len:%d", max(plen, 0)))
		if i%997 == 0 {
			res.Sample(map[string]string{"op": line, "go": out})
		}
		ops = append(ops, line)
		outs = append(outs, out)
	}
	c.Compare(ops, outs)
}
