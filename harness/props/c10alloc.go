package props

// C10D, ALLOCATION family: "no allocation out of proportion to the input size".
//
// For every decoder and every slice-typed field reachable in it, inputs of 64 KiB / 1 MiB
// (8 MiB at thorough) in which the length prefix of that slice claims the most the
// length-prefix guard lets through (remaining bytes, remaining-1, 2^20, 2^32-1, 2^63),
// followed (a) by 0xFF filler — elements fail to decode, or decode only as fixed-size
// records — and (b) by zero filler — elements decode; and short inputs (24-64 bytes
// after the prefix) on a decoder whose LimitedReader allows 1 MiB / 16 MiB while the stream
// ends early (how the gateway / rhp read paths use the decoder).
//
// The bytes allocated during the call (runtime.MemStats.TotalAlloc delta, harness
// single-threaded) must satisfy `allocated <= A + B * len(bytes supplied)`.
// Constants, from the Lean theorem c10_decode_alloc_elems_bounded (slice-element slots
// <= depth * |input|, NO slack term: DecodeSlice grows its result by append, one slot per
// element actually decoded): with the 0xFF filler an element either fails (0 slots) or is a
// fixed-size record whose memory size equals its encoded size, so slots*size <= |input|;
// append's geometric growth allocates < 3x the final array; nested levels add at most
// that again: B = 8, A = 256 KiB (decoder, error values, the harness' own bookkeeping).
// With the zero filler an element of s bytes in memory can come from as little as its
// minimal encoding, so only a loose cap applies (B = 1024) and the ratio is recorded.

import (
	"bytes"
	"encoding/binary"
	"encoding/json"
	"fmt"
	"io"
	"reflect"
	"runtime"
	"sort"
	"strings"

	"go.sia.tech/core/types"
	"verif/harness/internal/fw"
)

const (
	c10AllocA     = 256 << 10
	c10AllocB     = 8
	c10AllocBZero = 1024
)

type c10Site struct {
	path  string
	bytes bool // a `[]byte` field (ReadBytes: make([]byte, n) under the guard)
	get   func(root reflect.Value) reflect.Value
}

// c10KeepOne clears v but keeps ONE (cleared) element in every slice of structs, down to
// `levels` slice levels, so that nested slice prefixes exist in the encoding.
func c10KeepOne(g *c11Gen, v reflect.Value, levels, depth int) {
	t := v.Type()
	if depth > 12 || c11Opaque(t) {
		return
	}
	switch t.Kind() {
	case reflect.Slice:
		et := t.Elem()
		if et.Kind() == reflect.Struct && !c11Opaque(et) && levels > 0 {
			s := reflect.MakeSlice(t, 1, 1)
			g.fill(s.Index(0), 2)
			c10KeepOne(g, s.Index(0), levels-1, depth+1)
			v.Set(s)
			return
		}
		v.Set(reflect.Zero(t))
	case reflect.Ptr:
		v.Set(reflect.Zero(t))
	case reflect.Interface:
		if !v.IsNil() && v.Elem().Kind() == reflect.Ptr && t != c11tError {
			c10KeepOne(g, v.Elem().Elem(), levels, depth+1)
		}
	case reflect.Struct:
		for i := 0; i < t.NumField(); i++ {
			if t.Field(i).IsExported() {
				c10KeepOne(g, v.Field(i), levels, depth+1)
			}
		}
	}
}

// c10SliceSites lists the non-byte slices reachable in v (through structs, interface
// payloads and the kept elements).
func c10SliceSites(v reflect.Value, path string, get func(reflect.Value) reflect.Value, depth int, out *[]c10Site) {
	t := v.Type()
	if depth > 12 || c11Opaque(t) {
		return
	}
	switch t.Kind() {
	case reflect.Slice:
		if t.Elem().Kind() == reflect.Uint8 {
			*out = append(*out, c10Site{path, true, get})
			return
		}
		*out = append(*out, c10Site{path, false, get})
		if v.Len() > 0 && t.Elem().Kind() == reflect.Struct {
			c10SliceSites(v.Index(0), path+"[0]", func(r reflect.Value) reflect.Value { return get(r).Index(0) }, depth+1, out)
		}
	case reflect.Interface:
		if !v.IsNil() && v.Elem().Kind() == reflect.Ptr && t != c11tError {
			c10SliceSites(v.Elem().Elem(), path, func(r reflect.Value) reflect.Value { return get(r).Elem().Elem() }, depth+1, out)
		}
	case reflect.Struct:
		for i := 0; i < t.NumField(); i++ {
			if t.Field(i).IsExported() {
				i := i
				c10SliceSites(v.Field(i), path+"."+t.Field(i).Name, func(r reflect.Value) reflect.Value { return get(r).Field(i) }, depth+1, out)
			}
		}
	}
}

// c10DecodeAlloc decodes `in` through a LimitedReader allowing `limit` bytes and returns
// the bytes allocated during the call.
func c10DecodeAlloc(ct c11Codec, in []byte, limit int64) (alloc uint64, o c11Outcome) {
	p := ct.newPtr()
	r := bytes.NewReader(in)
	d := types.NewDecoder(io.LimitedReader{R: r, N: limit})
	_, dec := ct.codec(p)
	var m0, m1 runtime.MemStats
	runtime.ReadMemStats(&m0)
	o.panicked, o.panicMsg = fw.Recover(func() { dec.DecodeFrom(d) })
	runtime.ReadMemStats(&m1)
	o.p, o.err, o.rest = p, d.Err(), r.Len()
	return m1.TotalAlloc - m0.TotalAlloc, o
}

// c10AllocCheck decodes one input and asserts the allocation bound.
func c10AllocCheck(res *fw.Result, ct c11Codec, field string, off, elemSize int, kind string, in []byte, limit int64, bcoef uint64) bool {
	alloc, o := c10DecodeAlloc(ct, in, limit)
	res.Eval(fmt.Sprintf("alloc %s %s %s %d %d", ct.lean, field, kind, len(in), limit), true)
	res.Count("alloc-family:" + kind)
	bound := uint64(c10AllocA) + bcoef*uint64(len(in))
	if r := alloc / uint64(max(1, len(in))); r >= 16 {
		res.Count("alloc-family:ratio>=16x:" + kind)
	}
	if o.panicked {
		res.Violate(fw.Violation{Key: "c10-decode-panic:" + ct.goName + ":alloc-" + field,
			What: "decoding panics: " + o.panicMsg, Replay: map[string]any{"kind": "codec", "type": ct.lean, "hex": fw.Hex(in[:min(len(in), 4096)])},
			Expected: "value or error", Observed: "panic"})
		return false
	}
	if alloc > bound {
		claim := binary.LittleEndian.Uint64(in[off:])
		res.Violate(fw.Violation{Key: "c10-decode-alloc:" + ct.goName + ":" + field,
			What: fmt.Sprintf("decoding %d supplied bytes (reader allowance %d) as %s allocates %d bytes (%.0fx the input): the length prefix of %s at offset %d claims %d elements of %d bytes each; bound %d + %d x len = %d",
				len(in), limit, ct.goName, alloc, float64(alloc)/float64(max(1, len(in))), field, off, claim, elemSize, c10AllocA, bcoef, bound),
			Replay: map[string]any{"kind": "alloc", "type": ct.lean, "field": field, "offset": off, "claim": claim, "supplied": len(in), "limit": limit,
				"filler": kind, "head": fw.Hex(in[:min(len(in), off+8+16)])},
			Expected: fmt.Sprintf("<= %d bytes", bound), Observed: fmt.Sprint(alloc)})
		return false
	}
	return true
}

// c10AllocReplay re-runs one recorded allocation input.
func c10AllocReplay(c *fw.Ctx, ts []c11Codec) bool {
	var v struct {
		Replay struct {
			Kind, Type, Field, Filler, Head string
			Offset, Supplied                int
			Limit                           int64
		}
	}
	b, err := readFile(c.Replay)
	if err != nil {
		b, err = readFile("../" + c.Replay)
	}
	if err != nil || json.Unmarshal(b, &v) != nil || v.Replay.Kind != "alloc" {
		return false
	}
	var head []byte
	fmt.Sscanf(v.Replay.Head, "%x", &head)
	in := make([]byte, v.Replay.Supplied)
	fill, bcoef := byte(0xff), uint64(c10AllocB)
	if v.Replay.Filler == "zero-filler" {
		fill, bcoef = 0, c10AllocBZero
	}
	for i := range in {
		in[i] = fill
	}
	copy(in, head)
	for _, ct := range ts {
		if ct.lean == v.Replay.Type {
			c10AllocCheck(c.Res, ct, v.Replay.Field, v.Replay.Offset, 0, v.Replay.Filler, in, v.Replay.Limit, bcoef)
		}
	}
	return true
}

func c10AllocFamily(c *fw.Ctx, g *c11Gen) {
	res := c.Res
	defer func() {
		res.Note("allocation family: a []byte field whose prefix claims up to the reader allowance makes ReadBytes allocate that much before any byte arrives (make([]byte, n), n <= d.lr.N): a 32-byte message on a 16 MiB stream decoder allocates 16 MiB; permitted by c10_decode_alloc_bounded (depth x slack term) and bounded by the RPC's max length — counted under alloc-family:bytes-short-stream:allocates-reader-allowance, not a violation")
	}()
	sizes := []int{64 << 10}
	big := 1 << 20
	ts := append([]c11Codec{}, c11Types()...)
	sort.SliceStable(ts, func(i, j int) bool {
		return strings.HasPrefix(ts[i].lean, "Types_") && !strings.HasPrefix(ts[j].lean, "Types_")
	})
	for ti, ct := range ts {
		if ct.gen != nil && ct.norm == nil {
			continue
		}
		// base value: everything empty, one cleared element kept in slices of structs
		base := ct.generate(g)
		bv := reflect.ValueOf(base).Elem()
		if len(ct.fields) > 0 {
			for i := 0; i < bv.NumField(); i++ {
				keep := false
				for _, f := range ct.fields {
					if bv.Type().Field(i).Name == f {
						keep = true
					}
				}
				if keep {
					c10KeepOne(g, bv.Field(i), 2, 1)
				}
			}
		} else {
			c10KeepOne(g, bv, 2, 0)
		}
		c11NormaliseDeep(g, bv, 0)
		if ct.norm != nil {
			ct.norm(base)
		}
		enc0, pm := c11Encode(ct, base)
		if pm != "" {
			continue
		}
		var sites []c10Site
		if len(ct.fields) > 0 {
			for _, f := range ct.fields {
				f := f
				c10SliceSites(bv.FieldByName(f), "."+f, func(r reflect.Value) reflect.Value { return r.FieldByName(f) }, 1, &sites)
			}
		} else {
			c10SliceSites(bv, "", func(r reflect.Value) reflect.Value { return r }, 0, &sites)
		}
		failed := false
		for si, site := range sites {
			if failed {
				break
			}
			// offset of the slice's length prefix: where the encoding changes when one element is added
			variant := ct.newPtr()
			vv := reflect.ValueOf(variant).Elem()
			c11DeepCopy(vv, bv)
			sl := site.get(vv)
			el := reflect.New(sl.Type().Elem()).Elem()
			g.fill(el, 2)
			sl.Set(reflect.Append(sl, el))
			c11NormaliseDeep(g, vv, 0)
			enc1, pm := c11Encode(ct, variant)
			if pm != "" {
				continue
			}
			off := 0
			for off < len(enc0) && off < len(enc1) && enc0[off] == enc1[off] {
				off++
			}
			if off+8 > len(enc0) && off+8 > len(enc1) || off > 8192 {
				continue
			}
			elemSize := int(sl.Type().Elem().Size())
			field := strings.TrimPrefix(site.path, ".")
			check := func(kind string, in []byte, limit int64, bcoef uint64) bool {
				return c10AllocCheck(res, ct, field, off, elemSize, kind, in, limit, bcoef)
			}
			build := func(total int, claim uint64, fill byte) []byte {
				in := make([]byte, total)
				copy(in, enc0[:off])
				binary.LittleEndian.PutUint64(in[off:], claim)
				for i := off + 8; i < total; i++ {
					in[i] = fill
				}
				return in
			}
			szs := sizes
			if (si+ti+int(c.Seed))%4 == 0 || ct.lean == "Types_V1Block" || c.Thorough() {
				szs = append(append([]int{}, sizes...), big)
			}
			if c.Thorough() && (si+ti)%8 == 0 {
				szs = append(szs, 8<<20)
			}
			for _, total := range szs {
				if failed || total < off+16 {
					continue
				}
				rem := uint64(total - off - 8)
				for _, claim := range []uint64{rem, rem - 1, 1 << 20, 1<<32 - 1, 1 << 63} {
					if failed {
						break
					}
					if !check("0xff-filler", build(total, claim, 0xff), int64(total), c10AllocB) {
						failed = true
					} else if claim == rem && !check("zero-filler", build(total, claim, 0), int64(total), c10AllocBZero) {
						failed = true
					}
				}
			}
			// a short stream under a large reader allowance
			for _, limit := range []int64{1 << 20, 16 << 20} {
				for _, extra := range []int{24, 64} {
					if failed {
						break
					}
					for _, claim := range []uint64{1 << 20, uint64(limit) - uint64(off) - 8} {
						if claim > 1<<20 && limit > 1<<20 {
							continue // keep a regressed decoder from allocating gigabytes
						}
						if site.bytes {
							// ReadBytes allocates the claimed count at once: the theorem's slack term
							// (c10_decode_alloc_bounded: depth*slack) applies, not the element bound
							in := build(off+8+extra, claim, 0xff)
							alloc, _ := c10DecodeAlloc(ct, in, limit)
							res.Eval(fmt.Sprintf("alloc %s %s bytes-short-stream %d %d", ct.lean, field, len(in), limit), true)
							res.Count("alloc-family:bytes-short-stream")
							if alloc > c10AllocA+c10AllocB*uint64(len(in)) {
								res.Count("alloc-family:bytes-short-stream:allocates-reader-allowance")
							}
							if alloc > c10AllocA+c10AllocB*uint64(len(in))+2*uint64(limit) {
								check("short-stream", in, limit, c10AllocB+2*uint64(limit)/uint64(len(in))+1)
								failed = true
							}
							continue
						}
						if !failed && !check("short-stream", build(off+8+extra, claim, 0xff), limit, c10AllocB) {
							failed = true
						}
					}
				}
			}
		}
	}
}
