package props

// C05E — C05/C04 end to end through the real consensus API.
//
// Chains are grown and reorganised by the shared simulator (harness/internal/chain):
// real ApplyBlock / RevertBlock on real States with every element kind (siacoin,
// siafund, v1 and v2 contracts, attestations, chain indices). The simulator's store
// keeps element proofs up to date ONLY through ApplyUpdate/RevertUpdate.
// UpdateElementProof. After every apply and every revert:
//
//   * every stored element verifies against State.Elements (independent membership
//     check of the simulator) and its proof EQUALS the path of the naive forest;
//   * State.Elements (NumLeaves, Trees) equals the naive forest (c05_acc.go) rebuilt
//     from ALL leaves ever added on the current branch — the leaf hashes are computed
//     here from the update's diffs (element hash by kind, leaf index, spent/resolved
//     flag; attestations through the update's JSON form) and cross-checked against the
//     leaves ForEachTreeNode reports;
//   * every interior node ForEachTreeNode reports is the naive forest's node;
//   * spent / resolved elements no longer verify as unspent with their last proof;
//   * the Lean specification (acc-forest) agrees on roots and paths (small states).

import (
	"encoding/json"
	"fmt"
	"math/rand"
	"sort"

	"go.sia.tech/core/consensus"
	"go.sia.tech/core/types"
	"verif/harness/internal/chain"
	"verif/harness/internal/fw"
)

func init() { fw.Register("C05E", runC05E) }

func runC05E(c *fw.Ctx) {
	c.Res.Rule = "random reorg histories of real blocks (chain simulator, modes v1/mixed/v2/legacy): after every ApplyBlock and RevertBlock the state accumulator is compared with the naive Merkle forest over all leaves ever added on the branch (leaf hashes recomputed from the diffs, all six element kinds), every stored element proof (maintained only by UpdateElementProof) with the naive path and with an independent membership check, and ForEachTreeNode with the forest's nodes. A case is one applied or reverted block; non-trivial when it touches at least two leaves."
	c05E2E(c)
}

// c05eLeaf is one accumulator leaf as this harness derives it from a diff.
type c05eLeaf struct {
	idx  uint64
	hash accHash
	kind string
}

func c05eAttHash(e types.AttestationElement) types.Hash256 {
	h := types.NewHasher()
	h.WriteDistinguisher("leaf/attestation")
	e.ID.EncodeTo(h.E)
	e.Attestation.EncodeTo(h.E)
	return h.Sum()
}

// c05eAttestations reads the attestation elements of an update from its JSON form (they
// have no accessor).
func c05eAttestations(u any) []types.AttestationElement {
	b, err := json.Marshal(u)
	if err != nil {
		return nil
	}
	var v struct {
		AttestationElements []types.AttestationElement `json:"attestationElements"`
	}
	if json.Unmarshal(b, &v) != nil {
		return nil
	}
	return v.AttestationElements
}

// c05eApplyLeaves: the leaves a block writes (rewritten and added), from the diffs.
func c05eApplyLeaves(au consensus.ApplyUpdate) []c05eLeaf {
	var out []c05eLeaf
	add := func(kind string, eh types.Hash256, se types.StateElement, spent bool) {
		out = append(out, c05eLeaf{se.LeafIndex, accNfLeafHash(accHash(eh), se.LeafIndex, spent), kind})
	}
	for _, d := range au.SiacoinElementDiffs() {
		add("siacoin", chain.SCElemHash(d.SiacoinElement), d.SiacoinElement.StateElement, d.Spent)
	}
	for _, d := range au.SiafundElementDiffs() {
		add("siafund", chain.SFElemHash(d.SiafundElement), d.SiafundElement.StateElement, d.Spent)
	}
	for _, d := range au.FileContractElementDiffs() {
		e := d.FileContractElement
		if d.Revision != nil {
			e.FileContract = *d.Revision
		}
		add("filecontract", chain.FCElemHash(e), d.FileContractElement.StateElement, d.Resolved)
	}
	for _, d := range au.V2FileContractElementDiffs() {
		e := d.V2FileContractElement
		if d.Revision != nil {
			e.V2FileContract = *d.Revision
		}
		add("v2filecontract", chain.V2FCElemHash(e), d.V2FileContractElement.StateElement, d.Resolution != nil)
	}
	for _, e := range c05eAttestations(au) {
		add("attestation", c05eAttHash(e), e.StateElement, false)
	}
	cie := au.ChainIndexElement()
	add("chainindex", chain.CIElemHash(cie), cie.StateElement, false)
	sort.SliceStable(out, func(i, j int) bool { return out[i].idx < out[j].idx })
	return out
}

type c05eUndo struct {
	n   int
	old map[uint64]accHash
}

type c05eTracker struct {
	leaves []accHash
	undo   []c05eUndo
	ops    []string // model ops collected along the way
	outs   []string
}

// c05eDiffOrderLeaves: the elements of an update in the order ForEachTreeNode walks them,
// in the wire form of the acc-nodes op (index:spent:elementHash:proof).
func c05eDiffOrderLeaves(au consensus.ApplyUpdate) []string {
	var out []string
	add := func(eh types.Hash256, se types.StateElement, spent bool) {
		out = append(out, accWLeaf(se.LeafIndex, accLeaf{Elem: accHash(eh), Spent: spent}, castProof(se.MerkleProof)))
	}
	for _, d := range au.SiacoinElementDiffs() {
		add(chain.SCElemHash(d.SiacoinElement), d.SiacoinElement.StateElement, d.Spent)
	}
	for _, d := range au.SiafundElementDiffs() {
		add(chain.SFElemHash(d.SiafundElement), d.SiafundElement.StateElement, d.Spent)
	}
	for _, d := range au.FileContractElementDiffs() {
		e := d.FileContractElement
		if d.Revision != nil {
			e.FileContract = *d.Revision
		}
		add(chain.FCElemHash(e), d.FileContractElement.StateElement, d.Resolved)
	}
	for _, d := range au.V2FileContractElementDiffs() {
		e := d.V2FileContractElement
		if d.Revision != nil {
			e.V2FileContract = *d.Revision
		}
		add(chain.V2FCElemHash(e), d.V2FileContractElement.StateElement, d.Resolution != nil)
	}
	for _, e := range c05eAttestations(au) {
		add(c05eAttHash(e), e.StateElement, false)
	}
	cie := au.ChainIndexElement()
	add(chain.CIElemHash(cie), cie.StateElement, false)
	return out
}

func c05E2E(c *fw.Ctx) {
	res := c.Res
	sims := c.Budget(12, 60)
	steps := c.Budget(60, 160)
	modes := []string{"mixed", "v2", "legacy", "v1"}
	var ops, outs []string
	for si := 0; si < sims; si++ {
		mode := modes[si%len(modes)]
		seed := c.Seed*7919 + int64(si)
		s := chain.NewSim(rand.New(rand.NewSource(seed)), mode)
		s.MaxTxns = []int{6, 12, 20}[si%3]
		tr := &c05eTracker{}
		// genesis: the store already holds the genesis elements; rebuild the genesis leaves
		// from the simulator's first update by replaying it
		{
			gs := s.Net.GenesisState()
			bs := consensus.V1BlockSupplement{Transactions: make([]consensus.V1TransactionSupplement, len(s.Genesis.Transactions))}
			_, au := consensus.ApplyBlock(gs, s.Genesis, bs, s.Genesis.Timestamp)
			if !c05eApplied(c, tr, s, au, "genesis", map[string]any{"kind": "e2e", "mode": mode, "simseed": seed, "step": -1}) {
				continue
			}
		}
		spentGhosts := 0
		for step := 0; step < steps; step++ {
			replay := map[string]any{"kind": "e2e", "mode": mode, "simseed": seed, "maxtxns": s.MaxTxns, "step": step}
			if len(s.Blocks) > 2 && c.Rng.Intn(4) == 0 {
				depth := 1 + c.Rng.Intn(min(len(s.Blocks)-1, 6))
				res.Count("e2e:revert-depth=" + c05Bucket(depth))
				ok := true
				for d := 0; d < depth && ok; d++ {
					ru := s.RevertTip()
					ok = c05eReverted(c, tr, s, ru, replay)
				}
				if !ok {
					break
				}
				continue
			}
			// remember a few elements the next block will spend, to ask about them afterwards
			before := s.St.Clone()
			p := s.BuildBlock()
			junk := false
			if c.Rng.Intn(2) == 0 {
				junk = c05eInjectJunk(c, s, &p)
			}
			au, err := s.Apply(p.Block, p.Supp)
			if err != nil {
				if junk {
					// ValidateBlock accepted it a moment ago: accept/apply disagree
					res.Violate(fw.Violation{Key: "c05e-junk-block-rejected", What: "a block ValidateBlock accepts (junk in the never-verified proof of an ephemeral parent) is rejected by Apply: " + err.Error(), Replay: replay})
				} else {
					res.Note("simulator produced a block core rejects (C05E sim %d step %d): %v", si, step, err)
				}
				break
			}
			stage := "apply"
			if junk {
				stage = "apply-junk-ephemeral-proof"
			}
			if !c05eAppliedJ(c, tr, s, au, stage, junk, replay) {
				break
			}
			// C04 on the real thing: an element spent by the block no longer verifies as
			// unspent, neither with its old proof nor with that proof brought up to date
			for _, d := range au.SiacoinElementDiffs() {
				if d.Spent && !d.Created {
					if old, ok := before.SC[d.SiacoinElement.ID]; ok {
						spentGhosts++
						res.Count("e2e:spent-element-queries")
						upd := old.Copy()
						au.UpdateElementProof(&upd.StateElement)
						if chain.Member(s.Tip.Elements, chain.SCElemHash(old), old.StateElement, false) ||
							chain.Member(s.Tip.Elements, chain.SCElemHash(upd), upd.StateElement, false) {
							res.Violate(fw.Violation{Key: "c04e-accepts-spent", What: "a siacoin element spent by the applied block still verifies as unspent", Replay: replay})
						}
						if !chain.Member(s.Tip.Elements, chain.SCElemHash(upd), upd.StateElement, true) {
							res.Violate(fw.Violation{Key: "c05e-spent-proof-stale", What: "the updated proof of a spent siacoin element does not verify with the spent flag", Replay: replay})
						}
					}
				}
			}
			// model: the Lean specification on the same leaves (small states)
			if c.Model != nil && len(tr.leaves) <= 160 && c.Rng.Intn(3) == 0 {
				trees := accNfForest(tr.leaves)
				var ps []string
				for j := range tr.leaves {
					ps = append(ps, accWHashes(accNfPath(trees, j)))
				}
				ops = append(ops, "acc-forest "+accWHashes(tr.leaves))
				outs = append(outs, fmt.Sprintf("%d %s %s", s.Tip.Elements.NumLeaves, accWHashes(accRoots(&s.Tip.Elements)), accWList(ps)))
			}
		}
		_ = spentGhosts
		for k, v := range s.Counts {
			res.CountN("e2e-sim:"+k, v)
		}
		ops, outs = append(ops, tr.ops...), append(outs, tr.outs...)
	}
	c.Compare(ops, outs)
	d := res.Distribution
	if d["e2e-junk:blocks(valid)"] > 0 {
		res.Note("OBSERVATION (outside the statement of C05, not flagged): %d ValidateBlock-valid blocks carried junk hashes in the MerkleProof of an ephemeral parent (LeafIndex unassigned; validation never reads that proof; spendSiacoinElement copies it into the diff; addLeaves appends the real siblings after it). Roots, leaf count and UpdateElementProof of every other element were unaffected (checked against the naive forest, 0 deviations). Affected: (1) the proof carried by the created-and-spent diff element itself: %d of %d such proofs are not the naive path (all of them on elements spent in the same block, which no client keeps); (2) ApplyUpdate.ForEachTreeNode: %d of the reported nodes have a wrong hash or position and %d nodes on the paths of written leaves are not reported correctly (a wrongly 'seen' coordinate also cuts the walk of later leaves short), in %d of the %d blocks - a client that maintains a node store from this stream is corrupted by a valid block. The statement speaks of roots, leaf count and updated proofs of elements held with a valid proof, not of the node stream nor of the proof of an element that is created and spent within one block; the Lean theorems c05_foreachtreenode_sound/_complete have the violated hypothesis (handed-in proofs are naive paths; added leaves come with EMPTY proofs) explicit.",
			d["e2e-junk:blocks(valid)"], d["e2e-junk:created-diff-proofs-wrong"], d["e2e-junk:ephemeral-parents-with-junk-proof"],
			d["e2e-junk:tree-nodes-wrong(hash or position)"], d["e2e-junk:path-nodes-not-reported-correctly"],
			d["e2e-junk:blocks-with-corrupt-node-stream"], d["e2e-junk:blocks(valid)"])
	}
	if n := d["e2e-junk:blocks-rejected-by-ValidateBlock(observation closed)"]; n > 0 {
		res.Note("%d blocks with junk in the proof of an ephemeral parent were rejected by ValidateBlock (this library refuses them; not a violation of C05)", n)
	}
}

// c05eCheck compares the current state with the naive forest.
func c05eCheck(c *fw.Ctx, tr *c05eTracker, s *chain.Sim, stage string, replay any) bool {
	res := c.Res
	ok := true
	acc := s.Tip.Elements
	if acc.NumLeaves != uint64(len(tr.leaves)) {
		res.Violate(fw.Violation{Key: "c05e-numleaves-mismatch:" + stage, What: "State.Elements.NumLeaves differs from the number of leaves ever added on this branch", Replay: replay,
			Expected: fmt.Sprint(len(tr.leaves)), Observed: fmt.Sprint(acc.NumLeaves)})
		return false
	}
	trees := accNfForest(tr.leaves)
	if got, want := accWHashes(accRoots(&acc)), accWHashes(accNfRoots(trees)); got != want {
		res.Violate(fw.Violation{Key: "c05e-root-mismatch:" + stage, What: "State.Elements roots differ from the naive Merkle forest over all leaves ever added", Replay: replay, Expected: want, Observed: got})
		ok = false
	}
	if bad := s.St.VerifyAgainst(s.Tip); bad != "" {
		res.Violate(fw.Violation{Key: "c05e-store-proof-invalid:" + stage, What: "an element whose proof was maintained only by UpdateElementProof does not verify against State.Elements: " + bad, Replay: replay})
		ok = false
	}
	checkSE := func(kind string, se types.StateElement) {
		res.Count("e2e:tracked-proofs-checked")
		if se.LeafIndex >= uint64(len(tr.leaves)) {
			res.Violate(fw.Violation{Key: "c05e-proof-stale:" + stage, What: "stored " + kind + " element has a leaf index beyond the accumulator", Replay: replay})
			ok = false
			return
		}
		if want := accNfPath(trees, int(se.LeafIndex)); !accEqProof(castProof(se.MerkleProof), want) {
			res.Violate(fw.Violation{Key: "c05e-proof-stale:" + stage, What: fmt.Sprintf("proof of a stored %s element (leaf %d) is not the path of the naive forest after %s", kind, se.LeafIndex, stage), Replay: replay,
				Expected: accWHashes(want), Observed: accWHashes(castProof(se.MerkleProof))})
			ok = false
		}
	}
	for _, e := range s.St.SortedSC() {
		checkSE("siacoin", e.StateElement)
	}
	for _, e := range s.St.SortedSF() {
		checkSE("siafund", e.StateElement)
	}
	for _, e := range s.St.SortedFC() {
		checkSE("filecontract", e.StateElement)
	}
	for _, e := range s.St.SortedV2FC() {
		checkSE("v2filecontract", e.StateElement)
	}
	for _, e := range s.St.CIE {
		checkSE("chainindex", e.StateElement)
	}
	return ok
}

func castProof(p []types.Hash256) []accHash { return p }

// c05eTreeNodes checks what ForEachTreeNode reports against the naive forest and
// returns the reported leaves (row 0).
func c05eTreeNodes(c *fw.Ctx, tr *c05eTracker, each func(fn func(row, col uint64, h types.Hash256)), stage string, replay any) map[uint64]accHash {
	res := c.Res
	trees := accNfForest(tr.leaves)
	rows := map[uint64]accHash{}
	each(func(row, col uint64, h types.Hash256) {
		res.Count("e2e:tree-nodes-checked")
		if row == 0 {
			rows[col] = h
		}
		// locate the node in the naive forest
		start := col << row
		for _, t := range trees {
			if int(start) >= t.start && int(start) < t.start+1<<uint(t.height) {
				if int(row) > t.height {
					res.Violate(fw.Violation{Key: "c05e-treenode-mismatch:" + stage, What: "ForEachTreeNode reports a node above its tree", Replay: replay})
					return
				}
				want := t.levels[row][(int(start)-t.start)>>row]
				if want != h {
					res.Violate(fw.Violation{Key: "c05e-treenode-mismatch:" + stage, What: fmt.Sprintf("ForEachTreeNode node (row %d, col %d) differs from the naive forest", row, col), Replay: replay,
						Expected: accWHash(want), Observed: accWHash(h)})
				}
				return
			}
		}
		res.Violate(fw.Violation{Key: "c05e-treenode-mismatch:" + stage, What: fmt.Sprintf("ForEachTreeNode node (row %d, col %d) is outside the forest", row, col), Replay: replay})
	})
	return rows
}

func c05eApplied(c *fw.Ctx, tr *c05eTracker, s *chain.Sim, au consensus.ApplyUpdate, stage string, replay any) bool {
	return c05eAppliedJ(c, tr, s, au, stage, false, replay)
}

// c05eInjectJunk: the directed case. If the block spends an ephemeral parent (an output
// created earlier in the same block, LeafIndex == UnassignedLeafIndex), junk hashes are
// put into that parent's MerkleProof — which validation never looks at — and the block is
// re-sealed (commitment, nonce). It must still validate.
func c05eInjectJunk(c *fw.Ctx, s *chain.Sim, p *chain.BlockPlan) bool {
	if p.Block.V2 == nil {
		return false
	}
	nb := chain.DeepCopyBlock(p.Block)
	done := 0
	for ti := range nb.V2.Transactions {
		for ii := range nb.V2.Transactions[ti].SiacoinInputs {
			se := &nb.V2.Transactions[ti].SiacoinInputs[ii].Parent.StateElement
			if se.LeafIndex == types.UnassignedLeafIndex {
				for k := 0; k < 1+c.Rng.Intn(3); k++ {
					var h types.Hash256
					c.Rng.Read(h[:])
					se.MerkleProof = append(se.MerkleProof, h)
				}
				done++
			}
		}
	}
	if done == 0 {
		return false
	}
	s.Seal(&nb, p.Miner)
	if err := consensus.ValidateBlock(s.Tip, nb, p.Supp); err != nil {
		// not a violation of C05: a library that refuses such blocks closes the observation
		c.Res.Count("e2e-junk:blocks-rejected-by-ValidateBlock(observation closed)")
		return false
	}
	p.Block = nb
	c.Res.CountN("e2e-junk:ephemeral-parents-with-junk-proof", done)
	c.Res.Count("e2e-junk:blocks(valid)")
	return true
}

// c05eCreatedProofs: the proof every created element carries in the diffs (what a client
// stores for a new element) against the naive path. Returns the number of wrong ones.
func c05eCreatedProofs(tr *c05eTracker, au consensus.ApplyUpdate) (checked, wrong, wrongSpent int) {
	trees := accNfForest(tr.leaves)
	chk := func(se types.StateElement, created, spent bool) {
		if !created || se.LeafIndex >= uint64(len(tr.leaves)) {
			return
		}
		checked++
		if !accEqProof(castProof(se.MerkleProof), accNfPath(trees, int(se.LeafIndex))) {
			wrong++
			if spent {
				wrongSpent++
			}
		}
	}
	for _, d := range au.SiacoinElementDiffs() {
		chk(d.SiacoinElement.StateElement, d.Created, d.Spent)
	}
	for _, d := range au.SiafundElementDiffs() {
		chk(d.SiafundElement.StateElement, d.Created, d.Spent)
	}
	for _, d := range au.FileContractElementDiffs() {
		chk(d.FileContractElement.StateElement, d.Created, d.Resolved)
	}
	for _, d := range au.V2FileContractElementDiffs() {
		chk(d.V2FileContractElement.StateElement, d.Created, d.Resolution != nil)
	}
	for _, e := range c05eAttestations(au) {
		chk(e.StateElement, true, false)
	}
	chk(au.ChainIndexElement().StateElement, true, false)
	return
}

func c05eAppliedJ(c *fw.Ctx, tr *c05eTracker, s *chain.Sim, au consensus.ApplyUpdate, stage string, junk bool, replay any) bool {
	res := c.Res
	ls := c05eApplyLeaves(au)
	u := c05eUndo{n: len(tr.leaves), old: map[uint64]accHash{}}
	kinds := map[string]int{}
	for _, l := range ls {
		kinds[l.kind]++
		switch {
		case l.idx < uint64(len(tr.leaves)):
			if _, dup := u.old[l.idx]; !dup && l.idx < uint64(u.n) {
				u.old[l.idx] = tr.leaves[l.idx]
			}
			tr.leaves[l.idx] = l.hash
		case l.idx == uint64(len(tr.leaves)):
			tr.leaves = append(tr.leaves, l.hash)
		default:
			res.Violate(fw.Violation{Key: "c05e-leaf-index-gap", What: fmt.Sprintf("a %s element of the update has leaf index %d but only %d leaves exist", l.kind, l.idx, len(tr.leaves)), Replay: replay})
			return false
		}
	}
	tr.undo = append(tr.undo, u)
	for k, v := range kinds {
		res.CountN("e2e:leaves-written:"+k, v)
	}
	res.Eval(fmt.Sprintf("e2e %v %s %d", replay, stage, len(tr.leaves)), len(ls) >= 2)
	res.Count("e2e:step=" + stage)
	res.Count("e2e:leaves=" + c05Bucket(len(tr.leaves)))
	ok := c05eCheck(c, tr, s, stage, replay)
	// the proofs the diffs hand out for created elements
	if n, wrong, wrongSpent := c05eCreatedProofs(tr, au); junk {
		res.CountN("e2e-junk:created-diff-proofs-checked", n)
		res.CountN("e2e-junk:created-diff-proofs-wrong", wrong)
		if wrong != wrongSpent {
			// a wrong proof on an element that is NOT spent in the same block would be a live element a client cannot use
			res.Violate(fw.Violation{Key: "c05e-diff-proof-stale:junk-unspent", What: "junk in an ephemeral parent's proof corrupted the diff proof of an element that stays unspent", Replay: replay})
			ok = false
		}
	} else {
		res.CountN("e2e:created-diff-proofs-checked", n)
		if wrong > 0 {
			res.Violate(fw.Violation{Key: "c05e-diff-proof-stale", What: fmt.Sprintf("%d created element(s) carry in the diff a proof that is not the path of the naive forest", wrong), Replay: replay})
			ok = false
		}
	}
	// ForEachTreeNode: nodes equal the forest's; its leaves are exactly the ones derived from the diffs
	var rows map[uint64]accHash
	if junk {
		rows = c05eTreeNodesJunk(c, tr, au, ls)
	} else {
		rows = c05eTreeNodes(c, tr, au.ForEachTreeNode, stage, replay)
		// completeness: every node on the path (leaf up to its root) of every written leaf is reported
		reported := map[[2]uint64]bool{}
		au.ForEachTreeNode(func(row, col uint64, _ types.Hash256) { reported[[2]uint64{row, col}] = true })
		trees := accNfForest(tr.leaves)
		for _, l := range ls {
			for _, t := range trees {
				if int(l.idx) >= t.start && int(l.idx) < t.start+1<<uint(t.height) {
					for row := 0; row <= t.height; row++ {
						if !reported[[2]uint64{uint64(row), l.idx >> uint(row)}] {
							res.Violate(fw.Violation{Key: "c05e-treenode-missing", What: fmt.Sprintf("ForEachTreeNode does not report node (row %d, col %d) on the path of written leaf %d", row, l.idx>>uint(row), l.idx), Replay: replay})
							ok = false
						}
					}
				}
			}
		}
	}
	// the Lean model of ForEachTreeNode on the same elements, node for node in call order
	// (junk blocks included: the model is a transliteration, it reproduces the corruption)
	if c.Model != nil && len(tr.leaves) <= 200 && (junk || c.Rng.Intn(3) == 0) {
		var stream []string
		au.ForEachTreeNode(func(row, col uint64, h types.Hash256) {
			stream = append(stream, fmt.Sprintf("%d:%d:%s", row, col, accWHash(h)))
		})
		tr.ops = append(tr.ops, "acc-nodes "+accWList(c05eDiffOrderLeaves(au)))
		tr.outs = append(tr.outs, accWList(stream))
	}
	want := map[uint64]accHash{}
	for _, l := range ls {
		want[l.idx] = l.hash
	}
	if len(rows) != len(want) {
		res.Violate(fw.Violation{Key: "c05e-leaf-hash-mismatch", What: fmt.Sprintf("ForEachTreeNode reports %d leaves, the diffs describe %d", len(rows), len(want)), Replay: replay})
		ok = false
	}
	for i, h := range want {
		if rows[i] != h {
			res.Violate(fw.Violation{Key: "c05e-leaf-hash-mismatch", What: fmt.Sprintf("leaf %d: the hash recomputed from the diff (element hash by kind, index, spent flag) differs from the leaf the accumulator used", i), Replay: replay,
				Expected: accWHash(h), Observed: accWHash(rows[i])})
			ok = false
		}
	}
	return ok
}

func c05eReverted(c *fw.Ctx, tr *c05eTracker, s *chain.Sim, ru consensus.RevertUpdate, replay any) bool {
	res := c.Res
	if len(tr.undo) == 0 {
		return false
	}
	u := tr.undo[len(tr.undo)-1]
	tr.undo = tr.undo[:len(tr.undo)-1]
	tr.leaves = tr.leaves[:u.n]
	for i, h := range u.old {
		tr.leaves[i] = h
	}
	res.Eval(fmt.Sprintf("e2e %v revert %d", replay, len(tr.leaves)), true)
	res.Count("e2e:step=revert")
	ok := c05eCheck(c, tr, s, "revert", replay)
	// the restored leaves reported by the revert update are the pre-block leaves
	rows := c05eTreeNodes(c, tr, ru.ForEachTreeNode, "revert", replay)
	for i, h := range rows {
		if int(i) < len(tr.leaves) && tr.leaves[i] != h {
			res.Violate(fw.Violation{Key: "c05e-restored-leaf-mismatch", What: fmt.Sprintf("RevertUpdate reports leaf %d with a hash that is not the leaf before the block", i), Replay: replay,
				Expected: accWHash(tr.leaves[i]), Observed: accWHash(h)})
			ok = false
		}
	}
	return ok
}

// c05eTreeNodesJunk: the node stream of a block with junk in an ephemeral parent's proof,
// classified instead of flagged (see the evidence notes): how many reported nodes are wrong
// (hash differs from the naive forest, or coordinates outside it) and how many nodes on
// the paths of written leaves are not reported correctly at all.
func c05eTreeNodesJunk(c *fw.Ctx, tr *c05eTracker, au consensus.ApplyUpdate, ls []c05eLeaf) map[uint64]accHash {
	res := c.Res
	trees := accNfForest(tr.leaves)
	find := func(row, col uint64) (accHash, bool) {
		start := col << row
		for _, t := range trees {
			if int(start) >= t.start && int(start) < t.start+1<<uint(t.height) && int(row) <= t.height {
				return t.levels[row][(int(start)-t.start)>>row], true
			}
		}
		return accHash{}, false
	}
	rows := map[uint64]accHash{}
	good := map[[2]uint64]bool{}
	wrong := 0
	au.ForEachTreeNode(func(row, col uint64, h types.Hash256) {
		res.Count("e2e-junk:tree-nodes-reported")
		if row == 0 {
			rows[col] = h
		}
		if want, ok := find(row, col); ok && want == h {
			good[[2]uint64{row, col}] = true
		} else {
			wrong++
		}
	})
	missing := 0
	for _, l := range ls {
		for _, t := range trees {
			if int(l.idx) >= t.start && int(l.idx) < t.start+1<<uint(t.height) {
				for row := 0; row <= t.height; row++ {
					if !good[[2]uint64{uint64(row), l.idx >> uint(row)}] {
						missing++
					}
				}
			}
		}
	}
	res.CountN("e2e-junk:tree-nodes-wrong(hash or position)", wrong)
	res.CountN("e2e-junk:path-nodes-not-reported-correctly", missing)
	if wrong > 0 || missing > 0 {
		res.Count("e2e-junk:blocks-with-corrupt-node-stream")
	}
	return rows
}
