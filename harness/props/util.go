package props

import "os"

func readFile(p string) ([]byte, error) { return os.ReadFile(p) }
