package props

// C10 (decode half), registered as "C10D" — decoding untrusted bytes is total:
// every DecodeFrom / decodeFrom / decodeRequest / decodeResponse of types,
// consensus, gateway, rhp/v2, rhp/v3, rhp/v4 is fed a malformed stream (random
// bytes, length-prefix inflation at every offset, bit flips, valid prefix +
// garbage, truncation + garbage) under recover: it must return a value or an
// error — no panic, no long loop, no allocation out of proportion to the input.
// For types with a Lean schema the outcome (ok + re-encoding / err / panic) is
// compared with the model.

import (
	"encoding/binary"
	"fmt"
	"time"

	"verif/harness/internal/fw"
)

func init() { fw.Register("C10D", runC10D) }

func runC10D(c *fw.Ctx) {
	res := c.Res
	res.Rule = "malformed byte streams into every decoder of types, consensus, gateway, rhp/v2, rhp/v3, rhp/v4 (one entry per type with an encoder/decoder pair): random bytes of length 0..300; a valid encoding with 8 bytes at EVERY offset (up to 320) overwritten by 2^60, 2^63, 2^64-1, len+1, 2^40, 2^32 (length-prefix inflation); random bit flips; valid encoding + garbage; truncation + garbage. Each decode runs under recover with a wall-clock check; outcome must be value-or-error. A case is non-trivial when the input is non-empty; distinct by (type, bytes). Plus a structure-aware family for the multiproof block form (real simulator blocks re-encoded with one wrong proof length / leaf index / numLeaves / hash count / outline kinds vector at a time) into every decoder that carries it. Plus the ALLOCATION family: for every decoder and every slice-typed field reachable in it (reflection walk; one kept element per slice of structs, two levels), inputs of 64 KiB / 1 MiB (8 MiB thorough) whose length prefix for that slice claims remaining, remaining-1, 2^20, 2^32-1, 2^63 elements followed by 0xFF filler and by zero filler, and 24/64-byte tails on a decoder whose LimitedReader allows 1 MiB / 16 MiB; bytes allocated per call (runtime.MemStats.TotalAlloc delta) must be <= 256 KiB + 8 x supplied bytes (c10_decode_elems_bounded: element slots <= depth x input under append growth, no slack term; 1024 x for the zero filler where small encodings legitimately expand; []byte fields on a short stream are held to the bound with the slack term of c10_decode_alloc_bounded, since ReadBytes allocates the accepted count at once). For types with a generated schema a sample is decoded by the Lean model too (ok+re-encoding / err / panic must agree)."
	ts := c11Types()
	if c.Replay != "" {
		if c10AllocReplay(c, ts) {
			return
		}
		c11Replay(c, ts)
		return
	}
	known := c11Known(c, ts)
	g := &c11Gen{rng: c.Rng}
	model := &c11Model{}
	nVals := c.Budget(3, 40)
	nRand := c.Budget(60, 3000)
	for _, ct := range ts {
		modelled := known[ct.lean]
		sampleEvery := 1
		cases := 0
		panicked := false
		try := func(kind string, in []byte) {
			if panicked {
				// this decoder already panicked on untrusted input (violation recorded): do
				// not feed it further lengths, a decoder that allocates from the wire could
				// take the harness down with a fatal out-of-memory error
				res.Count("skipped:decoder-already-panicked")
				return
			}
			o := c11Decode(ct, in)
			res.Eval(ct.lean+" "+fw.Hex(in), len(in) > 0)
			res.Count("input:" + kind)
			cases++
			switch {
			case o.panicked:
				panicked = true
				res.Count("outcome:panic")
				res.Violate(fw.Violation{Key: "c10-decode-panic:" + ct.goName,
					What:     fmt.Sprintf("decoding %d untrusted bytes as %s panics: %s", len(in), ct.goName, o.panicMsg),
					Replay:   map[string]any{"kind": "codec", "type": ct.lean, "hex": fw.Hex(in)},
					Expected: "a value or an error", Observed: "panic: " + o.panicMsg})
			case o.err != nil:
				res.Count("outcome:error")
			default:
				res.Count("outcome:value")
			}
			if o.elapsed > 2*time.Second {
				res.Violate(fw.Violation{Key: "c10-decode-slow:" + ct.goName,
					What:     fmt.Sprintf("decoding %d untrusted bytes as %s took %v", len(in), ct.goName, o.elapsed),
					Replay:   map[string]any{"kind": "codec", "type": ct.lean, "hex": fw.Hex(in)},
					Expected: "time proportional to the input", Observed: o.elapsed.String()})
			}
			if modelled && len(in) <= 4096 && cases%sampleEvery == 0 {
				model.add("codec "+ct.lean+" "+c11Hex(in), c11GoLine(ct, o))
			}
		}
		// random bytes
		for i := 0; i < nRand; i++ {
			n := g.rng.Intn(300)
			if g.coin(4) {
				n = g.rng.Intn(24)
			}
			b := make([]byte, n)
			g.rng.Read(b)
			if g.coin(3) && n >= 8 { // plausible small first prefix
				binary.LittleEndian.PutUint64(b, uint64(g.rng.Intn(20)))
			}
			try("random", b)
		}
		sampleEvery = 7 // the systematic sweeps are large: model a sample
		for v := 0; v < nVals; v++ {
			p := ct.generate(g)
			b, pm := c11Encode(ct, p)
			if pm != "" || len(b) == 0 {
				continue
			}
			// length-prefix inflation at every offset
			lim := len(b) - 8
			if lim > 320 {
				lim = 320
			}
			for off := 0; off <= lim; off++ {
				for _, val := range []uint64{1 << 60, 1 << 63, ^uint64(0), uint64(len(b)-off-8) + 1, 1 << 40, 1 << 32} {
					m := append([]byte(nil), b...)
					binary.LittleEndian.PutUint64(m[off:], val)
					try("inflate", m)
				}
			}
			// bit flips
			for i := 0; i < c.Budget(40, 400); i++ {
				m := append([]byte(nil), b...)
				for k := 0; k <= g.rng.Intn(3); k++ {
					m[g.rng.Intn(len(m))] ^= 1 << uint(g.rng.Intn(8))
				}
				try("bitflip", m)
			}
			// valid + garbage, truncation + garbage
			for i := 0; i < c.Budget(8, 80); i++ {
				junk := make([]byte, 1+g.rng.Intn(40))
				g.rng.Read(junk)
				try("valid+garbage", append(append([]byte(nil), b...), junk...))
				k := g.rng.Intn(len(b))
				try("truncated+garbage", append(append([]byte(nil), b[:k]...), junk...))
			}
		}
	}
	c10MultiproofFamily(c, g)
	c10AllocFamily(c, g)
	res.CountN("types", len(ts))
	c11Compare(c, model)
}
