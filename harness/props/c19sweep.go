package props

// Size sweeps for C19: every message size around the framing constants (taken from the
// generated facts via the model: rhp2/rhp3 minMessageSize, the rhp/v4 error allowance, the
// readN chunk size, the encoder buffer), through the REAL transports, for a
// variable-size object and for error responses. Each rhp/v2 case is also framed and read
// back by the Lean frame model (`frame rhp2rt`): payload delivered and bytes on the wire
// must agree.

import (
	"bytes"
	"errors"
	"fmt"
	"strings"
	"sync"
	"time"

	"go.sia.tech/core/gateway"
	rhp2 "go.sia.tech/core/rhp/v2"
	rhp3 "go.sia.tech/core/rhp/v3"
	"go.sia.tech/core/types"
	"verif/harness/internal/fw"
)

// c19SweepSizes: payload sizes around the constants (every size in the wide window
// around minMessageSize; ±w around the others).
func c19SweepSizes(c *fw.Ctx, k c11Consts) []int {
	seen := map[int]bool{}
	var out []int
	add := func(lo, hi int) {
		for n := lo; n <= hi; n++ {
			if n >= 0 && !seen[n] {
				seen[n] = true
				out = append(out, n)
			}
		}
	}
	w := c.Budget(24, 60)
	add(k.rhp2Min-200, k.rhp2Min+204) // every size across the padding threshold
	for _, m := range []int{k.encBuf, 2 * k.encBuf, 2 * k.rhp2Min, 3 * k.rhp2Min, k.chunk, k.chunk + k.rhp2Min, 2 * k.chunk} {
		add(m-w-40, m+w)
	}
	add(0, 40)
	return out
}

func c19EncodeObj(o types.EncoderTo, prefix ...byte) []byte {
	var buf bytes.Buffer
	buf.Write(prefix)
	e := types.NewEncoder(&buf)
	o.EncodeTo(e)
	e.Flush()
	return buf.Bytes()
}

func c19Rhp2Sweep(c *fw.Ctx, g *c11Gen, k c11Consts, model *c11Model) {
	res := c.Res
	var sess *c19Rhp2Session
	fresh := func() bool {
		if sess != nil {
			sess.close()
		}
		var err error
		sess, err = c19NewRhp2Session()
		return err == nil
	}
	if !fresh() {
		return
	}
	defer func() { sess.close() }()
	var id types.Specifier
	copy(id[:], "Settings")
	const maxLen = 1 << 20
	report := func(kind string, size int, payload []byte, goLine string, err error) {
		c19Violate(c, "c19-rhp2-transport-unfaithful:"+kind,
			fmt.Sprintf("an rhp/v2 %s whose encoding is %d bytes is not what the other side reads: %v", kind, size, err),
			map[string]any{"kind": "rhp2-size", "what": kind, "payloadLen": size, "hex": fw.Hex(payload[:min(len(payload), 64)])},
			"the object written", goLine)
	}
	for _, size := range c19SweepSizes(c, k) {
		// ---- (a) response object: flag + 8-byte prefix + settings
		if size >= 9 {
			obj := &rhp2.RPCSettingsResponse{Settings: g.bytesN(size - 9)}
			payload := c19EncodeObj(obj, 0)
			sess.renter.SetDeadline(time.Now().Add(3 * time.Second))
			sess.host.SetDeadline(time.Now().Add(3 * time.Second))
			r0 := sess.renter.BytesRead()
			var got rhp2.RPCSettingsResponse
			var rerr error
			var wg sync.WaitGroup
			wg.Add(2)
			go func() { defer wg.Done(); sess.host.WriteResponse(obj) }()
			go func() { defer wg.Done(); rerr = sess.renter.ReadResponse(&got, maxLen) }()
			wg.Wait()
			res.Eval(fmt.Sprintf("rhp2-size response %d", size), true)
			res.Count("rhp2:size-sweep-response")
			goLine := "err"
			if rerr == nil {
				goLine = "ok " + c11Hex(c19EncodeObj(&got, 0)) + " " + fmt.Sprint(sess.renter.BytesRead()-r0)
			}
			if rerr != nil || !bytes.Equal(got.Settings, obj.Settings) {
				report("response", size, payload, goLine, rerr)
			}
			model.add(fmt.Sprintf("frame rhp2rt %s %d", c11Hex(payload), maxLen), goLine)
			if rerr != nil && !fresh() {
				return
			}
			// ---- (a') the same message against a receiver whose limit is EXACTLY the message's length (the value of
			// its length prefix, measured above as bytes read minus the prefix), and that limit plus 1 and plus 7:
			// a message within the receiver's stated limit must be admitted. (Only above the 4096-byte padding.)
			if rerr == nil {
				frame := int(sess.renter.BytesRead() - r0)
				if frame > 4096 {
					for _, slack := range []int{0, 1, 7} {
						lim := uint64(frame - 8 + slack)
						sess.renter.SetDeadline(time.Now().Add(3 * time.Second))
						sess.host.SetDeadline(time.Now().Add(3 * time.Second))
						var got2 rhp2.RPCSettingsResponse
						var rerr2 error
						var wg2 sync.WaitGroup
						wg2.Add(2)
						go func() { defer wg2.Done(); sess.host.WriteResponse(obj) }()
						go func() { defer wg2.Done(); rerr2 = sess.renter.ReadResponse(&got2, lim) }()
						wg2.Wait()
						res.Eval(fmt.Sprintf("rhp2-size response %d tight+%d", size, slack), true)
						res.Count("rhp2:size-sweep-response-tight-limit")
						if rerr2 != nil || !bytes.Equal(got2.Settings, obj.Settings) {
							c19Violate(c, "c19-rhp2-valid-rejected:at-receiver-limit",
								fmt.Sprintf("an rhp/v2 response whose message length is %d bytes is refused by a receiver whose stated limit is %d: %v", frame-8, lim, rerr2),
								map[string]any{"kind": "rhp2-tight", "payloadLen": size, "limit": lim}, "delivered", fmt.Sprint(rerr2))
							if !fresh() {
								return
							}
							break
						}
					}
				}
			}
		}
		// ---- (b) request object: 8-byte prefix + settings (any ProtocolObject may be a request)
		if size >= 8 {
			obj := &rhp2.RPCSettingsResponse{Settings: g.bytesN(size - 8)}
			payload := c19EncodeObj(obj)
			sess.renter.SetDeadline(time.Now().Add(3 * time.Second))
			sess.host.SetDeadline(time.Now().Add(3 * time.Second))
			var got rhp2.RPCSettingsResponse
			var herr error
			var gotID types.Specifier
			var h0 uint64
			var wg sync.WaitGroup
			wg.Add(2)
			go func() { defer wg.Done(); sess.renter.WriteRequest(id, obj) }()
			go func() {
				defer wg.Done()
				if gotID, herr = sess.host.ReadID(); herr != nil {
					return
				}
				h0 = sess.host.BytesRead()
				herr = sess.host.ReadRequest(&got, maxLen)
			}()
			wg.Wait()
			res.Eval(fmt.Sprintf("rhp2-size request %d", size), true)
			res.Count("rhp2:size-sweep-request")
			goLine := "err"
			if herr == nil {
				goLine = "ok " + c11Hex(c19EncodeObj(&got)) + " " + fmt.Sprint(sess.host.BytesRead()-h0)
			}
			if herr != nil || gotID != id || !bytes.Equal(got.Settings, obj.Settings) {
				report("request", size, payload, goLine, herr)
			}
			model.add(fmt.Sprintf("frame rhp2rt %s %d", c11Hex(payload), maxLen), goLine)
			if herr != nil && !fresh() {
				return
			}
		}
		// ---- (c) error response: flag + specifier + empty data + description
		if size >= 33 {
			want := &rhp2.RPCError{Description: strings.Repeat("d", size-33)}
			payload := c19EncodeObj(want, 1)
			sess.renter.SetDeadline(time.Now().Add(3 * time.Second))
			sess.host.SetDeadline(time.Now().Add(3 * time.Second))
			r0 := sess.renter.BytesRead()
			var rerr error
			var wg sync.WaitGroup
			wg.Add(2)
			go func() { defer wg.Done(); sess.host.WriteResponseErr(want) }()
			go func() { defer wg.Done(); var r rhp2.RPCSettingsResponse; rerr = sess.renter.ReadResponse(&r, maxLen) }()
			wg.Wait()
			res.Eval(fmt.Sprintf("rhp2-size error %d", size), true)
			res.Count("rhp2:size-sweep-error")
			var got *rhp2.RPCError
			delivered := errors.As(rerr, &got) && got.Description == want.Description
			goLine := "err"
			if delivered {
				goLine = "ok " + c11Hex(c19EncodeObj(got, 1)) + " " + fmt.Sprint(sess.renter.BytesRead()-r0)
			}
			if !delivered {
				c19Violate(c, "c19-error-not-delivered:rhp2",
					fmt.Sprintf("an rhp/v2 error response with a %d-byte description (encoding %d bytes) is not delivered as that error: %v", size-33, size, rerr),
					map[string]any{"kind": "rhp2-size", "what": "error", "payloadLen": size}, "the RPCError", fmt.Sprint(rerr))
			}
			model.add(fmt.Sprintf("frame rhp2rt %s %d", c11Hex(payload), maxLen), goLine)
			if !delivered && !fresh() {
				return
			}
		}
	}
}

// c19Rhp3Sweep: response sizes around minMessageSize and around the reader's limit
// (maxLen + minMessageSize), objects and errors, over the real mux transport.
func c19Rhp3Sweep(c *fw.Ctx, g *c11Gen, k c11Consts, rt, ht *rhp3.Transport) {
	res := c.Res
	var id types.Specifier
	copy(id[:], "UpdatePriceTable")
	const maxLen = 4096
	limit := maxLen + k.rhp3Min // the reader's LimitedReader, length prefix included
	var sizes []int
	for _, m := range []int{k.rhp3Min, limit} {
		for n := m - 24; n <= m+24; n++ {
			sizes = append(sizes, n)
		}
	}
	for _, total := range sizes {
		for _, isErr := range []bool{false, true} {
			// total = 8 (length) + 1 (flag) + body
			var obj rhp3.RPCUpdatePriceTableResponse
			var desc string
			if isErr {
				if total < 8+1+16+8+8 {
					continue
				}
				desc = strings.Repeat("x", total-(8+1+16+8+8))
			} else {
				if total < 8+1+8 {
					continue
				}
				obj.PriceTableJSON = g.bytesN(total - (8 + 1 + 8))
			}
			var got rhp3.RPCUpdatePriceTableResponse
			var rerr error
			var wg sync.WaitGroup
			done := make(chan struct{})
			wg.Add(2)
			go func() {
				defer wg.Done()
				s, err := ht.AcceptStream()
				if err != nil {
					return
				}
				defer s.Close()
				s.SetDeadline(time.Now().Add(5 * time.Second))
				if _, err := s.ReadID(); err != nil {
					return
				}
				if isErr {
					s.WriteResponseErr(&rhp3.RPCError{Description: desc})
				} else {
					s.WriteResponse(&obj)
				}
				select {
				case <-done:
				case <-time.After(5 * time.Second):
				}
			}()
			go func() {
				defer wg.Done()
				defer close(done)
				s := rt.DialStream()
				defer s.Close()
				s.SetDeadline(time.Now().Add(5 * time.Second))
				if rerr = s.WriteRequest(id, nil); rerr != nil {
					return
				}
				rerr = s.ReadResponse(&got, maxLen)
			}()
			wg.Wait()
			res.Eval(fmt.Sprintf("rhp3-size %d %v", total, isErr), true)
			res.Count("rhp3:size-sweep")
			fits := total <= limit
			replay := map[string]any{"kind": "rhp3-size", "total": total, "error": isErr}
			switch {
			case isErr && fits:
				var ge *rhp3.RPCError
				if !errors.As(rerr, &ge) || ge.Description != desc {
					c19Violate(c, "c19-error-not-delivered:rhp3", fmt.Sprintf("an rhp/v3 error response of %d bytes on the wire (limit %d) is not delivered as that error: %v", total, limit, rerr), replay, "the RPCError", fmt.Sprint(rerr))
				}
			case !isErr && fits:
				if rerr != nil || !bytes.Equal(got.PriceTableJSON, obj.PriceTableJSON) {
					c19Violate(c, "c19-rhp3-transport-unfaithful", fmt.Sprintf("an rhp/v3 response of %d bytes on the wire (limit %d) is not what the other side reads: %v", total, limit, rerr), replay, "the object written", fmt.Sprint(rerr))
				}
			case !fits:
				var ge *rhp3.RPCError
				if rerr == nil || (isErr && errors.As(rerr, &ge) && ge.Description == desc) {
					c19Violate(c, "c19-overlimit-accepted:rhp3", fmt.Sprintf("an rhp/v3 response of %d bytes on the wire is accepted although the limit is %d", total, limit), replay, "error", "delivered")
				}
			}
		}
	}
}

// c19GwTransfer sends obj's response (or request) over a fresh stream of an established
// gateway transport pair and reads it into q.
func c19GwTransfer(dt, at *gateway.Transport, obj, q gateway.Object, isResp bool) (werr, rerr error) {
	var wg sync.WaitGroup
	done := make(chan struct{})
	wg.Add(2)
	go func() {
		defer wg.Done()
		s, err := dt.DialStream()
		if err != nil {
			werr = err
			return
		}
		defer s.Close()
		s.SetDeadline(time.Now().Add(5 * time.Second))
		if werr = s.WriteID(obj); werr != nil {
			return
		}
		if isResp {
			werr = s.WriteResponse(obj)
		} else {
			werr = s.WriteRequest(obj)
		}
		select {
		case <-done:
		case <-time.After(5 * time.Second):
		}
	}()
	go func() {
		defer wg.Done()
		defer close(done)
		s, err := at.AcceptStream()
		if err != nil {
			rerr = err
			return
		}
		defer s.Close()
		s.SetDeadline(time.Now().Add(5 * time.Second))
		if _, rerr = s.ReadID(); rerr != nil {
			return
		}
		if isResp {
			rerr = s.ReadResponse(q)
		} else {
			rerr = s.ReadRequest(q)
		}
	}()
	wg.Wait()
	return
}

// c19GatewaySweep: message sizes around the gateway limits — a string response around
// maxResponseLen (RPCDiscoverIP: 8 + len <= limit) and a header list around the limit
// computed from the request's Max (RPCSendHeaders).
func c19GatewaySweep(c *fw.Ctx, dt, at *gateway.Transport) {
	res := c.Res
	ipLimit := gateway.VerifMaxResponseLen(&gateway.RPCDiscoverIP{})
	for n := ipLimit - 8 - 20; n <= ipLimit-8+20; n++ {
		if n < 0 {
			continue
		}
		obj := &gateway.RPCDiscoverIP{IP: strings.Repeat("9", n)}
		var q gateway.RPCDiscoverIP
		werr, rerr := c19GwTransfer(dt, at, obj, &q, true)
		res.Eval(fmt.Sprintf("gateway-size DiscoverIP %d", n), true)
		res.Count("gateway:size-sweep")
		fits := 8+n <= ipLimit
		replay := map[string]any{"kind": "gateway-size", "rpc": "RPCDiscoverIP", "len": n}
		if fits && (werr != nil || rerr != nil || q.IP != obj.IP) {
			c19Violate(c, "c19-gateway-stream:gateway.RPCDiscoverIP.Response", fmt.Sprintf("a response of %d bytes (limit %d) is not transferred: write=%v read=%v", 8+n, ipLimit, werr, rerr), replay, "same object", fmt.Sprint(rerr))
		} else if !fits && rerr == nil {
			c19Violate(c, "c19-overlimit-accepted:gateway.RPCDiscoverIP.Response", fmt.Sprintf("a response of %d bytes is accepted although the limit is %d", 8+n, ipLimit), replay, "error", "object")
		}
	}
	for _, max := range []uint64{1, 10} {
		for n := 0; n <= int(max)+2; n++ {
			obj := &gateway.RPCSendHeaders{Max: max, Headers: make([]types.BlockHeader, n), Remaining: 7}
			q := gateway.RPCSendHeaders{Max: max}
			werr, rerr := c19GwTransfer(dt, at, obj, &q, true)
			res.Eval(fmt.Sprintf("gateway-size SendHeaders %d %d", max, n), true)
			res.Count("gateway:size-sweep")
			fits := n <= int(max)
			replay := map[string]any{"kind": "gateway-size", "rpc": "RPCSendHeaders", "max": max, "headers": n}
			if fits && (werr != nil || rerr != nil || len(q.Headers) != n || q.Remaining != 7) {
				c19Violate(c, "c19-gateway-stream:gateway.RPCSendHeaders.Response", fmt.Sprintf("%d headers for Max=%d are not transferred: write=%v read=%v", n, max, werr, rerr), replay, "same object", fmt.Sprint(rerr))
			} else if !fits && rerr == nil {
				c19Violate(c, "c19-overlimit-accepted:gateway.RPCSendHeaders.Response", fmt.Sprintf("%d headers are accepted although only Max=%d were requested", n, max), replay, "error", "object")
			}
		}
	}
}
