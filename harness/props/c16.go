package props

// C16 — RHP Merkle roots and proofs are complete, sound and implementation-
// independent.
//
// Statement-level oracle: the plainly defined binary Merkle tree, written here
// with golang.org/x/crypto/blake2b only (c16ORoot / c16OLeaf / c16ONode). The
// optimised code of core (rhp/v2, rhp/v4, blake2b) is compared with that oracle
// and, line by line, with the Lean model driver (ops `rhp-*`).
//
// Files: c16.go (infrastructure, replay), c16_roots.go (section a),
// c16_range.go (section b), c16_diff.go (section c).

import (
	"golang.org/x/sys/cpu"
	"bytes"
	"encoding/binary"
	"encoding/hex"
	"encoding/json"
	"fmt"
	"io"
	"math/rand"
	"runtime"
	"sort"
	"strconv"
	"strings"
	"sync"
	"time"

	xblake "golang.org/x/crypto/blake2b"

	rhp2 "go.sia.tech/core/rhp/v2"
	"go.sia.tech/core/types"
	"verif/harness/internal/fw"
)

func init() { fw.Register("C16", runC16) }

type c16H = types.Hash256

// ------------------------------------------------------------------ oracle

// c16OLeaf: leaf hash = blake2b(0x00 ‖ 64 bytes).
func c16OLeaf(leaf []byte) c16H {
	var buf [65]byte
	buf[0] = 0
	copy(buf[1:], leaf[:64])
	return xblake.Sum256(buf[:])
}

// c16ONode: node hash = blake2b(0x01 ‖ left ‖ right).
func c16ONode(l, r c16H) c16H {
	var buf [65]byte
	buf[0] = 1
	copy(buf[1:33], l[:])
	copy(buf[33:], r[:])
	return xblake.Sum256(buf[:])
}

// c16ORoot: root of [] = zero hash; root of [x] = x; otherwise split at the
// largest power of two strictly below n.
func c16ORoot(hs []c16H) c16H {
	switch len(hs) {
	case 0:
		return c16H{}
	case 1:
		return hs[0]
	}
	k := 1
	for k*2 < len(hs) {
		k *= 2
	}
	return c16ONode(c16ORoot(hs[:k]), c16ORoot(hs[k:]))
}

// c16OLeafHashes: leaf hashes of a whole number of 64-byte leaves.
func c16OLeafHashes(data []byte) []c16H {
	hs := make([]c16H, len(data)/64)
	for i := range hs {
		hs[i] = c16OLeaf(data[64*i : 64*i+64])
	}
	return hs
}

// ------------------------------------------------------------------ small helpers

func c16Hex(h c16H) string { return hex.EncodeToString(h[:]) }

func c16HexList(hs []c16H) string {
	if len(hs) == 0 {
		return "-"
	}
	b := make([]byte, 0, 32*len(hs))
	for i := range hs {
		b = append(b, hs[i][:]...)
	}
	return hex.EncodeToString(b)
}

func c16HexData(b []byte) string {
	if len(b) == 0 {
		return "-"
	}
	return hex.EncodeToString(b)
}

func c16ParseHashes(s string) []c16H {
	if s == "-" || s == "" {
		return nil
	}
	b, err := hex.DecodeString(s)
	if err != nil || len(b)%32 != 0 {
		return nil
	}
	hs := make([]c16H, len(b)/32)
	for i := range hs {
		copy(hs[i][:], b[32*i:])
	}
	return hs
}

func c16IdxList(xs []uint64) string {
	if len(xs) == 0 {
		return "-"
	}
	ss := make([]string, len(xs))
	for i, x := range xs {
		ss[i] = fmt.Sprint(x)
	}
	return strings.Join(ss, ",")
}

func c16RandHash(rng *rand.Rand) (h c16H) {
	rng.Read(h[:])
	return
}

func c16RandHashes(rng *rand.Rand, n int) []c16H {
	hs := make([]c16H, n)
	for i := range hs {
		rng.Read(hs[i][:])
	}
	return hs
}

// c16Flip returns h with one random bit flipped.
func c16Flip(h c16H, rng *rand.Rand) c16H {
	b := rng.Intn(256)
	h[b/8] ^= 1 << (b % 8)
	return h
}

func c16CopyHashes(hs []c16H) []c16H { return append([]c16H(nil), hs...) }

func c16Without(hs []c16H, i int) []c16H {
	out := make([]c16H, 0, len(hs))
	out = append(out, hs[:i]...)
	return append(out, hs[i+1:]...)
}

func c16InsertAt(hs []c16H, i int, h c16H) []c16H {
	out := make([]c16H, 0, len(hs)+1)
	out = append(out, hs[:i]...)
	out = append(out, h)
	return append(out, hs[i:]...)
}

func c16WithFlipped(hs []c16H, i int, rng *rand.Rand) []c16H {
	out := c16CopyHashes(hs)
	out[i] = c16Flip(out[i], rng)
	return out
}

func c16HashesEqual(a, b []c16H) bool {
	if len(a) != len(b) {
		return false
	}
	for i := range a {
		if a[i] != b[i] {
			return false
		}
	}
	return true
}

// c16Verdict runs a verifier: "1" accept, "0" reject, "panic".
func c16Verdict(f func() bool) string {
	var ok bool
	if p, _ := fw.Recover(func() { ok = f() }); p {
		return "panic"
	}
	if ok {
		return "1"
	}
	return "0"
}

// c16OkB formats like the driver's showB.
func c16OkB(v string) string {
	if v == "panic" {
		return "panic"
	}
	return "ok " + v
}

// c16GenSector replicates RhpD.genSector of the Lean driver exactly.
func c16GenSector(kind int, seed uint64) *[rhp2.SectorSize]byte {
	s := new([rhp2.SectorSize]byte)
	switch kind {
	case 0:
	case 1:
		for i := range s {
			s[i] = uint8(seed + 7*uint64(i) + uint64(i)/64)
		}
	case 2:
		x := seed | 1
		for w := 0; w < len(s)/8; w++ {
			x ^= x >> 12
			x ^= x << 25
			x ^= x >> 27
			binary.LittleEndian.PutUint64(s[8*w:], x*0x2545F4914F6CDD1D)
		}
	default:
		for i := range s {
			if off := i % 64; off < 8 {
				s[i] = uint8(uint64(i/64) >> (8 * uint(off)))
			} else {
				s[i] = uint8(seed)
			}
		}
	}
	return s
}

// ------------------------------------------------------------------ readers

// c16ChunkReader hands out data in chunks whose sizes come from next().
type c16ChunkReader struct {
	data    []byte
	next    func() int
	eofWith bool // return io.EOF together with the final bytes
}

func (r *c16ChunkReader) Read(p []byte) (int, error) {
	if len(r.data) == 0 {
		return 0, io.EOF
	}
	n := r.next()
	if n < 1 {
		n = 1
	}
	if n > len(p) {
		n = len(p)
	}
	if n > len(r.data) {
		n = len(r.data)
	}
	copy(p, r.data[:n])
	r.data = r.data[n:]
	if len(r.data) == 0 && r.eofWith {
		return n, io.EOF
	}
	return n, nil
}

func c16FixedChunks(data []byte, sz int) io.Reader {
	return &c16ChunkReader{data: data, next: func() int { return sz }}
}

func c16RandChunks(data []byte, rng *rand.Rand, max int, eofWith bool) io.Reader {
	return &c16ChunkReader{data: data, next: func() int {
		if rng.Intn(8) == 0 {
			return 1 + rng.Intn(4)
		}
		return 1 + rng.Intn(max)
	}, eofWith: eofWith}
}

// ------------------------------------------------------------------ run state

type c16run struct {
	c   *fw.Ctx
	res *fw.Result

	ops, outs []string
	cost      []int

	noteMu sync.Mutex
	noted  map[string]bool

	genericPath bool // the pass with AVX2 switched off is running
	procs       int  // != 0: the pass with runtime.GOMAXPROCS(procs) is running
}

// a c16task is one unit of (possibly parallel) work with its own deterministic RNG.
type c16task struct {
	r      *c16run
	rng    *rand.Rand
	ops    []string
	outs   []string
	cost   []int
	counts map[string]int
}

func (t *c16task) model(op, goOut string) { t.modelC(op, goOut, 0) }

// modelC queues a model comparison with an explicit cost estimate (0 = by length).
func (t *c16task) modelC(op, goOut string, cost int) {
	if t.r.c.Model == nil {
		return
	}
	if cost == 0 {
		cost = 20 + len(op)/40
	}
	t.ops = append(t.ops, op)
	t.outs = append(t.outs, goOut)
	t.cost = append(t.cost, cost)
}

func (t *c16task) count(b string)         { t.counts[b]++ }
func (t *c16task) countN(b string, n int) { t.counts[b] += n }
func (t *c16task) eval(repr string, nontrivial bool) {
	t.r.res.Eval(repr, nontrivial)
}

func (t *c16task) violate(key, what string, replay map[string]any, exp, obs string) {
	if replay == nil {
		replay = map[string]any{}
	}
	replay["seed"] = t.r.c.Seed
	replay["tier"] = t.r.c.Tier
	if t.r.genericPath {
		key += ":generic-path"
		what = "[AVX2 switched off: portable hashing path] " + what
		replay["generic_path"] = true
	}
	if t.r.procs != 0 {
		key += ":gomaxprocs"
		what = fmt.Sprintf("[GOMAXPROCS=%d] ", t.r.procs) + what
		replay["gomaxprocs"] = t.r.procs
	}
	if len(what) > 600 {
		what = what[:600] + "..."
	}
	t.r.res.Violate(fw.Violation{Key: key, What: what, Replay: replay, Expected: exp, Observed: obs})
}

func (r *c16run) newTask(seed int64) *c16task {
	return &c16task{r: r, rng: rand.New(rand.NewSource(seed)), counts: map[string]int{}}
}

func (r *c16run) finish(t *c16task) {
	r.ops = append(r.ops, t.ops...)
	r.outs = append(r.outs, t.outs...)
	r.cost = append(r.cost, t.cost...)
	for _, k := range fw.SortedKeys(t.counts) {
		r.res.CountN(k, t.counts[k])
	}
}

// parallel runs n tasks on all cores. Every task gets an RNG seeded from c.Rng
// BEFORE fanning out, and results are merged in task order: the run is
// deterministic in the seed.
func (r *c16run) parallel(n int, f func(i int, t *c16task)) {
	tasks := make([]*c16task, n)
	for i := range tasks {
		tasks[i] = r.newTask(r.c.Rng.Int63())
	}
	workers := runtime.GOMAXPROCS(0)
	if workers > n {
		workers = n
	}
	var wg sync.WaitGroup
	next := make(chan int, n)
	for i := 0; i < n; i++ {
		next <- i
	}
	close(next)
	for w := 0; w < workers; w++ {
		wg.Add(1)
		go func() {
			defer wg.Done()
			for i := range next {
				if p, msg := fw.Recover(func() { f(i, tasks[i]) }); p {
					// a panic that escaped the per-call guards: never silent
					tasks[i].violate("c16-panic:escaped", "panic escaped the harness guards in task "+fmt.Sprint(i)+": "+msg,
						map[string]any{"kind": "task", "task": i}, "no panic", msg)
				}
			}
		}()
	}
	wg.Wait()
	for _, t := range tasks {
		r.finish(t)
	}
}

// serial runs one task on the calling goroutine.
func (r *c16run) serial(f func(t *c16task)) {
	t := r.newTask(r.c.Rng.Int63())
	if p, msg := fw.Recover(func() { f(t) }); p {
		t.violate("c16-panic:escaped", "panic escaped the harness guards: "+msg, map[string]any{"kind": "task"}, "no panic", msg)
	}
	r.finish(t)
}

// compareAll pipes all queued ops to the model, balanced over many driver
// processes (fw.Ctx.Compare would run < 2000 lines on a single process, and the
// sector ops cost about a second each).
func (r *c16run) compareAll() {
	c := r.c
	if c.Model == nil || len(r.ops) == 0 {
		return
	}
	c.Res.ModelUsed = true
	n := len(r.ops)
	W := runtime.GOMAXPROCS(0)
	if W < 4 {
		W = 4
	}
	if k := n/1500 + 1; k > W {
		W = k
	}
	idx := make([]int, n)
	for i := range idx {
		idx[i] = i
	}
	sort.SliceStable(idx, func(a, b int) bool { return r.cost[idx[a]] > r.cost[idx[b]] })
	load := make([]int, W)
	bins := make([][]int, W)
	for _, i := range idx {
		m := 0
		for w := 1; w < W; w++ {
			if load[w] < load[m] {
				m = w
			}
		}
		load[m] += r.cost[i]
		bins[m] = append(bins[m], i)
	}
	got := make([]string, n)
	errs := make([]error, W)
	sem := make(chan struct{}, runtime.GOMAXPROCS(0))
	var wg sync.WaitGroup
	for w := 0; w < W; w++ {
		if len(bins[w]) == 0 {
			continue
		}
		wg.Add(1)
		go func(w int) {
			defer wg.Done()
			sem <- struct{}{}
			defer func() { <-sem }()
			lines := make([]string, len(bins[w]))
			for k, i := range bins[w] {
				lines[k] = r.ops[i]
			}
			out, err := c.Model.Eval(lines)
			if err != nil {
				errs[w] = err
				return
			}
			for k, i := range bins[w] {
				got[i] = out[k]
			}
		}(w)
	}
	wg.Wait()
	for w, e := range errs {
		if e != nil {
			first := ""
			if len(bins[w]) > 0 {
				first = c16Trunc(r.ops[bins[w][0]])
			}
			c.Res.Disagree(fw.Disagreement{Op: "(driver)", Go: first, Model: e.Error(), Note: "model driver failed"})
			return
		}
	}
	for i := 0; i < n; i++ {
		c.Res.Count("model-op:" + strings.SplitN(r.ops[i], " ", 2)[0])
		c.Res.ModelOps++
		if got[i] != r.outs[i] {
			c.Res.Disagree(fw.Disagreement{Op: c16Trunc(r.ops[i]), Go: c16Trunc(r.outs[i]), Model: c16Trunc(got[i])})
		}
	}
}

func c16Trunc(s string) string {
	if len(s) > 20000 {
		return s[:20000] + fmt.Sprintf("...(%d chars)", len(s))
	}
	return s
}

// section runs one part, recording wall time and evaluation count as a note.
func (r *c16run) section(name string, f func()) {
	t0 := time.Now()
	e0, m0 := r.res.Evaluations, len(r.ops)
	f()
	r.res.Note("section %s: %d evaluations, %d model ops queued, %.2fs", name, r.res.Evaluations-e0, len(r.ops)-m0, time.Since(t0).Seconds())
}

const c16Rule = "RHP Merkle roots/proofs vs the plain binary tree (independent x/crypto blake2b oracle) and vs the Lean model. " +
	"(a) roots: hash lists of every length 0..70 + random lengths (and >65536 in thorough) through MetaRoot(v2,v4), blake2b.Accumulator, proofAccumulator, sectorAccumulator(v2,v4); " +
	"byte streams of 0..130 and random <=4096 leaves through ReaderRoot under many reader chunkings and appendLeaves/appendNode splits; full generated sectors through SectorRoot, ReadSectorRoot, ReadSector, ReaderRoot, CachedSectorSubtrees; " +
	"4-way block hashing AVX2 vs generic vs oracle; nextSubtreeSize / RangeProofSize exhaustively on small and randomly on large arguments. " +
	"(b) range proofs: sector-roots level EXHAUSTIVE over all (n,start,end) up to the tier bound with every single-element corruption (proof hash, covered root, root, shorter, longer, shifted range) required to be rejected with the true n; " +
	"leaf-in-sector level on a grid of ranges, neighbours, random ranges and single leaves (v2 BuildProof = v4 BuildSectorProof, RangeProofVerifier streaming, VerifyLeafProof, ConvertProofOrdering + leaf-to-root fold). " +
	"(c) append proofs (all n x batch sizes), free proofs (every subset/order for small n + random), general diff proofs (in-scope shapes are violations on failure, exotic mixes only counted); proof sizes = RangeProofSize/DiffProofSize. " +
	"A case is non-trivial when it has at least one hash/leaf; distinct by full input."

func runC16(c *fw.Ctx) {
	r := &c16run{c: c, res: c.Res}
	r.res.Rule = c16Rule
	if c.Replay != "" {
		if r.replay(c.Replay) {
			r.compareAll()
			return
		}
		r.res.Note("replay file %s: unknown case kind, running the normal check", c.Replay)
	}
	t0 := time.Now()
	r.section("hashblocks", r.secHashBlocks)
	r.section("int-helpers", r.secIntHelpers)
	r.section("hash-list-roots", r.secHashLists)
	r.section("byte-stream-roots", r.secByteStreams)
	r.section("sectors+leaf-range-proofs", r.secSectors)
	r.section("sector-range-proofs", r.secRange)
	r.section("append-proofs", r.secAppend)
	r.section("free-proofs", r.secFree)
	r.section("diff-proofs", r.secDiff)
	r.section("library-prover-path(multi-sector storage proofs)", func() {
		c16ProverPath(r.c, func(op, out string) {
			if r.c.Model != nil {
				r.ops = append(r.ops, op)
				r.outs = append(r.outs, out)
				r.cost = append(r.cost, 30+len(op)/40)
			}
		})
	})
	// the same roots and proofs on the portable (non-AVX2) hashing path: the sector accumulators call the 4-way
	// hashing IN PLACE (output = first half of the input), which only the root functions exercise
	if cpu.X86.HasAVX2 {
		cpu.X86.HasAVX2 = false
		r.genericPath = true
		r.section("GENERIC-PATH hash-list-roots", r.secHashLists)
		r.section("GENERIC-PATH byte-stream-roots", r.secByteStreams)
		r.section("GENERIC-PATH sectors+leaf-range-proofs", r.secSectors)
		r.section("GENERIC-PATH append-proofs", r.secAppend)
		r.genericPath = false
		cpu.X86.HasAVX2 = true
		r.res.Count("generic-path-pass")
	} else {
		r.res.Note("this CPU has no AVX2: the portable path is the only path exercised")
	}
	// roots and proofs must not depend on the degree of parallelism either (sector roots and the cached subtree roots
	// are computed by worker goroutines): the sector section again under other GOMAXPROCS values, none a power of two
	{
		prev := runtime.GOMAXPROCS(0)
		ps := []int{3, 7}
		if c.Thorough() {
			ps = []int{1, 2, 3, 5, 6, 7, 12, 24, 48}
		}
		keepOps := len(r.ops)
		for _, p := range ps {
			runtime.GOMAXPROCS(p)
			r.procs = p
			r.section(fmt.Sprintf("GOMAXPROCS=%d sectors+leaf-range-proofs", p), r.secSectors)
			r.res.Count("gomaxprocs-pass")
		}
		r.procs = 0
		runtime.GOMAXPROCS(prev)
		// the model comparison of these sectors has already been queued by the first pass
		if len(r.ops) > keepOps {
			r.ops, r.outs, r.cost = r.ops[:keepOps], r.outs[:keepOps], r.cost[:keepOps]
		}
	}
	tGo := time.Since(t0)
	t1 := time.Now()
	r.compareAll()
	r.res.Note("timing: go-side %.2fs, model comparison of %d ops %.2fs", tGo.Seconds(), len(r.ops), time.Since(t1).Seconds())
}

// ------------------------------------------------------------------ replay

func (r *c16run) replay(path string) bool {
	b, err := readFile(path)
	if err != nil {
		return false
	}
	var v struct {
		Replay map[string]any `json:"replay"`
	}
	dec := json.NewDecoder(bytes.NewReader(b))
	dec.UseNumber() // case seeds are 63-bit: float64 would round them
	if dec.Decode(&v) != nil || v.Replay == nil {
		return false
	}
	m := v.Replay
	str := func(k string) string { s, _ := m[k].(string); return s }
	num := func(k string) uint64 {
		switch x := m[k].(type) {
		case json.Number:
			u, _ := strconv.ParseUint(x.String(), 10, 64)
			return u
		case float64:
			return uint64(x)
		case string:
			var u uint64
			fmt.Sscan(x, &u)
			return u
		}
		return 0
	}
	idxs := func(k string) []uint64 {
		var out []uint64
		if a, ok := m[k].([]any); ok {
			for _, x := range a {
				if f, ok := x.(json.Number); ok {
					u, _ := strconv.ParseUint(f.String(), 10, 64)
					out = append(out, u)
				}
			}
		}
		return out
	}
	cseed := int64(num("cseed"))
	kind := str("kind")
	ok := true
	r.serial(func(t *c16task) {
		switch kind {
		case "root":
			t.hashListCase(c16ParseHashes(str("hashes")), "replay", true)
		case "sectorroot":
			d, _ := hex.DecodeString(strings.TrimPrefix(str("data"), "-"))
			t.byteStreamCase(d, "replay", cseed, true)
		case "hashblocks":
			d, _ := hex.DecodeString(str("blocks"))
			if len(d) == 256 {
				var g [4][64]byte
				for i := range g {
					copy(g[i][:], d[64*i:])
				}
				t.hashBlocksCase(&g, num("prefix"), "replay", true)
			} else {
				ok = false
			}
		case "range":
			t.rangeCase(c16ParseHashes(str("roots")), num("start"), num("end"), cseed, -1)
		case "append":
			t.appendCase(c16ParseHashes(str("roots")), c16ParseHashes(str("appended")), cseed, -1)
		case "free":
			t.freeCase(c16ParseHashes(str("roots")), idxs("freed"), cseed, -1)
		case "diff":
			acts, ok2 := c16ParseActions(str("actions"))
			if !ok2 {
				ok = false
				return
			}
			t.diffCase(c16ParseHashes(str("roots")), acts, cseed, -1)
		case "leafrange", "sector":
			sec := c16NewSector(int(num("gkind")), num("gseed"))
			if kind == "sector" {
				t.sectorRootCase(sec)
			} else {
				t.leafRangeBatch(sec, [][2]uint64{{num("start"), num("end")}}, cseed, true)
			}
		default:
			ok = false
		}
	})
	return ok
}
