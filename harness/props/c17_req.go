package props

// C17: the path  request -> the RPC's own Validate -> constructor -> consensus.
//
// For every rhp/v4 request type whose Validate guards a contract/revision constructor
// (free sectors, append sectors, sector roots, fund accounts, replenish accounts, form,
// renew, refresh; read/write sector for the priced usage) REAL request objects are built
// around every boundary of the Validate method (index n-1/n/n+1, counts 0/1/max/max+1,
// heights and durations at their limits, empty contract, all sectors freed, allowance and
// collateral at their limits), passed through the REAL Validate (prices and tokens really
// signed), and
//   * the verdict is compared with the Lean model of Validate (op `rhp4v`);
//   * if Validate accepts, the constructor must not panic, must keep the totals, must
//     produce Filesize <= Capacity and Filesize = 4 MiB x (sectors after the operation)
//     without uint64 wrap, and - on a real chain - the signed result must be accepted by
//     consensus.ValidateV2Transaction.
// Violation keys: c17-validated-request-breaks-constructor:<rpc>.

import (
	"fmt"
	"math/big"
	"strings"
	"time"

	"go.sia.tech/core/consensus"
	rhp4 "go.sia.tech/core/rhp/v4"
	"go.sia.tech/core/types"
	"verif/harness/internal/fw"
)

type c17Req struct {
	c      *fw.Ctx
	ch     *c17Chain
	lines  []string
	outs   []string
	hostPK types.PublicKey
}

func (q *c17Req) sign(p rhp4.HostPrices) rhp4.HostPrices {
	p.ValidUntil = time.Now().Add(time.Hour)
	p.Signature = q.ch.host.SignHash(p.SigHash())
	return p
}

func c17Verdict(err error, panicked bool) string {
	switch {
	case panicked:
		return "panic"
	case err != nil:
		return "reject"
	}
	return "ok"
}

func (q *c17Req) record(line, verdict string) {
	q.lines = append(q.lines, line)
	q.outs = append(q.outs, verdict)
	q.c.Res.Eval(line, verdict == "ok")
	f := strings.Fields(line)
	q.c.Res.Count("req:" + f[1] + ":" + verdict)
}

func (q *c17Req) breaks(rpc, what, line, exp, obs string) {
	q.c.Res.Violate(fw.Violation{Key: "c17-validated-request-breaks-constructor:" + rpc,
		What:   "a " + rpc + " request accepted by its own Validate " + what,
		Replay: map[string]any{"kind": "req", "seed": q.c.Seed, "line": line}, Expected: exp, Observed: obs})
}

// onChain: sign the revision of the chain contract and ask real consensus.
func (q *c17Req) onChain(rpc, line string, fce *types.V2FileContractElement, rev types.V2FileContract) {
	if fce == nil {
		return
	}
	q.ch.signFC(&rev)
	txn := types.V2Transaction{FileContractRevisions: []types.V2FileContractRevision{{Parent: fce.Copy(), Revision: rev}}}
	err := q.ch.validate(consensus.NewMidState(q.ch.cs), txn)
	q.c.Res.Count("req:" + rpc + ":on-chain")
	if err != nil {
		q.breaks(rpc, "produces a revision that consensus rejects", line, "accepted by ValidateV2Transaction", err.Error()+" | "+c17ShowFC(q.ch.tagged(fce.V2FileContract))+" -> "+c17ShowFC(q.ch.tagged(rev)))
	}
}

// checkRevision: the statement about a revision produced from a validated request.
// sectorsAfter < 0 means "filesize unchanged".
func (q *c17Req) checkRevision(rpc, line string, fc, rev types.V2FileContract, rerr error, panicked bool, msg string, wantFilesize *big.Int) bool {
	if panicked {
		if strings.Contains(msg, "overflow") {
			q.c.Res.Count("req:" + rpc + ":price-overflow")
			return false
		}
		q.breaks(rpc, "makes the constructor panic: "+msg, line, "no panic", "panic")
		return false
	}
	if rerr != nil {
		if !c17FundsEqual(fc, rev) {
			q.breaks(rpc, "fails for lack of funds but returns modified funds", line, c17ShowFC(fc), c17ShowFC(rev))
		}
		q.c.Res.Count("req:" + rpc + ":insufficient-funds")
		return false
	}
	if wantFilesize.Sign() < 0 || wantFilesize.Cmp(c17W64) >= 0 || c17U(rev.Filesize).Cmp(wantFilesize) != 0 {
		q.breaks(rpc, "yields a filesize that is not 4 MiB x the sectors after the operation (uint64 wrap-around)", line, wantFilesize.String(), fmt.Sprint(rev.Filesize))
	}
	if rev.Filesize > rev.Capacity || rev.Capacity < fc.Capacity {
		q.breaks(rpc, "yields filesize > capacity or a lowered capacity", line, "filesize <= capacity, capacity kept", fmt.Sprintf("filesize %d capacity %d (was %d)", rev.Filesize, rev.Capacity, fc.Capacity))
	}
	if c17Add(c17B(rev.RenterOutput.Value), c17B(rev.HostOutput.Value)).Cmp(c17Add(c17B(fc.RenterOutput.Value), c17B(fc.HostOutput.Value))) != 0 {
		q.breaks(rpc, "changes the total contract value", line, "", c17ShowFC(rev))
	}
	if rev.TotalCollateral != fc.TotalCollateral || c17B(rev.MissedHostValue).Cmp(c17B(fc.MissedHostValue)) > 0 {
		q.breaks(rpc, "touches total collateral or raises the missed host value", line, "", c17ShowFC(rev))
	}
	if rev.RevisionNumber != fc.RevisionNumber+1 {
		q.breaks(rpc, "does not increment the revision number", line, fmt.Sprint(fc.RevisionNumber+1), fmt.Sprint(rev.RevisionNumber))
	}
	return true
}

// ---------------------------------------------------------------- revisions

func c17Range(lo, hi uint64) []uint64 {
	var l []uint64
	for i := lo; i < hi; i++ {
		l = append(l, i)
	}
	return l
}

func (q *c17Req) freeCases(n uint64) [][]uint64 {
	cases := [][]uint64{{}, {0}, {n}, {n + 1}, {c17MaxU64}, {0, 0}}
	if n <= 2500 {
		cases = append(cases, c17Range(0, n), c17Range(0, n+1), append(c17Range(0, n), 0))
	}
	if n > 0 {
		cases = append(cases, []uint64{n - 1}, []uint64{n - 1, n - 1}, []uint64{n - 1, n})
	}
	if n > 0 && n <= 2500 {
		cases = append(cases, c17Range(1, n+1))
		rev := c17Range(0, n)
		for i, j := 0, len(rev)-1; i < j; i, j = i+1, j-1 {
			rev[i], rev[j] = rev[j], rev[i]
		}
		cases = append(cases, rev)
	}
	return cases
}

// free sectors on contract fc (fce != nil: also on chain)
func (q *c17Req) free(fc types.V2FileContract, p rhp4.HostPrices, idx []uint64, fce *types.V2FileContractElement) {
	parts := make([]string, len(idx))
	for i, x := range idx {
		parts[i] = fmt.Sprint(x)
	}
	line := strings.Join(strings.Fields(fmt.Sprintf("rhp4v free %d %d %s", fc.Filesize, len(idx), strings.Join(parts, " "))), " ")
	req := rhp4.RPCFreeSectorsRequest{Prices: p, Indices: idx}
	var verr error
	vp, _ := fw.Recover(func() { verr = req.Validate(q.hostPK, fc) })
	if len(idx) > 3000 && len(idx) <= rhp4.MaxSectorBatchSize {
		// the Lean model of the duplicate check is quadratic: long accepted lists are judged by the Go-side oracle only
		q.c.Res.Eval(line[:60], verr == nil)
		q.c.Res.Count("req:free-long-list:" + c17Verdict(verr, vp))
	} else {
		q.record(line, c17Verdict(verr, vp))
	}
	if vp || verr != nil {
		return
	}
	var rev types.V2FileContract
	var rerr error
	panicked, msg := fw.Recover(func() { rev, _, rerr = rhp4.ReviseForFreeSectors(fc, p, types.Hash256{7}, len(idx)) })
	want := c17Sub(c17U(fc.Filesize), new(big.Int).Mul(c17U(c17Sector), big.NewInt(int64(len(idx)))))
	if q.checkRevision("free", line, fc, rev, rerr, panicked, msg, want) {
		q.onChain("free", line, fce, rev)
	}
}

func (q *c17Req) appendSectors(fc types.V2FileContract, p rhp4.HostPrices, n int, fce *types.V2FileContractElement) {
	line := fmt.Sprintf("rhp4v append %d", n)
	req := rhp4.RPCAppendSectorsRequest{Prices: p, Sectors: make([]types.Hash256, n)}
	var verr error
	vp, _ := fw.Recover(func() { verr = req.Validate(q.hostPK) })
	q.record(line, c17Verdict(verr, vp))
	if vp || verr != nil {
		return
	}
	// the host may accept any non-empty prefix of the sectors
	for _, accepted := range []int{n, 1, (n + 1) / 2} {
		var rev types.V2FileContract
		var rerr error
		panicked, msg := fw.Recover(func() { rev, _, rerr = rhp4.ReviseForAppendSectors(fc, p, types.Hash256{8}, uint64(accepted)) })
		want := c17Add(c17U(fc.Filesize), new(big.Int).Mul(c17U(c17Sector), big.NewInt(int64(accepted))))
		if q.checkRevision("append", line, fc, rev, rerr, panicked, msg, want) {
			if rev.Capacity != fc.Capacity && ((rev.Capacity-fc.Capacity)%c17Sector != 0 || rev.Capacity-rev.Filesize >= c17Sector) {
				q.breaks("append", "grows the capacity by other than the missing whole sectors", line, "minimal growth", fmt.Sprintf("capacity %d -> %d, filesize %d", fc.Capacity, rev.Capacity, rev.Filesize))
			}
			q.onChain("append", line, fce, rev)
		}
	}
}

func (q *c17Req) roots(fc types.V2FileContract, p rhp4.HostPrices, off, length uint64, fce *types.V2FileContractElement) {
	line := fmt.Sprintf("rhp4v roots %d %d %d", fc.Filesize, off, length)
	req := rhp4.RPCSectorRootsRequest{Prices: p, Offset: off, Length: length}
	var verr error
	vp, _ := fw.Recover(func() { verr = req.Validate(q.hostPK, fc) })
	q.record(line, c17Verdict(verr, vp))
	if vp || verr != nil {
		return
	}
	if off+length < off || off+length > fc.Filesize/c17Sector {
		q.breaks("roots", "asks for sector roots beyond the contract's sectors", line, fmt.Sprintf("offset+length <= %d", fc.Filesize/c17Sector), fmt.Sprintf("%d+%d", off, length))
	}
	var rev types.V2FileContract
	var rerr error
	panicked, msg := fw.Recover(func() { rev, _, rerr = rhp4.ReviseForSectorRoots(fc, p, length) })
	if q.checkRevision("roots", line, fc, rev, rerr, panicked, msg, c17U(fc.Filesize)) {
		q.onChain("roots", line, fce, rev)
	}
}

func (q *c17Req) fund(fc types.V2FileContract, idSet, sigSet bool, deposits []rhp4.AccountDeposit, fce *types.V2FileContractElement) {
	var sb strings.Builder
	fmt.Fprintf(&sb, "rhp4v fund %s %s %d", flag(idSet), flag(sigSet), len(deposits))
	total := new(big.Int)
	for _, d := range deposits {
		fmt.Fprintf(&sb, " %s %s", flag(d.Account != rhp4.Account{}), d.Amount.ExactString())
		total.Add(total, c17B(d.Amount))
	}
	line := sb.String()
	req := rhp4.RPCFundAccountsRequest{Deposits: deposits}
	if idSet {
		req.ContractID = types.FileContractID{1}
	}
	if sigSet {
		req.RenterSignature = types.Signature{1}
	}
	var verr error
	vp, _ := fw.Recover(func() { verr = req.Validate() })
	q.record(line, c17Verdict(verr, vp))
	if vp || verr != nil || total.Cmp(c17W128) >= 0 {
		return
	}
	var rev types.V2FileContract
	var rerr error
	panicked, msg := fw.Recover(func() { rev, _, rerr = rhp4.ReviseForFundAccounts(fc, bigCur(total)) })
	if q.checkRevision("fund", line, fc, rev, rerr, panicked, msg, c17U(fc.Filesize)) {
		if c17Sub(c17B(fc.RenterOutput.Value), total).Cmp(c17B(rev.RenterOutput.Value)) != 0 {
			q.breaks("fund", "does not charge exactly the deposits", line, c17Sub(c17B(fc.RenterOutput.Value), total).String(), rev.RenterOutput.Value.ExactString())
		}
		q.onChain("fund", line, fce, rev)
	}
}

func (q *c17Req) replenish(fc types.V2FileContract, idSet, sigSet bool, accounts []rhp4.Account, target types.Currency, fce *types.V2FileContractElement) {
	var sb strings.Builder
	fmt.Fprintf(&sb, "rhp4v replenish %s %s %s %d", flag(idSet), flag(sigSet), target.ExactString(), len(accounts))
	for _, a := range accounts {
		sb.WriteString(" " + flag(a != rhp4.Account{}))
	}
	line := sb.String()
	req := rhp4.RPCReplenishAccountsRequest{Accounts: accounts, Target: target}
	if idSet {
		req.ContractID = types.FileContractID{1}
	}
	if sigSet {
		req.ChallengeSignature = types.Signature{1}
	}
	var verr error
	vp, _ := fw.Recover(func() { verr = req.Validate() })
	q.record(line, c17Verdict(verr, vp))
	if vp || verr != nil {
		return
	}
	// the host tops every account up to at most the target
	total := new(big.Int).Mul(c17B(target), big.NewInt(int64(len(accounts))))
	if total.Cmp(c17W128) >= 0 {
		return
	}
	var rev types.V2FileContract
	var rerr error
	panicked, msg := fw.Recover(func() { rev, _, rerr = rhp4.ReviseForReplenish(fc, bigCur(total)) })
	if q.checkRevision("replenish", line, fc, rev, rerr, panicked, msg, c17U(fc.Filesize)) {
		q.onChain("replenish", line, fce, rev)
	}
}

func (q *c17Req) revisions(fc types.V2FileContract, p rhp4.HostPrices, fce *types.V2FileContractElement) {
	n := fc.Filesize / c17Sector
	for _, idx := range q.freeCases(n) {
		q.free(fc, p, idx, fce)
	}
	for _, k := range []int{0, 1, 2, 17} {
		q.appendSectors(fc, p, k, fce)
	}
	for _, ol := range [][2]uint64{{0, 0}, {0, 1}, {0, n}, {0, n + 1}, {n, 0}, {n, 1}, {n + 1, 0}, {n + 1, 1}, {1, n}, {c17MaxU64, 1}, {1, c17MaxU64},
		{0, rhp4.MaxSectorBatchSize}, {0, rhp4.MaxSectorBatchSize + 1}} {
		q.roots(fc, p, ol[0], ol[1], fce)
	}
	if n > 0 {
		q.roots(fc, p, n-1, 1, fce)
		q.roots(fc, p, n-1, 2, fce)
		q.roots(fc, p, 1, n-1, fce)
	}
	ro := fc.RenterOutput.Value
	one := types.NewCurrency64(1)
	dep := func(a byte, v types.Currency) rhp4.AccountDeposit { return rhp4.AccountDeposit{Account: rhp4.Account{a}, Amount: v} }
	many := func(k int) []rhp4.AccountDeposit {
		l := make([]rhp4.AccountDeposit, k)
		for i := range l {
			l[i] = dep(byte(1+i%200), one)
		}
		return l
	}
	for _, ds := range [][]rhp4.AccountDeposit{nil, {dep(1, one)}, {dep(1, ro)}, {dep(1, ro.Sub(one)), dep(2, one)}, {dep(1, ro), dep(2, one)}, {dep(0, one)}, {dep(1, types.ZeroCurrency)},
		{dep(1, one), dep(2, types.ZeroCurrency)}, many(rhp4.MaxAccountBatchSize), many(rhp4.MaxAccountBatchSize + 1)} {
		q.fund(fc, true, true, ds, fce)
	}
	q.fund(fc, false, true, many(1), fce)
	q.fund(fc, true, false, many(1), fce)
	accts := func(k int) []rhp4.Account {
		l := make([]rhp4.Account, k)
		for i := range l {
			l[i] = rhp4.Account{byte(1 + i%200)}
		}
		return l
	}
	for _, as := range [][]rhp4.Account{nil, accts(1), accts(3), {{}}, {{1}, {}}, accts(rhp4.MaxAccountBatchSize), accts(rhp4.MaxAccountBatchSize + 1)} {
		q.replenish(fc, true, true, as, one, fce)
	}
	q.replenish(fc, true, true, accts(1), types.ZeroCurrency, fce)
	q.replenish(fc, true, true, accts(1), ro, fce)
	q.replenish(fc, true, true, accts(2), ro, fce)
	q.replenish(fc, false, true, accts(1), one, fce)
	q.replenish(fc, true, false, accts(1), one, fce)
}

// ---------------------------------------------------------------- formation / renewal / refresh

func (q *c17Req) form(tip types.ChainIndex, p rhp4.HostPrices, fee types.Currency, basis types.ChainIndex, inputs int, params rhp4.RPCFormContractParams, maxColl types.Currency, maxDur uint64, chain bool) {
	line := fmt.Sprintf("rhp4v form %d %s %s %s %d %s %s %d %s %d", tip.Height, c17ShowPrices(p), flag(fee.IsZero()), flag(basis == (types.ChainIndex{})), inputs,
		params.Allowance.ExactString(), params.Collateral.ExactString(), params.ProofHeight, maxColl.ExactString(), maxDur)
	req := rhp4.RPCFormContractRequest{Prices: p, Contract: params, MinerFee: fee, Basis: basis, RenterInputs: make([]types.SiacoinElement, inputs)}
	var verr error
	vp, _ := fw.Recover(func() { verr = req.Validate(q.hostPK, tip, maxColl, maxDur) })
	q.record(line, c17Verdict(verr, vp))
	if vp || verr != nil {
		return
	}
	var fc types.V2FileContract
	var rc, hc types.Currency
	if panicked, msg := fw.Recover(func() {
		fc, _ = rhp4.NewContract(p, params, q.hostPK, q.ch.hostAddr)
		rc, hc = rhp4.ContractCost(q.ch.cs, fc, fee)
	}); panicked {
		if !strings.Contains(msg, "overflow") {
			q.breaks("form", "makes NewContract/ContractCost panic: "+msg, line, "no panic", "panic")
		}
		return
	}
	if why := c17ValidContract(fc, tip.Height+1); why != "" {
		q.breaks("form", "yields a contract that breaks a consensus rule: "+why, line, "valid", c17ShowFC(q.ch.tagged(fc)))
	}
	if fc.ExpirationHeight != fc.ProofHeight+rhp4.ProofWindow || fc.ExpirationHeight < fc.ProofHeight {
		q.breaks("form", "yields an expiration height that is not proof height + proof window (uint64 wrap-around)", line, "", c17ShowFC(q.ch.tagged(fc)))
	}
	if !chain || tip != q.ch.cs.Index {
		return
	}
	q.ch.signFC(&fc)
	txn := types.V2Transaction{FileContracts: []types.V2FileContract{fc}, MinerFee: fee}
	if !q.ch.fundByCosts(&txn, rc, hc) {
		return
	}
	q.c.Res.Count("req:form:on-chain")
	if err := q.ch.validate(consensus.NewMidState(q.ch.cs), txn); err != nil {
		q.breaks("form", "produces a formation transaction that consensus rejects", line, "accepted by ValidateV2Transaction", err.Error()+" | "+c17ShowFC(q.ch.tagged(fc)))
	}
}

func (q *c17Req) formCases(g c17Gen) {
	tip := q.ch.cs.Index
	one := types.NewCurrency64(1)
	fee := types.NewCurrency64(10)
	for _, tipOff := range []int64{0, -3, 4, -25} {
		if int64(tip.Height)+tipOff < 0 {
			tipOff = -int64(tip.Height) // a price table as old as the chain allows
		}
		p := q.sign(rhp4.HostPrices{ContractPrice: types.NewCurrency64(1000), Collateral: types.NewCurrency64(3), StoragePrice: types.NewCurrency64(2), TipHeight: uint64(int64(tip.Height) + tipOff)})
		mph := max(tip.Height, p.TipHeight) + rhp4.MinContractDuration
		base := rhp4.RPCFormContractParams{RenterPublicKey: q.ch.renter.PublicKey(), RenterAddress: q.ch.rentAddr, Allowance: types.Siacoins(10), Collateral: types.Siacoins(5), ProofHeight: mph}
		maxColl := types.Siacoins(100)
		// proof height boundaries
		// (also the bound computed from the OLDER of the two tips, and heights at / just above the host's tip: a stale
		// price table must not let a proof height through that consensus will call "already passed")
		for _, ph := range []uint64{min(tip.Height, p.TipHeight) + rhp4.MinContractDuration, tip.Height, tip.Height + 1, mph - 1, mph, mph + 1, c17MaxU64 - rhp4.ProofWindow - 1, c17MaxU64 - rhp4.ProofWindow, c17MaxU64 - rhp4.ProofWindow + 1, c17MaxU64} {
			x := base
			x.ProofHeight = ph
			q.form(tip, p, fee, tip, 1, x, maxColl, c17MaxU64, true)
		}
		// duration boundaries
		dur := mph + rhp4.ProofWindow - p.TipHeight
		for _, md := range []uint64{dur - 1, dur, dur + 1, 0} {
			q.form(tip, p, fee, tip, 1, base, maxColl, md, true)
		}
		// collateral / allowance boundaries
		for _, c := range []types.Currency{maxColl.Sub(one), maxColl, maxColl.Add(one), types.ZeroCurrency} {
			x := base
			x.Collateral = c
			x.Allowance = types.Siacoins(1000)
			q.form(tip, p, fee, tip, 1, x, maxColl, c17MaxU64, true)
		}
		var mra types.Currency
		fw.Recover(func() { mra = rhp4.MinRenterAllowance(p, base.Collateral) })
		for _, a := range []types.Currency{types.ZeroCurrency, one, mra.Sub(one), mra, mra.Add(one)} {
			x := base
			x.Allowance = a
			q.form(tip, p, fee, tip, 1, x, maxColl, c17MaxU64, true)
		}
		// request fields
		q.form(tip, p, types.ZeroCurrency, tip, 1, base, maxColl, c17MaxU64, true)
		q.form(tip, p, fee, types.ChainIndex{}, 1, base, maxColl, c17MaxU64, true)
		q.form(tip, p, fee, tip, 0, base, maxColl, c17MaxU64, true)
	}
	// maximal heights: tip and price tip next to 2^64
	for _, th := range []uint64{c17MaxU64 - rhp4.MinContractDuration - rhp4.ProofWindow - 1, c17MaxU64 - rhp4.MinContractDuration - rhp4.ProofWindow, c17MaxU64 - rhp4.MinContractDuration, c17MaxU64 - rhp4.MinContractDuration + 1, c17MaxU64} {
		ft := types.ChainIndex{Height: th, ID: types.BlockID{1}}
		p := q.sign(rhp4.HostPrices{ContractPrice: one, TipHeight: th})
		for _, ph := range []uint64{th + rhp4.MinContractDuration, c17MaxU64 - rhp4.ProofWindow, c17MaxU64} {
			q.form(ft, p, fee, ft, 1, rhp4.RPCFormContractParams{Allowance: one, ProofHeight: ph}, types.Siacoins(1), c17MaxU64, false)
		}
	}
	// a host tip far ahead of (or behind) the tip its signed price table was made at: the minimal proof height follows
	// the NEWER of the two, so whatever Validate lets through is still ahead of the host's child height
	for _, off := range []int64{-40, -25, -19, -18, -17, -1, 1, 30} {
		ft := types.ChainIndex{Height: 1000, ID: types.BlockID{2}}
		p := q.sign(rhp4.HostPrices{ContractPrice: one, TipHeight: uint64(1000 + off)})
		lo := min(ft.Height, p.TipHeight) + rhp4.MinContractDuration
		hi := max(ft.Height, p.TipHeight) + rhp4.MinContractDuration
		for _, ph := range []uint64{lo - 1, lo, lo + 1, ft.Height - 1, ft.Height, ft.Height + 1, hi - 1, hi, hi + 1} {
			q.form(ft, p, fee, ft, 1, rhp4.RPCFormContractParams{Allowance: one, ProofHeight: ph}, types.Siacoins(1), c17MaxU64, false)
		}
	}
	_ = g
}

func (q *c17Req) renewal(kind string, existing types.V2FileContract, fce *types.V2FileContractElement, tip types.ChainIndex, p rhp4.HostPrices, fee types.Currency, basis types.ChainIndex,
	allowance, collateral types.Currency, ph uint64, maxColl types.Currency, maxDur uint64) {
	var line string
	var verr error
	var vp bool
	switch kind {
	case "renew":
		line = fmt.Sprintf("rhp4v renew %d %s %s %s %s %s %d %d %d %s %d", tip.Height, c17ShowPrices(p), flag(fee.IsZero()), flag(basis == (types.ChainIndex{})),
			allowance.ExactString(), collateral.ExactString(), ph, existing.ProofHeight, existing.Filesize, maxColl.ExactString(), maxDur)
		req := rhp4.RPCRenewContractRequest{Prices: p, Renewal: rhp4.RPCRenewContractParams{Allowance: allowance, Collateral: collateral, ProofHeight: ph}, MinerFee: fee, Basis: basis}
		vp, _ = fw.Recover(func() { verr = req.Validate(q.hostPK, tip, existing, maxColl, maxDur) })
	default:
		line = fmt.Sprintf("rhp4v refresh %d %s %s %s %s %s %s %s %s", tip.Height, c17ShowPrices(p), flag(fee.IsZero()), flag(basis == (types.ChainIndex{})),
			allowance.ExactString(), collateral.ExactString(), c17ShowFC(q.ch.tagged(existing)), maxColl.ExactString(), flag(kind == "refresh-partial"))
		req := rhp4.RPCRefreshContractRequest{Prices: p, Refresh: rhp4.RPCRefreshContractParams{Allowance: allowance, Collateral: collateral}, MinerFee: fee, Basis: basis}
		vp, _ = fw.Recover(func() { verr = req.Validate(q.hostPK, tip, existing, maxColl, kind == "refresh-partial") })
	}
	q.record(line, c17Verdict(verr, vp))
	if vp || verr != nil {
		return
	}
	var rn types.V2FileContractRenewal
	var rc, hc types.Currency
	if panicked, msg := fw.Recover(func() {
		switch kind {
		case "renew":
			rn, _ = rhp4.RenewContract(existing, p, q.ch.hostAddr, rhp4.RPCRenewContractParams{Allowance: allowance, Collateral: collateral, ProofHeight: ph})
			rc, hc = rhp4.RenewalCost(q.ch.cs, rn, fee)
		case "refresh-partial":
			rn, _ = rhp4.RefreshContractPartialRollover(existing, p, q.ch.hostAddr, rhp4.RPCRefreshContractParams{Allowance: allowance, Collateral: collateral})
			rc, hc = rhp4.RefreshCost(q.ch.cs, p, rn, fee)
		default:
			rn, _ = rhp4.RefreshContractFullRollover(existing, p, q.ch.hostAddr, rhp4.RPCRefreshContractParams{Allowance: allowance, Collateral: collateral})
			rc, hc = rhp4.RefreshCost(q.ch.cs, p, rn, fee)
		}
	}); panicked {
		if !strings.Contains(msg, "overflow") {
			q.breaks(kind, "makes the renewal constructor or its cost function panic: "+msg, line, "no panic", "panic")
		}
		return
	}
	nc := rn.NewContract
	if why := c17ValidContract(nc, tip.Height+1); why != "" {
		q.breaks(kind, "yields a new contract that breaks a consensus rule: "+why, line, "valid", c17ShowFC(q.ch.tagged(nc)))
	}
	if c17Add(c17B(rn.FinalRenterOutput.Value), c17B(rn.RenterRollover), c17B(rn.FinalHostOutput.Value), c17B(rn.HostRollover)).Cmp(c17Add(c17B(existing.RenterOutput.Value), c17B(existing.HostOutput.Value))) != 0 {
		q.breaks(kind, "does not split the old contract's value exactly", line, "", c17ShowRenewal(rn))
	}
	if fce == nil || tip != q.ch.cs.Index {
		return
	}
	q.ch.signRenewal(&rn)
	txn := types.V2Transaction{FileContractResolutions: []types.V2FileContractResolution{{Parent: fce.Copy(), Resolution: &rn}}, MinerFee: fee}
	if !q.ch.fundByCosts(&txn, rc, hc) {
		return
	}
	q.c.Res.Count("req:" + kind + ":on-chain")
	if err := q.ch.validate(consensus.NewMidState(q.ch.cs), txn); err != nil {
		q.breaks(kind, "produces a renewal transaction that consensus rejects", line, "accepted by ValidateV2Transaction", err.Error()+" | "+q.ch.showRenewal(rn))
	}
}

func (q *c17Req) renewalCases(existing types.V2FileContract, fce *types.V2FileContractElement) {
	tip := q.ch.cs.Index
	one := types.NewCurrency64(1)
	fee := types.NewCurrency64(10)
	p := q.sign(rhp4.HostPrices{ContractPrice: types.NewCurrency64(1000), Collateral: types.NewCurrency64(3), StoragePrice: types.NewCurrency64(2), TipHeight: tip.Height})
	mph := tip.Height + rhp4.MinContractDuration
	maxColl := types.Siacoins(1000)
	a, c := types.Siacoins(10), types.Siacoins(5)
	// renew: proof height against the existing one and against the minimum
	for _, ph := range []uint64{existing.ProofHeight - 1, existing.ProofHeight, existing.ProofHeight + 1, mph - 1, mph, mph + 1, max(mph, existing.ProofHeight+1), c17MaxU64 - rhp4.ProofWindow, c17MaxU64 - rhp4.ProofWindow + 1} {
		q.renewal("renew", existing, fce, tip, p, fee, tip, a, c, ph, maxColl, c17MaxU64)
	}
	okPH := max(mph, existing.ProofHeight+1)
	dur := okPH + rhp4.ProofWindow - p.TipHeight
	for _, md := range []uint64{dur - 1, dur, dur + 1} {
		q.renewal("renew", existing, fce, tip, p, fee, tip, a, c, okPH, maxColl, md)
	}
	// total collateral (new + risked over the full duration) against the maximum
	risked := new(big.Int).Mul(new(big.Int).Mul(c17B(p.Collateral), c17U(existing.Filesize)), c17U(dur))
	if lim := c17Sub(c17B(maxColl), risked); lim.Sign() > 0 {
		for _, d := range []int64{-1, 0, 1} {
			q.renewal("renew", existing, fce, tip, p, fee, tip, types.Siacoins(100000), bigCur(c17Add(lim, big.NewInt(d))), okPH, maxColl, c17MaxU64)
		}
	}
	var mra types.Currency
	fw.Recover(func() { mra = rhp4.MinRenterAllowance(p, c) })
	for _, al := range []types.Currency{types.ZeroCurrency, one, mra.Sub(one), mra, mra.Add(one), existing.RenterOutput.Value, existing.RenterOutput.Value.Add(one)} {
		for _, kind := range []string{"renew", "refresh-partial", "refresh-full"} {
			q.renewal(kind, existing, fce, tip, p, fee, tip, al, c, okPH, maxColl, c17MaxU64)
		}
	}
	for _, kind := range []string{"renew", "refresh-partial", "refresh-full"} {
		q.renewal(kind, existing, fce, tip, p, types.ZeroCurrency, tip, a, c, okPH, maxColl, c17MaxU64)
		q.renewal(kind, existing, fce, tip, p, fee, types.ChainIndex{}, a, c, okPH, maxColl, c17MaxU64)
	}
	// refresh: existing proof height against minProofHeight (varied through the price tip), collateral against the maximum
	for _, off := range []int64{-1, 0, 1} {
		pt := q.sign(rhp4.HostPrices{ContractPrice: types.NewCurrency64(1000), Collateral: types.NewCurrency64(3), StoragePrice: types.NewCurrency64(2),
			TipHeight: uint64(int64(existing.ProofHeight-rhp4.MinContractDuration) + off)})
		for _, kind := range []string{"refresh-partial", "refresh-full"} {
			q.renewal(kind, existing, fce, tip, pt, fee, tip, a, c, 0, maxColl, 0)
		}
	}
	for _, kind := range []string{"refresh-partial", "refresh-full"} {
		locked := c17B(existing.TotalCollateral)
		if kind == "refresh-partial" {
			locked = c17Sub(c17B(existing.TotalCollateral), c17B(existing.MissedHostValue))
		}
		if lim := c17Sub(c17B(maxColl), locked); lim.Sign() > 0 {
			for _, d := range []int64{-1, 0, 1} {
				q.renewal(kind, existing, fce, tip, p, fee, tip, types.Siacoins(100000), bigCur(c17Add(lim, big.NewInt(d))), 0, maxColl, 0)
			}
		}
	}
}

// ---------------------------------------------------------------- read / write sector

func (q *c17Req) sectorIO() {
	acct := types.NewPrivateKeyFromSeed(make([]byte, 32))
	tok := rhp4.AccountToken{HostKey: q.hostPK, Account: rhp4.Account(acct.PublicKey()), ValidUntil: time.Now().Add(time.Hour)}
	tok.Signature = acct.SignHash(tok.SigHash())
	p := q.sign(rhp4.HostPrices{EgressPrice: types.NewCurrency64(3), IngressPrice: types.NewCurrency64(5), StoragePrice: types.NewCurrency64(2)})
	ss := uint64(rhp4.SectorSize)
	for _, ol := range [][2]uint64{{0, 0}, {0, 64}, {0, 63}, {0, 65}, {64, 64}, {1, 63}, {0, ss}, {0, ss + 64}, {ss, 0}, {ss - 64, 64}, {ss - 64, 128}, {ss, 64}, {ss + 64, 64}, {c17MaxU64 - 63, 64}, {64, c17MaxU64 - 63}} {
		line := fmt.Sprintf("rhp4v read %d %d", ol[0], ol[1])
		req := rhp4.RPCReadSectorRequest{Prices: p, Token: tok, Offset: ol[0], Length: ol[1]}
		var verr error
		vp, _ := fw.Recover(func() { verr = req.Validate(q.hostPK) })
		q.record(line, c17Verdict(verr, vp))
		if vp || verr != nil {
			continue
		}
		if ol[0]+ol[1] > ss || ol[0]+ol[1] < ol[0] {
			q.breaks("read", "reads beyond the sector", line, "offset+length <= sector size", fmt.Sprint(ol))
		}
		var u rhp4.Usage
		if panicked, msg := fw.Recover(func() { u = p.RPCReadSectorCost(ol[1]) }); panicked {
			q.breaks("read", "makes RPCReadSectorCost panic: "+msg, line, "no panic", "panic")
		} else if c17B(u.Egress).Cmp(new(big.Int).Mul(c17B(p.EgressPrice), c17U(ol[1]))) < 0 || c17Cost(u).Cmp(c17B(u.Egress)) != 0 {
			q.breaks("read", "is charged less than price x length, or something besides egress", line, "", c17ShowUsage(u))
		}
	}
	for _, dl := range []uint64{0, 1, 63, 64, 65, 128, ss - 64, ss, ss + 64, c17MaxU64 - 63} {
		line := fmt.Sprintf("rhp4v write %d", dl)
		req := rhp4.RPCWriteSectorRequest{Prices: p, Token: tok, DataLength: dl}
		var verr error
		vp, _ := fw.Recover(func() { verr = req.Validate(q.hostPK) })
		q.record(line, c17Verdict(verr, vp))
		if vp || verr != nil {
			continue
		}
		if dl > ss {
			q.breaks("write", "writes more than a sector", line, "<= sector size", fmt.Sprint(dl))
		}
		var u rhp4.Usage
		if panicked, msg := fw.Recover(func() { u = p.RPCWriteSectorCost(dl) }); panicked {
			q.breaks("write", "makes RPCWriteSectorCost panic: "+msg, line, "no panic", "panic")
		} else if c17B(u.Ingress).Cmp(new(big.Int).Mul(c17B(p.IngressPrice), c17U(dl))) < 0 {
			q.breaks("write", "is charged less than price x length", line, "", c17ShowUsage(u))
		}
	}
}

// ---------------------------------------------------------------- driver

// grow mines a revision appending n sectors to the chain contract id.
func (q *c17Req) grow(id types.FileContractID, p rhp4.HostPrices, n uint64) bool {
	fce, ok := q.ch.fces[id]
	if !ok {
		return false
	}
	rev, _, err := rhp4.ReviseForAppendSectors(fce.V2FileContract, p, types.Hash256{9}, n)
	if err != nil {
		return false
	}
	q.ch.signFC(&rev)
	txn := types.V2Transaction{FileContractRevisions: []types.V2FileContractRevision{{Parent: fce.Copy(), Revision: rev}}}
	if q.ch.validate(consensus.NewMidState(q.ch.cs), txn) != nil {
		return false
	}
	return q.ch.mine([]types.V2Transaction{txn}) == nil
}

func c17Requests(c *fw.Ctx) {
	res := c.Res
	g := c17Gen{c}
	q := &c17Req{c: c, ch: c17NewChain(c, 0)}
	q.hostPK = q.ch.host.PublicKey()
	ch := q.ch

	// ---- off chain: contracts of many shapes (funds ample, prices small or zero)
	big100 := bigCur(new(big.Int).Lsh(big.NewInt(1), 100))
	shapes := []uint64{0, 1, 2, 5, rhp4.MaxSectorBatchSize - 1, rhp4.MaxSectorBatchSize, rhp4.MaxSectorBatchSize + 1}
	for i := 0; i < c.Budget(3, 40); i++ {
		shapes = append(shapes, uint64(c.Rng.Intn(2000)))
	}
	for si, n := range shapes {
		for _, spare := range []uint64{0, c17Sector - 1, c17Sector, 3*c17Sector + 5} {
			for _, rem := range []uint64{0, 1, c17Sector - 1} { // filesize need not be a whole number of sectors
				if (si > 6 && (spare != 0 || rem != 0) && c.Rng.Intn(3) != 0) || (n > 5000 && (spare != 0 || rem != 0)) {
					continue
				}
				fc := types.V2FileContract{Filesize: n*c17Sector + rem, Capacity: n*c17Sector + rem + spare, ProofHeight: 1000, ExpirationHeight: 1144,
					RenterOutput: types.SiacoinOutput{Value: big100}, HostOutput: types.SiacoinOutput{Value: big100}, MissedHostValue: big100, TotalCollateral: big100,
					RenterPublicKey: ch.renter.PublicKey(), HostPublicKey: q.hostPK, RevisionNumber: uint64(c.Rng.Intn(1000))}
				p := q.sign(rhp4.HostPrices{FreeSectorPrice: types.NewCurrency64(uint64(c.Rng.Intn(3))), StoragePrice: types.NewCurrency64(uint64(c.Rng.Intn(3))),
					Collateral: types.NewCurrency64(uint64(c.Rng.Intn(3))), EgressPrice: types.NewCurrency64(uint64(c.Rng.Intn(3))), IngressPrice: types.NewCurrency64(1), TipHeight: 900})
				q.revisions(fc, p, nil)
				if n >= rhp4.MaxSectorBatchSize-1 && rem == 0 && spare == 0 { // count boundaries: max-1, max, max+1 distinct indices
					for _, k := range []uint64{rhp4.MaxSectorBatchSize - 1, rhp4.MaxSectorBatchSize, rhp4.MaxSectorBatchSize + 1} {
						q.free(fc, p, c17Range(0, k), nil)
					}
				}
			}
		}
	}
	emptyFC := types.V2FileContract{ProofHeight: 1000, ExpirationHeight: 1144, RenterOutput: types.SiacoinOutput{Value: big100}, HostOutput: types.SiacoinOutput{Value: big100},
		MissedHostValue: big100, TotalCollateral: big100}
	pz := q.sign(rhp4.HostPrices{TipHeight: 900})
	for _, k := range []int{rhp4.MaxSectorBatchSize - 1, rhp4.MaxSectorBatchSize, rhp4.MaxSectorBatchSize + 1} {
		q.appendSectors(emptyFC, pz, k, nil)
	}
	q.sectorIO()

	// ---- on chain: a real contract, grown to 0 / 1 / 4 sectors, every validated request judged by consensus
	tip := ch.cs.Index
	p := q.sign(rhp4.HostPrices{ContractPrice: types.NewCurrency64(1000), Collateral: types.NewCurrency64(3), StoragePrice: types.NewCurrency64(2), IngressPrice: types.NewCurrency64(1),
		EgressPrice: types.NewCurrency64(1), FreeSectorPrice: types.NewCurrency64(7), TipHeight: tip.Height})
	params := rhp4.RPCFormContractParams{RenterPublicKey: ch.renter.PublicKey(), RenterAddress: ch.rentAddr, Allowance: types.Siacoins(1000), Collateral: types.Siacoins(500),
		ProofHeight: tip.Height + rhp4.MinContractDuration + 30}
	fee := types.NewCurrency64(10)
	fc, _ := rhp4.NewContract(p, params, q.hostPK, ch.hostAddr)
	rc, hc := rhp4.ContractCost(ch.cs, fc, fee)
	ch.signFC(&fc)
	ftxn := types.V2Transaction{FileContracts: []types.V2FileContract{fc}, MinerFee: fee}
	if !ch.fundByCosts(&ftxn, rc, hc) || ch.validate(consensus.NewMidState(ch.cs), ftxn) != nil || ch.mine([]types.V2Transaction{ftxn}) != nil {
		res.Note("c17Requests: could not create the on-chain contract")
	} else {
		id := ftxn.V2FileContractID(ftxn.ID(), 0)
		for _, growBy := range []uint64{0, 1, 3} {
			if growBy > 0 && !q.grow(id, p, growBy) {
				break
			}
			fce, ok := ch.fces[id]
			if !ok {
				break
			}
			pp := p
			pp.TipHeight = ch.cs.Index.Height
			pp = q.sign(pp)
			q.revisions(fce.V2FileContract, pp, &fce)
			q.renewalCases(fce.V2FileContract, &fce)
		}
	}
	q.formCases(g)
	c.Compare(q.lines, q.outs)
}
