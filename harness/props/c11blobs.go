package props

// Directed sizes for variable-length fields (C11): every []byte / string field, and
// every slice of small elements, of every codec type is given sizes that straddle the
// internal buffer sizes of types.Encoder and types.Decoder (taken from the generated
// facts `encoderBufSize` / `decoderBufSize`, not hard-coded) — n-1, n, n+1, 2n, 2n+1 —
// and a few multi-KiB sizes, on freshly generated values so that the number of bytes
// pending in the encoder before the blob varies.

import (
	"fmt"
	"reflect"
	"strconv"
	"strings"

	"verif/harness/internal/fw"
)

type c11Consts struct {
	encBuf, decBuf, rhp2Min, rhp3Min, rhp4Err, chunk int
}

// c11GetConsts asks the model for the generated constants (fallback: the values at
// the pinned commit, with a note).
func c11GetConsts(c *fw.Ctx) c11Consts {
	k := c11Consts{1024, 64, 4096, 1024, 1024, 16384}
	if c.Model == nil {
		c.Res.Note("no model: buffer/frame constants assumed %v", k)
		return k
	}
	out, err := c.Model.Eval([]string{"frame consts"})
	if err != nil || len(out) != 1 {
		c.Res.Note("model gave no constants: assumed %v", k)
		return k
	}
	f := strings.Fields(out[0])
	if len(f) != 6 {
		c.Res.Note("model gave no constants (%q): assumed %v", out[0], k)
		return k
	}
	v := make([]int, 6)
	for i := range f {
		v[i], _ = strconv.Atoi(f[i])
	}
	return c11Consts{v[0], v[1], v[2], v[3], v[4], v[5]}
}

func (k c11Consts) blobSizes() []int {
	var out []int
	for _, b := range []int{k.decBuf, k.encBuf} {
		out = append(out, b-1, b, b+1, 2*b, 2*b+1)
	}
	return append(out, 3*k.encBuf-8, 5000, 9*k.encBuf+3)
}

type c11Site struct {
	path string
	set  func(g *c11Gen, n int)
	blob bool // byte string (else: slice of small elements, n = element count)
}

func c11Opaque(t reflect.Type) bool {
	return t == c11tTime || t == c11tCurrency || t == c11tPolicy || t == c11tWork || t == c11tV2Data || t == c11tOutline ||
		(t.Kind() == reflect.Struct && t.ConvertibleTo(c11tTime))
}

// c11Sites lists the variable-length sites of v (addressable), forcing nil pointers
// and empty slices of structs to hold one element so that nested sites exist.
func c11Sites(g *c11Gen, v reflect.Value, path string, depth int, out *[]c11Site) {
	t := v.Type()
	if depth > 6 || c11Opaque(t) {
		return
	}
	switch t.Kind() {
	case reflect.String:
		vv := v
		*out = append(*out, c11Site{path, func(g *c11Gen, n int) { vv.SetString(strings.Repeat("s", n)) }, true})
	case reflect.Slice:
		vv := v
		et := t.Elem()
		switch {
		case et.Kind() == reflect.Uint8:
			*out = append(*out, c11Site{path, func(g *c11Gen, n int) { vv.Set(reflect.ValueOf(g.bytesN(n)).Convert(t)) }, true})
		case et.Kind() == reflect.Struct && !c11Opaque(et) || et.Kind() == reflect.Slice:
			if v.Len() == 0 {
				s := reflect.MakeSlice(t, 1, 1)
				g.fill(s.Index(0), 2)
				v.Set(s)
			}
			c11Sites(g, v.Index(0), path+"[0]", depth+1, out)
		default:
			// slice of small fixed-size elements: the element COUNT is the size
			*out = append(*out, c11Site{path, func(g *c11Gen, n int) {
				s := reflect.MakeSlice(t, n, n)
				for i := 0; i < n; i++ {
					g.fill(s.Index(i), 1)
				}
				vv.Set(s)
			}, false})
		}
	case reflect.Ptr:
		if t.Elem().Name() == "Network" {
			return
		}
		if v.IsNil() {
			p := reflect.New(t.Elem())
			g.fill(p.Elem(), 2)
			v.Set(p)
		}
		c11Sites(g, v.Elem(), path, depth+1, out)
	case reflect.Interface:
		if !v.IsNil() && v.Elem().Kind() == reflect.Ptr && t != c11tError {
			c11Sites(g, v.Elem().Elem(), path, depth+1, out)
		}
	case reflect.Struct:
		for i := 0; i < t.NumField(); i++ {
			if t.Field(i).IsExported() {
				c11Sites(g, v.Field(i), path+"."+t.Field(i).Name, depth+1, out)
			}
		}
	}
}

// c11TopSites: the sites of a codec object (only the fields in play for gateway halves).
func c11TopSites(g *c11Gen, ct c11Codec, v reflect.Value, out *[]c11Site) {
	if len(ct.fields) == 0 {
		c11Sites(g, v, "", 0, out)
		return
	}
	for _, f := range ct.fields {
		c11Sites(g, v.FieldByName(f), "."+f, 1, out)
	}
}

// c11Blobs runs the per-value oracle on values with directed sizes.
func c11Blobs(c *fw.Ctx, g *c11Gen, ct c11Codec, k c11Consts, modelled bool, model *c11Model) {
	if ct.gen != nil && ct.norm == nil {
		return // custom objects without a normal-form hook (multiproof contexts): covered by their parts
	}
	probe := ct.generate(g)
	var sites []c11Site
	c11TopSites(g, ct, reflect.ValueOf(probe).Elem(), &sites)
	if len(sites) == 0 {
		return
	}
	maxSites := c.Budget(3, 1000)
	start := 0
	if len(sites) > maxSites {
		start = g.rng.Intn(len(sites))
	}
	for si := 0; si < len(sites) && si < maxSites; si++ {
		idx := (start + si) % len(sites)
		for _, n := range k.blobSizes() {
			// a fresh value each time: the bytes pending before the blob vary
			p := ct.generate(g)
			var ss []c11Site
			c11TopSites(g, ct, reflect.ValueOf(p).Elem(), &ss)
			if idx >= len(ss) || ss[idx].path != sites[idx].path {
				continue
			}
			cnt := n
			if !ss[idx].blob {
				cnt = n / 32 // element count of a slice of small elements
				if n%2 == 1 {
					cnt++
				}
			}
			ss[idx].set(g, cnt)
			v := reflect.ValueOf(p).Elem()
			c11NormaliseDeep(g, v, 0)
			if ct.norm != nil {
				ct.norm(p)
			}
			c.Res.Count("directed-size:" + fmt.Sprint(n))
			c11CheckValue(c, g, ct, p, modelled && n <= 2*k.encBuf+1, model, nil, "directed "+sites[idx].path)
		}
	}
}

// c11NormaliseDeep re-establishes the normal form of every struct on the way down.
func c11NormaliseDeep(g *c11Gen, v reflect.Value, depth int) {
	if depth > 12 {
		return
	}
	switch v.Kind() {
	case reflect.Struct:
		if c11Opaque(v.Type()) {
			return
		}
		for i := 0; i < v.NumField(); i++ {
			if v.Type().Field(i).IsExported() {
				c11NormaliseDeep(g, v.Field(i), depth+1)
			}
		}
		g.normaliseIf(v)
	case reflect.Ptr, reflect.Interface:
		if !v.IsNil() && v.Elem().Kind() == reflect.Ptr {
			c11NormaliseDeep(g, v.Elem().Elem(), depth+1)
		} else if !v.IsNil() && v.Kind() == reflect.Ptr {
			c11NormaliseDeep(g, v.Elem(), depth+1)
		}
	case reflect.Slice:
		if k := v.Type().Elem().Kind(); k == reflect.Struct || k == reflect.Interface || k == reflect.Ptr {
			for i := 0; i < v.Len(); i++ {
				c11NormaliseDeep(g, v.Index(i), depth+1)
			}
		}
	}
}
