package props

// C17 end to end: constructor output -> real signed v2 transactions -> real
// consensus (ValidateV2Transaction, ValidateBlock) on a real mined chain.
//
// The chain is built with the exported API only (ApplyBlock, ApplyUpdate diffs,
// UpdateElementProof), the way consensus/validation_test.go does. One
// anyone-can-spend "bank" output funds every transaction; the change output is
// computed from the rhp cost functions (ContractCost/RenewalCost/RefreshCost), so
// acceptance also proves that renter cost + host cost (+ rollover) fund the new
// contract, its tax and the miner fee EXACTLY (consensus demands inputs == outputs).
//
// Every request first passes the RPC's own Validate (prices really signed).
// Every transaction is also put to the hand model Sia.Ledger.validate* (verdict
// must agree), and so is a set of mutations violating one consensus rule each.

import (
	"fmt"
	"math/big"
	"strings"
	"time"

	"go.sia.tech/core/consensus"
	rhp4 "go.sia.tech/core/rhp/v4"
	"go.sia.tech/core/types"
	"verif/harness/internal/fw"
)

type c17Chain struct {
	c        *fw.Ctx
	n        *consensus.Network
	cs       consensus.State
	bank     types.SiacoinElement
	renter   types.PrivateKey
	host     types.PrivateKey
	other    types.PrivateKey
	hostAddr types.Address
	rentAddr types.Address
	ts       time.Time
	fces     map[types.FileContractID]types.V2FileContractElement
	// model tie
	lines []string
	outs  []string
	seq   int
}

func c17Seed(c *fw.Ctx) []byte {
	b := make([]byte, 32)
	c.Rng.Read(b)
	return b
}

func c17NewChain(c *fw.Ctx, eph uint64) *c17Chain {
	n := &consensus.Network{
		Name:            "c17net",
		InitialCoinbase: types.Siacoins(300000),
		MinimumCoinbase: types.Siacoins(300000),
		InitialTarget:   types.BlockID{0xFF},
		BlockInterval:   10 * time.Millisecond,
		MaturityDelay:   5,
	}
	n.HardforkDevAddr.Height = 1
	n.HardforkTax.Height = 0
	n.HardforkStorageProof.Height = 3
	n.HardforkOak.Height = 0
	n.HardforkOak.FixHeight = 5
	n.HardforkOak.GenesisTimestamp = time.Unix(1618033988, 0)
	n.HardforkASIC.Height = 6
	n.HardforkASIC.OakTime = 10000 * time.Second
	n.HardforkASIC.OakTarget = n.InitialTarget
	n.HardforkASIC.NonceFactor = 1009
	n.HardforkFoundation.Height = 0
	n.HardforkFoundation.PrimaryAddress = types.AnyoneCanSpend().Address()
	n.HardforkFoundation.FailsafeAddress = types.VoidAddress
	n.HardforkV2.AllowHeight = 0
	n.HardforkV2.RequireHeight = 0
	n.HardforkV2.FinalCutHeight = 1 << 40
	n.HardforkV2.EphemeralOutputHeight = eph

	ch := &c17Chain{c: c, n: n, fces: map[types.FileContractID]types.V2FileContractElement{}}
	ch.renter = types.NewPrivateKeyFromSeed(c17Seed(c))
	ch.host = types.NewPrivateKeyFromSeed(c17Seed(c))
	ch.other = types.NewPrivateKeyFromSeed(c17Seed(c))
	ch.hostAddr = types.StandardAddress(ch.host.PublicKey())
	ch.rentAddr = types.StandardAddress(ch.renter.PublicKey())
	bankValue := bigCur(new(big.Int).Lsh(big.NewInt(1), 124))
	genesis := types.Block{Timestamp: n.HardforkOak.GenesisTimestamp}
	gtxn := types.V2Transaction{SiacoinOutputs: []types.SiacoinOutput{{Address: types.AnyoneCanSpend().Address(), Value: bankValue}}}
	genesis.V2 = &types.V2BlockData{Transactions: []types.V2Transaction{gtxn}}
	cs, au := consensus.ApplyBlock(n.GenesisState(), genesis, consensus.V1BlockSupplement{}, time.Time{})
	ch.cs = cs
	want := gtxn.EphemeralSiacoinOutput(0).ID
	for _, d := range au.SiacoinElementDiffs() {
		if d.SiacoinElement.ID == want {
			ch.bank = d.SiacoinElement.Copy()
		}
	}
	ch.ts = genesis.Timestamp
	return ch
}

func (ch *c17Chain) childHeight() uint64 { return ch.cs.Index.Height + 1 }

// mine puts txns into a block, validates the block with the real ValidateBlock and
// applies it; tracked elements are updated from the apply update.
func (ch *c17Chain) mine(txns []types.V2Transaction) error {
	cs := ch.cs
	ch.ts = ch.ts.Add(ch.n.BlockInterval)
	fees := types.ZeroCurrency
	for _, t := range txns {
		fees = fees.Add(t.MinerFee)
	}
	b := types.Block{
		ParentID:     cs.Index.ID,
		Timestamp:    ch.ts,
		MinerPayouts: []types.SiacoinOutput{{Address: types.VoidAddress, Value: cs.BlockReward().Add(fees)}},
		V2:           &types.V2BlockData{Height: cs.Index.Height + 1, Transactions: txns},
	}
	b.V2.Commitment = cs.Commitment(b.MinerPayouts[0].Address, b.Transactions, b.V2Transactions())
	for b.Nonce%cs.NonceFactor() != 0 {
		b.Nonce++
	}
	for b.ID().CmpWork(cs.PoWTarget()) < 0 {
		b.Nonce += cs.NonceFactor()
	}
	if err := consensus.ValidateBlock(cs, b, consensus.V1BlockSupplement{}); err != nil {
		return err
	}
	ncs, au := consensus.ApplyBlock(cs, b, consensus.V1BlockSupplement{}, time.Time{})
	ch.cs = ncs
	bankSpent := false
	for _, d := range au.SiacoinElementDiffs() {
		if d.SiacoinElement.ID == ch.bank.ID && d.Spent {
			bankSpent = true
		}
	}
	if bankSpent {
		for _, d := range au.SiacoinElementDiffs() {
			if d.Created && !d.Spent && d.SiacoinElement.SiacoinOutput.Address == types.AnyoneCanSpend().Address() && d.SiacoinElement.MaturityHeight <= ncs.Index.Height+1 {
				ch.bank = d.SiacoinElement.Copy()
			}
		}
	} else {
		au.UpdateElementProof(&ch.bank.StateElement)
	}
	touched := map[types.FileContractID]bool{}
	for _, d := range au.V2FileContractElementDiffs() {
		id := d.V2FileContractElement.ID
		touched[id] = true
		switch {
		case d.Resolution != nil:
			delete(ch.fces, id)
		case d.Revision != nil:
			e := d.V2FileContractElement.Copy()
			e.V2FileContract = *d.Revision
			ch.fces[id] = e
		default:
			ch.fces[id] = d.V2FileContractElement.Copy()
		}
	}
	for id, e := range ch.fces {
		if !touched[id] {
			au.UpdateElementProof(&e.StateElement)
			ch.fces[id] = e
		}
	}
	ch.c.Res.Count("e2e:blocks-mined")
	return nil
}

func (ch *c17Chain) signFC(fc *types.V2FileContract) {
	h := ch.cs.ContractSigHash(*fc)
	fc.RenterSignature = ch.renter.SignHash(h)
	fc.HostSignature = ch.host.SignHash(h)
}

func (ch *c17Chain) signRenewal(r *types.V2FileContractRenewal) {
	ch.signFC(&r.NewContract)
	h := ch.cs.RenewalSigHash(*r)
	r.RenterSignature = ch.renter.SignHash(h)
	r.HostSignature = ch.host.SignHash(h)
}

// tagged: the contract with its keys replaced by the model's one-byte key tags
func (ch *c17Chain) tagged(fc types.V2FileContract) types.V2FileContract {
	tag := func(k types.PublicKey) types.PublicKey {
		switch k {
		case ch.renter.PublicKey():
			return c17Key(1)
		case ch.host.PublicKey():
			return c17Key(2)
		}
		return c17Key(3)
	}
	fc.RenterPublicKey, fc.HostPublicKey = tag(fc.RenterPublicKey), tag(fc.HostPublicKey)
	return fc
}

func (ch *c17Chain) showFC(fc types.V2FileContract) string { return c17ShowFC(ch.tagged(fc)) }
func (ch *c17Chain) showRenewal(r types.V2FileContractRenewal) string {
	r.NewContract = ch.tagged(r.NewContract)
	return c17ShowRenewal(r)
}

// c17Canon reduces a consensus error to the verdict line of the hand model.
func c17Canon(err error) string {
	if err == nil {
		return "accept"
	}
	s := err.Error()
	has := func(xs ...string) bool {
		for _, x := range xs {
			if !strings.Contains(s, x) {
				return false
			}
		}
		return true
	}
	prefix := ""
	if has("initial revision") {
		prefix = "initial-revision-"
	}
	var m string
	switch {
	case has("decreases capacity"):
		m = "decreases-capacity"
	case has("filesize", "exceeding capacity"):
		m = "filesize-exceeding-capacity"
	case has("proof window has opened"), has("cannot be applied to contract after proof height"):
		m = "revises-contract-after-its-proof-window-has-opened"
	case has("does not increase revision number"):
		m = "does-not-increase-revision-number"
	case has("modifies output sum"):
		m = "modifies-output-sum"
	case has("missed host value", "exceeding old value"):
		m = "missed-host-value-exceeding-old-value"
	case has("missed host value", "exceeding valid host value"):
		m = "missed-host-value-exceeding-valid-host-value"
	case has("modifies total collateral"):
		m = "modifies-total-collateral"
	case has("total collateral", "exceeding valid host value"):
		m = "total-collateral-exceeding-valid-host-value"
	case has("proof height", "already passed"):
		m = "proof-height-has-already-passed"
	case has("leaves no time between"):
		m = "no-time-between-proof-and-expiration-height"
	case has("zero value"):
		m = "zero-value"
	case has("changes renter public key"):
		m = "changes-renter-public-key"
	case has("changes host public key"):
		m = "changes-host-public-key"
	case has("does not match existing contract payout"):
		m = "renewal-payout-does-not-match-existing-contract-payout"
	case has("exceeding new contract cost"):
		m = "rollover-exceeding-new-contract-cost"
	default:
		return "other-reject " + strings.ReplaceAll(s, " ", "-")
	}
	return "reject " + prefix + m
}

// fund sets the single change output so that inputs == outputs per the statement:
// bank + rollovers = change + sum(new renter + new host + tax) + fee.
func (ch *c17Chain) fund(txn *types.V2Transaction) bool {
	need := new(big.Int).Set(c17B(txn.MinerFee))
	for _, fc := range txn.FileContracts {
		need.Add(need, c17Add(c17B(fc.RenterOutput.Value), c17B(fc.HostOutput.Value), c17Tax(fc)))
	}
	for _, res := range txn.FileContractResolutions {
		if r, ok := res.Resolution.(*types.V2FileContractRenewal); ok {
			need.Add(need, c17Add(c17B(r.NewContract.RenterOutput.Value), c17B(r.NewContract.HostOutput.Value), c17Tax(r.NewContract)))
			need.Sub(need, c17Add(c17B(r.RenterRollover), c17B(r.HostRollover)))
		}
	}
	change := c17Sub(c17B(ch.bank.SiacoinOutput.Value), need)
	if change.Sign() <= 0 || change.Cmp(c17W128) >= 0 {
		return false
	}
	txn.SiacoinInputs = []types.V2SiacoinInput{{Parent: ch.bank.Copy(), SatisfiedPolicy: types.SatisfiedPolicy{Policy: types.AnyoneCanSpend()}}}
	txn.SiacoinOutputs = []types.SiacoinOutput{{Address: types.AnyoneCanSpend().Address(), Value: bigCur(change)}}
	return true
}

// fundByCosts: change = bank - (renter cost + host cost) as reported by the rhp cost functions.
func (ch *c17Chain) fundByCosts(txn *types.V2Transaction, renterCost, hostCost types.Currency) bool {
	change := c17Sub(c17B(ch.bank.SiacoinOutput.Value), c17Add(c17B(renterCost), c17B(hostCost)))
	if change.Sign() <= 0 {
		return false
	}
	txn.SiacoinInputs = []types.V2SiacoinInput{{Parent: ch.bank.Copy(), SatisfiedPolicy: types.SatisfiedPolicy{Policy: types.AnyoneCanSpend()}}}
	txn.SiacoinOutputs = []types.SiacoinOutput{{Address: types.AnyoneCanSpend().Address(), Value: bigCur(change)}}
	return true
}

// tie records a model op line with the verdict of the real consensus code.
func (ch *c17Chain) tie(line string, err error) {
	ch.lines = append(ch.lines, line)
	ch.outs = append(ch.outs, c17Canon(err))
	ch.c.Res.Eval(line, true)
	if err == nil {
		ch.c.Res.Count("e2e-tie:accept")
	} else {
		ch.c.Res.Count("e2e-tie:" + c17Canon(err))
	}
}

func (ch *c17Chain) validate(ms *consensus.MidState, txn types.V2Transaction) (err error) {
	panicked, msg := fw.Recover(func() { err = consensus.ValidateV2Transaction(ms, txn) })
	if panicked {
		return fmt.Errorf("PANIC in ValidateV2Transaction: %s", msg)
	}
	return
}

func (ch *c17Chain) prices(g c17Gen) rhp4.HostPrices {
	p := g.prices(ch.cs.Index.Height)
	p.ValidUntil = time.Now().Add(time.Hour)
	p.Signature = ch.host.SignHash(p.SigHash())
	return p
}

func (ch *c17Chain) replay() map[string]any {
	return map[string]any{"kind": "e2e", "seed": ch.c.Seed, "sequence": ch.seq}
}

func (ch *c17Chain) reject(key, what string, err error, detail string) {
	ch.c.Res.Violate(fw.Violation{Key: key, What: what, Replay: ch.replay(), Expected: "accepted by consensus", Observed: fmt.Sprintf("%v (%s)", err, detail)})
}

// formation mutations: one validateContract rule each
func (ch *c17Chain) mutateContract(fc types.V2FileContract, k int) (types.V2FileContract, bool) {
	switch k {
	case 0:
		fc.Filesize = fc.Capacity + 1
	case 1:
		if ch.childHeight() == 0 {
			return fc, false
		}
		fc.ProofHeight = ch.childHeight() - 1
	case 2:
		fc.ExpirationHeight = fc.ProofHeight
	case 3:
		fc.RenterOutput.Value, fc.HostOutput.Value, fc.MissedHostValue, fc.TotalCollateral = types.ZeroCurrency, types.ZeroCurrency, types.ZeroCurrency, types.ZeroCurrency
	case 4:
		fc.MissedHostValue = fc.HostOutput.Value.Add(types.NewCurrency64(1))
	case 5:
		fc.TotalCollateral = fc.HostOutput.Value.Add(types.NewCurrency64(1))
	default:
		return fc, false
	}
	return fc, true
}

// revision mutations: one validateRevision rule each (cur = contract being revised)
func (ch *c17Chain) mutateRevision(cur, rev types.V2FileContract, k int) (types.V2FileContract, bool) {
	one := types.NewCurrency64(1)
	switch k {
	case 0:
		if cur.Capacity == 0 {
			return rev, false
		}
		rev.Capacity = cur.Capacity - 1
		if rev.Filesize > rev.Capacity {
			rev.Filesize = rev.Capacity
		}
	case 1:
		rev.Filesize = rev.Capacity + 1
	case 2:
		rev.RevisionNumber = cur.RevisionNumber
	case 3:
		rev.RenterOutput.Value = rev.RenterOutput.Value.Add(one)
	case 4:
		rev.MissedHostValue = cur.MissedHostValue.Add(one)
		if rev.MissedHostValue.Cmp(rev.HostOutput.Value) > 0 {
			return rev, false
		}
	case 5: // missed host value above the (lowered) valid host value, sum kept
		if rev.MissedHostValue.IsZero() {
			return rev, false
		}
		newHost := rev.MissedHostValue.Sub(one)
		if newHost.Cmp(rev.HostOutput.Value) > 0 {
			return rev, false
		}
		delta := rev.HostOutput.Value.Sub(newHost)
		rev.HostOutput.Value = newHost
		rev.RenterOutput.Value = rev.RenterOutput.Value.Add(delta)
	case 6:
		rev.TotalCollateral = rev.TotalCollateral.Add(one)
	case 7:
		if ch.childHeight() == 0 {
			return rev, false
		}
		rev.ProofHeight = ch.childHeight() - 1
	case 8:
		rev.ExpirationHeight = rev.ProofHeight
	default:
		return rev, false
	}
	return rev, true
}

func (ch *c17Chain) mutateRenewal(old types.V2FileContract, r types.V2FileContractRenewal, k int) (types.V2FileContractRenewal, bool) {
	one := types.NewCurrency64(1)
	switch k {
	case 0:
		r.NewContract.RenterPublicKey = ch.other.PublicKey()
	case 1:
		r.NewContract.HostPublicKey = ch.other.PublicKey()
	case 2:
		r.FinalRenterOutput.Value = r.FinalRenterOutput.Value.Add(one)
	case 3: // everything rolled over into a contract worth one hasting
		r.RenterRollover, r.HostRollover = old.RenterOutput.Value, old.HostOutput.Value
		r.FinalRenterOutput.Value, r.FinalHostOutput.Value = types.ZeroCurrency, types.ZeroCurrency
		r.NewContract.RenterOutput.Value, r.NewContract.HostOutput.Value = one, types.ZeroCurrency
		r.NewContract.MissedHostValue, r.NewContract.TotalCollateral = types.ZeroCurrency, types.ZeroCurrency
		if c17Add(c17B(old.RenterOutput.Value), c17B(old.HostOutput.Value)).Cmp(big.NewInt(1)) <= 0 {
			return r, false
		}
	case 4:
		r.NewContract.Filesize = r.NewContract.Capacity + 1
	case 5:
		r.NewContract.MissedHostValue = r.NewContract.HostOutput.Value.Add(one)
	default:
		return r, false
	}
	return r, true
}

// sequence runs one contract life on the chain.
func (ch *c17Chain) sequence(g c17Gen) {
	c, res := ch.c, ch.c.Res
	ch.seq++
	tip := ch.cs.Index
	hostPK, renterPK := ch.host.PublicKey(), ch.renter.PublicKey()
	p := ch.prices(g)
	maxColl := bigCur(new(big.Int).Lsh(big.NewInt(1), 110))
	maxDur := uint64(1 << 30)
	fee := types.NewCurrency64(uint64(1 + c.Rng.Intn(1000000)))

	// ---- formation
	params := rhp4.RPCFormContractParams{RenterPublicKey: renterPK, RenterAddress: ch.rentAddr,
		Allowance:   bigCur(c17Add(g.bigBelow(uint(1+c.Rng.Intn(100))), big.NewInt(1))),
		Collateral:  g.curBits(100),
		ProofHeight: tip.Height + rhp4.MinContractDuration + uint64(c.Rng.Intn(40))}
	if c.Rng.Intn(4) == 0 {
		// the largest collateral the allowance justifies
		if panicked, _ := fw.Recover(func() { params.Collateral = rhp4.MaxHostCollateral(p, params.Allowance) }); panicked || params.Collateral.Cmp(maxColl) > 0 {
			params.Collateral = g.curBits(90)
		}
	}
	freq := rhp4.RPCFormContractRequest{Prices: p, Contract: params, MinerFee: fee, Basis: tip, RenterInputs: []types.SiacoinElement{ch.bank.Copy()}}
	var verr error
	if panicked, msg := fw.Recover(func() { verr = freq.Validate(hostPK, tip, maxColl, maxDur) }); panicked {
		res.Count("e2e:form-validate-panics") // absurd prices overflow inside Validate itself
		_ = msg
		return
	}
	if verr != nil {
		res.Count("e2e:form-request-refused")
		return
	}
	var fc types.V2FileContract
	var renterCost, hostCost types.Currency
	if panicked, msg := fw.Recover(func() {
		fc, _ = rhp4.NewContract(p, params, hostPK, ch.hostAddr)
		renterCost, hostCost = rhp4.ContractCost(ch.cs, fc, fee)
	}); panicked {
		res.Violate(fw.Violation{Key: "c17-constructor-panic:NewContract", What: "NewContract/ContractCost panics on a request that passed RPCFormContractRequest.Validate: " + msg, Replay: ch.replay()})
		return
	}
	ch.signFC(&fc)
	txn := types.V2Transaction{FileContracts: []types.V2FileContract{fc}, MinerFee: fee}
	if !ch.fundByCosts(&txn, renterCost, hostCost) {
		res.Count("e2e:bank-exhausted")
		return
	}
	err := ch.validate(consensus.NewMidState(ch.cs), txn)
	res.Eval("e2e form "+ch.showFC(fc), true)
	res.Count("e2e:formation")
	ch.tie(fmt.Sprintf("rhp4c vcontract %d %s", ch.childHeight(), ch.showFC(fc)), err)
	if err != nil {
		ch.reject("c17-new-rejected", "formation transaction built from NewContract + ContractCost is rejected by consensus", err, ch.showFC(fc))
		return
	}
	for k := 0; k < 6; k++ {
		if m, ok := ch.mutateContract(fc, k); ok {
			ch.signFC(&m)
			mt := types.V2Transaction{FileContracts: []types.V2FileContract{m}, MinerFee: fee}
			if ch.fund(&mt) {
				ch.tie(fmt.Sprintf("rhp4c vcontract %d %s", ch.childHeight(), ch.showFC(m)), ch.validate(consensus.NewMidState(ch.cs), mt))
			}
		}
	}
	if err := ch.mine([]types.V2Transaction{txn}); err != nil {
		ch.reject("c17-new-rejected", "block with the formation transaction is rejected by ValidateBlock", err, ch.showFC(fc))
		return
	}
	id := txn.V2FileContractID(txn.ID(), 0)

	// ---- life of the contract
	steps := 2 + c.Rng.Intn(8)
	var pending []types.V2Transaction
	ms := consensus.NewMidState(ch.cs)
	cur := fc // latest accepted version (mined or pending)
	flush := func() bool {
		if len(pending) == 0 {
			return true
		}
		if err := ch.mine(pending); err != nil {
			ch.reject("c17-revise-rejected:block", "block of individually valid revision transactions is rejected by ValidateBlock", err, ch.showFC(cur))
			return false
		}
		pending = nil
		ms = consensus.NewMidState(ch.cs)
		return true
	}
	for s := 0; s < steps; s++ {
		if c.Rng.Intn(3) == 0 { // fresh prices at the current tip
			if !flush() {
				return
			}
			p = ch.prices(g)
			tip = ch.cs.Index
		}
		fce, ok := ch.fces[id]
		if !ok {
			res.Count("e2e:lost-element")
			return
		}
		k := c.Rng.Intn(10)
		if k <= 6 {
			// ------------------------------------------------ revisions
			var rev types.V2FileContract
			var rerr error
			var rpc string
			var valErr error
			var cpanic bool
			var cmsg string
			switch k {
			case 0, 1, 2:
				rpc = "append"
				n := 1 + c.Rng.Intn(40)
				if c.Rng.Intn(30) == 0 {
					n = rhp4.MaxSectorBatchSize
				}
				req := rhp4.RPCAppendSectorsRequest{Prices: p, Sectors: make([]types.Hash256, n), ContractID: id}
				valErr = req.Validate(hostPK)
				accepted := uint64(n)
				if c.Rng.Intn(4) == 0 { // host accepted only some of the sectors
					accepted = uint64(1 + c.Rng.Intn(n))
				}
				cpanic, cmsg = fw.Recover(func() { rev, _, rerr = rhp4.ReviseForAppendSectors(cur, p, types.Hash256{byte(s), 1}, accepted) })
			case 3:
				rpc = "free"
				sectors := cur.Filesize / c17Sector
				if sectors == 0 {
					continue
				}
				n := 1 + c.Rng.Intn(int(min(sectors, 50)))
				idx := c.Rng.Perm(int(min(sectors, 100000)))[:n]
				req := rhp4.RPCFreeSectorsRequest{ContractID: id, Prices: p}
				for _, i := range idx {
					req.Indices = append(req.Indices, uint64(i))
				}
				valErr = req.Validate(hostPK, cur)
				cpanic, cmsg = fw.Recover(func() { rev, _, rerr = rhp4.ReviseForFreeSectors(cur, p, types.Hash256{byte(s), 2}, len(req.Indices)) })
			case 4:
				rpc = "roots"
				sectors := cur.Filesize / c17Sector
				if sectors == 0 {
					continue
				}
				off := uint64(c.Rng.Int63n(int64(sectors)))
				length := 1 + uint64(c.Rng.Int63n(int64(min(sectors-off, rhp4.MaxSectorBatchSize))))
				req := rhp4.RPCSectorRootsRequest{Prices: p, ContractID: id, Offset: off, Length: length}
				valErr = req.Validate(hostPK, cur)
				cpanic, cmsg = fw.Recover(func() { rev, _, rerr = rhp4.ReviseForSectorRoots(cur, p, length) })
			case 5, 6:
				rpc = []string{"fund", "replenish"}[k-5]
				ro := c17B(cur.RenterOutput.Value)
				var amt *big.Int
				switch c.Rng.Intn(4) {
				case 0:
					amt = new(big.Int).Set(ro) // exact balance
				case 1:
					amt = c17Add(ro, big.NewInt(1)) // one hasting short
				default:
					amt = new(big.Int).Rand(c.Rng, c17Add(ro, big.NewInt(1)))
				}
				if amt.Sign() == 0 {
					amt = big.NewInt(1)
				}
				if rpc == "fund" {
					half := new(big.Int).Rsh(amt, 1)
					req := rhp4.RPCFundAccountsRequest{ContractID: id, RenterSignature: types.Signature{1}}
					if half.Sign() > 0 {
						req.Deposits = append(req.Deposits, rhp4.AccountDeposit{Account: rhp4.Account{1}, Amount: bigCur(half)})
					}
					req.Deposits = append(req.Deposits, rhp4.AccountDeposit{Account: rhp4.Account{2}, Amount: bigCur(c17Sub(amt, half))})
					valErr = req.Validate()
					total := types.ZeroCurrency
					for _, d := range req.Deposits {
						total = total.Add(d.Amount)
					}
					cpanic, cmsg = fw.Recover(func() { rev, _, rerr = rhp4.ReviseForFundAccounts(cur, total) })
				} else {
					req := rhp4.RPCReplenishAccountsRequest{Accounts: []rhp4.Account{{1}}, Target: bigCur(amt), ContractID: id, ChallengeSignature: types.Signature{1}}
					valErr = req.Validate()
					cpanic, cmsg = fw.Recover(func() { rev, _, rerr = rhp4.ReviseForReplenish(cur, bigCur(amt)) })
				}
			}
			if valErr != nil {
				res.Count("e2e:" + rpc + "-request-refused")
				continue
			}
			if cpanic {
				if strings.Contains(cmsg, "overflow") {
					res.Count("e2e:" + rpc + "-price-overflow") // Fits violated: prices x quantity beyond 128 bits
					continue
				}
				res.Violate(fw.Violation{Key: "c17-constructor-panic:" + rpc, What: "ReviseFor* (" + rpc + ") panics on a live contract and a request that passed Validate: " + cmsg, Replay: ch.replay(), Observed: ch.showFC(cur)})
				continue
			}
			if rerr != nil {
				res.Count("e2e:" + rpc + "-insufficient-funds")
				continue
			}
			ch.signFC(&rev)
			rtxn := types.V2Transaction{FileContractRevisions: []types.V2FileContractRevision{{Parent: fce.Copy(), Revision: rev}}}
			err := ch.validate(ms, rtxn)
			res.Eval("e2e "+rpc+" "+ch.showFC(cur)+" -> "+ch.showFC(rev), true)
			res.Count("e2e:revision-" + rpc)
			ch.tie(fmt.Sprintf("rhp4c vrevision %d %d %s %s", ch.childHeight(), ch.n.HardforkV2.EphemeralOutputHeight, ch.showFC(cur), ch.showFC(rev)), err)
			if err != nil {
				ch.reject("c17-revise-rejected:"+rpc, "revision built by ReviseFor* ("+rpc+") from a request that passed Validate is rejected by consensus", err, ch.showFC(cur)+" -> "+ch.showFC(rev))
				continue
			}
			if c.Rng.Intn(3) == 0 {
				for m := 0; m < 9; m++ {
					if mr, ok := ch.mutateRevision(cur, rev, m); ok {
						ch.signFC(&mr)
						mt := types.V2Transaction{FileContractRevisions: []types.V2FileContractRevision{{Parent: fce.Copy(), Revision: mr}}}
						ch.tie(fmt.Sprintf("rhp4c vrevision %d %d %s %s", ch.childHeight(), ch.n.HardforkV2.EphemeralOutputHeight, ch.showFC(cur), ch.showFC(mr)), ch.validate(ms, mt))
					}
				}
			}
			ms.ApplyV2Transaction(rtxn)
			pending = append(pending, rtxn)
			cur = rev
			if c.Rng.Intn(2) == 0 {
				if !flush() {
					return
				}
			}
			continue
		}
		// ---------------------------------------------------- renewal / refresh
		if !flush() {
			return
		}
		fce = ch.fces[id]
		tip = ch.cs.Index
		p = ch.prices(g)
		fee = types.NewCurrency64(uint64(1 + c.Rng.Intn(1000000)))
		allowance := bigCur(c17Add(g.bigBelow(uint(1+c.Rng.Intn(100))), big.NewInt(1)))
		if c.Rng.Intn(3) == 0 { // around the remaining renter funds: exercises both rollover branches and equality
			d := int64(c.Rng.Intn(3) - 1)
			a := c17Add(c17B(cur.RenterOutput.Value), big.NewInt(d))
			if a.Sign() > 0 {
				allowance = bigCur(a)
			}
		}
		coll := g.curBits(100)
		var rn types.V2FileContractRenewal
		var rc, hc types.Currency
		var name, key string
		var cpanic bool
		var cmsg string
		switch k {
		case 7:
			name, key = "RenewContract", "renew"
			rp := rhp4.RPCRenewContractParams{ContractID: id, Allowance: allowance, Collateral: coll, ProofHeight: max(cur.ProofHeight+1, tip.Height+rhp4.MinContractDuration) + uint64(c.Rng.Intn(60))}
			req := rhp4.RPCRenewContractRequest{Prices: p, Renewal: rp, MinerFee: fee, Basis: tip}
			if panicked, _ := fw.Recover(func() { verr = req.Validate(hostPK, tip, cur, maxColl, maxDur) }); panicked {
				res.Count("e2e:renew-validate-panics")
				continue
			}
			if verr != nil {
				res.Count("e2e:renew-request-refused")
				continue
			}
			cpanic, cmsg = fw.Recover(func() {
				rn, _ = rhp4.RenewContract(cur, p, ch.hostAddr, rp)
				rc, hc = rhp4.RenewalCost(ch.cs, rn, fee)
			})
		case 8, 9:
			partial := k == 8
			name, key = "RefreshContractFullRollover", "refresh-full"
			if partial {
				name, key = "RefreshContractPartialRollover", "refresh-partial"
			}
			rp := rhp4.RPCRefreshContractParams{ContractID: id, Allowance: allowance, Collateral: coll}
			req := rhp4.RPCRefreshContractRequest{Prices: p, Refresh: rp, MinerFee: fee, Basis: tip}
			if panicked, _ := fw.Recover(func() { verr = req.Validate(hostPK, tip, cur, maxColl, partial) }); panicked {
				res.Count("e2e:refresh-validate-panics")
				continue
			}
			if verr != nil {
				res.Count("e2e:" + key + "-request-refused")
				continue
			}
			cpanic, cmsg = fw.Recover(func() {
				if partial {
					rn, _ = rhp4.RefreshContractPartialRollover(cur, p, ch.hostAddr, rp)
				} else {
					rn, _ = rhp4.RefreshContractFullRollover(cur, p, ch.hostAddr, rp)
				}
				rc, hc = rhp4.RefreshCost(ch.cs, p, rn, fee)
			})
		}
		if cpanic {
			res.Violate(fw.Violation{Key: "c17-constructor-panic:" + name, What: name + " or its cost function panics on a live contract and a request that passed Validate: " + cmsg, Replay: ch.replay(), Observed: ch.showFC(cur)})
			continue
		}
		ch.signRenewal(&rn)
		rtxn := types.V2Transaction{FileContractResolutions: []types.V2FileContractResolution{{Parent: fce.Copy(), Resolution: &rn}}, MinerFee: fee}
		if !ch.fundByCosts(&rtxn, rc, hc) {
			res.Count("e2e:bank-exhausted")
			return
		}
		err := ch.validate(ms, rtxn)
		res.Eval("e2e "+key+" "+ch.showFC(cur)+" -> "+ch.showRenewal(rn), true)
		res.Count("e2e:" + key)
		ch.tie(fmt.Sprintf("rhp4c vrenewal %d %s %s", ch.childHeight(), ch.showFC(cur), ch.showRenewal(rn)), err)
		if err != nil {
			ch.reject("c17-renew-rejected:"+key, "renewal transaction built from "+name+" and its cost function (request passed Validate) is rejected by consensus", err, ch.showFC(cur)+" -> "+ch.showRenewal(rn))
			continue
		}
		for m := 0; m < 6; m++ {
			if mr, ok := ch.mutateRenewal(cur, rn, m); ok {
				ch.signRenewal(&mr)
				mt := types.V2Transaction{FileContractResolutions: []types.V2FileContractResolution{{Parent: fce.Copy(), Resolution: &mr}}, MinerFee: fee}
				if ch.fund(&mt) {
					ch.tie(fmt.Sprintf("rhp4c vrenewal %d %s %s", ch.childHeight(), ch.showFC(cur), ch.showRenewal(mr)), ch.validate(ms, mt))
				}
			}
		}
		if err := ch.mine([]types.V2Transaction{rtxn}); err != nil {
			ch.reject("c17-renew-rejected:"+key, "block with the renewal transaction is rejected by ValidateBlock", err, ch.showRenewal(rn))
			return
		}
		ms = consensus.NewMidState(ch.cs)
		id = id.V2RenewalID()
		cur = rn.NewContract
		if e, ok := ch.fces[id]; !ok || e.V2FileContract != cur {
			res.Violate(fw.Violation{Key: "c17-renew:new-contract-element", What: "after the renewal block the new contract is not in the state as built", Replay: ch.replay()})
			return
		}
	}
	flush()
	// stop tracking this contract
	delete(ch.fces, id)
}

func c17E2E(c *fw.Ctx) {
	g := c17Gen{c}
	nSeq := c.Budget(60, 3000)
	for _, eph := range []uint64{0, 1 << 40} {
		ch := c17NewChain(c, eph)
		for i := 0; i < nSeq/2; i++ {
			ch.sequence(g)
		}
		c.Compare(ch.lines, ch.outs)
	}
}
