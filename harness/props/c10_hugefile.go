package props

import (
	"fmt"
	"math"
	"math/rand"

	"go.sia.tech/core/consensus"
	"go.sia.tech/core/types"

	"verif/harness/internal/chain"
	"verif/harness/internal/fw"
)

// c10HugeFileProbe: a state reachable by valid history that holds a contract whose Filesize sits at the top of
// the uint64 range (consensus only asks Filesize <= Capacity), then storage-proof resolutions for it. Selecting
// the challenged leaf and checking the proof must return an error or accept — arithmetic on the size must not wrap
// into a division by zero or an index panic.
func c10HugeFileProbe(c *fw.Ctx) { hugeFileProbe(c, false) }

// hugeFileProbe: flagAccept = the caller (C07) treats an ACCEPTED garbage proof as a violation of proof soundness.
func hugeFileProbe(c *fw.Ctx, flagAccept bool) {
	res := c.Res
	sizes := []uint64{math.MaxUint64, math.MaxUint64 - 1, math.MaxUint64 - 61, math.MaxUint64 - 62, math.MaxUint64 - 63, math.MaxUint64 - 64, 1 << 63, 1<<63 + 1, 1<<32 - 1, 1 << 32, 65, 128, 4096}
	for i := 0; i < c.Budget(10, 60); i++ {
		seed := c.Seed*6000029 + int64(i)
		s := chain.NewSim(rand.New(rand.NewSource(seed)), "v2")
		size := sizes[i%len(sizes)]
		var id types.FileContractID
		var fcGot types.V2FileContract
		found := false
		for k := 0; k < 40 && !found; k++ {
			p := s.BuildBlock()
			for ti, t := range p.Block.V2Transactions() {
				if len(t.FileContracts) == 0 {
					continue
				}
				mb := chain.DeepCopyBlock(p.Block)
				mb.Timestamp = p.Block.Timestamp
				txn := &mb.V2.Transactions[ti]
				fc := &txn.FileContracts[0]
				fc.Filesize, fc.Capacity = size, math.MaxUint64
				fc.ProofHeight = s.ChildHeight() + 1
				fc.ExpirationHeight = fc.ProofHeight + 6
				s.SignContract(fc, fc.RenterPublicKey, fc.HostPublicKey)
				if !s.ResignV2(txn) {
					continue
				}
				// later transactions may spend outputs of the edited one (ids changed): keep the block prefix only
				mb.V2.Transactions = mb.V2.Transactions[:ti+1]
				mb.Transactions = nil
				s.Seal(&mb, p.Miner)
				if _, err := s.Apply(mb, consensus.V1BlockSupplement{}); err != nil {
					res.Count("huge-file-probe:formation-rejected")
					continue
				}
				id, fcGot, found = txn.V2FileContractID(txn.ID(), 0), *fc, true
				break
			}
			if !found {
				if _, err := s.Apply(p.Block, p.Supp); err != nil {
					break
				}
			}
		}
		if !found {
			res.Count("huge-file-probe:no-contract")
			continue
		}
		miner := s.NewAddr(false)
		mk := func(txns ...types.V2Transaction) types.Block {
			b := types.Block{Timestamp: s.NextTimestamp(), V2: &types.V2BlockData{Transactions: txns}}
			s.Seal(&b, miner)
			return b
		}
		ok := true
		for s.ChildHeight() <= fcGot.ProofHeight && ok {
			if _, err := s.Apply(mk(), consensus.V1BlockSupplement{}); err != nil {
				ok = false
			}
		}
		e, live := s.St.V2FC[id]
		cie, have := s.St.CIE[fcGot.ProofHeight]
		if !ok || !live || !have {
			res.Count("huge-file-probe:lost")
			continue
		}
		for _, plen := range []int{0, 1, 63, 64} {
			sp := &types.V2StorageProof{ProofIndex: cie.Copy(), Proof: make([]types.Hash256, plen)}
			b := mk(types.V2Transaction{FileContractResolutions: []types.V2FileContractResolution{{Parent: e.Copy(), Resolution: sp}}})
			rp := map[string]any{"seed": seed, "filesize": size, "proof_len": plen, "height": s.ChildHeight(), "block": fw.Hex(encodeBlockFull(b))}
			var err error
			panicked, msg := fw.Recover(func() { err = consensus.ValidateBlock(s.Tip, b, consensus.V1BlockSupplement{}) })
			res.Eval(fmt.Sprintf("hugefile/%d/%d/%d", seed, size, plen), true)
			res.Count("huge-file-probe:storage-proof")
			if panicked {
				res.Violate(fw.Violation{Key: "c10-validate-panic:v2:storage-proof-huge-filesize", What: fmt.Sprintf("ValidateBlock panicked on a storage proof for a contract of %d bytes: %s", size, msg), Replay: rp, Expected: "accept or reject", Observed: "panic: " + msg})
			} else if err == nil {
				if flagAccept {
					res.Violate(fw.Violation{Key: "c07-proof-accepts-corrupt:v2:garbage-proof", What: fmt.Sprintf("a storage proof made of an all-zero leaf and %d zero hashes was accepted for a contract of %d bytes with Merkle root %v", plen, size, fcGot.FileMerkleRoot), Replay: rp, Expected: "rejected", Observed: "accepted"})
				}
				res.Count("huge-file-probe:accepted")
				res.Note("huge-file probe: storage proof ACCEPTED: filesize %d proof_len %d root %v seed %d", size, plen, fcGot.FileMerkleRoot, seed)
			}
		}
		// the leaf selector itself, on the whole boundary
		for _, fs := range sizes {
			panicked, msg := fw.Recover(func() { _ = s.Tip.StorageProofLeafIndex(fs, cie.ChainIndex.ID, id) })
			if panicked {
				res.Violate(fw.Violation{Key: "c10-validate-panic:StorageProofLeafIndex", What: fmt.Sprintf("StorageProofLeafIndex(%d) panicked: %s", fs, msg), Replay: map[string]any{"filesize": fs}})
			}
		}
	}
}
