package props

// Directed SpendPolicy / SatisfiedPolicy codec cases (C11): every opcode, thresholds with
// 0, 1, 2 and 255 children and n > len, nesting up to and beyond the decoder's depth limit,
// malformed versions and opcodes. Valid policies go through the full per-value oracle and
// the model; additionally the model decodes each encoding, converts it to the policy tree of
// the semantics model and encodes it with THAT model's encoder (`policyx`): all three
// encoders (Go, schema codec, address encoder) must produce the same bytes.

import (
	"math"
	"time"

	"go.sia.tech/core/types"
	"verif/harness/internal/fw"
)

func c11NestedPolicy(d int, leaf types.SpendPolicy) types.SpendPolicy {
	p := leaf
	for i := 0; i < d; i++ {
		p = types.PolicyThreshold(1, []types.SpendPolicy{p})
	}
	return p
}

func c11PolicyDirected(c *fw.Ctx, g *c11Gen, known map[string]bool, model *c11Model) {
	res := c.Res
	var polCT, satCT c11Codec
	for _, ct := range c11Types() {
		switch ct.lean {
		case "Types_SpendPolicy":
			polCT = ct
		case "Types_SatisfiedPolicy":
			satCT = ct
		}
	}
	if polCT.newPtr == nil || satCT.newPtr == nil {
		return
	}
	var pk types.PublicKey
	copy(pk[:], g.bytesN(32))
	var h types.Hash256
	copy(h[:], g.bytesN(32))
	uc := types.UnlockConditions{Timelock: 5, SignaturesRequired: 2, PublicKeys: []types.UnlockKey{
		{Algorithm: types.SpecifierEd25519, Key: g.bytesN(32)}, {Algorithm: types.SpecifierEd25519, Key: nil}, {Algorithm: types.NewSpecifier("entropy"), Key: g.bytesN(5)}}}
	leaves := []types.SpendPolicy{
		types.PolicyAbove(0), types.PolicyAbove(math.MaxUint64), types.PolicyAfter(time.Unix(0, 0)), types.PolicyAfter(time.Unix(-1, 0)),
		types.PolicyPublicKey(pk), types.PolicyHash(h), types.PolicyOpaque(types.PolicyPublicKey(pk)),
		{Type: types.PolicyTypeUnlockConditions(uc)}, {Type: types.PolicyTypeUnlockConditions(types.UnlockConditions{})},
	}
	many := make([]types.SpendPolicy, 255)
	for i := range many {
		many[i] = leaves[i%len(leaves)]
	}
	valid := append([]types.SpendPolicy{}, leaves...)
	valid = append(valid,
		types.PolicyThreshold(0, nil), types.PolicyThreshold(0, []types.SpendPolicy{}), types.PolicyThreshold(1, leaves[:1]),
		types.PolicyThreshold(2, leaves[:2]), types.PolicyThreshold(200, leaves[:3]), // n > len: accepted by the codec
		types.PolicyThreshold(255, many), types.PolicyThreshold(3, []types.SpendPolicy{types.PolicyThreshold(1, leaves[4:6]), leaves[7]}))
	for _, d := range []int{1, 2, 16, 31, 32} {
		valid = append(valid, c11NestedPolicy(d, leaves[d%len(leaves)]))
	}
	for _, p := range valid {
		q := p
		res.Count("policy:directed-valid")
		if c11CheckValue(c, g, polCT, &q, known[polCT.lean], model, nil, "policy") && known[polCT.lean] {
			b, _ := c11Encode(polCT, &q)
			model.add("policyx "+c11Hex(b), "same "+c11Hex(b))
		}
		// as part of a satisfied policy, with no / matching / surplus witnesses
		for _, nsig := range []int{0, 1, 3} {
			sp := types.SatisfiedPolicy{Policy: p, Signatures: make([]types.Signature, nsig), Preimages: make([][32]byte, (nsig+1)%3)}
			for i := range sp.Signatures {
				copy(sp.Signatures[i][:], g.bytesN(64))
			}
			res.Count("policy:directed-satisfied")
			c11CheckValue(c, g, satCT, &sp, known[satCT.lean], model, nil, "satisfied-policy")
		}
	}
	// beyond the limits and malformed: Go and the model must refuse alike
	var streams [][]byte
	for _, d := range []int{33, 34, 40} {
		p := c11NestedPolicy(d, leaves[0])
		b, _ := c11Encode(polCT, &p)
		streams = append(streams, b)
	}
	big := types.PolicyThreshold(1, append(append([]types.SpendPolicy{}, many...), leaves[0], leaves[1])) // 257 children: count byte wraps to 1
	bb, _ := c11Encode(polCT, &big)
	streams = append(streams, bb)
	good, _ := c11Encode(polCT, &valid[len(leaves)+3])
	for _, v := range []byte{0, 2, 3, 255} {
		m := append([]byte(nil), good...)
		m[0] = v
		streams = append(streams, m)
	}
	for _, op := range []byte{0, 8, 9, 100, 255} {
		m := append([]byte(nil), good...)
		m[1] = op
		streams = append(streams, m)
		streams = append(streams, []byte{1, op})
	}
	streams = append(streams, []byte{}, []byte{1}, []byte{1, 5}, []byte{1, 5, 1}, []byte{1, 5, 1, 255})
	for _, s := range streams {
		o := c11Decode(polCT, s)
		res.Eval("policy-malformed "+fw.Hex(s), len(s) > 0)
		res.Count("policy:directed-malformed")
		if o.panicked {
			c11Violate(c, "c10-decode-panic:types.SpendPolicy", "decoding a malformed policy panics: "+o.panicMsg, polCT, s, "error", "panic")
		}
		if known[polCT.lean] {
			model.add("codec "+polCT.lean+" "+c11Hex(s), c11GoLine(polCT, o))
		}
	}
}
