package props

// C01 — No value is created or destroyed; siafunds constant; claims exact.
//
// Go side: random valid chains over random network configurations (all hardfork
// eras; v1-only, mixed, v2-only, and the legacy ephemeral window); after every
// block the statement-level oracle sums the real ledger kept by an independent
// store and compares it with genesis + scheduled subsidies; every block is also
// abstracted and run through the Lean ledger model (verdict + full diff dump).

import (
	"fmt"
	"math/big"
	"math/rand"
	"time"

	"go.sia.tech/core/consensus"
	"go.sia.tech/core/types"
	"verif/harness/internal/chain"
	"verif/harness/internal/fw"
)

func init() { fw.Register("C01", runC01) }

var ledgerModes = []string{"v1", "mixed", "v2", "legacy", "mixed", "legacy-long"}

type supplyOracle struct {
	net        *consensus.Network
	expected   *big.Int // genesis allocation + subsidies so far
	claimsPaid *big.Int
	forfeited  *big.Int
}

func bigOf(c types.Currency) *big.Int { return c.Big() }

var sc1 = new(big.Int).Exp(big.NewInt(10), big.NewInt(24), nil)

// scheduled block reward, from the network parameters (statement: "each block's scheduled subsidy")
func scheduledReward(n *consensus.Network, height uint64) *big.Int {
	r := new(big.Int).Sub(bigOf(n.InitialCoinbase), new(big.Int).Mul(sc1, new(big.Int).SetUint64(height&0xffffffff)))
	if r.Cmp(bigOf(n.MinimumCoinbase)) < 0 {
		return bigOf(n.MinimumCoinbase)
	}
	return r
}

// scheduled Foundation subsidy at a height given the subsidy address in force
func scheduledFoundation(n *consensus.Network, height uint64, subsidyAddr types.Address) *big.Int {
	if subsidyAddr == types.VoidAddress {
		return new(big.Int)
	}
	perBlock := new(big.Int).Mul(sc1, big.NewInt(30000))
	bpy := uint64(365 * 24 * time.Hour / n.BlockInterval)
	bpm := bpy / 12
	hf := n.HardforkFoundation.Height
	if height < hf || bpm == 0 || (height-hf)%bpm != 0 {
		return new(big.Int)
	}
	if height == hf {
		return perBlock.Mul(perBlock, new(big.Int).SetUint64(bpy))
	}
	return perBlock.Mul(perBlock, new(big.Int).SetUint64(bpm))
}

// ledgerValue sums everything the statement lists.
func ledgerValue(st *chain.Store, pool types.Currency, claimsPaid, forfeited *big.Int) (*big.Int, uint64) {
	v := new(big.Int)
	for _, e := range st.SC {
		v.Add(v, bigOf(e.SiacoinOutput.Value))
	}
	for _, e := range st.FC {
		for _, o := range e.FileContract.ValidProofOutputs {
			v.Add(v, bigOf(o.Value))
		}
	}
	for _, e := range st.V2FC {
		v.Add(v, bigOf(e.V2FileContract.RenterOutput.Value))
		v.Add(v, bigOf(e.V2FileContract.HostOutput.Value))
	}
	v.Add(v, bigOf(pool))
	v.Sub(v, claimsPaid)
	v.Add(v, forfeited)
	var sf uint64
	for _, e := range st.SF {
		sf += e.SiafundOutput.Value
	}
	return v, sf
}

type blockReplay struct {
	Mode   string `json:"mode"`
	Seed   int64  `json:"seed"`
	Height uint64 `json:"height"`
	Block  any    `json:"block,omitempty"`
}

// taxOf: the statement's tax schedule (v1: 3.9% rounded down to a multiple of
// the siafund count, computed with the historical float constant before the tax
// hardfork; v2: 4%).
func v1Tax(n *consensus.Network, child uint64, payout types.Currency) *big.Int {
	i := bigOf(payout)
	if child < n.HardforkTax.Height {
		r := new(big.Rat).SetInt(i)
		r.Mul(r, new(big.Rat).SetFloat64(0.039))
		i = new(big.Int).Div(r.Num(), r.Denom())
	} else {
		i.Mul(i, big.NewInt(39))
		i.Div(i, big.NewInt(1000))
	}
	return i.Sub(i, new(big.Int).Mod(i, big.NewInt(10000)))
}

func v2TaxOf(fc types.V2FileContract) *big.Int {
	s := new(big.Int).Add(bigOf(fc.RenterOutput.Value), bigOf(fc.HostOutput.Value))
	return s.Div(s, big.NewInt(25))
}

// checkBlockC01 runs the statement-level checks for one applied block.
// Returns false (after recording a violation) when something is wrong.
func checkBlockC01(c *fw.Ctx, s *chain.Sim, o *supplyOracle, parent consensus.State, p chain.BlockPlan, au consensus.ApplyUpdate, rp blockReplay) {
	res := c.Res
	b := p.Block
	child := parent.Index.Height + 1
	if parent.Index.Height == ^uint64(0) {
		child = 0
	}
	// fees reappear exactly in the miner payout
	fees := new(big.Int)
	for _, t := range b.Transactions {
		for _, f := range t.MinerFees {
			fees.Add(fees, bigOf(f))
		}
	}
	for _, t := range b.V2Transactions() {
		fees.Add(fees, bigOf(t.MinerFee))
	}
	pay := new(big.Int)
	for _, mp := range b.MinerPayouts {
		pay.Add(pay, bigOf(mp.Value))
	}
	reward := scheduledReward(s.Net, child)
	if child > 0 && pay.Cmp(new(big.Int).Add(reward, fees)) != 0 {
		res.Violate(fw.Violation{Key: "c01-fees-not-in-payout", What: "accepted block whose miner payouts differ from scheduled reward + fees", Replay: rp,
			Expected: new(big.Int).Add(reward, fees).String(), Observed: pay.String()})
	}
	// claims: every claim output pays floor((pool - claimStart)/10000) * value with the pool as of the spend
	pool := bigOf(parent.SiafundTaxRevenue)
	created := map[types.SiacoinOutputID]types.Currency{}
	for _, d := range au.SiacoinElementDiffs() {
		if d.Created {
			created[d.SiacoinElement.ID] = d.SiacoinElement.SiacoinOutput.Value
		}
	}
	checkClaim := func(claimID types.SiacoinOutputID, value uint64, claimStart types.Currency) {
		want := new(big.Int).Sub(pool, bigOf(claimStart))
		want.Div(want, big.NewInt(10000)).Mul(want, new(big.Int).SetUint64(value))
		got, ok := created[claimID]
		if !ok || bigOf(got).Cmp(want) != 0 {
			res.Violate(fw.Violation{Key: "c01-claim-inexact", What: "siafund claim output does not pay the holder's exact share", Replay: rp,
				Expected: want.String(), Observed: fmt.Sprint(ok, " ", got.ExactString())})
		}
		o.claimsPaid.Add(o.claimsPaid, want)
	}
	// a siafund output is entitled to tax collected SINCE IT WAS CREATED: its claim start must be the
	// pool at the moment of creation (contracts formed earlier in the same block included)
	createdSF := map[types.SiafundOutputID]types.Currency{}
	for _, d := range au.SiafundElementDiffs() {
		if d.Created {
			createdSF[d.SiafundElement.ID] = d.SiafundElement.ClaimStart
		}
	}
	checkStart := func(id types.SiafundOutputID) {
		if cs, ok := createdSF[id]; ok && bigOf(cs).Cmp(pool) != 0 {
			res.Violate(fw.Violation{Key: "c01-claim-start", What: "a newly created siafund output does not start its claim at the tax pool as of its creation", Replay: rp,
				Expected: pool.String(), Observed: cs.ExactString()})
		}
	}
	for i, t := range b.Transactions {
		for _, in := range t.SiafundInputs {
			for _, e := range p.Supp.Transactions[i].SiafundInputs {
				if e.ID == in.ParentID {
					checkClaim(in.ParentID.ClaimOutputID(), e.SiafundOutput.Value, e.ClaimStart)
				}
			}
			// an output created earlier in this block and spent again
			if cs, ok := createdSF[in.ParentID]; ok {
				for _, d := range au.SiafundElementDiffs() {
					if d.SiafundElement.ID == in.ParentID && d.Created && d.Spent {
						checkClaim(in.ParentID.ClaimOutputID(), d.SiafundElement.SiafundOutput.Value, cs)
					}
				}
			}
		}
		for j := range t.SiafundOutputs {
			checkStart(t.SiafundOutputID(j))
		}
		for _, fc := range t.FileContracts {
			pool.Add(pool, v1Tax(s.Net, child, fc.Payout))
		}
	}
	for _, t := range b.V2Transactions() {
		txid := t.ID()
		for _, in := range t.SiafundInputs {
			checkClaim(in.Parent.ID.V2ClaimOutputID(), in.Parent.SiafundOutput.Value, in.Parent.ClaimStart)
		}
		for j := range t.SiafundOutputs {
			checkStart(t.SiafundOutputID(txid, j))
		}
		for _, fc := range t.FileContracts {
			pool.Add(pool, v2TaxOf(fc))
		}
		for _, r := range t.FileContractResolutions {
			switch x := r.Resolution.(type) {
			case *types.V2FileContractRenewal:
				pool.Add(pool, v2TaxOf(x.NewContract))
			case *types.V2FileContractExpiration:
				fc := r.Parent.V2FileContract
				o.forfeited.Add(o.forfeited, new(big.Int).Sub(bigOf(fc.HostOutput.Value), bigOf(fc.MissedHostValue)))
			}
		}
	}
	if pool.Cmp(bigOf(s.Tip.SiafundTaxRevenue)) != 0 {
		res.Violate(fw.Violation{Key: "c01-tax-pool", What: "siafund tax pool differs from the sum of scheduled contract taxes", Replay: rp,
			Expected: pool.String(), Observed: s.Tip.SiafundTaxRevenue.ExactString()})
	}
	// supply
	if child > 0 {
		o.expected.Add(o.expected, reward)
	}
	o.expected.Add(o.expected, scheduledFoundation(s.Net, child, parent.FoundationSubsidyAddress))
	got, sf := ledgerValue(s.St, s.Tip.SiafundTaxRevenue, o.claimsPaid, o.forfeited)
	if got.Cmp(o.expected) != 0 {
		res.Violate(fw.Violation{Key: "c01-supply", What: fmt.Sprintf("ledger value differs from genesis + subsidies after block %d", child), Replay: rp,
			Expected: o.expected.String(), Observed: got.String()})
	}
	// solvency: what has been paid plus what is still claimable never exceeds the tax collected
	claimable := new(big.Int)
	for _, e := range s.St.SF {
		d := new(big.Int).Sub(bigOf(s.Tip.SiafundTaxRevenue), bigOf(e.ClaimStart))
		claimable.Add(claimable, d.Mul(d, new(big.Int).SetUint64(e.SiafundOutput.Value)))
	}
	lhs := new(big.Int).Mul(o.claimsPaid, big.NewInt(10000))
	lhs.Add(lhs, claimable)
	if lhs.Cmp(new(big.Int).Mul(bigOf(s.Tip.SiafundTaxRevenue), big.NewInt(10000))) > 0 {
		res.Violate(fw.Violation{Key: "c01-pool-insolvent", What: "siafund claims paid plus claims still claimable exceed the tax collected", Replay: rp,
			Expected: "<= " + new(big.Int).Mul(bigOf(s.Tip.SiafundTaxRevenue), big.NewInt(10000)).String(), Observed: lhs.String()})
	}
	if sf != 10000 {
		res.Violate(fw.Violation{Key: "c01-siafund-count", What: "total siafunds in unspent outputs changed", Replay: rp, Expected: "10000", Observed: fmt.Sprint(sf)})
	}
}

func newSupplyOracle(s *chain.Sim) *supplyOracle {
	o := &supplyOracle{net: s.Net, expected: new(big.Int), claimsPaid: new(big.Int), forfeited: new(big.Int)}
	for _, t := range s.Genesis.Transactions {
		for _, out := range t.SiacoinOutputs {
			o.expected.Add(o.expected, bigOf(out.Value))
		}
	}
	for _, t := range s.Genesis.V2Transactions() {
		for _, out := range t.SiacoinOutputs {
			o.expected.Add(o.expected, bigOf(out.Value))
		}
	}
	o.expected.Add(o.expected, scheduledFoundation(s.Net, 0, s.Net.HardforkFoundation.PrimaryAddress))
	return o
}

// ledgerChains drives `n` random chains of `blocks` blocks; perBlock is called
// after each applied block; the abstracted blocks are compared with the model.
func ledgerChains(c *fw.Ctx, nChains, blocks int, perBlock func(s *chain.Sim, parent consensus.State, p chain.BlockPlan, au consensus.ApplyUpdate, rp blockReplay), perChain func(s *chain.Sim)) {
	ledgerChainsModes(c, ledgerModes, 0, nChains, blocks, perBlock, perChain)
}

// monthlyModes: networks whose block interval makes the Foundation subsidy fall due every 1-3 blocks (the real
// schedule, 4380 blocks, never comes round in a generated chain), with Foundation address updates — including the
// waiver to the void address — landing on subsidy heights.
var monthlyModes = []string{"mixed-monthly", "v2-monthly", "legacy-monthly"}

func ledgerChainsModes(c *fw.Ctx, modes []string, salt int64, nChains, blocks int, perBlock func(s *chain.Sim, parent consensus.State, p chain.BlockPlan, au consensus.ApplyUpdate, rp blockReplay), perChain func(s *chain.Sim)) {
	res := c.Res
	var ops, outs []string
	for i := 0; i < nChains; i++ {
		mode := modes[i%len(modes)]
		seed := c.Seed*1000003 + int64(i) + salt
		s := chain.NewSim(rand.New(rand.NewSource(seed)), mode)
		ab := chain.NewAbstractor(s)
		res.Count("chains:" + mode)
		if perChain != nil {
			perChain(s)
		}
		for k := 0; k < blocks; k++ {
			parent := s.Tip
			p := s.BuildBlock()
			rp := blockReplay{Mode: mode, Seed: seed, Height: s.ChildHeight()}
			var line string
			if c.Model != nil {
				line = "ledger-block " + ab.Abstract(p.Block, p.Supp)
			}
			c01PayoutMutants(c, s, p, rp)
			var au consensus.ApplyUpdate
			var err error
			panicked, msg := fw.Recover(func() { au, err = s.Apply(p.Block, p.Supp) })
			if panicked {
				res.Violate(fw.Violation{Key: "c10-validate-or-apply-panic", What: "panic while validating/applying a generated block: " + msg, Replay: rp})
				break
			}
			if err != nil {
				// the generator builds blocks by the rules (it is validated on the unchanged tree over many seeds): a rejected
				// honest block means fees, payouts or balances are no longer judged the way the statement says
				res.Note("generator produced a rejected block (%s seed %d height %d): %v", mode, seed, rp.Height, err)
				res.Count("generator-rejected")
				res.Violate(fw.Violation{Key: "c01-honest-block-rejected", What: fmt.Sprintf("a block built by the rules (payout = scheduled reward + all fees, balanced transactions) was rejected: %v", err), Replay: rp, Expected: "accepted", Observed: err.Error()})
				break
			}
			res.Eval(fmt.Sprintf("%s/%d/%d", mode, seed, k), len(p.Block.Transactions)+len(p.Block.V2Transactions()) > 0)
			res.Count(fmt.Sprintf("txns-per-block:%d", min(len(p.Block.Transactions)+len(p.Block.V2Transactions()), 6)))
			if c.Model != nil {
				ops = append(ops, line)
				outs = append(outs, "ok "+ab.DumpUpdate(au, s.Tip, parent))
			}
			if perBlock != nil {
				perBlock(s, parent, p, au, rp)
			}
		}
		for k, v := range s.Counts {
			res.CountN("gen:"+k, v)
		}
		if i == 0 {
			res.Sample(map[string]any{"mode": mode, "seed": seed, "height": s.Height(), "generated": s.Counts})
		}
	}
	if len(ops) > 0 {
		c.Compare(ops, outs)
		if len(ops[0]) < 4000 {
			res.Sample(map[string]string{"model_op": ops[0], "go": outs[0]})
		}
	}
}

func runC01(c *fw.Ctx) {
	c01GenOps, c01GenOuts = nil, nil
	defer func() {
		if c.Model != nil && len(c01GenOps) > 0 {
			c.Res.CountN("genrun:validateMinerPayouts", len(c01GenOps))
			for _, o := range c01GenOuts {
				c.Res.Count("genrun:validateMinerPayouts:" + o)
			}
			c.Compare(c01GenOps, c01GenOuts)
		}
	}()
	c.Res.Rule = "random valid chains (modes v1-only / mixed / v2-only / legacy-window; random hardfork heights, intervals, maturity delays) built block by block from payments, siafund transfers+claims, v1/v2 contract formation, revision, storage proof, expiry, renewal, ephemeral spends, foundation updates; after EVERY block: Σ unspent siacoin outputs + value locked in v1/v2 contracts + unclaimed tax pool + v2 forfeits == genesis + scheduled subsidies, Σ siafunds == 10000, every claim == floor((pool−claimStart)/10000)·value, payouts == reward + fees (oracle from the statement, independent store); each block abstracted and validated+applied by the Lean ledger model, verdict and complete diff dump compared. A block is non-trivial when it has at least one transaction."
	var o *supplyOracle
	ledgerChains(c, c.Budget(40, 2000), c.Budget(45, 70),
		func(s *chain.Sim, parent consensus.State, p chain.BlockPlan, au consensus.ApplyUpdate, rp blockReplay) {
			if s.Mode == "legacy" {
				// the legacy ephemeral window is outside the claim only for ephemeral parents; the generator
				// always claims true values, so conservation must hold here too
			}
			checkBlockC01(c, s, o, parent, p, au, rp)
		},
		func(s *chain.Sim) { o = newSupplyOracle(s) })
	ledgerChainsModes(c, monthlyModes, 500009, c.Budget(9, 300), c.Budget(40, 60),
		func(s *chain.Sim, parent consensus.State, p chain.BlockPlan, au consensus.ApplyUpdate, rp blockReplay) {
			checkBlockC01(c, s, o, parent, p, au, rp)
		},
		func(s *chain.Sim) { o = newSupplyOracle(s) })
	c01MissedHostProbe(c)
	// arithmetic helpers of the ledger model against the real functions and the generated definitions
	if t := fw.Lookup("C01T"); t != nil {
		rule := c.Res.Rule
		t(c)
		c.Res.Rule = rule + " PLUS (C01T): " + c.Res.Rule
	}
}

// c01PayoutMutants: "miner fees reappear exactly in the miner payout" from the rejecting side — the same block with a
// payout that leaves out the v1 fees, the v2 fees, one hasting, or adds one hasting must be rejected.
// op lines for the regenerated validateMinerPayouts (see genrun.go), compared at the end of runC01
var c01GenOps, c01GenOuts []string

func c01PayoutMutants(c *fw.Ctx, s *chain.Sim, p chain.BlockPlan, rp blockReplay) {
	if op, out, ok := genrunPayouts(s.Tip, p.Block); ok {
		c01GenOps, c01GenOuts = append(c01GenOps, op), append(c01GenOuts, out)
	}
	// extreme payout lists for the regenerated loops: none, zero-valued, doubled, overflowing
	for k := 0; k < 7; k++ {
		mb := chain.DeepCopyBlock(p.Block)
		switch k {
		case 4:
			mb.Transactions = append(mb.Transactions, types.Transaction{MinerFees: []types.Currency{types.NewCurrency64(5), types.ZeroCurrency}})
		case 5:
			mb.Transactions = append(mb.Transactions, types.Transaction{MinerFees: []types.Currency{types.MaxCurrency, types.MaxCurrency}})
		case 6:
			if mb.V2 == nil {
				continue
			}
			mb.V2.Transactions = append(mb.V2.Transactions, types.V2Transaction{MinerFee: types.MaxCurrency}, types.V2Transaction{MinerFee: types.MaxCurrency})
		case 0:
			mb.MinerPayouts = nil
		case 1:
			mb.MinerPayouts = append(mb.MinerPayouts, types.SiacoinOutput{})
		case 2:
			mb.MinerPayouts = append(mb.MinerPayouts, mb.MinerPayouts...)
		case 3:
			mb.MinerPayouts = append(mb.MinerPayouts, types.SiacoinOutput{Value: types.MaxCurrency})
		}
		if op, out, ok := genrunPayouts(s.Tip, mb); ok {
			c01GenOps, c01GenOuts = append(c01GenOps, op), append(c01GenOuts, out)
		}
	}
	res := c.Res
	var v1fees, v2fees types.Currency
	for _, t := range p.Block.Transactions {
		for _, f := range t.MinerFees {
			v1fees = v1fees.Add(f)
		}
	}
	for _, t := range p.Block.V2Transactions() {
		v2fees = v2fees.Add(t.MinerFee)
	}
	if len(p.Block.MinerPayouts) != 1 {
		return
	}
	full := p.Block.MinerPayouts[0].Value
	try := func(kind string, v types.Currency) {
		mb := chain.DeepCopyBlock(p.Block)
		mb.Timestamp = p.Block.Timestamp
		s.Seal(&mb, p.Miner)
		mb.MinerPayouts[0].Value = v
		if mb.V2 != nil {
			mb.V2.Commitment = s.Tip.Commitment(p.Miner, mb.Transactions, mb.V2Transactions())
		}
		mb.Nonce = 0
		for nf := s.Tip.NonceFactor(); mb.ID().CmpWork(s.Tip.PoWTarget()) < 0; {
			mb.Nonce += nf
		}
		if op, out, ok := genrunPayouts(s.Tip, mb); ok {
			c01GenOps, c01GenOuts = append(c01GenOps, op), append(c01GenOuts, out)
		}
		var err error
		panicked, msg := fw.Recover(func() { err = consensus.ValidateBlock(s.Tip, mb, chain.CopySupp(p.Supp)) })
		res.Count("payout-mutant:" + kind)
		res.Eval(fmt.Sprintf("payout/%s/%d/%d/%s", rp.Mode, rp.Seed, rp.Height, kind), true)
		if panicked {
			res.Violate(fw.Violation{Key: "c10-validate-or-apply-panic", What: "panic on a payout mutant: " + msg, Replay: rp})
		} else if err == nil {
			res.Violate(fw.Violation{Key: "c01-fees-not-in-payout:accepted:" + kind, What: fmt.Sprintf("a block whose miner payout is %v instead of reward + fees = %v (v1 fees %v, v2 fees %v) was accepted", v, full, v1fees, v2fees), Replay: rp, Expected: "rejected", Observed: "accepted"})
		}
	}
	// a same-block spend that claims MORE than the output it spends holds: from the ephemeral-output fix height on this
	// must be rejected (below it is the documented legacy window: counted)
	if p.Block.V2 != nil {
		for ti, t := range p.Block.V2.Transactions {
			if len(t.SiacoinOutputs) == 0 || !s.Spendable(t.SiacoinOutputs[0].Address, true) {
				continue
			}
			out := t.SiacoinOutputs[0]
			claimed := out.Value.Add(types.Siacoins(1))
			vt := types.V2Transaction{
				SiacoinInputs: []types.V2SiacoinInput{{Parent: types.SiacoinElement{
					ID:            t.SiacoinOutputID(t.ID(), 0),
					StateElement:  types.StateElement{LeafIndex: types.UnassignedLeafIndex},
					SiacoinOutput: types.SiacoinOutput{Value: claimed, Address: out.Address},
				}}},
				SiacoinOutputs: []types.SiacoinOutput{{Value: claimed, Address: out.Address}},
			}
			if !s.ResignV2(&vt) {
				continue
			}
			mb := chain.DeepCopyBlock(p.Block)
			mb.Timestamp = p.Block.Timestamp
			// later transactions may spend that output themselves: keep the prefix only
			mb.V2.Transactions = append(mb.V2.Transactions[:ti+1:ti+1], vt)
			s.Seal(&mb, p.Miner)
			var err error
			panicked, _ := fw.Recover(func() { err = consensus.ValidateBlock(s.Tip, mb, chain.CopySupp(p.Supp)) })
			window := s.ChildHeight() < s.Net.HardforkV2.EphemeralOutputHeight
			res.Count(fmt.Sprintf("ephemeral-forged-value:legacy-window=%v:accepted=%v", window, err == nil && !panicked))
			res.Eval(fmt.Sprintf("ephforge/%s/%d/%d", rp.Mode, rp.Seed, rp.Height), true)
			if err == nil && !panicked && !window {
				res.Violate(fw.Violation{Key: "c01-supply-created:ephemeral-forged-value", What: fmt.Sprintf("a block in which a same-block spend claims %v for an output holding %v was accepted at height %d (ephemeral-output fix height %d)", claimed, out.Value, s.ChildHeight(), s.Net.HardforkV2.EphemeralOutputHeight), Replay: rp, Expected: "rejected", Observed: "accepted"})
			}
			break
		}
	}
	// siafund outputs that equal the inputs only MODULO 2^64 ({2^63, 2^63 + v} for v spent): the number of siafunds must
	// not change, so the block must be rejected (v1 and v2 transactions)
	{
		wrap := func(v uint64, addr types.Address) []types.SiafundOutput {
			return []types.SiafundOutput{{Value: 1 << 63, Address: addr}, {Value: 1<<63 + v, Address: addr}}
		}
		judge := func(kind string, mb types.Block, supp consensus.V1BlockSupplement) {
			s.Seal(&mb, p.Miner)
			var err error
			panicked, msg := fw.Recover(func() { err = consensus.ValidateBlock(s.Tip, mb, supp) })
			res.Count("siafund-wrap-mutant:" + kind)
			res.Eval(fmt.Sprintf("sfwrap/%s/%d/%d/%s", rp.Mode, rp.Seed, rp.Height, kind), true)
			if panicked {
				res.Violate(fw.Violation{Key: "c10-validate-or-apply-panic", What: "panic on a siafund-wrap mutant: " + msg, Replay: rp})
			} else if err == nil {
				res.Violate(fw.Violation{Key: "c01-siafunds-created:outputs-wrap-mod-2^64:" + kind, What: "a block whose transaction spends v siafunds and creates outputs {2^63, 2^63+v} (equal to v only modulo 2^64) was accepted: the number of siafunds changes", Replay: rp, Expected: "rejected", Observed: "accepted"})
			}
		}
		if p.Block.V2 != nil {
			for ti, t := range p.Block.V2.Transactions {
				if len(t.SiafundInputs) == 0 || len(t.SiafundOutputs) == 0 {
					continue
				}
				var in uint64
				for _, sfi := range t.SiafundInputs {
					in += sfi.Parent.SiafundOutput.Value
				}
				mb := chain.DeepCopyBlock(p.Block)
				mb.Timestamp = p.Block.Timestamp
				mt := &mb.V2.Transactions[ti]
				mt.SiafundOutputs = wrap(in, t.SiafundOutputs[0].Address)
				if !s.ResignV2(mt) {
					continue
				}
				mb.V2.Transactions = mb.V2.Transactions[:ti+1] // later transactions may spend the outputs that changed
				mb.Transactions = nil
				judge("v2", mb, consensus.V1BlockSupplement{})
				break
			}
		}
		for ti, t := range p.Block.Transactions {
			if len(t.SiafundInputs) == 0 || len(t.SiafundOutputs) == 0 || ti >= len(p.Supp.Transactions) {
				continue
			}
			var in uint64
			for _, e := range p.Supp.Transactions[ti].SiafundInputs {
				in += e.SiafundOutput.Value
			}
			if in == 0 {
				continue
			}
			mb := chain.DeepCopyBlock(p.Block)
			mb.Timestamp = p.Block.Timestamp
			mt := &mb.Transactions[ti]
			mt.SiafundOutputs = wrap(in, t.SiafundOutputs[0].Address)
			if !s.ResignV1(mt) {
				continue
			}
			mb.Transactions = mb.Transactions[:ti+1]
			if mb.V2 != nil {
				mb.V2.Transactions = nil
			}
			supp := chain.CopySupp(p.Supp)
			supp.Transactions = supp.Transactions[:ti+1]
			judge("v1", mb, supp)
			break
		}
	}
	if !v1fees.IsZero() {
		try("without-v1-fees", full.Sub(v1fees))
	}
	if !v2fees.IsZero() {
		try("without-v2-fees", full.Sub(v2fees))
	}
	try("minus-1H", full.Sub(types.NewCurrency64(1)))
	try("plus-1H", full.Add(types.NewCurrency64(1)))
}
