package props

// C19: SEQUENCES of RPCs on one stream / session ("whatever object one side writes is
// exactly what the other side reads, in order"). rhp/v3: k consecutive RPCs of different
// ids and object sizes on ONE mux stream of the real renter/host transports, by hand and
// through Call, interleaved with error responses and with response sizes at the limit
// boundaries; two streams interleaved on one transport. rhp/v2: several RPCs of different
// ids in one encrypted session. rhp/v4: several requests back to back on one byte stream.

import (
	"bytes"
	"errors"
	"fmt"
	"strings"
	"sync"
	"time"

	rhp2 "go.sia.tech/core/rhp/v2"
	rhp3 "go.sia.tech/core/rhp/v3"
	rhp4 "go.sia.tech/core/rhp/v4"
	"go.sia.tech/core/types"
	"verif/harness/internal/fw"
)

type c19Rpc3 struct {
	id      types.Specifier
	req     []byte // PriceTableJSON of the request object
	resp    []byte // PriceTableJSON of the response object
	respErr string // non-empty: the host answers with this error
	useCall bool
}

func c19Spec(s string) (id types.Specifier) { copy(id[:], s); return }

func c19Rhp3Sequences(c *fw.Ctx, g *c11Gen, k c11Consts, rt, ht *rhp3.Transport) {
	res := c.Res
	const maxLen = 4096
	limit := maxLen + k.rhp3Min
	ids := []string{"LatestRevision", "FundAccount", "AccountBalance", "ExecuteProgram", "UpdatePriceTable", "RenewContract"}
	// response body sizes: small, around minMessageSize, exactly at / just below the limit
	sizes := []int{0, 1, 40, k.rhp3Min - 17 - 1, k.rhp3Min - 17, k.rhp3Min - 17 + 1, limit - 17 - 1, limit - 17}
	run := func(name string, rpcs []c19Rpc3) {
		// the host side accepts the stream when the renter first writes on it
		var hs *rhp3.Stream
		acc := make(chan error, 1)
		go func() {
			s, err := ht.AcceptStream()
			if err == nil {
				s.SetDeadline(time.Now().Add(4 * time.Second))
			}
			hs = s
			acc <- err
		}()
		rs := rt.DialStream()
		rs.SetDeadline(time.Now().Add(4 * time.Second))
		defer rs.Close()
		// run the sequence with a host that waits for the accepted stream
		hostReady := make(chan struct{})
		var hsOK bool
		go func() {
			if err := <-acc; err == nil {
				hsOK = true
			}
			close(hostReady)
		}()
		// the first WriteRequest makes the stream visible; hand the host stream over lazily
		lazy := &c19LazyHost{ready: hostReady, get: func() *rhp3.Stream { return hs }, ok: func() bool { return hsOK }}
		pos, what := c19Rhp3RunSeqLazy(rs, lazy, rpcs, maxLen)
		if hs != nil {
			hs.Close()
		}
		res.Eval(fmt.Sprintf("rhp3-multi %s %d", name, len(rpcs)), true)
		res.Count(fmt.Sprintf("rhp3:sequence-of-%d", len(rpcs)))
		if pos != 0 {
			var desc []string
			for _, r := range rpcs {
				desc = append(desc, fmt.Sprintf("%s req=%d resp=%d err=%q call=%v", strings.TrimRight(string(r.id[:]), "\x00"), len(r.req), len(r.resp), r.respErr, r.useCall))
			}
			c19Violate(c, fmt.Sprintf("c19-rhp3-sequence-unfaithful:%d", pos),
				fmt.Sprintf("RPC %d of %d consecutive RPCs on one rhp/v3 stream (%s) is not transferred faithfully: %s", pos, len(rpcs), name, what),
				map[string]any{"kind": "rhp3-multi", "name": name, "position": pos, "rpcs": desc}, "every id, request and response read as written, in order", what)
		}
	}
	for _, n := range []int{2, 3, 5} {
		for variant := 0; variant < c.Budget(3, 12); variant++ {
			var rpcs []c19Rpc3
			for i := 0; i < n; i++ {
				r := c19Rpc3{id: c19Spec(ids[(i+variant)%len(ids)]), req: g.bytesN(g.rng.Intn(300)),
					resp: g.bytesN(sizes[(i*3+variant)%len(sizes)]), useCall: (i+variant)%3 == 1}
				if (i+variant)%4 == 2 {
					r.respErr = "verif: refused " + fmt.Sprint(i)
				}
				if r.useCall && len(r.resp) > 4096-17 {
					r.resp = r.resp[:100] // Call reads with maxLen 4096
				}
				rpcs = append(rpcs, r)
			}
			run(fmt.Sprintf("k=%d/v%d", n, variant), rpcs)
		}
	}
	// two streams interleaved on one transport
	for rep := 0; rep < c.Budget(2, 10); rep++ {
		type side struct {
			rs   *rhp3.Stream
			lazy *c19LazyHost
			hs   **rhp3.Stream
		}
		mk := func() side {
			var hs *rhp3.Stream
			ready := make(chan struct{})
			okv := false
			go func() {
				s, err := ht.AcceptStream()
				if err == nil {
					s.SetDeadline(time.Now().Add(4 * time.Second))
					hs, okv = s, true
				}
				close(ready)
			}()
			rs := rt.DialStream()
			rs.SetDeadline(time.Now().Add(4 * time.Second))
			return side{rs, &c19LazyHost{ready: ready, get: func() *rhp3.Stream { return hs }, ok: func() bool { return okv }}, &hs}
		}
		// streams are accepted in the order of their first write: open and use A first, then B
		a := mk()
		pa, wa := c19Rhp3RunSeqLazy(a.rs, a.lazy, []c19Rpc3{{id: c19Spec("A1"), req: g.bytesN(10), resp: g.bytesN(20)}}, maxLen)
		b := mk()
		pb, wb := c19Rhp3RunSeqLazy(b.rs, b.lazy, []c19Rpc3{{id: c19Spec("B1"), req: g.bytesN(11), resp: g.bytesN(21)}}, maxLen)
		if pa == 0 {
			pa, wa = c19Rhp3RunSeqLazy(a.rs, a.lazy, []c19Rpc3{{id: c19Spec("A2"), req: g.bytesN(12), resp: g.bytesN(limit - 17)}, {id: c19Spec("A3"), req: nil, respErr: "verif: no"}}, maxLen)
			if pa != 0 {
				pa++
			}
		}
		if pb == 0 {
			pb, wb = c19Rhp3RunSeqLazy(b.rs, b.lazy, []c19Rpc3{{id: c19Spec("B2"), req: g.bytesN(13), resp: g.bytesN(5), useCall: true}}, maxLen)
			if pb != 0 {
				pb++
			}
		}
		res.Eval(fmt.Sprintf("rhp3-interleaved %d", rep), true)
		res.Count("rhp3:interleaved-streams")
		for _, x := range []struct {
			p int
			w string
			n string
		}{{pa, wa, "A"}, {pb, wb, "B"}} {
			if x.p != 0 {
				c19Violate(c, fmt.Sprintf("c19-rhp3-sequence-unfaithful:%d", x.p),
					fmt.Sprintf("RPC %d on stream %s of two interleaved rhp/v3 streams is not transferred faithfully: %s", x.p, x.n, x.w),
					map[string]any{"kind": "rhp3-multi", "name": "interleaved-" + x.n, "position": x.p}, "every id, request and response read as written, in order", x.w)
			}
		}
		a.rs.Close()
		b.rs.Close()
		if *a.hs != nil {
			(*a.hs).Close()
		}
		if *b.hs != nil {
			(*b.hs).Close()
		}
	}
}

// c19LazyHost: the host's end of a mux stream exists only after the renter's first write.
type c19LazyHost struct {
	ready chan struct{}
	get   func() *rhp3.Stream
	ok    func() bool
}

func (l *c19LazyHost) stream() *rhp3.Stream {
	select {
	case <-l.ready:
	case <-time.After(4 * time.Second):
		return nil
	}
	if !l.ok() {
		return nil
	}
	return l.get()
}

// c19Rhp3RunSeqLazy is c19Rhp3RunSeq with the host stream obtained on first use.
func c19Rhp3RunSeqLazy(rs *rhp3.Stream, lazy *c19LazyHost, rpcs []c19Rpc3, maxLen uint64) (int, string) {
	type hres struct {
		id  types.Specifier
		req []byte
		err error
	}
	hch := make(chan hres, len(rpcs))
	go func() {
		hs := lazy.stream()
		for _, r := range rpcs {
			var hr hres
			if hs == nil {
				hr.err = errors.New("the host never saw the stream")
				hch <- hr
				return
			}
			var req rhp3.RPCUpdatePriceTableResponse
			if hr.id, hr.err = hs.ReadID(); hr.err == nil {
				if hr.err = hs.ReadRequest(&req, maxLen); hr.err == nil {
					hr.req = req.PriceTableJSON
					if r.respErr != "" {
						hr.err = hs.WriteResponseErr(&rhp3.RPCError{Description: r.respErr})
					} else {
						hr.err = hs.WriteResponse(&rhp3.RPCUpdatePriceTableResponse{PriceTableJSON: r.resp})
					}
				}
			}
			hch <- hr
			if hr.err != nil {
				return
			}
		}
	}()
	for i, r := range rpcs {
		var got rhp3.RPCUpdatePriceTableResponse
		var rerr error
		req := &rhp3.RPCUpdatePriceTableResponse{PriceTableJSON: r.req}
		if r.useCall {
			rerr = rs.Call(r.id, req, &got)
		} else if rerr = rs.WriteRequest(r.id, req); rerr == nil {
			rerr = rs.ReadResponse(&got, maxLen)
		}
		var hr hres
		select {
		case hr = <-hch:
		case <-time.After(5 * time.Second):
			return i + 1, fmt.Sprintf("the host did not finish RPC %d (renter: %v)", i+1, rerr)
		}
		switch {
		case hr.err != nil:
			return i + 1, fmt.Sprintf("the host could not read RPC %d: %v (renter: %v)", i+1, hr.err, rerr)
		case hr.id != r.id:
			return i + 1, fmt.Sprintf("the host read id %q instead of %q", hr.id.String(), r.id.String())
		case !bytes.Equal(hr.req, r.req):
			return i + 1, "the host read a different request object"
		}
		if r.respErr != "" {
			var ge *rhp3.RPCError
			if !errors.As(rerr, &ge) || ge.Description != r.respErr {
				return i + 1, fmt.Sprintf("the error response was not delivered as that error: %v", rerr)
			}
		} else if rerr != nil || !bytes.Equal(got.PriceTableJSON, r.resp) {
			return i + 1, fmt.Sprintf("the renter did not read the response written: %v", rerr)
		}
	}
	return 0, ""
}

// c19Rhp2Sequences: several RPCs of different ids, objects and outcomes in ONE encrypted
// rhp/v2 session (the ReadID / ReadRequest / WriteResponse loop of a host).
func c19Rhp2Sequences(c *fw.Ctx, g *c11Gen) {
	res := c.Res
	ids := []string{"LoopSettings", "LoopLock", "LoopRead", "LoopWrite", "LoopSectorRoots", "LoopUnlock"}
	for _, n := range []int{2, 3, 5} {
		sess, err := c19NewRhp2Session()
		if err != nil {
			continue
		}
		sess.renter.SetDeadline(time.Now().Add(5 * time.Second))
		sess.host.SetDeadline(time.Now().Add(5 * time.Second))
		pos, what := 0, ""
		for i := 0; i < n && pos == 0; i++ {
			id := c19Spec(ids[(i+n)%len(ids)])
			req := &rhp2.RPCSettingsResponse{Settings: g.bytesN(g.rng.Intn(5000))}
			resp := &rhp2.RPCSettingsResponse{Settings: g.bytesN(g.rng.Intn(9000))}
			sendErr := i%3 == 1
			var gotID types.Specifier
			var gotReq, gotResp rhp2.RPCSettingsResponse
			var herr, rerr error
			var wg sync.WaitGroup
			wg.Add(2)
			go func() {
				defer wg.Done()
				if gotID, herr = sess.host.ReadID(); herr != nil {
					return
				}
				if herr = sess.host.ReadRequest(&gotReq, 1<<20); herr != nil {
					return
				}
				if sendErr {
					herr = sess.host.WriteResponseErr(&rhp2.RPCError{Description: "verif: refused"})
				} else {
					herr = sess.host.WriteResponse(resp)
				}
			}()
			go func() {
				defer wg.Done()
				if rerr = sess.renter.WriteRequest(id, req); rerr != nil {
					return
				}
				rerr = sess.renter.ReadResponse(&gotResp, 1<<20)
			}()
			wg.Wait()
			switch {
			case herr != nil || gotID != id || !bytes.Equal(gotReq.Settings, req.Settings):
				pos, what = i+1, fmt.Sprintf("the host did not read what the renter wrote: %v", herr)
			case sendErr:
				var ge *rhp2.RPCError
				if !errors.As(rerr, &ge) || ge.Description != "verif: refused" {
					pos, what = i+1, fmt.Sprintf("the error response was not delivered: %v", rerr)
				}
			case rerr != nil || !bytes.Equal(gotResp.Settings, resp.Settings):
				pos, what = i+1, fmt.Sprintf("the renter did not read the response written: %v", rerr)
			}
		}
		res.Eval(fmt.Sprintf("rhp2-multi %d", n), true)
		res.Count(fmt.Sprintf("rhp2:sequence-of-%d", n))
		if pos != 0 {
			c19Violate(c, fmt.Sprintf("c19-rhp2-sequence-unfaithful:%d", pos),
				fmt.Sprintf("RPC %d of %d consecutive RPCs in one rhp/v2 session is not transferred faithfully: %s", pos, n, what),
				map[string]any{"kind": "rhp2-multi", "k": n, "position": pos}, "every id, request and response read as written, in order", what)
		}
		sess.close()
	}
}

// c19Rhp4Sequences: rhp/v4 uses one stream per RPC, but its framing is self-delimiting: several
// requests (and responses) written back to back on one byte stream are read back in order,
// each read pulling exactly its own message.
func c19Rhp4Sequences(c *fw.Ctx, g *c11Gen) {
	var buf bytes.Buffer
	type item struct {
		id  types.Specifier
		obj rhp4.Object
	}
	reqs := []item{
		{c19Spec("AccountBalance"), &rhp4.RPCAccountBalanceRequest{Account: rhp4.Account{1}}},
		{c19Spec("LatestRevision"), &rhp4.RPCLatestRevisionRequest{ContractID: types.FileContractID{2}}},
		{c19Spec("FreeSectors"), &rhp4.RPCFreeSectorsRequest{Indices: []uint64{1, 2, 3}}},
	}
	for _, r := range reqs {
		rhp4.WriteRequest(&buf, r.id, r.obj)
	}
	total := buf.Len()
	stream := &c19CountingReader{r: bytes.NewReader(buf.Bytes())}
	got := []rhp4.Object{new(rhp4.RPCAccountBalanceRequest), new(rhp4.RPCLatestRevisionRequest), new(rhp4.RPCFreeSectorsRequest)}
	pos, what := 0, ""
	for i, r := range reqs {
		id, err := rhp4.ReadID(stream)
		if err == nil {
			err = rhp4.ReadRequest(stream, got[i])
		}
		if err != nil || id != r.id || !bytes.Equal(c19EncodeObj(rhp4.VerifCodec{O: got[i]}), c19EncodeObj(rhp4.VerifCodec{O: r.obj})) {
			pos, what = i+1, fmt.Sprint(err)
			break
		}
	}
	c.Res.Eval("rhp4-multi", true)
	c.Res.Count("rhp4:sequence-of-3")
	if pos != 0 || stream.n != total {
		c19Violate(c, fmt.Sprintf("c19-rhp4-sequence-unfaithful:%d", pos), "requests written back to back on one rhp/v4 byte stream are not read back in order: "+what,
			map[string]any{"kind": "rhp4-multi", "position": pos}, "same requests, each read pulling exactly its message", what)
	}
}
