package props

// C05 — Element proofs survive every apply/revert; roots equal the true Merkle forest.
//
// The REAL accumulator (consensus.ElementAccumulator through the verif hooks in
// consensus/verif_acc.go) is driven through
//   (a) an exhaustive enumeration of small sizes: every leaf count n, every subset of
//       updated leaves, every growth k, every tracked index, apply and then revert;
//   (b) random longer histories of interleaved applies and reverts (any depth) with
//       every leaf tracked (old, updated, newly added, spent);
//   (c) synthetic accumulators with large leaf counts (all bit patterns up to 2^40).
// Oracle (statement level): the naive forest over all leaves ever added (c05_acc.go):
// roots, leaf count, and every tracked proof must equal the naive path and verify via
// containsLeaf with the element's current spent flag (and not with the other flag).
// Correspondence: the same inputs go to the Lean model (transliterated algorithm and
// naive-forest specification) through the driver ops acc-scenario/acc-apply/acc-revert.

import (
	"encoding/json"
	"fmt"
	"math/bits"
	"runtime"
	"sort"
	"strings"
	"sync"

	"go.sia.tech/core/consensus"
	"go.sia.tech/core/types"
	"verif/harness/internal/fw"
)

func init() { fw.Register("C05", runC05) }

// c05Base is a fully tracked accumulator state: the real accumulator, the content of
// every leaf and a proof for every leaf.
type c05Base struct {
	acc    consensus.ElementAccumulator
	leaves []accLeaf
	proofs [][]accHash
}

// c05Build adds n fresh leaves to an empty accumulator in one batch.
func c05Build(tag string, n int) (*c05Base, error) {
	b := &c05Base{}
	var vls []consensus.VerifLeaf
	for i := 0; i < n; i++ {
		l := accLeaf{Elem: accElemFor(tag, n, i)}
		b.leaves = append(b.leaves, l)
		vls = append(vls, accMkVerifLeaf(l, types.UnassignedLeafIndex, nil))
	}
	if p, msg := fw.Recover(func() { b.acc.VerifAddLeaves(vls) }); p {
		return nil, fmt.Errorf("addLeaves panicked: %s", msg)
	}
	for i, v := range vls {
		if v.SE.LeafIndex != uint64(i) {
			return nil, fmt.Errorf("addLeaves assigned index %d to leaf %d", v.SE.LeafIndex, i)
		}
		b.proofs = append(b.proofs, v.SE.MerkleProof)
	}
	return b, nil
}

// c05CheckState compares a tracked state with the naive forest. stage names the
// operation that produced it ("apply", "revert", "build").
func c05CheckState(res *fw.Result, stage string, acc *consensus.ElementAccumulator, leaves []accLeaf, proofs [][]accHash, replay any) bool {
	ok := true
	bad := func(key, what, exp, obs string) {
		ok = false
		res.Violate(fw.Violation{Key: key, What: what, Replay: replay, Expected: exp, Observed: obs})
	}
	trees := accNfForest(accLeafHashes(leaves))
	if acc.NumLeaves != uint64(len(leaves)) {
		bad("c05-numleaves-mismatch:"+stage, "accumulator leaf count differs from the number of leaves ever added", fmt.Sprint(len(leaves)), fmt.Sprint(acc.NumLeaves))
		return false
	}
	if got, want := accWHashes(accRoots(acc)), accWHashes(accNfRoots(trees)); got != want {
		bad("c05-root-mismatch:"+stage, "accumulator roots differ from the naive Merkle forest over all leaves", want, got)
	}
	for j := range leaves {
		want := accNfPath(trees, j)
		if !accEqProof(proofs[j], want) {
			bad("c05-proof-stale:"+stage, fmt.Sprintf("tracked proof of leaf %d is not the path of the naive forest after %s", j, stage), accWHashes(want), accWHashes(proofs[j]))
			continue
		}
		cur := consensus.VerifLeaf{SE: &types.StateElement{LeafIndex: uint64(j), MerkleProof: proofs[j]}, ElementHash: leaves[j].Elem, Spent: leaves[j].Spent}
		if !acc.VerifContainsLeaf(cur) {
			bad("c05-proof-rejected:"+stage, fmt.Sprintf("updated proof of leaf %d does not verify against the current accumulator", j), "containsLeaf = true", "false")
		}
		cur.Spent = !cur.Spent
		if acc.VerifContainsLeaf(cur) {
			bad("c05-spent-status:"+stage, fmt.Sprintf("leaf %d verifies with the wrong spent flag", j), "containsLeaf = false", "true")
		}
	}
	return ok
}

// c05Block is one block at accumulator level.
type c05Block struct {
	Updated []int     // indices of existing leaves rewritten by the block
	NewLeaf []accLeaf // their new content (same order)
	Added   []accLeaf
}

func (b c05Block) sortedUpdated() ([]int, []accLeaf) {
	idx := make([]int, len(b.Updated))
	for i := range idx {
		idx[i] = i
	}
	sort.Slice(idx, func(x, y int) bool { return b.Updated[idx[x]] < b.Updated[idx[y]] })
	u := make([]int, len(idx))
	l := make([]accLeaf, len(idx))
	for i, k := range idx {
		u[i], l[i] = b.Updated[k], b.NewLeaf[k]
	}
	return u, l
}

// c05Undo is what a holder needs to revert a block: the state before it.
type c05Undo struct {
	acc        consensus.ElementAccumulator
	numLeaves  int
	oldContent []accLeaf   // content of the updated leaves before the block
	oldProofs  [][]accHash // their proofs before the block
	block      c05Block
}

// c05Apply applies blk to the tracked state through the real applyBlock and
// UpdateElementProof. It returns the undo record and, if wantModel, the model op line
// and the Go answer.
func c05Apply(res *fw.Result, st *c05Base, blk c05Block, trackedForModel []int, replay any) (undo *c05Undo, op, out string, ok bool) {
	n := len(st.leaves)
	ok = true
	undo = &c05Undo{acc: st.acc, numLeaves: n, block: blk}
	var updated, added []consensus.VerifLeaf
	var wUpd, wAdd []string
	for k, i := range blk.Updated {
		undo.oldContent = append(undo.oldContent, st.leaves[i])
		undo.oldProofs = append(undo.oldProofs, accCloneProof(st.proofs[i]))
		updated = append(updated, accMkVerifLeaf(blk.NewLeaf[k], uint64(i), st.proofs[i]))
		wUpd = append(wUpd, accWLeaf(uint64(i), blk.NewLeaf[k], st.proofs[i]))
	}
	for _, l := range blk.Added {
		added = append(added, accMkVerifLeaf(l, types.UnassignedLeafIndex, nil))
		wAdd = append(wAdd, accWNew(l))
	}
	var wTrk []string
	for _, j := range trackedForModel {
		wTrk = append(wTrk, accWIdxProof(uint64(j), st.proofs[j]))
	}
	op = fmt.Sprintf("acc-apply %d %s %s %s %s", st.acc.NumLeaves, accWHashes(accRoots(&st.acc)), accWList(wUpd), accWList(wAdd), accWList(wTrk))

	var u consensus.VerifApplyUpdate
	if p, msg := fw.Recover(func() { u = st.acc.VerifApplyBlock(updated, added) }); p {
		res.Violate(fw.Violation{Key: "c05-panic:apply", What: "applyBlock panicked on a well-formed block: " + msg, Replay: replay})
		return undo, op, "panic", false
	}
	// every holder updates its proof
	newProofs := make([][]accHash, n, n+len(added))
	for j := 0; j < n; j++ {
		se := types.StateElement{LeafIndex: uint64(j), MerkleProof: accCloneProof(st.proofs[j])}
		if p, msg := fw.Recover(func() { u.UpdateElementProof(&se) }); p {
			res.Violate(fw.Violation{Key: "c05-panic:update-apply", What: fmt.Sprintf("ApplyUpdate.UpdateElementProof panicked for leaf %d: %s", j, msg), Replay: replay})
			return undo, op, "panic", false
		}
		newProofs[j] = se.MerkleProof
	}
	for k, i := range blk.Updated {
		st.leaves[i] = blk.NewLeaf[k]
		// the block's own copy of the element must carry the same proof as a holder's
		if !accEqProof(updated[k].SE.MerkleProof, newProofs[i]) {
			res.Violate(fw.Violation{Key: "c05-updated-leaf-proof", What: fmt.Sprintf("proof of updated leaf %d rewritten by applyBlock differs from the proof a holder obtains from UpdateElementProof", i),
				Replay: replay, Expected: accWHashes(newProofs[i]), Observed: accWHashes(updated[k].SE.MerkleProof)})
			ok = false
		}
	}
	for k, v := range added {
		if v.SE.LeafIndex != uint64(n+k) {
			res.Violate(fw.Violation{Key: "c05-added-index", What: "added leaf got the wrong leaf index", Replay: replay, Expected: fmt.Sprint(n + k), Observed: fmt.Sprint(v.SE.LeafIndex)})
		}
		st.leaves = append(st.leaves, blk.Added[k])
		newProofs = append(newProofs, v.SE.MerkleProof)
		// a client that stores the new element and then refreshes ALL its elements with the same update
		// (the usual order) must keep a valid proof for it: the update is a no-op on elements it added
		se := types.StateElement{LeafIndex: v.SE.LeafIndex, MerkleProof: accCloneProof(v.SE.MerkleProof)}
		if p, msg := fw.Recover(func() { u.UpdateElementProof(&se) }); p {
			res.Violate(fw.Violation{Key: "c05-panic:update-apply:added-leaf", What: fmt.Sprintf("ApplyUpdate.UpdateElementProof panicked for leaf %d, which this very update added: %s", v.SE.LeafIndex, msg), Replay: replay})
			ok = false
		} else if !accEqProof(se.MerkleProof, v.SE.MerkleProof) {
			res.Violate(fw.Violation{Key: "c05-added-leaf-proof-changed", What: fmt.Sprintf("UpdateElementProof of the update that added leaf %d changed its (already current) proof", v.SE.LeafIndex), Replay: replay,
				Expected: accWHashes(v.SE.MerkleProof), Observed: accWHashes(se.MerkleProof)})
			ok = false
		}
	}
	st.proofs = newProofs
	ok = c05CheckState(res, "apply", &st.acc, st.leaves, st.proofs, replay) && ok

	// Go answer in the format of the acc-apply op
	var ups, adds []accIdxProof
	for _, v := range updated {
		ups = append(ups, accIdxProof{v.SE.LeafIndex, v.SE.MerkleProof})
	}
	for _, v := range added {
		adds = append(adds, accIdxProof{v.SE.LeafIndex, v.SE.MerkleProof})
	}
	var trk []string
	for _, j := range trackedForModel {
		trk = append(trk, accWHashes(st.proofs[j]))
	}
	out = fmt.Sprintf("ok %d %s %s %s %s", st.acc.NumLeaves, accWHashes(accRoots(&st.acc)), accWIdxProofsSorted(ups), accWIdxProofsSorted(adds), accWList(trk))
	return undo, op, out, ok
}

// c05Revert reverts the last block: the real revertBlock on the accumulator before the
// block, with the block's elements in their pre-block form, then UpdateElementProof
// for every holder.
func c05Revert(res *fw.Result, st *c05Base, undo *c05Undo, trackedForModel []int, replay any) (op, out string, ok bool) {
	acc0 := undo.acc
	var updated, added []consensus.VerifLeaf
	var wUpd []string
	for k, i := range undo.block.Updated {
		updated = append(updated, accMkVerifLeaf(undo.oldContent[k], uint64(i), undo.oldProofs[k]))
		wUpd = append(wUpd, accWLeaf(uint64(i), undo.oldContent[k], undo.oldProofs[k]))
	}
	for _, l := range undo.block.Added {
		added = append(added, accMkVerifLeaf(l, types.UnassignedLeafIndex, nil))
	}
	var wTrk []string
	for _, j := range trackedForModel {
		wTrk = append(wTrk, accWIdxProof(uint64(j), st.proofs[j]))
	}
	op = fmt.Sprintf("acc-revert %d %s %d %s", acc0.NumLeaves, accWList(wUpd), len(added), accWList(wTrk))
	var u consensus.VerifRevertUpdate
	if p, msg := fw.Recover(func() { u = acc0.VerifRevertBlock(updated, added) }); p {
		res.Violate(fw.Violation{Key: "c05-panic:revert", What: "revertBlock panicked on a well-formed block: " + msg, Replay: replay})
		return op, "panic", false
	}
	if acc0 != undo.acc {
		res.Violate(fw.Violation{Key: "c05-revert-mutates-acc", What: "revertBlock modified the accumulator it was called on", Replay: replay})
	}
	n := undo.numLeaves
	newProofs := make([][]accHash, n)
	for j := 0; j < n; j++ {
		se := types.StateElement{LeafIndex: uint64(j), MerkleProof: accCloneProof(st.proofs[j])}
		if p, msg := fw.Recover(func() { u.UpdateElementProof(&se) }); p {
			res.Violate(fw.Violation{Key: "c05-panic:update-revert", What: fmt.Sprintf("RevertUpdate.UpdateElementProof panicked for leaf %d: %s", j, msg), Replay: replay})
			return op, "panic", false
		}
		newProofs[j] = se.MerkleProof
	}
	var trk []string
	for _, j := range trackedForModel {
		if j < n {
			trk = append(trk, accWHashes(newProofs[j]))
		} else {
			// an element created by the reverted block: Go panics ("not present")
			se := types.StateElement{LeafIndex: uint64(j), MerkleProof: accCloneProof(st.proofs[j])}
			if p, _ := fw.Recover(func() { u.UpdateElementProof(&se) }); p {
				trk = append(trk, "panic")
			} else {
				trk = append(trk, accWHashes(se.MerkleProof))
			}
		}
	}
	for k, i := range undo.block.Updated {
		st.leaves[i] = undo.oldContent[k]
	}
	st.leaves = st.leaves[:n]
	st.proofs = newProofs
	st.acc = acc0
	ok = c05CheckState(res, "revert", &st.acc, st.leaves, st.proofs, replay)
	var ups []accIdxProof
	for _, v := range updated {
		ups = append(ups, accIdxProof{v.SE.LeafIndex, v.SE.MerkleProof})
	}
	var idxs []string
	for _, v := range added {
		idxs = append(idxs, fmt.Sprint(v.SE.LeafIndex))
	}
	out = fmt.Sprintf("ok %d %s %s %s", u.NumLeaves(), accWIdxProofsSorted(ups), accWList(idxs), accWList(trk))
	return op, out, ok
}

// ---------------------------------------------------------------- (a) exhaustive

type c05Scenario struct {
	Kind string `json:"kind"`
	N    int    `json:"n"`
	Mask uint32 `json:"mask"`
	K    int    `json:"k"`
}

// c05Content picks the new content of updated leaf i: spend, revise, or revise+resolve.
func c05Content(old accLeaf, sc c05Scenario, i int) accLeaf {
	switch (i + bits.OnesCount32(sc.Mask) + sc.K) % 3 {
	case 0:
		return accLeaf{Elem: old.Elem, Spent: true}
	case 1:
		return accLeaf{Elem: accElemFor("rev", sc.N, i), Spent: false}
	default:
		return accLeaf{Elem: accElemFor("rev", sc.N, i), Spent: true}
	}
}

func (sc c05Scenario) block(base *c05Base) c05Block {
	var blk c05Block
	for i := 0; i < sc.N; i++ {
		if sc.Mask&(1<<i) != 0 {
			blk.Updated = append(blk.Updated, i)
			blk.NewLeaf = append(blk.NewLeaf, c05Content(base.leaves[i], sc, i))
		}
	}
	for j := 0; j < sc.K; j++ {
		blk.Added = append(blk.Added, accLeaf{Elem: accElemFor("add", sc.N*100+sc.K, j)})
	}
	return blk
}

// c05RunScenario: apply then revert one block on the size-n base state, every leaf
// tracked. Returns model ops/answers when wantModel.
func c05RunScenario(res *fw.Result, base *c05Base, sc c05Scenario, wantModel bool) (ops, outs []string) {
	st := &c05Base{acc: base.acc, leaves: append([]accLeaf(nil), base.leaves...), proofs: base.proofs}
	blk := sc.block(base)
	all := make([]int, sc.N)
	for i := range all {
		all[i] = i
	}
	undo, _, _, _ := c05Apply(res, st, blk, nil, sc)
	if wantModel {
		// acc-scenario: "<algorithm> = <specification>", both sides computed here from
		// the real code and from the naive oracle respectively
		var ini, upd, add []string
		for _, l := range base.leaves {
			ini = append(ini, accWNew(l))
		}
		for k, i := range blk.Updated {
			upd = append(upd, fmt.Sprintf("%d:%s:%s", i, accWBool(blk.NewLeaf[k].Spent), accWHash(blk.NewLeaf[k].Elem)))
		}
		for _, l := range blk.Added {
			add = append(add, accWNew(l))
		}
		ops = append(ops, fmt.Sprintf("acc-scenario %s %s %s", accWList(ini), accWList(upd), accWList(add)))
		var ps, qs []string
		trees := accNfForest(accLeafHashes(st.leaves))
		for j := range st.leaves {
			ps = append(ps, accWHashes(st.proofs[j]))
			qs = append(qs, accWHashes(accNfPath(trees, j)))
		}
		outs = append(outs, fmt.Sprintf("%d %s %s = %d %s %s", st.acc.NumLeaves, accWHashes(accRoots(&st.acc)), accWList(ps), len(st.leaves), accWHashes(accNfRoots(trees)), accWList(qs)))
	}
	trk := []int(nil)
	if wantModel {
		trk = make([]int, len(st.leaves))
		for i := range trk {
			trk[i] = i
		}
	}
	op, out, _ := c05Revert(res, st, undo, trk, sc)
	if wantModel {
		ops = append(ops, op)
		outs = append(outs, out)
	}
	// round trip: every proof is back to its value before the block
	for j := range base.proofs {
		if !accEqProof(st.proofs[j], base.proofs[j]) {
			res.Violate(fw.Violation{Key: "c05-roundtrip", What: fmt.Sprintf("apply then revert does not restore the proof of leaf %d", j), Replay: sc,
				Expected: accWHashes(base.proofs[j]), Observed: accWHashes(st.proofs[j])})
		}
	}
	return
}

func c05Exhaustive(c *fw.Ctx) {
	res := c.Res
	maxN, maxK := c.Budget(10, 16), c.Budget(4, 8)
	modelN := c.Budget(10, 11) // the Lean model is compared exhaustively up to this size, sampled above
	var ops, outs []string
	var mu sync.Mutex
	complete := true
	for n := 0; n <= maxN; n++ {
		base, err := c05Build("ini", n)
		if err != nil {
			res.Violate(fw.Violation{Key: "c05-panic:build", What: err.Error(), Replay: c05Scenario{Kind: "scenario", N: n}})
			complete = false
			continue
		}
		if !c05CheckState(res, "build", &base.acc, base.leaves, base.proofs, c05Scenario{Kind: "scenario", N: n}) {
			complete = false
			continue
		}
		// which scenarios also go to the model
		sampleEvery := uint32(1)
		if n > modelN {
			sampleEvery = 1 << uint(n-modelN) * 3
		}
		off := uint32(c.Rng.Intn(int(sampleEvery)))
		masks := uint32(1) << uint(n)
		workers := runtime.NumCPU()
		if masks < 64 {
			workers = 1
		}
		var wg sync.WaitGroup
		chunk := (masks + uint32(workers) - 1) / uint32(workers)
		type lines struct{ ops, outs []string }
		parts := make([]lines, workers)
		for w := 0; w < workers; w++ {
			lo, hi := uint32(w)*chunk, uint32(w+1)*chunk
			if hi > masks {
				hi = masks
			}
			if lo >= hi {
				continue
			}
			wg.Add(1)
			go func(w int, lo, hi uint32) {
				defer wg.Done()
				for mask := lo; mask < hi; mask++ {
					for k := 0; k <= maxK; k++ {
						sc := c05Scenario{Kind: "scenario", N: n, Mask: mask, K: k}
						wantModel := c.Model != nil && (mask*uint32(maxK+1)+uint32(k))%sampleEvery == off%sampleEvery
						o, g := c05RunScenario(res, base, sc, wantModel)
						parts[w].ops = append(parts[w].ops, o...)
						parts[w].outs = append(parts[w].outs, g...)
						res.Eval(fmt.Sprintf("scenario %d %d %d", n, mask, k), n > 0 && (mask != 0 || k != 0))
					}
				}
			}(w, lo, hi)
		}
		wg.Wait()
		mu.Lock()
		for _, p := range parts {
			ops = append(ops, p.ops...)
			outs = append(outs, p.outs...)
		}
		mu.Unlock()
		res.CountN(fmt.Sprintf("exhaustive:n=%02d(scenarios)", n), int(masks)*(maxK+1))
		res.CountN("exhaustive:tracked-proofs-checked(apply+revert)", int(masks)*(maxK+1)*(2*n)+int(masks)*(maxK*(maxK+1)/2))
	}
	res.Sample(map[string]any{"exhaustive": fmt.Sprintf("every n<=%d, every subset of updated leaves, every growth k<=%d, every tracked index; apply then revert", maxN, maxK), "model_lines": len(ops)})
	if len(ops) > 0 {
		res.Sample(map[string]string{"op": ops[len(ops)/2], "go": outs[len(outs)/2]})
	}
	c.Compare(ops, outs)
	if complete && len(res.Violations) == 0 {
		res.Exhaustive = true
	}
	res.Note("exhaustive enumeration: n<=%d, all 2^n subsets, k<=%d, all tracked indices, apply+revert round trip; Lean model compared on every scenario with n<=%d and a 1/(3*2^(n-%d)) sample above", maxN, maxK, modelN, modelN)
}

// ---------------------------------------------------------------- (b) random histories

func c05RandomBlock(c *fw.Ctx, st *c05Base, serial *int) c05Block {
	var blk c05Block
	n := len(st.leaves)
	// how many existing leaves the block touches
	var nu int
	switch c.Rng.Intn(6) {
	case 0:
		nu = 0
	case 1:
		nu = 1
	case 2:
		nu = n / 2
	default:
		nu = c.Rng.Intn(12)
	}
	if nu > n {
		nu = n
	}
	seen := map[int]bool{}
	for len(blk.Updated) < nu {
		var i int
		if c.Rng.Intn(3) == 0 && n > 8 { // cluster near the right edge / in a small tree
			i = n - 1 - c.Rng.Intn(8)
		} else {
			i = c.Rng.Intn(n)
		}
		if seen[i] {
			continue
		}
		seen[i] = true
		*serial++
		old := st.leaves[i]
		var nl accLeaf
		switch c.Rng.Intn(3) {
		case 0:
			nl = accLeaf{Elem: old.Elem, Spent: !old.Spent}
		case 1:
			nl = accLeaf{Elem: accElemFor("rnd-rev", *serial, i), Spent: false}
		default:
			nl = accLeaf{Elem: accElemFor("rnd-rev", *serial, i), Spent: true}
		}
		blk.Updated = append(blk.Updated, i)
		blk.NewLeaf = append(blk.NewLeaf, nl)
	}
	var na int
	switch c.Rng.Intn(8) {
	case 0:
		na = 0
	case 1:
		na = 1
	case 2:
		na = 1 << uint(c.Rng.Intn(8)) // exactly a power of two
	case 3:
		na = c.Rng.Intn(300)
	default:
		na = c.Rng.Intn(20)
	}
	for j := 0; j < na; j++ {
		*serial++
		blk.Added = append(blk.Added, accLeaf{Elem: accElemFor("rnd-add", *serial, j), Spent: c.Rng.Intn(10) == 0})
	}
	return blk
}

func c05Random(c *fw.Ctx) {
	res := c.Res
	histories := c.Budget(24, 400)
	steps := c.Budget(40, 150)
	var ops, outs []string
	serial := 0
	for hi := 0; hi < histories; hi++ {
		n0 := 0
		switch c.Rng.Intn(4) {
		case 0:
			n0 = 0
		case 1:
			n0 = c.Rng.Intn(40)
		case 2:
			n0 = (1 << uint(c.Rng.Intn(10))) - c.Rng.Intn(2)
		default:
			n0 = c.Rng.Intn(1500)
		}
		st, err := c05Build(fmt.Sprintf("hist%d", hi), n0)
		if err != nil {
			res.Violate(fw.Violation{Key: "c05-panic:build", What: err.Error(), Replay: map[string]any{"kind": "history", "history": hi}})
			continue
		}
		var stack []*c05Undo
		trace := []string{fmt.Sprintf("build %d", n0)}
		pendingRevert := 0
		for s := 0; s < steps; s++ {
			replay := map[string]any{"kind": "history", "seed": c.Seed, "history": hi, "step": s, "trace": strings.Join(trace, "; ")}
			if pendingRevert == 0 && len(stack) > 0 && c.Rng.Intn(3) == 0 {
				pendingRevert = 1 + c.Rng.Intn(len(stack))
				if pendingRevert > 6 && c.Rng.Intn(4) != 0 {
					pendingRevert = 1 + c.Rng.Intn(6)
				}
				res.Count(fmt.Sprintf("history:revert-depth=%s", c05Bucket(pendingRevert)))
			}
			// model sample: a few tracked leaves
			pick := func() []int {
				var t []int
				for x := 0; x < 6 && len(st.leaves) > 0; x++ {
					t = append(t, c.Rng.Intn(len(st.leaves)))
				}
				return t
			}
			if pendingRevert > 0 {
				undo := stack[len(stack)-1]
				stack = stack[:len(stack)-1]
				pendingRevert--
				trk := pick()
				op, out, ok := c05Revert(res, st, undo, trk, replay)
				trace = append(trace, fmt.Sprintf("revert(u=%d,a=%d)", len(undo.block.Updated), len(undo.block.Added)))
				res.Eval(fmt.Sprintf("hist %d %d revert", hi, s), true)
				res.Count("history:step=revert")
				if c.Model != nil && c.Rng.Intn(3) == 0 {
					ops, outs = append(ops, op), append(outs, out)
				}
				if !ok {
					break
				}
				continue
			}
			blk := c05RandomBlock(c, st, &serial)
			trk := pick()
			for _, i := range blk.Updated {
				if len(trk) < 10 {
					trk = append(trk, i)
				}
			}
			undo, op, out, ok := c05Apply(res, st, blk, trk, replay)
			stack = append(stack, undo)
			trace = append(trace, fmt.Sprintf("apply(n=%d,u=%d,a=%d)", undo.numLeaves, len(blk.Updated), len(blk.Added)))
			res.Eval(fmt.Sprintf("hist %d %d apply", hi, s), len(blk.Updated)+len(blk.Added) > 0)
			res.Count("history:step=apply")
			res.Count("history:leaves=" + c05Bucket(len(st.leaves)))
			res.Count("history:updated=" + c05Bucket(len(blk.Updated)))
			res.Count("history:added=" + c05Bucket(len(blk.Added)))
			if c.Model != nil && c.Rng.Intn(3) == 0 {
				ops, outs = append(ops, op), append(outs, out)
			}
			if !ok {
				break
			}
		}
		if hi == 0 {
			res.Sample(map[string]any{"history": strings.Join(trace, "; ")})
		}
	}
	c.Compare(ops, outs)
}

func c05Bucket(n int) string {
	switch {
	case n == 0:
		return "0"
	case n == 1:
		return "1"
	case n < 4:
		return "2-3"
	case n < 16:
		return "4-15"
	case n < 64:
		return "16-63"
	case n < 256:
		return "64-255"
	case n < 1024:
		return "256-1023"
	default:
		return ">=1024"
	}
}

// ---------------------------------------------------------------- replay

func c05Replay(c *fw.Ctx) {
	b, err := readFile(c.Replay)
	if err != nil {
		c.Res.Note("cannot read replay: %v", err)
		return
	}
	var v struct {
		Replay c05Scenario `json:"replay"`
	}
	if json.Unmarshal(b, &v) != nil || v.Replay.Kind != "scenario" {
		c.Res.Note("replay file is not a scenario; history replays are reproduced by re-running with the stored seed")
		return
	}
	sc := v.Replay
	base, err := c05Build("ini", sc.N)
	if err != nil {
		c.Res.Violate(fw.Violation{Key: "c05-panic:build", What: err.Error(), Replay: sc})
		return
	}
	ops, outs := c05RunScenario(c.Res, base, sc, c.Model != nil)
	c.Res.Eval(fmt.Sprintf("scenario %d %d %d", sc.N, sc.Mask, sc.K), true)
	c.Compare(ops, outs)
}

func runC05(c *fw.Ctx) {
	c.Res.Rule = "accumulator states reached through the real addLeaves/applyBlock/revertBlock/UpdateElementProof: (a) exhaustive: every leaf count n, every subset of updated leaves (spend / revise / revise+resolve), every growth k, every tracked index, apply then revert; (b) random histories of interleaved applies and reverts of depth >= 1 on up to a few thousand leaves, every leaf tracked; (c) synthetic accumulators with leaf counts up to 2^40. A case is one block application or revert; non-trivial when it changes or adds at least one leaf; distinct by scenario. Oracle: independent naive Merkle forest over all leaves ever added."
	if c.Replay != "" {
		c05Replay(c)
		return
	}
	c05Exhaustive(c)
	c05Random(c)
	c05Synthetic(c)
	c05Malformed(c)
	c05E2E(c)
}
