package props

// C03 — Spends, revisions, renewals, attestations need content-binding authorisation.
//
// TAMPER SWEEP on generated valid blocks (all modes): for every transaction of a block
// every applicable single-point tampering that keeps everything else valid — signed
// content changed after signing, a signature / preimage corrupted, dropped, duplicated or
// added, a signature's parameters changed, the revealed conditions or policy replaced by
// the attacker's own (with a valid attacker signature), a key-rotating revision signed by
// the NEW keys, a renewal or attestation signed by the wrong key, Foundation updates without
// the current Foundation keys. The block is re-sealed (payout, commitment, nonce) WITHOUT
// re-signing and consensus.ValidateBlock must reject it; the untampered block must be
// accepted. Accepted blocks and mutants are also judged by the Lean ledger model.
//
// Content is "signed" when some signature of the transaction covers it: a v1 transaction
// with at least one whole-transaction signature; a v2 transaction with at least one input
// whose satisfied policy consumed a signature; contract / renewal / attestation content is
// covered by its own signatures. Transactions without any such signature (storage proofs,
// expirations, hash-locked spends) authorise nothing by signature and are not tampered with.

import (
	"bytes"
	"crypto/sha256"
	"encoding/binary"
	"encoding/json"
	"fmt"
	"math/rand"
	"reflect"
	"sort"
	"strings"
	"time"

	"go.sia.tech/core/consensus"
	"go.sia.tech/core/types"
	"verif/harness/internal/chain"
	"verif/harness/internal/fw"
)

func init() { fw.Register("C03", runC03) }

type c03Ctx struct {
	c    *fw.Ctx
	rng  *rand.Rand
	ops  []string
	outs []string
}

func c03Attacker(s *chain.Sim, rng *rand.Rand) *chain.Recipe {
	seed := make([]byte, 32)
	rng.Read(seed)
	k := types.NewPrivateKeyFromSeed(seed)
	uc := types.StandardUnlockConditions(k.PublicKey())
	r := &chain.Recipe{Kind: "uc1", UC: &uc, Keys: []types.PrivateKey{k}, UCKeyIdx: []uint64{0}}
	r.Policy = types.SpendPolicy{Type: types.PolicyTypeUnlockConditions(uc)}
	r.Reveal = r.Policy
	r.Addr = uc.UnlockHash()
	s.W.Recipes[r.Addr] = r
	return r
}

func flipAddr(a types.Address, rng *rand.Rand) types.Address {
	a[rng.Intn(32)] ^= 1 << uint(rng.Intn(8))
	return a
}

func flipSig(sg types.Signature, rng *rand.Rand) types.Signature {
	sg[rng.Intn(64)] ^= 1 << uint(rng.Intn(8))
	return sg
}

// v1Signed: some whole-transaction signature covers the content.
func v1Signed(t types.Transaction) bool {
	for _, sg := range t.Signatures {
		if sg.CoveredFields.WholeTransaction {
			return true
		}
	}
	return false
}

// v2Signed: some input's satisfied policy consumed a signature.
func v2Signed(t types.V2Transaction) bool {
	for _, in := range t.SiacoinInputs {
		if len(in.SatisfiedPolicy.Signatures) > 0 {
			return true
		}
	}
	for _, in := range t.SiafundInputs {
		if len(in.SatisfiedPolicy.Signatures) > 0 {
			return true
		}
	}
	return false
}

// alienUC: unlock conditions in which some key is of an algorithm core does not know. Any bytes are a valid
// signature for such a key (documented: "all other algorithms are considered valid by default"), so a
// transaction spending through one is not bound to its content by that signature: tamper expectations
// do not apply to it (like a transaction that needs no signature at all).
func alienUC(uc types.UnlockConditions) bool {
	for _, k := range uc.PublicKeys {
		if k.Algorithm != types.SpecifierEd25519 && k.Algorithm != types.SpecifierEntropy {
			return true
		}
	}
	return false
}

func alienV1(t types.Transaction) bool {
	for _, in := range t.SiacoinInputs {
		if alienUC(in.UnlockConditions) {
			return true
		}
	}
	for _, in := range t.SiafundInputs {
		if alienUC(in.UnlockConditions) {
			return true
		}
	}
	for _, r := range t.FileContractRevisions {
		if alienUC(r.UnlockConditions) {
			return true
		}
	}
	return false
}

func alienV2(t types.V2Transaction) bool {
	al := func(p types.SpendPolicy) bool {
		uc, ok := p.Type.(types.PolicyTypeUnlockConditions)
		return ok && alienUC(types.UnlockConditions(uc))
	}
	for _, in := range t.SiacoinInputs {
		if al(in.SatisfiedPolicy.Policy) {
			return true
		}
	}
	for _, in := range t.SiafundInputs {
		if al(in.SatisfiedPolicy.Policy) {
			return true
		}
	}
	return false
}

// tamperMutants builds every applicable tampered copy of block p.
func (x *c03Ctx) tamperMutants(s *chain.Sim, p chain.BlockPlan) []mutant {
	var out []mutant
	b := p.Block
	rng := x.rng
	child := s.ChildHeight()
	add := func(kind string, edit func(mb *types.Block) bool) {
		mb, ms := chain.DeepCopyBlock(b), chain.CopySupp(p.Supp)
		mb.Timestamp = b.Timestamp // the copy goes through the encoding, which drops sub-second precision
		if !edit(&mb) {
			return
		}
		s.Seal(&mb, p.Miner)
		out = append(out, mutant{kind, mb, ms})
	}
	// ------------------------------------------------------------ v1
	for i, t := range b.Transactions {
		i := i
		if alienV1(t) {
			x.c.Res.Count("skipped:alien-key-transaction:v1")
			continue
		}
		if v1Signed(t) {
			if len(t.SiacoinOutputs) > 0 {
				add("v1-output-address", func(mb *types.Block) bool {
					o := &mb.Transactions[i].SiacoinOutputs[rng.Intn(len(t.SiacoinOutputs))]
					o.Address = flipAddr(o.Address, rng)
					return true
				})
				add("v1-move-1H", func(mb *types.Block) bool {
					c := &mb.Transactions[i]
					k := rng.Intn(len(c.SiacoinOutputs))
					if c.SiacoinOutputs[k].Value.Cmp(types.NewCurrency64(2)) < 0 {
						return false
					}
					c.SiacoinOutputs[k].Value = c.SiacoinOutputs[k].Value.Sub(types.NewCurrency64(1))
					if len(c.MinerFees) > 0 {
						c.MinerFees[0] = c.MinerFees[0].Add(types.NewCurrency64(1))
					} else {
						c.MinerFees = append(c.MinerFees, types.NewCurrency64(1))
					}
					return true
				})
			}
			add("v1-arbitrary-data", func(mb *types.Block) bool {
				c := &mb.Transactions[i]
				if len(c.ArbitraryData) > 0 && len(c.ArbitraryData[0]) > 20 {
					c.ArbitraryData[0][len(c.ArbitraryData[0])-1] ^= 1 // also reaches the payload of a Foundation update
				} else {
					c.ArbitraryData = append(c.ArbitraryData, []byte("tampered"))
				}
				return true
			})
			if len(t.SiafundInputs) > 0 {
				add("v1-claim-address", func(mb *types.Block) bool {
					in := &mb.Transactions[i].SiafundInputs[0]
					in.ClaimAddress = flipAddr(in.ClaimAddress, rng)
					return true
				})
			}
			if len(t.SiafundOutputs) > 0 {
				add("v1-siafund-output-address", func(mb *types.Block) bool {
					o := &mb.Transactions[i].SiafundOutputs[0]
					o.Address = flipAddr(o.Address, rng)
					return true
				})
			}
			if len(t.FileContracts) > 0 {
				add("v1-contract-field", func(mb *types.Block) bool {
					fc := &mb.Transactions[i].FileContracts[0]
					switch rng.Intn(3) {
					case 0:
						fc.RevisionNumber++
					case 1:
						fc.UnlockHash = flipAddr(fc.UnlockHash, rng)
					default:
						if len(fc.ValidProofOutputs) == 0 {
							return false
						}
						fc.ValidProofOutputs[0].Address = flipAddr(fc.ValidProofOutputs[0].Address, rng)
					}
					return true
				})
			}
			if len(t.FileContractRevisions) > 0 {
				add("v1-revision-field", func(mb *types.Block) bool {
					r := &mb.Transactions[i].FileContractRevisions[0]
					switch rng.Intn(3) {
					case 0:
						r.FileContract.RevisionNumber++
					case 1:
						r.FileContract.UnlockHash = flipAddr(r.FileContract.UnlockHash, rng)
					default:
						if len(r.FileContract.MissedProofOutputs) == 0 {
							return false
						}
						r.FileContract.MissedProofOutputs[0].Address = flipAddr(r.FileContract.MissedProofOutputs[0].Address, rng)
					}
					return true
				})
			}
		}
		for k := range t.Signatures {
			k := k
			add("v1-sig-flip", func(mb *types.Block) bool {
				sg := mb.Transactions[i].Signatures[k].Signature
				if len(sg) == 0 {
					return false
				}
				sg[rng.Intn(len(sg))] ^= 1 << uint(rng.Intn(8))
				return true
			})
			add("v1-sig-drop", func(mb *types.Block) bool {
				c := &mb.Transactions[i]
				c.Signatures = append(c.Signatures[:k:k], c.Signatures[k+1:]...)
				return true
			})
			add("v1-sig-dup", func(mb *types.Block) bool {
				c := &mb.Transactions[i]
				c.Signatures = append(c.Signatures, c.Signatures[k])
				return true
			})
			add("v1-sig-replaced-by-copy", func(mb *types.Block) bool {
				// a co-signer's signature replaced by a copy of another signature for the same parent:
				// the count is right, the number of distinct signers is not
				c := &mb.Transactions[i]
				for k2 := range c.Signatures {
					if k2 != k && c.Signatures[k2].ParentID == c.Signatures[k].ParentID {
						c.Signatures[k2] = c.Signatures[k]
						return true
					}
				}
				return false
			})
			add("v1-sig-pubkeyindex", func(mb *types.Block) bool {
				sg := &mb.Transactions[i].Signatures[k]
				sg.PublicKeyIndex = (sg.PublicKeyIndex + 1 + uint64(rng.Intn(2))) % 3
				return sg.PublicKeyIndex != t.Signatures[k].PublicKeyIndex
			})
			add("v1-sig-timelock", func(mb *types.Block) bool {
				sg := &mb.Transactions[i].Signatures[k]
				sg.Timelock = 1 + uint64(rng.Intn(int(child))) // expired, but not what was signed
				return true
			})
			add("v1-sig-covered-sigs", func(mb *types.Block) bool {
				sg := &mb.Transactions[i].Signatures[k]
				sg.CoveredFields.Signatures = append(sg.CoveredFields.Signatures, uint64(rng.Intn(len(t.Signatures))))
				return true
			})
			add("v1-sig-partial", func(mb *types.Block) bool {
				c := &mb.Transactions[i]
				cf := types.CoveredFields{}
				idx := func(n int) (r []uint64) {
					for j := 0; j < n; j++ {
						r = append(r, uint64(j))
					}
					return
				}
				cf.SiacoinInputs, cf.SiacoinOutputs, cf.FileContracts = idx(len(c.SiacoinInputs)), idx(len(c.SiacoinOutputs)), idx(len(c.FileContracts))
				cf.FileContractRevisions, cf.StorageProofs, cf.SiafundInputs = idx(len(c.FileContractRevisions)), idx(len(c.StorageProofs)), idx(len(c.SiafundInputs))
				cf.SiafundOutputs, cf.MinerFees, cf.ArbitraryData = idx(len(c.SiafundOutputs)), idx(len(c.MinerFees)), idx(len(c.ArbitraryData))
				c.Signatures[k].CoveredFields = cf
				return true
			})
		}
		if len(t.Signatures) > 0 {
			add("v1-sig-append", func(mb *types.Block) bool {
				// one more signature for an already satisfied parent, validly made by the attacker
				c := &mb.Transactions[i]
				at := c03Attacker(s, rng)
				sg := types.TransactionSignature{ParentID: c.Signatures[0].ParentID, PublicKeyIndex: 0, CoveredFields: types.CoveredFields{WholeTransaction: true}}
				h := s.Tip.WholeSigHash(*c, sg.ParentID, sg.PublicKeyIndex, sg.Timelock, nil)
				sig := at.Keys[0].SignHash(h)
				sg.Signature = sig[:]
				c.Signatures = append(c.Signatures, sg)
				return true
			})
		}
		if len(t.SiacoinInputs) > 0 && len(t.StorageProofs) == 0 {
			add("v1-uc-substitute", func(mb *types.Block) bool {
				// the attacker reveals his own unlock conditions and signs validly with his own key
				c := &mb.Transactions[i]
				at := c03Attacker(s, rng)
				c.SiacoinInputs[rng.Intn(len(c.SiacoinInputs))].UnlockConditions = *at.UC
				return s.ResignV1(c)
			})
		}
		if len(t.SiafundInputs) > 0 {
			add("v1-uc-substitute-siafund", func(mb *types.Block) bool {
				c := &mb.Transactions[i]
				at := c03Attacker(s, rng)
				c.SiafundInputs[0].UnlockConditions = *at.UC
				return s.ResignV1(c)
			})
		}
		if len(t.FileContractRevisions) > 0 {
			add("v1-uc-substitute-revision", func(mb *types.Block) bool {
				c := &mb.Transactions[i]
				at := c03Attacker(s, rng)
				c.FileContractRevisions[0].UnlockConditions = *at.UC
				return s.ResignV1(c)
			})
		}
		// a Foundation update carried by a transaction that is properly signed — but not by a Foundation key
		if child >= s.Net.HardforkFoundation.Height && len(t.SiacoinInputs) > 0 && len(t.StorageProofs) == 0 {
			foundationInput := false
			for _, in := range t.SiacoinInputs {
				uh := in.UnlockConditions.UnlockHash()
				foundationInput = foundationInput || uh == s.Tip.FoundationSubsidyAddress || uh == s.Tip.FoundationManagementAddress
			}
			if !foundationInput {
				add("v1-foundation-nonfoundation-key", func(mb *types.Block) bool {
					c := &mb.Transactions[i]
					at := c03Attacker(s, rng)
					upd := types.FoundationAddressUpdate{NewPrimary: at.Addr, NewFailsafe: at.Addr}
					c.ArbitraryData = append(c.ArbitraryData, append(append([]byte{}, types.SpecifierFoundation[:]...), chain.Encode(upd)...))
					return s.ResignV1(c)
				})
			} else {
				add("v1-foundation-unsigned", func(mb *types.Block) bool {
					// the Foundation input's signature no longer covers the whole transaction: it covers
					// everything explicitly instead (and is re-made validly), so only the "signed by a
					// current key" rule can object
					c := &mb.Transactions[i]
					hasUpdate := false
					for _, a := range c.ArbitraryData {
						hasUpdate = hasUpdate || (len(a) >= 16 && string(a[:16]) == string(types.SpecifierFoundation[:]))
					}
					if !hasUpdate {
						return false
					}
					idx := func(n int) (r []uint64) {
						for j := 0; j < n; j++ {
							r = append(r, uint64(j))
						}
						return
					}
					for k := range c.Signatures {
						r := s.RecipeFor(c.SiacoinInputs[0].UnlockConditions.UnlockHash())
						if r == nil || len(c.SiacoinInputs) != 1 || len(c.Signatures) != len(r.Keys) {
							return false
						}
						cf := types.CoveredFields{SiacoinInputs: idx(len(c.SiacoinInputs)), SiacoinOutputs: idx(len(c.SiacoinOutputs)), MinerFees: idx(len(c.MinerFees)), ArbitraryData: idx(len(c.ArbitraryData))}
						c.Signatures[k].CoveredFields = cf
						h := s.Tip.PartialSigHash(*c, cf)
						sig := r.Keys[k].SignHash(h)
						c.Signatures[k].Signature = sig[:]
					}
					return true
				})
			}
		}
	}
	// ------------------------------------------------------------ v2
	for i, t := range b.V2Transactions() {
		if alienV2(t) {
			x.c.Res.Count("skipped:alien-key-transaction:v2")
			continue
		}
		i := i
		txn := func(mb *types.Block) *types.V2Transaction { return &mb.V2.Transactions[i] }
		if v2Signed(t) {
			if len(t.SiacoinOutputs) > 0 {
				add("v2-output-address", func(mb *types.Block) bool {
					o := &txn(mb).SiacoinOutputs[rng.Intn(len(t.SiacoinOutputs))]
					o.Address = flipAddr(o.Address, rng)
					return true
				})
				add("v2-move-1H", func(mb *types.Block) bool {
					c := txn(mb)
					k := rng.Intn(len(c.SiacoinOutputs))
					if c.SiacoinOutputs[k].Value.Cmp(types.NewCurrency64(2)) < 0 {
						return false
					}
					c.SiacoinOutputs[k].Value = c.SiacoinOutputs[k].Value.Sub(types.NewCurrency64(1))
					c.MinerFee = c.MinerFee.Add(types.NewCurrency64(1))
					return true
				})
			}
			add("v2-arbitrary-data", func(mb *types.Block) bool {
				c := txn(mb)
				if len(c.ArbitraryData) > 0 {
					c.ArbitraryData[rng.Intn(len(c.ArbitraryData))] ^= 1
				} else {
					c.ArbitraryData = []byte("tampered")
				}
				return true
			})
			if len(t.SiafundInputs) > 0 {
				add("v2-claim-address", func(mb *types.Block) bool {
					in := &txn(mb).SiafundInputs[0]
					in.ClaimAddress = flipAddr(in.ClaimAddress, rng)
					return true
				})
			}
			if len(t.SiafundOutputs) > 0 {
				add("v2-siafund-output-address", func(mb *types.Block) bool {
					o := &txn(mb).SiafundOutputs[0]
					o.Address = flipAddr(o.Address, rng)
					return true
				})
			}
			if t.NewFoundationAddress != nil {
				add("v2-new-foundation-address", func(mb *types.Block) bool {
					a := flipAddr(*txn(mb).NewFoundationAddress, rng)
					txn(mb).NewFoundationAddress = &a
					return true
				})
			}
			if len(t.Attestations) == 0 {
				add("v2-attestation-add", func(mb *types.Block) bool {
					// a validly signed attestation of the attacker added to somebody else's signed transaction
					at := c03Attacker(s, rng)
					a := types.Attestation{PublicKey: at.Keys[0].PublicKey(), Key: "attacker", Value: []byte{1}}
					a.Signature = at.Keys[0].SignHash(s.Tip.AttestationSigHash(a))
					txn(mb).Attestations = append(txn(mb).Attestations, a)
					return true
				})
			}
		}
		if len(t.FileContracts) > 0 {
			add("v2-contract-field", func(mb *types.Block) bool {
				fc := &txn(mb).FileContracts[0]
				switch rng.Intn(3) {
				case 0:
					fc.RevisionNumber++
				case 1:
					fc.RenterOutput.Address = flipAddr(fc.RenterOutput.Address, rng)
				default:
					fc.FileMerkleRoot[0] ^= 1
				}
				return true
			})
			if v2Signed(t) {
				add("v2-contract-field-inputs-resigned", func(mb *types.Block) bool {
					// the spender re-signs the inputs over the changed contract: only the contract's own signatures are stale
					fc := &txn(mb).FileContracts[0]
					fc.RenterOutput.Address = flipAddr(fc.RenterOutput.Address, rng)
					return s.ResignV2(txn(mb))
				})
			}
			add("v2-contract-sig-flip", func(mb *types.Block) bool {
				fc := &txn(mb).FileContracts[0]
				if rng.Intn(2) == 0 {
					fc.RenterSignature = flipSig(fc.RenterSignature, rng)
				} else {
					fc.HostSignature = flipSig(fc.HostSignature, rng)
				}
				return true
			})
			add("v2-contract-sig-swap", func(mb *types.Block) bool {
				fc := &txn(mb).FileContracts[0]
				if fc.RenterPublicKey == fc.HostPublicKey {
					return false
				}
				fc.RenterSignature, fc.HostSignature = fc.HostSignature, fc.RenterSignature
				return true
			})
			add("v2-contract-wrong-keys", func(mb *types.Block) bool {
				// signed by two other wallet keys than the ones named in the contract
				fc := &txn(mb).FileContracts[0]
				k1, k2 := s.W.Keys[rng.Intn(len(s.W.Keys))].PublicKey(), s.W.Keys[rng.Intn(len(s.W.Keys))].PublicKey()
				if k1 == fc.RenterPublicKey || k2 == fc.HostPublicKey {
					return false
				}
				s.SignContract(fc, k1, k2)
				return !v2Signed(t) || s.ResignV2(txn(mb))
			})
		}
		for k, r := range t.FileContractRevisions {
			k, r := k, r
			add("v2-revision-field", func(mb *types.Block) bool {
				rev := &txn(mb).FileContractRevisions[k].Revision
				switch rng.Intn(3) {
				case 0:
					rev.RevisionNumber++
				case 1:
					rev.HostOutput.Address = flipAddr(rev.HostOutput.Address, rng)
				default:
					rev.FileMerkleRoot[0] ^= 1
				}
				return true
			})
			add("v2-revision-sig-flip", func(mb *types.Block) bool {
				rev := &txn(mb).FileContractRevisions[k].Revision
				if rng.Intn(2) == 0 {
					rev.RenterSignature = flipSig(rev.RenterSignature, rng)
				} else {
					rev.HostSignature = flipSig(rev.HostSignature, rng)
				}
				return true
			})
			add("v2-revision-new-keys", func(mb *types.Block) bool {
				// rotate the renter key and sign with the NEW keys instead of the current ones
				rev := &txn(mb).FileContractRevisions[k].Revision
				// the contract as it currently stands: the pre-block element unless an earlier revision in this block replaced it
				cur := r.Parent.V2FileContract
				for ti, et := range b.V2Transactions() {
					if ti > i {
						break
					}
					for rk, er := range et.FileContractRevisions {
						if er.Parent.ID == r.Parent.ID && (ti < i || rk < k) {
							cur = er.Revision
						}
					}
				}
				nk := s.W.Keys[rng.Intn(len(s.W.Keys))].PublicKey()
				if nk == cur.RenterPublicKey || rev.HostPublicKey != cur.HostPublicKey {
					return false
				}
				rev.RenterPublicKey = nk
				s.SignContract(rev, rev.RenterPublicKey, rev.HostPublicKey)
				return true
			})
		}
		for k, r := range t.FileContractResolutions {
			k, r := k, r
			rn, ok := r.Resolution.(*types.V2FileContractRenewal)
			if !ok {
				continue
			}
			renewal := func(mb *types.Block) *types.V2FileContractRenewal {
				return txn(mb).FileContractResolutions[k].Resolution.(*types.V2FileContractRenewal)
			}
			add("v2-renewal-field", func(mb *types.Block) bool {
				x := renewal(mb)
				switch rng.Intn(3) {
				case 0:
					x.FinalRenterOutput.Address = flipAddr(x.FinalRenterOutput.Address, rng)
				case 1:
					x.NewContract.RevisionNumber++
				default:
					x.FinalHostOutput.Address = flipAddr(x.FinalHostOutput.Address, rng)
				}
				return true
			})
			if v2Signed(t) {
				add("v2-renewal-field-inputs-resigned", func(mb *types.Block) bool {
					x := renewal(mb)
					if rng.Intn(2) == 0 {
						x.FinalHostOutput.Address = flipAddr(x.FinalHostOutput.Address, rng)
					} else {
						x.NewContract.HostOutput.Address = flipAddr(x.NewContract.HostOutput.Address, rng)
					}
					return s.ResignV2(txn(mb))
				})
			}
			add("v2-renewal-sig-flip", func(mb *types.Block) bool {
				x := renewal(mb)
				switch rng.Intn(4) {
				case 0:
					x.RenterSignature = flipSig(x.RenterSignature, rng)
				case 1:
					x.HostSignature = flipSig(x.HostSignature, rng)
				case 2:
					x.NewContract.RenterSignature = flipSig(x.NewContract.RenterSignature, rng)
				default:
					x.NewContract.HostSignature = flipSig(x.NewContract.HostSignature, rng)
				}
				return true
			})
			add("v2-renewal-wrong-party", func(mb *types.Block) bool {
				// the renewal signatures are valid signatures — of other wallet keys
				x := renewal(mb)
				fc := r.Parent.V2FileContract
				k1, k2 := s.W.Keys[rng.Intn(len(s.W.Keys))], s.W.Keys[rng.Intn(len(s.W.Keys))]
				if k1.PublicKey() == fc.RenterPublicKey && k2.PublicKey() == fc.HostPublicKey {
					return false
				}
				h := s.Tip.RenewalSigHash(*x)
				x.RenterSignature, x.HostSignature = k1.SignHash(h), k2.SignHash(h)
				return true
			})
			_ = rn
		}
		for k := range t.Attestations {
			k := k
			add("v2-attestation-value", func(mb *types.Block) bool {
				a := &txn(mb).Attestations[k]
				if rng.Intn(2) == 0 && len(a.Value) > 0 {
					a.Value[0] ^= 1
				} else {
					a.Key += "x"
				}
				return !v2Signed(t) || s.ResignV2(txn(mb)) // the inputs are re-signed: only the attestation's own signature is stale
			})
			add("v2-attestation-sig-flip", func(mb *types.Block) bool {
				a := &txn(mb).Attestations[k]
				a.Signature = flipSig(a.Signature, rng)
				return !v2Signed(t) || s.ResignV2(txn(mb))
			})
			add("v2-attestation-other-key", func(mb *types.Block) bool {
				a := &txn(mb).Attestations[k]
				at := c03Attacker(s, rng)
				a.Signature = at.Keys[0].SignHash(s.Tip.AttestationSigHash(*a))
				return !v2Signed(t) || s.ResignV2(txn(mb))
			})
		}
		witness := func(kind string, edit func(sp *types.SatisfiedPolicy) bool) {
			for k := range t.SiacoinInputs {
				k := k
				add(kind, func(mb *types.Block) bool { return edit(&txn(mb).SiacoinInputs[k].SatisfiedPolicy) })
			}
			for k := range t.SiafundInputs {
				k := k
				add(kind+"-siafund", func(mb *types.Block) bool { return edit(&txn(mb).SiafundInputs[k].SatisfiedPolicy) })
			}
		}
		witness("v2-sig-flip", func(sp *types.SatisfiedPolicy) bool {
			if len(sp.Signatures) == 0 {
				return false
			}
			k := rng.Intn(len(sp.Signatures))
			sp.Signatures[k] = flipSig(sp.Signatures[k], rng)
			return true
		})
		witness("v2-sig-drop", func(sp *types.SatisfiedPolicy) bool {
			if len(sp.Signatures) == 0 {
				return false
			}
			k := rng.Intn(len(sp.Signatures))
			sp.Signatures = append(sp.Signatures[:k:k], sp.Signatures[k+1:]...)
			return true
		})
		witness("v2-sig-dup", func(sp *types.SatisfiedPolicy) bool {
			if len(sp.Signatures) == 0 {
				return false
			}
			sp.Signatures = append(sp.Signatures, sp.Signatures[rng.Intn(len(sp.Signatures))])
			return true
		})
		// a multi-signature policy satisfied by ONE signer: every signature replaced by a copy of the first (and of the
		// last) — each copy is a valid signature over the real sighash, but the other co-signers never signed
		witness("v2-sig-replaced-by-copy:first", func(sp *types.SatisfiedPolicy) bool {
			if len(sp.Signatures) < 2 || sp.Signatures[1] == sp.Signatures[0] || !c03DistinctUCKeys(sp.Policy) {
				return false
			}
			for k := 1; k < len(sp.Signatures); k++ {
				sp.Signatures[k] = sp.Signatures[0]
			}
			return true
		})
		witness("v2-sig-replaced-by-copy:last", func(sp *types.SatisfiedPolicy) bool {
			n := len(sp.Signatures)
			if n < 2 || sp.Signatures[n-1] == sp.Signatures[0] || !c03DistinctUCKeys(sp.Policy) {
				return false
			}
			for k := 0; k < n-1; k++ {
				sp.Signatures[k] = sp.Signatures[n-1]
			}
			return true
		})
		witness("v2-sig-append", func(sp *types.SatisfiedPolicy) bool {
			at := c03Attacker(s, rng)
			sp.Signatures = append(sp.Signatures, at.Keys[0].SignHash(s.Tip.InputSigHash(t)))
			return true
		})
		witness("v2-preimage-flip", func(sp *types.SatisfiedPolicy) bool {
			if len(sp.Preimages) == 0 {
				return false
			}
			sp.Preimages[0][rng.Intn(32)] ^= 1
			return true
		})
		witness("v2-preimage-drop", func(sp *types.SatisfiedPolicy) bool {
			if len(sp.Preimages) == 0 {
				return false
			}
			sp.Preimages = sp.Preimages[1:]
			return true
		})
		witness("v2-preimage-append", func(sp *types.SatisfiedPolicy) bool {
			var pre [32]byte
			rng.Read(pre[:])
			sp.Preimages = append(sp.Preimages, pre)
			return true
		})
		witness("v2-policy-substitute", func(sp *types.SatisfiedPolicy) bool {
			// the attacker reveals his own policy, validly satisfied by his own signature over the real sighash
			at := c03Attacker(s, rng)
			*sp = at.Satisfy(s.Tip.InputSigHash(t))
			return true
		})
		// inputs that spend an output created earlier in this block (no accumulator proof binds the claimed parent:
		// only the comparison with the block's own record does)
		for k, in := range t.SiacoinInputs {
			k := k
			if in.Parent.StateElement.LeafIndex != types.UnassignedLeafIndex {
				continue
			}
			add("v2-ephemeral-address-substitute", func(mb *types.Block) bool {
				// claim the attacker's address for the parent and satisfy the attacker's policy with the attacker's key
				at := c03Attacker(s, rng)
				txn(mb).SiacoinInputs[k].Parent.SiacoinOutput.Address = at.Addr
				return s.ResignV2(txn(mb))
			})
			add("v2-ephemeral-value", func(mb *types.Block) bool {
				// claim one hasting more than was created and give it to the miner; everything is re-signed
				c := txn(mb)
				c.SiacoinInputs[k].Parent.SiacoinOutput.Value = c.SiacoinInputs[k].Parent.SiacoinOutput.Value.Add(types.NewCurrency64(1))
				c.MinerFee = c.MinerFee.Add(types.NewCurrency64(1))
				return s.ResignV2(c)
			})
			add("v2-ephemeral-maturity", func(mb *types.Block) bool {
				c := txn(mb)
				c.SiacoinInputs[k].Parent.MaturityHeight = 1 + uint64(rng.Intn(int(child)))
				return c.SiacoinInputs[k].Parent.MaturityHeight != in.Parent.MaturityHeight
			})
			add("v2-ephemeral-id", func(mb *types.Block) bool {
				c := txn(mb)
				c.SiacoinInputs[k].Parent.ID[rng.Intn(32)] ^= 1 << uint(rng.Intn(8))
				return s.ResignV2(c)
			})
		}
		// a Foundation address change in a properly signed transaction that spends nothing of the management address
		if t.NewFoundationAddress == nil && len(t.SiacoinInputs) > 0 {
			mgmt := false
			for _, in := range t.SiacoinInputs {
				mgmt = mgmt || in.Parent.SiacoinOutput.Address == s.Tip.FoundationManagementAddress
			}
			if !mgmt {
				add("v2-foundation-without-management-input", func(mb *types.Block) bool {
					at := c03Attacker(s, rng)
					a := at.Addr
					txn(mb).NewFoundationAddress = &a
					return s.ResignV2(txn(mb))
				})
			}
		}
	}
	return out
}

// c03SameBlockSpends builds blocks [txn1 pays to A ; txn2 spends txn1's output 0] directly: the honest one
// (control, must be accepted) and the ones in which txn2 claims another address / value / maturity for the
// parent — with the policy of the CLAIMED address validly satisfied by the attacker's own key — and, for
// v1, reveals the attacker's unlock conditions for the output created by txn1.
func c03SameBlockSpends(s *chain.Sim, rng *rand.Rand, ts time.Time, miner types.Address) (control []mutant, attacks []mutant) {
	var ids []types.SiacoinOutputID
	for id := range s.St.SC {
		ids = append(ids, id)
	}
	sort.Slice(ids, func(i, j int) bool { return bytes.Compare(ids[i][:], ids[j][:]) < 0 })
	child := s.ChildHeight()
	pick := func(v2 bool) (types.SiacoinElement, bool) {
		for _, id := range ids {
			e := s.St.SC[id]
			r := s.RecipeFor(e.SiacoinOutput.Address)
			if r == nil || e.MaturityHeight > child || e.SiacoinOutput.Value.Cmp(types.NewCurrency64(10)) < 0 || !s.Spendable(e.SiacoinOutput.Address, v2) || (!v2 && !r.V1Spendable()) {
				continue
			}
			return e, true
		}
		return types.SiacoinElement{}, false
	}
	if s.V2Allowed() {
		if e, ok := pick(true); ok {
			a, b := c03Attacker(s, rng), c03Attacker(s, rng)
			t1 := types.V2Transaction{SiacoinInputs: []types.V2SiacoinInput{{Parent: e.Copy()}}, SiacoinOutputs: []types.SiacoinOutput{{Value: e.SiacoinOutput.Value, Address: a.Addr}}}
			if s.ResignV2(&t1) {
				build := func(kind string, edit func(p *types.SiacoinElement)) (mutant, bool) {
					parent := types.SiacoinElement{ID: t1.SiacoinOutputID(t1.ID(), 0), StateElement: types.StateElement{LeafIndex: types.UnassignedLeafIndex}, SiacoinOutput: t1.SiacoinOutputs[0]}
					edit(&parent)
					t2 := types.V2Transaction{SiacoinInputs: []types.V2SiacoinInput{{Parent: parent}}, SiacoinOutputs: []types.SiacoinOutput{{Value: parent.SiacoinOutput.Value, Address: b.Addr}}}
					if !s.ResignV2(&t2) { // signs with the key of the CLAIMED address
						return mutant{}, false
					}
					blk := types.Block{Timestamp: ts, V2: &types.V2BlockData{Transactions: []types.V2Transaction{t1.DeepCopy(), t2}}}
					s.Seal(&blk, miner)
					return mutant{kind, blk, consensus.V1BlockSupplement{}}, true
				}
				if m, ok := build("v2-same-block-spend-honest", func(p *types.SiacoinElement) {}); ok {
					control = append(control, m)
				}
				if m, ok := build("v2-ephemeral-address-substitute", func(p *types.SiacoinElement) { p.SiacoinOutput.Address = b.Addr }); ok {
					attacks = append(attacks, m)
				}
				if m, ok := build("v2-ephemeral-value", func(p *types.SiacoinElement) {
					p.SiacoinOutput.Value = p.SiacoinOutput.Value.Add(types.NewCurrency64(1))
				}); ok {
					attacks = append(attacks, m)
				}
				if m, ok := build("v2-ephemeral-maturity", func(p *types.SiacoinElement) { p.MaturityHeight = 1 }); ok {
					attacks = append(attacks, m)
				}
			}
		}
	}
	if !s.V1Forbidden() {
		if e, ok := pick(false); ok {
			a, b := c03Attacker(s, rng), c03Attacker(s, rng)
			r := s.RecipeFor(e.SiacoinOutput.Address)
			t1 := types.Transaction{SiacoinInputs: []types.SiacoinInput{{ParentID: e.ID, UnlockConditions: *r.UC}}, SiacoinOutputs: []types.SiacoinOutput{{Value: e.SiacoinOutput.Value, Address: a.Addr}}}
			if s.ResignV1(&t1) {
				build := func(kind string, uc types.UnlockConditions) (mutant, bool) {
					t2 := types.Transaction{SiacoinInputs: []types.SiacoinInput{{ParentID: t1.SiacoinOutputID(0), UnlockConditions: uc}}, SiacoinOutputs: []types.SiacoinOutput{{Value: e.SiacoinOutput.Value, Address: b.Addr}}}
					if !s.ResignV1(&t2) {
						return mutant{}, false
					}
					blk := types.Block{Timestamp: ts, Transactions: []types.Transaction{cloneV1(t1), t2}}
					if s.V2Allowed() {
						blk.V2 = &types.V2BlockData{}
					}
					supp := consensus.V1BlockSupplement{Transactions: []consensus.V1TransactionSupplement{{SiacoinInputs: []types.SiacoinElement{e.Copy()}}, {}}}
					s.Seal(&blk, miner)
					return mutant{kind, blk, supp}, true
				}
				if m, ok := build("v1-same-block-spend-honest", *a.UC); ok {
					control = append(control, m)
				}
				if m, ok := build("v1-inblock-uc-substitute", *b.UC); ok {
					attacks = append(attacks, m)
				}
			}
		}
	}
	return
}


// c03Recipe registers a fresh wallet address of the given kind whose keys come from rng (not from the
// simulator's generator, so the chain stays the same whether or not the sweep runs).
func c03Recipe(s *chain.Sim, rng *rand.Rand, kind string) *chain.Recipe {
	key := func() types.PrivateKey {
		seed := make([]byte, 32)
		rng.Read(seed)
		return types.NewPrivateKeyFromSeed(seed)
	}
	uk := func(pk types.PublicKey) types.UnlockKey { return types.UnlockKey{Algorithm: types.SpecifierEd25519, Key: pk[:]} }
	r := &chain.Recipe{Kind: kind}
	switch kind {
	case "uc1":
		return c03Attacker(s, rng)
	case "uc2of3":
		ks := []types.PrivateKey{key(), key(), key()}
		uc := types.UnlockConditions{SignaturesRequired: 2}
		for _, k := range ks {
			uc.PublicKeys = append(uc.PublicKeys, uk(k.PublicKey()))
		}
		r.UC = &uc
		r.Keys, r.UCKeyIdx = []types.PrivateKey{ks[0], ks[2]}, []uint64{0, 2}
		r.Policy = types.SpendPolicy{Type: types.PolicyTypeUnlockConditions(uc)}
		r.Addr = uc.UnlockHash()
	case "pk":
		k := key()
		r.Policy = types.PolicyPublicKey(k.PublicKey())
		r.Keys = []types.PrivateKey{k}
		r.Addr = r.Policy.Address()
	case "hash":
		var pre [32]byte
		rng.Read(pre[:])
		r.Policy = types.PolicyHash(sha256.Sum256(pre[:]))
		r.Preimages = [][32]byte{pre}
		r.Addr = r.Policy.Address()
	case "thresh":
		k1, k2 := key(), key()
		var pre [32]byte
		rng.Read(pre[:])
		subs := []types.SpendPolicy{types.PolicyPublicKey(k1.PublicKey()), types.PolicyHash(sha256.Sum256(pre[:])), types.PolicyPublicKey(k2.PublicKey())}
		r.Policy = types.PolicyThreshold(2, subs)
		r.Reveal = types.PolicyThreshold(2, []types.SpendPolicy{subs[0], subs[1], types.PolicyOpaque(subs[2])})
		r.Keys = []types.PrivateKey{k1}
		r.Preimages = [][32]byte{pre}
		r.Addr = r.Policy.Address()
	default:
		panic("c03Recipe: " + kind)
	}
	if r.Reveal.Type == nil {
		r.Reveal = r.Policy
	}
	s.W.Recipes[r.Addr] = r
	return r
}

func c03PickSC(s *chain.Sim, v2 bool) (types.SiacoinElement, bool) {
	var ids []types.SiacoinOutputID
	for id := range s.St.SC {
		ids = append(ids, id)
	}
	sort.Slice(ids, func(i, j int) bool { return bytes.Compare(ids[i][:], ids[j][:]) < 0 })
	child := s.ChildHeight()
	for _, id := range ids {
		e := s.St.SC[id]
		r := s.RecipeFor(e.SiacoinOutput.Address)
		if r == nil || e.MaturityHeight > child || e.SiacoinOutput.Value.Cmp(types.NewCurrency64(10)) < 0 || !s.Spendable(e.SiacoinOutput.Address, v2) || (!v2 && !r.V1Spendable()) {
			continue
		}
		return e, true
	}
	return types.SiacoinElement{}, false
}

func c03PickSF(s *chain.Sim) (types.SiafundElement, bool) {
	var ids []types.SiafundOutputID
	for id := range s.St.SF {
		ids = append(ids, id)
	}
	sort.Slice(ids, func(i, j int) bool { return bytes.Compare(ids[i][:], ids[j][:]) < 0 })
	for _, id := range ids {
		e := s.St.SF[id]
		if s.RecipeFor(e.SiafundOutput.Address) == nil || e.SiafundOutput.Value < 2 || !s.Spendable(e.SiafundOutput.Address, true) {
			continue
		}
		return e, true
	}
	return types.SiafundElement{}, false
}

// c03Pending: two outputs (and possibly two siafund outputs) paid to ONE address by the block just applied.
type c03Pending struct {
	tries int
	r    *chain.Recipe
	sc   []types.SiacoinOutputID
	sf   []types.SiafundOutputID
	kind string
}

// c03PayTwice applies a block that pays two siacoin outputs (and, when possible, two siafund outputs) to one
// fresh wallet address.
func c03PayTwice(s *chain.Sim, rng *rand.Rand, ts time.Time, miner types.Address) *c03Pending {
	v2 := s.V2Allowed()
	kinds := []string{"uc1", "uc2of3", "uclock", "uclock", "uc0", "uc2of70", "ucalien"}
	if v2 {
		kinds = append(kinds, "pk", "thresh", "hash", "above", "after", "pk", "thresh")
	}
	kind := kinds[rng.Intn(len(kinds))]
	e, ok := c03PickSC(s, v2)
	if !ok {
		return nil
	}
	var r *chain.Recipe
	switch kind {
	case "uclock":
		// one Ed25519 key, 1 of 1, and a timelock (already passed): NOT the standard conditions
		r = c03Attacker(s, rng)
		uc := *r.UC
		uc.Timelock = 1 + uint64(rng.Intn(int(s.Height())+1))
		if uc.Timelock > s.Height() {
			uc.Timelock = s.Height()
		}
		if uc.Timelock == 0 {
			uc.Timelock = 1
		}
		r = &chain.Recipe{Kind: "uclock", UC: &uc, Keys: r.Keys, UCKeyIdx: r.UCKeyIdx, MinHeight: uc.Timelock}
		r.Policy = types.SpendPolicy{Type: types.PolicyTypeUnlockConditions(uc)}
		r.Reveal = r.Policy
	case "uc0", "uc2of70", "ucalien", "above", "after":
		r = s.W.NewRecipeKind(kind, s.Height(), ts)
	default:
		r = c03Recipe(s, rng, kind)
	}
	if r.UC != nil {
		// the address outputs are paid to is the protocol's (computed here), not whatever core derives
		core := r.UC.UnlockHash()
		r.Addr = c03UnlockHash(*r.UC)
		s.W.Recipes[r.Addr] = r
		s.W.Recipes[core] = r
	}
	half := e.SiacoinOutput.Value.Div64(2)
	outs := []types.SiacoinOutput{{Value: half, Address: r.Addr}, {Value: e.SiacoinOutput.Value.Sub(half), Address: r.Addr}}
	pd := &c03Pending{r: r, kind: kind}
	blk := types.Block{Timestamp: ts}
	var supp consensus.V1BlockSupplement
	if v2 {
		t1 := types.V2Transaction{SiacoinInputs: []types.V2SiacoinInput{{Parent: e.Copy()}}, SiacoinOutputs: outs}
		if !s.ResignV2(&t1) {
			return nil
		}
		blk.V2 = &types.V2BlockData{Transactions: []types.V2Transaction{t1}}
		txid := t1.ID()
		pd.sc = []types.SiacoinOutputID{t1.SiacoinOutputID(txid, 0), t1.SiacoinOutputID(txid, 1)}
		if f, ok := c03PickSF(s); ok {
			t2 := types.V2Transaction{SiafundInputs: []types.V2SiafundInput{{Parent: f.Copy(), ClaimAddress: r.Addr}},
				SiafundOutputs: []types.SiafundOutput{{Value: 1, Address: r.Addr}, {Value: f.SiafundOutput.Value - 1, Address: r.Addr}}}
			if s.ResignV2(&t2) {
				blk.V2.Transactions = append(blk.V2.Transactions, t2)
				id2 := t2.ID()
				pd.sf = []types.SiafundOutputID{t2.SiafundOutputID(id2, 0), t2.SiafundOutputID(id2, 1)}
			}
		}
	} else {
		er := s.RecipeFor(e.SiacoinOutput.Address)
		t1 := types.Transaction{SiacoinInputs: []types.SiacoinInput{{ParentID: e.ID, UnlockConditions: *er.UC}}, SiacoinOutputs: outs}
		if !s.ResignV1(&t1) {
			return nil
		}
		blk.Transactions = []types.Transaction{t1}
		supp.Transactions = []consensus.V1TransactionSupplement{{SiacoinInputs: []types.SiacoinElement{e.Copy()}}}
		pd.sc = []types.SiacoinOutputID{t1.SiacoinOutputID(0), t1.SiacoinOutputID(1)}
	}
	s.Seal(&blk, miner)
	if _, err := s.Apply(blk, supp); err != nil {
		return nil
	}
	return pd
}

// c03SecondInput builds, on the tip, transactions that spend the TWO outputs paid to one address in one
// transaction: the honest ones (control) and, for each, copies in which the witness of the SECOND input only
// (and of the FIRST only) is corrupted.
func c03SecondInput(s *chain.Sim, rng *rand.Rand, pd *c03Pending, ts time.Time, miner types.Address) (control []mutant, attacks []mutant) {
	sink := c03Attacker(s, rng).Addr
	seal := func(kind string, blk types.Block, supp consensus.V1BlockSupplement) mutant {
		s.Seal(&blk, miner)
		return mutant{kind, blk, supp}
	}
	var scs []types.SiacoinElement
	for _, id := range pd.sc {
		if e, ok := s.St.SC[id]; ok {
			scs = append(scs, e)
		}
	}
	corrupt := func(what string, sp *types.SatisfiedPolicy, sigHash types.Hash256) bool {
		switch what {
		case "sig-flip":
			if len(sp.Signatures) == 0 {
				return false
			}
			sp.Signatures[0] = flipSig(sp.Signatures[0], rng)
		case "sig-drop":
			if len(sp.Signatures) == 0 {
				return false
			}
			sp.Signatures = sp.Signatures[1:]
		case "sig-surplus":
			sp.Signatures = append(sp.Signatures, c03Attacker(s, rng).Keys[0].SignHash(sigHash))
		case "sig-other-key":
			if len(sp.Signatures) == 0 {
				return false
			}
			sp.Signatures[0] = c03Attacker(s, rng).Keys[0].SignHash(sigHash)
		case "preimage-wrong":
			if len(sp.Preimages) == 0 {
				return false
			}
			sp.Preimages[0][rng.Intn(32)] ^= 1
		case "preimage-drop":
			if len(sp.Preimages) == 0 {
				return false
			}
			sp.Preimages = sp.Preimages[1:]
		case "preimage-surplus":
			var pre [32]byte
			rng.Read(pre[:])
			sp.Preimages = append(sp.Preimages, pre)
		case "opaque":
			// a threshold with every sub-policy opaque (same address), no witness
			th, ok := sp.Policy.Type.(types.PolicyTypeThreshold)
			if !ok {
				return false
			}
			var of []types.SpendPolicy
			for _, sub := range th.Of {
				if _, isOpaque := sub.Type.(types.PolicyTypeOpaque); isOpaque {
					of = append(of, sub)
				} else {
					of = append(of, types.PolicyOpaque(sub))
				}
			}
			*sp = types.SatisfiedPolicy{Policy: types.PolicyThreshold(th.N, of)}
		case "no-witness":
			sp.Signatures, sp.Preimages = nil, nil
		}
		return true
	}
	whats := []string{"sig-flip", "sig-drop", "sig-surplus", "sig-other-key", "preimage-wrong", "preimage-drop", "preimage-surplus", "opaque", "no-witness"}
	if pd.kind == "ucalien" || pd.kind == "uc0" {
		whats = nil // any signature (resp. none) satisfies these conditions: there is no witness to corrupt
	}
	if s.V2Allowed() && len(scs) == 2 && s.Spendable(pd.r.Addr, true) {
		t := types.V2Transaction{SiacoinInputs: []types.V2SiacoinInput{{Parent: scs[0].Copy()}, {Parent: scs[1].Copy()}},
			SiacoinOutputs: []types.SiacoinOutput{{Value: scs[0].SiacoinOutput.Value.Add(scs[1].SiacoinOutput.Value), Address: sink}}}
		if s.ResignV2(&t) {
			control = append(control, seal("v2-two-inputs-same-address-honest", types.Block{Timestamp: ts, V2: &types.V2BlockData{Transactions: []types.V2Transaction{t.DeepCopy()}}}, consensus.V1BlockSupplement{}))
			h := s.Tip.InputSigHash(t)
			for _, which := range []int{1, 0} {
				for _, what := range whats {
					c := t.DeepCopy()
					if !corrupt(what, &c.SiacoinInputs[which].SatisfiedPolicy, h) {
						continue
					}
					name := "v2-second-input-same-address:" + what
					if which == 0 {
						name = "v2-first-input-same-address:" + what
					}
					attacks = append(attacks, seal(name, types.Block{Timestamp: ts, V2: &types.V2BlockData{Transactions: []types.V2Transaction{c}}}, consensus.V1BlockSupplement{}))
				}
			}
		}
	}
	var sfs []types.SiafundElement
	for _, id := range pd.sf {
		if e, ok := s.St.SF[id]; ok {
			sfs = append(sfs, e)
		}
	}
	if s.V2Allowed() && len(sfs) == 2 && s.Spendable(pd.r.Addr, true) && s.ChildHeight() >= s.Net.HardforkV2.AllowHeight {
		t := types.V2Transaction{SiafundInputs: []types.V2SiafundInput{{Parent: sfs[0].Copy(), ClaimAddress: sink}, {Parent: sfs[1].Copy(), ClaimAddress: sink}},
			SiafundOutputs: []types.SiafundOutput{{Value: sfs[0].SiafundOutput.Value + sfs[1].SiafundOutput.Value, Address: sink}}}
		if s.ResignV2(&t) {
			control = append(control, seal("v2-two-siafund-inputs-same-address-honest", types.Block{Timestamp: ts, V2: &types.V2BlockData{Transactions: []types.V2Transaction{t.DeepCopy()}}}, consensus.V1BlockSupplement{}))
			h := s.Tip.InputSigHash(t)
			for _, which := range []int{1, 0} {
				for _, what := range whats {
					c := t.DeepCopy()
					if !corrupt(what, &c.SiafundInputs[which].SatisfiedPolicy, h) {
						continue
					}
					name := "v2-second-input-same-address-siafund:" + what
					if which == 0 {
						name = "v2-first-input-same-address-siafund:" + what
					}
					attacks = append(attacks, seal(name, types.Block{Timestamp: ts, V2: &types.V2BlockData{Transactions: []types.V2Transaction{c}}}, consensus.V1BlockSupplement{}))
				}
			}
		}
	}
	// v1: two inputs revealing the same unlock conditions
	if !s.V1Forbidden() && pd.r.UC != nil && len(scs) == 2 && s.Spendable(pd.r.Addr, false) {
		t := types.Transaction{SiacoinInputs: []types.SiacoinInput{{ParentID: scs[0].ID, UnlockConditions: *pd.r.UC}, {ParentID: scs[1].ID, UnlockConditions: *pd.r.UC}},
			SiacoinOutputs: []types.SiacoinOutput{{Value: scs[0].SiacoinOutput.Value.Add(scs[1].SiacoinOutput.Value), Address: sink}}}
		if s.ResignV1(&t) {
			supp := consensus.V1BlockSupplement{Transactions: []consensus.V1TransactionSupplement{{SiacoinInputs: []types.SiacoinElement{scs[0].Copy(), scs[1].Copy()}}}}
			mk := func(kind string, c types.Transaction) mutant {
				blk := types.Block{Timestamp: ts, Transactions: []types.Transaction{c}}
				if s.V2Allowed() {
					blk.V2 = &types.V2BlockData{}
				}
				return seal(kind, blk, chain.CopySupp(supp))
			}
			control = append(control, mk("v1-two-inputs-same-conditions-honest", cloneV1(t)))
			second, first := types.Hash256(scs[1].ID), types.Hash256(scs[0].ID)
			if pd.kind == "ucalien" || pd.kind == "uc0" {
				return // any signature (resp. none) satisfies these conditions
			}
			{ // the signatures of the second input are dropped
				c := cloneV1(t)
				var keep []types.TransactionSignature
				for _, sg := range c.Signatures {
					if sg.ParentID != second {
						keep = append(keep, sg)
					}
				}
				c.Signatures = keep
				attacks = append(attacks, mk("v1-second-input-same-address:sigs-dropped", c))
			}
			{ // the signatures of the second input are copies of the first input's (re-labelled with the second parent)
				c := cloneV1(t)
				var firsts [][]byte
				for _, sg := range c.Signatures {
					if sg.ParentID == first {
						firsts = append(firsts, sg.Signature)
					}
				}
				k := 0
				for i := range c.Signatures {
					if c.Signatures[i].ParentID == second && k < len(firsts) {
						c.Signatures[i].Signature = append([]byte(nil), firsts[k]...)
						k++
					}
				}
				attacks = append(attacks, mk("v1-second-input-same-address:sigs-copied-from-first", c))
			}
			{ // the signatures of the second input are the first input's entries, duplicated as they are
				c := cloneV1(t)
				var keep, firsts []types.TransactionSignature
				for _, sg := range c.Signatures {
					if sg.ParentID != second {
						keep = append(keep, sg)
					}
					if sg.ParentID == first {
						firsts = append(firsts, sg)
					}
				}
				c.Signatures = append(keep, firsts...)
				attacks = append(attacks, mk("v1-second-input-same-address:first-sigs-duplicated", c))
			}
		}
	}
	return
}


// ---------------------------------------------------------------- Foundation update hijack (directed family)

type c03Case struct {
	key      string // violation key if the expectation fails
	kind     string // recorded in the replay ("tamper")
	accept   bool   // expected verdict
	judged   bool   // false: recorded only (content nobody signed)
	block    types.Block
	supp     consensus.V1BlockSupplement
	describe string
}

// c03SignV1 makes the signatures of one input: whole-transaction, or partial with the given covered fields.
func c03SignV1(cs consensus.State, txn *types.Transaction, parent types.Hash256, r *chain.Recipe, whole bool, cf types.CoveredFields) []types.TransactionSignature {
	var out []types.TransactionSignature
	for i, k := range r.Keys {
		sg := types.TransactionSignature{ParentID: parent, PublicKeyIndex: r.UCKeyIdx[i]}
		var h types.Hash256
		if whole {
			sg.CoveredFields = types.CoveredFields{WholeTransaction: true}
			h = cs.WholeSigHash(*txn, parent, sg.PublicKeyIndex, 0, nil)
		} else {
			sg.CoveredFields = cf
			h = cs.PartialSigHash(*txn, cf)
		}
		sig := k.SignHash(h)
		sg.Signature = sig[:]
		out = append(out, sg)
	}
	return out
}

// c03RealSigner: spending needs at least one Ed25519 signature (keys of unrecognised algorithms verify by
// default — soft-fork room — and bind nothing).
func c03RealSigner(r *chain.Recipe) bool {
	if r == nil || len(r.Keys) == 0 || r.UC == nil || r.UC.SignaturesRequired == 0 {
		return false
	}
	for _, k := range r.UC.PublicKeys {
		if k.Algorithm != types.SpecifierEd25519 {
			return false
		}
	}
	return true
}

func c03PickFoundationSC(s *chain.Sim) (types.SiacoinElement, bool) {
	var ids []types.SiacoinOutputID
	for id := range s.St.SC {
		ids = append(ids, id)
	}
	sort.Slice(ids, func(i, j int) bool { return bytes.Compare(ids[i][:], ids[j][:]) < 0 })
	child := s.ChildHeight()
	for _, id := range ids {
		e := s.St.SC[id]
		a := e.SiacoinOutput.Address
		if a != s.Tip.FoundationSubsidyAddress && a != s.Tip.FoundationManagementAddress {
			continue
		}
		r := s.RecipeFor(a)
		if !c03RealSigner(r) || !r.V1Spendable() || e.MaturityHeight > child || e.SiacoinOutput.Value.Cmp(types.NewCurrency64(10)) < 0 || !s.Spendable(a, false) {
			continue
		}
		return e, true
	}
	return types.SiacoinElement{}, false
}

func c03PickOtherSC(s *chain.Sim, v2 bool) (types.SiacoinElement, bool) {
	var ids []types.SiacoinOutputID
	for id := range s.St.SC {
		ids = append(ids, id)
	}
	sort.Slice(ids, func(i, j int) bool { return bytes.Compare(ids[i][:], ids[j][:]) < 0 })
	child := s.ChildHeight()
	for _, id := range ids {
		e := s.St.SC[id]
		a := e.SiacoinOutput.Address
		r := s.RecipeFor(a)
		if a == s.Tip.FoundationSubsidyAddress || a == s.Tip.FoundationManagementAddress || !c03RealSigner(r) || (!v2 && !r.V1Spendable()) ||
			e.MaturityHeight > child || e.SiacoinOutput.Value.Cmp(types.NewCurrency64(10)) < 0 || !s.Spendable(a, v2) {
			continue
		}
		return e, true
	}
	return types.SiacoinElement{}, false
}

// c03FoundationHijack: a v1 transaction with a Foundation-address input and a second party's input carrying
// a FoundationAddressUpdate that names the second party's addresses, in every combination of how the two
// parties sign and of when the update is appended. Statement: "Foundation subsidy addresses change only in a
// transaction authorized by the current Foundation keys": the update is authorised iff a WHOLE-transaction
// signature made with the Foundation input's key covers it.
func c03FoundationHijack(s *chain.Sim, rng *rand.Rand, ts time.Time, miner types.Address) (out []c03Case) {
	child := s.ChildHeight()
	if s.V1Forbidden() || child < s.Net.HardforkFoundation.Height {
		return nil
	}
	f, ok1 := c03PickFoundationSC(s)
	o, ok2 := c03PickOtherSC(s, false)
	if !ok1 || !ok2 {
		return nil
	}
	fr, or := s.RecipeFor(f.SiacoinOutput.Address), s.RecipeFor(o.SiacoinOutput.Address)
	thief := c03Attacker(s, rng)
	upd := append(append([]byte{}, types.SpecifierFoundation[:]...), chain.Encode(types.FoundationAddressUpdate{NewPrimary: thief.Addr, NewFailsafe: thief.Addr})...)
	base := types.Transaction{
		SiacoinInputs:  []types.SiacoinInput{{ParentID: f.ID, UnlockConditions: *fr.UC}, {ParentID: o.ID, UnlockConditions: *or.UC}},
		SiacoinOutputs: []types.SiacoinOutput{{Value: f.SiacoinOutput.Value, Address: c03Attacker(s, rng).Addr}, {Value: o.SiacoinOutput.Value, Address: thief.Addr}},
	}
	supp := consensus.V1BlockSupplement{Transactions: []consensus.V1TransactionSupplement{{SiacoinInputs: []types.SiacoinElement{f.Copy(), o.Copy()}}}}
	for _, fm := range []string{"whole", "partial-own", "partial-all-but-arbitrary-data", "absent"} {
		for _, om := range []string{"whole", "partial"} {
			for _, order := range []string{"before", "after"} {
				txn := cloneV1(base)
				if order == "before" {
					txn.ArbitraryData = [][]byte{upd}
				}
				var fsigs []types.TransactionSignature
				switch fm {
				case "whole":
					fsigs = c03SignV1(s.Tip, &txn, types.Hash256(f.ID), fr, true, types.CoveredFields{})
				case "partial-own":
					fsigs = c03SignV1(s.Tip, &txn, types.Hash256(f.ID), fr, false, types.CoveredFields{SiacoinInputs: []uint64{0}, SiacoinOutputs: []uint64{0}})
				case "partial-all-but-arbitrary-data":
					fsigs = c03SignV1(s.Tip, &txn, types.Hash256(f.ID), fr, false, types.CoveredFields{SiacoinInputs: []uint64{0, 1}, SiacoinOutputs: []uint64{0, 1}})
				}
				if order == "after" {
					txn.ArbitraryData = [][]byte{upd}
				}
				// the second party signs last, over the transaction as it goes to the chain
				var osigs []types.TransactionSignature
				if om == "whole" {
					osigs = c03SignV1(s.Tip, &txn, types.Hash256(o.ID), or, true, types.CoveredFields{})
				} else {
					osigs = c03SignV1(s.Tip, &txn, types.Hash256(o.ID), or, false, types.CoveredFields{SiacoinInputs: []uint64{1}, SiacoinOutputs: []uint64{1}, ArbitraryData: []uint64{0}})
				}
				txn.Signatures = append(fsigs, osigs...)
				blk := types.Block{Timestamp: ts, Transactions: []types.Transaction{txn}}
				if s.V2Allowed() {
					blk.V2 = &types.V2BlockData{}
				}
				s.Seal(&blk, miner)
				combo := "foundation=" + fm + ",other=" + om + ",update=" + order + "-foundation-signed"
				authorised := fm == "whole" && order == "before"
				c := c03Case{kind: "foundation-hijack:" + combo, accept: authorised, judged: true, block: blk, supp: chain.CopySupp(supp), describe: combo}
				if authorised {
					c.key = "c03-untampered-rejected:foundation-update:" + combo
				} else {
					c.key = "c03-foundation-update-unauthorised-accepted:" + combo
				}
				out = append(out, c)
			}
		}
	}
	// v2: the rule is "spends an input controlled by the current management address" (every input signs the
	// input sighash, which covers NewFoundationAddress)
	if s.V2Allowed() {
		var mg types.SiacoinElement
		found := false
		var ids []types.SiacoinOutputID
		for id := range s.St.SC {
			ids = append(ids, id)
		}
		sort.Slice(ids, func(i, j int) bool { return bytes.Compare(ids[i][:], ids[j][:]) < 0 })
		for _, id := range ids {
			e := s.St.SC[id]
			if e.SiacoinOutput.Address == s.Tip.FoundationManagementAddress && e.MaturityHeight <= child && !e.SiacoinOutput.Value.IsZero() && s.Spendable(e.SiacoinOutput.Address, true) {
				mg, found = e, true
				break
			}
		}
		o2, ok := c03PickOtherSC(s, true)
		if found && ok {
			addr := thief.Addr
			mk := func(kind string, accept bool, edit func(t *types.V2Transaction) bool) {
				t := types.V2Transaction{SiacoinInputs: []types.V2SiacoinInput{{Parent: mg.Copy()}, {Parent: o2.Copy()}},
					SiacoinOutputs: []types.SiacoinOutput{{Value: mg.SiacoinOutput.Value.Add(o2.SiacoinOutput.Value), Address: c03Attacker(s, rng).Addr}}, NewFoundationAddress: &addr}
				if !s.ResignV2(&t) || !edit(&t) {
					return
				}
				blk := types.Block{Timestamp: ts, V2: &types.V2BlockData{Transactions: []types.V2Transaction{t}}}
				s.Seal(&blk, miner)
				c := c03Case{kind: "foundation-hijack:" + kind, accept: accept, judged: true, block: blk, describe: kind}
				if accept {
					c.key = "c03-untampered-rejected:foundation-update:" + kind
				} else {
					c.key = "c03-foundation-update-unauthorised-accepted:" + kind
				}
				out = append(out, c)
			}
			mk("v2-honest", true, func(t *types.V2Transaction) bool { return true })
			mk("v2-address-changed-after-signing", false, func(t *types.V2Transaction) bool {
				a := flipAddr(*t.NewFoundationAddress, rng)
				t.NewFoundationAddress = &a
				return true
			})
			mk("v2-without-foundation-input", false, func(t *types.V2Transaction) bool {
				t.SiacoinInputs = t.SiacoinInputs[1:]
				t.SiacoinOutputs[0].Value = o2.SiacoinOutput.Value
				return s.ResignV2(t)
			})
			mk("v2-foundation-input-witness-dropped", false, func(t *types.V2Transaction) bool {
				t.SiacoinInputs[0].SatisfiedPolicy.Signatures = nil
				return true
			})
		}
	}
	return out
}

// c03PartialCoverage: a v1 transaction with TWO signers, the first signing partially (its own input and
// output 0), the second whole or partially (its input, output 1, the fee). Every value field is changed once:
// content covered by at least one signature must not change (rejected); content that nobody signed may
// (recorded, not judged). Which element a signature covers is read off its CoveredFields by index.
func c03PartialCoverage(s *chain.Sim, rng *rand.Rand, ts time.Time, miner types.Address) (out []c03Case) {
	if s.V1Forbidden() {
		return nil
	}
	a, ok1 := c03PickOtherSC(s, false)
	if !ok1 {
		return nil
	}
	var b types.SiacoinElement
	ok2 := false
	{
		var ids []types.SiacoinOutputID
		for id := range s.St.SC {
			ids = append(ids, id)
		}
		sort.Slice(ids, func(i, j int) bool { return bytes.Compare(ids[i][:], ids[j][:]) > 0 })
		child := s.ChildHeight()
		for _, id := range ids {
			e := s.St.SC[id]
			r := s.RecipeFor(e.SiacoinOutput.Address)
			ad := e.SiacoinOutput.Address
			if id == a.ID || ad == s.Tip.FoundationSubsidyAddress || ad == s.Tip.FoundationManagementAddress || !c03RealSigner(r) || !r.V1Spendable() || e.MaturityHeight > child ||
				e.SiacoinOutput.Value.Cmp(types.NewCurrency64(1000)) < 0 || !s.Spendable(ad, false) {
				continue
			}
			b, ok2 = e, true
			break
		}
	}
	if !ok2 {
		return nil
	}
	ra, rb := s.RecipeFor(a.SiacoinOutput.Address), s.RecipeFor(b.SiacoinOutput.Address)
	fee := types.NewCurrency64(7)
	extra := types.NewCurrency64(5)
	for _, second := range []string{"whole", "partial"} {
		txn := types.Transaction{
			SiacoinInputs: []types.SiacoinInput{{ParentID: a.ID, UnlockConditions: *ra.UC}, {ParentID: b.ID, UnlockConditions: *rb.UC}},
			SiacoinOutputs: []types.SiacoinOutput{{Value: a.SiacoinOutput.Value, Address: c03Attacker(s, rng).Addr},
				{Value: b.SiacoinOutput.Value.Sub(fee).Sub(extra), Address: c03Attacker(s, rng).Addr}, {Value: extra, Address: c03Attacker(s, rng).Addr}},
			MinerFees:     []types.Currency{fee},
			ArbitraryData: [][]byte{[]byte("data nobody may have signed")},
		}
		cfA := types.CoveredFields{SiacoinInputs: []uint64{0}, SiacoinOutputs: []uint64{0}}
		cfB := types.CoveredFields{SiacoinInputs: []uint64{1}, SiacoinOutputs: []uint64{1}, MinerFees: []uint64{0}}
		sa := c03SignV1(s.Tip, &txn, types.Hash256(a.ID), ra, false, cfA)
		sb := c03SignV1(s.Tip, &txn, types.Hash256(b.ID), rb, second == "whole", cfB)
		txn.Signatures = append(sa, sb...)
		supp := consensus.V1BlockSupplement{Transactions: []consensus.V1TransactionSupplement{{SiacoinInputs: []types.SiacoinElement{a.Copy(), b.Copy()}}}}
		mkBlock := func(t types.Transaction) types.Block {
			blk := types.Block{Timestamp: ts, Transactions: []types.Transaction{t}}
			if s.V2Allowed() {
				blk.V2 = &types.V2BlockData{}
			}
			s.Seal(&blk, miner)
			return blk
		}
		name := "v1-two-signers:first-partial,second-" + second
		out = append(out, c03Case{key: "c03-untampered-rejected:" + name, kind: name + ":honest", accept: true, judged: true, block: mkBlock(cloneV1(txn)), supp: chain.CopySupp(supp), describe: name})
		// what the signatures cover, by list and index (a whole-transaction signature covers every element)
		covered := func(list string, i int) bool {
			if second == "whole" {
				return true
			}
			in := func(xs []uint64) bool {
				for _, x := range xs {
					if int(x) == i {
						return true
					}
				}
				return false
			}
			switch list {
			case "SiacoinInputs":
				return in(cfA.SiacoinInputs) || in(cfB.SiacoinInputs)
			case "SiacoinOutputs":
				return in(cfA.SiacoinOutputs) || in(cfB.SiacoinOutputs)
			case "MinerFees":
				return in(cfB.MinerFees)
			}
			return false
		}
		body := struct {
			SiacoinInputs  []types.SiacoinInput
			SiacoinOutputs []types.SiacoinOutput
			MinerFees      []types.Currency
			ArbitraryData  [][]byte
		}{}
		leaves := c12Leaves(reflect.ValueOf(&struct {
			SiacoinInputs  []types.SiacoinInput
			SiacoinOutputs []types.SiacoinOutput
			MinerFees      []types.Currency
			ArbitraryData  [][]byte
		}{txn.SiacoinInputs, txn.SiacoinOutputs, txn.MinerFees, txn.ArbitraryData}).Elem())
		_ = body
		taken := 0
		for _, n := range rng.Perm(len(leaves)) {
			l := leaves[n]
			if l.kind != "value" || taken >= 30 {
				continue
			}
			taken++
			m := cloneV1(txn)
			view := &struct {
				SiacoinInputs  []types.SiacoinInput
				SiacoinOutputs []types.SiacoinOutput
				MinerFees      []types.Currency
				ArbitraryData  [][]byte
			}{m.SiacoinInputs, m.SiacoinOutputs, m.MinerFees, m.ArbitraryData}
			c12MutateNth(rng, reflect.ValueOf(view).Elem(), n)
			m.SiacoinInputs, m.SiacoinOutputs, m.MinerFees, m.ArbitraryData = view.SiacoinInputs, view.SiacoinOutputs, view.MinerFees, view.ArbitraryData
			// which element changed (statement level: compare the encodings element by element)
			touchesCovered, changed := false, false
			for i := range txn.SiacoinInputs {
				if !bytes.Equal(chain.Encode(txn.SiacoinInputs[i]), chain.Encode(m.SiacoinInputs[i])) {
					changed = true
					touchesCovered = touchesCovered || covered("SiacoinInputs", i)
				}
			}
			for i := range txn.SiacoinOutputs {
				if !bytes.Equal(chain.Encode(types.V1SiacoinOutput(txn.SiacoinOutputs[i])), chain.Encode(types.V1SiacoinOutput(m.SiacoinOutputs[i]))) {
					changed = true
					touchesCovered = touchesCovered || covered("SiacoinOutputs", i)
				}
			}
			for i := range txn.MinerFees {
				if txn.MinerFees[i] != m.MinerFees[i] {
					changed = true
					touchesCovered = touchesCovered || covered("MinerFees", i)
				}
			}
			for i := range txn.ArbitraryData {
				if !bytes.Equal(txn.ArbitraryData[i], m.ArbitraryData[i]) {
					changed = true
					touchesCovered = touchesCovered || covered("ArbitraryData", i)
				}
			}
			if !changed {
				continue
			}
			k := name + ":" + l.path
			out = append(out, c03Case{key: "c03-tamper-accepted:" + k, kind: k, accept: false, judged: touchesCovered, block: mkBlock(m), supp: chain.CopySupp(supp), describe: k})
		}
	}
	return out
}


// ---------------------------------------------------------------- the revealed conditions / policy, field by field

// c03UnlockHash: the address of v1 unlock conditions, computed here from the protocol definition (Merkle root of
// the leaves timelock | key… | signatures required; leaf = H(0x00 ‖ data), node = H(0x01 ‖ l ‖ r)) and NOT with
// core's UnlockHash: "reveals unlock conditions that hash to the address committed in the parent".
func c03UnlockHash(uc types.UnlockConditions) types.Address {
	leaf := func(data []byte) types.Hash256 { return types.HashBytes(append([]byte{0}, data...)) }
	u64 := func(v uint64) []byte {
		b := make([]byte, 8)
		binary.LittleEndian.PutUint64(b, v)
		return b
	}
	leaves := []types.Hash256{leaf(u64(uc.Timelock))}
	for _, k := range uc.PublicKeys {
		leaves = append(leaves, leaf(append(append(append([]byte{}, k.Algorithm[:]...), u64(uint64(len(k.Key)))...), k.Key...)))
	}
	leaves = append(leaves, leaf(u64(uc.SignaturesRequired)))
	var root func(l []types.Hash256) types.Hash256
	root = func(l []types.Hash256) types.Hash256 {
		if len(l) == 1 {
			return l[0]
		}
		k := 1
		for k*2 < len(l) {
			k *= 2
		}
		a, b := root(l[:k]), root(l[k:])
		return types.HashBytes(append(append([]byte{1}, a[:]...), b[:]...))
	}
	return types.Address(root(leaves))
}

type c03UCVariant struct {
	field string
	uc    types.UnlockConditions
}

func c03CopyUC(uc types.UnlockConditions) types.UnlockConditions {
	out := uc
	out.PublicKeys = nil
	for _, k := range uc.PublicKeys {
		out.PublicKeys = append(out.PublicKeys, types.UnlockKey{Algorithm: k.Algorithm, Key: append([]byte(nil), k.Key...)})
	}
	return out
}

// c03UCVariants: every single-field change of revealed unlock conditions (each has a different value, hence —
// by the statement — a different address).
func c03UCVariants(uc types.UnlockConditions, child uint64, rng *rand.Rand, stranger types.PublicKey) []c03UCVariant {
	var out []c03UCVariant
	add := func(field string, edit func(u *types.UnlockConditions) bool) {
		u := c03CopyUC(uc)
		if edit(&u) && c03UnlockHash(u) != c03UnlockHash(uc) {
			out = append(out, c03UCVariant{field, u})
		}
	}
	add("Timelock+1", func(u *types.UnlockConditions) bool { u.Timelock++; return true })
	add("Timelock-1", func(u *types.UnlockConditions) bool { u.Timelock--; return uc.Timelock > 0 })
	add("Timelock=0", func(u *types.UnlockConditions) bool { u.Timelock = 0; return uc.Timelock != 0 })
	add("Timelock=passed", func(u *types.UnlockConditions) bool {
		if child < 2 {
			return false
		}
		u.Timelock = 1 + uint64(rng.Intn(int(child-1)))
		return u.Timelock != uc.Timelock
	})
	add("SignaturesRequired+1", func(u *types.UnlockConditions) bool { u.SignaturesRequired++; return true })
	add("SignaturesRequired-1", func(u *types.UnlockConditions) bool { u.SignaturesRequired--; return uc.SignaturesRequired > 0 })
	if len(uc.PublicKeys) > 0 {
		k := rng.Intn(len(uc.PublicKeys))
		add("PublicKeys.Algorithm", func(u *types.UnlockConditions) bool {
			if u.PublicKeys[k].Algorithm == types.SpecifierEd25519 {
				u.PublicKeys[k].Algorithm = types.NewSpecifier("lamport")
			} else {
				u.PublicKeys[k].Algorithm = types.SpecifierEd25519
			}
			return true
		})
		add("PublicKeys.Key", func(u *types.UnlockConditions) bool {
			if len(u.PublicKeys[k].Key) == 0 {
				return false
			}
			u.PublicKeys[k].Key[rng.Intn(len(u.PublicKeys[k].Key))] ^= 1 << uint(rng.Intn(8))
			return true
		})
		add("PublicKeys#drop", func(u *types.UnlockConditions) bool {
			u.PublicKeys = append(u.PublicKeys[:k:k], u.PublicKeys[k+1:]...)
			return true
		})
	}
	if len(uc.PublicKeys) > 1 {
		add("PublicKeys#reorder", func(u *types.UnlockConditions) bool {
			i := rng.Intn(len(u.PublicKeys) - 1)
			u.PublicKeys[i], u.PublicKeys[i+1] = u.PublicKeys[i+1], u.PublicKeys[i]
			return true
		})
	}
	add("PublicKeys#append", func(u *types.UnlockConditions) bool {
		u.PublicKeys = append(u.PublicKeys, types.UnlockKey{Algorithm: types.SpecifierEd25519, Key: stranger[:]})
		return true
	})
	return out
}

type c03PolicyVariant struct {
	field  string
	p      types.SpendPolicy
	opaque bool // a revealed sub-policy replaced by its opaque form: address-preserving by design
}

// c03PolicyVariants: every single-field change of a revealed spend policy, recursively through thresholds.
func c03PolicyVariants(p types.SpendPolicy, height uint64, rng *rand.Rand, stranger types.PublicKey) []c03PolicyVariant {
	var out []c03PolicyVariant
	switch t := p.Type.(type) {
	case types.PolicyTypeUnlockConditions:
		for _, v := range c03UCVariants(types.UnlockConditions(t), height+1, rng, stranger) {
			out = append(out, c03PolicyVariant{"uc." + v.field, types.SpendPolicy{Type: types.PolicyTypeUnlockConditions(v.uc)}, false})
		}
	case types.PolicyTypeAbove:
		if uint64(t) > 0 {
			out = append(out, c03PolicyVariant{"above", types.PolicyAbove(uint64(t) - 1), false}, c03PolicyVariant{"above=0", types.PolicyAbove(0), false})
		} else {
			out = append(out, c03PolicyVariant{"above", types.PolicyAbove(1), false})
		}
	case types.PolicyTypeAfter:
		out = append(out, c03PolicyVariant{"after", types.PolicyAfter(time.Time(t).Add(-time.Hour)), false})
	case types.PolicyTypePublicKey:
		out = append(out, c03PolicyVariant{"pk", types.PolicyPublicKey(stranger), false})
		q := types.PublicKey(t)
		q[rng.Intn(32)] ^= 1 << uint(rng.Intn(8))
		out = append(out, c03PolicyVariant{"pk-bit", types.PolicyPublicKey(q), false})
	case types.PolicyTypeHash:
		h := types.Hash256(t)
		h[rng.Intn(32)] ^= 1 << uint(rng.Intn(8))
		out = append(out, c03PolicyVariant{"hash", types.PolicyHash(h), false})
	case types.PolicyTypeOpaque:
		a := types.Address(t)
		a[rng.Intn(32)] ^= 1 << uint(rng.Intn(8))
		out = append(out, c03PolicyVariant{"opaque", types.SpendPolicy{Type: types.PolicyTypeOpaque(a)}, false})
	case types.PolicyTypeThreshold:
		with := func(i int, sub types.SpendPolicy) types.SpendPolicy {
			of := append([]types.SpendPolicy(nil), t.Of...)
			of[i] = sub
			return types.PolicyThreshold(t.N, of)
		}
		out = append(out, c03PolicyVariant{"thresh.n+1", types.PolicyThreshold(t.N+1, t.Of), false})
		if t.N > 0 {
			out = append(out, c03PolicyVariant{"thresh.n-1", types.PolicyThreshold(t.N-1, t.Of), false})
		}
		if len(t.Of) > 1 {
			of := append([]types.SpendPolicy(nil), t.Of...)
			of[0], of[1] = of[1], of[0]
			if types.PolicyThreshold(t.N, of).Address() != p.Address() || true {
				out = append(out, c03PolicyVariant{"thresh.of#reorder", types.PolicyThreshold(t.N, of), false})
			}
			out = append(out, c03PolicyVariant{"thresh.of#drop", types.PolicyThreshold(t.N, t.Of[:len(t.Of)-1]), false})
		}
		out = append(out, c03PolicyVariant{"thresh.of#append", types.PolicyThreshold(t.N, append(append([]types.SpendPolicy(nil), t.Of...), types.PolicyAbove(0))), false})
		for i, sub := range t.Of {
			if _, isOpaque := sub.Type.(types.PolicyTypeOpaque); !isOpaque {
				out = append(out, c03PolicyVariant{"thresh.of.opaque-for-revealed", with(i, types.PolicyOpaque(sub)), true})
				out = append(out, c03PolicyVariant{"thresh.of.replaced", with(i, types.PolicyAbove(0)), false})
			}
			for _, v := range c03PolicyVariants(sub, height, rng, stranger) {
				out = append(out, c03PolicyVariant{"thresh.of." + v.field, with(i, v.p), v.opaque})
			}
		}
	}
	return out
}

// c03ResignV1Same re-signs a v1 transaction whose revealed unlock conditions were edited, with the SAME keys that
// signed the original (recipes looked up before the edit): whole-transaction signatures by every original key that
// still appears in the edited conditions, at its new index, at most SignaturesRequired of them.
func c03ResignV1Same(cs consensus.State, txn *types.Transaction, recipes map[types.Hash256]*chain.Recipe) {
	txn.Signatures = nil
	sign := func(parent types.Hash256, uc types.UnlockConditions) {
		r := recipes[parent]
		if r == nil {
			return
		}
		n := uint64(0)
		for _, k := range r.Keys {
			pk := k.PublicKey()
			for idx, uk := range uc.PublicKeys {
				if n < uc.SignaturesRequired && bytes.Equal(uk.Key, pk[:]) {
					txn.Signatures = append(txn.Signatures, types.TransactionSignature{ParentID: parent, PublicKeyIndex: uint64(idx), CoveredFields: types.CoveredFields{WholeTransaction: true}})
					n++
					break
				}
			}
		}
		if r.Kind == "ucalien" { // any bytes pass for a key of an unknown algorithm
			for idx := range uc.PublicKeys {
				if n < uc.SignaturesRequired && uc.PublicKeys[idx].Algorithm != types.SpecifierEd25519 {
					txn.Signatures = append(txn.Signatures, types.TransactionSignature{ParentID: parent, PublicKeyIndex: uint64(idx), CoveredFields: types.CoveredFields{WholeTransaction: true}})
					n++
				}
			}
		}
	}
	for _, in := range txn.SiacoinInputs {
		sign(types.Hash256(in.ParentID), in.UnlockConditions)
	}
	for _, in := range txn.SiafundInputs {
		sign(types.Hash256(in.ParentID), in.UnlockConditions)
	}
	for _, rv := range txn.FileContractRevisions {
		sign(types.Hash256(rv.ParentID), rv.UnlockConditions)
	}
	for i := range txn.Signatures {
		sg := &txn.Signatures[i]
		r := recipes[sg.ParentID]
		var key types.PrivateKey
		for _, in := range txn.SiacoinInputs {
			if types.Hash256(in.ParentID) == sg.ParentID && int(sg.PublicKeyIndex) < len(in.UnlockConditions.PublicKeys) {
				key = c03KeyFor(r, in.UnlockConditions.PublicKeys[sg.PublicKeyIndex])
			}
		}
		for _, in := range txn.SiafundInputs {
			if types.Hash256(in.ParentID) == sg.ParentID && int(sg.PublicKeyIndex) < len(in.UnlockConditions.PublicKeys) {
				key = c03KeyFor(r, in.UnlockConditions.PublicKeys[sg.PublicKeyIndex])
			}
		}
		for _, rv := range txn.FileContractRevisions {
			if types.Hash256(rv.ParentID) == sg.ParentID && int(sg.PublicKeyIndex) < len(rv.UnlockConditions.PublicKeys) {
				key = c03KeyFor(r, rv.UnlockConditions.PublicKeys[sg.PublicKeyIndex])
			}
		}
		if key == nil && r != nil && len(r.Keys) > 0 {
			key = r.Keys[0]
		}
		if key != nil {
			sig := key.SignHash(cs.WholeSigHash(*txn, sg.ParentID, sg.PublicKeyIndex, 0, nil))
			sg.Signature = sig[:]
		}
	}
}

func c03KeyFor(r *chain.Recipe, uk types.UnlockKey) types.PrivateKey {
	if r == nil {
		return nil
	}
	for _, k := range r.Keys {
		pk := k.PublicKey()
		if bytes.Equal(uk.Key, pk[:]) {
			return k
		}
	}
	return nil
}

// revealedPolicyMutants: for every input of the block (v1 unlock conditions of siacoin / siafund inputs and
// revisions; v2 satisfied policies) every single-field variant of what is REVEALED — without re-signing and, for
// v1 (whose signatures cover the revealed conditions), re-signed by the same keys. kind =
// "revealed-policy:<recipe kind>:<field>[:resigned]"; opaque-for-revealed substitutions "revealed-policy-opaque:…".
func (x *c03Ctx) revealedPolicyMutants(s *chain.Sim, b types.Block, supp consensus.V1BlockSupplement, miner types.Address, max int) []mutant {
	var out []mutant
	rng := x.rng
	child := s.ChildHeight()
	stranger := c03Attacker(s, rng).Keys[0].PublicKey()
	kindOf := func(a types.Address) string {
		if r := s.RecipeFor(a); r != nil {
			return r.Kind
		}
		return "unknown"
	}
	add := func(kind string, edit func(mb *types.Block) bool) {
		mb, ms := chain.DeepCopyBlock(b), chain.CopySupp(supp)
		mb.Timestamp = b.Timestamp
		if !edit(&mb) {
			return
		}
		s.Seal(&mb, miner)
		out = append(out, mutant{kind, mb, ms})
	}
	// the address the parent really commits to (elements of the store; zero for parents created in this block)
	committed := func(id types.Hash256) types.Address {
		if e, ok := s.St.SC[types.SiacoinOutputID(id)]; ok {
			return e.SiacoinOutput.Address
		}
		if e, ok := s.St.SF[types.SiafundOutputID(id)]; ok {
			return e.SiafundOutput.Address
		}
		if e, ok := s.St.FC[types.FileContractID(id)]; ok {
			return e.FileContract.UnlockHash
		}
		return types.Address{}
	}
	for i, t := range b.Transactions {
		i := i
		recipes := map[types.Hash256]*chain.Recipe{}
		type slot struct {
			parent types.Hash256
			uc     types.UnlockConditions
			set    func(c *types.Transaction, u types.UnlockConditions)
			addr   types.Address
		}
		var slots []slot
		for k, in := range t.SiacoinInputs {
			k := k
			a := c03UnlockHash(in.UnlockConditions)
			recipes[types.Hash256(in.ParentID)] = s.RecipeFor(in.UnlockConditions.UnlockHash())
			slots = append(slots, slot{types.Hash256(in.ParentID), in.UnlockConditions, func(c *types.Transaction, u types.UnlockConditions) { c.SiacoinInputs[k].UnlockConditions = u }, a})
		}
		for k, in := range t.SiafundInputs {
			k := k
			recipes[types.Hash256(in.ParentID)] = s.RecipeFor(in.UnlockConditions.UnlockHash())
			slots = append(slots, slot{types.Hash256(in.ParentID), in.UnlockConditions, func(c *types.Transaction, u types.UnlockConditions) { c.SiafundInputs[k].UnlockConditions = u }, c03UnlockHash(in.UnlockConditions)})
		}
		for k, rv := range t.FileContractRevisions {
			k := k
			recipes[types.Hash256(rv.ParentID)] = s.RecipeFor(rv.UnlockConditions.UnlockHash())
			slots = append(slots, slot{types.Hash256(rv.ParentID), rv.UnlockConditions, func(c *types.Transaction, u types.UnlockConditions) { c.FileContractRevisions[k].UnlockConditions = u }, c03UnlockHash(rv.UnlockConditions)})
		}
		for _, sl := range slots {
			sl := sl
			rk := "unknown"
			if r := recipes[sl.parent]; r != nil {
				rk = r.Kind
			}
			for _, v := range c03UCVariants(sl.uc, child, rng, stranger) {
				v := v
				if h := c03UnlockHash(v.uc); h == s.Net.HardforkDevAddr.NewAddress || h == committed(sl.parent) {
					// the developer-address override: the conditions of the NEW address legitimately spend siafunds at the OLD
					// one — and a variant of them may BE the conditions the parent really commits to
					continue
				}
				add("revealed-policy:"+rk+":"+v.field, func(mb *types.Block) bool { sl.set(&mb.Transactions[i], v.uc); return true })
				add("revealed-policy:"+rk+":"+v.field+":resigned", func(mb *types.Block) bool {
					sl.set(&mb.Transactions[i], v.uc)
					c03ResignV1Same(s.Tip, &mb.Transactions[i], recipes)
					return true
				})
			}
		}
	}
	for i, t := range b.V2Transactions() {
		i := i
		for k, in := range t.SiacoinInputs {
			k := k
			rk := kindOf(in.Parent.SiacoinOutput.Address)
			for _, v := range c03PolicyVariants(in.SatisfiedPolicy.Policy, s.Tip.Index.Height, rng, stranger) {
				v := v
				pre := "revealed-policy:"
				if v.opaque {
					pre = "revealed-policy-opaque:"
				}
				add(pre+rk+":"+v.field, func(mb *types.Block) bool { mb.V2.Transactions[i].SiacoinInputs[k].SatisfiedPolicy.Policy = v.p; return true })
			}
		}
		for k, in := range t.SiafundInputs {
			k := k
			rk := kindOf(in.Parent.SiafundOutput.Address)
			for _, v := range c03PolicyVariants(in.SatisfiedPolicy.Policy, s.Tip.Index.Height, rng, stranger) {
				v := v
				pre := "revealed-policy:"
				if v.opaque {
					pre = "revealed-policy-opaque:"
				}
				add(pre+rk+":"+v.field, func(mb *types.Block) bool { mb.V2.Transactions[i].SiafundInputs[k].SatisfiedPolicy.Policy = v.p; return true })
			}
		}
	}
	rng.Shuffle(len(out), func(a, b int) { out[a], out[b] = out[b], out[a] })
	if max > 0 && len(out) > max {
		out = out[:max]
	}
	return out
}

// c03InBlockRotation builds a block [key-rotating revision of X ; renewal of X] in which the
// renewal is signed by (a) the pre-block keys, (b) the keys as they stand after the revision.
func c03InBlockRotation(s *chain.Sim, ts time.Time, miner types.Address) (pre, post *mutant) {
	if !s.V2Allowed() {
		return nil, nil
	}
	child := s.ChildHeight()
	var ids []types.FileContractID
	for id := range s.St.V2FC {
		ids = append(ids, id)
	}
	sort.Slice(ids, func(i, j int) bool { return bytes.Compare(ids[i][:], ids[j][:]) < 0 })
	for _, id := range ids {
		e := s.St.V2FC[id]
		fc := e.V2FileContract
		if fc.ProofHeight < child {
			continue
		}
		total := fc.RenterOutput.Value.Add(fc.HostOutput.Value)
		v := total.Div64(3)
		if v.Cmp(types.NewCurrency64(100)) < 0 {
			continue
		}
		t := v.Add(v.Div64(25)) // new contract value + tax, paid entirely by the rollover
		rr := t.Div64(2)
		hr := t.Sub(rr)
		if fc.RenterOutput.Value.Cmp(rr) <= 0 || fc.HostOutput.Value.Cmp(hr) <= 0 {
			continue
		}
		var newKey types.PublicKey
		for _, k := range s.W.Keys {
			if k.PublicKey() != fc.RenterPublicKey && k.PublicKey() != fc.HostPublicKey {
				newKey = k.PublicKey()
			}
		}
		rev := fc
		rev.RevisionNumber++
		rev.RenterPublicKey = newKey
		rev.ProofHeight, rev.ExpirationHeight = child+1, child+3
		if child >= s.Net.HardforkV2.EphemeralOutputHeight && rev.MissedHostValue.Cmp(rev.HostOutput.Value) > 0 {
			rev.MissedHostValue = rev.HostOutput.Value
		}
		s.SignContract(&rev, fc.RenterPublicKey, fc.HostPublicKey)
		t1 := types.V2Transaction{FileContractRevisions: []types.V2FileContractRevision{{Parent: e.Copy(), Revision: rev}}}
		build := func(renter, host types.PublicKey) *mutant {
			nc := fc
			nc.RenterPublicKey, nc.HostPublicKey = renter, host
			nc.RenterOutput.Value, nc.HostOutput.Value = v.Div64(2), v.Sub(v.Div64(2))
			nc.MissedHostValue, nc.TotalCollateral = types.ZeroCurrency, types.ZeroCurrency
			nc.ProofHeight, nc.ExpirationHeight, nc.RevisionNumber = child+1, child+3, 0
			s.SignContract(&nc, renter, host)
			rn := &types.V2FileContractRenewal{FinalRenterOutput: fc.RenterOutput, FinalHostOutput: fc.HostOutput, RenterRollover: rr, HostRollover: hr, NewContract: nc}
			rn.FinalRenterOutput.Value = fc.RenterOutput.Value.Sub(rr)
			rn.FinalHostOutput.Value = fc.HostOutput.Value.Sub(hr)
			h := s.Tip.RenewalSigHash(*rn)
			rn.RenterSignature, rn.HostSignature = s.KeyFor(renter).SignHash(h), s.KeyFor(host).SignHash(h)
			t2 := types.V2Transaction{FileContractResolutions: []types.V2FileContractResolution{{Parent: e.Copy(), Resolution: rn}}}
			b := types.Block{Timestamp: ts, V2: &types.V2BlockData{Transactions: []types.V2Transaction{t1, t2}}}
			s.Seal(&b, miner)
			return &mutant{"", b, consensus.V1BlockSupplement{}}
		}
		return build(fc.RenterPublicKey, fc.HostPublicKey), build(rev.RenterPublicKey, rev.HostPublicKey)
	}
	return nil, nil
}

// c03Why classifies ValidateBlock's error (recorded in the distribution only: it shows that the
// tampered blocks are rejected by the authorisation checks and not for an incidental reason).
func c03Why(e string) string {
	if i := strings.Index(e, "is invalid: "); i >= 0 { // ValidateBlock's wrapper "transaction N is invalid: ..."
		e = e[i+len("is invalid: "):]
	}
	for _, k := range []string{"superfluous signature", "superfluous preimage", "invalid signature", "invalid preimage", "threshold not reached",
		"do not equal outputs", "opaque policy", "claims incorrect value", "claims incorrect maturity height", "nonexistent ephemeral output", "claims incorrect policy", "claims incorrect unlock conditions", "is invalid", "is redundant", "uses an entropy public key", "missing signatures", "nonexistent public key",
		"unsigned FoundationAddressUpdate", "does not spend an input controlled by current address", "has invalid renter signature",
		"has invalid host signature", "attestation", "timelock", "references parent not present", "opaque policy"} {
		if strings.Contains(e, k) {
			return k
		}
	}
	for _, k := range []string{"nonexistent siacoin output", "immature", "double-spends"} {
		if strings.Contains(e, k) {
			return k
		}
	}
	// drop ids and numbers: keep the words
	var sb strings.Builder
	for _, w := range strings.Fields(e) {
		if len(w) < 20 && !strings.ContainsAny(w, "0123456789") {
			sb.WriteString(w + " ")
		}
	}
	e = strings.TrimSpace(sb.String())
	if len(e) > 60 {
		e = e[len(e)-60:]
	}
	return "OTHER " + e
}

func runC03(c *fw.Ctx) {
	res := c.Res
	defer func() {
		if d := fw.Lookup("C03D"); d != nil {
			d(c)
		}
	}()
	res.Rule = "random valid chains (modes v1 / mixed / v2 / legacy); for every generated block: the untampered block must be accepted by consensus.ValidateBlock, and every applicable single-point tampering (signed content of v1/v2 transactions: output address, 1 H moved from an output to the fee, arbitrary data, claim address, contract / revision / renewal fields, attestation value, Foundation address; every signature and preimage flipped, dropped, duplicated, an extra one appended; a v1 signature's PublicKeyIndex / Timelock / CoveredFields changed; unlock conditions or spend policy replaced by the attacker's own with a valid attacker signature; contract signed by other keys; a key-rotating v2 revision signed by the NEW keys; renewal / attestation signed by another key; Foundation update without the current Foundation keys), re-sealed (payout, commitment, nonce) WITHOUT re-signing, must be rejected. Every block and mutant is also judged by the Lean ledger model (verdict and, for accepted blocks, the complete diff dump). Non-trivial = every tampered block."
	x := &c03Ctx{c: c, rng: rand.New(rand.NewSource(c.Seed*104729 + 3))}
	nChains := c.Budget(10, 100)
	blocks := c.Budget(36, 60)
	perBlock := c.Budget(14, 1000)
	// replay of one stored case: rebuild that chain up to the height and apply every tampering of the stored kind
	var only struct {
		Replay struct {
			Mode   string `json:"mode"`
			Seed   int64  `json:"seed"`
			Height uint64 `json:"height"`
			Tamper string `json:"tamper"`
		} `json:"replay"`
	}
	replaying := false
	if c.Replay != "" {
		if raw, err := readFile(c.Replay); err == nil && json.Unmarshal(raw, &only) == nil && only.Replay.Mode != "" {
			replaying = true
			nChains, perBlock = 1, 1<<30
			blocks = int(only.Replay.Height) + 1
		} else {
			res.Note("replay file not understood; running the seeded sweep")
		}
	}
	rotationSeen := 0
	for i := 0; i < nChains; i++ {
		mode := ledgerModes[i%len(ledgerModes)]
		seed := c.Seed*15485863 + int64(i)
		if replaying {
			mode, seed = only.Replay.Mode, only.Replay.Seed
		}
		s := chain.NewSim(rand.New(rand.NewSource(seed)), mode)
		ab := chain.NewAbstractor(s)
		res.Count("chains:" + mode)
		payRng := rand.New(rand.NewSource(seed ^ 0x70617932)) // keys of the inserted pay-twice blocks: independent of the sweep's own draws
		var pending *c03Pending
		for k := 0; k < blocks; k++ {
			p := s.BuildBlock()
			height := s.ChildHeight()
			var ms []mutant
			if !replaying || height == only.Replay.Height {
				ms = x.tamperMutants(s, p)
			}
			{ // control: the untouched copy, re-sealed the same way, must be accepted — otherwise rejections prove nothing
				cb := chain.DeepCopyBlock(p.Block)
				cb.Timestamp = p.Block.Timestamp
				s.Seal(&cb, p.Miner)
				if err := consensus.ValidateBlock(s.Tip, cb, chain.CopySupp(p.Supp)); err != nil {
					res.Count("control-copy-rejected")
					res.Note("control copy of a generated block rejected (%s seed %d height %d): %v", mode, seed, height, err)
					ms = nil
				} else {
					res.Count("control-copy-accepted")
				}
			}
			if replaying {
				var keep []mutant
				for _, m := range ms {
					if m.kind == only.Replay.Tamper {
						keep = append(keep, m)
					}
				}
				ms = keep
			}
			if !replaying || height == only.Replay.Height {
				rv := x.revealedPolicyMutants(s, p.Block, p.Supp, p.Miner, c.Budget(24, 0))
				if replaying {
					var keep []mutant
					for _, m := range rv {
						if m.kind == only.Replay.Tamper {
							keep = append(keep, m)
						}
					}
					rv = keep
				}
				ms = append(ms, rv...)
				// the address of revealed unlock conditions is the protocol's Merkle root, whatever shortcut the code takes
				hashOracle := func(uc types.UnlockConditions, got types.Address, where string) {
					res.Count("unlock-hash-oracle")
					if want := c03UnlockHash(uc); got != want {
						kind := "unknown"
						if r := s.RecipeFor(got); r != nil {
							kind = r.Kind
						}
						res.Violate(fw.Violation{Key: "c03-revealed-conditions-hash-mismatch:" + kind, What: "the address core derives from revealed unlock conditions (" + where + ") is not the Merkle root of timelock | keys | signatures required",
							Replay: map[string]any{"mode": mode, "seed": seed, "height": height, "unlock_conditions": fw.Hex(chain.Encode(uc)), "core": fmt.Sprint(got), "protocol": fmt.Sprint(want)}, Expected: fmt.Sprint(want), Observed: fmt.Sprint(got)})
					}
				}
				for _, t := range p.Block.Transactions {
					for _, in := range t.SiacoinInputs {
						hashOracle(in.UnlockConditions, in.UnlockConditions.UnlockHash(), "UnlockConditions.UnlockHash")
					}
					for _, in := range t.SiafundInputs {
						hashOracle(in.UnlockConditions, in.UnlockConditions.UnlockHash(), "UnlockConditions.UnlockHash")
					}
				}
				for _, t := range p.Block.V2Transactions() {
					for _, in := range t.SiacoinInputs {
						if uc, ok := in.SatisfiedPolicy.Policy.Type.(types.PolicyTypeUnlockConditions); ok {
							hashOracle(types.UnlockConditions(uc), in.SatisfiedPolicy.Policy.Address(), "SpendPolicy.Address")
						}
					}
				}
			}
			x.rng.Shuffle(len(ms), func(a, b int) { ms[a], ms[b] = ms[b], ms[a] })
			{ // same-block spends are rare: their mutants are never sampled away
				var first, rest []mutant
				for _, m := range ms {
					if strings.HasPrefix(m.kind, "v2-ephemeral") || strings.HasPrefix(m.kind, "revealed-policy") {
						first = append(first, m)
					} else {
						rest = append(rest, m)
					}
				}
				if len(rest) > perBlock {
					rest = rest[:perBlock]
				}
				ms = append(first, rest...)
			}
			// directly built [pay to A ; spend that output] blocks: honest ones must be accepted, the attacks rejected
			if k%3 == 1 && (!replaying || height == only.Replay.Height) {
				ctl, att := c03SameBlockSpends(s, x.rng, p.Block.Timestamp, p.Miner)
				for _, m := range ctl {
					err := consensus.ValidateBlock(s.Tip, m.block, m.supp)
					res.Eval(fmt.Sprintf("%s/%d/%d/%s", mode, seed, height, m.kind), true)
					if err != nil {
						res.Count("control-rejected:" + m.kind)
						res.Violate(fw.Violation{Key: "c03-untampered-rejected:" + m.kind, What: "an honest block [pay to A; spend that output with A's key] was rejected: " + err.Error(),
							Replay: map[string]any{"mode": mode, "seed": seed, "height": height, "tamper": m.kind, "block": fw.Hex(chain.Encode(types.V2Block(m.block)))}, Expected: "accepted", Observed: "rejected"})
					} else {
						res.Count("control-accepted:" + m.kind)
					}
				}
				if replaying {
					var keep []mutant
					for _, m := range att {
						if m.kind == only.Replay.Tamper {
							keep = append(keep, m)
						}
					}
					att = keep
				}
				ms = append(att, ms...)
			}
			// directed families: Foundation update hijack; two signers with partial coverage
			if k%3 == 2 && (!replaying || height == only.Replay.Height) {
				cases := append(c03FoundationHijack(s, x.rng, p.Block.Timestamp, p.Miner), c03PartialCoverage(s, x.rng, p.Block.Timestamp, p.Miner)...)
				for _, cse := range cases {
					if replaying && cse.kind != only.Replay.Tamper {
						continue
					}
					var err error
					panicked, msg := fw.Recover(func() { err = consensus.ValidateBlock(s.Tip, cse.block, cse.supp) })
					accepted := err == nil && !panicked
					res.Eval(fmt.Sprintf("%s/%d/%d/%s", mode, seed, height, cse.kind), true)
					fam := cse.kind
					if i := strings.Index(fam, ":"); i >= 0 {
						fam = fam[:i]
					}
					if !cse.judged {
						res.Count(fmt.Sprintf("unsigned-content:%s:accepted=%v", fam, accepted))
						continue
					}
					res.Count(fmt.Sprintf("directed:%s:expected-accept=%v", fam, cse.accept))
					if err != nil {
						res.Count("why:" + fam + ":" + c03Why(err.Error()))
					}
					rp := map[string]any{"mode": mode, "seed": seed, "height": height, "tamper": cse.kind, "block": fw.Hex(chain.Encode(types.V2Block(cse.block)))}
					switch {
					case panicked:
						res.Violate(fw.Violation{Key: "c10-validate-panic:" + fam, What: "ValidateBlock panicked: " + msg, Replay: rp})
					case accepted != cse.accept && cse.accept:
						res.Violate(fw.Violation{Key: cse.key, What: "an honest, fully authorised transaction was rejected (" + cse.describe + "): " + err.Error(), Replay: rp, Expected: "accepted", Observed: "rejected"})
					case accepted != cse.accept:
						res.Violate(fw.Violation{Key: cse.key, What: "ValidateBlock accepted content that no valid signature of the entitled key covers (" + cse.describe + ")", Replay: rp, Expected: "rejected", Observed: "accepted"})
					}
					if c.Model != nil && !accepted && !panicked {
						x.ops = append(x.ops, "ledger-block "+ab.Abstract(cse.block, cse.supp))
						x.outs = append(x.outs, "reject")
					}
				}
			}
			// two outputs paid to ONE address by the previous (inserted) block, spent together: honest spends must be
			// accepted; a corrupted witness on the second input only (or the first only) must be rejected
			if pending != nil && pending.tries < 6 && !s.Spendable(pending.r.Addr, s.V2Allowed()) && !(pending.r.UC != nil && !s.V1Forbidden() && s.Spendable(pending.r.Addr, false)) {
				pending.tries++ // a lock (timelock / above / after) has not passed yet: try on a later block
			} else if pending != nil {
				ctl, att := c03SecondInput(s, x.rng, pending, p.Block.Timestamp, p.Miner)
				res.Count("same-address:" + pending.kind)
				pkind := pending.kind
				pending = nil
				if !replaying || height == only.Replay.Height {
					for _, m := range ctl {
						err := consensus.ValidateBlock(s.Tip, m.block, m.supp)
						res.Eval(fmt.Sprintf("%s/%d/%d/%s/%s", mode, seed, height, pkind, m.kind), true)
						if err != nil {
							res.Count("control-rejected:" + pkind + ":" + m.kind)
							res.Violate(fw.Violation{Key: "c03-untampered-rejected:" + pkind, What: "an honest transaction spending outputs paid to the protocol address of a '" + pkind + "' recipe was rejected (" + m.kind + "): " + err.Error(),
								Replay: map[string]any{"mode": mode, "seed": seed, "height": height, "tamper": m.kind, "recipe": pkind, "block": fw.Hex(chain.Encode(types.V2Block(m.block)))}, Expected: "accepted", Observed: "rejected"})
						} else {
							res.Count("control-accepted:" + pkind + ":" + m.kind)
							// the revealed conditions / policy of the honest spend, field by field
							att = append(att, x.revealedPolicyMutants(s, m.block, m.supp, p.Miner, c.Budget(40, 0))...)
						}
					}
					if replaying {
						var keep []mutant
						for _, m := range att {
							if m.kind == only.Replay.Tamper {
								keep = append(keep, m)
							}
						}
						att = keep
					}
					ms = append(att, ms...)
				}
			}
			legacyWindow := height < s.Net.HardforkV2.EphemeralOutputHeight
			for _, m := range ms {
				if strings.HasPrefix(m.kind, "revealed-policy-opaque:") {
					// a revealed sub-policy replaced by its opaque form keeps the address by design: the block then stands or falls
					// with the witnesses alone: recorded, not judged
					var err error
					panicked, _ := fw.Recover(func() { err = consensus.ValidateBlock(s.Tip, m.block, m.supp) })
					res.Count(fmt.Sprintf("opaque-for-revealed:accepted=%v,panicked=%v", err == nil && !panicked, panicked))
					continue
				}
				if legacyWindow && strings.HasPrefix(m.kind, "v2-ephemeral") {
					// below EphemeralOutputHeight the claimed ephemeral parent is not compared (documented legacy window): recorded, not judged
					var err error
					panicked, _ := fw.Recover(func() { err = consensus.ValidateBlock(s.Tip, m.block, m.supp) })
					res.Count(fmt.Sprintf("legacy-window:%s:accepted=%v,panicked=%v", m.kind, err == nil && !panicked, panicked))
					continue
				}
				rp := map[string]any{"mode": mode, "seed": seed, "height": height, "tamper": m.kind, "block": fw.Hex(chain.Encode(types.V2Block(p.Block))), "tampered": fw.Hex(chain.Encode(types.V2Block(m.block)))}
				var err error
				panicked, msg := fw.Recover(func() { err = consensus.ValidateBlock(s.Tip, m.block, m.supp) })
				res.Eval(fmt.Sprintf("%s/%d/%d/%s/%x", mode, seed, height, m.kind, m.block.ID()), true)
				res.Count("tamper:" + m.kind)
				verdict := "reject"
				if err != nil {
					res.Count("why:" + m.kind + ":" + c03Why(err.Error()))
				}
				switch {
				case panicked:
					verdict = "panic-validate"
					res.Violate(fw.Violation{Key: "c10-validate-panic:" + m.kind, What: "ValidateBlock panicked on a tampered block: " + msg, Replay: rp})
				case err == nil:
					verdict = "accept"
					res.Count("tamper-accepted:" + m.kind)
					res.Violate(fw.Violation{Key: "c03-tamper-accepted:" + m.kind, What: "ValidateBlock accepted a block that was tampered with after signing (" + m.kind + ")", Replay: rp, Expected: "rejected", Observed: "accepted"})
				}
				if c.Model != nil && verdict != "accept" {
					x.ops = append(x.ops, "ledger-block "+ab.Abstract(m.block, m.supp))
					x.outs = append(x.outs, verdict)
				}
			}
			// DESIGN F8: renewal in the block of a key-rotating revision
			if rotationSeen < c.Budget(6, 200) && k%4 == 3 {
				if pre, post := c03InBlockRotation(s, p.Block.Timestamp, p.Miner); pre != nil {
					rotationSeen++
					errPre := consensus.ValidateBlock(s.Tip, pre.block, pre.supp)
					errPost := consensus.ValidateBlock(s.Tip, post.block, post.supp)
					res.Count(fmt.Sprintf("c03-renewal-after-inblock-key-rotation:signed-by-pre-block-keys:accepted=%v", errPre == nil))
					res.Count(fmt.Sprintf("c03-renewal-after-inblock-key-rotation:signed-by-rotated-keys:accepted=%v", errPost == nil))
					res.Eval(fmt.Sprintf("rotation/%s/%d/%d", mode, seed, height), true)
					if errPre == nil {
						// the contract as it stands after the revision carries the rotated keys; the accepted renewal is signed by the rotated-out pair
						res.Violate(fw.Violation{Key: "c03-stale-keys-accepted:v2-renewal-after-inblock-rotation",
							What:     "a block [revision of X rotating both keys; renewal of X signed by the rotated-OUT keys] is accepted; the same renewal signed by the keys of the contract as it stands after the revision is rejected",
							Expected: "rejected", Observed: "accepted",
							Replay: map[string]any{"mode": mode, "seed": seed, "height": height, "tamper": "inblock-rotation", "block": fw.Hex(chain.Encode(types.V2Block(pre.block))), "signed_by_rotated_keys_error": fmt.Sprint(errPost)}})
					}
					if c.Model != nil {
						for _, m := range []struct {
							b   *mutant
							err error
						}{{pre, errPre}, {post, errPost}} {
							if m.err != nil {
								x.ops = append(x.ops, "ledger-block "+ab.Abstract(m.b.block, m.b.supp))
								x.outs = append(x.outs, "reject")
							}
						}
					}
				}
			}
			// the untampered block
			var line string
			if c.Model != nil {
				line = "ledger-block " + ab.Abstract(p.Block, p.Supp)
			}
			parent := s.Tip
			var au consensus.ApplyUpdate
			var err error
			panicked, msg := fw.Recover(func() { au, err = s.Apply(p.Block, p.Supp) })
			res.Eval(fmt.Sprintf("%s/%d/%d", mode, seed, height), len(p.Block.Transactions)+len(p.Block.V2Transactions()) > 0)
			if panicked || err != nil {
				res.Violate(fw.Violation{Key: "c03-untampered-rejected", What: fmt.Sprintf("a generated valid block was not accepted: %v %s", err, msg),
					Replay: map[string]any{"mode": mode, "seed": seed, "height": height}, Expected: "accepted", Observed: "rejected"})
				break
			}
			res.Count("untampered-accepted")
			if c.Model != nil {
				x.ops = append(x.ops, line)
				x.outs = append(x.outs, "ok "+ab.DumpUpdate(au, s.Tip, parent))
			}
			// every sixth block is followed by an inserted block that pays two outputs to one fresh address
			if k%6 == 4 {
				if pd := c03PayTwice(s, payRng, p.Block.Timestamp, p.Miner); pd != nil {
					pending = pd
					res.Count("pay-twice-blocks")
				}
			}
		}
		for k, v := range s.Counts {
			res.CountN("gen:"+k, v)
		}
	}
	if rotationSeen > 0 {
		res.Note("c03-renewal-after-inblock-key-rotation: in a block [key-rotating revision of X; renewal of X] the renewal is judged against the pre-block parent element (DESIGN F8): see the distribution buckets for which signers ValidateBlock accepts")
	}
	if len(x.ops) > 0 {
		c.Compare(x.ops, x.outs)
	}
	res.Sample(map[string]any{"tamper_kinds": fw.SortedKeys(res.Distribution)})
}

// c03DistinctUCKeys: p is an unlock-conditions policy whose keys are pairwise distinct (a key listed twice can
// legitimately satisfy two of the required signatures on its own).
func c03DistinctUCKeys(p types.SpendPolicy) bool {
	uc, ok := p.Type.(types.PolicyTypeUnlockConditions)
	if !ok {
		return false
	}
	seen := map[string]bool{}
	for _, k := range uc.PublicKeys {
		id := string(k.Algorithm[:]) + string(k.Key)
		if seen[id] {
			return false
		}
		seen[id] = true
	}
	return true
}
