package props

// C14 — the statement-level oracle: an evaluator of the MEANING of a spend policy,
// written from the property text. It shares no code with core's Verify (it only
// reads the exported data types) and uses the standard library's ed25519 / sha256.
//
//   "A satisfied policy is accepted exactly when the policy's meaning holds for the
//    given height, median time, signature hash and witnesses: height and time locks
//    compare as specified, each public-key leaf consumes one valid signature and each
//    hash leaf one correct preimage in order, a threshold is met by exactly the
//    required number of revealed sub-policies with all others opaque, legacy unlock
//    conditions need the required count of distinct listed keys, and no witness is
//    left over."
//
// Verdicts are three-valued: where the statement is silent (entropy keys, signature
// order inside legacy unlock conditions, key types the code does not recognise,
// timestamps so large that time.Time arithmetic wraps) the oracle abstains and the
// case is compared between Go and the Lean model only.

import (
	"crypto/ed25519"
	"crypto/sha256"
	"sync"
	"time"

	"go.sia.tech/core/types"
)

type c14Verdict int

const (
	c14Reject c14Verdict = iota
	c14Accept
	c14Unspecified
)

func (v c14Verdict) String() string {
	return [...]string{"reject", "accept", "unspecified"}[v]
}

// the complexity limits named by the property (1024 sub-policies, 255 children)
const (
	c14MaxSub      = 1024
	c14MaxChildren = 255
)

type c14SigKey struct {
	k types.PublicKey
	h types.Hash256
	s types.Signature
}

var (
	c14OracleMu    sync.Mutex
	c14OracleCache = map[c14SigKey]bool{}
)

// signature validity, by the standard library (memoised: the same few keys and
// signatures recur)
func c14SigOK(k types.PublicKey, h types.Hash256, s types.Signature) bool {
	key := c14SigKey{k, h, s}
	c14OracleMu.Lock()
	v, ok := c14OracleCache[key]
	c14OracleMu.Unlock()
	if ok {
		return v
	}
	v = ed25519.Verify(ed25519.PublicKey(k[:]), h[:], s[:])
	c14OracleMu.Lock()
	if len(c14OracleCache) > 1<<20 {
		c14OracleCache = map[c14SigKey]bool{}
	}
	c14OracleCache[key] = v
	c14OracleMu.Unlock()
	return v
}

// times for which "after t" has its plain meaning (no int64 wrap inside time.Time)
func c14SaneTime(t int64) bool { return t > -(1<<61) && t < 1<<61 }

type c14Eval struct {
	s           *c14Scn
	sigs        []types.Signature
	pres        [][32]byte
	unspecified bool
}

// sat: does sub-policy p hold, consuming witnesses from the front in order?
func (e *c14Eval) sat(p types.SpendPolicy) bool {
	switch t := p.Type.(type) {
	case types.PolicyTypeAbove:
		return uint64(t) <= e.s.Height
	case types.PolicyTypeAfter:
		tt := timeOf(t)
		if !c14SaneTime(tt) || !c14SaneTime(e.s.Median) {
			e.unspecified = true
		}
		// strictly after, as instants: seconds first, then the nanoseconds of the median
		return tt < e.s.Median || (tt == e.s.Median && e.s.MedianNs > 0)
	case types.PolicyTypePublicKey:
		if len(e.sigs) == 0 {
			return false
		}
		sig := e.sigs[0]
		e.sigs = e.sigs[1:]
		return c14SigOK(types.PublicKey(t), e.s.SigH, sig)
	case types.PolicyTypeHash:
		if len(e.pres) == 0 {
			return false
		}
		pre := e.pres[0]
		e.pres = e.pres[1:]
		return sha256.Sum256(pre[:]) == [32]byte(t)
	case types.PolicyTypeThreshold:
		if len(t.Of) > c14MaxChildren {
			return false
		}
		revealed := 0
		for _, c := range t.Of {
			switch c.Type.(type) {
			case types.PolicyTypeOpaque:
				continue // not revealed
			case types.PolicyTypeUnlockConditions:
				return false // legacy unlock conditions are not sub-policies
			}
			revealed++
		}
		if revealed != int(t.N) {
			return false // exactly the required number revealed, all others opaque
		}
		for _, c := range t.Of {
			if _, opaque := c.Type.(types.PolicyTypeOpaque); opaque {
				continue
			}
			if !e.sat(c) {
				return false
			}
		}
		return true
	case types.PolicyTypeOpaque:
		return false
	case types.PolicyTypeUnlockConditions:
		return false // only meaningful at the root, handled by c14Meaning
	}
	return false
}

func timeOf(t types.PolicyTypeAfter) int64 { return time.Time(t).Unix() }

// number of sub-policies (every node except the root)
func c14SubPolicies(p types.SpendPolicy) (n int, tooWide bool) {
	if t, ok := p.Type.(types.PolicyTypeThreshold); ok {
		if len(t.Of) > c14MaxChildren {
			tooWide = true
		}
		n += len(t.Of)
		for _, c := range t.Of {
			m, w := c14SubPolicies(c)
			n += m
			tooWide = tooWide || w
			if n > 1<<22 {
				return
			}
		}
	}
	return
}

// c14Meaning is the oracle.
func c14Meaning(s *c14Scn) c14Verdict {
	if uc, ok := s.P.Type.(types.PolicyTypeUnlockConditions); ok {
		return c14MeaningUC(s, types.UnlockConditions(uc))
	}
	if n, wide := c14SubPolicies(s.P); n > c14MaxSub || wide {
		return c14Reject // complexity limits reject
	}
	e := &c14Eval{s: s, sigs: s.Sigs, pres: s.Pres}
	ok := e.sat(s.P) && len(e.sigs) == 0 && len(e.pres) == 0 // no witness left over
	if e.unspecified {
		return c14Unspecified
	}
	if ok {
		return c14Accept
	}
	return c14Reject
}

// Legacy unlock conditions: "need the required count of distinct listed keys".
//   must reject : height below the timelock; a preimage supplied; the number of signatures
//                 differs from the required count (need the required count, none left over);
//                 the signatures cannot be assigned to DISTINCT listed keys with every
//                 signature assigned to an ed25519 key valid under it (any order, other
//                 key types treated as accepting anything — an over-approximation);
//   must accept : the signatures are valid, in list order, for distinct listed ed25519 keys and
//                 no key of another type is listed before the last key used;
//   otherwise   : unspecified (order-dependent, unrecognised or entropy key types).
func c14MeaningUC(s *c14Scn, uc types.UnlockConditions) c14Verdict {
	if s.Height < uc.Timelock || len(s.Pres) > 0 || uint64(len(s.Sigs)) != uc.SignaturesRequired {
		return c14Reject
	}
	if uc.SignaturesRequired > uint64(len(uc.PublicKeys)) {
		return c14Reject // not enough distinct listed keys
	}
	// a key the statement lets us be strict about: ed25519 with a well-formed 32-byte key
	isEd := func(k types.UnlockKey) bool { return k.Algorithm == types.SpecifierEd25519 && len(k.Key) == 32 }
	accepts := func(ki, si int) bool {
		k := uc.PublicKeys[ki]
		if !isEd(k) {
			return true
		}
		var pk types.PublicKey
		copy(pk[:], k.Key)
		return c14SigOK(pk, s.SigH, s.Sigs[si])
	}
	// maximum bipartite matching signatures -> keys (Kuhn)
	matchKey := make([]int, len(uc.PublicKeys))
	for i := range matchKey {
		matchKey[i] = -1
	}
	var try func(si int, seen []bool) bool
	try = func(si int, seen []bool) bool {
		for ki := range uc.PublicKeys {
			if seen[ki] || !accepts(ki, si) {
				continue
			}
			seen[ki] = true
			if matchKey[ki] < 0 || try(matchKey[ki], seen) {
				matchKey[ki] = si
				return true
			}
		}
		return false
	}
	for si := range s.Sigs {
		if !try(si, make([]bool, len(uc.PublicKeys))) {
			return c14Reject
		}
	}
	// in-order assignment to ed25519 keys only: the required count of distinct listed keys have signed, in list order.
	// Keys of other types listed AFTER the last key used play no part in that (a 1-of-[ed25519, entropy] policy signed
	// by its first key, or any key list with zero required signatures, means "accept"); as soon as the walk would have
	// to pass a key of another type the statement is silent.
	ki := 0
	for si := range s.Sigs {
		for ki < len(uc.PublicKeys) && isEd(uc.PublicKeys[ki]) && !accepts(ki, si) {
			ki++
		}
		if ki == len(uc.PublicKeys) || !isEd(uc.PublicKeys[ki]) {
			return c14Unspecified // valid only out of order, or only through a key of another type
		}
		ki++
	}
	return c14Accept
}
