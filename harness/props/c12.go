package props

// C12 — IDs and sighashes bind exactly the effect-bearing content; block IDs bind all.
//
// Go side:
//  (a) Go vs model, byte for byte: transaction id, every derived id, every sighash of
//      the transactions of generated chains (all modes) and of reflection-built random
//      transactions; block ids, miner/foundation output ids, v1 Merkle root, v2 commitment;
//  (b) FIELD-MUTATION SWEEP (statement-level oracle): every leaf field of every transaction
//      mutated once: the id (and the input sighash) changes <=> the field is effect-bearing
//      according to the classification below, which is written from the property text;
//  (c) all ids derived in a block are pairwise distinct;
//  (d) block-content mutations with the header fields kept: ValidateBlock rejects or the
//      id differs; a v2 block is rejected on a parent state that differs in a committed field;
//  (e) the resolution-kind collision of the semantic encoding is replayed on every run.

import (
	"bytes"
	"encoding/hex"
	"encoding/json"
	"fmt"
	"math/rand"
	"reflect"
	"sort"
	"strings"
	"time"

	"go.sia.tech/core/consensus"
	"go.sia.tech/core/types"
	"verif/harness/internal/chain"
	"verif/harness/internal/fw"
)

func init() { fw.Register("C12", runC12) }

// ---------------------------------------------------------------- the classification (from the property text)

// c12EffectBearingV2: "IDs ... are unchanged when only v2 input witnesses, contract and
// renewal signatures, parent element contents other than their IDs, or Merkle proofs
// change"; every other field is effect-bearing. path = Go field path without indices.
func c12EffectBearingV2(path string) bool {
	switch {
	case strings.Contains(path, ".SatisfiedPolicy"): // v2 input witnesses
		return false
	case strings.Contains(path, ".Parent."): // parent element contents other than their IDs
		return strings.HasSuffix(path, ".Parent.ID")
	case strings.HasSuffix(path, ".RenterSignature") || strings.HasSuffix(path, ".HostSignature"): // contract and renewal signatures
		return false
	case strings.Contains(path, ".StateElement.MerkleProof"): // Merkle proofs (of state elements)
		return false
	}
	return true
}

// c12EffectBearingV1: "... unchanged when only v1 transaction signatures ... change".
func c12EffectBearingV1(path string) bool { return !strings.HasPrefix(path, "Signatures") }

// ---------------------------------------------------------------- reflection walk over leaf fields

type c12Leaf struct {
	path string
	kind string // value | len- | len+ | nil | set
}

var (
	c12tPolicy = reflect.TypeOf(types.SpendPolicy{})
)

// c12Walk visits every mutable leaf of v in a deterministic order; visit returns true
// to stop (after having mutated the leaf in place).
func c12Walk(v reflect.Value, path string, visit func(l c12Leaf, v reflect.Value) bool) bool {
	t := v.Type()
	if t == c12tPolicy {
		return visit(c12Leaf{path, "value"}, v)
	}
	switch t.Kind() {
	case reflect.Struct:
		for i := 0; i < t.NumField(); i++ {
			if !t.Field(i).IsExported() {
				continue
			}
			p := t.Field(i).Name
			if path != "" {
				p = path + "." + p
			}
			if c12Walk(v.Field(i), p, visit) {
				return true
			}
		}
	case reflect.Slice:
		if t.Elem().Kind() == reflect.Uint8 {
			return visit(c12Leaf{path, "value"}, v)
		}
		if visit(c12Leaf{path, "len+"}, v) {
			return true
		}
		if v.Len() > 0 && visit(c12Leaf{path, "len-"}, v) {
			return true
		}
		for i := 0; i < v.Len(); i++ {
			if c12Walk(v.Index(i), path, visit) {
				return true
			}
		}
	case reflect.Array:
		if t.Elem().Kind() == reflect.Uint8 {
			return visit(c12Leaf{path, "value"}, v)
		}
		for i := 0; i < v.Len(); i++ {
			if c12Walk(v.Index(i), path, visit) {
				return true
			}
		}
	case reflect.Ptr:
		if v.IsNil() {
			return visit(c12Leaf{path, "set"}, v)
		}
		if visit(c12Leaf{path, "nil"}, v) {
			return true
		}
		return c12Walk(v.Elem(), path, visit)
	case reflect.Interface:
		if v.IsNil() {
			return false
		}
		e := v.Elem() // pointer to the concrete resolution
		name := e.Type().String()
		name = name[strings.LastIndex(name, ".")+1:]
		return c12Walk(e.Elem(), path+"("+name+")", visit)
	case reflect.Uint64, reflect.Uint8, reflect.Bool, reflect.String, reflect.Int, reflect.Int64:
		return visit(c12Leaf{path, "value"}, v)
	default:
		panic("c12Walk: unhandled kind " + t.String())
	}
	return false
}

// c12MutateLeaf changes the leaf to a different value of its type.
func c12MutateLeaf(rng *rand.Rand, l c12Leaf, v reflect.Value) {
	t := v.Type()
	switch {
	case t == c12tPolicy:
		v.Set(reflect.ValueOf(types.PolicyAbove(uint64(rng.Int63()))))
	case l.kind == "len+":
		n := reflect.New(t.Elem()).Elem()
		if v.Len() > 0 {
			c11DeepCopy(n, v.Index(v.Len()-1))
		} else {
			(&c11Gen{rng: rng}).fill(n, 2)
		}
		v.Set(reflect.Append(v, n))
	case l.kind == "len-":
		v.Set(v.Slice(0, v.Len()-1))
	case l.kind == "nil":
		v.Set(reflect.Zero(t))
	case l.kind == "set":
		p := reflect.New(t.Elem())
		if p.Elem().Kind() == reflect.Array {
			p.Elem().Index(0).SetUint(1)
		}
		v.Set(p)
	case t.Kind() == reflect.Slice: // []byte
		b := append([]byte(nil), v.Bytes()...)
		if len(b) == 0 || rng.Intn(4) == 0 {
			b = append(b, byte(rng.Intn(256)))
		} else {
			b[rng.Intn(len(b))] ^= 1 << uint(rng.Intn(8))
		}
		v.SetBytes(b)
	case t.Kind() == reflect.Array:
		i := rng.Intn(v.Len())
		v.Index(i).SetUint(v.Index(i).Uint() ^ (1 << uint(rng.Intn(8))))
	case t.Kind() == reflect.Uint64:
		v.SetUint(v.Uint() ^ (1 << uint(rng.Intn(64))))
	case t.Kind() == reflect.Uint8:
		v.SetUint(v.Uint() ^ (1 << uint(rng.Intn(8))))
	case t.Kind() == reflect.Bool:
		v.SetBool(!v.Bool())
	case t.Kind() == reflect.String:
		v.SetString(v.String() + "x")
	default:
		panic("c12MutateLeaf: unhandled " + t.String())
	}
}

func c12Leaves(v reflect.Value) []c12Leaf {
	var out []c12Leaf
	c12Walk(v, "", func(l c12Leaf, _ reflect.Value) bool { out = append(out, l); return false })
	return out
}

// c12MutateNth mutates the n-th leaf of v (addressable) in place.
func c12MutateNth(rng *rand.Rand, v reflect.Value, n int) {
	k := 0
	c12Walk(v, "", func(l c12Leaf, lv reflect.Value) bool {
		if k == n {
			c12MutateLeaf(rng, l, lv)
			return true
		}
		k++
		return false
	})
}

func c12CopyV2(t types.V2Transaction) types.V2Transaction {
	var out types.V2Transaction
	c11DeepCopy(reflect.ValueOf(&out).Elem(), reflect.ValueOf(&t).Elem())
	return out
}

func c12CopyV1(t types.Transaction) types.Transaction {
	var out types.Transaction
	c11DeepCopy(reflect.ValueOf(&out).Elem(), reflect.ValueOf(&t).Elem())
	return out
}

// ---------------------------------------------------------------- Go's answers in the driver's line format

func c12Hex(b []byte) string {
	if len(b) == 0 {
		return "-"
	}
	return fw.Hex(b)
}

func c12Join(xs []string, sep string) string {
	if len(xs) == 0 {
		return "-"
	}
	return strings.Join(xs, sep)
}

func c12H(h [32]byte) string { return fw.Hex(h[:]) }

func c12V2Line(cs consensus.State, t types.V2Transaction) string {
	txid := t.ID()
	var sc, sf, fc, att, claim, res, fcsig, revsig, rensig, attsig []string
	for i := range t.SiacoinOutputs {
		sc = append(sc, c12H(t.SiacoinOutputID(txid, i)))
	}
	for i := range t.SiafundOutputs {
		sf = append(sf, c12H(t.SiafundOutputID(txid, i)))
	}
	for i := range t.FileContracts {
		fc = append(fc, c12H(t.V2FileContractID(txid, i)))
		fcsig = append(fcsig, c12H(cs.ContractSigHash(t.FileContracts[i])))
	}
	for i := range t.Attestations {
		att = append(att, c12H(t.AttestationID(txid, i)))
		attsig = append(attsig, c12H(cs.AttestationSigHash(t.Attestations[i])))
	}
	for _, in := range t.SiafundInputs {
		claim = append(claim, c12H(in.Parent.ID.V2ClaimOutputID()))
	}
	for _, r := range t.FileContractRevisions {
		revsig = append(revsig, c12H(cs.ContractSigHash(r.Revision)))
	}
	for _, r := range t.FileContractResolutions {
		res = append(res, c12H(r.Parent.ID.V2RenterOutputID())+":"+c12H(r.Parent.ID.V2HostOutputID())+":"+c12H(r.Parent.ID.V2RenewalID()))
		if rn, ok := r.Resolution.(*types.V2FileContractRenewal); ok {
			rensig = append(rensig, c12H(cs.RenewalSigHash(*rn))+":"+c12H(cs.ContractSigHash(rn.NewContract)))
		} else {
			rensig = append(rensig, "x")
		}
	}
	return fmt.Sprintf("ok wf=1 txid=%s input=%s sc=%s sf=%s fc=%s att=%s claim=%s res=%s fcsig=%s revsig=%s rensig=%s attsig=%s",
		c12H(txid), c12H(cs.InputSigHash(t)), c12Join(sc, ","), c12Join(sf, ","), c12Join(fc, ","), c12Join(att, ","), c12Join(claim, ","),
		c12Join(res, ","), c12Join(fcsig, ","), c12Join(revsig, ","), c12Join(rensig, ","), c12Join(attsig, ","))
}

func c12V1Line(t types.Transaction) string {
	var sc, sf, fc, claim, fcout []string
	for i := range t.SiacoinOutputs {
		sc = append(sc, c12H(t.SiacoinOutputID(i)))
	}
	for i := range t.SiafundOutputs {
		sf = append(sf, c12H(t.SiafundOutputID(i)))
		claim = append(claim, c12H(t.SiafundClaimOutputID(i)))
	}
	for i, c := range t.FileContracts {
		id := t.FileContractID(i)
		fc = append(fc, c12H(id))
		var v, m []string
		for k := range c.ValidProofOutputs {
			v = append(v, c12H(id.ValidOutputID(k)))
		}
		for k := range c.MissedProofOutputs {
			m = append(m, c12H(id.MissedOutputID(k)))
		}
		fcout = append(fcout, c12Join(v, ",")+"|"+c12Join(m, ","))
	}
	return fmt.Sprintf("ok wf=1 txid=%s sc=%s sf=%s fc=%s sfclaim=%s fcout=%s", c12H(t.ID()), c12Join(sc, ","), c12Join(sf, ","), c12Join(fc, ","), c12Join(claim, ","), c12Join(fcout, ";"))
}

// c12EraPrefix: the replay prefix of the era of the parent state, from the statement
// ("signature hashes additionally bind the hardfork replay prefix of their era").
func c12EraPrefix(cs consensus.State) []byte {
	h, n := cs.Index.Height, cs.Network
	switch {
	case h >= n.HardforkV2.AllowHeight:
		return []byte{2}
	case h >= n.HardforkFoundation.Height:
		return []byte{1}
	case h >= n.HardforkASIC.Height:
		return []byte{0}
	}
	return nil
}

func c12SigV1Line(cs consensus.State, t types.Transaction) string {
	var outs []string
	for _, sig := range t.Signatures {
		var h types.Hash256
		panicked, _ := fw.Recover(func() {
			if sig.CoveredFields.WholeTransaction {
				h = cs.WholeSigHash(t, sig.ParentID, sig.PublicKeyIndex, sig.Timelock, sig.CoveredFields.Signatures)
			} else {
				h = cs.PartialSigHash(t, sig.CoveredFields)
			}
		})
		if panicked {
			outs = append(outs, "panic")
		} else {
			outs = append(outs, c12H(h))
		}
	}
	return "ok " + c12Join(outs, ",")
}

// ---------------------------------------------------------------- replay eras (statement-level, on the real functions)

var c12Eras = []string{"pre-asic", "asic", "foundation", "v2"}

// c12EraStates: four parent states of one height, one in each replay era (the hardfork heights are
// placed around the height), on otherwise identical networks.
func c12EraStates(h uint64) []consensus.State {
	mk := func(asic, foundation, v2 uint64) consensus.State {
		n := &consensus.Network{}
		n.HardforkASIC.Height, n.HardforkFoundation.Height, n.HardforkV2.AllowHeight = asic, foundation, v2
		cs := consensus.State{Network: n}
		cs.Index.Height = h
		return cs
	}
	return []consensus.State{mk(h+1, h+2, h+3), mk(h, h+1, h+2), mk(h-1, h, h+1), mk(h-2, h-1, h)}
}

// eraOracle: "signature hashes additionally bind the hardfork replay prefix of their era ... so a
// signature cannot be replayed across eras": the whole / partial sighash of every signature that
// covers at least one siacoin or siafund input (the prefix is written next to each input) must be
// different in every pair of eras. Ids must not depend on the era; v2 sighashes have a single era.
func (x *c12Ctx) eraOracle(t types.Transaction, origin string) {
	res := x.c.Res
	states := c12EraStates(10 + uint64(x.rng.Intn(1000)))
	for k, sig := range t.Signatures {
		covers := len(t.SiacoinInputs)+len(t.SiafundInputs) > 0
		if !sig.CoveredFields.WholeTransaction {
			covers = len(sig.CoveredFields.SiacoinInputs)+len(sig.CoveredFields.SiafundInputs) > 0
		}
		var hs [4]types.Hash256
		ok := true
		for e, cs := range states {
			panicked, _ := fw.Recover(func() {
				if sig.CoveredFields.WholeTransaction {
					hs[e] = cs.WholeSigHash(t, sig.ParentID, sig.PublicKeyIndex, sig.Timelock, sig.CoveredFields.Signatures)
				} else {
					hs[e] = cs.PartialSigHash(t, sig.CoveredFields)
				}
			})
			ok = ok && !panicked
		}
		if !ok {
			res.Count("era-oracle:sighash-panics")
			continue
		}
		if !covers {
			res.Count("era-oracle:no-input-covered")
			continue
		}
		res.Eval(fmt.Sprintf("era/%s/%d", origin, k), true)
		if sig.CoveredFields.WholeTransaction {
			res.Count("era-oracle:checked-whole")
		} else {
			res.Count("era-oracle:checked-partial")
		}
		for a := 0; a < 4; a++ {
			for b := a + 1; b < 4; b++ {
				if hs[a] == hs[b] {
					res.Violate(fw.Violation{Key: "c12-sighash-era-collision:" + c12Eras[a] + "-" + c12Eras[b],
						What:     "a v1 signature hash covering an input is the same in the " + c12Eras[a] + " and the " + c12Eras[b] + " replay era: a signature can be replayed across the hardfork",
						Replay:   map[string]any{"origin": origin, "txn": fw.Hex(chain.Encode(t)), "signature": k, "whole": sig.CoveredFields.WholeTransaction, "height": states[0].Index.Height, "sighash": c12H(hs[a])},
						Expected: "different signature hashes", Observed: "equal: " + c12H(hs[a])})
				}
			}
		}
	}
}

// eraOracleV2: v2 sighashes carry the single v2 replay prefix: they must not depend on the v1 era of
// the state (recorded), and ids never depend on a state at all.
func (x *c12Ctx) eraOracleV2(t types.V2Transaction, origin string) {
	res := x.c.Res
	states := c12EraStates(10 + uint64(x.rng.Intn(1000)))
	h0 := states[0].InputSigHash(t)
	for e := 1; e < 4; e++ {
		if states[e].InputSigHash(t) != h0 {
			res.Count("era-oracle:v2-input-sighash-depends-on-v1-era")
			res.Violate(fw.Violation{Key: "c12-v2-sighash-depends-on-v1-era", What: "InputSigHash differs between states that differ only in the v1 replay era", Replay: map[string]any{"origin": origin, "txn": fw.Hex(chain.Encode(t))}})
		}
	}
	res.Count("era-oracle:v2-single-era-checked")
}

// ---------------------------------------------------------------- derived ids under mutation (statement-level, real functions)

// c12DerivedV1 / c12DerivedV2: every id derived from a transaction, keyed "<idkind>/<index…>".
func c12DerivedV1(t types.Transaction) map[string][32]byte {
	ids := map[string][32]byte{}
	for i := range t.SiacoinOutputs {
		ids[fmt.Sprintf("siacoin-output/%d", i)] = t.SiacoinOutputID(i)
	}
	for i := range t.SiafundOutputs {
		ids[fmt.Sprintf("siafund-output/%d", i)] = t.SiafundOutputID(i)
		ids[fmt.Sprintf("siafund-claim-output/%d", i)] = t.SiafundClaimOutputID(i)
	}
	for i, c := range t.FileContracts {
		id := t.FileContractID(i)
		ids[fmt.Sprintf("file-contract/%d", i)] = id
		for k := range c.ValidProofOutputs {
			ids[fmt.Sprintf("contract-valid-output/%d/%d", i, k)] = id.ValidOutputID(k)
		}
		for k := range c.MissedProofOutputs {
			ids[fmt.Sprintf("contract-missed-output/%d/%d", i, k)] = id.MissedOutputID(k)
		}
	}
	return ids
}

func c12DerivedV2(t types.V2Transaction) map[string][32]byte {
	ids := map[string][32]byte{}
	txid := t.ID()
	for i := range t.SiacoinOutputs {
		ids[fmt.Sprintf("v2-siacoin-output/%d", i)] = t.SiacoinOutputID(txid, i)
		// the element a later transaction of the same block spends ephemerally carries this id
		e := t.EphemeralSiacoinOutput(i)
		ids[fmt.Sprintf("v2-ephemeral-siacoin-element/%d", i)] = e.ID
	}
	for i := range t.SiafundOutputs {
		ids[fmt.Sprintf("v2-siafund-output/%d", i)] = t.SiafundOutputID(txid, i)
		ids[fmt.Sprintf("v2-ephemeral-siafund-element/%d", i)] = t.EphemeralSiafundOutput(i).ID
	}
	for i := range t.FileContracts {
		ids[fmt.Sprintf("v2-file-contract/%d", i)] = t.V2FileContractID(txid, i)
	}
	for i := range t.Attestations {
		ids[fmt.Sprintf("v2-attestation/%d", i)] = t.AttestationID(txid, i)
	}
	return ids
}

// derivedOracle: every derived id present before and after a mutation must be unchanged when the mutated
// field is not effect-bearing and changed when it is. skipEffect: the transaction id itself did not react
// to an effect-bearing field (already reported under its own key): the ids derived from it are not reported again.
func (x *c12Ctx) derivedOracle(d0, dm map[string][32]byte, want, skipEffect bool, path, name string, rp map[string]any) {
	res := x.c.Res
	var keys []string
	for k := range d0 {
		if _, ok := dm[k]; ok {
			keys = append(keys, k)
		}
	}
	sort.Strings(keys)
	for _, k := range keys {
		kind := k[:strings.Index(k, "/")]
		changed := d0[k] != dm[k]
		res.Count("derived-oracle:" + kind)
		switch {
		case !want && changed:
			res.Violate(fw.Violation{Key: "c12-derived-id-depends-on-noneffect:" + kind + ":" + name, What: "the derived id " + k + " changed when only " + name + " (not effect-bearing) was changed", Replay: rp, Expected: "same id", Observed: "different id"})
		case want && !changed && !skipEffect:
			res.Violate(fw.Violation{Key: "c12-derived-id-ignores-effect:" + kind + ":" + path, What: "the derived id " + k + " did not change when the effect-bearing field " + name + " was changed", Replay: rp, Expected: "different id", Observed: "same id"})
		}
	}
}

// ---------------------------------------------------------------- the sweep

type c12Ctx struct {
	c    *fw.Ctx
	rng  *rand.Rand
	ops  []string
	outs []string
	seen map[string]bool
	// every cmpEvery-th mutation is also classified by the model
	cmpEvery, cmpN int
	collisionReplay map[string]any
}

func (x *c12Ctx) op(line, want string) {
	if x.c.Model == nil {
		return
	}
	x.ops = append(x.ops, line)
	x.outs = append(x.outs, want)
}

func (x *c12Ctx) compareV2(cs consensus.State, t types.V2Transaction) {
	x.eraOracleV2(t, "txn")
	x.op("ids-v2 "+c12Hex(chain.Encode(t)), c12V2Line(cs, t))
}

func (x *c12Ctx) compareV1(cs consensus.State, t types.Transaction) {
	x.eraOracle(t, "txn")
	enc := c12Hex(chain.Encode(t))
	x.op("ids-v1 "+enc, c12V1Line(t))
	if len(t.Signatures) > 0 {
		x.op("sighash-v1 "+c12Hex(c12EraPrefix(cs))+" "+enc, c12SigV1Line(cs, t))
	}
}

func c12SameKinds(a, b types.V2Transaction) bool {
	if len(a.FileContractResolutions) != len(b.FileContractResolutions) {
		return false
	}
	for i := range a.FileContractResolutions {
		if reflect.TypeOf(a.FileContractResolutions[i].Resolution) != reflect.TypeOf(b.FileContractResolutions[i].Resolution) {
			return false
		}
	}
	return true
}

// sweepV2 mutates every leaf of t once; origin is recorded in the replay.
func (x *c12Ctx) sweepV2(cs consensus.State, t types.V2Transaction, origin string, maxLeaves int) {
	res := x.c.Res
	id0, sh0 := t.ID(), cs.InputSigHash(t)
	d0 := c12DerivedV2(t)
	leaves := c12Leaves(reflect.ValueOf(&t).Elem())
	idx := x.rng.Perm(len(leaves))
	if maxLeaves > 0 && len(idx) > maxLeaves {
		idx = idx[:maxLeaves]
	}
	for _, n := range idx {
		l := leaves[n]
		m := c12CopyV2(t)
		c12MutateNth(x.rng, reflect.ValueOf(&m).Elem(), n)
		if bytes.Equal(chain.Encode(m), chain.Encode(t)) {
			res.Count("sweep-v2:mutation-without-effect-on-encoding")
			continue
		}
		want := c12EffectBearingV2(l.path)
		idChanged, shChanged := m.ID() != id0, cs.InputSigHash(m) != sh0
		if x.cmpEvery > 0 && x.cmpN%x.cmpEvery == 0 {
			// the Lean specification `strip` must classify this mutation like the table above (two
			// independent readings of the property text), and the model must predict the id's behaviour
			b2 := func(b bool) string {
				if b {
					return "1"
				}
				return "0"
			}
			x.op("cmp-v2 "+c12Hex(chain.Encode(t))+" "+c12Hex(chain.Encode(m)), "strip="+b2(!want)+" code="+b2(!idChanged)+" kinds="+b2(c12SameKinds(t, m))+" sem="+b2(!idChanged))
		}
		x.cmpN++
		name := l.path
		if l.kind != "value" {
			name += "#" + l.kind
		}
		res.Eval("v2/"+origin+"/"+name, true)
		if want {
			res.Count("sweep-v2:effect-bearing")
		} else {
			res.Count("sweep-v2:not-effect-bearing")
		}
		if !x.seen["v2:"+name] {
			x.seen["v2:"+name] = true
			res.Count("sweep-v2-distinct-fields")
		}
		rp := map[string]any{"origin": origin, "field": name, "txn": fw.Hex(chain.Encode(t)), "mutant": fw.Hex(chain.Encode(m))}
		switch {
		case want && !idChanged:
			res.Violate(fw.Violation{Key: "c12-id-ignores-effect-field:" + l.path, What: "the v2 transaction id did not change when the effect-bearing field " + name + " was changed", Replay: rp, Expected: "different id", Observed: "same id " + c12H(id0)})
		case !want && idChanged:
			res.Violate(fw.Violation{Key: "c12-id-depends-on-noneffect-field:" + l.path, What: "the v2 transaction id changed when only " + name + " (not effect-bearing) was changed", Replay: rp, Expected: "same id", Observed: "different id"})
		}
		switch {
		case want && !shChanged:
			res.Violate(fw.Violation{Key: "c12-sighash-ignores-effect-field:" + l.path, What: "the v2 input sighash did not change when the effect-bearing field " + name + " was changed", Replay: rp, Expected: "different sighash", Observed: "same sighash"})
		case !want && shChanged:
			res.Violate(fw.Violation{Key: "c12-sighash-depends-on-noneffect-field:" + l.path, What: "the v2 input sighash changed when only " + name + " (not effect-bearing) was changed", Replay: rp, Expected: "same sighash", Observed: "different sighash"})
		}
		// every derived id reacts exactly like the specification says
		x.derivedOracle(d0, c12DerivedV2(m), want, want && !idChanged, l.path, name, rp)
	}
}

func (x *c12Ctx) sweepV1(t types.Transaction, origin string, maxLeaves int) {
	res := x.c.Res
	id0 := t.ID()
	d0 := c12DerivedV1(t)
	if len(t.Signatures) > 0 { // all signatures dropped at once
		m := c12CopyV1(t)
		m.Signatures = nil
		x.derivedOracle(d0, c12DerivedV1(m), false, false, "Signatures", "Signatures#drop-all", map[string]any{"origin": origin, "field": "Signatures#drop-all", "txn": fw.Hex(chain.Encode(t)), "mutant": fw.Hex(chain.Encode(m))})
		if m.ID() != id0 {
			res.Violate(fw.Violation{Key: "c12-id-depends-on-noneffect-field:v1.Signatures", What: "the v1 transaction id changed when all signatures were dropped", Replay: map[string]any{"origin": origin, "field": "Signatures#drop-all", "txn": fw.Hex(chain.Encode(t)), "mutant": fw.Hex(chain.Encode(m))}})
		}
	}
	leaves := c12Leaves(reflect.ValueOf(&t).Elem())
	idx := x.rng.Perm(len(leaves))
	if maxLeaves > 0 && len(idx) > maxLeaves {
		idx = idx[:maxLeaves]
	}
	for _, n := range idx {
		l := leaves[n]
		m := c12CopyV1(t)
		c12MutateNth(x.rng, reflect.ValueOf(&m).Elem(), n)
		if bytes.Equal(chain.Encode(m), chain.Encode(t)) {
			res.Count("sweep-v1:mutation-without-effect-on-encoding")
			continue
		}
		want := c12EffectBearingV1(l.path)
		idChanged := m.ID() != id0
		name := l.path
		if l.kind != "value" {
			name += "#" + l.kind
		}
		res.Eval("v1/"+origin+"/"+name, true)
		if want {
			res.Count("sweep-v1:effect-bearing")
		} else {
			res.Count("sweep-v1:not-effect-bearing")
		}
		if !x.seen["v1:"+name] {
			x.seen["v1:"+name] = true
			res.Count("sweep-v1-distinct-fields")
		}
		rp := map[string]any{"origin": origin, "field": name, "txn": fw.Hex(chain.Encode(t)), "mutant": fw.Hex(chain.Encode(m))}
		switch {
		case want && !idChanged:
			res.Violate(fw.Violation{Key: "c12-id-ignores-effect-field:v1." + l.path, What: "the v1 transaction id did not change when the effect-bearing field " + name + " was changed", Replay: rp, Expected: "different id", Observed: "same id"})
		case !want && idChanged:
			res.Violate(fw.Violation{Key: "c12-id-depends-on-noneffect-field:v1." + l.path, What: "the v1 transaction id changed when only " + name + " was changed", Replay: rp, Expected: "same id", Observed: "different id"})
		}
		// every derived id reacts exactly like the specification says
		x.derivedOracle(d0, c12DerivedV1(m), want, want && !idChanged, l.path, name, rp)
	}
}

// ---------------------------------------------------------------- distinctness of the ids of a block

func c12BlockIDs(b types.Block) map[string][32]byte {
	ids := map[string][32]byte{}
	bid := b.ID()
	ids["block"] = bid
	for i := range b.MinerPayouts {
		ids[fmt.Sprintf("miner/%d", i)] = bid.MinerOutputID(i)
	}
	ids["foundation"] = bid.FoundationOutputID()
	for j, t := range b.Transactions {
		p := fmt.Sprintf("v1[%d]", j)
		ids[p+"/txid"] = t.ID()
		for i := range t.SiacoinOutputs {
			ids[fmt.Sprintf("%s/sc/%d", p, i)] = t.SiacoinOutputID(i)
		}
		for i := range t.SiafundOutputs {
			ids[fmt.Sprintf("%s/sf/%d", p, i)] = t.SiafundOutputID(i)
			// Transaction.SiafundClaimOutputID(i) IS SiafundOutputID(i).ClaimOutputID(): the claim paid when that output is
			// spent — the same derivation as the "claim/<parent>" entry of a later input spending it (possibly in this block)
			ids[fmt.Sprintf("claim/%x", t.SiafundOutputID(i))] = t.SiafundClaimOutputID(i)
		}
		for _, in := range t.SiafundInputs {
			ids[fmt.Sprintf("claim/%x", in.ParentID)] = in.ParentID.ClaimOutputID()
		}
		for i, c := range t.FileContracts {
			id := t.FileContractID(i)
			ids[fmt.Sprintf("%s/fc/%d", p, i)] = id
			for k := range c.ValidProofOutputs {
				ids[fmt.Sprintf("%s/fc/%d/valid/%d", p, i, k)] = id.ValidOutputID(k)
			}
			for k := range c.MissedProofOutputs {
				ids[fmt.Sprintf("%s/fc/%d/missed/%d", p, i, k)] = id.MissedOutputID(k)
			}
		}
	}
	for j, t := range b.V2Transactions() {
		p := fmt.Sprintf("v2[%d]", j)
		txid := t.ID()
		ids[p+"/txid"] = txid
		for i := range t.SiacoinOutputs {
			ids[fmt.Sprintf("%s/sc/%d", p, i)] = t.SiacoinOutputID(txid, i)
		}
		for i := range t.SiafundOutputs {
			ids[fmt.Sprintf("%s/sf/%d", p, i)] = t.SiafundOutputID(txid, i)
		}
		for i := range t.FileContracts {
			ids[fmt.Sprintf("%s/fc/%d", p, i)] = t.V2FileContractID(txid, i)
		}
		for i := range t.Attestations {
			ids[fmt.Sprintf("%s/att/%d", p, i)] = t.AttestationID(txid, i)
		}
		for _, in := range t.SiafundInputs {
			ids[fmt.Sprintf("v2claim/%x", in.Parent.ID)] = in.Parent.ID.V2ClaimOutputID()
		}
		for _, r := range t.FileContractResolutions {
			ids[fmt.Sprintf("renter/%x", r.Parent.ID)] = r.Parent.ID.V2RenterOutputID()
			ids[fmt.Sprintf("host/%x", r.Parent.ID)] = r.Parent.ID.V2HostOutputID()
			ids[fmt.Sprintf("renewal/%x", r.Parent.ID)] = r.Parent.ID.V2RenewalID()
		}
		ids[p+"/sighash"] = consensus.State{}.InputSigHash(t)
	}
	return ids
}

func (x *c12Ctx) distinct(b types.Block, rp any) {
	res := x.c.Res
	ids := c12BlockIDs(b)
	rev := map[[32]byte]string{}
	var keys []string
	for k := range ids {
		keys = append(keys, k)
	}
	sort.Strings(keys)
	for _, k := range keys {
		id := ids[k]
		if o, dup := rev[id]; dup {
			res.Violate(fw.Violation{Key: "c12-derived-id-collision", What: "two different derivations of one block yield the same id: " + o + " and " + k, Replay: rp, Expected: "distinct ids", Observed: c12H(id)})
		}
		rev[id] = k
	}
	res.CountN("distinct-ids-checked", len(ids))
}

// ---------------------------------------------------------------- block-content mutations

func c12CopyBlock(b types.Block) types.Block {
	var out types.Block
	c11DeepCopy(reflect.ValueOf(&out).Elem(), reflect.ValueOf(&b).Elem())
	return out
}

func c12IsHeaderField(path string) bool {
	return path == "ParentID" || path == "Nonce" || path == "Timestamp" || path == "V2.Commitment"
}

func (x *c12Ctx) blockMutations(s *chain.Sim, p chain.BlockPlan, rp map[string]any, max int) {
	res := x.c.Res
	b := p.Block
	id0 := b.ID()
	// time.Time is not walked: the block timestamp is a header field
	type bview struct {
		MinerPayouts []types.SiacoinOutput
		Transactions []types.Transaction
		V2           *types.V2BlockData
	}
	view := func(b *types.Block) *bview { return &bview{b.MinerPayouts, b.Transactions, b.V2} }
	leaves := c12Leaves(reflect.ValueOf(view(&b)).Elem())
	idx := x.rng.Perm(len(leaves))
	done := 0
	for _, n := range idx {
		if done >= max {
			break
		}
		l := leaves[n]
		if c12IsHeaderField(l.path) || l.path == "V2" {
			continue
		}
		m := c12CopyBlock(b)
		mv := view(&m)
		c12MutateNth(x.rng, reflect.ValueOf(mv).Elem(), n)
		m.MinerPayouts, m.Transactions, m.V2 = mv.MinerPayouts, mv.Transactions, mv.V2
		if bytes.Equal(chain.Encode(types.V2Block(m)), chain.Encode(types.V2Block(b))) {
			continue
		}
		done++
		name := l.path
		if l.kind != "value" {
			name += "#" + l.kind
		}
		res.Eval(fmt.Sprintf("block/%v/%s", rp["height"], name), true)
		if m.ID() != id0 {
			res.Count("block-mutation:id-differs")
			continue
		}
		var err error
		panicked, msg := fw.Recover(func() { err = consensus.ValidateBlock(s.Tip, m, p.Supp) })
		switch {
		case panicked:
			res.Count("block-mutation:same-id-panic")
			res.Violate(fw.Violation{Key: "c10-validate-panic:block-mutation", What: "ValidateBlock panicked on a mutated block: " + msg, Replay: rp})
		case err == nil:
			r2 := map[string]any{"field": name, "block": fw.Hex(chain.Encode(types.V2Block(b))), "mutant": fw.Hex(chain.Encode(types.V2Block(m)))}
			for k, v := range rp {
				r2[k] = v
			}
			res.Violate(fw.Violation{Key: "c12-block-mutation-accepted", What: "a block whose content (" + name + ") was changed keeps its id and is accepted", Replay: r2, Expected: "rejected or different id", Observed: "accepted, id " + c12H(id0)})
		default:
			res.Count("block-mutation:same-id-rejected")
		}
	}
	// a v2 block commits to the parent state: validate it against a state that differs in one committed field
	if b.V2 != nil {
		for k, mut := range []func(cs *consensus.State){
			func(cs *consensus.State) { cs.Attestations++ },
			func(cs *consensus.State) { cs.SiafundTaxRevenue = cs.SiafundTaxRevenue.Add(types.NewCurrency64(1)) },
			func(cs *consensus.State) { cs.FoundationSubsidyAddress[5] ^= 1 },
			func(cs *consensus.State) { // a tree root that exists (unused slots are not part of the state)
				for h := 0; h < 64; h++ {
					if cs.Elements.NumLeaves&(1<<uint(h)) != 0 {
						cs.Elements.Trees[h][0] ^= 1
						return
					}
				}
				cs.Attestations += 2
			},
		} {
			cs := s.Tip
			mut(&cs)
			var err error
			panicked, _ := fw.Recover(func() { err = consensus.ValidateBlock(cs, b, p.Supp) })
			res.Eval(fmt.Sprintf("block-state/%v/%d", rp["height"], k), true)
			if !panicked && err == nil {
				res.Violate(fw.Violation{Key: "c12-block-mutation-accepted:parent-state", What: fmt.Sprintf("a v2 block is accepted on a parent state that differs from the one it committed to (state mutation %d)", k), Replay: rp, Expected: "rejected", Observed: "accepted"})
			} else {
				res.Count("block-mutation:parent-state-rejected")
			}
		}
	}
}

// ---------------------------------------------------------------- the commitment binds the transaction lists

// commitmentMutations: oracle on the real functions. "A block's id binds its entire content": the v2
// commitment (State.Commitment) and the v1 Merkle root (Block.Header().Commitment of a v1 block) must
// change when two transactions are swapped, the last one is dropped, one is duplicated, or a transaction
// is moved from the v1 list to the v2 list (re-expressed as a v2 transaction with the same outputs,
// arbitrary data and fee) or from the v2 list to the front of it / the miner address changes.
func (x *c12Ctx) commitmentMutations(cs consensus.State, p chain.BlockPlan, rp map[string]any) {
	res := x.c.Res
	b := p.Block
	v1, v2 := b.Transactions, b.V2Transactions()
	check := func(mutation string, c0, c1 types.Hash256, same bool) {
		res.Eval(fmt.Sprintf("commitment/%v/%v/%s", rp["seed"], rp["height"], mutation), true)
		if same {
			res.Count("commitment-mutation:" + mutation + ":no-op")
			return
		}
		res.Count("commitment-mutation:" + mutation)
		if c0 == c1 {
			r2 := map[string]any{"mutation": mutation, "block": fw.Hex(chain.Encode(types.V2Block(b)))}
			for k, v := range rp {
				r2[k] = v
			}
			res.Violate(fw.Violation{Key: "c12-commitment-ignores:" + mutation, What: "the block commitment / Merkle root does not change under: " + mutation, Replay: r2, Expected: "different commitment", Observed: "same commitment " + c12H(c0)})
		}
	}
	encEq := func(a, b types.EncoderTo) bool { return bytes.Equal(chain.Encode(a), chain.Encode(b)) }
	if b.V2 != nil {
		commit := func(t1 []types.Transaction, t2 []types.V2Transaction) types.Hash256 { return cs.Commitment(p.Miner, t1, t2) }
		c0 := commit(v1, v2)
		if len(v2) >= 2 {
			i := x.rng.Intn(len(v2) - 1)
			m := append([]types.V2Transaction(nil), v2...)
			m[i], m[i+1] = m[i+1], m[i]
			check("swap-v2", c0, commit(v1, m), encEq(v2[i], v2[i+1]))
		}
		if len(v2) >= 1 {
			check("drop-last-v2", c0, commit(v1, v2[:len(v2)-1]), false)
			i := x.rng.Intn(len(v2))
			m := append(append([]types.V2Transaction(nil), v2[:i+1]...), v2[i:]...)
			check("duplicate-v2", c0, commit(v1, m), false)
		}
		if len(v1) >= 2 {
			i := x.rng.Intn(len(v1) - 1)
			m := append([]types.Transaction(nil), v1...)
			m[i], m[i+1] = m[i+1], m[i]
			check("swap-v1", c0, commit(m, v2), encEq(v1[i], v1[i+1]))
		}
		if len(v1) >= 1 {
			check("drop-last-v1", c0, commit(v1[:len(v1)-1], v2), false)
			i := x.rng.Intn(len(v1))
			m := append(append([]types.Transaction(nil), v1[:i+1]...), v1[i:]...)
			check("duplicate-v1", c0, commit(m, v2), false)
			// the last v1 transaction leaves the v1 list and is appended to the v2 list as a v2 transaction
			t := v1[len(v1)-1]
			var mv types.V2Transaction
			mv.SiacoinOutputs, mv.SiafundOutputs = t.SiacoinOutputs, t.SiafundOutputs
			for _, a := range t.ArbitraryData {
				mv.ArbitraryData = append(mv.ArbitraryData, a...)
			}
			for _, f := range t.MinerFees {
				mv.MinerFee = mv.MinerFee.Add(f)
			}
			check("move-v1-to-v2", c0, commit(v1[:len(v1)-1], append(append([]types.V2Transaction(nil), v2...), mv)), false)
		}
		if len(v1) >= 1 && len(v2) >= 1 {
			// the boundary between the two lists moves while the sequence of leaves keeps its length
			check("drop-last-v1+duplicate-first-v2", c0, commit(v1[:len(v1)-1], append([]types.V2Transaction{v2[0]}, v2...)), false)
		}
		other := p.Miner
		other[x.rng.Intn(32)] ^= 1
		check("miner-address", c0, cs.Commitment(other, v1, v2), false)
	} else {
		root := func(pay []types.SiacoinOutput, t []types.Transaction) types.Hash256 {
			bb := types.Block{ParentID: b.ParentID, Nonce: b.Nonce, Timestamp: b.Timestamp, MinerPayouts: pay, Transactions: t}
			return bb.Header().Commitment
		}
		c0 := root(b.MinerPayouts, v1)
		if len(v1) >= 2 {
			i := x.rng.Intn(len(v1) - 1)
			m := append([]types.Transaction(nil), v1...)
			m[i], m[i+1] = m[i+1], m[i]
			check("v1-root:swap", c0, root(b.MinerPayouts, m), encEq(v1[i], v1[i+1]))
		}
		if len(v1) >= 1 {
			check("v1-root:drop-last", c0, root(b.MinerPayouts, v1[:len(v1)-1]), false)
			i := x.rng.Intn(len(v1))
			m := append(append([]types.Transaction(nil), v1[:i+1]...), v1[i:]...)
			check("v1-root:duplicate", c0, root(b.MinerPayouts, m), false)
		}
		if len(b.MinerPayouts) >= 1 {
			check("v1-root:duplicate-payout", c0, root(append(append([]types.SiacoinOutput(nil), b.MinerPayouts...), b.MinerPayouts[0]), v1), false)
			check("v1-root:drop-payout", c0, root(b.MinerPayouts[1:], v1), false)
		}
	}
}

// ---------------------------------------------------------------- the resolution-kind collision (known finding)

// c12Collision builds two different v2 transactions with the same semantic encoding: B renews
// contract X, A lets X expire and carries B's renewal bytes as arbitrary data. The semantic
// encoding writes a resolution without its type tag; a renewal starts with a 16-byte currency
// that an expiration transaction reads as (attestation count, arbitrary-data length).
func c12Collision(rng *rand.Rand) (a, b types.V2Transaction) {
	var parent types.V2FileContractElement
	rng.Read(parent.ID[:])
	rn := &types.V2FileContractRenewal{}
	rng.Read(rn.FinalRenterOutput.Address[:])
	rng.Read(rn.FinalHostOutput.Address[:])
	rn.FinalHostOutput.Value = types.Siacoins(uint32(1 + rng.Intn(100)))
	rn.NewContract.RenterOutput.Value = types.Siacoins(uint32(1 + rng.Intn(100)))
	rn.NewContract.ExpirationHeight = uint64(rng.Intn(100000))
	rng.Read(rn.NewContract.RenterPublicKey[:])
	fee := types.NewCurrency64(uint64(rng.Int63()))
	b = types.V2Transaction{FileContractResolutions: []types.V2FileContractResolution{{Parent: parent, Resolution: rn}}, MinerFee: fee}
	sem := func(t types.V2Transaction) []byte { return chain.Encode(types.V2TransactionSemantics(t)) }
	off := 8*6 + 8 + 32 // six empty lists, the resolution count, the parent id
	tail := 1 + 16      // foundation-address marker, miner fee
	n := uint64(len(sem(b)) - off - 16 - tail)
	rn.FinalRenterOutput.Value = types.NewCurrency(0, n) // n * 2^64 H: read back as (0 attestations, n bytes of arbitrary data)
	sb := sem(b)
	a = types.V2Transaction{
		FileContractResolutions: []types.V2FileContractResolution{{Parent: parent, Resolution: &types.V2FileContractExpiration{}}},
		ArbitraryData:           append([]byte(nil), sb[off+16:len(sb)-tail]...),
		MinerFee:                fee,
	}
	return a, b
}

// c12ValidCollision: on a live chain, a contract X past its expiration height can be resolved by an
// expiration (valid without any signature) or renewed by its parties; the pair below is BOTH-VALID on
// the same parent state and has one transaction id: a renewal paid entirely by its rollover whose final
// renter output is worth 648 * 2^64 H, and the expiration that carries the renewal's bytes as
// arbitrary data.
func c12ValidCollision(s *chain.Sim) (a, b types.V2Transaction, ok bool) {
	if !s.V2Allowed() {
		return
	}
	child := s.ChildHeight()
	var ids []types.FileContractID
	for id := range s.St.V2FC {
		ids = append(ids, id)
	}
	sort.Slice(ids, func(i, j int) bool { return bytes.Compare(ids[i][:], ids[j][:]) < 0 })
	for _, id := range ids {
		e := s.St.V2FC[id]
		fc := e.V2FileContract
		want := types.NewCurrency(0, 648)
		if child <= fc.ExpirationHeight || fc.RenterOutput.Value.Cmp(want) <= 0 {
			continue
		}
		rr := fc.RenterOutput.Value.Sub(want)
		v := rr // new contract value; its cost v + v/25 is paid by the two rollovers
		cost := v.Add(v.Div64(25))
		hr := cost.Sub(rr)
		if hr.Cmp(fc.HostOutput.Value) > 0 || v.Cmp(types.NewCurrency64(2)) < 0 {
			continue
		}
		nc := fc
		nc.RenterOutput.Value, nc.HostOutput.Value = v.Div64(2), v.Sub(v.Div64(2))
		nc.MissedHostValue, nc.TotalCollateral = types.ZeroCurrency, types.ZeroCurrency
		nc.ProofHeight, nc.ExpirationHeight, nc.RevisionNumber = child+1, child+3, 0
		s.SignContract(&nc, fc.RenterPublicKey, fc.HostPublicKey)
		rn := &types.V2FileContractRenewal{FinalRenterOutput: fc.RenterOutput, FinalHostOutput: fc.HostOutput, RenterRollover: rr, HostRollover: hr, NewContract: nc}
		rn.FinalRenterOutput.Value = want
		rn.FinalHostOutput.Value = fc.HostOutput.Value.Sub(hr)
		h := s.Tip.RenewalSigHash(*rn)
		rn.RenterSignature, rn.HostSignature = s.KeyFor(fc.RenterPublicKey).SignHash(h), s.KeyFor(fc.HostPublicKey).SignHash(h)
		b = types.V2Transaction{FileContractResolutions: []types.V2FileContractResolution{{Parent: e.Copy(), Resolution: rn}}}
		sb := chain.Encode(types.V2TransactionSemantics(b))
		off, tail := 8*6+8+32, 1+16
		if len(sb)-off-16-tail != 648 {
			continue
		}
		a = types.V2Transaction{
			FileContractResolutions: []types.V2FileContractResolution{{Parent: e.Copy(), Resolution: &types.V2FileContractExpiration{}}},
			ArbitraryData:           append([]byte(nil), sb[off+16:len(sb)-tail]...),
		}
		return a, b, true
	}
	return
}

func (x *c12Ctx) collision() {
	res := x.c.Res
	a, b := c12Collision(x.rng)
	cs := consensus.State{}
	x.compareV2(cs, a)
	x.compareV2(cs, b)
	res.Eval("collision", true)
	if a.ID() == b.ID() && a.FullHash() != b.FullHash() {
		res.Count("collision:reproduced")
		x.collisionReplay = map[string]any{"expiration_txn": fw.Hex(chain.Encode(a)), "renewal_txn": fw.Hex(chain.Encode(b)),
			"id_expiration": c12H(a.ID()), "id_renewal": c12H(b.ID()),
			"input_sighash_expiration": c12H(cs.InputSigHash(a)), "input_sighash_renewal": c12H(cs.InputSigHash(b))}
	} else {
		res.Count("collision:not-reproduced")
	}
}

// framingPairs: pairs of DIFFERENT v2 transactions that move bytes across the boundary between two adjacent
// variable-length parts of the semantic encoding (attestation key | value, last attestation value | arbitrary data,
// arbitrary data | the optional Foundation address). If the id encoding did not frame each part (length prefix,
// presence byte), the two transactions of a pair would get the same id and the same input sighash — a signature on
// one would authorise the other. Single-field mutations cannot see this: the pair differs in two coordinated places.
func (x *c12Ctx) framingPairs() {
	res := x.c.Res
	cs := consensus.State{}
	var A types.Address
	x.rng.Read(A[:])
	A[31] = 0 // the collision under an unframed encoding needs the address to end in the "absent" flag byte
	data := make([]byte, 5+x.rng.Intn(20))
	x.rng.Read(data)
	base := types.V2Transaction{MinerFee: types.NewCurrency64(uint64(1 + x.rng.Intn(1000)))}
	type pair struct {
		name string
		a, b types.V2Transaction
	}
	var ps []pair
	{
		a, b := base, base
		a.ArbitraryData = append([]byte{}, data...)
		a.NewFoundationAddress = &A
		b.ArbitraryData = append(append(append([]byte{}, data...), 1), A[:31]...)
		ps = append(ps, pair{"arbitrary-data|foundation-address", a, b})
	}
	att := func(key string, val []byte) types.Attestation {
		return types.Attestation{PublicKey: types.PublicKey{7}, Key: key, Value: val}
	}
	{
		a, b := base, base
		a.Attestations = []types.Attestation{att("host", []byte("announce:1234"))}
		b.Attestations = []types.Attestation{att("hosta", []byte("nnounce:1234"))}
		ps = append(ps, pair{"attestation-key|value", a, b})
	}
	{
		a, b := base, base
		a.Attestations = []types.Attestation{att("k", []byte("value-and"))}
		a.ArbitraryData = []byte("-data")
		b.Attestations = []types.Attestation{att("k", []byte("value"))}
		b.ArbitraryData = []byte("-and-data")
		ps = append(ps, pair{"attestation-value|arbitrary-data", a, b})
	}
	{
		a, b := base, base
		a.Attestations = []types.Attestation{att("k1", []byte("v1")), att("k2", []byte("v2"))}
		b.Attestations = []types.Attestation{att("k1", []byte("v1k2v2"))}
		ps = append(ps, pair{"two-attestations|one", a, b})
	}
	for _, p := range ps {
		res.Eval("framing "+p.name, true)
		res.Count("framing-pair:" + p.name)
		x.compareV2(cs, p.a)
		x.compareV2(cs, p.b)
		if p.a.FullHash() == p.b.FullHash() {
			continue // not different after all
		}
		if p.a.ID() == p.b.ID() || cs.InputSigHash(p.a) == cs.InputSigHash(p.b) {
			res.Violate(fw.Violation{Key: "c12-v2-id-collision:framing:" + p.name,
				What:     "two different v2 transactions (bytes moved across the boundary " + p.name + ") have the same transaction id / input sighash: the id encoding does not frame its variable-length parts",
				Replay:   map[string]any{"a": fw.Hex(chain.Encode(p.a)), "b": fw.Hex(chain.Encode(p.b)), "id_a": c12H(p.a.ID()), "id_b": c12H(p.b.ID())},
				Expected: "different ids", Observed: "equal"})
		}
	}
}

// collisionOnChain looks for the both-valid pair on the current tip.
func (x *c12Ctx) collisionOnChain(s *chain.Sim, ts time.Time, rp map[string]any) {
	if x.collisionReplay == nil || x.collisionReplay["both_valid"] != nil {
		return
	}
	a, b, ok := c12ValidCollision(s)
	if !ok || a.ID() != b.ID() {
		return
	}
	valid := func(t types.V2Transaction) bool {
		blk := types.Block{Timestamp: ts, V2: &types.V2BlockData{Transactions: []types.V2Transaction{t}}}
		s.Seal(&blk, types.Address{1})
		return consensus.ValidateBlock(s.Tip, blk, consensus.V1BlockSupplement{}) == nil
	}
	va, vb := valid(a), valid(b)
	x.c.Res.Count(fmt.Sprintf("collision-on-chain:expiration-valid=%v,renewal-valid=%v", va, vb))
	if va && vb {
		x.compareV2(s.Tip, a)
		x.compareV2(s.Tip, b)
		x.collisionReplay["both_valid"] = map[string]any{"chain": rp, "expiration_txn": fw.Hex(chain.Encode(a)), "renewal_txn": fw.Hex(chain.Encode(b)), "id": c12H(a.ID())}
	}
}

func (x *c12Ctx) reportCollision() {
	if x.collisionReplay == nil {
		return
	}
	obs := "equal ids, equal input sighashes"
	if x.collisionReplay["both_valid"] != nil {
		obs += "; a pair that is BOTH-VALID on one parent state (each accepted by ValidateBlock in a block of its own) is included"
	}
	x.c.Res.Violate(fw.Violation{
		Key:      "c12-v2-id-collision:resolution-kind",
		What:     "two different v2 transactions (an expiration carrying arbitrary data / a renewal) have the same transaction id and the same input sighash: V2TransactionSemantics writes resolutions without their type tag",
		Replay:   x.collisionReplay,
		Expected: "different ids and different input sighashes (the resolution kind and the arbitrary data are effect-bearing)",
		Observed: obs,
	})
}

// ---------------------------------------------------------------- run

func runC12(c *fw.Ctx) {
	res := c.Res
	res.Rule = "generated chains (modes v1 / mixed / v2 / legacy) and reflection-built random transactions: (a) transaction id, every derived id (outputs, contracts, attestations, claims, contract payouts, renewal, miner/foundation outputs, v1 valid/missed outputs), every sighash (v2 input/contract/renewal/attestation, v1 whole/partial with the era prefix taken from the statement), block id, v1 Merkle root and v2 commitment compared byte for byte with the Lean model running real BLAKE2b; (b) every leaf field (and every slice length / pointer presence) of every transaction shape mutated once: id and input sighash changed <=> the field is effect-bearing by the classification written from the property text (witnesses, contract and renewal signatures, parent contents other than ids, state-element Merkle proofs, v1 signatures are not); (c) all ids derived in a block pairwise distinct; (d) every content field of generated blocks mutated with ParentID/Nonce/Timestamp(/V2.Commitment) kept: different id or ValidateBlock rejects; v2 blocks rejected on a parent state changed in one committed field; (e) the known resolution-kind collision replayed. Non-trivial = every mutation that changes the encoding."
	x := &c12Ctx{c: c, rng: rand.New(rand.NewSource(c.Seed*7919 + 12)), seen: map[string]bool{}, cmpEvery: c.Budget(3, 4)}
	if c.Replay != "" {
		c12Replay(x)
		return
	}
	x.collision()
	x.framingPairs()
	nChains := c.Budget(10, 100)
	blocks := c.Budget(36, 60)
	sweepEvery := c.Budget(3, 1)
	for i := 0; i < nChains; i++ {
		mode := ledgerModes[i%len(ledgerModes)]
		seed := c.Seed*6700417 + int64(i)
		s := chain.NewSim(rand.New(rand.NewSource(seed)), mode)
		res.Count("chains:" + mode)
		for k := 0; k < blocks; k++ {
			p := s.BuildBlock()
			cs := s.Tip
			height := s.ChildHeight()
			rp := map[string]any{"mode": mode, "seed": seed, "height": height}
			b := p.Block
			for j, t := range b.Transactions {
				x.compareV1(cs, t)
				res.Count("txn:v1")
				if (k+j)%sweepEvery == 0 {
					x.sweepV1(t, fmt.Sprintf("%s/%d/%d/v1[%d]", mode, seed, height, j), 0)
				}
			}
			for j, t := range b.V2Transactions() {
				x.compareV2(cs, t)
				res.Count("txn:v2")
				if (k+j)%sweepEvery == 0 {
					x.sweepV2(cs, t, fmt.Sprintf("%s/%d/%d/v2[%d]", mode, seed, height, j), 0)
				}
			}
			x.distinct(b, rp)
			// block id, outputs, commitment
			hd := b.Header()
			bid := b.ID()
			x.op(fmt.Sprintf("block-id %s %d %d %s", c12H(hd.ParentID), hd.Nonce, uint64(hd.Timestamp.Unix()), c12H(hd.Commitment)), c12H(bid))
			var mo []string
			for i := range b.MinerPayouts {
				mo = append(mo, c12H(bid.MinerOutputID(i)))
			}
			x.op(fmt.Sprintf("block-outs %s %d", c12H(bid), len(b.MinerPayouts)), c12Join(mo, ",")+" "+c12H(bid.FoundationOutputID()))
			if b.V2 == nil {
				var encs []string
				for _, mp := range b.MinerPayouts {
					encs = append(encs, c12Hex(chain.Encode(types.V1SiacoinOutput(mp))))
				}
				for _, t := range b.Transactions {
					encs = append(encs, c12Hex(chain.Encode(t)))
				}
				x.op(fmt.Sprintf("merkle-v1 %d ", len(b.MinerPayouts))+strings.Join(encs, " "), c12H(hd.Commitment))
				res.Count("block:v1")
			} else {
				encs := []string{c12Hex(chain.Encode(cs)), c12H(p.Miner), fmt.Sprint(len(b.Transactions))}
				for _, t := range b.Transactions {
					encs = append(encs, c12Hex(chain.Encode(t)))
				}
				for _, t := range b.V2Transactions() {
					encs = append(encs, c12Hex(chain.Encode(t)))
				}
				x.op("commitment "+strings.Join(encs, " "), c12H(cs.Commitment(p.Miner, b.Transactions, b.V2Transactions())))
				res.Count("block:v2")
			}
			x.commitmentMutations(cs, p, rp)
			if k%2 == 0 {
				x.blockMutations(s, p, rp, c.Budget(8, 40))
			}
			x.collisionOnChain(s, p.Block.Timestamp, rp)
			if _, err := s.Apply(p.Block, p.Supp); err != nil {
				res.Note("generator produced a rejected block (%s seed %d height %d): %v", mode, seed, height, err)
				res.Count("generator-rejected")
				break
			}
		}
		for k, v := range s.Counts {
			res.CountN("gen:"+k, v)
		}
	}
	x.reportCollision()
	// reflection-built random transactions
	g := &c11Gen{rng: x.rng}
	nRand := c.Budget(150, 3000)
	for i := 0; i < nRand; i++ {
		cs := consensus.State{Network: &consensus.Network{}}
		cs.Network.HardforkASIC.Height = uint64(x.rng.Intn(4))
		cs.Network.HardforkFoundation.Height = cs.Network.HardforkASIC.Height + uint64(x.rng.Intn(4))
		cs.Network.HardforkV2.AllowHeight = cs.Network.HardforkFoundation.Height + uint64(x.rng.Intn(4))
		cs.Index.Height = uint64(x.rng.Intn(14))
		res.Count(fmt.Sprintf("random-era-prefix:%x", c12EraPrefix(cs)))
		if i%2 == 0 {
			var t types.V2Transaction
			g.fill(reflect.ValueOf(&t).Elem(), 3)
			x.compareV2(cs, t)
			x.sweepV2(cs, t, fmt.Sprintf("random/%d", i), c.Budget(40, 0))
			res.Count("txn:random-v2")
		} else {
			var t types.Transaction
			g.fill(reflect.ValueOf(&t).Elem(), 3)
			// covered fields: mostly valid indices, sometimes beyond the slice (Go panics)
			for k := range t.Signatures {
				cf := &t.Signatures[k].CoveredFields
				fix := func(xs []uint64, n int) {
					for j := range xs {
						if n > 0 && x.rng.Intn(8) != 0 {
							xs[j] %= uint64(n)
						}
					}
				}
				fix(cf.SiacoinInputs, len(t.SiacoinInputs))
				fix(cf.SiacoinOutputs, len(t.SiacoinOutputs))
				fix(cf.FileContracts, len(t.FileContracts))
				fix(cf.FileContractRevisions, len(t.FileContractRevisions))
				fix(cf.StorageProofs, len(t.StorageProofs))
				fix(cf.SiafundInputs, len(t.SiafundInputs))
				fix(cf.SiafundOutputs, len(t.SiafundOutputs))
				fix(cf.MinerFees, len(t.MinerFees))
				fix(cf.ArbitraryData, len(t.ArbitraryData))
				fix(cf.Signatures, len(t.Signatures))
			}
			x.compareV1(cs, t)
			x.sweepV1(t, fmt.Sprintf("random/%d", i), c.Budget(40, 0))
			res.Count("txn:random-v1")
		}
	}
	if len(x.ops) > 0 {
		c.Compare(x.ops, x.outs)
		res.Sample(map[string]string{"model_op": x.ops[0][:min(len(x.ops[0]), 600)], "go": x.outs[0][:min(len(x.outs[0]), 600)]})
	}
	res.Sample(map[string]any{"distribution_keys": fw.SortedKeys(res.Distribution)})
}

// c12Replay re-runs one stored case: a field mutation (txn + mutant + field), the collision, or —
// for block-level cases — the seeded sweep.
func c12Replay(x *c12Ctx) {
	res := x.c.Res
	res.Rule = "replay of one stored case"
	raw, err := readFile(x.c.Replay)
	if err != nil {
		res.Note("cannot read replay: %v", err)
		return
	}
	if bytes.Contains(raw, []byte("c12-v2-id-collision")) {
		x.collision()
		x.reportCollision()
		return
	}
	var st struct {
		Key    string `json:"key"`
		Replay struct {
			Field  string `json:"field"`
			Txn    string `json:"txn"`
			Mutant string `json:"mutant"`
		} `json:"replay"`
	}
	if json.Unmarshal(raw, &st) == nil && st.Replay.Txn != "" && (st.Replay.Mutant != "" || strings.HasPrefix(st.Key, "c12-sighash-era-collision")) {
		tb, e1 := hex.DecodeString(st.Replay.Txn)
		mb, e2 := hex.DecodeString(st.Replay.Mutant)
		path := strings.SplitN(st.Replay.Field, "#", 2)[0]
		if e1 == nil && e2 == nil {
			rp := map[string]any{"field": st.Replay.Field, "txn": st.Replay.Txn, "mutant": st.Replay.Mutant}
			res.Eval("replay/"+st.Replay.Field, true)
			if strings.HasPrefix(st.Key, "c12-sighash-era-collision") {
				var t types.Transaction
				d1 := types.NewBufDecoder(tb)
				t.DecodeFrom(d1)
				if d1.Err() == nil {
					x.eraOracle(t, "replay")
					return
				}
			}
			if strings.HasPrefix(st.Key, "c12-derived-id-") {
				name := st.Replay.Field
				if strings.Contains(st.Key, ":v2-") {
					var t, m types.V2Transaction
					d1, d2 := types.NewBufDecoder(tb), types.NewBufDecoder(mb)
					t.DecodeFrom(d1)
					m.DecodeFrom(d2)
					if d1.Err() == nil && d2.Err() == nil {
						want := c12EffectBearingV2(path)
						x.derivedOracle(c12DerivedV2(t), c12DerivedV2(m), want, want && t.ID() == m.ID(), path, name, rp)
						return
					}
				} else {
					var t, m types.Transaction
					d1, d2 := types.NewBufDecoder(tb), types.NewBufDecoder(mb)
					t.DecodeFrom(d1)
					m.DecodeFrom(d2)
					if d1.Err() == nil && d2.Err() == nil {
						want := c12EffectBearingV1(path)
						x.derivedOracle(c12DerivedV1(t), c12DerivedV1(m), want, want && t.ID() == m.ID(), path, name, rp)
						return
					}
				}
			}
			if strings.Contains(st.Key, ":v1.") {
				var t, m types.Transaction
				d1, d2 := types.NewBufDecoder(tb), types.NewBufDecoder(mb)
				t.DecodeFrom(d1)
				m.DecodeFrom(d2)
				if d1.Err() == nil && d2.Err() == nil {
					want, changed := c12EffectBearingV1(path), t.ID() != m.ID()
					if want != changed {
						res.Violate(fw.Violation{Key: st.Key, What: "replayed: v1 id change does not match the classification of " + st.Replay.Field, Replay: rp})
					}
					return
				}
			} else {
				var t, m types.V2Transaction
				d1, d2 := types.NewBufDecoder(tb), types.NewBufDecoder(mb)
				t.DecodeFrom(d1)
				m.DecodeFrom(d2)
				if d1.Err() == nil && d2.Err() == nil {
					cs := consensus.State{}
					want := c12EffectBearingV2(path)
					changed := t.ID() != m.ID()
					if strings.Contains(st.Key, "sighash") {
						changed = cs.InputSigHash(t) != cs.InputSigHash(m)
					}
					if want != changed {
						res.Violate(fw.Violation{Key: st.Key, What: "replayed: id / sighash change does not match the classification of " + st.Replay.Field, Replay: rp})
					}
					x.compareV2(cs, t)
					x.compareV2(cs, m)
					if len(x.ops) > 0 {
						x.c.Compare(x.ops, x.outs)
					}
					return
				}
			}
		}
	}
	res.Note("replay of this case kind re-runs the whole seeded sweep")
	x.c.Replay = ""
	runC12(x.c)
}
